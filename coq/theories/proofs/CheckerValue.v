(** Value-level rules of the checker decide equality of the unfolded trees.
    Also: fuel monotonicity of [unfold]. *)
From Coq Require Import ZArith ZifyBool ZifyN Lia.
From WacV Require Import Str Types Checker SubSpec CheckerEq SubSpecProofs.
Set Warnings "-unused-intro-pattern".

(** * Fuel monotonicity of the denotation *)
Definition ext_some {A B} (U U' : A -> option B) : Prop := forall x y, U x = Some y -> U' x = Some y.

Lemma all_some_map_ext {A B} (U U' : A -> option B) (l : list A) l' :
  ext_some U U' -> all_some (map U l) = Some l' -> all_some (map U' l) = Some l'.
Proof.
  intros He. revert l'. induction l as [|x l IH]; intros l'; cbn [map all_some]; [auto|].
  destruct (U x) as [y|] eqn:E; [|discriminate]. rewrite (He _ _ E).
  destruct (all_some (map U l)) as [r|]; [|discriminate]. intro H. now rewrite (IH _ eq_refl).
Qed.
Lemma omap_ext {A B} (U U' : A -> option B) o o' : ext_some U U' -> omap U o = Some o' -> omap U' o = Some o'.
Proof.
  intros He. destruct o as [x|]; cbn [omap]; [|auto].
  destruct (U x) as [y|] eqn:E; [|discriminate]. now rewrite (He _ _ E).
Qed.
Lemma omap_ext_some {A B} (U U' : A -> option B) : ext_some U U' -> ext_some (omap U) (omap U').
Proof. intros He o o'. now apply omap_ext. Qed.
Lemma map_snd_ext {K A B} (U U' : A -> option B) (l : list (K * A)) l' :
  ext_some U U' -> map_snd U l = Some l' -> map_snd U' l = Some l'.
Proof.
  intros He. unfold map_snd. apply all_some_map_ext. intros [k x] y. cbn [fst snd].
  destruct (U x) as [z|] eqn:E; [|discriminate]. now rewrite (He _ _ E).
Qed.

Lemma res_name_of_S f t : forall r n, res_name_of f t r = Some n -> res_name_of (S f) t r = Some n.
Proof.
  induction f as [|f IH]; intros r n; [discriminate|].
  cbn [res_name_of]. destruct (get_res t r) as [x|]; [|discriminate].
  destruct (res_source x) as [s|]; [|auto]. intro H. apply IH in H. exact H.
Qed.

Lemma option_map_ext {A B} (g : A -> B) (o o' : option A) x :
  (forall y, o = Some y -> o' = Some y) -> option_map g o = Some x -> option_map g o' = Some x.
Proof. destruct o as [y|]; [|discriminate]. intros H. now rewrite (H _ eq_refl). Qed.

Definition unfold_vt_body (U : valtype -> option vtree) (rn : id -> option str) (t : types) (v : valtype) : option vtree :=
  match v with
  | VPrim p => Some (VTPrim p)
  | VBorrow r => option_map VTBorrow (rn r)
  | VOwn r => option_map VTOwn (rn r)
  | VDefined d =>
    match get_def t d with
    | None => None
    | Some (DTuple l) => option_map VTTuple (all_some (map U l))
    | Some (DList x) => option_map VTList (U x)
    | Some (DFsl x n) => option_map (fun y => VTFsl y n) (U x)
    | Some (DOption x) => option_map VTOption (U x)
    | Some (DResult o e) =>
      match omap U o, omap U e with Some o', Some e' => Some (VTResult o' e') | _, _ => None end
    | Some (DVariant c) => option_map VTVariant (map_snd (omap U) c)
    | Some (DRecord fs) => option_map VTRecord (map_snd U fs)
    | Some (DFlags l) => Some (VTFlags l)
    | Some (DEnum l) => Some (VTEnum l)
    | Some (DAlias x) => U x
    | Some (DStream o) => option_map VTStream (omap U o)
    | Some (DFuture o) => option_map VTFuture (omap U o)
    end
  end.
Lemma unfold_vt_eq f t v :
  unfold_vt (S f) t v = unfold_vt_body (unfold_vt f t) (res_name_of (S f) t) t v.
Proof. reflexivity. Qed.

Lemma unfold_vt_body_ext U U' rn rn' t v tr :
  ext_some U U' -> ext_some rn rn' -> unfold_vt_body U rn t v = Some tr -> unfold_vt_body U' rn' t v = Some tr.
Proof.
  intros He Hr. unfold unfold_vt_body. destruct v as [p|r|r|d]; [auto | | |].
  - apply option_map_ext. intro y. apply Hr.
  - apply option_map_ext. intro y. apply Hr.
  - destruct (get_def t d) as [x|]; [|discriminate].
    destruct x; try (apply option_map_ext; intro y); auto.
    + now apply all_some_map_ext.
    + destruct (omap U ok) as [o'|] eqn:E1; [|discriminate].
      destruct (omap U err) as [e'|] eqn:E2; [|discriminate].
      now rewrite (omap_ext _ _ _ _ He E1), (omap_ext _ _ _ _ He E2).
    + apply map_snd_ext. now apply omap_ext_some.
    + now apply map_snd_ext.
    + now apply omap_ext.
    + now apply omap_ext.
Qed.

Lemma unfold_vt_S f t : forall v tr, unfold_vt f t v = Some tr -> unfold_vt (S f) t v = Some tr.
Proof.
  induction f as [|f IH]; intros v tr; [discriminate|].
  rewrite (unfold_vt_eq f), (unfold_vt_eq (S f)). apply unfold_vt_body_ext; [exact IH|].
  intros r n. apply res_name_of_S.
Qed.
Lemma unfold_vt_mono f f' t v tr : (f <= f')%nat -> unfold_vt f t v = Some tr -> unfold_vt f' t v = Some tr.
Proof. induction 1 as [|m Hle IH]; [auto|]. intro Hu. apply unfold_vt_S. auto. Qed.
Lemma res_name_of_mono f f' t r n : (f <= f')%nat -> res_name_of f t r = Some n -> res_name_of f' t r = Some n.
Proof. induction 1 as [|m Hle IH]; [auto|]. intro Hu. apply res_name_of_S. auto. Qed.

(** * Deciding *)
Definition decides (r : R unit) (P : Prop) : Prop := (r = Ok tt /\ P) \/ ((exists e, r = Err e) /\ ~ P).

Lemma decides_iff r (P Q : Prop) : (P <-> Q) -> decides r P -> decides r Q.
Proof. unfold decides. intros H [[? ?]|[? ?]]; [left | right]; tauto. Qed.
Lemma decides_ok (P : Prop) : P -> decides ok P.
Proof. left. split; [reflexivity | assumption]. Qed.
Lemma decides_err e (P : Prop) : ~ P -> decides (Err e) P.
Proof. right. split; [eauto | assumption]. Qed.
Lemma decides_bind r1 r2 (P1 P2 : Prop) : decides r1 P1 -> decides r2 P2 -> decides (_ <- r1 ;; r2) (P1 /\ P2).
Proof.
  intros [[-> H1]|[[e ->] H1]] H2; cbn [bind].
  - eapply decides_iff; [|exact H2]. tauto.
  - apply decides_err. tauto.
Qed.
Lemma decides_if (c : bool) e r (P Q : Prop) : (c = true -> ~ Q) -> (c = false -> decides r P) -> (c = false -> (P <-> Q)) ->
  decides (if c then Err e else r) Q.
Proof.
  destruct c; intros H1 H2 H3.
  - apply decides_err. auto.
  - eapply decides_iff; [apply H3 | apply H2]; reflexivity.
Qed.
Lemma decides_is_ok r (P : Prop) : decides r P -> (is_ok r = true <-> P).
Proof. intros [[-> H]|[[e ->] H]]; cbn [is_ok]; intuition discriminate. Qed.

Lemma lookup_tag {A} tag (l : list A) i x : lookup tag l i = Some x -> id_tag i = tag.
Proof. unfold lookup. destruct (id_tag i =? tag) eqn:E; [|discriminate]. intros _. now apply N.eqb_eq. Qed.

Lemma all_some_length {A} (l : list (option A)) l' : all_some l = Some l' -> length l' = length l.
Proof.
  revert l'; induction l as [|[x|] l IH]; intros l'; cbn [all_some]; try discriminate.
  - intros H; injection H as <-; reflexivity.
  - destruct (all_some l) as [r|]; [|discriminate]. intros H; injection H as <-. cbn. f_equal. now apply IH.
Qed.
Lemma map_snd_length {K A B} (U : A -> option B) (l : list (K * A)) l' : map_snd U l = Some l' -> length l' = length l.
Proof. unfold map_snd. intro H. apply all_some_length in H. now rewrite map_length in H. Qed.

(** head constructor of a tree *)
Definition vhead (t : vtree) : N :=
  match t with
  | VTPrim _ => 0 | VTBorrow _ => 1 | VTOwn _ => 2 | VTTuple _ => 3 | VTList _ => 4 | VTFsl _ _ => 5 | VTOption _ => 6
  | VTResult _ _ => 7 | VTVariant _ => 8 | VTRecord _ => 9 | VTFlags _ => 10 | VTEnum _ => 11 | VTStream _ => 12
  | VTFuture _ => 13
  end.

Section Value.
  Variables at_ bt : types.
  Hypothesis same : t_tag at_ = t_tag bt -> at_ = bt.

  Definition nonalias (t : types) (v : valtype) : Prop :=
    match v with
    | VDefined d => exists x, get_def t d = Some x /\ forall y, x <> DAlias y
    | _ => True
    end.

  Lemma resolve_vt_spec t g : forall F v tr, (g <= F)%nat -> unfold_vt g t v = Some tr ->
    exists v', resolve_vt F t v = Ok v' /\ unfold_vt g t v' = Some tr /\ nonalias t v'.
  Proof.
    induction g as [|g IH]; intros F v tr HF Hu; [discriminate|].
    destruct F as [|F]; [lia|].
    destruct v as [p|r|r|d]; try (exists (VPrim p) + exists (VBorrow r) + exists (VOwn r); cbn [resolve_vt nonalias]; auto; fail).
    rewrite unfold_vt_eq in Hu. cbn [unfold_vt_body] in Hu. cbn [resolve_vt].
    destruct (get_def t d) as [x|] eqn:E; [|discriminate]. cbn [idx bind].
    destruct x; try (exists (VDefined d); split; [reflexivity|]; split;
                     [rewrite unfold_vt_eq; cbn [unfold_vt_body]; rewrite E; exact Hu
                     | cbn [nonalias]; eexists; split; [exact E | intros y; discriminate]]; fail).
    destruct (IH F v tr ltac:(lia) Hu) as [v' [H1 [H2 H3]]]. exists v'. split; [exact H1|]. split; [|exact H3].
    now apply unfold_vt_S.
  Qed.

  Lemma resolve_res_spec t g : forall F r n, (g <= F)%nat -> res_name_of g t r = Some n ->
    exists r' x, resolve_res F t r = Ok r' /\ get_res t r' = Some x /\ res_name x = n.
  Proof.
    induction g as [|g IH]; intros F r n HF Hu; [discriminate|].
    destruct F as [|F]; [lia|]. cbn [res_name_of] in Hu. cbn [resolve_res].
    destruct (get_res t r) as [x|] eqn:E; [|discriminate]. cbn [idx bind].
    destruct (res_source x) as [s|].
    - apply (IH F s n ltac:(lia) Hu).
    - exists r, x. injection Hu as <-. auto.
  Qed.

  Lemma resource_spec g F k a b na nb : (g <= F)%nat ->
    res_name_of g at_ a = Some na -> res_name_of g bt b = Some nb -> decides (resource F k at_ a bt b) (na = nb).
  Proof.
    intros HF Ha Hb. unfold resource. destruct (id_eqb a b) eqn:E.
    - apply ideqb_eq in E as <-. apply decides_ok.
      assert (Et : at_ = bt).
      { destruct g as [|g]; [discriminate|]. cbn [res_name_of] in Ha, Hb.
        destruct (get_res at_ a) eqn:E1; [|discriminate]. destruct (get_res bt a) eqn:E2; [|discriminate].
        apply lookup_tag in E1, E2. apply same. congruence. }
      rewrite <- Et in Hb. congruence.
    - destruct (resolve_res_spec at_ g F a na HF Ha) as [ra [xa [H1 [H2 H3]]]].
      destruct (resolve_res_spec bt g F b nb HF Hb) as [rb [xb [H4 [H5 H6]]]].
      rewrite H1. cbn [bind]. rewrite H2. cbn [idx bind]. rewrite H4. cbn [bind]. rewrite H5. cbn [idx bind].
      subst. destruct (str_eqb (res_name xa) (res_name xb)) eqn:En.
      + apply decides_ok. now apply seqb_eq.
      + apply decides_err. now apply seqb_neq.
  Qed.

  Section Rules.
    Variable rec : valtype -> valtype -> R unit.
    Variable k : variance.
    Variables U U' : valtype -> option vtree.
    Hypothesis Hrec : forall u v tu tv, U u = Some tu -> U' v = Some tv -> decides (rec u v) (tu = tv).

    Lemma tuple_items_spec : forall x y lx ly,
      all_some (map U x) = Some lx -> all_some (map U' y) = Some ly -> length x = length y ->
      decides (tuple_items rec x y) (lx = ly).
    Proof.
      induction x as [|u x IH]; intros [|v y] lx ly Hx Hy Hl; cbn [length] in Hl; try discriminate.
      - cbn in Hx, Hy. injection Hx as <-. injection Hy as <-. now apply decides_ok.
      - cbn [map all_some] in Hx, Hy. cbn [tuple_items].
        destruct (U u) as [tu|] eqn:Eu; [|discriminate]. destruct (all_some (map U x)) as [lx'|] eqn:Ex; [|discriminate].
        destruct (U' v) as [tv|] eqn:Ev; [|discriminate]. destruct (all_some (map U' y)) as [ly'|] eqn:Ey; [|discriminate].
        injection Hx as <-. injection Hy as <-.
        eapply decides_iff; [|apply decides_bind; [apply (Hrec _ _ _ _ Eu Ev) | apply (IH y lx' ly' eq_refl Ey); lia]].
        split; [intros [-> ->]; reflexivity | intros H; injection H; auto].
    Qed.
    Lemma tuple_spec x y lx ly :
      all_some (map U x) = Some lx -> all_some (map U' y) = Some ly -> decides (tuple rec x y) (lx = ly).
    Proof.
      intros Hx Hy. unfold tuple. destruct (Nat.eqb (length x) (length y)) eqn:E; cbn [negb].
      - apply Nat.eqb_eq in E. now apply tuple_items_spec.
      - apply decides_err. apply Nat.eqb_neq in E. intros ->. apply E.
        apply all_some_length in Hx, Hy. rewrite map_length in Hx, Hy. congruence.
    Qed.

    Lemma record_fields_spec : forall x y lx ly,
      map_snd U x = Some lx -> map_snd U' y = Some ly -> length x = length y ->
      decides (record_fields rec x y) (lx = ly).
    Proof.
      unfold map_snd.
      induction x as [|[an u] x IH]; intros [|[bn v] y] lx ly Hx Hy Hl; cbn [length] in Hl; try discriminate.
      - cbn in Hx, Hy. injection Hx as <-. injection Hy as <-. now apply decides_ok.
      - cbn [map all_some fst snd] in Hx, Hy. cbn [record_fields].
        destruct (U u) as [tu|] eqn:Eu; [|discriminate].
        destruct (all_some (map _ x)) as [lx'|] eqn:Ex; [|discriminate].
        destruct (U' v) as [tv|] eqn:Ev; [|discriminate].
        destruct (all_some (map _ y)) as [ly'|] eqn:Ey; [|discriminate].
        injection Hx as <-. injection Hy as <-.
        destruct (str_eqb an bn) eqn:En; cbn [negb].
        + apply seqb_eq in En as ->.
          eapply decides_iff; [|apply decides_bind; [apply (Hrec _ _ _ _ Eu Ev) | apply (IH y lx' ly' eq_refl Ey); lia]].
          split; [intros [-> ->]; reflexivity | intros H; injection H; auto].
        + apply decides_err. apply seqb_neq in En. intros H. injection H. congruence.
    Qed.
    Lemma record_spec x y lx ly :
      map_snd U x = Some lx -> map_snd U' y = Some ly -> decides (record rec x y) (lx = ly).
    Proof.
      intros Hx Hy. unfold record. destruct (Nat.eqb (length x) (length y)) eqn:E; cbn [negb].
      - apply Nat.eqb_eq in E. now apply record_fields_spec.
      - apply decides_err. apply Nat.eqb_neq in E. intros ->. apply E.
        apply map_snd_length in Hx, Hy. congruence.
    Qed.

    Lemma variant_payload_spec o p o' p' :
      omap U o = Some o' -> omap U' p = Some p' -> decides (variant_payload rec k o p) (o' = p').
    Proof.
      destruct o as [u|], p as [v|]; cbn [omap variant_payload]; intros Ho Hp.
      - destruct (U u) as [tu|] eqn:Eu; [|discriminate]. destruct (U' v) as [tv|] eqn:Ev; [|discriminate].
        injection Ho as <-. injection Hp as <-.
        eapply decides_iff; [|apply (Hrec _ _ _ _ Eu Ev)]. split; [congruence | intros H; now injection H].
      - destruct (U u); [|discriminate]. injection Ho as <-. injection Hp as <-.
        destruct k; cbn [ef]; apply decides_err; discriminate.
      - destruct (U' v); [|discriminate]. injection Ho as <-. injection Hp as <-.
        destruct k; cbn [ef]; apply decides_err; discriminate.
      - injection Ho as <-. injection Hp as <-. now apply decides_ok.
    Qed.
    Lemma result_arm_spec okarm o p o' p' :
      omap U o = Some o' -> omap U' p = Some p' -> decides (result_arm rec k okarm o p) (o' = p').
    Proof.
      destruct o as [u|], p as [v|]; cbn [omap result_arm]; intros Ho Hp.
      - destruct (U u) as [tu|] eqn:Eu; [|discriminate]. destruct (U' v) as [tv|] eqn:Ev; [|discriminate].
        injection Ho as <-. injection Hp as <-.
        eapply decides_iff; [|apply (Hrec _ _ _ _ Eu Ev)]. split; [congruence | intros H; now injection H].
      - destruct (U u); [|discriminate]. injection Ho as <-. injection Hp as <-.
        destruct k; cbn [ef]; apply decides_err; discriminate.
      - destruct (U' v); [|discriminate]. injection Ho as <-. injection Hp as <-.
        destruct k; cbn [ef]; apply decides_err; discriminate.
      - injection Ho as <-. injection Hp as <-. now apply decides_ok.
    Qed.
    Lemma payload_spec o p o' p' :
      omap U o = Some o' -> omap U' p = Some p' -> decides (payload rec o p) (o' = p').
    Proof.
      destruct o as [u|], p as [v|]; cbn [omap payload]; intros Ho Hp.
      - destruct (U u) as [tu|] eqn:Eu; [|discriminate]. destruct (U' v) as [tv|] eqn:Ev; [|discriminate].
        injection Ho as <-. injection Hp as <-.
        eapply decides_iff; [|apply (Hrec _ _ _ _ Eu Ev)]. split; [congruence | intros H; now injection H].
      - destruct (U u); [|discriminate]. injection Ho as <-. injection Hp as <-. apply decides_err; discriminate.
      - destruct (U' v); [|discriminate]. injection Ho as <-. injection Hp as <-. apply decides_err; discriminate.
      - injection Ho as <-. injection Hp as <-. now apply decides_ok.
    Qed.

    Lemma variant_cases_spec : forall x y lx ly,
      map_snd (omap U) x = Some lx -> map_snd (omap U') y = Some ly -> length x = length y ->
      decides (variant_cases rec k x y) (lx = ly).
    Proof.
      unfold map_snd.
      induction x as [|[an u] x IH]; intros [|[bn v] y] lx ly Hx Hy Hl; cbn [length] in Hl; try discriminate.
      - cbn in Hx, Hy. injection Hx as <-. injection Hy as <-. now apply decides_ok.
      - cbn [map all_some fst snd] in Hx, Hy. cbn [variant_cases].
        destruct (omap U u) as [tu|] eqn:Eu; [|discriminate].
        destruct (all_some (map _ x)) as [lx'|] eqn:Ex; [|discriminate].
        destruct (omap U' v) as [tv|] eqn:Ev; [|discriminate].
        destruct (all_some (map _ y)) as [ly'|] eqn:Ey; [|discriminate].
        injection Hx as <-. injection Hy as <-.
        destruct (str_eqb an bn) eqn:En; cbn [negb].
        + apply seqb_eq in En as ->.
          eapply decides_iff; [|apply decides_bind; [apply (variant_payload_spec _ _ _ _ Eu Ev) | apply (IH y lx' ly' eq_refl Ey); lia]].
          split; [intros [-> ->]; reflexivity | intros H; injection H; auto].
        + apply decides_err. apply seqb_neq in En. intros H. injection H. congruence.
    Qed.
    Lemma variant_spec x y lx ly :
      map_snd (omap U) x = Some lx -> map_snd (omap U') y = Some ly -> decides (variant rec k x y) (lx = ly).
    Proof.
      intros Hx Hy. unfold variant. destruct (Nat.eqb (length x) (length y)) eqn:E; cbn [negb].
      - apply Nat.eqb_eq in E. now apply variant_cases_spec.
      - apply decides_err. apply Nat.eqb_neq in E. intros ->. apply E.
        apply map_snd_length in Hx, Hy. congruence.
    Qed.
  End Rules.

  Lemma names_differ_spec : forall a b, length a = length b -> (names_differ a b = false <-> a = b).
  Proof.
    induction a as [|x a IH]; intros [|y b] Hl; cbn [length] in Hl; try discriminate; cbn [names_differ].
    - tauto.
    - rewrite orb_false_iff, negb_false_iff, seqb_eq, IH by lia. split; [intros [-> ->]; reflexivity | intros H; injection H; auto].
  Qed.
  Lemma enum_spec a b : decides (enum_type a b) (a = b).
  Proof.
    unfold enum_type. destruct (Nat.eqb (length a) (length b)) eqn:E; cbn [negb].
    - apply Nat.eqb_eq in E. destruct (names_differ a b) eqn:En.
      + apply decides_err. intro H. apply (names_differ_spec a b E) in H. congruence.
      + apply decides_ok. now apply names_differ_spec.
    - apply decides_err. apply Nat.eqb_neq in E. congruence.
  Qed.
  Lemma flags_spec a b : decides (flags a b) (a = b).
  Proof.
    unfold flags. destruct (Nat.eqb (length a) (length b)) eqn:E; cbn [negb].
    - apply Nat.eqb_eq in E. destruct (names_differ a b) eqn:En.
      + apply decides_err. intro H. apply (names_differ_spec a b E) in H. congruence.
      + apply decides_ok. now apply names_differ_spec.
    - apply decides_err. apply Nat.eqb_neq in E. congruence.
  Qed.

  Lemma primitive_spec k p q : decides (primitive k p q) (VTPrim p = VTPrim q).
  Proof.
    unfold primitive. destruct (prim_eqb p q) eqn:E.
    - apply primeqb_eq in E as ->. now apply decides_ok.
    - destruct k; cbn [ef]; apply decides_err; intro H; injection H as ->; rewrite primeqb_refl in E; discriminate.
  Qed.

  (** inversion of [option_map]/[match] shaped equations down to the head constructor *)
  Ltac inv_some H :=
    repeat match type of H with
           | option_map _ ?o = Some _ => destruct o; cbn [option_map] in H; [|discriminate H]
           | match ?o with _ => _ end = Some _ => destruct o; [|discriminate H]
           end;
    try (injection H as <-).

  Lemma defined_type_spec rec k dfuel U U' rn rn' x y da db ta tb :
    (forall u v tu tv, U u = Some tu -> U' v = Some tv -> decides (rec u v) (tu = tv)) ->
    get_def at_ x = Some da -> get_def bt y = Some db -> (forall z, da <> DAlias z) -> (forall z, db <> DAlias z) ->
    unfold_vt_body U rn at_ (VDefined x) = Some ta -> unfold_vt_body U' rn' bt (VDefined y) = Some tb ->
    (id_eqb x y = true -> ta = tb) ->
    decides (defined_type rec k dfuel at_ x bt y) (ta = tb).
  Proof.
    intros Hrec Ex Ey Hna Hnb Hta Htb Hid. unfold defined_type.
    destruct (id_eqb x y); [apply decides_ok; auto|]. clear Hid.
    rewrite Ex, Ey. cbn [idx bind]. cbn [unfold_vt_body] in Hta, Htb. rewrite Ex in Hta. rewrite Ey in Htb.
    destruct da; try (exfalso; eapply Hna; reflexivity); destruct db; try (exfalso; eapply Hnb; reflexivity);
      try (cbn [mismatch ef2 desc_def bind]; destruct k; cbn [mismatch ef2 desc_def bind];
           apply decides_err; intro E; inv_some Hta; inv_some Htb; discriminate E).
    - (* tuple *)
      destruct (all_some (map U l)) as [lx|] eqn:E1; [|discriminate]. destruct (all_some (map U' l0)) as [ly|] eqn:E2; [|discriminate].
      injection Hta as <-. injection Htb as <-.
      eapply decides_iff; [|apply (tuple_spec rec U U' Hrec _ _ _ _ E1 E2)]. split; [congruence | intros H; now injection H].
    - destruct (U v) as [tu|] eqn:E1; [|discriminate]. destruct (U' v0) as [tv|] eqn:E2; [|discriminate].
      injection Hta as <-. injection Htb as <-.
      eapply decides_iff; [|apply (Hrec _ _ _ _ E1 E2)]. split; [congruence | intros H; now injection H].
    - destruct (U v) as [tu|] eqn:E1; [|discriminate]. destruct (U' v0) as [tv|] eqn:E2; [|discriminate].
      injection Hta as <-. injection Htb as <-.
      destruct (n =? n0) eqn:En; cbn [negb].
      + apply N.eqb_eq in En as ->. eapply decides_iff; [|apply (Hrec _ _ _ _ E1 E2)]. split; [congruence | intros H; now injection H].
      + apply decides_err. apply N.eqb_neq in En. intros H. injection H. congruence.
    - destruct (U v) as [tu|] eqn:E1; [|discriminate]. destruct (U' v0) as [tv|] eqn:E2; [|discriminate].
      injection Hta as <-. injection Htb as <-.
      eapply decides_iff; [|apply (Hrec _ _ _ _ E1 E2)]. split; [congruence | intros H; now injection H].
    - destruct (omap U ok) as [o1|] eqn:E1; [|discriminate]. destruct (omap U err) as [e1|] eqn:E2; [|discriminate].
      destruct (omap U' ok0) as [o2|] eqn:E3; [|discriminate]. destruct (omap U' err0) as [e2|] eqn:E4; [|discriminate].
      injection Hta as <-. injection Htb as <-.
      eapply decides_iff; [|apply decides_bind; [apply (result_arm_spec rec k U U' Hrec true _ _ _ _ E1 E3)
                                                | apply (result_arm_spec rec k U U' Hrec false _ _ _ _ E2 E4)]].
      split; [intros [-> ->]; reflexivity | intros H; injection H; auto].
    - destruct (map_snd (omap U) cases) as [lx|] eqn:E1; [|discriminate].
      destruct (map_snd (omap U') cases0) as [ly|] eqn:E2; [|discriminate].
      injection Hta as <-. injection Htb as <-.
      eapply decides_iff; [|apply (variant_spec rec k U U' Hrec _ _ _ _ E1 E2)]. split; [congruence | intros H; now injection H].
    - destruct (map_snd U fields) as [lx|] eqn:E1; [|discriminate].
      destruct (map_snd U' fields0) as [ly|] eqn:E2; [|discriminate].
      injection Hta as <-. injection Htb as <-.
      eapply decides_iff; [|apply (record_spec rec U U' Hrec _ _ _ _ E1 E2)]. split; [congruence | intros H; now injection H].
    - injection Hta as <-. injection Htb as <-.
      eapply decides_iff; [|apply flags_spec]. split; [congruence | intros H; now injection H].
    - injection Hta as <-. injection Htb as <-.
      eapply decides_iff; [|apply enum_spec]. split; [congruence | intros H; now injection H].
    - destruct (omap U o) as [o1|] eqn:E1; [|discriminate]. destruct (omap U' o0) as [o2|] eqn:E2; [|discriminate].
      injection Hta as <-. injection Htb as <-.
      eapply decides_iff; [|apply (payload_spec rec U U' Hrec _ _ _ _ E1 E2)]. split; [congruence | intros H; now injection H].
    - destruct (omap U o) as [o1|] eqn:E1; [|discriminate]. destruct (omap U' o0) as [o2|] eqn:E2; [|discriminate].
      injection Hta as <-. injection Htb as <-.
      eapply decides_iff; [|apply (payload_spec rec U U' Hrec _ _ _ _ E1 E2)]. split; [congruence | intros H; now injection H].
  Qed.

  Lemma desc_vt_nonalias t F v : nonalias t v -> exists D, desc_vt (S F) t v = Ok D.
  Proof.
    destruct v as [p|r|r|d]; cbn [desc_vt nonalias]; try (eexists; reflexivity).
    intros [x [E Hx]]. rewrite E. cbn [idx bind]. destruct x; try (eexists; reflexivity). exfalso. eapply Hx. reflexivity.
  Qed.

  (** The value-level rule decides equality of the denotations. *)
  Lemma value_type_spec g : forall F k a b ta tb, (g <= F)%nat ->
    unfold_vt g at_ a = Some ta -> unfold_vt g bt b = Some tb -> decides (value_type F k at_ a bt b) (ta = tb).
  Proof.
    induction g as [|g IH]; intros F k a b ta tb HF Ha Hb; [discriminate|].
    destruct F as [|F]; [lia|].
    destruct (resolve_vt_spec at_ (S g) (S F) a ta HF Ha) as [a' [Ra [Ua Na]]].
    destruct (resolve_vt_spec bt (S g) (S F) b tb HF Hb) as [b' [Rb [Ub Nb]]].
    cbn [value_type]. rewrite Ra, Rb. cbn [bind].
    rewrite unfold_vt_eq in Ua, Ub.
    assert (Hmis : forall (r : R unit), vhead ta <> vhead tb ->
                     r = mismatch k (desc_vt (S F)) a' at_ b' bt -> decides r (ta = tb)).
    { intros r Hh ->. destruct (desc_vt_nonalias at_ F a' Na) as [D1 E1]. destruct (desc_vt_nonalias bt F b' Nb) as [D2 E2].
      unfold mismatch. destruct k; cbn [ef2]; rewrite E1, E2; cbn [bind]; apply decides_err; congruence. }
    destruct a' as [p|r|r|x], b' as [q|s|s|y];
      try (apply Hmis; [|reflexivity]; cbn [unfold_vt_body] in Ua, Ub;
           try (destruct Na as [da [Ea Hna]]; rewrite Ea in Ua; destruct da; try (exfalso; eapply Hna; reflexivity));
           try (destruct Nb as [db [Eb Hnb]]; rewrite Eb in Ub; destruct db; try (exfalso; eapply Hnb; reflexivity));
           inv_some Ua; inv_some Ub; cbn [vhead]; discriminate).
    - cbn [unfold_vt_body] in Ua, Ub. injection Ua as <-. injection Ub as <-. apply primitive_spec.
    - cbn [unfold_vt_body] in Ua, Ub.
      destruct (res_name_of (S g) at_ r) as [na|] eqn:E1; [|discriminate].
      destruct (res_name_of (S g) bt s) as [nb|] eqn:E2; [|discriminate].
      injection Ua as <-. injection Ub as <-.
      eapply decides_iff; [|apply (resource_spec (S g) (S F) k r s na nb HF E1 E2)]. split; [congruence | intros H; now injection H].
    - cbn [unfold_vt_body] in Ua, Ub.
      destruct (res_name_of (S g) at_ r) as [na|] eqn:E1; [|discriminate].
      destruct (res_name_of (S g) bt s) as [nb|] eqn:E2; [|discriminate].
      injection Ua as <-. injection Ub as <-.
      eapply decides_iff; [|apply (resource_spec (S g) (S F) k r s na nb HF E1 E2)]. split; [congruence | intros H; now injection H].
    - destruct Na as [da [Ea Hna]]. destruct Nb as [db [Eb Hnb]].
      eapply (defined_type_spec _ k (S F) (unfold_vt g at_) (unfold_vt g bt) _ _ x y da db ta tb); try eassumption.
      + intros u v tu tv Hu Hv. apply (IH F k u v tu tv); [lia | assumption | assumption].
      + intro Hid. apply ideqb_eq in Hid. subst y.
        assert (Et : at_ = bt). { apply same. apply lookup_tag in Ea, Eb. congruence. }
        rewrite <- Et in Ub. congruence.
  Qed.
End Value.
