(** Value-level rules of the checker decide equality of the unfolded trees.
    Also: fuel monotonicity of [unfold]. *)
From Coq Require Import ZArith ZifyBool ZifyN Lia.
From WacV Require Import Str Types Checker SubSpec CheckerEq SubSpecProofs.

(** * Fuel monotonicity of the denotation *)
Definition ext_some {A B} (U U' : A -> option B) : Prop := forall x y, U x = Some y -> U' x = Some y.

Lemma all_some_map_ext {A B} (U U' : A -> option B) (l : list A) l' :
  ext_some U U' -> all_some (map U l) = Some l' -> all_some (map U' l) = Some l'.
Proof.
  intros He. revert l'. induction l as [|x l IH]; intros l'; cbn [map all_some]; [auto|].
  destruct (U x) as [y|] eqn:E; [|discriminate]. rewrite (He _ _ E).
  destruct (all_some (map U l)) as [r|]; [|discriminate]. intro H. now rewrite (IH _ eq_refl).
Qed.
Lemma omap_ext {A B} (U U' : A -> option B) o o' : ext_some U U' -> omap U o = Some o' -> omap U' o = Some o'.
Proof.
  intros He. destruct o as [x|]; cbn [omap]; [|auto].
  destruct (U x) as [y|] eqn:E; [|discriminate]. now rewrite (He _ _ E).
Qed.
Lemma omap_ext_some {A B} (U U' : A -> option B) : ext_some U U' -> ext_some (omap U) (omap U').
Proof. intros He o o'. now apply omap_ext. Qed.
Lemma map_snd_ext {K A B} (U U' : A -> option B) (l : list (K * A)) l' :
  ext_some U U' -> map_snd U l = Some l' -> map_snd U' l = Some l'.
Proof.
  intros He. unfold map_snd. apply all_some_map_ext. intros [k x] y. cbn [fst snd].
  destruct (U x) as [z|] eqn:E; [|discriminate]. now rewrite (He _ _ E).
Qed.

Lemma res_name_of_S f t : forall r n, res_name_of f t r = Some n -> res_name_of (S f) t r = Some n.
Proof.
  induction f as [|f IH]; intros r n; [discriminate|].
  cbn [res_name_of]. destruct (get_res t r) as [x|]; [|discriminate].
  destruct (res_source x) as [s|]; [|auto]. intro H. apply IH in H. exact H.
Qed.

Lemma option_map_ext {A B} (g : A -> B) (o o' : option A) x :
  (forall y, o = Some y -> o' = Some y) -> option_map g o = Some x -> option_map g o' = Some x.
Proof. destruct o as [y|]; [|discriminate]. intros H. now rewrite (H _ eq_refl). Qed.

Definition unfold_vt_body (U : valtype -> option vtree) (rn : id -> option str) (t : types) (v : valtype) : option vtree :=
  match v with
  | VPrim p => Some (VTPrim p)
  | VBorrow r => option_map VTBorrow (rn r)
  | VOwn r => option_map VTOwn (rn r)
  | VDefined d =>
    match get_def t d with
    | None => None
    | Some (DTuple l) => option_map VTTuple (all_some (map U l))
    | Some (DList x) => option_map VTList (U x)
    | Some (DFsl x n) => option_map (fun y => VTFsl y n) (U x)
    | Some (DOption x) => option_map VTOption (U x)
    | Some (DResult o e) =>
      match omap U o, omap U e with Some o', Some e' => Some (VTResult o' e') | _, _ => None end
    | Some (DVariant c) => option_map VTVariant (map_snd (omap U) c)
    | Some (DRecord fs) => option_map VTRecord (map_snd U fs)
    | Some (DFlags l) => Some (VTFlags l)
    | Some (DEnum l) => Some (VTEnum l)
    | Some (DAlias x) => U x
    | Some (DStream o) => option_map VTStream (omap U o)
    | Some (DFuture o) => option_map VTFuture (omap U o)
    end
  end.
Lemma unfold_vt_eq f t v :
  unfold_vt (S f) t v = unfold_vt_body (unfold_vt f t) (res_name_of (S f) t) t v.
Proof. reflexivity. Qed.

Lemma unfold_vt_body_ext U U' rn rn' t v tr :
  ext_some U U' -> ext_some rn rn' -> unfold_vt_body U rn t v = Some tr -> unfold_vt_body U' rn' t v = Some tr.
Proof.
  intros He Hr. unfold unfold_vt_body. destruct v as [p|r|r|d]; [auto | | |].
  - apply option_map_ext. intro y. apply Hr.
  - apply option_map_ext. intro y. apply Hr.
  - destruct (get_def t d) as [x|]; [|discriminate].
    destruct x; try (apply option_map_ext; intro y); auto.
    + now apply all_some_map_ext.
    + destruct (omap U ok) as [o'|] eqn:E1; [|discriminate].
      destruct (omap U err) as [e'|] eqn:E2; [|discriminate].
      now rewrite (omap_ext _ _ _ _ He E1), (omap_ext _ _ _ _ He E2).
    + apply map_snd_ext. now apply omap_ext_some.
    + now apply map_snd_ext.
    + now apply omap_ext.
    + now apply omap_ext.
Qed.

Lemma unfold_vt_S f t : forall v tr, unfold_vt f t v = Some tr -> unfold_vt (S f) t v = Some tr.
Proof.
  induction f as [|f IH]; intros v tr; [discriminate|].
  rewrite (unfold_vt_eq f), (unfold_vt_eq (S f)). apply unfold_vt_body_ext; [exact IH|].
  intros r n. apply res_name_of_S.
Qed.
Lemma unfold_vt_mono f f' t v tr : (f <= f')%nat -> unfold_vt f t v = Some tr -> unfold_vt f' t v = Some tr.
Proof. induction 1 as [|m Hle IH]; [auto|]. intro Hu. apply unfold_vt_S. auto. Qed.
Lemma res_name_of_mono f f' t r n : (f <= f')%nat -> res_name_of f t r = Some n -> res_name_of f' t r = Some n.
Proof. induction 1 as [|m Hle IH]; [auto|]. intro Hu. apply res_name_of_S. auto. Qed.

(** * Deciding *)
Definition decides (r : R unit) (P : Prop) : Prop := (r = Ok tt /\ P) \/ ((exists e, r = Err e) /\ ~ P).

Lemma decides_iff r (P Q : Prop) : (P <-> Q) -> decides r P -> decides r Q.
Proof. unfold decides. intros H [[? ?]|[? ?]]; [left | right]; tauto. Qed.
Lemma decides_ok (P : Prop) : P -> decides ok P.
Proof. left. split; [reflexivity | assumption]. Qed.
Lemma decides_err e (P : Prop) : ~ P -> decides (Err e) P.
Proof. right. split; [eauto | assumption]. Qed.
Lemma decides_bind r1 r2 (P1 P2 : Prop) : decides r1 P1 -> decides r2 P2 -> decides (_ <- r1 ;; r2) (P1 /\ P2).
Proof.
  intros [[-> H1]|[[e ->] H1]] H2; cbn [bind].
  - eapply decides_iff; [|exact H2]. tauto.
  - apply decides_err. tauto.
Qed.
Lemma decides_if (c : bool) e r (P Q : Prop) : (c = true -> ~ Q) -> (c = false -> decides r P) -> (c = false -> (P <-> Q)) ->
  decides (if c then Err e else r) Q.
Proof.
  destruct c; intros H1 H2 H3.
  - apply decides_err. auto.
  - eapply decides_iff; [apply H3 | apply H2]; reflexivity.
Qed.
Lemma decides_is_ok r (P : Prop) : decides r P -> (is_ok r = true <-> P).
Proof. intros [[-> H]|[[e ->] H]]; cbn [is_ok]; intuition discriminate. Qed.

Lemma lookup_tag {A} tag (l : list A) i x : lookup tag l i = Some x -> id_tag i = tag.
Proof. unfold lookup. destruct (id_tag i =? tag) eqn:E; [|discriminate]. intros _. now apply N.eqb_eq. Qed.

Lemma all_some_length {A} (l : list (option A)) l' : all_some l = Some l' -> length l' = length l.
Proof.
  revert l'; induction l as [|[x|] l IH]; intros l'; cbn [all_some]; try discriminate.
  - intros H; injection H as <-; reflexivity.
  - destruct (all_some l) as [r|]; [|discriminate]. intros H; injection H as <-. cbn. f_equal. now apply IH.
Qed.
Lemma map_snd_length {K A B} (U : A -> option B) (l : list (K * A)) l' : map_snd U l = Some l' -> length l' = length l.
Proof. unfold map_snd. intro H. apply all_some_length in H. now rewrite map_length in H. Qed.

(** head constructor of a tree *)
Definition vhead (t : vtree) : N :=
  match t with
  | VTPrim _ => 0 | VTBorrow _ => 1 | VTOwn _ => 2 | VTTuple _ => 3 | VTList _ => 4 | VTFsl _ _ => 5 | VTOption _ => 6
  | VTResult _ _ => 7 | VTVariant _ => 8 | VTRecord _ => 9 | VTFlags _ => 10 | VTEnum _ => 11 | VTStream _ => 12
  | VTFuture _ => 13
  end.

Section Value.
  Variables at_ bt : types.
  Hypothesis same : t_tag at_ = t_tag bt -> at_ = bt.

  Definition nonalias (t : types) (v : valtype) : Prop :=
    match v with
    | VDefined d => exists x, get_def t d = Some x /\ forall y, x <> DAlias y
    | _ => True
    end.

  Lemma resolve_vt_spec t g : forall F v tr, (g <= F)%nat -> unfold_vt g t v = Some tr ->
    exists v', resolve_vt F t v = Ok v' /\ unfold_vt g t v' = Some tr /\ nonalias t v'.
  Proof.
    induction g as [|g IH]; intros F v tr HF Hu; [discriminate|].
    destruct F as [|F]; [lia|].
    destruct v as [p|r|r|d]; try (exists (VPrim p) + exists (VBorrow r) + exists (VOwn r); cbn [resolve_vt nonalias]; auto; fail).
    rewrite unfold_vt_eq in Hu. cbn [unfold_vt_body] in Hu. cbn [resolve_vt].
    destruct (get_def t d) as [x|] eqn:E; [|discriminate]. cbn [idx bind].
    destruct x; try (exists (VDefined d); split; [reflexivity|]; split;
                     [rewrite unfold_vt_eq; cbn [unfold_vt_body]; rewrite E; exact Hu
                     | cbn [nonalias]; eexists; split; [exact E | intros y; discriminate]]; fail).
    destruct (IH F v tr ltac:(lia) Hu) as [v' [H1 [H2 H3]]]. exists v'. split; [exact H1|]. split; [|exact H3].
    now apply unfold_vt_S.
  Qed.

  Lemma resolve_res_spec t g : forall F r n, (g <= F)%nat -> res_name_of g t r = Some n ->
    exists r' x, resolve_res F t r = Ok r' /\ get_res t r' = Some x /\ res_name x = n.
  Proof.
    induction g as [|g IH]; intros F r n HF Hu; [discriminate|].
    destruct F as [|F]; [lia|]. cbn [res_name_of] in Hu. cbn [resolve_res].
    destruct (get_res t r) as [x|] eqn:E; [|discriminate]. cbn [idx bind].
    destruct (res_source x) as [s|].
    - apply (IH F s n ltac:(lia) Hu).
    - exists r, x. injection Hu as <-. auto.
  Qed.

  Lemma resource_spec g F k a b na nb : (g <= F)%nat ->
    res_name_of g at_ a = Some na -> res_name_of g bt b = Some nb -> decides (resource F k at_ a bt b) (na = nb).
  Proof.
    intros HF Ha Hb. unfold resource. destruct (id_eqb a b) eqn:E.
    - apply ideqb_eq in E as <-. apply decides_ok.
      destruct g as [|g]; [discriminate|]. cbn [res_name_of] in Ha, Hb.
      destruct (get_res at_ a) eqn:E1; [|discriminate]. destruct (get_res bt a) eqn:E2; [|discriminate].
      apply lookup_tag in E1, E2. rewrite <- same in Hb by congruence. congruence.
    - destruct (resolve_res_spec at_ g F a na HF Ha) as [ra [xa [H1 [H2 H3]]]].
      destruct (resolve_res_spec bt g F b nb HF Hb) as [rb [xb [H4 [H5 H6]]]].
      rewrite H1. cbn [bind]. rewrite H2. cbn [idx bind]. rewrite H4. cbn [bind]. rewrite H5. cbn [idx bind].
      subst. destruct (str_eqb (res_name xa) (res_name xb)) eqn:En.
      + apply decides_ok. now apply seqb_eq.
      + apply decides_err. now apply seqb_neq.
  Qed.
