(** [convert_cache_consistent]: the conversion cache is consulted first and filled last, is never overwritten, and
    so the same validator identifier is converted to the same [wac_types] identifier at any later time.

    "Never overwritten" needs the validator's type graph to be well founded (a type does not contain itself): a rank
    function [rk] that decreases along every reference.  wasmparser's types are finite trees; this is part of the
    well-formedness assumed of the oracle. *)
From Coq Require Import Lia.
From WacV Require Import Str Types CheckerValue CheckerProofs Convert ConvertSpec ConvertProofs ConvertFrame ConvertTree.
Set Warnings "-unused-intro-pattern".

(** * References of a node *)
Definition val_refs (v : vval) : list vid := match v with WRef d => [d] | WPrim _ => [] end.
Definition oval_refs (o : option vval) : list vid := match o with Some v => val_refs v | None => [] end.
Definition def_refs (d : vdef) : list vid :=
  match d with
  | WDRecord fs => flat_map (fun kv => val_refs (snd kv)) fs
  | WDVariant cs => flat_map (fun kv => oval_refs (snd kv)) cs
  | WDList v | WDFsl v _ | WDOption v => val_refs v
  | WDTuple l => flat_map val_refs l
  | WDResult o e => oval_refs o ++ oval_refs e
  | WDFuture o | WDStream o => oval_refs o
  | WDMap k v => val_refs k ++ val_refs v
  | WDPrim _ | WDFlags _ | WDEnum _ | WDOwn _ | WDBorrow _ => []
  end.
Definition ent_refs (e : vent) : list vid :=
  match e with
  | EModule m => [m] | EFunc f => [f] | EValue v => val_refs v | EType _ cr => [cr] | EInstance i => [i] | EComponent c => [c]
  end.
Definition node_refs (n : vnode) : list vid :=
  match n with
  | NDef d => def_refs d
  | NFunc _ ps r => flat_map (fun kv => val_refs (snd kv)) ps ++ oval_refs r
  | NInst ex => flat_map (fun kv => ent_refs (snd kv)) ex
  | NComp im ex => flat_map (fun kv => ent_refs (snd kv)) im ++ flat_map (fun kv => ent_refs (snd kv)) ex
  | NRes _ | NMod _ => []
  end.
Definition ranked (g : vgraph) (rk : vid -> nat) : Prop :=
  forall v n, node_of g v = Some n -> forall c, In c (node_refs n) -> (rk c < rk v)%nat.

(** * [nassoc] *)
Lemma nassoc_none_notin {B} k (l : list (nat * B)) : nassoc k l = None -> ~ In k (map fst l).
Proof.
  induction l as [|[k' v] l IH]; cbn [nassoc map fst In]; [tauto|].
  destruct (Nat.eqb k k') eqn:E; [discriminate|]. apply Nat.eqb_neq in E. intros H [H1|H1]; [congruence | now apply IH].
Qed.
Lemma nassoc_some_in {B} k (l : list (nat * B)) v : nassoc k l = Some v -> In k (map fst l).
Proof.
  induction l as [|[k' v'] l IH]; cbn [nassoc map fst In]; [discriminate|].
  destruct (Nat.eqb k k') eqn:E; [apply Nat.eqb_eq in E; auto | auto].
Qed.
Lemma nassoc_app_notin {B} k (a b : list (nat * B)) : ~ In k (map fst a) -> nassoc k (a ++ b) = nassoc k b.
Proof.
  induction a as [|[k' v] a IH]; cbn [app nassoc map fst In]; [reflexivity|]. intro H.
  destruct (Nat.eqb k k') eqn:E; [apply Nat.eqb_eq in E; subst; tauto | apply IH; tauto].
Qed.

Lemma NoDup_app_disjoint {A} (a b : list A) x : NoDup (a ++ b) -> In x a -> In x b -> False.
Proof.
  induction a as [|y a IH]; intros Hnd Ha Hb; [destruct Ha|]. cbn [app] in Hnd. inversion Hnd as [|? ? Hy Hnd']; subst.
  destruct Ha as [->|Ha]; [apply Hy; apply in_or_app; now right | now apply IH].
Qed.

Section Cache.
  Variable g : vgraph.
  Variable rk : vid -> nat.
  Hypothesis HR : ranked g rk.

  Definition keys (s : cstate) : list vid := map fst (cs_cache s).
  Definition inv (s : cstate) : Prop := NoDup (keys s).
  (** the cache of [s'] is the cache of [s] with new entries in front, all for identifiers of rank below [V] *)
  Definition grow (V : nat) (s s' : cstate) : Prop :=
    exists new, cs_cache s' = new ++ cs_cache s /\ Forall (fun k => (rk k < V)%nat) (map fst new).

  Lemma grow_refl V s : grow V s s.
  Proof. exists []. split; [reflexivity | constructor]. Qed.
  Lemma grow_trans V s1 s2 s3 : grow V s1 s2 -> grow V s2 s3 -> grow V s1 s3.
  Proof.
    intros [n1 [E1 F1]] [n2 [E2 F2]]. exists (n2 ++ n1). split; [rewrite E2, E1; now rewrite app_assoc|].
    rewrite map_app. apply Forall_app. auto.
  Qed.
  Lemma grow_mono V V' s s' : (V <= V')%nat -> grow V s s' -> grow V' s s'.
  Proof. intros Hle [n [E F]]. exists n. split; [exact E|]. eapply Forall_impl; [|exact F]. cbn. intros; lia. Qed.
  Lemma grow_same V s s' : cs_cache s' = cs_cache s -> grow V s s'.
  Proof. intro E. exists []. split; [exact E | constructor]. Qed.

  (** every earlier entry is retained unchanged *)
  Definition later (s s' : cstate) : Prop := forall v x, nassoc v (cs_cache s) = Some x -> nassoc v (cs_cache s') = Some x.
  Lemma grow_later V s s' : inv s' -> grow V s s' -> later s s'.
  Proof.
    intros Hi [n [E F]] v x Hv. rewrite E. rewrite nassoc_app_notin; [exact Hv|].
    unfold inv, keys in Hi. rewrite E, map_app in Hi. intro Hin.
    apply nassoc_some_in in Hv. exact (NoDup_app_disjoint _ _ _ Hi Hin Hv).
  Qed.

  Definition ck_ok {R} (F : cstate -> cres (R * cstate)) (V : nat) : Prop :=
    forall s r s', inv s -> F s = COk (r, s') -> inv s' /\ grow V s s'.

  Lemma ck_mono {R} (F : cstate -> cres (R * cstate)) V V' : (V <= V')%nat -> ck_ok F V -> ck_ok F V'.
  Proof. intros Hle H s r s' Hi E. destruct (H s r s' Hi E) as [H1 H2]. split; [exact H1 | eapply grow_mono; eassumption]. Qed.

  Lemma mapM_ck {A B} (f : A -> cstate -> cres (B * cstate)) V : forall l,
    (forall a, In a l -> ck_ok (f a) V) -> ck_ok (mapM f l) V.
  Proof.
    induction l as [|a l IH]; intros Hf s r s' Hi H; cbn [mapM] in H.
    - injection H as <- <-. split; [exact Hi | apply grow_refl].
    - inv_bind H as [y s1] H1. inv_bind H as [ys s2] H2. injection H as <- <-.
      destruct (Hf a (or_introl eq_refl) s y s1 Hi H1) as [I1 G1].
      destruct (IH (fun x Hx => Hf x (or_intror Hx)) s1 ys s2 I1 H2) as [I2 G2].
      split; [exact I2 | eapply grow_trans; eassumption].
  Qed.
  Lemma optM_ck {A B} (f : A -> cstate -> cres (B * cstate)) V o :
    (forall a, o = Some a -> ck_ok (f a) V) -> ck_ok (optM f o) V.
  Proof.
    intros Hf s r s' Hi H. destruct o as [a|]; cbn [optM] in H.
    - inv_bind H as [y s1] H1. injection H as <- <-. exact (Hf a eq_refl s y s1 Hi H1).
    - injection H as <- <-. split; [exact Hi | apply grow_refl].
  Qed.
  Lemma named_ck {K A B} (f : A -> cstate -> cres (B * cstate)) V (kv : K * A) :
    ck_ok (f (snd kv)) V -> ck_ok (named f kv) V.
  Proof. intros Hf s r s' Hi H. unfold named in H. inv_bind H as [y s1] H1. injection H as <- <-. exact (Hf s y s1 Hi H1). Qed.

  (** filling the cache after a miss *)
  Lemma put_ok v e s0 s1 :
    inv s1 -> grow (rk v) s0 s1 -> nassoc v (cs_cache s0) = None ->
    inv (cache_put s1 v e) /\ grow (S (rk v)) s0 (cache_put s1 v e).
  Proof.
    intros I1 [n [E F]] Hmiss. split.
    - unfold inv, keys, cache_put. cbn [cs_cache map fst]. constructor; [|exact I1].
      rewrite E, map_app. intro Hin. apply in_app_or in Hin as [Hin|Hin].
      + rewrite Forall_forall in F. specialize (F _ Hin). lia.
      + exact (nassoc_none_notin _ _ Hmiss Hin).
    - exists ((v, e) :: n). unfold cache_put. cbn [cs_cache]. split; [now rewrite E|].
      cbn [map fst]. constructor; [lia|]. eapply Forall_impl; [|exact F]. cbn. intros; lia.
  Qed.

  (** * Defined types *)
  Section DefBody.
    Variable R : vid -> cstate -> cres (valtype * cstate).
    Hypothesis HRd : forall d, ck_ok (R d) (S (rk d)).

    Lemma val_body_ck v V : (forall c, In c (val_refs v) -> (rk c < V)%nat) -> ck_ok (val_body R v) V.
    Proof.
      intros Hc. destruct v as [p|d]; cbn [val_body].
      - intros s r s' Hi H. injection H as <- <-. split; [exact Hi | apply grow_refl].
      - eapply ck_mono; [|apply HRd]. specialize (Hc d (or_introl eq_refl)). lia.
    Qed.
    Lemma mk_def_ck d V : ck_ok (mk_def d) V.
    Proof. intros s r s' Hi H. unfold mk_def, add_def in H. injection H as <- <-. split; [exact Hi | now apply grow_same]. Qed.

    Lemma defined_body_ck d : ck_ok (defined_body R g d) (S (rk d)).
    Proof.
      intros s r s' Hi H. unfold defined_body in H.
      destruct (nassoc d (cs_cache s)) as [[[ | |x| | | ]|]|] eqn:Ec; try discriminate.
      { injection H as <- <-. split; [exact Hi | apply grow_refl]. }
      destruct (node_of g d) as [[nd| | | | | ]|] eqn:En; try discriminate.
      inv_bind H as [v s1] H1. injection H as <- <-.
      assert (Hch : forall c, In c (def_refs nd) -> (rk c < rk d)%nat) by (intros c Hc; exact (HR d _ En c Hc)).
      assert (X : inv s1 /\ grow (rk d) s s1); [|destruct X as [I1 G1]; now apply put_ok].
      destruct nd as [p|fs|cs|x|k x|x n|l|l|l|x|o e|r0|r0|o|o]; cbn [def_refs] in Hch.
      - exact (mk_def_ck _ _ s v s1 Hi H1).
      - inv_bind H1 as [fs' s0] H0.
        destruct (mapM_ck (named (val_body R)) (rk d) fs) with (s := s) (r := fs') (s' := s0) as [I0 G0]; [|exact Hi|exact H0|].
        { intros a Ha. apply named_ck. apply val_body_ck. intros c Hc. apply Hch. apply in_flat_map. eauto. }
        destruct (mk_def_ck _ (rk d) s0 v s1 I0 H1) as [I1 G1]. split; [exact I1 | eapply grow_trans; eassumption].
      - inv_bind H1 as [cs' s0] H0.
        destruct (mapM_ck (named (optM (val_body R))) (rk d) cs) with (s := s) (r := cs') (s' := s0) as [I0 G0]; [|exact Hi|exact H0|].
        { intros a Ha. apply named_ck. apply optM_ck. intros y Hy. apply val_body_ck. intros c Hc. apply Hch.
          apply in_flat_map. exists a. split; [exact Ha|]. rewrite Hy. exact Hc. }
        destruct (mk_def_ck _ (rk d) s0 v s1 I0 H1) as [I1 G1]. split; [exact I1 | eapply grow_trans; eassumption].
      - inv_bind H1 as [x' s0] H0. destruct (val_body_ck x (rk d) Hch s x' s0 Hi H0) as [I0 G0].
        destruct (mk_def_ck _ (rk d) s0 v s1 I0 H1) as [I1 G1]. split; [exact I1 | eapply grow_trans; eassumption].
      - discriminate.
      - inv_bind H1 as [x' s0] H0. destruct (val_body_ck x (rk d) Hch s x' s0 Hi H0) as [I0 G0].
        destruct (mk_def_ck _ (rk d) s0 v s1 I0 H1) as [I1 G1]. split; [exact I1 | eapply grow_trans; eassumption].
      - inv_bind H1 as [l' s0] H0.
        destruct (mapM_ck (val_body R) (rk d) l) with (s := s) (r := l') (s' := s0) as [I0 G0]; [|exact Hi|exact H0|].
        { intros a Ha. apply val_body_ck. intros c Hc. apply Hch. apply in_flat_map. eauto. }
        destruct (mk_def_ck _ (rk d) s0 v s1 I0 H1) as [I1 G1]. split; [exact I1 | eapply grow_trans; eassumption].
      - exact (mk_def_ck _ _ s v s1 Hi H1).
      - exact (mk_def_ck _ _ s v s1 Hi H1).
      - inv_bind H1 as [x' s0] H0. destruct (val_body_ck x (rk d) Hch s x' s0 Hi H0) as [I0 G0].
        destruct (mk_def_ck _ (rk d) s0 v s1 I0 H1) as [I1 G1]. split; [exact I1 | eapply grow_trans; eassumption].
      - inv_bind H1 as [o' s0] H0. inv_bind H1 as [e' s00] H00.
        destruct (optM_ck (val_body R) (rk d) o) with (s := s) (r := o') (s' := s0) as [I0 G0]; [|exact Hi|exact H0|].
        { intros y ->. apply val_body_ck. intros c Hc. apply Hch. apply in_or_app. now left. }
        destruct (optM_ck (val_body R) (rk d) e) with (s := s0) (r := e') (s' := s00) as [I00 G00]; [|exact I0|exact H00|].
        { intros y ->. apply val_body_ck. intros c Hc. apply Hch. apply in_or_app. now right. }
        destruct (mk_def_ck _ (rk d) s00 v s1 I00 H1) as [I1 G1].
        split; [exact I1 | eapply grow_trans; [exact G0 | eapply grow_trans; eassumption]].
      - inv_bind H1 as x0 H0. injection H1 as <- <-. split; [exact Hi | apply grow_refl].
      - inv_bind H1 as x0 H0. injection H1 as <- <-. split; [exact Hi | apply grow_refl].
      - inv_bind H1 as [o' s0] H0.
        destruct (optM_ck (val_body R) (rk d) o) with (s := s) (r := o') (s' := s0) as [I0 G0]; [|exact Hi|exact H0|].
        { intros y ->. apply val_body_ck. exact Hch. }
        destruct (mk_def_ck _ (rk d) s0 v s1 I0 H1) as [I1 G1]. split; [exact I1 | eapply grow_trans; eassumption].
      - inv_bind H1 as [o' s0] H0.
        destruct (optM_ck (val_body R) (rk d) o) with (s := s) (r := o') (s' := s0) as [I0 G0]; [|exact Hi|exact H0|].
        { intros y ->. apply val_body_ck. exact Hch. }
        destruct (mk_def_ck _ (rk d) s0 v s1 I0 H1) as [I1 G1]. split; [exact I1 | eapply grow_trans; eassumption].
    Qed.
  End DefBody.

  Lemma c_defined_ck : forall fuel d, ck_ok (c_defined fuel g d) (S (rk d)).
  Proof.
    induction fuel as [|f IH]; intros d; [intros s r s' _ H; discriminate|].
    cbn [c_defined]. apply defined_body_ck. exact IH.
  Qed.
  Lemma c_val_ck fuel v V : (forall c, In c (val_refs v) -> (rk c < V)%nat) -> ck_ok (c_val fuel g v) V.
  Proof. unfold c_val. apply val_body_ck. apply c_defined_ck. Qed.

  Lemma c_func_ck fuel v : ck_ok (c_func fuel g v) (S (rk v)).
  Proof.
    intros s r s' Hi H. unfold c_func in H.
    destruct (nassoc v (cs_cache s)) as [[[ |f0| | | | ]|]|] eqn:Ec; try discriminate.
    { injection H as <- <-. split; [exact Hi | apply grow_refl]. }
    destruct (node_of g v) as [[ |a ps r0| | | | ]|] eqn:En; try discriminate.
    inv_bind H as [ps' s1] H1. inv_bind H as [r' s2] H2.
    assert (Hch : forall c, In c (node_refs (NFunc a ps r0)) -> (rk c < rk v)%nat) by (intros c Hc; exact (HR v _ En c Hc)).
    cbn [node_refs] in Hch.
    destruct (mapM_ck (named (c_val fuel g)) (rk v) ps) with (s := s) (r := ps') (s' := s1) as [I1 G1]; [|exact Hi|exact H1|].
    { intros x Hx. apply named_ck. apply c_val_ck. intros c Hc. apply Hch. apply in_or_app. left. apply in_flat_map. eauto. }
    destruct (optM_ck (c_val fuel g) (rk v) r0) with (s := s1) (r := r') (s' := s2) as [I2 G2]; [|exact I1|exact H2|].
    { intros y ->. apply c_val_ck. intros c Hc. apply Hch. apply in_or_app. now right. }
    unfold add_func in H. injection H as <- <-.
    apply (put_ok v _ s (with_types s2 _)); [exact I2 | | exact Ec].
    eapply grow_trans; [exact G1|]. eapply grow_trans; [exact G2 | now apply grow_same].
  Qed.

  Lemma c_module_ck v : ck_ok (c_module g v) (S (rk v)).
  Proof.
    intros s r s' Hi H. unfold c_module in H.
    destruct (nassoc v (cs_cache s)) as [[[ | | | | |m0]|]|] eqn:Ec; try discriminate.
    { injection H as <- <-. split; [exact Hi | apply grow_refl]. }
    destruct (node_of g v) as [[ | | | | |[mt|]]|] eqn:En; try discriminate.
    unfold add_mod in H. injection H as <- <-.
    apply (put_ok v _ s (with_types s _)); [exact Hi | now apply grow_same | exact Ec].
  Qed.

  Lemma c_resource_ck hf name v : ck_ok (c_resource hf g name v) (S (rk v)).
  Proof.
    intros s r s' Hi H. unfold c_resource in H.
    destruct (nassoc v (cs_cache s)) as [[|r0]|] eqn:Ec; try discriminate.
    { injection H as <- <-. split; [exact Hi | apply grow_refl]. }
    destruct (node_of g v) as [[ | | | |rid| ]|] eqn:En; try discriminate.
    destruct (nassoc rid (cs_resmap s)) as [src|].
    - destruct (find_owner hf g (cs_owners s) v) as [o|]; [|discriminate].
      unfold add_res in H. injection H as <- <-.
      apply (put_ok v _ s (with_types s _)); [exact Hi | now apply grow_same | exact Ec].
    - unfold add_res in H. injection H as <- <-. split.
      + unfold inv, keys. cbn [cs_cache map fst]. constructor; [exact (nassoc_none_notin _ _ Ec) | exact Hi].
      + exists [(v, EnRes (mkid (t_tag (cs_types s)) (length (t_resources (cs_types s)))))]. cbn [cs_cache]. split; [reflexivity|].
        constructor; [cbn; lia | constructor].
  Qed.

  (** * Instance types, component types, entities *)
  Section Bodies.
    Variable hf : nat.
    Variable E : str -> vent -> cstate -> cres (kind * cstate).
    Hypothesis HE : forall n e V, (forall c, In c (ent_refs e) -> (rk c < V)%nat) -> ck_ok (E n e) V.

    Lemma inst_loop_ck vn me V : forall l s s',
      (forall a c, In a l -> In c (ent_refs (snd a)) -> (rk c < V)%nat) ->
      inv s -> inst_loop hf g E vn me l s = COk s' -> inv s' /\ grow V s s'.
    Proof.
      induction l as [|[n e] l IH]; intros s s' Hl Hi H; cbn [inst_loop] in H.
      - injection H as <-. split; [exact Hi | apply grow_refl].
      - inv_bind H as [k s1] H1. inv_bind H as s2 H2. inv_bind H as s3 H3.
        destruct (HE n e V (fun c Hc => Hl (n, e) c (or_introl eq_refl) Hc) s k s1 Hi H1) as [I1 G1].
        assert (C2 : cs_cache s2 = cs_cache s1).
        { destruct e as [ | | |rf cr| | ]; try (injection H2 as <-; reflexivity).
          inv_bind H2 as sa Ha. destruct (use_or_own_frame g _ _ _ _ _ _ _ _ Ha) as [_ Ca].
          destruct (reset_self_owner_frame _ _ _ _ H2) as [_ Cb]. congruence. }
        assert (C3 : cs_cache s3 = cs_cache s2).
        { unfold put_if_export in H3. destruct (get_if _ _) as [x|]; [|discriminate]. destruct (assoc _ _); [discriminate|].
          destruct (upd_if _ _ _); [|discriminate]. injection H3 as <-. reflexivity. }
        assert (I3 : inv s3) by (unfold inv, keys; rewrite C3, C2; exact I1).
        destruct (IH s3 s' (fun a c Ha Hc => Hl a c (or_intror Ha) Hc) I3 H) as [I4 G4].
        split; [exact I4|]. eapply grow_trans; [exact G1|]. eapply grow_trans; [|exact G4]. apply grow_same. congruence.
    Qed.

    Lemma instance_body_ck name v : ck_ok (instance_body hf g E name v) (S (rk v)).
    Proof.
      intros s r s' Hi H. unfold instance_body in H.
      destruct (nassoc v (cs_cache s)) as [[[ | | |i0| | ]|]|] eqn:Ec; try discriminate.
      { injection H as <- <-. split; [exact Hi | apply grow_refl]. }
      destruct (node_of g v) as [[ | |exports| | | ]|] eqn:En; try discriminate.
      unfold add_if in H. inv_bind H as s1 H1. injection H as <- <-.
      assert (X : inv s1 /\ grow (rk v) s s1).
      { eapply inst_loop_ck in H1; [exact H1| |exact Hi].
        intros a c Ha Hc. apply (HR v _ En). cbn [node_refs]. apply in_flat_map. eauto. }
      destruct X as [I1 G1].
      apply (put_ok v _ s s1); [exact I1 | | exact Ec].
      destruct G1 as [n [E1 F1]]. exists n. split; [exact E1 | exact F1].
    Qed.

    Lemma comp_imports_ck vn me V : forall l s s',
      (forall a c, In a l -> In c (ent_refs (snd a)) -> (rk c < V)%nat) ->
      inv s -> comp_imports hf g E vn me l s = COk s' -> inv s' /\ grow V s s'.
    Proof.
      induction l as [|[n e] l IH]; intros s s' Hl Hi H; cbn [comp_imports] in H.
      - injection H as <-. split; [exact Hi | apply grow_refl].
      - inv_bind H as [k s1] H1. inv_bind H as s2 H2. inv_bind H as s3 H3.
        destruct (HE n e V (fun c Hc => Hl (n, e) c (or_introl eq_refl) Hc) s k s1 Hi H1) as [I1 G1].
        assert (C2 : cs_cache s2 = cs_cache s1).
        { destruct e as [ | | |rf cr| | ]; try (injection H2 as <-; reflexivity).
          destruct (use_or_own_frame g _ _ _ _ _ _ _ _ H2) as [_ Ca]. exact Ca. }
        assert (C3 : cs_cache s3 = cs_cache s2).
        { unfold put_world_import in H3. destruct (get_world _ _) as [x|]; [|discriminate]. destruct (assoc _ _); [discriminate|].
          destruct (upd_world _ _ _); [|discriminate]. injection H3 as <-. reflexivity. }
        assert (I3 : inv s3) by (unfold inv, keys; rewrite C3, C2; exact I1).
        destruct (IH s3 s' (fun a c Ha Hc => Hl a c (or_intror Ha) Hc) I3 H) as [I4 G4].
        split; [exact I4|]. eapply grow_trans; [exact G1|]. eapply grow_trans; [|exact G4]. apply grow_same. congruence.
    Qed.
    Lemma comp_exports_ck me V : forall l s s',
      (forall a c, In a l -> In c (ent_refs (snd a)) -> (rk c < V)%nat) ->
      inv s -> comp_exports E me l s = COk s' -> inv s' /\ grow V s s'.
    Proof.
      induction l as [|[n e] l IH]; intros s s' Hl Hi H; cbn [comp_exports] in H.
      - injection H as <-. split; [exact Hi | apply grow_refl].
      - inv_bind H as [k s1] H1. inv_bind H as s3 H3.
        destruct (HE n e V (fun c Hc => Hl (n, e) c (or_introl eq_refl) Hc) s k s1 Hi H1) as [I1 G1].
        assert (C3 : cs_cache s3 = cs_cache s1).
        { unfold put_world_export in H3. destruct (get_world _ _) as [x|]; [|discriminate]. destruct (assoc _ _); [discriminate|].
          destruct (upd_world _ _ _); [|discriminate]. injection H3 as <-. reflexivity. }
        assert (I3 : inv s3) by (unfold inv, keys; rewrite C3; exact I1).
        destruct (IH s3 s' (fun a c Ha Hc => Hl a c (or_intror Ha) Hc) I3 H) as [I4 G4].
        split; [exact I4|]. eapply grow_trans; [exact G1|]. eapply grow_trans; [|exact G4]. now apply grow_same.
    Qed.

    Lemma component_body_ck name v : ck_ok (component_body hf g E name v) (S (rk v)).
    Proof.
      intros s r s' Hi H. unfold component_body in H.
      destruct (nassoc v (cs_cache s)) as [[[ | | | |w0| ]|]|] eqn:Ec; try discriminate.
      { injection H as <- <-. split; [exact Hi | apply grow_refl]. }
      destruct (node_of g v) as [[ | | |imports exports| | ]|] eqn:En; try discriminate.
      unfold add_world in H. inv_bind H as s1 H1. inv_bind H as s2 H2. injection H as <- <-.
      assert (X : inv s1 /\ grow (rk v) s s1).
      { eapply comp_imports_ck in H1; [exact H1| |exact Hi].
        intros a c Ha Hc. apply (HR v _ En). cbn [node_refs]. apply in_or_app. left. apply in_flat_map. eauto. }
      destruct X as [I1 G1].
      assert (X : inv s2 /\ grow (rk v) s1 s2).
      { eapply comp_exports_ck in H2; [exact H2| |exact I1].
        intros a c Ha Hc. apply (HR v _ En). cbn [node_refs]. apply in_or_app. right. apply in_flat_map. eauto. }
      destruct X as [I2 G2].
      apply (put_ok v _ s s2); [exact I2 | | exact Ec].
      destruct G1 as [n1 [E1 F1]]. destruct G2 as [n2 [E2 F2]]. exists (n2 ++ n1). split; [rewrite E2, E1; now rewrite app_assoc|].
      rewrite map_app. apply Forall_app. auto.
    Qed.

    Lemma entity_body_ck n e V : (forall c, In c (ent_refs e) -> (rk c < V)%nat) -> ck_ok (entity_body hf g E n e) V.
    Proof.
      intros Hc s r s' Hi H. unfold entity_body in H.
      destruct e as [m|v|v|rf cr|i|c]; cbn [ent_refs] in Hc.
      - inv_bind H as [x s1] H1. injection H as <- <-.
        eapply (ck_mono _ (S (rk m)) V); [specialize (Hc m (or_introl eq_refl)); lia | apply c_module_ck | exact Hi | exact H1].
      - inv_bind H as [x s1] H1. injection H as <- <-.
        eapply (ck_mono _ (S (rk v)) V); [specialize (Hc v (or_introl eq_refl)); lia | apply c_func_ck | exact Hi | exact H1].
      - inv_bind H as [x s1] H1. injection H as <- <-. exact (c_val_ck hf v V Hc s x s1 Hi H1).
      - inv_bind H as [x s1] H1. injection H as <- <-. unfold ty_body in H1.
        assert (Hcr : (S (rk cr) <= V)%nat) by (specialize (Hc cr (or_introl eq_refl)); lia).
        destruct (node_of g cr) as [[d|a ps r0|ex|im ex|rid|mm]|] eqn:En; try discriminate;
          inv_bind H1 as [y s2] H2; injection H1 as <- <-.
        + eapply (ck_mono _ _ V Hcr); [apply c_defined_ck | exact Hi | exact H2].
        + eapply (ck_mono _ _ V Hcr); [apply c_func_ck | exact Hi | exact H2].
        + eapply (ck_mono _ _ V Hcr); [apply instance_body_ck | exact Hi | exact H2].
        + eapply (ck_mono _ _ V Hcr); [apply component_body_ck | exact Hi | exact H2].
        + eapply (ck_mono _ _ V Hcr); [apply c_resource_ck | exact Hi | exact H2].
      - inv_bind H as [x s1] H1. injection H as <- <-.
        eapply (ck_mono _ (S (rk i)) V); [specialize (Hc i (or_introl eq_refl)); lia | apply instance_body_ck | exact Hi | exact H1].
      - inv_bind H as [x s1] H1. injection H as <- <-.
        eapply (ck_mono _ (S (rk c)) V); [specialize (Hc c (or_introl eq_refl)); lia | apply component_body_ck | exact Hi | exact H1].
    Qed.
  End Bodies.

  Lemma c_entity_ck hf : forall fuel n e V, (forall c, In c (ent_refs e) -> (rk c < V)%nat) -> ck_ok (c_entity hf fuel g n e) V.
  Proof.
    induction fuel as [|f IH]; intros n e V Hc; [intros s r s' _ H; discriminate|].
    cbn [c_entity]. apply entity_body_ck; [exact IH | exact Hc].
  Qed.

  (** * The theorem *)

  (** every conversion step keeps all earlier cache entries *)
  Theorem entity_later hf fuel n e s k s' : inv s -> c_entity hf fuel g n e s = COk (k, s') -> inv s' /\ later s s'.
  Proof.
    intros Hi H.
    set (V := S (list_max (map rk (ent_refs e)))).
    destruct (c_entity_ck hf fuel n e V) with (s := s) (r := k) (s' := s') as [I G]; [|exact Hi|exact H|].
    - intros c Hc. unfold V. pose proof (list_max_le (map rk (ent_refs e)) (list_max (map rk (ent_refs e)))) as [Hle _].
      specialize (Hle (Nat.le_refl _)). rewrite Forall_forall in Hle. specialize (Hle (rk c) (in_map rk _ _ Hc)). lia.
    - split; [exact I | eapply grow_later; eassumption].
  Qed.

  (** a conversion fills the cache with its result ... *)
  Lemma c_func_fills hf v s i s' : c_func hf g v s = COk (i, s') -> nassoc v (cs_cache s') = Some (EnType (TFunc i)).
  Proof.
    unfold c_func. destruct (nassoc v (cs_cache s)) as [[[ |f0| | | | ]|]|] eqn:Ec; try discriminate.
    { intro H. injection H as <- <-. exact Ec. }
    destruct (node_of g v) as [[ |a ps r0| | | | ]|]; try discriminate.
    intro H. inv_bind H as [ps' s1] H1. inv_bind H as [r' s2] H2. unfold add_func in H. injection H as <- <-.
    unfold cache_put. cbn [cs_cache nassoc]. now rewrite Nat.eqb_refl.
  Qed.
  Lemma c_defined_fills fuel d s x s' :
    c_defined fuel g d s = COk (x, s') -> nassoc d (cs_cache s') = Some (EnType (TValue x)).
  Proof.
    destruct fuel as [|f]; [discriminate|]. cbn [c_defined]. unfold defined_body.
    destruct (nassoc d (cs_cache s)) as [[[ | |y| | | ]|]|] eqn:Ec; try discriminate.
    { intro H. injection H as <- <-. exact Ec. }
    destruct (node_of g d) as [[nd| | | | | ]|]; try discriminate.
    intro H. inv_bind H as [v s1] H1. injection H as <- <-. unfold cache_put. cbn [cs_cache nassoc]. now rewrite Nat.eqb_refl.
  Qed.
  (** ... and a later conversion of the same identifier returns it without touching the state *)
  Lemma c_func_hit hf v s i : nassoc v (cs_cache s) = Some (EnType (TFunc i)) -> c_func hf g v s = COk (i, s).
  Proof. intro H. unfold c_func. now rewrite H. Qed.
  Lemma c_defined_hit fuel d s x : nassoc d (cs_cache s) = Some (EnType (TValue x)) -> c_defined (S fuel) g d s = COk (x, s).
  Proof. intro H. cbn [c_defined]. unfold defined_body. now rewrite H. Qed.

  (** the same validator identifier is converted to the same wac identifier at any later time *)
  Theorem func_twice hf v s i s1 s2 :
    c_func hf g v s = COk (i, s1) -> later s1 s2 -> c_func hf g v s2 = COk (i, s2).
  Proof. intros H L. apply c_func_hit. apply L. eapply c_func_fills. exact H. Qed.
  Theorem defined_twice fuel fuel' d s x s1 s2 :
    c_defined fuel g d s = COk (x, s1) -> later s1 s2 -> c_defined (S fuel') g d s2 = COk (x, s2).
  Proof. intros H L. apply c_defined_hit. apply L. eapply c_defined_fills. exact H. Qed.

  (** the same for every kind of entity: what a conversion returned is what any later conversion of the same
      validator entity returns, and the later conversion changes nothing *)
  Lemma c_module_fills v s i s' : c_module g v s = COk (i, s') -> nassoc v (cs_cache s') = Some (EnType (TModule i)).
  Proof.
    unfold c_module. destruct (nassoc v (cs_cache s)) as [[[ | | | | |m0]|]|] eqn:Ec; try discriminate.
    { intro H. injection H as <- <-. exact Ec. }
    destruct (node_of g v) as [[ | | | | |[mt|]]|]; try discriminate.
    unfold add_mod. intro H. injection H as <- <-. unfold cache_put. cbn [cs_cache nassoc]. now rewrite Nat.eqb_refl.
  Qed.
  Lemma c_resource_fills hf name v s i s' : c_resource hf g name v s = COk (i, s') -> nassoc v (cs_cache s') = Some (EnRes i).
  Proof.
    unfold c_resource. destruct (nassoc v (cs_cache s)) as [[|r0]|] eqn:Ec; try discriminate.
    { intro H. injection H as <- <-. exact Ec. }
    destruct (node_of g v) as [[ | | | |rid| ]|]; try discriminate.
    destruct (nassoc rid (cs_resmap s)) as [src|].
    - destruct (find_owner hf g (cs_owners s) v) as [o|]; [|discriminate].
      unfold add_res. intro H. injection H as <- <-. unfold cache_put. cbn [cs_cache nassoc]. now rewrite Nat.eqb_refl.
    - unfold add_res. intro H. injection H as <- <-. cbn [cs_cache nassoc]. now rewrite Nat.eqb_refl.
  Qed.
  Lemma instance_body_fills hf E name v s i s' :
    instance_body hf g E name v s = COk (i, s') -> nassoc v (cs_cache s') = Some (EnType (TInterface i)).
  Proof.
    unfold instance_body. destruct (nassoc v (cs_cache s)) as [[[ | | |i0| | ]|]|] eqn:Ec; try discriminate.
    { intro H. injection H as <- <-. exact Ec. }
    destruct (node_of g v) as [[ | |exports| | | ]|]; try discriminate.
    unfold add_if. intro H. inv_bind H as s1 H1. injection H as <- <-. unfold cache_put. cbn [cs_cache nassoc]. now rewrite Nat.eqb_refl.
  Qed.
  Lemma component_body_fills hf E name v s i s' :
    component_body hf g E name v s = COk (i, s') -> nassoc v (cs_cache s') = Some (EnType (TWorld i)).
  Proof.
    unfold component_body. destruct (nassoc v (cs_cache s)) as [[[ | | | |w0| ]|]|] eqn:Ec; try discriminate.
    { intro H. injection H as <- <-. exact Ec. }
    destruct (node_of g v) as [[ | | |imports exports| | ]|]; try discriminate.
    unfold add_world. intro H. inv_bind H as s1 H1. inv_bind H as s2 H2. injection H as <- <-.
    unfold cache_put. cbn [cs_cache nassoc]. now rewrite Nat.eqb_refl.
  Qed.

  Theorem entity_twice hf fuel fuel' n n' e s k s1 s2 :
    c_entity (S hf) fuel g n e s = COk (k, s1) -> later s1 s2 ->
    c_entity (S hf) (S fuel') g n' e s2 = COk (k, s2).
  Proof.
    destruct fuel as [|f]; [discriminate|]. cbn [c_entity]. unfold entity_body. intros H L.
    destruct e as [m|v|v|rf cr|i|c].
    - inv_bind H as [x s0] H1. injection H as <- <-. apply c_module_fills in H1. apply L in H1.
      unfold c_module. rewrite H1. reflexivity.
    - inv_bind H as [x s0] H1. injection H as <- <-. apply c_func_fills in H1. apply L in H1.
      unfold c_func. rewrite H1. reflexivity.
    - inv_bind H as [x s0] H1. injection H as <- <-. unfold c_val in *. destruct v as [p|d]; cbn [val_body] in *.
      + injection H1 as <- <-. reflexivity.
      + apply c_defined_fills in H1. apply L in H1. cbn [c_defined]. unfold defined_body. rewrite H1. reflexivity.
    - inv_bind H as [x s0] H1. injection H as <- <-. unfold ty_body in *.
      destruct (node_of g cr) as [[d|a ps r0|ex|im ex|rid|mm]|] eqn:En; try discriminate;
        inv_bind H1 as [y s3] H2; injection H1 as <- <-.
      + apply c_defined_fills in H2. apply L in H2. cbn [c_defined]. unfold defined_body. rewrite H2. reflexivity.
      + apply c_func_fills in H2. apply L in H2. unfold c_func. rewrite H2. reflexivity.
      + apply instance_body_fills in H2. apply L in H2. unfold instance_body. rewrite H2. reflexivity.
      + apply component_body_fills in H2. apply L in H2. unfold component_body. rewrite H2. reflexivity.
      + apply c_resource_fills in H2. apply L in H2. unfold c_resource. rewrite H2. reflexivity.
    - inv_bind H as [x s0] H1. injection H as <- <-. apply instance_body_fills in H1. apply L in H1.
      unfold instance_body. rewrite H1. reflexivity.
    - inv_bind H as [x s0] H1. injection H as <- <-. apply component_body_fills in H1. apply L in H1.
      unfold component_body. rewrite H1. reflexivity.
  Qed.
End Cache.
