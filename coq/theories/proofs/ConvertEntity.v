(** [convert_tree_faithful_partial], part 2: instance types, component types, entities, the package. *)
From Coq Require Import Lia.
From WacV Require Import Str Types CheckerEq CheckerValue CheckerProofs Convert ConvertSpec ConvertProofs ConvertFrame ConvertTree.
Set Warnings "-unused-intro-pattern".

(** * Opening and closing a slot *)
Lemma agree_open_if O t t1 t2 :
  agree [] t t1 -> agree ((true, length (t_interfaces t)) :: O) t1 t2 -> agree O t t2.
Proof.
  intros A B. pose proof (agree_trans _ _ _ _ (agree_nil ((true, length (t_interfaces t)) :: O) _ _ A) B) as C.
  destruct C as [C1 C2 C3 C4 C5 C6 C7 C8 C9]. constructor; auto.
  - intros i x H Hn. apply C6; [exact H|]. intros [Heq|Hin]; [|contradiction].
    injection Heq as <-. assert (length (t_interfaces t) < length (t_interfaces t))%nat by (apply nth_error_Some; congruence). lia.
  - intros i x H Hn. apply C7; [exact H|]. intros [Heq|Hin]; [discriminate | contradiction].
Qed.
Lemma agree_open_world O t t1 t2 :
  agree [] t t1 -> agree ((false, length (t_worlds t)) :: O) t1 t2 -> agree O t t2.
Proof.
  intros A B. pose proof (agree_trans _ _ _ _ (agree_nil ((false, length (t_worlds t)) :: O) _ _ A) B) as C.
  destruct C as [C1 C2 C3 C4 C5 C6 C7 C8 C9]. constructor; auto.
  - intros i x H Hn. apply C6; [exact H|]. intros [Heq|Hin]; [discriminate | contradiction].
  - intros i x H Hn. apply C7; [exact H|]. intros [Heq|Hin]; [|contradiction].
    injection Heq as <-. assert (length (t_worlds t) < length (t_worlds t))%nat by (apply nth_error_Some; congruence). lia.
Qed.

Section Entity.
  Variable g : vgraph.
  Variable hf : nat.

  Notation pre := (pre g).
  Notation rob := rob.
  Notation fn_ok := (fn_ok g).

  Lemma cache_ok_weaken O O' s : (forall x, In x O -> In x O') -> cache_ok g O' s -> cache_ok g O s.
  Proof. intros Hs H v e Hv t' A. apply (H v e Hv). eapply agree_weaken; eassumption. Qed.

  (** entering the construction of a fresh interface / world slot *)
  Lemma pre_open_if O s t1 :
    pre O s -> agree [] (cs_types s) t1 -> (length (t_interfaces (cs_types s)) < length (t_interfaces t1))%nat ->
    pre ((true, length (t_interfaces (cs_types s))) :: O) (with_types s t1).
  Proof.
    intros [H1 H2] A Hl. split.
    - intros b i [Heq|Hin]; [injection Heq as <- <-; exact Hl|]. eapply slots_ok_agree; [exact A | exact H1 | exact Hin].
    - intros v e Hv t' A'. apply (H2 v e Hv). eapply agree_open_if; eassumption.
  Qed.
  Lemma pre_open_world O s t1 :
    pre O s -> agree [] (cs_types s) t1 -> (length (t_worlds (cs_types s)) < length (t_worlds t1))%nat ->
    pre ((false, length (t_worlds (cs_types s))) :: O) (with_types s t1).
  Proof.
    intros [H1 H2] A Hl. split.
    - intros b i [Heq|Hin]; [injection Heq as <- <-; exact Hl|]. eapply slots_ok_agree; [exact A | exact H1 | exact Hin].
    - intros v e Hv t' A'. apply (H2 v e Hv). eapply agree_open_world; eassumption.
  Qed.

  (** a step that changes only the open slot [sl] is invisible from outside once [sl] was allocated after [t] *)
  Lemma agree_close_if t t1 t2 :
    agree [] t t1 -> agree [(true, length (t_interfaces t))] t1 t2 -> agree [] t t2.
  Proof. intros A B. eapply agree_open_if; eassumption. Qed.
  Lemma agree_close_world t t1 t2 :
    agree [] t t1 -> agree [(false, length (t_worlds t))] t1 t2 -> agree [] t t2.
  Proof. intros A B. eapply agree_open_world; eassumption. Qed.

  (** * Items *)
  Definition item_ok (O : list slot) (t : types) (a : str * vent) (b : str * kind) : Prop :=
    fst a = fst b /\ rob O t (fun t' => den_ent g t' (snd a) (snd b)).
  Lemma items_step O t t1 l m : agree O t t1 -> Forall2 (item_ok O t) l m -> Forall2 (item_ok O t1) l m.
  Proof. intros A. apply Forall2_imp. intros a b [H1 H2]. split; [exact H1 | eapply rob_step; eassumption]. Qed.

  Lemma Forall2_snoc {A B} (R : A -> B -> Prop) l m a b : Forall2 R l m -> R a b -> Forall2 R (l ++ [a]) (m ++ [b]).
  Proof. intros H Hab. apply Forall2_app; [exact H | constructor; [exact Hab | constructor]]. Qed.

  (** the items of a finished slot denote the item list of the validator type *)
  Lemma items_refine O t t' (l : list (str * vent)) (m : list (str * kind)) fuel r :
    Forall2 (item_ok O t) l m -> agree O t t' -> map_snd (spec_tree fuel g) l = Some r ->
    exists F, map_snd (unfold F t') m = Some r.
  Proof.
    intros H A E.
    eapply (map_snd_refine (spec_tree fuel g) (fun f' => unfold f' t') (mono_unfold t')); [|exact E].
    eapply Forall2_imp; [|exact H]. intros a b [H1 H2]. split; [exact H1|]. intros tr. apply (H2 t' A).
  Qed.

  Section Bodies.
    Variable E : str -> vent -> cstate -> cres (kind * cstate).
    Hypothesis HE : forall n e, fn_ok (E n e) (fun t' k => den_ent g t' e k).

    (** ** The export loop of an instance type *)
    Lemma inst_loop_ok vn me O : forall l s s' done x,
      pre ((true, id_idx me) :: O) s ->
      get_if (cs_types s) me = Some x -> Forall2 (item_ok ((true, id_idx me) :: O) (cs_types s)) done (i_exports x) ->
      inst_loop hf g E vn me l s = COk s' ->
      agree [(true, id_idx me)] (cs_types s) (cs_types s') /\ pre ((true, id_idx me) :: O) s' /\
      exists x', get_if (cs_types s') me = Some x' /\
                 Forall2 (item_ok ((true, id_idx me) :: O) (cs_types s')) (done ++ l) (i_exports x').
    Proof.
      set (O' := (true, id_idx me) :: O).
      induction l as [|[n e] l IH]; intros s s' done x Hp Hx Hd H; cbn [inst_loop] in H.
      - injection H as <-. split; [apply agree_refl|]. split; [exact Hp|]. exists x. rewrite app_nil_r. auto.
      - inv_bind H as [k s1] H1. inv_bind H as s2 H2. inv_bind H as s3 H3.
        destruct (HE n e O' s k s1 Hp H1) as [A1 [P1 D1]].
        (* the slot is untouched by the conversion of the item *)
        destruct (agree_get_if _ _ _ A1 _ _ Hx (fun F => F)) as [x1 [Hx1 Ex1]].
        (* use_or_own / self-ownership reset *)
        assert (X : agree [] (cs_types s1) (cs_types s2) /\ cs_cache s2 = cs_cache s1).
        { destruct e as [ | | |rf cr| | ]; try (injection H2 as <-; split; [apply agree_refl | reflexivity]).
          inv_bind H2 as sa Ha. destruct (use_or_own_frame g _ _ _ _ _ _ _ _ Ha) as [Aa Ca].
          destruct (reset_self_owner_frame _ _ _ _ H2) as [Ab Cb].
          split; [eapply agree_trans; eassumption | congruence]. }
        destruct X as [A2 C2].
        assert (P2 : pre O' s2) by (eapply pre_step_nil; eassumption).
        destruct (agree_get_if _ _ _ A2 _ _ Hx1 (fun F => F)) as [x2 [Hx2 Ex2]].
        destruct (put_if_export_frame _ _ _ _ _ _ H3 Hx2) as [A3 [C3 [x3 [Hx3 Ex3]]]].
        assert (A3' : agree O' (cs_types s2) (cs_types s3)).
        { eapply agree_weaken; [|exact A3]. intros y [<-|[]]. now left. }
        assert (P3 : pre O' s3) by (eapply pre_step; eassumption).
        assert (A13 : agree O' (cs_types s1) (cs_types s3)) by (eapply agree_trans; [apply agree_nil; exact A2 | exact A3']).
        assert (A03 : agree O' (cs_types s) (cs_types s3)) by (eapply agree_trans; [apply agree_nil; exact A1 | exact A13]).
        assert (Hd3 : Forall2 (item_ok O' (cs_types s3)) (done ++ [(n, e)]) (i_exports x3)).
        { rewrite Ex3, Ex2, Ex1. apply Forall2_snoc; [eapply items_step; eassumption|].
          unfold item_ok. cbn [fst snd]. split; [reflexivity|]. eapply rob_step; [exact A13 | exact D1]. }
        destruct (IH s3 s' (done ++ [(n, e)]) x3 P3 Hx3 Hd3 H) as [A4 [P4 [x4 [Hx4 Hd4]]]].
        split.
        { eapply agree_trans; [|exact A4]. eapply agree_trans; [apply agree_nil; exact A1|].
          eapply agree_trans; [apply agree_nil; exact A2 | exact A3]. }
        split; [exact P4|]. exists x4. split; [exact Hx4|]. now rewrite <- app_assoc in Hd4.
    Qed.

    Lemma instance_body_ok name v : fn_ok (instance_body hf g E name v) (fun t' i => den_inst g t' v i).
    Proof.
      intros O s r s' Hp H. unfold instance_body in H.
      destruct (nassoc v (cs_cache s)) as [[[ | | |i0| | ]|]|] eqn:Ec; try discriminate.
      { injection H as <- <-. split; [apply agree_refl|]. split; [assumption|]. exact (proj2 Hp _ _ Ec). }
      destruct (node_of g v) as [[ | |exports| | | ]|] eqn:En; try discriminate.
      unfold add_if in H. inv_bind H as s1 H1. injection H as <- <-.
      set (me := mkid (t_tag (cs_types s)) (length (t_interfaces (cs_types s)))) in *.
      set (t0 := mktypes _ _ _ _ _ _ _) in H1.
      assert (A0 : agree [] (cs_types s) t0) by apply (agree_add_if (cs_types s) (mkif (iface_id_of name) [] [])).
      assert (P0 : pre ((true, id_idx me) :: O) (with_types s t0)).
      { apply pre_open_if; [exact Hp | exact A0|]. unfold t0. cbn [t_interfaces]. rewrite app_length. cbn. lia. }
      assert (G0 : get_if (cs_types (with_types s t0)) me = Some (mkif (iface_id_of name) [] [])).
      { unfold get_if, t0, me. cbn [cs_types with_types t_tag t_interfaces]. apply lookup_new. }
      destruct (inst_loop_ok v me O exports (with_types s t0) s1 [] _ P0 G0 (Forall2_nil _) H1) as [A1 [P1 [x1 [Hx1 Hd1]]]].
      cbn [app] in Hd1. cbn [cs_types with_types] in A1.
      assert (A01 : agree [] (cs_types s) (cs_types s1)) by (eapply agree_close_if; eassumption).
      assert (Hfresh : ~ In (true, id_idx me) O).
      { intro Hin. apply (proj1 Hp) in Hin. cbn [me id_idx] in Hin. lia. }
      assert (DD : rob O (cs_types s1) (fun t' => den_inst g t' v me)).
      { intros t' A' fuel l E0. unfold spec_inst in E0. rewrite En in E0.
        destruct (agree_get_if _ _ _ A' _ _ Hx1 Hfresh) as [x' [Hx' Ex']].
        destruct (items_refine ((true, id_idx me) :: O) (cs_types s1) t' exports (i_exports x1) fuel l Hd1) as [F HF]; [|exact E0|].
        { eapply agree_weaken; [|exact A']. intros y Hy. now right. }
        exists F. unfold unfold_inst. rewrite Hx', Ex'. exact HF. }
      split; [exact A01|]. split; [|exact DD].
      apply pre_put; [|exact DD]. split.
      - eapply slots_ok_agree; [exact A01 | exact (proj1 Hp)].
      - eapply cache_ok_weaken; [|exact (proj2 P1)]. intros y Hy. now right.
    Qed.

    (** ** The import and export loops of a component type *)
    Definition witem_ok (O : list slot) (t : types) := item_ok O t.

    Lemma comp_imports_ok vn me O : forall l s s' done x,
      pre ((false, id_idx me) :: O) s ->
      get_world (cs_types s) me = Some x -> Forall2 (item_ok ((false, id_idx me) :: O) (cs_types s)) done (w_imports x) ->
      comp_imports hf g E vn me l s = COk s' ->
      agree [(false, id_idx me)] (cs_types s) (cs_types s') /\ pre ((false, id_idx me) :: O) s' /\
      exists x', get_world (cs_types s') me = Some x' /\ w_exports x' = w_exports x /\
                 Forall2 (item_ok ((false, id_idx me) :: O) (cs_types s')) (done ++ l) (w_imports x').
    Proof.
      set (O' := (false, id_idx me) :: O).
      induction l as [|[n e] l IH]; intros s s' done x Hp Hx Hd H; cbn [comp_imports] in H.
      - injection H as <-. split; [apply agree_refl|]. split; [exact Hp|]. exists x. rewrite app_nil_r. auto.
      - inv_bind H as [k s1] H1. inv_bind H as s2 H2. inv_bind H as s3 H3.
        destruct (HE n e O' s k s1 Hp H1) as [A1 [P1 D1]].
        destruct (agree_get_world _ _ _ A1 _ _ Hx (fun F => F)) as [x1 [Hx1 [Ei1 Ee1]]].
        assert (X : agree [] (cs_types s1) (cs_types s2) /\ cs_cache s2 = cs_cache s1).
        { destruct e as [ | | |rf cr| | ]; try (injection H2 as <-; split; [apply agree_refl | reflexivity]).
          exact (use_or_own_frame g _ _ _ _ _ _ _ _ H2). }
        destruct X as [A2 C2].
        assert (P2 : pre O' s2) by (eapply pre_step_nil; eassumption).
        destruct (agree_get_world _ _ _ A2 _ _ Hx1 (fun F => F)) as [x2 [Hx2 [Ei2 Ee2]]].
        destruct (put_world_import_frame _ _ _ _ _ _ H3 Hx2) as [A3 [C3 [x3 [Hx3 [Ei3 Ee3]]]]].
        assert (A3' : agree O' (cs_types s2) (cs_types s3)).
        { eapply agree_weaken; [|exact A3]. intros y [<-|[]]. now left. }
        assert (P3 : pre O' s3) by (eapply pre_step; eassumption).
        assert (A13 : agree O' (cs_types s1) (cs_types s3)) by (eapply agree_trans; [apply agree_nil; exact A2 | exact A3']).
        assert (A03 : agree O' (cs_types s) (cs_types s3)) by (eapply agree_trans; [apply agree_nil; exact A1 | exact A13]).
        assert (Hd3 : Forall2 (item_ok O' (cs_types s3)) (done ++ [(n, e)]) (w_imports x3)).
        { rewrite Ei3, Ei2, Ei1. apply Forall2_snoc; [eapply items_step; eassumption|].
          unfold item_ok. cbn [fst snd]. split; [reflexivity|]. eapply rob_step; [exact A13 | exact D1]. }
        destruct (IH s3 s' (done ++ [(n, e)]) x3 P3 Hx3 Hd3 H) as [A4 [P4 [x4 [Hx4 [Ee4 Hd4]]]]].
        split.
        { eapply agree_trans; [|exact A4]. eapply agree_trans; [apply agree_nil; exact A1|].
          eapply agree_trans; [apply agree_nil; exact A2 | exact A3]. }
        split; [exact P4|]. exists x4. split; [exact Hx4|]. split; [congruence|]. now rewrite <- app_assoc in Hd4.
    Qed.

    Lemma comp_exports_ok me O : forall l s s' done x,
      pre ((false, id_idx me) :: O) s ->
      get_world (cs_types s) me = Some x -> Forall2 (item_ok ((false, id_idx me) :: O) (cs_types s)) done (w_exports x) ->
      comp_exports E me l s = COk s' ->
      agree [(false, id_idx me)] (cs_types s) (cs_types s') /\ pre ((false, id_idx me) :: O) s' /\
      exists x', get_world (cs_types s') me = Some x' /\ w_imports x' = w_imports x /\
                 Forall2 (item_ok ((false, id_idx me) :: O) (cs_types s')) (done ++ l) (w_exports x').
    Proof.
      set (O' := (false, id_idx me) :: O).
      induction l as [|[n e] l IH]; intros s s' done x Hp Hx Hd H; cbn [comp_exports] in H.
      - injection H as <-. split; [apply agree_refl|]. split; [exact Hp|]. exists x. rewrite app_nil_r. auto.
      - inv_bind H as [k s1] H1. inv_bind H as s3 H3.
        destruct (HE n e O' s k s1 Hp H1) as [A1 [P1 D1]].
        destruct (agree_get_world _ _ _ A1 _ _ Hx (fun F => F)) as [x1 [Hx1 [Ei1 Ee1]]].
        destruct (put_world_export_frame _ _ _ _ _ _ H3 Hx1) as [A3 [C3 [x3 [Hx3 [Ei3 Ee3]]]]].
        assert (A3' : agree O' (cs_types s1) (cs_types s3)).
        { eapply agree_weaken; [|exact A3]. intros y [<-|[]]. now left. }
        assert (P3 : pre O' s3) by (eapply pre_step; eassumption).
        assert (A03 : agree O' (cs_types s) (cs_types s3)) by (eapply agree_trans; [apply agree_nil; exact A1 | exact A3']).
        assert (Hd3 : Forall2 (item_ok O' (cs_types s3)) (done ++ [(n, e)]) (w_exports x3)).
        { rewrite Ee3, Ee1. apply Forall2_snoc; [eapply items_step; eassumption|].
          unfold item_ok. cbn [fst snd]. split; [reflexivity|]. eapply rob_step; [exact A3' | exact D1]. }
        destruct (IH s3 s' (done ++ [(n, e)]) x3 P3 Hx3 Hd3 H) as [A4 [P4 [x4 [Hx4 [Ei4 Hd4]]]]].
        split.
        { eapply agree_trans; [|exact A4]. eapply agree_trans; [apply agree_nil; exact A1 | exact A3]. }
        split; [exact P4|]. exists x4. split; [exact Hx4|]. split; [congruence|]. now rewrite <- app_assoc in Hd4.
    Qed.

    Lemma component_body_ok name v : fn_ok (component_body hf g E name v) (fun t' w => den_comp g t' v w).
    Proof.
      intros O s r s' Hp H. unfold component_body in H.
      destruct (nassoc v (cs_cache s)) as [[[ | | | |w0| ]|]|] eqn:Ec; try discriminate.
      { injection H as <- <-. split; [apply agree_refl|]. split; [assumption|]. exact (proj2 Hp _ _ Ec). }
      destruct (node_of g v) as [[ | | |imports exports| | ]|] eqn:En; try discriminate.
      unfold add_world in H. inv_bind H as s1 H1. inv_bind H as s2 H2. injection H as <- <-.
      set (me := mkid (t_tag (cs_types s)) (length (t_worlds (cs_types s)))) in *.
      set (t0 := mktypes _ _ _ _ _ _ _) in H1.
      assert (A0 : agree [] (cs_types s) t0) by apply (agree_add_world (cs_types s) (mkworld (iface_id_of name) [] [] [])).
      assert (P0 : pre ((false, id_idx me) :: O) (with_types s t0)).
      { apply pre_open_world; [exact Hp | exact A0|]. unfold t0. cbn [t_worlds]. rewrite app_length. cbn. lia. }
      assert (G0 : get_world (cs_types (with_types s t0)) me = Some (mkworld (iface_id_of name) [] [] [])).
      { unfold get_world, t0, me. cbn [cs_types with_types t_tag t_worlds]. apply lookup_new. }
      destruct (comp_imports_ok v me O imports (with_types s t0) s1 [] _ P0 G0 (Forall2_nil _) H1) as [A1 [P1 [x1 [Hx1 [Ee1 Hd1]]]]].
      cbn [app w_exports] in Hd1, Ee1. cbn [cs_types with_types] in A1.
      assert (Hd1e : Forall2 (item_ok ((false, id_idx me) :: O) (cs_types s1)) [] (w_exports x1)) by (rewrite Ee1; constructor).
      destruct (comp_exports_ok me O exports s1 s2 [] x1 P1 Hx1 Hd1e H2) as [A2 [P2 [x2 [Hx2 [Ei2 Hd2]]]]].
      cbn [app] in Hd2.
      assert (A12 : agree [(false, id_idx me)] t0 (cs_types s2)) by (eapply agree_trans; eassumption).
      assert (A02 : agree [] (cs_types s) (cs_types s2)) by (eapply agree_close_world; eassumption).
      assert (Hfresh : ~ In (false, id_idx me) O).
      { intro Hin. apply (proj1 Hp) in Hin. cbn [me id_idx] in Hin. lia. }
      assert (Hd1' : Forall2 (item_ok ((false, id_idx me) :: O) (cs_types s2)) imports (w_imports x2)).
      { rewrite Ei2. eapply items_step; [|exact Hd1]. eapply agree_weaken; [|exact A2]. intros y [<-|[]]. now left. }
      assert (DD : rob O (cs_types s2) (fun t' => den_comp g t' v me)).
      { intros t' A' fuel ie E0. unfold spec_comp in E0. rewrite En in E0.
        destruct (map_snd (spec_tree fuel g) imports) as [li|] eqn:Eli; [|discriminate].
        destruct (map_snd (spec_tree fuel g) exports) as [le|] eqn:Ele; [|discriminate]. injection E0 as <-.
        destruct (agree_get_world _ _ _ A' _ _ Hx2 Hfresh) as [x' [Hx' [Ei' Ee']]].
        assert (Aw : agree ((false, id_idx me) :: O) (cs_types s2) t').
        { eapply agree_weaken; [|exact A']. intros y Hy. now right. }
        destruct (items_refine _ _ t' imports (w_imports x2) fuel li Hd1' Aw Eli) as [F1 HF1].
        destruct (items_refine _ _ t' exports (w_exports x2) fuel le Hd2 Aw Ele) as [F2 HF2].
        exists (Nat.max F1 F2). unfold unfold_comp. rewrite Hx', Ei', Ee'.
        assert (He1 : ext_some (unfold F1 t') (unfold (Nat.max F1 F2) t')) by (intros a b; apply unfold_mono; apply Nat.le_max_l).
        assert (He2 : ext_some (unfold F2 t') (unfold (Nat.max F1 F2) t')) by (intros a b; apply unfold_mono; apply Nat.le_max_r).
        now rewrite (map_snd_ext _ _ _ _ He1 HF1), (map_snd_ext _ _ _ _ He2 HF2). }
      split; [exact A02|]. split; [|exact DD].
      apply pre_put; [|exact DD]. split.
      - eapply slots_ok_agree; [exact A02 | exact (proj1 Hp)].
      - eapply cache_ok_weaken; [|exact (proj2 P2)]. intros y Hy. now right.
    Qed.

    (** ** [ty] and [entity] *)
    Lemma spec_tree_S fuel e tr : spec_tree fuel g e = Some tr ->
      exists f, fuel = S f /\ spec_tree_body (spec_tree f g) (S f) g e = Some tr.
    Proof. destruct fuel as [|f]; [discriminate|]. intro H. exists f. split; [reflexivity | exact H]. Qed.

    Lemma entity_body_ok n e : fn_ok (entity_body hf g E n e) (fun t' k => den_ent g t' e k).
    Proof.
      intros O s r s' Hp H. unfold entity_body in H.
      destruct e as [m|v|v|rf cr|i|c].
      - (* module *)
        inv_bind H as [x s1] H1. injection H as <- <-. destruct (c_module_ok g m O s x s1 Hp H1) as [A1 [P1 D1]].
        split; [exact A1|]. split; [exact P1|]. intros t' A' fuel tr E0.
        destruct (spec_tree_S _ _ _ E0) as [f [-> E1]]. cbn [spec_tree_body] in E1.
        destruct (spec_mod g m) as [mt|] eqn:Em; [|discriminate]. injection E1 as <-.
        exists 1%nat. rewrite unfold_eq. cbn [unfold_body]. now rewrite (D1 t' A' _ Em).
      - (* func *)
        inv_bind H as [x s1] H1. injection H as <- <-. destruct (c_func_ok g hf v O s x s1 Hp H1) as [A1 [P1 D1]].
        split; [exact A1|]. split; [exact P1|]. intros t' A' fuel tr E0.
        destruct (spec_tree_S _ _ _ E0) as [f [-> E1]]. cbn [spec_tree_body] in E1.
        destruct (spec_ft (S f) g v) as [ft|] eqn:Em; [|discriminate]. injection E1 as <-.
        destruct (D1 t' A' _ _ Em) as [F HF]. exists (S F). rewrite unfold_eq. cbn [unfold_body].
        now rewrite (unfold_func_mono F (S F) _ _ _ (Nat.le_succ_diag_r F) HF).
      - (* value *)
        inv_bind H as [x s1] H1. injection H as <- <-. destruct (c_val_ok g hf v O s x s1 Hp H1) as [A1 [P1 D1]].
        split; [exact A1|]. split; [exact P1|]. intros t' A' fuel tr E0.
        destruct (spec_tree_S _ _ _ E0) as [f [-> E1]]. cbn [spec_tree_body] in E1.
        destruct (spec_vt (S f) g v) as [vt|] eqn:Em; [|discriminate]. injection E1 as <-.
        destruct (D1 t' A' _ _ Em) as [F HF]. exists (S F). rewrite unfold_eq. cbn [unfold_body].
        now rewrite (unfold_vt_mono F (S F) _ _ _ (Nat.le_succ_diag_r F) HF).
      - (* type *)
        inv_bind H as [x s1] H1. injection H as <- <-. unfold ty_body in H1.
        destruct (node_of g cr) as [[d|a ps r0|ex|im ex|rid|mm]|] eqn:En; try discriminate.
        + inv_bind H1 as [y s2] H2. injection H1 as <- <-. destruct (c_defined_ok g hf cr O s y s2 Hp H2) as [A1 [P1 D1]].
          split; [exact A1|]. split; [exact P1|]. intros t' A' fuel tr E0.
          destruct (spec_tree_S _ _ _ E0) as [f [-> E1]]. cbn [spec_tree_body] in E1. rewrite En in E1.
          destruct (spec_vt (S f) g (WRef cr)) as [vt|] eqn:Em; [|discriminate]. injection E1 as <-.
          destruct (D1 t' A' _ _ Em) as [F HF]. exists (S F). rewrite unfold_eq. cbn [unfold_body].
          now rewrite (unfold_vt_mono F (S F) _ _ _ (Nat.le_succ_diag_r F) HF).
        + inv_bind H1 as [y s2] H2. injection H1 as <- <-. destruct (c_func_ok g hf cr O s y s2 Hp H2) as [A1 [P1 D1]].
          split; [exact A1|]. split; [exact P1|]. intros t' A' fuel tr E0.
          destruct (spec_tree_S _ _ _ E0) as [f [-> E1]]. cbn [spec_tree_body] in E1. rewrite En in E1.
          destruct (spec_ft (S f) g cr) as [ft|] eqn:Em; [|discriminate]. injection E1 as <-.
          destruct (D1 t' A' _ _ Em) as [F HF]. exists (S F). rewrite unfold_eq. cbn [unfold_body].
          now rewrite (unfold_func_mono F (S F) _ _ _ (Nat.le_succ_diag_r F) HF).
        + inv_bind H1 as [y s2] H2. injection H1 as <- <-. destruct (instance_body_ok None cr O s y s2 Hp H2) as [A1 [P1 D1]].
          split; [exact A1|]. split; [exact P1|]. intros t' A' fuel tr E0.
          destruct (spec_tree_S _ _ _ E0) as [f [-> E1]]. cbn [spec_tree_body] in E1. rewrite En in E1.
          destruct (spec_inst (spec_tree f g) g cr) as [l|] eqn:Em; [|discriminate]. injection E1 as <-.
          destruct (D1 t' A' _ _ Em) as [F HF]. exists (S F). rewrite unfold_eq. cbn [unfold_body]. now rewrite HF.
        + inv_bind H1 as [y s2] H2. injection H1 as <- <-. destruct (component_body_ok None cr O s y s2 Hp H2) as [A1 [P1 D1]].
          split; [exact A1|]. split; [exact P1|]. intros t' A' fuel tr E0.
          destruct (spec_tree_S _ _ _ E0) as [f [-> E1]]. cbn [spec_tree_body] in E1. rewrite En in E1.
          destruct (spec_comp (spec_tree f g) g cr) as [l|] eqn:Em; [|discriminate]. injection E1 as <-.
          destruct (D1 t' A' _ _ Em) as [F HF]. exists (S F). rewrite unfold_eq. cbn [unfold_body]. now rewrite HF.
        + inv_bind H1 as [y s2] H2. injection H1 as <- <-. destruct (c_resource_ok g hf n cr O s y s2 Hp H2) as [A1 [P1 D1]].
          split; [exact A1|]. split; [exact P1|]. intros t' A' fuel tr E0.
          destruct (spec_tree_S _ _ _ E0) as [f [-> E1]]. cbn [spec_tree_body] in E1. rewrite En in E1. discriminate.
      - (* instance *)
        inv_bind H as [x s1] H1. injection H as <- <-. destruct (instance_body_ok (Some n) i O s x s1 Hp H1) as [A1 [P1 D1]].
        split; [exact A1|]. split; [exact P1|]. intros t' A' fuel tr E0.
        destruct (spec_tree_S _ _ _ E0) as [f [-> E1]]. cbn [spec_tree_body] in E1.
        destruct (spec_inst (spec_tree f g) g i) as [l|] eqn:Em; [|discriminate]. injection E1 as <-.
        destruct (D1 t' A' _ _ Em) as [F HF]. exists (S F). rewrite unfold_eq. cbn [unfold_body]. now rewrite HF.
      - (* component *)
        inv_bind H as [x s1] H1. injection H as <- <-. destruct (component_body_ok (Some n) c O s x s1 Hp H1) as [A1 [P1 D1]].
        split; [exact A1|]. split; [exact P1|]. intros t' A' fuel tr E0.
        destruct (spec_tree_S _ _ _ E0) as [f [-> E1]]. cbn [spec_tree_body] in E1.
        destruct (spec_comp (spec_tree f g) g c) as [l|] eqn:Em; [|discriminate]. injection E1 as <-.
        destruct (D1 t' A' _ _ Em) as [F HF]. exists (S F). rewrite unfold_eq. cbn [unfold_body]. now rewrite HF.
    Qed.
  End Bodies.

  Lemma c_entity_ok : forall fuel n e, fn_ok (c_entity hf fuel g n e) (fun t' k => den_ent g t' e k).
  Proof.
    induction fuel as [|f IH]; intros n e; [intros O s r s' _ H; discriminate|].
    cbn [c_entity]. apply entity_body_ok. exact IH.
  Qed.

  (** * The package *)
  Lemma collect_ok fuel : forall l acc s m s' done,
    NoDup (map fst l) -> (forall n, In n (map fst l) -> ~ In n (map fst acc)) ->
    pre [] s -> Forall2 (item_ok [] (cs_types s)) done acc ->
    collect (c_entity hf fuel g) l acc s = COk (m, s') ->
    agree [] (cs_types s) (cs_types s') /\ pre [] s' /\ Forall2 (item_ok [] (cs_types s')) (done ++ l) m.
  Proof.
    induction l as [|[n e] l IH]; intros acc s m s' done Hnd Hfresh Hp Hd H; cbn [collect] in H.
    - injection H as <- <-. split; [apply agree_refl|]. split; [exact Hp|]. now rewrite app_nil_r.
    - inv_bind H as [k s1] H1. cbn [map fst] in Hnd, Hfresh. inversion Hnd as [|? ? Hn Hnd']; subst.
      rewrite imap_insert_fresh in H by (apply Hfresh; now left).
      destruct (c_entity_ok fuel n e [] s k s1 Hp H1) as [A1 [P1 D1]].
      apply (IH _ _ _ _ (done ++ [(n, e)])) in H; [| exact Hnd' | | exact P1 |].
      + destruct H as [A2 [P2 D2]]. split; [eapply agree_trans; eassumption|]. split; [exact P2|].
        now rewrite <- app_assoc in D2.
      + intros x Hx. rewrite map_app, in_app_iff. cbn [map fst In]. intros [Hin|[<-|[]]]; [|contradiction].
        eapply Hfresh; [right; eassumption | assumption].
      + apply Forall2_snoc; [eapply items_step; [apply agree_nil; exact A1 | exact Hd]|]. unfold item_ok. cbn [fst snd]. split; [reflexivity | exact D1].
  Qed.

  Theorem tree_faithful_holds fuel t0 p t :
    NoDup (map fst (vg_imports g)) -> NoDup (map fst (vg_exports g)) ->
    from_graph hf fuel g t0 = COk (p, t) ->
    exists w, get_world t (pk_ty p) = Some w /\
      Forall2 (fun a b => fst a = fst b /\ tree_faithful g t (snd a) (snd b)) (vg_imports g) (w_imports w) /\
      Forall2 (fun a b => fst a = fst b /\ tree_faithful g t (snd a) (snd b)) (vg_exports g) (w_exports w).
  Proof.
    intros Hi He H. unfold from_graph in H. inv_bind H as [[imports exports] s2] Hc. unfold conv_items in Hc.
    inv_bind Hc as [imports' s1] H1. inv_bind Hc as [exports' s2'] H2. injection Hc as -> -> ->.
    assert (P0 : pre [] (cs_init t0)).
    { split; [intros b i []|]. intros v e Hv. discriminate. }
    destruct (collect_ok fuel _ [] _ _ _ [] Hi (fun _ _ F => F) P0 (Forall2_nil _) H1) as [A1 [P1 D1]].
    destruct (collect_ok fuel _ [] _ _ _ [] He (fun _ _ F => F) P1 (Forall2_nil _) H2) as [A2 [P2 D2]].
    cbn [app] in D1, D2. unfold add_world, add_if in H. cbn [t_tag t_worlds t_interfaces] in H.
    set (W := mkworld None [] imports exports) in *.
    match type of H with match ?X with _ => _ end = _ => assert (EW : X = Some W) end.
    { unfold get_world. cbn [t_tag t_worlds]. apply lookup_new. }
    rewrite EW in H. cbn [w_exports W] in H.
    destruct (find_definitions _ _ exports []) as [defs|]; [|discriminate].
    injection H as <- <-. cbn [pk_ty]. exists W. split; [exact EW|].
    match type of EW with get_world ?T _ = _ => set (tf := T) in * end.
    assert (Af : agree [] (cs_types s2) tf).
    { eapply agree_trans; [apply (agree_add_world (cs_types s2) W)|].
      apply (agree_add_if (snd (add_world (cs_types s2) W)) (mkif None [] exports)). }
    split.
    - eapply Forall2_imp; [|exact D1]. intros a b [Hn Hd]. split; [exact Hn|]. apply Hd.
      eapply agree_trans; eassumption.
    - eapply Forall2_imp; [|exact D2]. intros a b [Hn Hd]. split; [exact Hn|]. now apply Hd.
  Qed.
End Entity.

(** * The boolean form evaluated on implementation observations implies the declarative one *)
Lemma lists_exactly_b_sound g t p : lists_exactly_b g t p = true -> lists_exactly g t p.
Proof.
  unfold lists_exactly_b, lists_exactly.
  destruct (get_world t (pk_ty p)) as [w|]; [|discriminate]. destruct (get_if t (pk_instance p)) as [i|]; [|discriminate].
  intro H. apply andb_prop in H as [H H3]. apply andb_prop in H as [H1 H2].
  exists w, i. repeat split; try (apply items_agree_b_sound; assumption).
  unfold kitems_eqb in H3. apply (listeqb_eq _) in H3; [exact H3|].
  intros [n1 k1] [n2 k2]. cbn [fst snd]. split.
  - intro E. apply andb_prop in E as [E1 E2]. apply seqb_eq in E1. apply kindeqb_eq in E2. congruence.
  - intro E. injection E as -> ->. rewrite seqb_refl. cbn. now apply kindeqb_eq.
Qed.

