(** Proofs relating the model of fs.rs ([FsResolve]) to the documented decision table ([FsSpec]). *)
From WacV Require Import Str FsResolve FsSpec.

(** * Small facts about strings, paths and [std::path] helpers *)

Lemma fs_str_eqb_eq a b : str_eqb a b = true <-> a = b.
Proof.
  revert b; induction a as [|x a IH]; destruct b as [|y b]; cbn; split; intro H; try discriminate; auto.
  - apply andb_true_iff in H as [H1 H2]. apply N.eqb_eq in H1. apply IH in H2. now subst.
  - injection H as -> ->. rewrite N.eqb_refl. cbn. now apply IH.
Qed.

Lemma fs_str_eqb_refl a : str_eqb a a = true.
Proof. now apply fs_str_eqb_eq. Qed.

Lemma fs_split_on_nonempty c s : split_on c s <> [].
Proof.
  induction s as [|x s IH]; cbn; try discriminate.
  destruct (x =? c); try discriminate. destruct (split_on c s); discriminate.
Qed.

Lemma fold_left_push segs p : fold_left push segs p = p ++ segs.
Proof.
  revert p; induction segs as [|s segs IH]; intros p; cbn.
  - now rewrite app_nil_r.
  - rewrite IH. unfold push. now rewrite <- app_assoc.
Qed.

Lemma map_last_cons f x y l : map_last f (x :: y :: l) = x :: map_last f (y :: l).
Proof. reflexivity. Qed.

Lemma last_comp_cons x y l : last_comp (x :: y :: l) = last_comp (y :: l).
Proof. reflexivity. Qed.

Lemma map_last_app f front c : map_last f (front ++ [c]) = front ++ [f c].
Proof.
  induction front as [|x front IH]; [reflexivity|].
  change ((x :: front) ++ [c]) with (x :: (front ++ [c])).
  change ((x :: front) ++ [f c]) with (x :: (front ++ [f c])).
  destruct (front ++ [c]) as [|y l] eqn:E; [destruct front; discriminate|].
  rewrite map_last_cons, IH. reflexivity.
Qed.

Lemma last_comp_app front c : last_comp (front ++ [c]) = c.
Proof.
  induction front as [|x front IH]; [reflexivity|].
  change ((x :: front) ++ [c]) with (x :: (front ++ [c])).
  destruct (front ++ [c]) as [|y l] eqn:E; [destruct front; discriminate|].
  rewrite last_comp_cons. exact IH.
Qed.

Lemma last_comp_last p : last_comp p = last p [].
Proof.
  induction p as [|x p IH]; [reflexivity|].
  destruct p as [|y l]; [reflexivity|].
  rewrite last_comp_cons, IH. reflexivity.
Qed.

Lemma split_last_none c s : ~ In c s -> split_last c s = None.
Proof.
  induction s as [|x s IH]; cbn; intros H; auto.
  rewrite IH by tauto. destruct (x =? c) eqn:E; auto.
  apply N.eqb_eq in E. subst. exfalso; apply H; now left.
Qed.

Lemma split_last_app c b a : ~ In c a -> split_last c (b ++ c :: a) = Some (b, a).
Proof.
  intros H; induction b as [|x b IH]; cbn.
  - rewrite split_last_none by auto. now rewrite N.eqb_refl.
  - now rewrite IH.
Qed.

Lemma split_last_some c s b a : split_last c s = Some (b, a) -> s = b ++ c :: a.
Proof.
  revert b a; induction s as [|x s IH]; cbn; intros b a H; try discriminate.
  destruct (split_last c s) as [[b' a']|] eqn:E.
  - injection H as <- <-. cbn. f_equal. now apply IH.
  - destruct (x =? c) eqn:Ex; try discriminate. injection H as <- <-.
    apply N.eqb_eq in Ex. now subst.
Qed.

Lemma nodot_wasm : ~ In ch_dot s_wasm. Proof. cbv. intuition discriminate. Qed.
Lemma nodot_wat : ~ In ch_dot s_wat. Proof. cbv. intuition discriminate. Qed.
Lemma nodot_wit : ~ In ch_dot s_wit. Proof. cbv. intuition discriminate. Qed.

Lemma file_stem_app c e : c <> [] -> ~ In ch_dot e -> file_stem (c ++ ch_dot :: e) = c.
Proof.
  intros Hc He. unfold file_stem. rewrite split_last_app by assumption.
  destruct c; [contradiction|reflexivity].
Qed.

Lemma extension_of_app c e : c <> [] -> ~ In ch_dot e -> extension_of (c ++ ch_dot :: e) = Some e.
Proof.
  intros Hc He. unfold extension_of. rewrite split_last_app by assumption.
  destruct c; [contradiction|reflexivity].
Qed.

(** [set_extension] after [append_extension] swaps exactly the appended suffix -- provided the
    final component was not empty. *)
Lemma set_after_append front c e e' :
  c <> [] -> ~ In ch_dot e ->
  set_extension (append_extension (front ++ [c]) e) e' = front ++ [c ++ ch_dot :: e'].
Proof.
  intros Hc He. unfold set_extension, append_extension. rewrite !map_last_app.
  cbn [app]. now rewrite file_stem_app.
Qed.

Lemma set_after_set front c e e' :
  c <> [] -> ~ In ch_dot e ->
  set_extension (front ++ [c ++ ch_dot :: e]) e' = front ++ [c ++ ch_dot :: e'].
Proof.
  intros Hc He. unfold set_extension. rewrite map_last_app. now rewrite file_stem_app.
Qed.

Lemma append_extension_app front c e :
  append_extension (front ++ [c]) e = front ++ [c ++ ch_dot :: e].
Proof. unfold append_extension. now rewrite map_last_app. Qed.

Lemma has_ext_app front c e e' :
  c <> [] -> ~ In ch_dot e -> has_ext (front ++ [c ++ ch_dot :: e]) e' = str_eqb e e'.
Proof.
  intros Hc He. unfold has_ext. rewrite last_comp_app, extension_of_app by assumption. reflexivity.
Qed.

Lemma named_with_ext_iff ext name :
  named_with_ext ext name = true <-> exists stem, stem <> [] /\ name = stem ++ ch_dot :: ext.
Proof.
  induction name as [|x r IH]; cbn.
  - split; [discriminate|]. intros (stem & Hs & E). destruct stem; [contradiction|discriminate].
  - rewrite orb_true_iff, fs_str_eqb_eq, IH. split.
    + intros [-> | (stem & Hs & ->)].
      * exists [x]. split; [discriminate|reflexivity].
      * exists (x :: stem). split; [discriminate|reflexivity].
    + intros (stem & Hs & E). destruct stem as [|y stem]; [contradiction|].
      injection E as <- ->. destruct stem as [|z stem].
      * now left.
      * right. exists (z :: stem). split; [discriminate|reflexivity].
Qed.

Lemma has_ext_iff p ext :
  ~ In ch_dot ext ->
  (has_ext p ext = true <-> exists stem, stem <> [] /\ last_comp p = stem ++ ch_dot :: ext).
Proof.
  intros He. unfold has_ext, extension_of. split.
  - destruct (split_last ch_dot (last_comp p)) as [[b a]|] eqn:E; [|discriminate].
    destruct b as [|y b]; [discriminate|]. intros H. apply fs_str_eqb_eq in H. subst a.
    exists (y :: b). split; [discriminate|]. now apply split_last_some.
  - intros (stem & Hs & ->). rewrite split_last_app by assumption.
    destruct stem; [contradiction|]. apply fs_str_eqb_refl.
Qed.

Lemma has_ext_named p ext : ~ In ch_dot ext -> has_ext p ext = named_with_ext ext (last p []).
Proof.
  intros He. apply Bool.eq_iff_eq_true.
  rewrite has_ext_iff by assumption. rewrite named_with_ext_iff, last_comp_last. reflexivity.
Qed.

Lemma lookup_find m n :
  lookup m n = option_map snd (find (fun e => str_eqb (fst e) n) m).
Proof.
  induction m as [|[n' p] m IH]; cbn; auto. destruct (str_eqb n' n); auto.
Qed.

(** * The paths the model computes are the documented ones *)

Lemma key_components_nonempty k : key_components k <> [].
Proof.
  unfold key_components. intros H. apply app_eq_nil in H as [H _].
  exact (fs_split_on_nonempty _ _ H).
Qed.

Lemma base_split cfg k :
  base cfg k = (root cfg ++ removelast (key_components k)) ++ [last (key_components k) []].
Proof.
  unfold base. rewrite <- app_assoc. f_equal.
  apply app_removelast_last, key_components_nonempty.
Qed.

Lemma suffixed_split cfg k e :
  suffixed cfg k e =
  (root cfg ++ removelast (key_components k)) ++ [last (key_components k) [] ++ ch_dot :: e].
Proof. unfold suffixed. now rewrite <- app_assoc. Qed.

Lemma model_base cfg k :
  (match k_version k with
   | Some v => push (fold_left push (split_on ch_colon (k_name k)) (root cfg)) v
   | None => fold_left push (split_on ch_colon (k_name k)) (root cfg)
   end) = base cfg k.
Proof.
  unfold base, key_components. rewrite fold_left_push.
  destruct (k_version k); unfold push; [now rewrite <- app_assoc | now rewrite app_nil_r].
Qed.

Section Proofs.
  Variable wat_parse : content -> option content.
  Variable wit_dir_encode : content -> option content.
  Variable wit_file_encode : content -> option content.

  Notation resolve_one := (resolve_one wat_parse wit_dir_encode wit_file_encode).
  Notation load := (load wat_parse wit_dir_encode wit_file_encode).
  Notation spec := (spec wat_parse wit_dir_encode wit_file_encode).
  Notation assembled := (assembled wat_parse).
  Notation wit_package := (wit_package wit_dir_encode).
  Notation read_named_file := (read_named_file wat_parse wit_file_encode).

  (** The candidate the default arm settles on. *)
  Definition default_choice (wat : bool) (fs : filesystem) (cfg : config) (k : key) : path :=
    if is_dir fs (base cfg k) then base cfg k
    else if wat then
           if exists_ fs (suffixed cfg k s_wat) then suffixed cfg k s_wat else suffixed cfg k s_wasm
         else suffixed cfg k s_wasm.

  Lemma select_default wat fs cfg k :
    key_wf k -> applicable_override cfg k = None ->
    select_path wat fs cfg k = Some (default_choice wat fs cfg k).
  Proof.
    intros Hwf Hov. unfold select_path, default_choice.
    assert (Hd : match lookup (overrides cfg) (k_name k), k_version k with
                 | Some p, None => false | _, _ => true end = true).
    { unfold applicable_override in Hov. rewrite lookup_find.
      destruct (k_version k); [now destruct option_map|]. now rewrite Hov. }
    pose proof (model_base cfg k) as Hb.
    destruct (lookup (overrides cfg) (k_name k)) as [p|]; destruct (k_version k) as [v|];
      try discriminate; rewrite Hb; clear Hb Hd;
      (destruct (is_dir fs (base cfg k)); cbn [negb]; [reflexivity|];
       rewrite base_split, append_extension_app;
       destruct wat; [|now rewrite suffixed_split];
       rewrite (set_after_set _ _ s_wasm s_wat Hwf nodot_wasm);
       rewrite <- suffixed_split;
       destruct (exists_ fs (suffixed cfg k s_wat)); cbn [negb]; [reflexivity|];
       rewrite suffixed_split, (set_after_set _ _ s_wat s_wasm Hwf nodot_wat);
       now rewrite <- suffixed_split).
  Qed.

  Lemma select_override wat fs cfg k p :
    applicable_override cfg k = Some p ->
    select_path wat fs cfg k = if is_file fs p then Some p else None.
  Proof.
    intros Hov. unfold select_path. unfold applicable_override in Hov. rewrite lookup_find.
    destruct (k_version k); [discriminate|]. rewrite Hov. now destruct (is_file fs p).
  Qed.

  Lemma has_ext_suffixed cfg k e e' :
    key_wf k -> ~ In ch_dot e -> has_ext (suffixed cfg k e) e' = str_eqb e e'.
  Proof. intros Hwf He. rewrite suffixed_split. now apply has_ext_app. Qed.

  (** Loading a file the way fs.rs does is reading it "according to its name". *)
  Lemma load_file wat fs cfg p c :
    fs p = File c -> load wat fs cfg p = read_named_file wat p c.
  Proof.
    intros Hf. unfold load, read_named_file. rewrite Hf.
    rewrite <- (has_ext_named p s_wit nodot_wit), <- (has_ext_named p s_wat nodot_wat).
    destruct (has_ext p s_wit); [reflexivity|]. destruct (wat && has_ext p s_wat); reflexivity.
  Qed.

  Lemma load_dir wat fs cfg p c : fs p = Dir c -> load wat fs cfg p = wit_package p c.
  Proof. intros Hf. unfold load. now rewrite Hf. Qed.

  Lemma load_suffixed_wasm wat fs cfg k :
    key_wf k ->
    load wat fs cfg (suffixed cfg k s_wasm) =
    match fs (suffixed cfg k s_wasm) with
    | Dir c => wit_package (suffixed cfg k s_wasm) c
    | File c => Loaded SrcRaw (suffixed cfg k s_wasm) c
    | Absent => missing cfg
    end.
  Proof.
    intros Hwf. unfold load.
    rewrite (has_ext_suffixed cfg k s_wasm s_wit Hwf nodot_wasm).
    rewrite (has_ext_suffixed cfg k s_wasm s_wat Hwf nodot_wasm).
    change (str_eqb s_wasm s_wit) with false. change (str_eqb s_wasm s_wat) with false.
    rewrite andb_false_r. now destruct (fs (suffixed cfg k s_wasm)).
  Qed.

  Lemma load_suffixed_wat fs cfg k :
    key_wf k ->
    load true fs cfg (suffixed cfg k s_wat) =
    match fs (suffixed cfg k s_wat) with
    | Dir c => wit_package (suffixed cfg k s_wat) c
    | File c => assembled (suffixed cfg k s_wat) c
    | Absent => missing cfg
    end.
  Proof.
    intros Hwf. unfold load.
    rewrite (has_ext_suffixed cfg k s_wat s_wit Hwf nodot_wat).
    rewrite (has_ext_suffixed cfg k s_wat s_wat Hwf nodot_wat).
    change (str_eqb s_wat s_wit) with false. change (str_eqb s_wat s_wat) with true.
    now destruct (fs (suffixed cfg k s_wat)).
  Qed.

  (** * The decision table *)

  (** Outside the recorded deviation the model IS the table. *)
  Lemma table_partial wat fs cfg k :
    key_wf k -> suffixed_dir_chosen wat fs cfg k = false ->
    resolve_one wat fs cfg k = spec wat fs cfg k.
  Proof.
    intros Hwf Hdev. unfold resolve_one, spec, suffixed_dir_chosen in *.
    destruct (applicable_override cfg k) as [p|] eqn:Hov.
    - rewrite (select_override wat fs cfg k p Hov). unfold is_file.
      destruct (fs p) as [|c|c] eqn:Hp; try reflexivity. now apply load_file.
    - rewrite (select_default wat fs cfg k Hwf Hov). unfold default_choice.
      unfold is_dir, exists_ in *.
      destruct (fs (base cfg k)) as [|cb|cb] eqn:Hb; try (now apply load_dir); cbn [negb andb] in Hdev;
        (destruct wat; cbn [negb andb orb] in Hdev;
         [ destruct (fs (suffixed cfg k s_wat)) as [|cw|cw] eqn:Hw; cbn [negb andb orb] in Hdev;
           try discriminate;
           [ rewrite (load_suffixed_wasm true fs cfg k Hwf);
             destruct (fs (suffixed cfg k s_wasm)); try discriminate; reflexivity
           | rewrite (load_suffixed_wat fs cfg k Hwf), Hw; reflexivity ]
         | rewrite (load_suffixed_wasm false fs cfg k Hwf);
           destruct (fs (suffixed cfg k s_wasm)); try discriminate; reflexivity ]).
  Qed.

  (** Inside it, the directory found at the suffixed candidate is loaded as a WIT package. *)
  Lemma deviation_shape wat fs cfg k :
    key_wf k -> suffixed_dir_chosen wat fs cfg k = true ->
    exists p c, (p = suffixed cfg k s_wat \/ p = suffixed cfg k s_wasm) /\ fs p = Dir c /\
                resolve_one wat fs cfg k = wit_package p c.
  Proof.
    intros Hwf Hdev. unfold resolve_one, suffixed_dir_chosen in *.
    destruct (applicable_override cfg k) as [p|] eqn:Hov; [discriminate|].
    rewrite (select_default wat fs cfg k Hwf Hov). unfold default_choice.
    unfold is_dir, exists_ in *.
    destruct (fs (base cfg k)) as [|cb|cb] eqn:Hb; try discriminate; cbn [negb andb] in Hdev;
      (destruct wat; cbn [negb andb orb] in Hdev;
       [ destruct (fs (suffixed cfg k s_wat)) as [|cw|cw] eqn:Hw; cbn [negb andb orb] in Hdev;
         try discriminate;
         [ destruct (fs (suffixed cfg k s_wasm)) as [|cs|cs] eqn:Hs; try discriminate;
           exists (suffixed cfg k s_wasm), cs; split; [now right|]; split; [assumption|];
           now apply load_dir
         | exists (suffixed cfg k s_wat), cw; split; [now left|]; split; [assumption|];
           now apply load_dir ]
       | destruct (fs (suffixed cfg k s_wasm)) as [|cs|cs] eqn:Hs; try discriminate;
         exists (suffixed cfg k s_wasm), cs; split; [now right|]; split; [assumption|];
         now apply load_dir ]).
  Qed.

  (** * Corollaries, each stated about the model directly *)

  (** Whatever is loaded from the dependency directory sits at B, B".wat" or B".wasm". *)
  Lemma loaded_location wat fs cfg k src p b :
    key_wf k -> applicable_override cfg k = None ->
    resolve_one wat fs cfg k = Loaded src p b ->
    p = base cfg k \/ p = suffixed cfg k s_wat \/ p = suffixed cfg k s_wasm.
  Proof.
    intros Hwf Hov H. unfold resolve_one in H.
    rewrite (select_default wat fs cfg k Hwf Hov) in H.
    assert (Hp : p = default_choice wat fs cfg k).
    { unfold load in H.
      repeat match type of H with
             | context [match ?x with _ => _ end] => destruct x
             end; try discriminate; now injection H as _ <- _. }
    subst p. unfold default_choice.
    destruct (is_dir fs (base cfg k)); auto. destruct wat; auto.
    destruct (exists_ fs (suffixed cfg k s_wat)); auto.
  Qed.

  Lemma last_suffixed cfg k e :
    last (suffixed cfg k e) [] = last (key_components k) [] ++ ch_dot :: e.
  Proof. rewrite suffixed_split. apply last_last. Qed.

  Lemma last_base cfg k : last (base cfg k) [] = last (key_components k) [].
  Proof. rewrite base_split. apply last_last. Qed.

  Lemma last_components_version k v : k_version k = Some v -> last (key_components k) [] = v.
  Proof. intros H. unfold key_components. rewrite H. apply last_last. Qed.

  Lemma ext_appended wat fs cfg k v src p b :
    k_version k = Some v -> v <> [] ->
    resolve_one wat fs cfg k = Loaded src p b ->
    last p [] = v \/ last p [] = v ++ ch_dot :: s_wat \/ last p [] = v ++ ch_dot :: s_wasm.
  Proof.
    intros Hv Hne H.
    assert (Hwf : key_wf k). { unfold key_wf. now rewrite (last_components_version k v Hv). }
    assert (Hov : applicable_override cfg k = None). { unfold applicable_override. now rewrite Hv. }
    destruct (loaded_location wat fs cfg k src p b Hwf Hov H) as [-> | [-> | ->]].
    - left. now rewrite last_base, (last_components_version k v Hv).
    - right; left. now rewrite last_suffixed, (last_components_version k v Hv).
    - right; right. now rewrite last_suffixed, (last_components_version k v Hv).
  Qed.

  Lemma wat_preferred fs cfg k c :
    key_wf k -> applicable_override cfg k = None ->
    is_dir fs (base cfg k) = false -> fs (suffixed cfg k s_wat) = File c ->
    resolve_one true fs cfg k = assembled (suffixed cfg k s_wat) c.
  Proof.
    intros Hwf Hov Hb Hw. unfold resolve_one. rewrite (select_default true fs cfg k Hwf Hov).
    unfold default_choice. rewrite Hb. unfold exists_. rewrite Hw.
    rewrite (load_suffixed_wat fs cfg k Hwf). now rewrite Hw.
  Qed.

  Lemma wasm_otherwise wat fs cfg k c :
    key_wf k -> applicable_override cfg k = None ->
    is_dir fs (base cfg k) = false -> (wat = false \/ fs (suffixed cfg k s_wat) = Absent) ->
    fs (suffixed cfg k s_wasm) = File c ->
    resolve_one wat fs cfg k = Loaded SrcRaw (suffixed cfg k s_wasm) c.
  Proof.
    intros Hwf Hov Hb Hw Hs. unfold resolve_one. rewrite (select_default wat fs cfg k Hwf Hov).
    unfold default_choice. rewrite Hb.
    assert (E : (if wat then if exists_ fs (suffixed cfg k s_wat) then suffixed cfg k s_wat
                             else suffixed cfg k s_wasm else suffixed cfg k s_wasm)
                = suffixed cfg k s_wasm).
    { destruct Hw as [-> | Hw]; [reflexivity|]. unfold exists_. rewrite Hw. now destruct wat. }
    rewrite E. rewrite (load_suffixed_wasm wat fs cfg k Hwf). now rewrite Hs.
  Qed.

  Definition without_overrides (cfg : config) : config :=
    {| root := root cfg; overrides := []; error_on_unknown := error_on_unknown cfg |}.

  Lemma override_versioned_ignored wat fs cfg k v :
    k_version k = Some v ->
    resolve_one wat fs cfg k = resolve_one wat fs (without_overrides cfg) k.
  Proof.
    intros Hv. unfold resolve_one, select_path. rewrite Hv. cbn [overrides without_overrides lookup root].
    destruct (lookup (overrides cfg) (k_name k)); reflexivity.
  Qed.

  Lemma override_used wat fs cfg k p c :
    applicable_override cfg k = Some p -> fs p = File c ->
    resolve_one wat fs cfg k = read_named_file wat p c.
  Proof.
    intros Hov Hp. unfold resolve_one. rewrite (select_override wat fs cfg k p Hov).
    unfold is_file. rewrite Hp. now apply load_file.
  Qed.

  Lemma override_missing wat fs cfg k p :
    applicable_override cfg k = Some p -> (forall c, fs p <> File c) ->
    resolve_one wat fs cfg k = ErrResolution OverrideMissing.
  Proof.
    intros Hov Hp. unfold resolve_one. rewrite (select_override wat fs cfg k p Hov).
    unfold is_file. destruct (fs p) as [|c|c] eqn:E; try reflexivity. now destruct (Hp c).
  Qed.

  Definition bytes_come_from (wat_parse' wit_dir' wit_file' : content -> option content)
             (fs : filesystem) (src : source) (p : path) (b : content) : Prop :=
    match src with
    | SrcRaw => fs p = File b
    | SrcWat => exists c, fs p = File c /\ wat_parse' c = Some b
    | SrcWitDir => exists c, fs p = Dir c /\ wit_dir' c = Some b
    | SrcWitFile => exists c, fs p = File c /\ wit_file' c = Some b
    end.

  Lemma bytes_origin wat fs cfg k src p b :
    resolve_one wat fs cfg k = Loaded src p b ->
    bytes_come_from wat_parse wit_dir_encode wit_file_encode fs src p b.
  Proof.
    unfold resolve_one. destruct (select_path wat fs cfg k) as [q|]; [|discriminate].
    unfold load. destruct (fs q) as [|c|c] eqn:Hq.
    - destruct (has_ext q s_wit); [discriminate|]. destruct (error_on_unknown cfg); discriminate.
    - destruct (has_ext q s_wit).
      + destruct (wit_file_encode c) as [b'|] eqn:E; [|discriminate].
        intros H; injection H as <- <- <-. cbn. eauto.
      + destruct (wat && has_ext q s_wat).
        * destruct (wat_parse c) as [b'|] eqn:E; [|discriminate].
          intros H; injection H as <- <- <-. cbn. eauto.
        * intros H; injection H as <- <- <-. cbn. assumption.
    - destruct (wit_dir_encode c) as [b'|] eqn:E; [|discriminate].
      intros H; injection H as <- <- <-. cbn. eauto.
  Qed.

  Lemma missing_all_absent wat fs cfg k :
    key_wf k -> applicable_override cfg k = None ->
    fs (base cfg k) = Absent -> (wat = true -> fs (suffixed cfg k s_wat) = Absent) ->
    fs (suffixed cfg k s_wasm) = Absent ->
    resolve_one wat fs cfg k = missing cfg.
  Proof.
    intros Hwf Hov Hb Hw Hs. unfold resolve_one. rewrite (select_default wat fs cfg k Hwf Hov).
    unfold default_choice, is_dir, exists_. rewrite Hb.
    replace (if wat then if match fs (suffixed cfg k s_wat) with Absent => false | _ => true end
                         then suffixed cfg k s_wat else suffixed cfg k s_wasm
             else suffixed cfg k s_wasm) with (suffixed cfg k s_wasm).
    2:{ destruct wat; [|reflexivity]. now rewrite Hw. }
    rewrite (load_suffixed_wasm wat fs cfg k Hwf). now rewrite Hs.
  Qed.

  Definition not_found (o : outcome) : bool :=
    match o with Skipped | ErrUnknown => true | _ => false end.

  Lemma not_found_only_when_missing wat fs cfg k :
    key_wf k -> not_found (resolve_one wat fs cfg k) = true ->
    resolve_one wat fs cfg k = missing cfg /\ applicable_override cfg k = None /\
    is_dir fs (base cfg k) = false /\ (wat = true -> fs (suffixed cfg k s_wat) = Absent) /\
    fs (suffixed cfg k s_wasm) = Absent.
  Proof.
    intros Hwf H. unfold resolve_one in *.
    destruct (applicable_override cfg k) as [p|] eqn:Hov.
    - rewrite (select_override wat fs cfg k p Hov) in H. unfold is_file in H.
      destruct (fs p) as [|c|c] eqn:Hp; try discriminate.
      rewrite (load_file wat fs cfg p c Hp) in H. unfold read_named_file, FsSpec.wit_document, FsSpec.assembled in H.
      repeat match type of H with
             | context [match ?x with _ => _ end] => destruct x
             | context [if ?x then _ else _] => destruct x
             end; discriminate.
    - rewrite (select_default wat fs cfg k Hwf Hov) in *. unfold default_choice in *.
      unfold is_dir, exists_ in *.
      destruct (fs (base cfg k)) as [|cb|cb] eqn:Hb.
      3:{ rewrite (load_dir wat fs cfg _ cb Hb) in H. unfold FsSpec.wit_package in H.
          destruct (wit_dir_encode cb); discriminate. }
      all: destruct wat.
      all: try (destruct (fs (suffixed cfg k s_wat)) as [|cw|cw] eqn:Hw).
      all: try (rewrite (load_suffixed_wat fs cfg k Hwf), Hw in H;
                unfold FsSpec.assembled, FsSpec.wit_package in H;
                repeat match type of H with
                       | context [match ?x with _ => _ end] => destruct x
                       end; discriminate).
      all: rewrite (load_suffixed_wasm _ fs cfg k Hwf) in *;
        destruct (fs (suffixed cfg k s_wasm)) as [|cs|cs] eqn:Hs;
        try (unfold FsSpec.wit_package in H; destruct (wit_dir_encode cs); discriminate);
        try discriminate;
        repeat split; auto; discriminate.
  Qed.

  Lemma dir_is_package wat fs cfg k c :
    applicable_override cfg k = None -> fs (base cfg k) = Dir c ->
    resolve_one wat fs cfg k = wit_package (base cfg k) c.
  Proof.
    intros Hov Hb. unfold resolve_one, select_path.
    assert (Hd : match lookup (overrides cfg) (k_name k), k_version k with
                 | Some p, None => false | _, _ => true end = true).
    { unfold applicable_override in Hov. rewrite lookup_find.
      destruct (k_version k); [now destruct option_map|]. now rewrite Hov. }
    pose proof (model_base cfg k) as Hm.
    destruct (lookup (overrides cfg) (k_name k)); destruct (k_version k); try discriminate;
      rewrite Hm; unfold is_dir; rewrite Hb; cbn [negb]; now apply load_dir.
  Qed.
End Proofs.
