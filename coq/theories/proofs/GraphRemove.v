(** C06: the removals. [remove_one] (the body of [remove_node] after the recursive calls),
    [remove_node_rec], and [unregister] preserve the invariant, never reach a bookkeeping panic, and
    leave no trace of what they removed. *)
From Coq Require Import List Arith Bool NArith Lia Permutation.
From WacV Require Import Graph GraphInv GraphPrims GraphSteps.
Import ListNotations.

(** * clearing satisfied indexes *)
Definition pair_is (m j : nat) (p : nat * nat) : bool := (fst p =? m) && (snd p =? j).
Definition keep_idx (l : list (nat * nat)) (m j : nat) : bool := negb (existsb (pair_is m j) l).

(** [cleared l m a b]: node [b] is node [a] (the node at slot [m]) after the pairs of [l] were cleared *)
Definition cleared (l : list (nat * nat)) (m : nat) (a b : node) : Prop :=
  npkg b = npkg a /\ nexport b = nexport a /\
  match nk a with NInst sat => nk b = NInst (filter (keep_idx l m) sat) | k => nk b = k end.

Lemma pair_is_true m j p : pair_is m j p = true <-> p = (m, j).
Proof.
  destruct p as [a b]. unfold pair_is. cbn. rewrite andb_true_iff, !Nat.eqb_eq. split; [intros [-> ->]|intros [= -> ->]]; auto.
Qed.

Lemma keep_idx_false l m j : keep_idx l m j = false <-> In (m, j) l.
Proof.
  unfold keep_idx. rewrite negb_false_iff, existsb_exists. split.
  - intros [p [Hp E]]. apply pair_is_true in E. now subst.
  - intros H. exists (m, j). split; auto. now apply pair_is_true.
Qed.

Lemma filter_all {A} (f : A -> bool) l : (forall x, In x l -> f x = true) -> filter f l = l.
Proof.
  induction l as [|x l IH]; cbn; auto. intros H. rewrite (H x (or_introl eq_refl)). f_equal. auto.
Qed.

Lemma cleared_nil m a : cleared [] m a a.
Proof.
  repeat split. destruct (nk a) eqn:K; auto. f_equal. symmetry. apply filter_all. reflexivity.
Qed.

Lemma cleared_kclass l m a b : cleared l m a b -> kclass (nk a) (nk b).
Proof. intros (_ & _ & H). destruct (nk a); rewrite H; cbn; auto. Qed.

Definition sat_has (ns : list (option node)) (t i : nat) : Prop :=
  exists nd sat, getn ns t = Some nd /\ nk nd = NInst sat /\ In i sat.

Lemma remove_satisfied_inl s t i nd sat :
  get_node s t = Some nd -> nk nd = NInst sat -> In i sat ->
  remove_satisfied s t i =
  inl (set_node s t (Some {| nk := NInst (filter (fun j => negb (j =? i)) sat); npkg := npkg nd;
                             nitem := nitem nd; nname := nname nd; nexport := nexport nd |})).
Proof.
  intros G K H. unfold remove_satisfied. rewrite G, K. apply existsb_eqb_In in H. now rewrite H.
Qed.

Lemma remove_satisfied_inv s t i s' :
  remove_satisfied s t i = inl s' ->
  exists nd sat, get_node s t = Some nd /\ nk nd = NInst sat /\
    s' = set_node s t (Some {| nk := NInst (filter (fun j => negb (j =? i)) sat); npkg := npkg nd;
                               nitem := nitem nd; nname := nname nd; nexport := nexport nd |}).
Proof.
  unfold remove_satisfied. destruct (get_node s t) as [nd|]; [|discriminate].
  destruct (nk nd) as [| |sat|] eqn:K; try discriminate. destruct (existsb _ sat); [|discriminate].
  intros [= <-]. eauto.
Qed.

(** the closed form of [remove_satisfied_all] *)
Lemma remove_satisfied_all_spec l : forall s s',
  remove_satisfied_all s l = inl s' ->
  (forall m, orel (cleared l m) (getn (nodes s) m) (getn (nodes s') m)) /\
  length (nodes s') = length (nodes s) /\ free_nodes s' = free_nodes s /\ edges s' = edges s /\
  imports s' = imports s /\ exports s' = exports s /\ defined s' = defined s /\ pkgs s' = pkgs s /\
  free_pkgs s' = free_pkgs s.
Proof.
  induction l as [|[t i] r IH]; intros s s' H; cbn in H.
  - injection H as <-. split; [|repeat split; auto]. intros m. destruct (getn (nodes s) m); cbn; auto using cleared_nil.
  - destruct (remove_satisfied s t i) as [s1|] eqn:R; [|discriminate].
    apply remove_satisfied_inv in R as [nd [sat [G [K ->]]]]. rewrite get_node_getn in G.
    apply IH in H as (H & L & R1 & R2 & R3 & R4 & R5 & R6 & R7). cbn in *.
    split; [|rewrite L, length_set_nth; repeat split; auto].
    intros m. specialize (H m). erewrite getn_set_live in H by eauto.
    destruct (Nat.eqb_spec m t) as [Eq|Hne].
    + subst m. rewrite G. destruct (getn (nodes s') t) as [b|]; cbn in *; auto.
      destruct H as (H1 & H2 & H3). cbn in *. repeat split; auto. rewrite K, H3. f_equal.
      rewrite filter_filter. apply filter_ext. intros j. unfold keep_idx. cbn [existsb].
      rewrite negb_orb. f_equal. unfold pair_is. cbn [fst snd]. rewrite Nat.eqb_refl. cbn [andb].
      f_equal. apply Nat.eqb_sym.
    + destruct (getn (nodes s) m) as [a|], (getn (nodes s') m) as [b|]; cbn in *; auto.
      destruct H as (H1 & H2 & H3). repeat split; auto. destruct (nk a); auto. rewrite H3. f_equal.
      apply filter_ext. intros j. unfold keep_idx. cbn [existsb]. unfold pair_is at 2. cbn [fst snd].
      apply Nat.eqb_neq in Hne. rewrite Nat.eqb_sym in Hne. now rewrite Hne.
Qed.

Lemma remove_satisfied_all_ok l : forall s,
  NoDup l -> (forall p, In p l -> sat_has (nodes s) (fst p) (snd p)) ->
  exists s', remove_satisfied_all s l = inl s'.
Proof.
  induction l as [|[t i] r IH]; intros s ND H; cbn; [eauto|].
  destruct (H (t, i) (or_introl eq_refl)) as [nd [sat [G [K Hi]]]]. cbn in G.
  rewrite (remove_satisfied_inl s t i nd sat G K Hi). inversion ND as [|? ? Hn ND']; subst.
  apply IH; auto. intros [t' i'] Hp. destruct (H (t', i') (or_intror Hp)) as [nd' [sat' [G' [K' Hi']]]].
  cbn in *. unfold sat_has. erewrite getn_set_live by eauto. destruct (Nat.eqb_spec t' t) as [->|Hne].
  - eexists _, _. split; [reflexivity|]. cbn. split; [reflexivity|]. rewrite G in G'. injection G' as <-.
    rewrite K in K'. injection K' as <-. rewrite filter_In, negb_true_iff, Nat.eqb_neq. split; auto.
    intros ->. contradiction.
  - eauto.
Qed.

(** the (target, index) pairs of the argument edges selected by [q] *)
Definition arg_pairs (q : edge -> bool) (es : list edge) : list (nat * nat) :=
  flat_map (fun e => match ek e with EArg i => if q e then [(etgt e, i)] else [] | _ => [] end) es.

Lemma arg_targets_filter q es : arg_targets (filter q es) = arg_pairs q es.
Proof.
  unfold arg_targets, arg_pairs. induction es as [|x es IH]; cbn; auto.
  destruct (q x); cbn; rewrite IH; destruct (ek x); auto.
Qed.

Lemma arg_pairs_In q es t i :
  In (t, i) (arg_pairs q es) <-> exists e, In e es /\ q e = true /\ etgt e = t /\ ek e = EArg i.
Proof.
  unfold arg_pairs. rewrite in_flat_map. split.
  - intros [e [He H]]. destruct (ek e) as [j|j|] eqn:K; try destruct H. destruct (q e) eqn:Q; [|destruct H].
    destruct H as [[= <- <-]|[]]. eauto.
  - intros [e [He [Q [T K]]]]. exists e. split; auto. rewrite K, Q, T. now left.
Qed.

Lemma count_le_1 ns es t i : EdgeOK ns es -> count_arg_l es t i <= 1.
Proof.
  intros O. destruct (count_arg_l es t i) as [|c] eqn:C; [lia|].
  assert (Hex : exists e, In e es /\ is_arg t i e = true).
  { unfold count_arg_l in C. destruct (filter (is_arg t i) es) as [|e r] eqn:F; [discriminate|].
    exists e. apply filter_In. rewrite F. now left. }
  destruct Hex as [e [He Ha]]. apply is_arg_true in Ha as [Ht Hk].
  destruct (eo_arg_inst _ _ O e i He Hk) as [nd [sat [G K]]]. rewrite Ht in G.
  destruct (eo_sat _ _ O t nd sat G K) as [_ Cn]. rewrite <- C, Cn. destruct (existsb _ sat); lia.
Qed.

Lemma arg_pairs_NoDup q es : (forall t i, count_arg_l es t i <= 1) -> NoDup (arg_pairs q es).
Proof.
  induction es as [|x es IH]; intros H; cbn; [constructor|].
  assert (H' : forall t i, count_arg_l es t i <= 1).
  { intros t i. specialize (H t i). unfold count_arg_l in *. cbn in H. destruct (is_arg t i x); cbn in H; lia. }
  destruct (ek x) as [j|j|] eqn:K; cbn; auto. destruct (q x); cbn; auto. constructor; auto.
  intros Hin. apply arg_pairs_In in Hin as [e [He [_ [T Ke]]]].
  specialize (H (etgt x) j). unfold count_arg_l in H. cbn in H.
  assert (X : is_arg (etgt x) j x = true) by (apply is_arg_true; auto). rewrite X in H. cbn in H.
  assert (1 <= length (filter (is_arg (etgt x) j) es)).
  { eapply filter_length_pos; eauto. apply is_arg_true; auto. }
  lia.
Qed.

Lemma arg_pairs_sat_has ns es q p : EdgeOK ns es -> In p (arg_pairs q es) -> sat_has ns (fst p) (snd p).
Proof.
  intros O H. destruct p as [t i]. apply arg_pairs_In in H as [e [He [_ [T K]]]]. cbn.
  destruct (eo_arg_inst _ _ O e i He K) as [nd [sat [G Kn]]]. rewrite T in G. exists nd, sat. repeat split; auto.
  destruct (eo_sat _ _ O t nd sat G Kn) as [_ Cn]. specialize (Cn i). apply existsb_eqb_In.
  destruct (existsb _ sat); auto.
  assert (1 <= count_arg_l es t i) by (eapply filter_length_pos; eauto; apply is_arg_true; auto). lia.
Qed.

(** * removing a set of nodes: what the two removals have in common *)
Section Purge.
Variable u : universe.
Variables (s s1 : gstate) (d : nat -> bool) (q : edge -> bool).
Hypothesis HI : InvC u s.
Hypothesis Hq : forall e, In e (edges s) -> forall m, d m = false -> etgt e = m -> q e = d (esrc e).
Variable ns' : list (option node).
Variable l : list (nat * nat).
Hypothesis Hl : l = arg_pairs q (edges s).
Hypothesis Hc : forall m, orel (cleared l m) (getn (nodes s) m) (getn (nodes s1) m).
Hypothesis Hd : forall m, getn ns' m = if d m then None else getn (nodes s1) m.

Lemma purge_dropped (P : node -> node -> Prop) :
  (forall m a b, cleared l m a b -> P a b) -> dropped d P (nodes s) ns'.
Proof.
  intros HP m. rewrite Hd. destruct (d m); auto. specialize (Hc m).
  destruct (getn (nodes s) m), (getn (nodes s1) m); cbn in *; eauto.
Qed.

Lemma purge_edges : EdgeOK ns' (filter (fun e => negb (d (esrc e)) && negb (d (etgt e))) (edges s)).
Proof.
  apply EdgeOK_purge with (ns := nodes s); [apply HI| |].
  - apply purge_dropped. intros m a b. apply cleared_kclass.
  - intros m nd nd' sat sat' G G' K K'. rewrite Hd in G'. destruct (d m) eqn:Dm; [discriminate|].
    specialize (Hc m). rewrite G, G' in Hc. destruct Hc as (_ & _ & H3). rewrite K, K' in H3.
    injection H3 as ->. exists (keep_idx l m). split; auto. intros i. rewrite keep_idx_false, Hl, arg_pairs_In.
    split; intros [e [He R]]; exists e; split; auto.
    + destruct R as (Q & T & Ke). rewrite (Hq e He m Dm T) in Q. split; auto. apply is_arg_true; auto.
    + destruct R as (Q & A). apply is_arg_true in A as [T Ke]. rewrite (Hq e He m Dm T). auto.
Qed.

Lemma purge_pkg : PkgOK u ns' (pkgs s) (free_pkgs s).
Proof.
  eapply PkgOK_drop; [|apply HI]. apply purge_dropped. intros m a b C. split; [symmetry; apply C|].
  eapply cleared_kclass; eauto.
Qed.

Lemma purge_ex ex' :
  (forall x, In x ex' <-> In x (exports s) /\ d (snd x) = false) -> NoDup (map fst ex') -> ExOK ns' ex'.
Proof.
  intros M N. eapply ExOK_drop; eauto; [|apply HI]. apply purge_dropped. intros m a b C. symmetry. apply C.
Qed.

Lemma purge_im im' :
  (forall x, In x im' <-> In x (imports s) /\ d (snd x) = false) -> NoDup (map fst im') -> ImOK ns' im'.
Proof.
  intros M N. eapply ImOK_drop; eauto; [|apply HI]. apply purge_dropped. intros m a b. apply cleared_kclass.
Qed.

Lemma purge_df df' :
  (forall x, In x df' <-> In x (defined s) /\ d (snd x) = false) -> DfOK ns' df'.
Proof.
  intros M. eapply DfOK_drop; eauto; [|apply HI]. apply purge_dropped. intros m a b. apply cleared_kclass.
Qed.
End Purge.

(** * remove_one *)
Definition gone (s : gstate) (n : nat) : Prop :=
  live s n = false /\ (forall e, In e (edges s) -> esrc e <> n /\ etgt e <> n) /\
  (forall nm, ~ In (nm, n) (exports s)) /\ (forall nm, ~ In (nm, n) (imports s)) /\
  (forall t, ~ In (t, n) (defined s)).

Lemma dead_gone u s n : InvC u s -> live s n = false -> gone s n.
Proof.
  intros [F E X I D P] L. rewrite live_liveb in L. split; [exact L|]. repeat split.
  - intros Eq. destruct (eo_live _ _ E e H) as [L1 L2]. rewrite Eq in L1. congruence.
  - intros Eq. destruct (eo_live _ _ E e H) as [L1 L2]. rewrite Eq in L2. congruence.
  - intros nm H. apply (xo_live _ _ X) in H. congruence.
  - intros nm H. apply (io_iff _ _ I) in H as [nd [G _]]. apply liveb_false in L. congruence.
  - intros t H. apply (do_def _ _ D) in H as [nd [G _]]. apply liveb_false in L. congruence.
Qed.

Lemma remove_one_live u s n nd0 :
  InvC u s -> get_node s n = Some nd0 ->
  exists s', remove_one s n = inl s' /\ InvC u s' /\ live s' n = false /\
             (forall m, m <> n -> live s' m = live s m) /\ (forall e, In e (edges s') -> In e (edges s)).
Proof.
  intros HI G0. pose proof HI as [F E X I D P]. rewrite get_node_getn in G0.
  unfold remove_one, outgoing. rewrite arg_targets_filter.
  set (q := fun e => esrc e =? n). set (l := arg_pairs q (edges s)).
  destruct (remove_satisfied_all_ok l s) as [s1 R].
  { apply arg_pairs_NoDup. intros t i. eapply count_le_1; eauto. }
  { intros p Hp. eapply arg_pairs_sat_has; eauto. }
  rewrite R. apply remove_satisfied_all_spec in R as (Hc & L & R1 & R2 & R3 & R4 & R5 & R6 & R7).
  pose proof (Hc n) as Cn. rewrite G0 in Cn. rewrite get_node_getn.
  destruct (getn (nodes s1) n) as [nd|] eqn:G1; [|destruct Cn]. cbn in Cn. pose proof Cn as (C1 & C2 & C3).
  assert (KC : kclass (nk nd0) (nk nd)) by (eapply cleared_kclass; eauto).
  set (d := fun m => m =? n).
  set (ns' := set_nth (nodes s1) n None).
  assert (Hd : forall m, getn ns' m = if d m then None else getn (nodes s1) m).
  { intros m. unfold ns', d. apply getn_set_none. }
  assert (Hq : forall e, In e (edges s) -> forall m, d m = false -> etgt e = m -> q e = d (esrc e)) by reflexivity.
  cbn [drop_node imports exports defined]. rewrite R3, R4, R5.
  (* imports *)
  assert (Him : exists im, match nk nd with
                 | NImport nm => match alist_get N.eqb (imports s) nm with
                                 | Some _ => inl (filter (fun p => negb (N.eqb (fst p) nm)) (imports s))
                                 | None => inr PImportMissing end
                 | _ => inl (imports s) end = inl im /\ ImOK ns' im).
  { pose proof (imports_after_remove _ _ _ _ I G0) as IAR.
    destruct (nk nd) as [|nm|st|] eqn:K1, (nk nd0) as [|nm0|st0|] eqn:K0; cbn in KC; try discriminate KC;
      cbn zeta in IAR; destruct IAR as [Mi Ni].
    2:{ injection KC as ->. destruct (alist_get N.eqb (imports s) nm) eqn:Al.
        - eexists. split; [reflexivity|]. eapply purge_im with (l := l) (s1 := s1); eauto.
          intros x. rewrite Mi. unfold d. now rewrite Nat.eqb_neq.
        - exfalso. apply alist_get_None in Al. apply Al.
          assert (Hin : In (nm, n) (imports s)) by (apply (io_iff _ _ I); eauto).
          apply (in_map fst) in Hin. exact Hin. }
    all: eexists; split; [reflexivity|]; eapply purge_im with (l := l) (s1 := s1); eauto;
      intros x; rewrite Mi; unfold d; now rewrite Nat.eqb_neq. }
  destruct Him as [im [-> HIm]].
  (* exports *)
  assert (Hex : exists ex, match nexport nd0 with Some nm => swap_remove (exports s) nm = Some ex | None => ex = exports s end).
  { destruct (nexport nd0) as [nm|] eqn:En; [|eauto].
    destruct (swap_remove (exports s) nm) eqn:Sw; [eauto|]. exfalso. revert Sw. apply swap_remove_Some.
    pose proof (xo_node _ _ X n nd0 nm G0 En) as Hi. apply (in_map fst) in Hi. exact Hi. }
  destruct Hex as [ex Hex]. destruct (exports_after_remove _ _ _ _ _ X G0 Hex) as [Me Ne].
  assert (Hex' : match nexport nd with
                 | Some nm => match swap_remove (exports s) nm with Some ex => inl ex | None => inr PExportMissing end
                 | None => inl (exports s) end = inl ex).
  { rewrite C2. destruct (nexport nd0); [now rewrite Hex|now subst]. }
  rewrite Hex'.
  assert (HEx : ExOK ns' (filter (fun p : name * nat => negb (snd p =? n)) ex)).
  { eapply purge_ex with (l := l) (s1 := s1); eauto. intros x. rewrite Me. unfold d. now rewrite Nat.eqb_neq. }
  (* the rest of the state *)
  assert (HF : FreeOK ns' (n :: free_nodes s1)).
  { unfold ns'. eapply FreeOK_drop; eauto. rewrite R1. eapply FreeOK_ext; eauto.
    intros m Hm. specialize (Hc m). rewrite Hm in Hc. destruct (getn (nodes s1) m); [destruct Hc|auto]. }
  assert (HE : EdgeOK ns' (filter (fun e => negb (esrc e =? n) && negb (etgt e =? n)) (edges s1))).
  { rewrite R2. apply (purge_edges u s s1 d q HI Hq ns' l eq_refl Hc Hd). }
  assert (HP : PkgOK u ns' (pkgs s1) (free_pkgs s1)).
  { rewrite R6, R7. eapply purge_pkg with (l := l) (s1 := s1); eauto. }
  assert (Hdf_other : nk nd0 <> NDef -> DfOK ns' (defined s)).
  { intros Hk. eapply purge_df with (l := l) (s1 := s1); eauto. intros [t m]. split; [|tauto]. intros H.
    split; auto. cbn. unfold d. apply Nat.eqb_neq. intros ->. apply (do_def _ _ D) in H as [x [Gx Kx]]. congruence. }
  assert (Hlive : forall s', nodes s' = ns' -> live s' n = false /\ forall m, m <> n -> live s' m = live s m).
  { intros s' Hn. split.
    - rewrite live_liveb, Hn. apply liveb_false. rewrite Hd. unfold d. now rewrite Nat.eqb_refl.
    - intros m Hm. rewrite !live_liveb, Hn. unfold liveb. rewrite Hd. unfold d. apply Nat.eqb_neq in Hm. rewrite Hm.
      specialize (Hc m). destruct (getn (nodes s) m), (getn (nodes s1) m); cbn in Hc; tauto. }
  assert (Hedges : forall e, In e (filter (fun e => negb (esrc e =? n) && negb (etgt e =? n)) (edges s1)) -> In e (edges s)).
  { intros e He. apply filter_In in He as [He _]. now rewrite R2 in He. }
  destruct (nk nd) as [|nm|st|] eqn:K1, (nk nd0) as [|nm0|st0|] eqn:K0; cbn in KC; try discriminate KC.
  - (* definition *)
    destruct (do_node _ _ D n nd0 G0 K0) as [t Ht].
    assert (Hx : existsb (fun p : nat * nat => snd p =? n) (defined s) = true).
    { apply existsb_exists. exists (t, n). split; auto. apply Nat.eqb_refl. }
    rewrite Hx. eexists. split; [reflexivity|]. split; [|split; [|split]].
    + constructor; cbn; auto. eapply purge_df with (l := l) (s1 := s1); eauto.
      intros x. rewrite filter_In, negb_true_iff. reflexivity.
    + apply Hlive. reflexivity.
    + apply Hlive. reflexivity.
    + exact Hedges.
  - eexists. split; [reflexivity|]. split; [|split; [|split]].
    + constructor; cbn; auto. apply Hdf_other. discriminate.
    + apply Hlive. reflexivity.
    + apply Hlive. reflexivity.
    + exact Hedges.
  - eexists. split; [reflexivity|]. split; [|split; [|split]].
    + constructor; cbn; auto. apply Hdf_other. discriminate.
    + apply Hlive. reflexivity.
    + apply Hlive. reflexivity.
    + exact Hedges.
  - eexists. split; [reflexivity|]. split; [|split; [|split]].
    + constructor; cbn; auto. apply Hdf_other. discriminate.
    + apply Hlive. reflexivity.
    + apply Hlive. reflexivity.
    + exact Hedges.
Qed.

Lemma remove_one_dead u s n : InvC u s -> get_node s n = None -> remove_one s n = inr PInvalidNodeId.
Proof.
  intros HI G. unfold remove_one.
  assert (O : outgoing s n = []).
  { unfold outgoing. destruct (filter _ (edges s)) as [|e r] eqn:Fl; auto. exfalso.
    assert (He : In e (filter (fun e => esrc e =? n) (edges s))) by (rewrite Fl; now left).
    apply filter_In in He as [He Hs]. apply Nat.eqb_eq in Hs.
    destruct (eo_live _ _ (ic_edge _ _ HI) e He) as [L _]. rewrite Hs in L. apply liveb_true in L as [x L].
    rewrite get_node_getn in G. congruence. }
  rewrite O. cbn. now rewrite G.
Qed.

(** * remove_node *)
Section GoList.
Variable rec : gstate -> nat -> gstate + psite.
Fixpoint go_list (s : gstate) (l : list nat) : gstate + psite :=
  match l with
  | [] => inl s
  | m :: r =>
      if live s m then match rec s m with inl s' => go_list s' r | inr p => inr p end
      else go_list s r
  end.
End GoList.

Lemma remove_node_rec_S f s n :
  remove_node_rec (S f) s n =
  match go_list (remove_node_rec f) s (dependants s n) with
  | inr p => inr p
  | inl s' => remove_one s' n
  end.
Proof. reflexivity. Qed.

(** what one successful call guarantees *)
Definition removed_ok (u : universe) (s : gstate) (n : nat) (r : gstate + psite) : Prop :=
  match r with
  | inl s' => InvC u s' /\ live s' n = false /\ (forall m, live s' m = true -> live s m = true) /\
              (forall e, In e (edges s') -> In e (edges s))
  | inr p => bookkeeping p = false
  end.

Lemma remove_node_rec_ok u fuel : forall s n, InvC u s -> removed_ok u s n (remove_node_rec fuel s n).
Proof.
  induction fuel as [|f IH]; intros s n HI; [reflexivity|].
  rewrite remove_node_rec_S.
  assert (G : forall l s0, InvC u s0 ->
            match go_list (remove_node_rec f) s0 l with
            | inl s' => InvC u s' /\ (forall m, live s' m = true -> live s0 m = true) /\
                        (forall e, In e (edges s') -> In e (edges s0))
            | inr p => bookkeeping p = false end).
  { induction l as [|m r IHl]; intros s0 H0; cbn; [auto|].
    destruct (live s0 m); [|apply IHl; exact H0]. specialize (IH s0 m H0). unfold removed_ok in IH.
    destruct (remove_node_rec f s0 m) as [s'|p]; [|exact IH]. destruct IH as (I1 & _ & I3 & I4).
    specialize (IHl s' I1). destruct (go_list (remove_node_rec f) s' r) as [s''|p]; [|exact IHl].
    destruct IHl as (J1 & J3 & J4). split; [exact J1|split; auto]. }
  specialize (G (dependants s n) s HI). destruct (go_list _ s (dependants s n)) as [s'|p]; [|exact G].
  destruct G as (I1 & I3 & I4). destruct (get_node s' n) as [nd|] eqn:Gn.
  - destruct (remove_one_live u s' n nd I1 Gn) as [s'' [-> (J1 & J2 & J3 & J4)]]. cbn.
    split; [exact J1|split; [exact J2|split; [|auto]]].
    intros m Hm. apply I3. destruct (Nat.eq_dec m n) as [->|Hne]; [congruence|]. now rewrite <- J3.
  - rewrite (remove_one_dead u s' n I1 Gn). reflexivity.
Qed.

Lemma remove_node_inv u s n : InvC u s -> InvC u (fst (remove_node s n)).
Proof.
  intros H. unfold remove_node. pose proof (remove_node_rec_ok u (S (length (nodes s))) s n H) as R.
  destruct (remove_node_rec _ s n); cbn; [apply R|auto].
Qed.

Lemma remove_node_ok u s n : InvC u s -> ok_outcome (snd (remove_node s n)).
Proof.
  intros H. unfold remove_node. pose proof (remove_node_rec_ok u (S (length (nodes s))) s n H) as R.
  destruct (remove_node_rec _ s n) as [s'|p0]; cbn; [ok_triv|]. intros p [= <-]. exact R.
Qed.

Lemma remove_node_gone u s n s' :
  InvC u s -> remove_node s n = (s', OUnit) ->
  InvC u s' /\ gone s' n /\ (forall m, live s' m = true -> live s m = true) /\
  (forall e, In e (edges s') -> In e (edges s)).
Proof.
  intros H. unfold remove_node. pose proof (remove_node_rec_ok u (S (length (nodes s))) s n H) as R.
  destruct (remove_node_rec _ s n) as [s''|]; [|discriminate]. intros [= <-].
  destruct R as (R1 & R2 & R3 & R4). split; [exact R1|split; [eapply dead_gone; eauto|split; auto]].
Qed.
