(** C13: a property of commands that holds of the fixed commands, of the [source(span)] copy of every
    token satisfying a token predicate [T], and of the doc lines printed for such a token's doc
    comments, holds of every command the (repaired) printer issues for the tree of a derivation over
    tokens satisfying [T]. (Used with [T] = "the lexer produced this token": lexical class of every
    copied text, cleanliness of every doc line.) *)
From WacV Require Import Str Token Lexer LexTables LexImpl LexerSound Semver Ast Parser Grammar ParserComb ParserProofs ParserTop.
From WacV Require Import Printer PrintSpec PrinterText PrinterProofs PrinterWf.
From Coq Require Import Lia.
Local Open Scope nat_scope.

Section Leaves.
Variable T : rtoken -> Prop.
Variable P : cmd -> Prop.
Let d := impl_flags.
Let fx := repaired.
Hypothesis Ptok : forall k, P (CTok k).
Hypothesis Psp : P CSp.
Hypothesis Pindent : P CIndent.
Hypothesis Pnewline : P CNewline.
Hypothesis Prawnl : P CRawNl.
Hypothesis Pinc : P CInc.
Hypothesis Pdec : P CDec.
Hypothesis Psrc : forall t, T t -> P (CSrc (tk t) (tsp t)).
Hypothesis Pdocs : forall t, T t -> Forall P (p_docs fx (tdocs t)).

Definition acc2 (it : lexitem) : Prop := match it with LTok t => T t | _ => True end.
Definition Acc2 (ts : list lexitem) : Prop := Forall acc2 ts.
Definition step2 {A} (G : drel A) (pr : A -> list cmd) : Prop :=
  forall ts r x, G ts r x -> Acc2 ts -> Forall P (pr x) /\ Acc2 r.

Ltac fb_ext := fail.
Ltac fb :=
  repeat first [ apply Forall_nil | assumption | fb_ext
               | match goal with |- Forall _ (_ ++ _) => apply Forall_app; split end
               | match goal with |- Forall _ (_ :: _) =>
                   apply Forall_cons; [first [apply Ptok | exact Psp | exact Pindent | exact Pnewline | exact Prawnl
                                             | exact Pinc | exact Pdec | assumption | idtac] |] end ].

Lemma tok_acc2 k ts r t : tok k ts r t -> Acc2 ts -> T t /\ tk t = k /\ Acc2 r.
Proof. intros [-> Hk] H. inversion H; subst. auto. Qed.

Lemma docs_acc2 k ts r t : tok k ts r t -> Acc2 ts -> Forall P (p_docs fx (docs_of ts)).
Proof. intros [-> Hk] H. inversion H; subst. cbn [docs_of]. now apply Pdocs. Qed.

Lemma g_id_docs ts r i : g_id ts r i -> Acc2 ts -> Forall P (p_docs fx (docs_of ts)).
Proof. intros (t & Ht & _). eapply docs_acc2; eauto. Qed.

Lemma l_id : step2 g_id (fun i => [src_id i]).
Proof.
  intros ts r i (t & Ht & ->) Ha. destruct (tok_acc2 _ _ _ _ Ht Ha) as (H1 & H2 & H3). split; [|exact H3].
  constructor; [|constructor]. unfold src_id. cbn [mk_ident id_span]. rewrite <- H2. now apply Psrc.
Qed.

Lemma l_string : step2 g_string (fun s => [src_str s]).
Proof.
  intros ts r s (t & Ht & Hs) Ha. destruct (tok_acc2 _ _ _ _ Ht Ha) as (H1 & H2 & H3). split; [|exact H3].
  unfold strlit_of in Hs. destruct (unquote (ttext t)); [|discriminate]. inversion Hs; subst s.
  constructor; [|constructor]. unfold src_str. cbn [s_span]. rewrite <- H2. now apply Psrc.
Qed.

Lemma l_package_name : step2 g_package_name (fun p => [CSrc TPackageName (pn_span p)]).
Proof.
  intros ts r p (t & Ht & Hp) Ha. destruct (tok_acc2 _ _ _ _ Ht Ha) as (H1 & H2 & H3). split; [|exact H3].
  assert (Hsp : pn_span p = tsp t).
  { unfold package_name_of in Hp. destruct (version_of t (ttext t)); inversion Hp; reflexivity. }
  constructor; [|constructor]. rewrite Hsp, <- H2. now apply Psrc.
Qed.

Lemma l_package_path : step2 g_package_path (fun p => [src_path p]).
Proof.
  intros ts r p (t & Ht & Hp) Ha. destruct (tok_acc2 _ _ _ _ Ht Ha) as (H1 & H2 & H3). split; [|exact H3].
  assert (Hsp : pp_span p = tsp t).
  { unfold package_path_of in Hp. destruct (find_char c_slash (ttext t)); [|discriminate].
    destruct (version_of t (ttext t)); inversion Hp; reflexivity. }
  constructor; [|constructor]. unfold src_path. rewrite Hsp, <- H2. now apply Psrc.
Qed.

(* ------------------------------------------------------------------ combinators *)

Lemma l_seplist {A} (G : drel A) pr :
  step2 G pr -> forall ts r x, seplist G ts r x -> Acc2 ts -> Forall (fun a => Forall P (pr a)) (fst x) /\ Acc2 r.
Proof.
  intros HG ts r x H. induction H as [ts|ts r a Ha|ts r1 r a c Ha Hc|ts r1 r2 r a c l tr Ha Hc Hl IH Hne]; intros Hacc.
  - split; [constructor|exact Hacc].
  - destruct (HG _ _ _ Ha Hacc) as [H1 H2]. cbn. auto.
  - destruct (HG _ _ _ Ha Hacc) as [H1 H2]. destruct (tok_acc2 _ _ _ _ Hc H2) as (_ & _ & H3). cbn. auto.
  - destruct (HG _ _ _ Ha Hacc) as [H1 H2]. destruct (tok_acc2 _ _ _ _ Hc H2) as (_ & _ & H3).
    destruct (IH H3) as [H4 H5]. cbn in *. auto.
Qed.

Lemma l_many {A} (G : drel A) pr :
  step2 G pr -> forall ts r l, many G ts r l -> Acc2 ts -> Forall (fun a => Forall P (pr a)) l /\ Acc2 r.
Proof.
  intros HG ts r l H. induction H as [ts|ts r1 r a l Ha Hl IH]; intros Hacc.
  - split; [constructor|exact Hacc].
  - destruct (HG _ _ _ Ha Hacc) as [H1 H2]. destruct (IH H2) as [H3 H4]. auto.
Qed.

Lemma l_opt {A} k (G : drel A) pr :
  step2 G pr -> forall ts r o, opt k G ts r o -> Acc2 ts ->
  match o with Some a => Forall P (pr a) | None => True end /\ Acc2 r.
Proof.
  intros HG ts r o H Hacc. destruct H as [ts|ts r1 r t a Ht Ha]; [auto|].
  destruct (tok_acc2 _ _ _ _ Ht Hacc) as (_ & _ & H1). exact (HG _ _ _ Ha H1).
Qed.

Lemma b_comma_sep {A} (pr : A -> list cmd) l : Forall (fun x => Forall P (pr x)) l -> forall b, Forall P (comma_sep pr b l).
Proof. induction 1 as [|x l Hx _ IH]; intros b; cbn [comma_sep]; [constructor|]. destruct b; fb; apply IH. Qed.
Lemma b_comma_lines {A} (pr : A -> list cmd) l : Forall (fun x => Forall P (pr x)) l -> Forall P (comma_lines pr l).
Proof. unfold comma_lines. induction 1 as [|x l Hx _ IH]; cbn [flat_map]; fb. Qed.
Lemma b_spaced {A} (pr : A -> list cmd) l : Forall (fun x => Forall P (pr x)) l -> forall b, Forall P (spaced pr b l).
Proof. induction 1 as [|x l Hx _ IH]; intros b; cbn [spaced]; [constructor|]. destruct b; fb; apply IH. Qed.

(** One step of unpacking a production: tokens, leaves, and (extensible) known productions. *)
Ltac lext := fail.
Ltac use2 L :=
  match goal with
  | Hg : _ ?ts _ _, Ha : Acc2 ?ts |- _ =>
      let H1 := fresh "Hf" in let H2 := fresh "Ha" in destruct (L _ _ _ Hg Ha) as [H1 H2]; clear Hg
  end.
Ltac lstep :=
  match goal with
  | H : borrow_any_type _ = true |- _ => discriminate H
  | H : named_results _ = true |- _ => discriminate H
  | Ha : Acc2 (_ :: _) |- _ => inversion Ha; subst; clear Ha
  | H : Forall P [_] |- _ => apply Forall_inv in H
  | Ht : tok _ ?ts _ _, Ha : Acc2 ?ts |- _ =>
      let H1 := fresh "Ht" in let H2 := fresh "Hk" in let H3 := fresh "Ha" in
      destruct (tok_acc2 _ _ _ _ Ht Ha) as (H1 & H2 & H3); clear Ht
  | IH : Acc2 ?ts -> _, Ha : Acc2 ?ts |- _ =>
      let H1 := fresh "Hf" in let H2 := fresh "Ha" in destruct (IH Ha) as [H1 H2]; clear IH
  | _ => first [use2 l_id | use2 l_string | use2 l_package_name | use2 l_package_path | lext]
  end.
Ltac unpack2 :=
  repeat match goal with
         | H : exists _, _ |- _ => destruct H
         | H : _ /\ _ |- _ => destruct H
         end.

(* ------------------------------------------------------------------ types *)

Lemma l_type_both :
  (forall ts r t, g_type d ts r t -> Acc2 ts -> Forall P (p_ty t) /\ Acc2 r) /\
  (forall ts r x, g_types d ts r x -> Acc2 ts -> Forall (fun t => Forall P (p_ty t)) (fst x) /\ Acc2 r).
Proof.
  split.
  - apply (g_type_mut d (fun ts r t => Acc2 ts -> Forall P (p_ty t) /\ Acc2 r)
                        (fun ts r x => Acc2 ts -> Forall (fun t => Forall P (p_ty t)) (fst x) /\ Acc2 r));
      intros; subst; cbn [fst] in *; repeat lstep; try rewrite p_ty_tuple; cbn [p_ty];
      (split; [|assumption]); fb; try (apply b_comma_sep; assumption).
  - apply (g_types_mut d (fun ts r t => Acc2 ts -> Forall P (p_ty t) /\ Acc2 r)
                         (fun ts r x => Acc2 ts -> Forall (fun t => Forall P (p_ty t)) (fst x) /\ Acc2 r));
      intros; subst; cbn [fst] in *; repeat lstep; try rewrite p_ty_tuple; cbn [p_ty];
      (split; [|assumption]); fb; try (apply b_comma_sep; assumption).
Qed.
Definition l_type : step2 (g_type d) p_ty := proj1 l_type_both.

Ltac lext ::= use2 l_type.

(** The doc lines of the node that starts at [ts]. *)
Ltac dfirst :=
  match goal with
  | Ht : tok _ ?ts _ _, Ha : Acc2 ?ts |- context [docs_of ?ts] => pose proof (docs_acc2 _ _ _ _ Ht Ha)
  | Hg : g_id ?ts _ _, Ha : Acc2 ?ts |- context [docs_of ?ts] => pose proof (g_id_docs _ _ _ Hg Ha)
  end.
Ltac fin := (split; [|assumption]); fb.

(* ------------------------------------------------------------------ function types *)

Lemma l_named_type : step2 (g_named_type d) p_named_type.
Proof. intros ts r x H Ha. unfold g_named_type in H. unpack2. subst. unfold p_named_type. cbn [nt_id nt_ty]. repeat lstep. fin. Qed.

Lemma l_params : step2 (g_params d) p_named_types.
Proof.
  intros ts r x [tr H] Ha. destruct (l_seplist _ _ l_named_type _ _ _ H Ha) as [H1 H2]. split; [|exact H2].
  unfold p_named_types. now apply b_comma_sep.
Qed.

Ltac lext ::= first [use2 l_type | use2 l_named_type | use2 l_params].

Lemma l_results :
  step2 (g_results d) (fun x => match x with RLEmpty => [] | RLScalar t => [CSp; CTok TArrow; CSp] ++ p_ty t
                                         | RLNamed rs => [CSp; CTok TArrow; CSp; CTok TOpenParen] ++ p_named_types rs ++ [CTok TCloseParen] end).
Proof. intros ts r x H Ha. destruct H; repeat lstep; fin. Qed.

Lemma l_func_type : step2 (g_func_type d) p_func_type.
Proof.
  intros ts r x H Ha. unfold g_func_type in H. unpack2. subst. unfold p_func_type. cbn [ft_params ft_results]. repeat lstep.
  match goal with Ho : opt _ _ _ _ ?res |- _ =>
    destruct (l_opt _ _ _ l_results _ _ _ Ho ltac:(eassumption)) as [Hx Hy]; destruct res as [res|] end; fin.
Qed.

Ltac lext ::= first [use2 l_type | use2 l_named_type | use2 l_params | use2 l_func_type].

(* ------------------------------------------------------------------ type declarations *)

Lemma l_variant_case : step2 (g_variant_case d) (fun c => CIndent :: p_variant_case fx c).
Proof.
  intros ts r x H Ha. unfold g_variant_case in H. unpack2. subst. unfold p_variant_case. cbn [vc_docs vc_id vc_ty].
  dfirst. repeat lstep.
  match goal with Ho : opt _ _ _ _ ?o |- _ =>
    assert (Hstep : step2 (fun a b x => exists b1 c, g_type d a b1 x /\ tok TCloseParen b1 b c)
                          (fun t => [CTok TOpenParen] ++ p_ty t ++ [CTok TCloseParen]))
      by (intros ? ? ? ? ?; unpack2; repeat lstep; fin);
    destruct (l_opt _ _ _ Hstep _ _ _ Ho ltac:(eassumption)) as [Hx Hy]; destruct o end; fin.
Qed.

Lemma l_field : step2 (g_field d) (p_field fx).
Proof.
  intros ts r x H Ha. unfold g_field in H. unpack2. subst. unfold p_field. cbn [fd_docs fd_id fd_ty].
  match goal with Hn : g_named_type _ ?ts _ _ |- _ => unfold g_named_type in Hn end. unpack2. subst. cbn [nt_id nt_ty].
  dfirst. repeat lstep. fin.
Qed.

Lemma l_flag : step2 g_flag (p_flag fx).
Proof. intros ts r x H Ha. unfold g_flag in H. unpack2. subst. unfold p_flag. cbn [fl_docs fl_id]. dfirst. repeat lstep. fin. Qed.

Lemma l_enum_case : step2 g_enum_case (p_enum_case fx).
Proof. intros ts r x H Ha. unfold g_enum_case in H. unpack2. subst. unfold p_enum_case. cbn [ec_docs ec_id]. dfirst. repeat lstep. fin. Qed.

Lemma l_braced {A} kw (item : drel A) (pr : A -> list cmd) mk :
  step2 item pr ->
  forall ts r x, g_braced kw item mk ts r x -> Acc2 ts ->
  (exists dcs i items, x = mk dcs i items /\ Forall P (p_block fx dcs kw i (comma_lines pr items))) /\ Acc2 r.
Proof.
  intros Hs ts r x H Ha. unfold g_braced in H. unpack2. subst.
  match goal with Ht : tok kw ?ts _ _, Ha : Acc2 ?ts |- _ => pose proof (docs_acc2 _ _ _ _ Ht Ha) as Hd end.
  repeat lstep.
  match goal with Hl : seplist _ _ _ _ |- _ => destruct (l_seplist _ _ Hs _ _ _ Hl ltac:(eassumption)) as [Hx Hy] end.
  repeat lstep. split; [|assumption]. do 3 eexists. split; [reflexivity|]. unfold p_block. fb.
  apply b_comma_lines. exact Hx.
Qed.

Lemma l_type_decl : step2 (g_type_decl d) (p_item_type_decl fx).
Proof.
  intros ts r x H Ha. destruct H.
  - destruct (l_braced _ _ _ DVariant l_variant_case _ _ _ H Ha) as [(dcs & i & items & -> & H1) H2]. cbn [p_item_type_decl]. auto.
  - destruct (l_braced _ _ _ DRecord l_field _ _ _ H Ha) as [(dcs & i & items & -> & H1) H2]. cbn [p_item_type_decl]. auto.
  - destruct (l_braced _ _ _ DFlags l_flag _ _ _ H Ha) as [(dcs & i & items & -> & H1) H2]. cbn [p_item_type_decl]. auto.
  - destruct (l_braced _ _ _ DEnum l_enum_case _ _ _ H Ha) as [(dcs & i & items & -> & H1) H2]. cbn [p_item_type_decl]. auto.
  - cbn [p_item_type_decl]. dfirst. repeat lstep. fin.
  - cbn [p_item_type_decl]. dfirst. repeat lstep. fin.
Qed.

Lemma l_resource_item : step2 (g_resource_item d) (p_resource_method fx).
Proof.
  intros ts r x H Ha. destruct H; cbn [p_resource_method]; dfirst.
  - repeat lstep. fin.
  - repeat lstep.
    match goal with Ho : opt _ _ _ _ ?st |- _ =>
      assert (Hstep : step2 (fun a b (x : unit) => a = b) (fun _ => [])) by (intros ? ? ? -> ?; split; [constructor|assumption]);
      destruct (l_opt _ _ _ Hstep _ _ _ Ho ltac:(eassumption)) as [Hx Hy]; destruct st end; repeat lstep; fin.
Qed.

Lemma l_item_type_decl : step2 (g_item_type_decl d) (p_item_type_decl fx).
Proof.
  intros ts r x H Ha. destruct H.
  - cbn [p_item_type_decl]. unfold p_block. dfirst. repeat lstep. fin.
  - cbn [p_item_type_decl]. unfold p_block. dfirst. repeat lstep.
    match goal with Hm : many _ _ _ _ |- _ => destruct (l_many _ _ l_resource_item _ _ _ Hm ltac:(eassumption)) as [Hx Hy] end.
    repeat lstep. fin. now apply b_spaced.
  - exact (l_type_decl _ _ _ H Ha).
Qed.

Ltac lext ::= first [use2 l_type | use2 l_named_type | use2 l_params | use2 l_func_type | use2 l_item_type_decl].

(* ------------------------------------------------------------------ interfaces and worlds *)

Lemma l_use_item : step2 g_use_item p_use_item.
Proof.
  intros ts r x H Ha. unfold g_use_item in H. unpack2. subst. unfold p_use_item. cbn [ui_id ui_as]. repeat lstep.
  match goal with Ho : opt _ _ _ _ ?o |- _ =>
    assert (Hstep : step2 g_id (fun a => [CSp; CTok TAsKeyword; CSp; src_id a]))
      by (intros ? ? ? ? ?; repeat lstep; fin);
    destruct (l_opt _ _ _ Hstep _ _ _ Ho ltac:(eassumption)) as [Hx Hy]; destruct o end; fin.
Qed.

Lemma l_use : step2 (g_use d) (p_use fx).
Proof.
  intros ts r x H Ha. unfold g_use in H. unpack2. subst. unfold p_use. cbn [u_docs u_path u_items]. dfirst. repeat lstep.
  match goal with Hp : g_use_path _ _ _ |- _ => destruct Hp end; cbn [p_use_path]; repeat lstep;
  (match goal with Hl : seplist _ _ _ _ |- _ => destruct (l_seplist _ _ l_use_item _ _ _ Hl ltac:(eassumption)) as [Hx Hy] end);
  repeat lstep; fin; apply b_comma_sep; assumption.
Qed.

Lemma l_func_type_ref : step2 (g_func_type_ref d) p_func_type_ref.
Proof. intros ts r x H Ha. destruct H; cbn [p_func_type_ref]; repeat lstep; fin. Qed.

Lemma l_interface_item : step2 (g_interface_item d) (p_interface_item fx).
Proof.
  intros ts r x H Ha. destruct H; cbn [p_interface_item].
  - exact (l_use _ _ _ H Ha).
  - exact (l_item_type_decl _ _ _ H Ha).
  - dfirst. repeat lstep. use2 l_func_type_ref. repeat lstep. fin.
Qed.

Lemma l_interface_body : step2 (g_interface_body d) (fun items => CTok TOpenBrace :: p_items (p_interface_item fx) items).
Proof.
  intros ts r x H Ha. unfold g_interface_body in H. unpack2. repeat lstep.
  match goal with Hm : many _ _ _ _ |- _ => destruct (l_many _ _ l_interface_item _ _ _ Hm ltac:(eassumption)) as [Hx Hy] end.
  repeat lstep. unfold p_items. fin. now apply b_spaced.
Qed.

Lemma l_inline_interface : step2 (g_inline_interface d) (p_inline_interface fx).
Proof.
  intros ts r x H Ha. unfold g_inline_interface in H. unpack2. repeat lstep. use2 l_interface_body.
  unfold p_inline_interface. split; [|assumption]. inversion Hf; subst. fb.
Qed.

Lemma l_extern_type : step2 (g_extern_type d) (p_extern_type fx).
Proof.
  intros ts r x H Ha. destruct H; cbn [p_extern_type]; [repeat lstep; fin|exact (l_inline_interface _ _ _ H Ha)|repeat lstep; fin].
Qed.

Lemma l_world_item_path : step2 (g_world_item_path d) (p_world_item_path fx).
Proof.
  intros ts r x H Ha. destruct H; cbn [p_world_item_path]; repeat lstep; try use2 l_extern_type; fin.
Qed.

Lemma l_include_item : step2 g_include_item p_include_item.
Proof. intros ts r x H Ha. unfold g_include_item in H. unpack2. subst. unfold p_include_item. cbn [ii_from ii_to]. repeat lstep. fin. Qed.

Lemma l_world_item : step2 (g_world_item d) (p_world_item fx).
Proof.
  intros ts r x H Ha. destruct H; cbn [p_world_item].
  - exact (l_use _ _ _ H Ha).
  - exact (l_item_type_decl _ _ _ H Ha).
  - dfirst. repeat lstep. use2 l_world_item_path. repeat lstep. fin.
  - dfirst. repeat lstep. use2 l_world_item_path. repeat lstep. fin.
  - dfirst. repeat lstep.
    assert (Hstep : step2 (fun a b items => exists b1 b2 o c tr,
                  tok TOpenBrace a b1 o /\ seplist g_include_item b1 b2 (items, tr) /\
                  (items <> [] \/ empty_include_with d = true) /\ tok TCloseBrace b2 b c)
                  (fun items => [CSp; CTok TWithKeyword; CSp; CTok TOpenBrace; CNewline; CInc] ++
                                comma_lines p_include_item items ++ [CDec; CIndent; CTok TCloseBrace])).
    { intros ? ? ? ? ?. unpack2. repeat lstep.
      match goal with Hl : seplist _ _ _ _ |- _ => destruct (l_seplist _ _ l_include_item _ _ _ Hl ltac:(eassumption)) as [Hx Hy] end.
      repeat lstep. fin. now apply b_comma_lines. }
    match goal with Hw : g_world_ref _ _ _ |- _ => destruct Hw end; cbn [p_world_ref]; repeat lstep;
    (match goal with Ho : opt _ _ _ _ ?o |- _ =>
       destruct (l_opt _ _ _ Hstep _ _ _ Ho ltac:(eassumption)) as [Hx Hy]; destruct o as [[|y l]|] end);
    repeat lstep; fin.
Qed.

Lemma l_type_statement : step2 (g_type_statement d) (p_type_statement fx).
Proof.
  intros ts r x H Ha. destruct H; cbn [p_type_statement].
  - dfirst. repeat lstep. use2 l_interface_body. split; [|assumption]. inversion Hf0; subst. fb.
  - dfirst. repeat lstep.
    match goal with Hm : many _ _ _ _ |- _ => destruct (l_many _ _ l_world_item _ _ _ Hm ltac:(eassumption)) as [Hx Hy] end.
    repeat lstep. unfold p_items. fin. now apply b_spaced.
  - exact (l_type_decl _ _ _ H Ha).
Qed.

(* ------------------------------------------------------------------ expressions *)

Lemma l_postfix : step2 g_postfix p_postfix.
Proof. intros ts r x H Ha. destruct H; cbn [p_postfix]; repeat lstep; fin. Qed.

Lemma l_arg_name : step2 g_arg_name p_arg_name.
Proof. intros ts r x H Ha. destruct H; cbn [p_arg_name]; repeat lstep; fin. Qed.

Lemma b_args l : Forall (fun a => Forall P (p_arg0 a)) l -> Forall P (p_args l).
Proof.
  induction 1 as [|a l Ha _ IH]; cbn [p_args]; [constructor|]. unfold p_arg_line. fb.
  destruct (is_fill a && nil_args l)%bool; fb.
Qed.

Lemma b_new_args l : Forall (fun a => Forall P (p_arg0 a)) l -> Forall P (p_new_args l).
Proof.
  intros H. pose proof (b_args _ H) as Hb. unfold p_new_args. destruct l as [|a [|b l]]; [fb| |]; destruct a; fb.
Qed.

Lemma l_expr : step2 (g_expr d) (p_expr fx).
Proof.
  intros ts r x H. revert ts r x H.
  apply (g_expr_mut d (fun ts r x => Acc2 ts -> Forall P (p_expr fx x) /\ Acc2 r)
                      (fun ts r p => Acc2 ts -> Forall P (p_primary fx p) /\ Acc2 r)
                      (fun ts r x => Acc2 ts -> Forall (fun a => Forall P (p_arg0 a)) (fst x) /\ Acc2 r)
                      (fun ts r a => Acc2 ts -> Forall P (p_arg0 a) /\ Acc2 r));
    intros; subst; cbn [fst] in *.
  - repeat lstep.
    match goal with Hm : many _ _ _ _ |- _ => destruct (l_many _ _ l_postfix _ _ _ Hm ltac:(eassumption)) as [Hx Hy] end.
    unfold mk_expr. cbn [p_expr]. fin. clear -Hx. induction Hx; cbn [flat_map]; [constructor|]. apply Forall_app. auto.
  - repeat lstep. rewrite p_new_eq. fin. now apply b_new_args.
  - repeat lstep. cbn [p_primary]. fin.
  - repeat lstep. cbn [p_primary]. fin.
  - split; [constructor|assumption].
  - repeat lstep. cbn [fst]. auto.
  - repeat lstep. cbn [fst]. auto.
  - repeat lstep. cbn [fst] in *. auto.
  - repeat lstep. cbn [p_arg0]. fin.
  - repeat lstep. cbn [p_arg0]. fin.
  - repeat lstep. use2 l_arg_name. repeat lstep. cbn [p_arg0]. fin.
  - repeat lstep. cbn [p_arg0]. fin.
Qed.

(* ------------------------------------------------------------------ statements, document *)

Lemma l_extern_name : step2 g_extern_name p_extern_name.
Proof. intros ts r x H Ha. destruct H; cbn [p_extern_name]; repeat lstep; fin. Qed.

Lemma l_statement : step2 (g_statement d) (p_statement fx).
Proof.
  intros ts r x H Ha. destruct H; cbn [p_statement].
  - dfirst. repeat lstep.
    assert (Hstep : step2 g_extern_name (fun n => [CSp; CTok TAsKeyword; CSp] ++ p_extern_name n))
      by (intros ? ? ? ? ?; use2 l_extern_name; fin).
    match goal with Ho : opt _ _ _ _ ?o |- _ => destruct (l_opt _ _ _ Hstep _ _ _ Ho ltac:(eassumption)) as [Hx Hy]; destruct o end;
    repeat lstep;
    (match goal with Hi : g_import_type _ _ _ _ |- _ => destruct Hi end); cbn [p_import_type]; repeat lstep;
    try use2 l_inline_interface; repeat lstep; fin.
  - exact (l_type_statement _ _ _ H Ha).
  - dfirst. repeat lstep. use2 l_expr. repeat lstep. fin.
  - dfirst. repeat lstep. use2 l_expr.
    match goal with Ho : g_export_options _ _ _ |- _ => destruct Ho end; repeat lstep; try use2 l_extern_name; repeat lstep; fin.
Qed.

Theorem l_document ts x : g_document d ts [] x -> Acc2 ts -> Forall P (p_document fx x).
Proof.
  intros H Ha. unfold g_document in H. unpack2. subst. unfold g_package_decl in *. unpack2. subst.
  unfold p_document, p_directive. cbn [doc_docs doc_directive pd_package pd_targets doc_statements fx_targets_keyword fx repaired].
  dfirst. repeat lstep.
  match goal with Ho : opt _ _ _ _ ?o |- _ => destruct (l_opt _ _ _ l_package_path _ _ _ Ho ltac:(eassumption)) as [Hx Hy]; destruct o end;
  repeat lstep;
  (match goal with Hm : many _ _ _ _ |- _ => destruct (l_many _ _ l_statement _ _ _ Hm ltac:(eassumption)) as [Hz Hw] end);
  fb; try (inversion Hx; subst; assumption); now apply b_spaced.
Qed.

End Leaves.
