(** [remap_value_type] / [remap_defined_type] / [remap_func_type] copy a resource-free type of a contributor's
    collection into the aggregator's collection without changing its tree; the aggregator's arenas only grow. *)
From Coq Require Import ZArith ZifyBool ZifyN Lia.
From WacV Require Import Str Ord Semver Names Types Checker Aggregator.
From WacV Require Import SemverProofs CheckerEq CheckerValue CheckerProofs AggregatorFrame.

(** * Arena extension *)
Definition prefix {A} (l l' : list A) : Prop := exists r, l' = l ++ r.
Lemma prefix_refl {A} (l : list A) : prefix l l. Proof. exists []. now rewrite app_nil_r. Qed.
Lemma prefix_trans {A} (a b c : list A) : prefix a b -> prefix b c -> prefix a c.
Proof. intros [r ->] [s ->]. exists (r ++ s). now rewrite app_assoc. Qed.
Lemma prefix_app {A} (l r : list A) : prefix l (l ++ r). Proof. now exists r. Qed.
Lemma lookup_prefix {A} tag (l l' : list A) i x : prefix l l' -> lookup tag l i = Some x -> lookup tag l' i = Some x.
Proof.
  intros [r ->]. unfold lookup. destruct (id_tag i =? tag); [|discriminate]. intros H.
  rewrite nth_error_app1; auto. apply nth_error_Some. congruence.
Qed.
Lemma lookup_new {A} tag (l : list A) x : lookup tag (l ++ [x]) (mkid tag (length l)) = Some x.
Proof. unfold lookup. cbn [id_tag id_idx]. rewrite N.eqb_refl. rewrite nth_error_app2 by lia. now rewrite Nat.sub_diag. Qed.

(** [t'] has the value-level arenas of [t] as prefixes *)
Record ext (t t' : types) : Prop := {
  ext_tag : t_tag t' = t_tag t;
  ext_def : prefix (t_defined t) (t_defined t');
  ext_res : prefix (t_resources t) (t_resources t');
  ext_func : prefix (t_funcs t) (t_funcs t') }.
Lemma ext_refl t : ext t t. Proof. split; auto using prefix_refl. Qed.
Lemma ext_trans a b c : ext a b -> ext b c -> ext a c.
Proof. intros [A1 A2 A3 A4] [B1 B2 B3 B4]. split; eauto using prefix_trans. congruence. Qed.

Lemma get_def_ext t t' d x : ext t t' -> get_def t d = Some x -> get_def t' d = Some x.
Proof. intros E. unfold get_def. rewrite (ext_tag _ _ E). apply lookup_prefix, E. Qed.
Lemma get_res_ext t t' d x : ext t t' -> get_res t d = Some x -> get_res t' d = Some x.
Proof. intros E. unfold get_res. rewrite (ext_tag _ _ E). apply lookup_prefix, E. Qed.
Lemma get_func_ext t t' d x : ext t t' -> get_func t d = Some x -> get_func t' d = Some x.
Proof. intros E. unfold get_func. rewrite (ext_tag _ _ E). apply lookup_prefix, E. Qed.

Lemma res_name_of_ext t t' : ext t t' -> forall g r n, res_name_of g t r = Some n -> res_name_of g t' r = Some n.
Proof.
  intros E. induction g as [|g IH]; intros r n; [discriminate|]. cbn [res_name_of].
  destruct (get_res t r) as [x|] eqn:Er; [|discriminate]. rewrite (get_res_ext _ _ _ _ E Er).
  destruct (res_source x); auto.
Qed.

Lemma unfold_vt_body_change_t U rn t t' v tr :
  (forall d x, get_def t d = Some x -> get_def t' d = Some x) ->
  unfold_vt_body U rn t v = Some tr -> unfold_vt_body U rn t' v = Some tr.
Proof.
  intros H. destruct v as [p|r|r|d]; cbn [unfold_vt_body]; auto.
  destruct (get_def t d) as [x|] eqn:E; [|discriminate]. now rewrite (H _ _ E).
Qed.

Lemma unfold_vt_ext t t' : ext t t' -> forall g v tr, unfold_vt g t v = Some tr -> unfold_vt g t' v = Some tr.
Proof.
  intros E. induction g as [|g IH]; intros v tr; [discriminate|].
  rewrite !unfold_vt_eq. intros H. apply (unfold_vt_body_change_t _ _ t t') in H; [|intros; eapply get_def_ext; eauto].
  eapply unfold_vt_body_ext; [| |exact H]; [exact IH|]. intros r n. now apply res_name_of_ext.
Qed.

Lemma unfold_func_ext t t' : ext t t' -> forall g i ft, unfold_func g t i = Some ft -> unfold_func g t' i = Some ft.
Proof.
  intros E g i ft. unfold unfold_func. destruct (get_func t i) as [x|] eqn:Ef; [|discriminate].
  rewrite (get_func_ext _ _ _ _ E Ef).
  destruct (map_snd (unfold_vt g t) (f_params x)) as [ps|] eqn:E1; [|discriminate].
  destruct (omap (unfold_vt g t) (f_result x)) as [r|] eqn:E2; [|discriminate].
  rewrite (map_snd_ext _ (unfold_vt g t') _ _ (unfold_vt_ext _ _ E g) E1).
  now rewrite (omap_ext _ (unfold_vt g t') _ _ (unfold_vt_ext _ _ E g) E2).
Qed.

Lemma Forall2_impl {A B} (P Q : A -> B -> Prop) l l' : (forall a b, P a b -> Q a b) -> Forall2 P l l' -> Forall2 Q l l'.
Proof. intros H. induction 1; constructor; auto. Qed.

(** * Denotations without the fuel *)
Definition Unf (t : types) (v : valtype) (tr : vtree) : Prop := exists g, unfold_vt g t v = Some tr.
Definition UnfF (t : types) (i : id) (ft : ftree) : Prop := exists g, unfold_func g t i = Some ft.

Lemma Unf_ext t t' v tr : ext t t' -> Unf t v tr -> Unf t' v tr.
Proof. intros E [g H]. exists g. eapply unfold_vt_ext; eauto. Qed.
Lemma UnfF_ext t t' i ft : ext t t' -> UnfF t i ft -> UnfF t' i ft.
Proof. intros E [g H]. exists g. eapply unfold_func_ext; eauto. Qed.
Lemma Unf_det t v a b : Unf t v a -> Unf t v b -> a = b.
Proof.
  intros [g1 H1] [g2 H2]. apply (unfold_vt_mono g1 (Nat.max g1 g2)) in H1; [|apply Nat.le_max_l].
  apply (unfold_vt_mono g2 (Nat.max g1 g2)) in H2; [|apply Nat.le_max_r]. congruence.
Qed.

(** common fuel for the children *)
Lemma Unf_all t vs trs : Forall2 (Unf t) vs trs -> exists g, all_some (map (unfold_vt g t) vs) = Some trs.
Proof.
  induction 1 as [|v tr vs trs [g1 H1] _ [g2 H2]]; [exists O; reflexivity|].
  exists (Nat.max g1 g2). cbn [map all_some]. rewrite (unfold_vt_mono g1 _ t v tr (Nat.le_max_l g1 g2) H1).
  now rewrite (all_some_map_ext _ (unfold_vt (Nat.max g1 g2) t) _ _ (fun x y => unfold_vt_mono g2 _ t x y (Nat.le_max_r g1 g2)) H2).
Qed.
Definition UnfO (t : types) (o : option valtype) (otr : option vtree) : Prop :=
  match o, otr with Some v, Some tr => Unf t v tr | None, None => True | _, _ => False end.
Lemma UnfO_omap t o otr : UnfO t o otr -> exists g, omap (unfold_vt g t) o = Some otr.
Proof.
  destruct o as [v|], otr as [tr|]; cbn [UnfO]; try contradiction.
  - intros [g H]. exists g. cbn [omap]. now rewrite H.
  - intros _. exists O. reflexivity.
Qed.
Lemma omap_mono g g' t o otr : (g <= g')%nat -> omap (unfold_vt g t) o = Some otr -> omap (unfold_vt g' t) o = Some otr.
Proof. intros L. apply omap_ext. intros x y. now apply unfold_vt_mono. Qed.
Lemma Unf_named t (l : list (str * valtype)) (l' : list (str * vtree)) :
  Forall2 (fun a b => fst a = fst b /\ Unf t (snd a) (snd b)) l l' -> exists g, map_snd (unfold_vt g t) l = Some l'.
Proof.
  unfold map_snd. induction 1 as [|[n v] [n' tr] l l' [En [g1 H1]] _ [g2 H2]]; [exists O; reflexivity|].
  cbn [fst snd] in *. subst n'. exists (Nat.max g1 g2). cbn [map all_some fst snd].
  rewrite (unfold_vt_mono g1 _ t v tr (Nat.le_max_l g1 g2) H1).
  assert (X : all_some (map (fun kv : str * valtype => match unfold_vt (Nat.max g1 g2) t (snd kv) with
                                                       | Some y => Some (fst kv, y) | None => None end) l) = Some l').
  { apply (map_snd_ext (unfold_vt g2 t) (unfold_vt (Nat.max g1 g2) t) l l'); [|exact H2].
    intros x y. apply unfold_vt_mono. apply Nat.le_max_r. }
  now rewrite X.
Qed.
Lemma Unf_named_opt t (l : list (str * option valtype)) (l' : list (str * option vtree)) :
  Forall2 (fun a b => fst a = fst b /\ UnfO t (snd a) (snd b)) l l' -> exists g, map_snd (omap (unfold_vt g t)) l = Some l'.
Proof.
  unfold map_snd. induction 1 as [|[n v] [n' tr] l l' [En Hu] _ [g2 H2]]; [exists O; reflexivity|].
  cbn [fst snd] in *. subst n'. destruct (UnfO_omap _ _ _ Hu) as [g1 H1].
  exists (Nat.max g1 g2). cbn [map all_some fst snd].
  rewrite (omap_mono g1 _ t v tr (Nat.le_max_l g1 g2) H1).
  assert (X : all_some (map (fun kv : str * option valtype => match omap (unfold_vt (Nat.max g1 g2) t) (snd kv) with
                                                              | Some y => Some (fst kv, y) | None => None end) l) = Some l').
  { apply (map_snd_ext (omap (unfold_vt g2 t)) (omap (unfold_vt (Nat.max g1 g2) t)) l l'); [|exact H2].
    intros x y. apply omap_mono. apply Nat.le_max_r. }
  now rewrite X.
Qed.

(** inversion of the list-shaped unfoldings *)
Lemma all_some_map_inv {A B} (U : A -> option B) l l' : all_some (map U l) = Some l' -> Forall2 (fun x y => U x = Some y) l l'.
Proof.
  revert l'. induction l as [|x l IH]; intros l'; cbn [map all_some].
  - intros H. injection H as <-. constructor.
  - destruct (U x) as [y|] eqn:E; [|discriminate]. destruct (all_some (map U l)) as [r|]; [|discriminate].
    intros H. injection H as <-. constructor; auto.
Qed.
Lemma map_snd_inv {K A B} (U : A -> option B) (l : list (K * A)) l' :
  map_snd U l = Some l' -> Forall2 (fun a b => fst a = fst b /\ U (snd a) = Some (snd b)) l l'.
Proof.
  unfold map_snd. revert l'. induction l as [|[k x] l IH]; intros l'; cbn [map all_some fst snd].
  - intros H. injection H as <-. constructor.
  - destruct (U x) as [y|] eqn:E; [|discriminate].
    destruct (all_some (map _ l)) as [r|] eqn:Er; [|discriminate].
    intros H. injection H as <-. constructor; auto.
Qed.
Lemma omap_inv {A B} (U : A -> option B) o o' :
  omap U o = Some o' -> match o, o' with Some x, Some y => U x = Some y | None, None => True | _, _ => False end.
Proof. destruct o as [x|]; cbn [omap]; [destruct (U x); [|discriminate]|]; intros H; injection H as <-; auto. Qed.

Lemma vt_resfree_opt (o : option vtree) :
  match o with Some y => vt_resfree y | None => true end = true -> forall y, o = Some y -> vt_resfree y = true.
Proof. intros H y ->. exact H. Qed.

(** * Monadic inversion *)
Ltac minv H :=
  repeat match type of H with
         | bindM _ _ _ = AOk _ =>
           let x := fresh "x" in let c := fresh "c" in let H1 := fresh "Hm" in
           apply bindM_ok in H as [x [c [H1 H]]]
         end.

Lemma mapM_inv {A B} (Inv : core -> Prop) (Q : A -> B -> core -> Prop) (R : core -> core -> Prop)
      (f : A -> M B) (l : list A) :
  (forall c, R c c) -> (forall a b c, R a b -> R b c -> R a c) ->
  (forall x y (c' c'' : core), Q x y c' -> R c' c'' -> Q x y c'') ->
  (forall x, In x l -> forall c y c', Inv c -> f x c = AOk (y, c') -> Inv c' /\ R c c' /\ Q x y c') ->
  forall c ys c', Inv c -> mapM f l c = AOk (ys, c') ->
                  Inv c' /\ R c c' /\ Forall2 (fun x y => Q x y c') l ys.
Proof.
  intros Rrefl Rtrans Qmono. induction l as [|x l IH]; intros Hf c ys c' I H; cbn [mapM] in H.
  - apply ret_ok in H as [-> ->]. auto.
  - apply bindM_ok in H as [y [c1 [H1 H]]]. apply bindM_ok in H as [ys' [c2 [H2 H]]]. apply ret_ok in H as [-> ->].
    destruct (Hf x (or_introl eq_refl) _ _ _ I H1) as [I1 [R1 Q1]].
    destruct (IH (fun z Hz => Hf z (or_intror Hz)) _ _ _ I1 H2) as [I2 [R2 Q2]].
    split; [exact I2|]. split; [eapply Rtrans; eauto|]. constructor; eauto.
Qed.
Lemma optM_inv {A B} (Inv : core -> Prop) (Q : A -> B -> core -> Prop) (R : core -> core -> Prop)
      (f : A -> M B) (o : option A) :
  (forall c, R c c) ->
  (forall x, o = Some x -> forall c y c', Inv c -> f x c = AOk (y, c') -> Inv c' /\ R c c' /\ Q x y c') ->
  forall c oy c', Inv c -> optM f o c = AOk (oy, c') ->
                  Inv c' /\ R c c' /\ match o, oy with Some x, Some y => Q x y c' | None, None => True | _, _ => False end.
Proof.
  intros Rrefl Hf c oy c' I H. destruct o as [x|]; cbn [optM] in H.
  - apply bindM_ok in H as [y [c1 [H1 H]]]. apply ret_ok in H as [-> ->]. now apply (Hf x eq_refl).
  - apply ret_ok in H as [-> ->]. auto.
Qed.

(** * What a remap leaves unchanged *)
Record Ext (c c' : core) : Prop := {
  x_types : ext (c_types c) (c_types c');
  x_imports : c_imports c' = c_imports c;
  x_ifaces : c_ifaces c' = c_ifaces c;
  x_chk : c_chk c' = c_chk c;
  x_if : t_interfaces (c_types c') = t_interfaces (c_types c);
  x_world : t_worlds (c_types c') = t_worlds (c_types c);
  x_mod : t_modules (c_types c') = t_modules (c_types c);
  x_remapped : forall k v, rm_get k (c_remapped c) = Some v -> rm_get k (c_remapped c') = Some v;
  x_noif : forall i, rm_get (TInterface i) (c_remapped c') = rm_get (TInterface i) (c_remapped c) }.
Lemma Ext_refl c : Ext c c. Proof. split; auto using ext_refl. Qed.
Lemma Ext_trans a b c : Ext a b -> Ext b c -> Ext a c.
Proof. intros [A1 A2 A3 A4 A5 A6 A7 A8 A9] [B1 B2 B3 B4 B5 B6 B7 B8 B9]. split; eauto using ext_trans; congruence. Qed.

Lemma rm_get_ins_same k v l : rm_get k (rm_ins k v l) = Some v.
Proof.
  induction l as [|[k' v'] l IH]; cbn [rm_ins rm_get].
  - assert (ty_eqb k k = true) as -> by now apply tyeqb_eq. reflexivity.
  - destruct (ty_eqb k k') eqn:E; cbn [rm_get]; rewrite E; auto.
Qed.
Lemma rm_get_ins_other k k' v l : k <> k' -> rm_get k' (rm_ins k v l) = rm_get k' l.
Proof.
  intros N. induction l as [|[k2 v2] l IH]; cbn [rm_ins rm_get].
  - destruct (ty_eqb k' k) eqn:E; auto. apply tyeqb_eq in E. congruence.
  - destruct (ty_eqb k k2) eqn:E; cbn [rm_get].
    + apply tyeqb_eq in E. subst k2. destruct (ty_eqb k' k) eqn:E2; auto. apply tyeqb_eq in E2. congruence.
    + now rewrite IH.
Qed.

(** * Soundness of the copy *)
Section Copy.
  Variable ord : list (str * id) -> list (str * id).
  Variable cf : nat.
  (** the contributor collections *)
  Variable Col : types -> Prop.
  Hypothesis Col_same : forall t1 t2, Col t1 -> Col t2 -> t_tag t1 = t_tag t2 -> t1 = t2.

  Definition entry_ok (agg : types) (k k' : ty) : Prop :=
    match k with
    | TValue (VDefined d) =>
      forall v', k' = TValue v' -> forall t g tr, Col t -> unfold_vt g t (VDefined d) = Some tr -> Unf agg v' tr
    | TFunc f =>
      forall f', k' = TFunc f' -> forall t g ft, Col t -> unfold_func g t f = Some ft -> UnfF agg f' ft
    | _ => True
    end.
  Definition RInv (c : core) : Prop := forall k k', rm_get k (c_remapped c) = Some k' -> entry_ok (c_types c) k k'.

  Lemma entry_ok_ext agg agg' k k' : ext agg agg' -> entry_ok agg k k' -> entry_ok agg' k k'.
  Proof.
    intros E. destruct k as [r|f|[p|r|r|d]|i|w|m]; cbn [entry_ok]; auto.
    - intros H f' -> t g ft Ct Hu. eapply UnfF_ext; eauto.
    - intros H v' -> t g tr Ct Hu. eapply Unf_ext; eauto.
  Qed.

  Variable t : types.
  Hypothesis Ct : Col t.

  Lemma unfold_vt_tag_def g d tr : unfold_vt g t (VDefined d) = Some tr -> id_tag d = t_tag t.
  Proof.
    destruct g as [|g]; [discriminate|]. rewrite unfold_vt_eq. cbn [unfold_vt_body].
    destruct (get_def t d) eqn:E; [|discriminate]. intros _. unfold get_def in E. now apply lookup_tag in E.
  Qed.

  (** adding the entry for a freshly copied defined type *)
  Lemma RInv_new_def c y d tr x' :
    RInv c -> (exists g, unfold_vt g t (VDefined d) = Some tr) ->
    Unf (t_with_defined (c_types c) (t_defined (c_types c) ++ [x'])) (VDefined y) tr ->
    RInv (with_remapped (with_types c (t_with_defined (c_types c) (t_defined (c_types c) ++ [x'])))
                        (rm_ins (TValue (VDefined d)) (TValue (VDefined y)) (c_remapped c))).
  Proof.
    intros I [g0 Hd] Hy k k' Hk. cbn [c_remapped c_types with_remapped with_types] in *.
    assert (E : ext (c_types c) (t_with_defined (c_types c) (t_defined (c_types c) ++ [x']))).
    { split; cbn; auto using prefix_refl, prefix_app. }
    destruct (ty_eqb (TValue (VDefined d)) k) eqn:Ek.
    - apply tyeqb_eq in Ek. subst k. rewrite rm_get_ins_same in Hk. injection Hk as <-.
      cbn [entry_ok]. intros v' Ev t2 g tr2 Ct2 Hu. injection Ev as <-.
      assert (t2 = t) as ->.
      { apply Col_same; auto. destruct g as [|g]; [discriminate|]. rewrite unfold_vt_eq in Hu. cbn [unfold_vt_body] in Hu.
        destruct (get_def t2 d) eqn:E2; [|discriminate]. unfold get_def in E2. apply lookup_tag in E2.
        apply unfold_vt_tag_def in Hd. congruence. }
      assert (tr2 = tr) as -> by (eapply Unf_det; eexists; eauto). exact Hy.
    - assert (TValue (VDefined d) <> k) by (intro X; apply tyeqb_eq in X; congruence).
      rewrite rm_get_ins_other in Hk by auto. eapply entry_ok_ext; eauto.
  Qed.

  Definition vt_stmt (F : nat) : Prop :=
    forall g v tr c v' c', RInv c -> unfold_vt g t v = Some tr -> vt_resfree tr = true ->
      remap_value_type ord cf F t v c = AOk (v', c') -> Unf (c_types c') v' tr /\ Ext c c' /\ RInv c'.
  Definition def_stmt (F : nat) : Prop :=
    forall g d tr c y c', RInv c -> unfold_vt g t (VDefined d) = Some tr -> vt_resfree tr = true ->
      remap_defined_type ord cf F t d c = AOk (y, c') -> Unf (c_types c') (VDefined y) tr /\ Ext c c' /\ RInv c'.

  (** the four child shapes, given soundness on the children *)
  Section Shapes.
    Variable F : nat.
    Hypothesis HV : vt_stmt F.
    Notation V := (remap_value_type ord cf F t).

    Lemma Unf_mono_c c c' v tr : Ext c c' -> Unf (c_types c) v tr -> Unf (c_types c') v tr.
    Proof. intros E. apply Unf_ext, E. Qed.

    Lemma shape_list g l trs c l' c' :
      RInv c -> all_some (map (unfold_vt g t) l) = Some trs -> forallb vt_resfree trs = true ->
      mapM V l c = AOk (l', c') -> Forall2 (Unf (c_types c')) l' trs /\ Ext c c' /\ RInv c'.
    Proof.
      intros I Hu Hr H. apply all_some_map_inv in Hu. revert trs Hu Hr c l' c' I H.
      induction l as [|v l IH]; intros trs Hu Hr c l' c' I H; inversion Hu as [|? tr ? trs' Hv Hl]; subst; cbn [mapM] in H.
      - apply ret_ok in H as [-> ->]. auto using Ext_refl.
      - cbn [forallb] in Hr. apply andb_true_iff in Hr as [Hr1 Hr2].
        apply bindM_ok in H as [y [c1 [H1 H]]]. apply bindM_ok in H as [ys [c2 [H2 H]]]. apply ret_ok in H as [-> ->].
        destruct (HV _ _ _ _ _ _ I Hv Hr1 H1) as [U1 [E1 I1]].
        destruct (IH _ Hl Hr2 _ _ _ I1 H2) as [U2 [E2 I2]].
        split; [|split; [eapply Ext_trans; eauto | exact I2]]. constructor; auto. eapply Unf_mono_c; eauto.
    Qed.

    Lemma shape_opt g o otr c o' c' :
      RInv c -> omap (unfold_vt g t) o = Some otr -> match otr with Some y => vt_resfree y | None => true end = true ->
      optM V o c = AOk (o', c') -> UnfO (c_types c') o' otr /\ Ext c c' /\ RInv c'.
    Proof.
      intros I Hu Hr H. apply omap_inv in Hu. destruct o as [v|], otr as [tr|]; try contradiction; cbn [optM] in H.
      - apply bindM_ok in H as [y [c1 [H1 H]]]. apply ret_ok in H as [-> ->].
        destruct (HV _ _ _ _ _ _ I Hu Hr H1) as [U1 [E1 I1]]. cbn [UnfO]. auto.
      - apply ret_ok in H as [-> ->]. cbn [UnfO]. auto using Ext_refl.
    Qed.

    Lemma shape_named g (l : list (str * valtype)) trs c l' c' :
      RInv c -> map_snd (unfold_vt g t) l = Some trs -> forallb (fun kv => vt_resfree (snd kv)) trs = true ->
      mapM (fun nv : str * valtype => v' <-- V (snd nv) ;;; ret (fst nv, v')) l c = AOk (l', c') ->
      Forall2 (fun a b => fst a = fst b /\ Unf (c_types c') (snd a) (snd b)) l' trs /\ Ext c c' /\ RInv c'.
    Proof.
      intros I Hu Hr H. apply map_snd_inv in Hu. revert trs Hu Hr c l' c' I H.
      induction l as [|[n v] l IH]; intros trs Hu Hr c l' c' I H; inversion Hu as [|? [n' tr] ? trs' [En Hv] Hl]; subst; cbn [mapM] in H.
      - apply ret_ok in H as [-> ->]. auto using Ext_refl.
      - cbn [forallb fst snd] in *. apply andb_true_iff in Hr as [Hr1 Hr2].
        apply bindM_ok in H as [y [c1 [H1 H]]]. apply bindM_ok in H as [ys [c2 [H2 H]]]. apply ret_ok in H as [-> ->].
        apply bindM_ok in H1 as [v1 [c0 [H0 H1]]]. apply ret_ok in H1 as [-> ->].
        destruct (HV _ _ _ _ _ _ I Hv Hr1 H0) as [U1 [E1 I1]].
        destruct (IH _ Hl Hr2 _ _ _ I1 H2) as [U2 [E2 I2]].
        split; [|split; [eapply Ext_trans; eauto | exact I2]]. constructor; auto. cbn [fst snd]. split; auto.
        eapply Unf_mono_c; eauto.
    Qed.

    Lemma UnfO_mono_c c c' o otr : Ext c c' -> UnfO (c_types c) o otr -> UnfO (c_types c') o otr.
    Proof. intros E. destruct o, otr; cbn [UnfO]; auto. now apply Unf_mono_c. Qed.

    Lemma shape_named_opt g (l : list (str * option valtype)) trs c l' c' :
      RInv c -> map_snd (omap (unfold_vt g t)) l = Some trs ->
      forallb (fun kv : str * option vtree => match snd kv with Some y => vt_resfree y | None => true end) trs = true ->
      mapM (fun nv : str * option valtype => v' <-- optM V (snd nv) ;;; ret (fst nv, v')) l c = AOk (l', c') ->
      Forall2 (fun a b => fst a = fst b /\ UnfO (c_types c') (snd a) (snd b)) l' trs /\ Ext c c' /\ RInv c'.
    Proof.
      intros I Hu Hr H. apply map_snd_inv in Hu. revert trs Hu Hr c l' c' I H.
      induction l as [|[n v] l IH]; intros trs Hu Hr c l' c' I H; inversion Hu as [|? [n' tr] ? trs' [En Hv] Hl]; subst; cbn [mapM] in H.
      - apply ret_ok in H as [-> ->]. auto using Ext_refl.
      - cbn [forallb fst snd] in *. apply andb_true_iff in Hr as [Hr1 Hr2].
        apply bindM_ok in H as [y [c1 [H1 H]]]. apply bindM_ok in H as [ys [c2 [H2 H]]]. apply ret_ok in H as [-> ->].
        apply bindM_ok in H1 as [v1 [c0 [H0 H1]]]. apply ret_ok in H1 as [-> ->].
        destruct (shape_opt _ _ _ _ _ _ I Hv Hr1 H0) as [U1 [E1 I1]].
        destruct (IH _ Hl Hr2 _ _ _ I1 H2) as [U2 [E2 I2]].
        split; [|split; [eapply Ext_trans; eauto | exact I2]]. constructor; auto. cbn [fst snd]. split; auto.
        eapply UnfO_mono_c; eauto.
    Qed.
  End Shapes.

  Lemma UnfO2 agg o e a b : UnfO agg o a -> UnfO agg e b ->
    exists g, omap (unfold_vt g agg) o = Some a /\ omap (unfold_vt g agg) e = Some b.
  Proof.
    intros H1 H2. destruct (UnfO_omap _ _ _ H1) as [g1 E1]. destruct (UnfO_omap _ _ _ H2) as [g2 E2].
    exists (Nat.max g1 g2). split; [eapply omap_mono; [apply Nat.le_max_l|eauto] | eapply omap_mono; [apply Nat.le_max_r|eauto]].
  Qed.

  Lemma Unf_body agg y tr :
    (exists g, unfold_vt_body (unfold_vt g agg) (res_name_of (S g) agg) agg (VDefined y) = Some tr) -> Unf agg (VDefined y) tr.
  Proof. intros [g H]. exists (S g). now rewrite unfold_vt_eq. Qed.

  (** after the children: allocate the node, record the mapping *)
  Lemma finish_def c1 x' d tr y c' :
    RInv c1 -> (exists g, unfold_vt g t (VDefined d) = Some tr) ->
    (forall agg' y0, ext (c_types c1) agg' -> get_def agg' y0 = Some x' -> Unf agg' (VDefined y0) tr) ->
    (y <-- add_def x' ;;; remapped_new (TValue (VDefined d)) (TValue (VDefined y)) ;;; ret y) c1 = AOk (y, c') ->
    Unf (c_types c') (VDefined y) tr /\ Ext c1 c' /\ RInv c'.
  Proof.
    intros I Hd Hnode H. apply bindM_ok in H as [y0 [c2 [H1 H]]]. apply bindM_ok in H as [u [c3 [H2 H]]].
    apply ret_ok in H as [<- ->]. unfold add_def in H1. injection H1 as <- <-.
    unfold remapped_new in H2. cbn [c_remapped with_types] in H2.
    destruct (rm_get (TValue (VDefined d)) (c_remapped c1)) eqn:Eg; [discriminate|]. injection H2 as H2. subst c3.
    set (agg' := t_with_defined (c_types c1) (t_defined (c_types c1) ++ [x'])) in *.
    assert (E : ext (c_types c1) agg') by (split; cbn; auto using prefix_refl, prefix_app).
    assert (Hy : Unf agg' (VDefined (mkid (t_tag (c_types c1)) (length (t_defined (c_types c1))))) tr).
    { apply Hnode; auto. unfold get_def, agg'. cbn [t_tag t_defined t_with_defined]. apply lookup_new. }
    split; [exact Hy|]. split.
    - split; cbn [c_types c_imports c_ifaces c_chk c_remapped with_remapped with_types]; auto.
      + intros k v Hk. destruct (ty_eqb (TValue (VDefined d)) k) eqn:Ek.
        * apply tyeqb_eq in Ek. subst k. congruence.
        * rewrite rm_get_ins_other; auto. intro X. apply tyeqb_eq in X. congruence.
      + intros i. apply rm_get_ins_other. discriminate.
    - apply RInv_new_def with (tr := tr); auto.
  Qed.

  Ltac mk_node H :=
    match type of H with
    | bindM (add_def ?x') _ ?c1 = _ =>
      match goal with
      | |- Unf _ _ ?tr /\ _ =>
        assert (Hn : forall agg' y0, ext (c_types c1) agg' -> get_def agg' y0 = Some x' -> Unf agg' (VDefined y0) tr)
      end
    end.

  Lemma copy_sound : forall F, vt_stmt F /\ def_stmt F.
  Proof.
    induction F as [|F [IHv IHd]].
    - split; intros g v tr c v' c' I Hu Hr H; discriminate.
    - assert (HV : vt_stmt (S F)).
      { intros g v tr c v' c' I Hu Hr H. cbn [remap_value_type] in H. destruct v as [p|r|r|d].
        - apply ret_ok in H as [-> ->]. destruct g as [|g]; [discriminate|]. cbn in Hu. injection Hu as <-.
          split; [exists 1%nat; reflexivity | auto using Ext_refl].
        - exfalso. destruct g as [|g]; [discriminate|]. rewrite unfold_vt_eq in Hu. cbn [unfold_vt_body] in Hu.
          destruct (res_name_of (S g) t r); [|discriminate]. injection Hu as <-. discriminate.
        - exfalso. destruct g as [|g]; [discriminate|]. rewrite unfold_vt_eq in Hu. cbn [unfold_vt_body] in Hu.
          destruct (res_name_of (S g) t r); [|discriminate]. injection Hu as <-. discriminate.
        - apply bindM_ok in H as [y [c1 [H1 H]]]. apply ret_ok in H as [-> ->]. exact (IHd _ _ _ _ _ _ I Hu Hr H1). }
      split; [exact HV|].
      intros g d tr c y c' I Hu Hr H. cbn [remap_defined_type] in H.
      apply bindM_ok in H as [hit [c0 [H0 H]]]. unfold remapped_get in H0. injection H0 as <- <-.
      destruct (rm_get (TValue (VDefined d)) (c_remapped c)) as [k'|] eqn:Eg.
      { (* already copied *)
        destruct k' as [| |[| | |y0]| | |]; try discriminate H. apply ret_ok in H as [-> ->].
        split; [|auto using Ext_refl]. exact (I _ _ Eg _ eq_refl t g tr Ct Hu). }
      apply bindM_ok in H as [x [c0 [H0 H]]].
      destruct (get_def t d) as [x0|] eqn:Ed; cbn [idxM] in H0; [|discriminate]. apply ret_ok in H0 as [-> ->].
      apply bindM_ok in H as [x' [c1 [H1 H]]].
      assert (Hd : exists g, unfold_vt g t (VDefined d) = Some tr) by eauto.
      destruct g as [|g]; [discriminate|]. rewrite unfold_vt_eq in Hu. cbn [unfold_vt_body] in Hu. rewrite Ed in Hu.
      destruct x0 as [l|v|v n|v|o e|cs|fs|fl|el|v|o|o].
      + (* tuple *)
        destruct (all_some (map (unfold_vt g t) l)) as [trs|] eqn:El; [|discriminate]. injection Hu as <-.
        apply bindM_ok in H1 as [l' [c2 [H1 H2]]]. apply ret_ok in H2 as [-> ->].
        destruct (shape_list F IHv _ _ _ _ _ _ I El Hr H1) as [U1 [E1 I1]].
        mk_node H.
        { intros agg' y0 Ea Hg. apply Unf_body.
          destruct (Unf_all agg' l' trs) as [g1 Hg1]; [eapply Forall2_impl; [|exact U1]; intros; eapply Unf_ext; eauto|].
          exists g1. cbn [unfold_vt_body]. rewrite Hg, Hg1. reflexivity. }
        destruct (finish_def _ _ _ _ _ _ I1 Hd Hn H) as [U2 [E2 I2]].
        split; [exact U2|]. split; [eapply Ext_trans; eauto | exact I2].
      + (* list *)
        destruct (unfold_vt g t v) as [trc|] eqn:Ev; [|discriminate]. injection Hu as <-.
        apply bindM_ok in H1 as [v' [c2 [H1 H2]]]. apply ret_ok in H2 as [-> ->].
        destruct (IHv _ _ _ _ _ _ I Ev Hr H1) as [U1 [E1 I1]].
        mk_node H.
        { intros agg' y0 Ea Hg. apply Unf_body. destruct (Unf_ext _ _ _ _ Ea U1) as [g1 Hg1].
          exists g1. cbn [unfold_vt_body]. rewrite Hg, Hg1. reflexivity. }
        destruct (finish_def _ _ _ _ _ _ I1 Hd Hn H) as [U2 [E2 I2]].
        split; [exact U2|]. split; [eapply Ext_trans; eauto | exact I2].
      + (* fixed size list *)
        destruct (unfold_vt g t v) as [trc|] eqn:Ev; [|discriminate]. injection Hu as <-.
        apply bindM_ok in H1 as [v' [c2 [H1 H2]]]. apply ret_ok in H2 as [-> ->].
        destruct (IHv _ _ _ _ _ _ I Ev Hr H1) as [U1 [E1 I1]].
        mk_node H.
        { intros agg' y0 Ea Hg. apply Unf_body. destruct (Unf_ext _ _ _ _ Ea U1) as [g1 Hg1].
          exists g1. cbn [unfold_vt_body]. rewrite Hg, Hg1. reflexivity. }
        destruct (finish_def _ _ _ _ _ _ I1 Hd Hn H) as [U2 [E2 I2]].
        split; [exact U2|]. split; [eapply Ext_trans; eauto | exact I2].
      + (* option *)
        destruct (unfold_vt g t v) as [trc|] eqn:Ev; [|discriminate]. injection Hu as <-.
        apply bindM_ok in H1 as [v' [c2 [H1 H2]]]. apply ret_ok in H2 as [-> ->].
        destruct (IHv _ _ _ _ _ _ I Ev Hr H1) as [U1 [E1 I1]].
        mk_node H.
        { intros agg' y0 Ea Hg. apply Unf_body. destruct (Unf_ext _ _ _ _ Ea U1) as [g1 Hg1].
          exists g1. cbn [unfold_vt_body]. rewrite Hg, Hg1. reflexivity. }
        destruct (finish_def _ _ _ _ _ _ I1 Hd Hn H) as [U2 [E2 I2]].
        split; [exact U2|]. split; [eapply Ext_trans; eauto | exact I2].
      + (* result *)
        destruct (omap (unfold_vt g t) o) as [tro|] eqn:Eo; [|discriminate].
        destruct (omap (unfold_vt g t) e) as [tre|] eqn:Ee; [|discriminate]. injection Hu as <-.
        cbn [vt_resfree] in Hr. apply andb_true_iff in Hr as [Hr1 Hr2].
        apply bindM_ok in H1 as [o' [c2 [H1 H2]]]. apply bindM_ok in H2 as [e' [c3 [H2 H3]]]. apply ret_ok in H3 as [-> ->].
        destruct (shape_opt F IHv _ _ _ _ _ _ I Eo Hr1 H1) as [U1 [E1 I1]].
        destruct (shape_opt F IHv _ _ _ _ _ _ I1 Ee Hr2 H2) as [U2 [E2 I2]].
        mk_node H.
        { intros agg' y0 Ea Hg. apply Unf_body.
          destruct (UnfO2 agg' o' e' tro tre) as [g1 [G1 G2]].
          { destruct o', tro; cbn [UnfO] in *; auto. eapply Unf_ext; [exact Ea|]. eapply Unf_ext; [apply E2|]. exact U1. }
          { destruct e', tre; cbn [UnfO] in *; auto. eapply Unf_ext; eauto. }
          exists g1. cbn [unfold_vt_body]. rewrite Hg, G1, G2. reflexivity. }
        destruct (finish_def _ _ _ _ _ _ I2 Hd Hn H) as [U3 [E3 I3]].
        split; [exact U3|]. split; [eapply Ext_trans; [eapply Ext_trans|]; eauto | exact I3].
      + (* variant *)
        destruct (map_snd (omap (unfold_vt g t)) cs) as [trs|] eqn:El; [|discriminate]. injection Hu as <-.
        apply bindM_ok in H1 as [l' [c2 [H1 H2]]]. apply ret_ok in H2 as [-> ->].
        destruct (shape_named_opt F IHv _ _ _ _ _ _ I El Hr H1) as [U1 [E1 I1]].
        mk_node H.
        { intros agg' y0 Ea Hg. apply Unf_body.
          destruct (Unf_named_opt agg' l' trs) as [g1 Hg1].
          { eapply Forall2_impl; [|exact U1]. intros a b [Hn Hab]. split; auto.
            destruct (snd a), (snd b); cbn [UnfO] in *; auto. eapply Unf_ext; eauto. }
          exists g1. cbn [unfold_vt_body]. rewrite Hg, Hg1. reflexivity. }
        destruct (finish_def _ _ _ _ _ _ I1 Hd Hn H) as [U2 [E2 I2]].
        split; [exact U2|]. split; [eapply Ext_trans; eauto | exact I2].
      + (* record *)
        destruct (map_snd (unfold_vt g t) fs) as [trs|] eqn:El; [|discriminate]. injection Hu as <-.
        apply bindM_ok in H1 as [l' [c2 [H1 H2]]]. apply ret_ok in H2 as [-> ->].
        destruct (shape_named F IHv _ _ _ _ _ _ I El Hr H1) as [U1 [E1 I1]].
        mk_node H.
        { intros agg' y0 Ea Hg. apply Unf_body.
          destruct (Unf_named agg' l' trs) as [g1 Hg1].
          { eapply Forall2_impl; [|exact U1]. intros a b [Hn Hab]. split; auto. eapply Unf_ext; eauto. }
          exists g1. cbn [unfold_vt_body]. rewrite Hg, Hg1. reflexivity. }
        destruct (finish_def _ _ _ _ _ _ I1 Hd Hn H) as [U2 [E2 I2]].
        split; [exact U2|]. split; [eapply Ext_trans; eauto | exact I2].
      + (* flags *)
        injection Hu as <-. apply ret_ok in H1 as [-> ->].
        mk_node H.
        { intros agg' y0 Ea Hg. apply Unf_body. exists O. cbn [unfold_vt_body]. now rewrite Hg. }
        destruct (finish_def _ _ _ _ _ _ I Hd Hn H) as [U2 [E2 I2]]; auto.
      + (* enum *)
        injection Hu as <-. apply ret_ok in H1 as [-> ->].
        mk_node H.
        { intros agg' y0 Ea Hg. apply Unf_body. exists O. cbn [unfold_vt_body]. now rewrite Hg. }
        destruct (finish_def _ _ _ _ _ _ I Hd Hn H) as [U2 [E2 I2]]; auto.
      + (* alias *)
        apply bindM_ok in H1 as [v' [c2 [H1 H2]]]. apply ret_ok in H2 as [-> ->].
        destruct (IHv _ _ _ _ _ _ I Hu Hr H1) as [U1 [E1 I1]].
        mk_node H.
        { intros agg' y0 Ea Hg. apply Unf_body. destruct (Unf_ext _ _ _ _ Ea U1) as [g1 Hg1].
          exists g1. cbn [unfold_vt_body]. rewrite Hg. exact Hg1. }
        destruct (finish_def _ _ _ _ _ _ I1 Hd Hn H) as [U2 [E2 I2]].
        split; [exact U2|]. split; [eapply Ext_trans; eauto | exact I2].
      + (* stream *)
        destruct (omap (unfold_vt g t) o) as [tro|] eqn:Eo; [|discriminate]. injection Hu as <-.
        apply bindM_ok in H1 as [o' [c2 [H1 H2]]]. apply ret_ok in H2 as [-> ->].
        destruct (shape_opt F IHv _ _ _ _ _ _ I Eo Hr H1) as [U1 [E1 I1]].
        mk_node H.
        { intros agg' y0 Ea Hg. apply Unf_body.
          destruct (UnfO_omap agg' o' tro) as [g1 G1].
          { destruct o', tro; cbn [UnfO] in *; auto. eapply Unf_ext; eauto. }
          exists g1. cbn [unfold_vt_body]. rewrite Hg, G1. reflexivity. }
        destruct (finish_def _ _ _ _ _ _ I1 Hd Hn H) as [U2 [E2 I2]].
        split; [exact U2|]. split; [eapply Ext_trans; eauto | exact I2].
      + (* future *)
        destruct (omap (unfold_vt g t) o) as [tro|] eqn:Eo; [|discriminate]. injection Hu as <-.
        apply bindM_ok in H1 as [o' [c2 [H1 H2]]]. apply ret_ok in H2 as [-> ->].
        destruct (shape_opt F IHv _ _ _ _ _ _ I Eo Hr H1) as [U1 [E1 I1]].
        mk_node H.
        { intros agg' y0 Ea Hg. apply Unf_body.
          destruct (UnfO_omap agg' o' tro) as [g1 G1].
          { destruct o', tro; cbn [UnfO] in *; auto. eapply Unf_ext; eauto. }
          exists g1. cbn [unfold_vt_body]. rewrite Hg, G1. reflexivity. }
        destruct (finish_def _ _ _ _ _ _ I1 Hd Hn H) as [U2 [E2 I2]].
        split; [exact U2|]. split; [eapply Ext_trans; eauto | exact I2].
  Qed.

  (** ** Function types *)
  Lemma unfold_func_tag g i ft : unfold_func g t i = Some ft -> id_tag i = t_tag t.
  Proof.
    unfold unfold_func. destruct (get_func t i) eqn:E; [|discriminate]. intros _. unfold get_func in E. now apply lookup_tag in E.
  Qed.
  Lemma UnfF_det agg i a b : UnfF agg i a -> UnfF agg i b -> a = b.
  Proof.
    intros [g1 H1] [g2 H2]. apply (unfold_func_mono g1 (Nat.max g1 g2)) in H1; [|apply Nat.le_max_l].
    apply (unfold_func_mono g2 (Nat.max g1 g2)) in H2; [|apply Nat.le_max_r]. congruence.
  Qed.

  Lemma RInv_new_func c y i ft x' :
    RInv c -> (exists g, unfold_func g t i = Some ft) ->
    UnfF (t_with_funcs (c_types c) (t_funcs (c_types c) ++ [x'])) y ft ->
    RInv (with_remapped (with_types c (t_with_funcs (c_types c) (t_funcs (c_types c) ++ [x'])))
                        (rm_ins (TFunc i) (TFunc y) (c_remapped c))).
  Proof.
    intros I [g0 Hd] Hy k k' Hk. cbn [c_remapped c_types with_remapped with_types] in *.
    assert (E : ext (c_types c) (t_with_funcs (c_types c) (t_funcs (c_types c) ++ [x']))).
    { split; cbn; auto using prefix_refl, prefix_app. }
    destruct (ty_eqb (TFunc i) k) eqn:Ek.
    - apply tyeqb_eq in Ek. subst k. rewrite rm_get_ins_same in Hk. injection Hk as <-.
      cbn [entry_ok]. intros f' Ev t2 g ft2 Ct2 Hu. injection Ev as <-.
      assert (t2 = t) as ->.
      { apply Col_same; auto. unfold unfold_func in Hu. destruct (get_func t2 i) eqn:E2; [|discriminate].
        unfold get_func in E2. apply lookup_tag in E2. apply unfold_func_tag in Hd. congruence. }
      assert (ft2 = ft) as -> by (eapply UnfF_det; eexists; eauto). exact Hy.
    - assert (TFunc i <> k) by (intro X; apply tyeqb_eq in X; congruence).
      rewrite rm_get_ins_other in Hk by auto. eapply entry_ok_ext; eauto.
  Qed.

  Lemma func_sound F : forall g i ft c y c', RInv c -> unfold_func g t i = Some ft -> ft_resfree ft = true ->
    remap_func_type ord cf F t i c = AOk (y, c') -> UnfF (c_types c') y ft /\ Ext c c' /\ RInv c'.
  Proof.
    destruct F as [|F]; intros g i ft c y c' I Hu Hr H; [discriminate|]. destruct (copy_sound F) as [HV _].
    cbn [remap_func_type] in H.
    apply bindM_ok in H as [hit [c0 [H0 H]]]. unfold remapped_get in H0. injection H0 as <- <-.
    destruct (rm_get (TFunc i) (c_remapped c)) as [k'|] eqn:Eg.
    { destruct k' as [|y0| | | |]; try discriminate H. apply ret_ok in H as [-> ->].
      split; [|auto using Ext_refl]. exact (I _ _ Eg _ eq_refl t g ft Ct Hu). }
    assert (Hd : exists g, unfold_func g t i = Some ft) by eauto.
    unfold unfold_func in Hu. destruct (get_func t i) as [x0|] eqn:Ef; [|discriminate].
    destruct (map_snd (unfold_vt g t) (f_params x0)) as [ps|] eqn:Ep; [|discriminate].
    destruct (omap (unfold_vt g t) (f_result x0)) as [r|] eqn:Er; [|discriminate]. injection Hu as <-.
    unfold ft_resfree in Hr. cbn [ft_params ft_result] in Hr. apply andb_true_iff in Hr as [Hr1 Hr2].
    apply bindM_ok in H as [x [c0 [H0 H]]]. cbn [idxM] in H0. apply ret_ok in H0 as [-> ->].
    apply bindM_ok in H as [ps' [c1 [H1 H]]]. apply bindM_ok in H as [r' [c2 [H2 H]]].
    destruct (shape_named F HV _ _ _ _ _ _ I Ep Hr1 H1) as [U1 [E1 I1]].
    destruct (shape_opt F HV _ _ _ _ _ _ I1 Er Hr2 H2) as [U2 [E2 I2]].
    apply bindM_ok in H as [y0 [c3 [H3 H]]]. apply bindM_ok in H as [u [c4 [H4 H]]]. apply ret_ok in H as [<- ->].
    unfold add_func in H3. injection H3 as <- <-. unfold remapped_new in H4. cbn [c_remapped with_types] in H4.
    destruct (rm_get (TFunc i) (c_remapped c2)) eqn:Eg2; [discriminate|]. injection H4 as H4. subst c4.
    set (x' := {| f_params := ps'; f_result := r'; f_async := f_async x0 |}) in *.
    set (agg' := t_with_funcs (c_types c2) (t_funcs (c_types c2) ++ [x'])) in *.
    assert (E : ext (c_types c2) agg') by (split; cbn; auto using prefix_refl, prefix_app).
    assert (Hy : UnfF agg' (mkid (t_tag (c_types c2)) (length (t_funcs (c_types c2)))) (mkft ps r (f_async x0))).
    { destruct (Unf_named agg' ps' ps) as [g1 G1].
      { eapply Forall2_impl; [|exact U1]. intros a b [Hn Hab]. split; auto. eapply Unf_ext; [exact E|]. eapply Unf_ext; [apply E2|]. exact Hab. }
      destruct (UnfO_omap agg' r' r) as [g2 G2].
      { destruct r', r; cbn [UnfO] in *; auto. eapply Unf_ext; eauto. }
      exists (Nat.max g1 g2). unfold unfold_func.
      assert (Hg : get_func agg' (mkid (t_tag (c_types c2)) (length (t_funcs (c_types c2)))) = Some x').
      { unfold get_func, agg'. cbn [t_tag t_funcs t_with_funcs]. apply lookup_new. }
      rewrite Hg. cbn [f_params f_result f_async x'].
      rewrite (map_snd_ext _ (unfold_vt (Nat.max g1 g2) agg') _ _ (fun a b => unfold_vt_mono g1 _ agg' a b (Nat.le_max_l g1 g2)) G1).
      rewrite (omap_mono g2 _ agg' _ _ (Nat.le_max_r g1 g2) G2). reflexivity. }
    split; [exact Hy|]. split.
    - eapply Ext_trans; [exact E1|]. eapply Ext_trans; [exact E2|].
      split; cbn [c_types c_imports c_ifaces c_chk c_remapped with_remapped with_types]; auto.
      + intros k v Hk. destruct (ty_eqb (TFunc i) k) eqn:Ek.
        * apply tyeqb_eq in Ek. subst k. congruence.
        * rewrite rm_get_ins_other; auto. intro X. apply tyeqb_eq in X. congruence.
      + intros i0. apply rm_get_ins_other. discriminate.
    - apply RInv_new_func with (ft := mkft ps r (f_async x0)); auto.
  Qed.

  (** ** Leaf kinds: functions, values, value types *)
  Definition leafk (k : kind) : bool :=
    match k with KFunc _ | KValue _ | KType (TValue _) => true | _ => false end.
  Definition UnfK (agg : types) (k : kind) (tr : tree) : Prop := exists g, unfold g agg k = Some tr.

  Lemma leaf_sound F k tr c k' c' :
    leafk k = true -> RInv c -> UnfK t k tr -> resfree tr = true ->
    remap_item_kind ord cf F t k c = AOk (k', c') ->
    UnfK (c_types c') k' tr /\ Ext c c' /\ RInv c' /\ leafk k' = true.
  Proof.
    intros Hl I [g Hu] Hr H. destruct F as [|F]; [discriminate|]. cbn [remap_item_kind] in H.
    destruct g as [|g]; [discriminate|]. cbn [unfold] in Hu.
    destruct k as [[| |v| | |]|i| | | |v]; try discriminate Hl.
    - (* type (value) *)
      apply bindM_ok in H as [y [c1 [H1 H]]]. apply ret_ok in H as [-> ->].
      destruct F as [|F]; [discriminate|]. cbn [remap_type] in H1.
      apply bindM_ok in H1 as [v' [c2 [H1 H2]]]. apply ret_ok in H2 as [-> ->].
      destruct (unfold_vt (S g) t v) as [vt|] eqn:Ev; [|discriminate]. injection Hu as <-. cbn [resfree] in Hr.
      destruct (copy_sound F) as [HV _]. destruct (HV _ _ _ _ _ _ I Ev Hr H1) as [[g1 U1] [E1 I1]].
      split; [|auto]. exists (S g1). cbn [unfold]. now rewrite (unfold_vt_S _ _ _ _ U1).
    - (* function *)
      apply bindM_ok in H as [y [c1 [H1 H]]]. apply ret_ok in H as [-> ->].
      destruct (unfold_func (S g) t i) as [ft|] eqn:Ef; [|discriminate]. injection Hu as <-. cbn [resfree] in Hr.
      destruct (func_sound _ _ _ _ _ _ _ I Ef Hr H1) as [[g1 U1] [E1 I1]].
      split; [|auto]. exists (S g1). cbn [unfold]. now rewrite (unfold_func_S _ _ _ _ U1).
    - (* value *)
      apply bindM_ok in H as [y [c1 [H1 H]]]. apply ret_ok in H as [-> ->].
      destruct (unfold_vt (S g) t v) as [vt|] eqn:Ev; [|discriminate]. injection Hu as <-. cbn [resfree] in Hr.
      destruct (copy_sound F) as [HV _]. destruct (HV _ _ _ _ _ _ I Ev Hr H1) as [[g1 U1] [E1 I1]].
      split; [|auto]. exists (S g1). cbn [unfold]. now rewrite (unfold_vt_S _ _ _ _ U1).
  Qed.
End Copy.
