(** C04 proofs, part 8: every graph the resolver builds is reachable by [Graph.step]s from the empty
    graph, hence satisfies the C06 invariant; the arguments of a new instantiation are exactly the
    entries of its argument table. *)
From Coq Require Import List Arith Bool NArith Lia.
From WacV Require Import Str Token Lexer Semver Names Ast Graph Resolver LangSpec ResolverProofs ResolverNew
  ResolverStmts GraphInv GraphTheorems GraphQueries.
Import ListNotations.
Local Open Scope nat_scope.

Section Pres.
  Variable u : runiverse.
  Variable self_name : str.
  (** a property of graphs that every graph operation preserves *)
  Variable P : gstate -> Prop.
  Hypothesis Pstep : forall g o, P g -> P (fst (step u g o)).

  Definition mpres {A} (m : M A) : Prop :=
    forall st x st', m st = inl (x, st') -> P (rs_g st) -> P (rs_g st').

  Lemma mpres_ret {A} (a : A) : mpres (ret a).
  Proof. intros st x st' H HP. apply ret_inl in H as [_ ->]. exact HP. Qed.
  Lemma mpres_err {A} e : mpres (@err A e).
  Proof. intros st x st' H. discriminate. Qed.
  Lemma mpres_panic {A} p : mpres (@panic A p).
  Proof. intros st x st' H. discriminate. Qed.
  Lemma mpres_unsupp {A} w : mpres (@unsupp A w).
  Proof. intros st x st' H. discriminate. Qed.
  Lemma mpres_fail {A} f : mpres (fun _ : rstate => @inr (A * rstate) fail f).
  Proof. intros st x st' H. discriminate. Qed.
  Lemma mpres_get_g : mpres get_g.
  Proof. intros st x st' H HP. apply get_g_inl in H as [_ ->]. exact HP. Qed.
  Lemma mpres_get_scope : mpres get_scope.
  Proof. intros st x st' H HP. apply get_scope_inl in H as [_ ->]. exact HP. Qed.
  Lemma mpres_put_scope sc : mpres (put_scope sc).
  Proof. intros st x st' H HP. unfold put_scope in H. injection H as _ <-. exact HP. Qed.
  Lemma mpres_bind {A B} (m : M A) (f : A -> M B) : mpres m -> (forall x, mpres (f x)) -> mpres (bind m f).
  Proof. intros Hm Hf st y st' H HP. apply bind_inl in H as (x & s1 & H1 & H). eapply Hf; eauto. Qed.
  Lemma mpres_gop f o : (forall g, f g = step u g o) -> mpres (gop f).
  Proof.
    intros E st x st' H HP. apply gop_inl in H as [H _]. rewrite E in H.
    replace (rs_g st') with (fst (step u (rs_g st) o)) by (now rewrite H). now apply Pstep.
  Qed.

  Ltac pres_step :=
    first [ apply mpres_ret | apply mpres_err | apply mpres_panic | apply mpres_unsupp | apply mpres_fail
          | apply mpres_get_g | apply mpres_get_scope | apply mpres_put_scope
          | apply mpres_bind; [|intros ?] ].

  Lemma mpres_kind_of n : mpres (kind_of n).
  Proof. unfold kind_of. pres_step; [pres_step|]. destruct (get_node x n); pres_step. Qed.

  Lemma mpres_local_item id : mpres (local_item id).
  Proof. unfold local_item. pres_step; [pres_step|]. destruct (im_get x (id_string id)) as [[? ?]|]; pres_step. Qed.

  Lemma mpres_resolve_package nm v at_ : mpres (resolve_package u nm v at_).
  Proof.
    unfold resolve_package. destruct (ru_pkg_find u nm v); [|pres_step].
    pres_step; [pres_step|]. destruct (find_pkg_slot x n).
    - destruct (nth_error (pkgs x) n0); pres_step.
    - pres_step; [apply (mpres_gop _ (Register n)); reflexivity|]. destruct x0; pres_step.
  Qed.

  Lemma mpres_alias_export item nm at_ op : mpres (alias_export u item nm at_ op).
  Proof.
    unfold alias_export. pres_step; [apply mpres_kind_of|]. destruct (inst_exports u x); [|pres_step].
    destruct (has_key l nm); [|pres_step]. pres_step; [apply (mpres_gop _ (Alias item (ru_intern u nm))); reflexivity|].
    destruct x0; pres_step.
  Qed.

  Lemma mpres_eval_postfix item pe parent : mpres (eval_postfix u item pe parent).
  Proof.
    destruct pe as [sp id|sp s]; cbn [eval_postfix].
    - pres_step; [apply mpres_kind_of|]. destruct (inst_exports u x); [|pres_step].
      pres_step; [apply mpres_alias_export|]. destruct x0; pres_step.
    - pres_step; [apply mpres_alias_export|]. destruct x; pres_step.
  Qed.

  Lemma mpres_postfix_chain l : forall item parent, mpres (postfix_chain u item parent l).
  Proof.
    induction l as [|pe r IH]; intros item parent; cbn [postfix_chain]; [pres_step|].
    pres_step; [apply mpres_eval_postfix|apply IH].
  Qed.

  Lemma mpres_inferred_name imports id item : mpres (inferred_name u imports id item).
  Proof.
    intros st x st' H HP. apply inferred_name_spec in H as [-> _]. exact HP.
  Qed.

  Lemma mpres_tbl_insert t nm item at_ : mpres (tbl_insert t nm item at_).
  Proof. unfold tbl_insert. destruct (has_key t nm); pres_step. Qed.

  Definition args_pres (evalf : expr -> M nat) (args : list inst_arg) : Prop :=
    Forall (fun a => match a with ANamed _ e => mpres (evalf e) | _ => True end) args.

  Lemma mpres_pass1 evalf imports args : args_pres evalf args -> forall t req, mpres (pass1 u evalf imports args t req).
  Proof.
    induction args as [|a r IH]; intros HF t req; cbn [pass1]; [pres_step|].
    inversion HF as [|? ? Ha Hr]; subst. destruct a as [id|id|an e|sp].
    - pres_step; [apply mpres_local_item|]. pres_step; [apply mpres_inferred_name|].
      pres_step; [apply mpres_tbl_insert|]. now apply IH.
    - now apply IH.
    - pres_step; [exact Ha|]. pres_step; [apply mpres_tbl_insert|]. now apply IH.
    - destruct r; [now apply IH|pres_step].
  Qed.

  Lemma mpres_spread_names item at_ expected : forall t any, mpres (spread_names u item at_ expected t any).
  Proof.
    induction expected as [|nm r IH]; intros t any; cbn [spread_names]; [pres_step|].
    destruct (has_key t nm); [apply IH|]. pres_step; [apply mpres_alias_export|]. destruct x; apply IH.
  Qed.

  Lemma mpres_spread_arg id expected t : mpres (spread_arg u id expected t).
  Proof.
    unfold spread_arg. pres_step; [apply mpres_local_item|]. pres_step; [apply mpres_kind_of|].
    destruct (u_inst_exports u x0); [|pres_step]. pres_step; [apply mpres_spread_names|].
    destruct x1 as [t' any]. destruct any; pres_step.
  Qed.

  Lemma mpres_pass2 expected args : forall t, mpres (pass2 u args expected t).
  Proof.
    induction args as [|a r IH]; intros t; cbn [pass2]; [pres_step|].
    destruct a; try apply IH. pres_step; [apply mpres_spread_arg|apply IH].
  Qed.

  Lemma mpres_set_args inst t : mpres (set_args u inst t).
  Proof.
    induction t as [|[nm [n at_]] r IH]; cbn [set_args]; [pres_step|].
    pres_step; [apply (mpres_gop _ (SetArg inst (ru_intern u nm) n)); reflexivity|].
    destruct x; try pres_step; [exact IH|]. destruct e; pres_step.
  Qed.

  Lemma mpres_new_expr evalf pkg args : args_pres evalf args -> mpres (new_expr u self_name evalf pkg args).
  Proof.
    intros HF. unfold new_expr. destruct (str_eqb (pn_name pkg) self_name); [pres_step|].
    pres_step; [apply mpres_resolve_package|]. pres_step; [pres_step|].
    destruct (pkg_desc u x0 x); [|pres_step].
    pres_step; [now apply mpres_pass1|]. destruct x1 as [t1 req].
    pres_step; [apply mpres_pass2|].
    pres_step; [apply (mpres_gop _ (Instantiate x)); reflexivity|].
    destruct x2; try apply mpres_panic.
    pres_step; [apply mpres_set_args|].
    destruct req; [|pres_step]. destruct (find _ _); pres_step.
  Qed.

  Theorem mpres_eval_expr e : mpres (eval_expr u self_name e).
  Proof.
    apply (expr_ind' (fun e => mpres (eval_expr u self_name e)) (fun p => mpres (eval_primary u self_name p))).
    - intros sp p post Hp. cbn [eval_expr]. apply mpres_bind; [exact Hp|]. intros n. apply mpres_postfix_chain.
    - intros sp pkg args HA. cbn [eval_primary]. apply mpres_new_expr. exact HA.
    - intros sp inner Hi. exact Hi.
    - intros i. apply mpres_local_item.
  Qed.

  Lemma mpres_register_name id n : mpres (register_name u id n).
  Proof.
    unfold register_name. pres_step; [pres_step|]. destruct (im_get x (id_string id)); [pres_step|].
    pres_step; [pres_step|]. pres_step; [pres_step|]. destruct (get_node x1 n); [|pres_step].
    destruct (nname n0); [pres_step|]. pres_step; [apply (mpres_gop _ (SetName n (ru_intern u (id_string id)))); reflexivity|].
    destruct x2; pres_step.
  Qed.

  Lemma mpres_project mk : forall l k, mpres (project u mk k l).
  Proof.
    induction l as [|[s at_] r IH]; intros k; cbn [project]; [pres_step|].
    destruct (ru_proj_exports u k); [|pres_step]. destruct (im_get l s); [apply IH|pres_step].
  Qed.

  Lemma mpres_resolve_package_path p : mpres (resolve_package_path u self_name p).
  Proof.
    unfold resolve_package_path. destruct (str_eqb (pp_name p) self_name).
    - unfold resolve_local_path. destruct (segment_spans p) as [|[s at_] r]; [pres_step|].
      pres_step; [pres_step|]. destruct (im_get x s) as [[n ?]|]; [|pres_step].
      pres_step; [apply mpres_kind_of|apply mpres_project].
    - pres_step; [apply mpres_resolve_package|]. pres_step; [pres_step|].
      destruct (get_pkg x0 x); [|pres_step]. destruct (segment_spans p) as [|[s at_] r]; [pres_step|].
      destruct (im_get _ s); [apply mpres_project|pres_step].
  Qed.

  Lemma mpres_import_statement id nm t : mpres (import_statement u self_name id nm t).
  Proof.
    unfold import_statement. pres_step.
    - destruct nm; [pres_step|]. destruct t; try pres_step.
      + apply mpres_local_item.
      + pres_step; [apply mpres_kind_of|]. destruct (ru_kind_id u x0); pres_step.
    - destruct x as [name at_]. pres_step.
      + destruct t; try pres_step.
        * apply mpres_resolve_package_path.
        * destruct (func_sig f); [|pres_step]. destruct (ru_func_kind u s); pres_step.
        * apply mpres_local_item.
        * apply mpres_kind_of.
      + pres_step; [apply (mpres_gop _ (Import (ru_intern u name) (N.to_nat (ru_promote u x)))); reflexivity|].
        destruct x0 as [|n| |e|p]; [pres_step|apply mpres_register_name|pres_step|destruct e; pres_step|pres_step].
  Qed.

  Lemma mpres_infer_export_name item : mpres (infer_export_name u item).
  Proof. intros st x st' H HP. apply infer_export_name_spec in H as [-> _]. exact HP. Qed.

  Lemma mpres_export_item item nm at_ : mpres (export_item u item nm at_).
  Proof.
    unfold export_item. pres_step; [pres_step|]. pres_step; [pres_step|].
    destruct (match im_get x nm with
              | Some (n, _) => match get_node x0 n with
                               | None => inr (FPanic RNodeIndex)
                               | Some nd => match nk nd with NDef => inr (FErr (EExportConflict nm at_)) | _ => inl tt end
                               end
              | None => inl tt end); [|pres_step].
    pres_step; [apply (mpres_gop _ (Export item (ru_intern u nm))); reflexivity|].
    destruct x1; try pres_step. destruct e; pres_step.
  Qed.

  Lemma mpres_spread_exports item ea da names : forall any, mpres (spread_exports u item ea da names any).
  Proof.
    induction names as [|nm r IH]; intros any; cbn [spread_exports]; [pres_step|].
    pres_step; [pres_step|]. destruct (alist_get N.eqb (exports x) (ru_intern u nm)); [apply IH|].
    pres_step; [apply mpres_alias_export|]. destruct x0; [|pres_step].
    pres_step; [apply mpres_export_item|apply IH].
  Qed.

  Lemma mpres_export_statement e opts : mpres (export_statement u self_name e opts).
  Proof.
    unfold export_statement. pres_step; [apply mpres_eval_expr|]. destruct opts.
    - pres_step; [apply mpres_infer_export_name|]. destruct x0; [apply mpres_export_item|pres_step].
    - pres_step; [apply mpres_kind_of|]. destruct (inst_exports u x0); [|pres_step].
      pres_step; [apply mpres_spread_exports|]. destruct x1; pres_step.
    - apply mpres_export_item.
  Qed.

  Lemma mpres_statements l : mpres (statements u self_name l).
  Proof.
    induction l as [|s r IH]; cbn [statements]; [pres_step|]. pres_step; [|exact IH].
    destruct s; cbn [statement_step].
    - apply mpres_import_statement.
    - pres_step.
    - unfold let_statement. pres_step; [apply mpres_eval_expr|apply mpres_register_name].
    - apply mpres_export_statement.
  Qed.
End Pres.

(** the graphs the resolver builds are reachable by graph operations from the empty graph *)
Definition reachable (u : universe) (g : gstate) : Prop := exists ops, g = run u ops.

Lemma reachable_step (u : universe) g o : reachable u g -> reachable u (fst (step u g o)).
Proof. intros [ops ->]. exists (ops ++ [o]). now rewrite run_app. Qed.

Theorem resolve_reachable (u : runiverse) d st : resolve u d = inl st -> reachable u (rs_g st).
Proof.
  unfold resolve. destruct (statements u _ (doc_statements d) init_state) as [[[] s]|f] eqn:E; [|discriminate].
  destruct (pd_targets (doc_directive d)); [discriminate|]. intros [= <-].
  eapply (mpres_statements u _ (reachable u) (reachable_step u)); eauto. exists []. reflexivity.
Qed.

(** ... hence satisfy the graph invariant of C06 *)
Corollary resolve_inv (u : runiverse) d st : resolve u d = inl st -> Inv u (rs_g st).
Proof. intros H. destruct (resolve_reachable u d st H) as [ops ->]. apply reach_inv. Qed.


(** * the arguments of a new instantiation are exactly the table entries *)
Section Exact.
  Variable u : runiverse.
  Variable self_name : str.

  Lemma get_args_has_arg g inst a src : In (a, src) (get_args u g inst) -> has_arg u g inst a src.
  Proof.
    unfold get_args. destruct (get_node g inst) as [nd|] eqn:G; [|intros []].
    destruct (nk nd) as [| |sat|] eqn:K; try (intros []; fail).
    destruct (inst_imports u g nd) as [imps|] eqn:Im; [|intros []].
    rewrite in_flat_map. intros (e & He & Hin). unfold incoming in He. apply filter_In in He as [He T]. apply Nat.eqb_eq in T.
    destruct (ek e) as [j|i|] eqn:Ke; try destruct Hin. destruct (nth_error imps i) as [[nm' k]|] eqn:Nt; [|destruct Hin].
    destruct Hin as [[= <- <-]|[]]. exists nd, sat, imps, e, i, k. repeat split; auto.
  Qed.

  Lemma set_arg_effect g inst a arg g' o :
    set_arg u g inst a arg = (g', o) ->
    g' = g \/
    exists nd sat imps index expected,
      get_node g inst = Some nd /\ nk nd = NInst sat /\ inst_imports u g nd = Some imps /\
      nth_error imps index = Some (a, expected) /\
      g' = set_node (add_edge g {| esrc := arg; etgt := inst; ek := EArg index |}) inst
             (Some {| nk := NInst (index :: sat); npkg := npkg nd; nitem := nitem nd; nname := nname nd; nexport := nexport nd |}).
  Proof.
    unfold set_arg. destruct (get_node g inst) as [nd|] eqn:G; [|intros [= <- _]; auto].
    destruct (nk nd) as [| |sat|] eqn:K; try (intros [= <- _]; auto; fail).
    destruct (inst_imports u g nd) as [imps|] eqn:Im; [|intros [= <- _]; auto].
    destruct (get_full imps a 0) as [[index expected]|] eqn:GF; [|intros [= <- _]; auto].
    apply get_full_nth' in GF as [_ Nt]. rewrite Nat.sub_0_r in Nt.
    destruct (scan_incoming (incoming g inst) index arg); try (intros [= <- _]; auto; fail).
    destruct (get_node g arg) as [an|]; [|intros [= <- _]; auto].
    destruct (negb (u_sub u (nitem an) expected)); [intros [= <- _]; auto|].
    unfold add_satisfied.
    change (get_node (add_edge g {| esrc := arg; etgt := inst; ek := EArg index |}) inst) with (get_node g inst).
    rewrite G, K. destruct (existsb (Nat.eqb index) sat); [intros [= <- _]; auto|].
    intros [= <- _]. right. exists nd, sat, imps, index, expected. auto.
  Qed.

  (** the import list of an instantiation node *)
  Definition node_imports (g : gstate) (n : nat) (imps : list (name * kid)) : Prop :=
    exists nd, get_node g n = Some nd /\ inst_imports u g nd = Some imps.

  Lemma set_arg_node_imports g inst a arg g' o n imps :
    set_arg u g inst a arg = (g', o) -> node_imports g n imps -> node_imports g' n imps.
  Proof.
    intros H (nd0 & G0 & Im0). apply set_arg_effect in H as [->|(nd & sat & imps' & index & expected & G & K & Im & Nt & ->)].
    - exists nd0. auto.
    - assert (L : inst < length (nodes g)).
      { apply nth_error_Some. unfold get_node in G. intros X. rewrite X in G. discriminate. }
      apply Nat.ltb_lt in L. destruct (Nat.eq_dec n inst) as [->|Hne].
      + rewrite G in G0. injection G0 as <-. eexists. split.
        * unfold get_node, set_node. cbn. rewrite nth_error_set_nth', Nat.eqb_refl, L. reflexivity.
        * rewrite <- Im0. now apply inst_imports_same.
      + exists nd0. split.
        * unfold get_node, set_node. cbn. rewrite nth_error_set_nth'. apply Nat.eqb_neq in Hne. now rewrite Hne.
        * rewrite <- Im0. now apply inst_imports_same.
  Qed.

  Lemma set_arg_edges g inst a arg g' o imps e :
    set_arg u g inst a arg = (g', o) -> node_imports g inst imps -> In e (edges g') ->
    In e (edges g) \/
    exists index k, nth_error imps index = Some (a, k) /\ e = {| esrc := arg; etgt := inst; ek := EArg index |}.
  Proof.
    intros H (nd0 & G0 & Im0) He. apply set_arg_effect in H as [->|(nd & sat & imps' & index & expected & G & K & Im & Nt & ->)]; auto.
    cbn in He. destruct He as [<-|He]; auto. right. rewrite G in G0. injection G0 as <-. rewrite Im in Im0. injection Im0 as <-. eauto.
  Qed.

  (** every edge after [set_args] is an old edge or the argument edge of a table entry *)
  Lemma set_args_edges inst imps : forall t st st',
    set_args u inst t st = inl (tt, st') -> node_imports (rs_g st) inst imps ->
    forall e, In e (edges (rs_g st')) ->
      In e (edges (rs_g st)) \/
      exists nm n at_ index k, In (nm, (n, at_)) t /\ nth_error imps index = Some (ru_intern u nm, k) /\
                               e = {| esrc := n; etgt := inst; ek := EArg index |}.
  Proof.
    induction t as [|[nm [n at_]] r IH]; intros st st' H NI e He.
    - cbn in H. apply ret_inl in H as [_ ->]. auto.
    - cbn [set_args] in H. apply bind_inl in H as (o & s1 & H1 & H). apply gop_inl in H1 as [H1 _].
      assert (H' : set_args u inst r s1 = inl (tt, st')).
      { destruct o as [| | |er|p]; try discriminate; auto. destruct er; discriminate. }
      pose proof (set_arg_node_imports _ _ _ _ _ _ _ _ H1 NI) as NI1.
      destruct (IH _ _ H' NI1 e He) as [Hold|(nm' & n' & at' & index & k & Hin & Nt & ->)].
      + destruct (set_arg_edges _ _ _ _ _ _ _ _ H1 NI Hold) as [Ho|(index & k & Nt & ->)]; auto.
        right. exists nm, n, at_, index, k. split; [now left|auto].
      + right. exists nm', n', at', index, k. split; [now right|auto].
  Qed.

  Lemma set_args_node_imports inst n imps : forall t st st',
    set_args u inst t st = inl (tt, st') -> node_imports (rs_g st) n imps -> node_imports (rs_g st') n imps.
  Proof.
    induction t as [|[nm [m at_]] r IH]; intros st st' H NI.
    - cbn in H. apply ret_inl in H as [_ ->]. auto.
    - cbn [set_args] in H. apply bind_inl in H as (o & s1 & H1 & H). apply gop_inl in H1 as [H1 _].
      assert (H' : set_args u inst r s1 = inl (tt, st')).
      { destruct o as [| | |er|p]; try discriminate; auto. destruct er; discriminate. }
      eapply IH; eauto. eapply set_arg_node_imports; eauto.
  Qed.

  (** 1. Argument binding, both directions.  As [new_expr_binding], and conversely every argument of
      the new instantiation in the resulting graph is the entry of the table under that name. *)
  Theorem new_expr_binding_exact evalf pkg args st inst st' :
    new_expr u self_name evalf pkg args st = inl (inst, st') ->
    args_framed evalf args -> args_pres (Inv u) evalf args ->
    nofree (rs_g st) -> Inv u (rs_g st) ->
    exists id pd t1 req recs t2,
      pkg_desc u (rs_g st') id = Some pd /\
      (forall nm n at_, im_get t2 nm = Some (n, at_) -> In (ru_intern u nm, n) (get_args u (rs_g st') inst)) /\
      (forall a src, In (a, src) (get_args u (rs_g st') inst) ->
         exists nm at_, In (nm, (src, at_)) t2 /\ a = ru_intern u nm) /\
      (NoDup (map fst (text_items u (pd_imports pd))) ->
        NoDup (map fst t1) /\ length t1 = length (filter is_explicit_arg args) /\
        req = negb (existsb is_fill_arg args) /\
        (forall pre sp post, args = pre ++ AFill sp :: post -> post = []) /\
        map sr_id recs = spread_idents args /\
        spreads_from u (map fst (text_items u (pd_imports pd))) t1 recs t2 /\
        (forall i, In i (map fst (text_items u (pd_imports pd))) ->
           match bind_import t1 (map to_src recs) (negb req) i with
           | BExplicit x => im_get t2 i = Some x
           | BSpread sp => exists n, im_get t2 i = Some (n, snd (sp_val sp)) /\ alias_witness u (fst (sp_val sp)) i n
           | BImplicit => im_get t2 i = None
           | BMissing => False
           end)).
  Proof.
    intros H HF HP NF HI.
    apply new_expr_inl in H as (_ & id & s0 & pd & t1 & req & s1 & t2 & s2 & s3 & H0 & PD & H1 & H2 & H3 & Sc3 & H4 & HM).
    destruct (new_expr_binding_at u evalf pkg args st id s0 pd t1 req s1 t2 s2 s3 inst st' H0 PD H1 H2 H3 H4 HM HF NF)
      as (recs & PD' & Fwd & Rest).
    exists id, pd, t1, req, recs, t2. split; [exact PD'|]. split; [exact Fwd|]. split; [|exact Rest].
    (* the invariant and the frame up to the instantiation *)
    pose proof (fun g o => step_inv u g o) as Pstep.
    pose proof (mpres_resolve_package u (Inv u) Pstep _ _ _ _ _ _ H0 HI) as I0.
    pose proof (mpres_pass1 u (Inv u) evalf _ args HP _ _ _ _ _ H1 I0) as I1.
    pose proof (mpres_pass2 u (Inv u) Pstep _ args _ _ _ _ H2 I1) as I2.
    destruct (mframe_resolve_package u _ _ _ _ _ _ H0 NF) as [G0 _].
    destruct (mframe_pass1 u evalf _ args HF _ _ _ _ _ H1 (gf_free _ _ G0)) as [G1 _].
    destruct (mframe_pass2 u _ args _ _ _ _ H2 (gf_free _ _ G1)) as [G2 _].
    destruct (gf_free _ _ G2) as [F2 Fp2].
    (* the new node *)
    unfold instantiate in H3. destruct (pkg_desc u (rs_g s2) id) as [pd2|] eqn:PD2; [|discriminate].
    destruct (add_node (rs_g s2) (mk_node (NInst []) (pd_inst pd2) (Some id))) as [g3 idx] eqn:A.
    injection H3 as E3 Ei. subst idx.
    apply add_node_nofree in A as (Ei & Hn & F3 & He & _ & _ & _ & Hp & _); auto.
    assert (NI3 : node_imports (rs_g s3) inst (pd_imports pd2)).
    { exists (mk_node (NInst []) (pd_inst pd2) (Some id)). rewrite <- E3. split.
      - unfold get_node. rewrite Hn, Ei, nth_error_app2, Nat.sub_diag by lia. reflexivity.
      - unfold inst_imports, mk_node. cbn [npkg]. unfold pkg_desc, get_pkg in *. rewrite Hp. now rewrite PD2. }
    pose proof (set_args_node_imports inst inst _ _ _ _ H4 NI3) as NI4.
    intros a src Hin. apply get_args_has_arg in Hin as (nd' & sat & imps' & e & i & k & G' & K' & Im' & He' & T & Sr & Ke & Nt).
    destruct NI4 as (nd4 & G4 & Im4). rewrite G' in G4. injection G4 as <-. rewrite Im' in Im4. injection Im4 as ->.
    destruct (set_args_edges inst _ _ _ _ H4 NI3 e He') as [Hold|(nm & n & at_ & index & k' & Hin & Nt' & ->)].
    - exfalso. rewrite <- E3, He in Hold. destruct (inv_edges_live _ _ I2 e Hold) as [_ L].
      unfold live in L. destruct (get_node (rs_g s2) (etgt e)) eqn:GE; [|discriminate].
      unfold get_node in GE. assert (etgt e < length (nodes (rs_g s2))).
      { apply nth_error_Some. intros X. rewrite X in GE. discriminate. }
      lia.
    - cbn in Sr, Ke. injection Ke as <-. rewrite Nt' in Nt. injection Nt as <- _. subst src. eauto.
  Qed.
End Exact.
