(** Fuel.  On a well-founded validator graph -- [rk] decreases along every reference of a node ([ConvertCache.ranked]),
    [pk] decreases along every [peel_alias] link -- and with fuel above the ranks, no conversion returns the out-of-fuel
    outcome: the fuel parameters of the model are an artefact, not a behaviour. *)
From Coq Require Import Lia.
From WacV Require Import Str Types Convert ConvertSpec ConvertProofs ConvertCache.
Set Warnings "-unused-intro-pattern".

Definition noof {A} (x : cres A) : Prop := x <> COutOfFuel.

Lemma noof_bind {A B} (x : cres A) (f : A -> cres B) : noof x -> (forall a, x = COk a -> noof (f a)) -> noof (bind x f).
Proof. unfold noof. destruct x; cbn [bind]; intros H1 H2; try discriminate; [now apply H2 | congruence]. Qed.
Lemma noof_ok {A} (a : A) : noof (COk a).
Proof. discriminate. Qed.

Lemma mapM_noof {A B} (f : A -> cstate -> cres (B * cstate)) : forall l,
  (forall a, In a l -> forall s, noof (f a s)) -> forall s, noof (mapM f l s).
Proof.
  induction l as [|a l IH]; intros H s; cbn [mapM]; [apply noof_ok|].
  apply noof_bind; [apply H; now left|]. intros [y s1] _. apply noof_bind; [apply IH; intros; apply H; now right|].
  intros [ys s2] _. apply noof_ok.
Qed.
Lemma optM_noof {A B} (f : A -> cstate -> cres (B * cstate)) o :
  (forall a, o = Some a -> forall s, noof (f a s)) -> forall s, noof (optM f o s).
Proof.
  intros H s. destruct o as [a|]; cbn [optM]; [|apply noof_ok]. apply noof_bind; [now apply H|]. intros [y s1] _. apply noof_ok.
Qed.
Lemma named_noof {K A B} (f : A -> cstate -> cres (B * cstate)) (kv : K * A) :
  (forall s, noof (f (snd kv) s)) -> forall s, noof (named f kv s).
Proof. intros H s. unfold named. apply noof_bind; [apply H|]. intros [y s1] _. apply noof_ok. Qed.

Section Total.
  Variable g : vgraph.
  Variables rk pk : vid -> nat.
  Hypothesis HR : ranked g rk.
  Hypothesis HP : forall v p, peel_of g v = Some p -> (pk p < pk v)%nat.

  Lemma find_owner_fuel ow : forall fuel v, (pk v < fuel)%nat -> find_owner fuel g ow v <> None.
  Proof.
    induction fuel as [|f IH]; intros v Hv; [lia|]. cbn [find_owner]. destruct (nassoc v ow); [discriminate|].
    destruct (peel_of g v) as [p|] eqn:E; [|discriminate]. apply IH. specialize (HP v p E). lia.
  Qed.

  Lemma mk_def_noof d s : noof (mk_def d s).
  Proof. unfold mk_def, add_def. apply noof_ok. Qed.

  Lemma val_body_noof R v : (forall c, In c (val_refs v) -> forall s, noof (R c s)) -> forall s, noof (val_body R v s).
  Proof. intros H s. destruct v as [p|d]; cbn [val_body]; [apply noof_ok | apply H; now left]. Qed.

  Lemma defined_body_noof R d :
    (forall c, (rk c < rk d)%nat -> forall s, noof (R c s)) -> forall s, noof (defined_body R g d s).
  Proof.
    intros H s. unfold defined_body. destruct (nassoc d (cs_cache s)) as [[[ | |x| | | ]|]|]; try discriminate.
    destruct (node_of g d) as [[nd| | | | | ]|] eqn:En; try discriminate.
    assert (Hch : forall c, In c (def_refs nd) -> forall s, noof (R c s)) by (intros c Hc; apply H; exact (HR d _ En c Hc)).
    apply noof_bind; [|intros [v s1] _; apply noof_ok].
    destruct nd as [p|fs|cs|x|k x|x n|l|l|l|x|o e|r0|r0|o|o]; cbn [def_refs] in Hch; try apply mk_def_noof; try discriminate.
    - apply noof_bind; [|intros [a s0] _; apply mk_def_noof]. apply mapM_noof. intros a Ha. apply named_noof.
      apply val_body_noof. intros c Hc. apply Hch. apply in_flat_map. eauto.
    - apply noof_bind; [|intros [a s0] _; apply mk_def_noof]. apply mapM_noof. intros a Ha. apply named_noof.
      apply optM_noof. intros y Hy. apply val_body_noof. intros c Hc. apply Hch. apply in_flat_map. exists a. split; [exact Ha|].
      rewrite Hy. exact Hc.
    - apply noof_bind; [|intros [a s0] _; apply mk_def_noof]. now apply val_body_noof.
    - apply noof_bind; [|intros [a s0] _; apply mk_def_noof]. now apply val_body_noof.
    - apply noof_bind; [|intros [a s0] _; apply mk_def_noof]. apply mapM_noof. intros a Ha.
      apply val_body_noof. intros c Hc. apply Hch. apply in_flat_map. eauto.
    - apply noof_bind; [|intros [a s0] _; apply mk_def_noof]. now apply val_body_noof.
    - apply noof_bind.
      + apply optM_noof. intros y ->. apply val_body_noof. intros c Hc. apply Hch. apply in_or_app. now left.
      + intros [a s0] _. apply noof_bind; [|intros [b s00] _; apply mk_def_noof].
        apply optM_noof. intros y ->. apply val_body_noof. intros c Hc. apply Hch. apply in_or_app. now right.
    - unfold res_of_cache. destruct (nassoc r0 (cs_cache s)) as [[|]|]; cbn [bind]; discriminate.
    - unfold res_of_cache. destruct (nassoc r0 (cs_cache s)) as [[|]|]; cbn [bind]; discriminate.
    - apply noof_bind; [|intros [a s0] _; apply mk_def_noof]. apply optM_noof. intros y ->. now apply val_body_noof.
    - apply noof_bind; [|intros [a s0] _; apply mk_def_noof]. apply optM_noof. intros y ->. now apply val_body_noof.
  Qed.

  Lemma c_defined_noof : forall fuel d, (rk d < fuel)%nat -> forall s, noof (c_defined fuel g d s).
  Proof.
    induction fuel as [|f IH]; intros d Hd s; [lia|]. cbn [c_defined]. apply defined_body_noof. intros c Hc. apply IH. lia.
  Qed.
  Lemma c_val_noof fuel v : (forall c, In c (val_refs v) -> (rk c < fuel)%nat) -> forall s, noof (c_val fuel g v s).
  Proof. intros H. unfold c_val. apply val_body_noof. intros c Hc. apply c_defined_noof. now apply H. Qed.

  Lemma c_func_noof fuel v : (rk v < fuel)%nat -> forall s, noof (c_func fuel g v s).
  Proof.
    intros Hv s. unfold c_func. destruct (nassoc v (cs_cache s)) as [[[ |f0| | | | ]|]|]; try discriminate.
    destruct (node_of g v) as [[ |a ps r0| | | | ]|] eqn:En; try discriminate.
    assert (Hch : forall c, In c (node_refs (NFunc a ps r0)) -> (rk c < fuel)%nat) by (intros c Hc; specialize (HR v _ En c Hc); lia).
    cbn [node_refs] in Hch.
    apply noof_bind.
    - apply mapM_noof. intros x Hx. apply named_noof. apply c_val_noof. intros c Hc. apply Hch. apply in_or_app. left.
      apply in_flat_map. eauto.
    - intros [ps' s1] _. apply noof_bind.
      + apply optM_noof. intros y ->. apply c_val_noof. intros c Hc. apply Hch. apply in_or_app. now right.
      + intros [r' s2] _. unfold add_func. apply noof_ok.
  Qed.
  Lemma c_module_noof v s : noof (c_module g v s).
  Proof.
    unfold c_module. destruct (nassoc v (cs_cache s)) as [[[ | | | | |m0]|]|]; try discriminate.
    destruct (node_of g v) as [[ | | | | |[mt|]]|]; try discriminate.
  Qed.
  Lemma c_resource_noof hf name v s : (pk v < hf)%nat -> noof (c_resource hf g name v s).
  Proof.
    intro Hv. unfold c_resource. destruct (nassoc v (cs_cache s)) as [[|r0]|]; try discriminate.
    destruct (node_of g v) as [[ | | | |rid| ]|]; try discriminate.
    destruct (nassoc rid (cs_resmap s)); [|discriminate].
    destruct (find_owner hf g (cs_owners s) v) eqn:E; [discriminate|]. exfalso. exact (find_owner_fuel _ _ _ Hv E).
  Qed.
  Lemma use_or_own_noof hf vn ow name rf cr s : (pk rf < hf)%nat -> use_or_own hf g vn ow name rf cr s <> COutOfFuel.
  Proof.
    intro Hv. unfold use_or_own. destruct (find_owner hf g (cs_owners s) rf) as [[[other orig]|]|] eqn:E.
    - apply noof_bind; [|intros; discriminate].
      destruct other as [i|w]; [|discriminate]. destruct (owner_eqb ow (OwIface i)); [discriminate|].
      destruct ow as [me|me]; [destruct (upd_if _ _ _)|destruct (upd_world _ _ _)]; discriminate.
    - destruct (nassoc cr (cs_owners s)); discriminate.
    - exfalso. exact (find_owner_fuel _ _ _ Hv E).
  Qed.
  Lemma reset_self_owner_noof me k s : reset_self_owner me k s <> COutOfFuel.
  Proof.
    unfold reset_self_owner. destruct k as [[res| | | | | ]| | | | | ]; try discriminate.
    destruct (get_res (cs_types s) res) as [r|]; [|discriminate]. destruct (res_alias r) as [[[o|] src]|]; try discriminate.
    destruct (id_eqb o me); [|discriminate]. destruct (upd_res _ _ _); discriminate.
  Qed.
  Lemma put_if_export_noof me n k s : put_if_export me n k s <> COutOfFuel.
  Proof.
    unfold put_if_export. destruct (get_if _ _); [|discriminate]. destruct (assoc _ _); [discriminate|]. destruct (upd_if _ _ _); discriminate.
  Qed.
  Lemma put_world_import_noof me n k s : put_world_import me n k s <> COutOfFuel.
  Proof.
    unfold put_world_import. destruct (get_world _ _); [|discriminate]. destruct (assoc _ _); [discriminate|]. destruct (upd_world _ _ _); discriminate.
  Qed.
  Lemma put_world_export_noof me n k s : put_world_export me n k s <> COutOfFuel.
  Proof.
    unfold put_world_export. destruct (get_world _ _); [|discriminate]. destruct (assoc _ _); [discriminate|]. destruct (upd_world _ _ _); discriminate.
  Qed.

  Section Bodies.
    Variable hf : nat.
    Hypothesis Hhr : forall v, (rk v < hf)%nat.
    Hypothesis Hhp : forall v, (pk v < hf)%nat.
    Variable E : str -> vent -> cstate -> cres (kind * cstate).
    Variable V : nat.
    Hypothesis HV : (0 < V)%nat.
    Hypothesis HE : forall n e, (forall c, In c (ent_refs e) -> (S (rk c) < V)%nat) -> forall s, noof (E n e s).

    Lemma inst_loop_noof vn me : forall l, (forall a c, In a l -> In c (ent_refs (snd a)) -> (S (rk c) < V)%nat) ->
      forall s, noof (inst_loop hf g E vn me l s).
    Proof.
      induction l as [|[n e] l IH]; intros Hl s; cbn [inst_loop]; [apply noof_ok|].
      apply noof_bind; [apply HE; intros c Hc; exact (Hl (n, e) c (or_introl eq_refl) Hc)|]. intros [k s1] _.
      apply noof_bind.
      - destruct e as [ | | |rf cr| | ]; try apply noof_ok. apply noof_bind; [apply use_or_own_noof; apply Hhp|].
        intros sa _. apply reset_self_owner_noof.
      - intros s2 _. apply noof_bind; [apply put_if_export_noof|]. intros s3 _. apply IH. intros a c Ha. apply Hl. now right.
    Qed.
    Lemma comp_imports_noof vn me : forall l, (forall a c, In a l -> In c (ent_refs (snd a)) -> (S (rk c) < V)%nat) ->
      forall s, noof (comp_imports hf g E vn me l s).
    Proof.
      induction l as [|[n e] l IH]; intros Hl s; cbn [comp_imports]; [apply noof_ok|].
      apply noof_bind; [apply HE; intros c Hc; exact (Hl (n, e) c (or_introl eq_refl) Hc)|]. intros [k s1] _.
      apply noof_bind.
      - destruct e as [ | | |rf cr| | ]; try apply noof_ok. apply use_or_own_noof; apply Hhp.
      - intros s2 _. apply noof_bind; [apply put_world_import_noof|]. intros s3 _. apply IH. intros a c Ha. apply Hl. now right.
    Qed.
    Lemma comp_exports_noof me : forall l, (forall a c, In a l -> In c (ent_refs (snd a)) -> (S (rk c) < V)%nat) ->
      forall s, noof (comp_exports E me l s).
    Proof.
      induction l as [|[n e] l IH]; intros Hl s; cbn [comp_exports]; [apply noof_ok|].
      apply noof_bind; [apply HE; intros c Hc; exact (Hl (n, e) c (or_introl eq_refl) Hc)|]. intros [k s1] _.
      apply noof_bind; [apply put_world_export_noof|]. intros s3 _. apply IH. intros a c Ha. apply Hl. now right.
    Qed.

    Lemma instance_body_noof name v : (rk v < V)%nat -> forall s, noof (instance_body hf g E name v s).
    Proof.
      intros Hv s. unfold instance_body. destruct (nassoc v (cs_cache s)) as [[[ | | |i0| | ]|]|]; try discriminate.
      destruct (node_of g v) as [[ | |exports| | | ]|] eqn:En; try discriminate.
      unfold add_if. apply noof_bind; [|intros; apply noof_ok]. apply inst_loop_noof.
      intros a c Ha Hc. assert (rk c < rk v)%nat; [|lia]. apply (HR v _ En). cbn [node_refs]. apply in_flat_map. eauto.
    Qed.
    Lemma component_body_noof name v : (rk v < V)%nat -> forall s, noof (component_body hf g E name v s).
    Proof.
      intros Hv s. unfold component_body. destruct (nassoc v (cs_cache s)) as [[[ | | | |w0| ]|]|]; try discriminate.
      destruct (node_of g v) as [[ | | |imports exports| | ]|] eqn:En; try discriminate.
      unfold add_world. apply noof_bind.
      - apply comp_imports_noof. intros a c Ha Hc. assert (rk c < rk v)%nat; [|lia]. apply (HR v _ En). cbn [node_refs].
        apply in_or_app. left. apply in_flat_map. eauto.
      - intros s1 _. apply noof_bind; [|intros; apply noof_ok]. apply comp_exports_noof.
        intros a c Ha Hc. assert (rk c < rk v)%nat; [|lia]. apply (HR v _ En). cbn [node_refs].
        apply in_or_app. right. apply in_flat_map. eauto.
    Qed.

    Lemma entity_body_noof n e : (forall c, In c (ent_refs e) -> (rk c < V)%nat) -> forall s, noof (entity_body hf g E n e s).
    Proof.
      intros Hc s. unfold entity_body. destruct e as [m|v|v|rf cr|i|c]; cbn [ent_refs] in Hc.
      - apply noof_bind; [apply c_module_noof | intros [x s1] _; apply noof_ok].
      - apply noof_bind; [apply c_func_noof; apply Hhr | intros [x s1] _; apply noof_ok].
      - apply noof_bind; [apply c_val_noof; intros; apply Hhr | intros [x s1] _; apply noof_ok].
      - apply noof_bind; [|intros [x s1] _; apply noof_ok]. unfold ty_body.
        destruct (node_of g cr) as [[d|a ps r0|ex|im ex|rid|mm]|]; try discriminate.
        + apply noof_bind; [apply c_defined_noof; apply Hhr | intros [y s2] _; apply noof_ok].
        + apply noof_bind; [apply c_func_noof; apply Hhr | intros [y s2] _; apply noof_ok].
        + apply noof_bind; [apply instance_body_noof; apply Hc; now left | intros [y s2] _; apply noof_ok].
        + apply noof_bind; [apply component_body_noof; apply Hc; now left | intros [y s2] _; apply noof_ok].
        + apply noof_bind; [apply c_resource_noof; apply Hhp | intros [y s2] _; apply noof_ok].
      - apply noof_bind; [apply instance_body_noof; apply Hc; now left | intros [y s2] _; apply noof_ok].
      - apply noof_bind; [apply component_body_noof; apply Hc; now left | intros [y s2] _; apply noof_ok].
    Qed.
  End Bodies.

  Lemma c_entity_noof hf : (forall v, (rk v < hf)%nat) -> (forall v, (pk v < hf)%nat) ->
    forall fuel n e, (0 < fuel)%nat -> (forall c, In c (ent_refs e) -> (S (rk c) < fuel)%nat) -> forall s, noof (c_entity hf fuel g n e s).
  Proof.
    intros Hhr Hhp. induction fuel as [|f IH]; intros n e Hpos Hc s; [lia|].
    cbn [c_entity]. destruct f as [|f'].
    - (* fuel 1: only entities without nested instance / component types *)
      unfold entity_body. destruct e as [m|v|v|rf cr|i|c]; cbn [ent_refs] in Hc;
        try (exfalso; specialize (Hc _ (or_introl eq_refl)); lia).
      apply noof_bind; [apply c_val_noof; intros; apply Hhr | intros [x s1] _; apply noof_ok].
    - apply (entity_body_noof hf Hhr Hhp (c_entity hf (S f') g) (S f')); [lia | |].
      + intros n' e' Hc' s'. apply IH; [lia | exact Hc'].
      + intros c Hin. specialize (Hc c Hin). lia.
  Qed.

  (** the two loops of [from_bytes] *)
  Lemma collect_noof hf fuel : (forall v, (rk v < hf)%nat) -> (forall v, (pk v < hf)%nat) -> (forall v, (S (rk v) < fuel)%nat) ->
    forall l acc s, noof (collect (c_entity hf fuel g) l acc s).
  Proof.
    intros Hhr Hhp Hf. induction l as [|[n e] l IH]; intros acc s; cbn [collect]; [apply noof_ok|].
    apply noof_bind; [apply c_entity_noof; auto; specialize (Hf 0%nat); lia|]. intros [k s1] _. apply IH.
  Qed.
  Theorem conv_items_noof hf fuel t0 :
    (forall v, (rk v < hf)%nat) -> (forall v, (pk v < hf)%nat) -> (forall v, (S (rk v) < fuel)%nat) ->
    conv_items hf fuel g t0 <> COutOfFuel.
  Proof.
    intros Hhr Hhp Hf. unfold conv_items. apply noof_bind; [now apply collect_noof|]. intros [im s1] _.
    apply noof_bind; [now apply collect_noof|]. intros [ex s2] _. apply noof_ok.
  Qed.
End Total.
