(** Lexer classes, part D: [lex_token_classes] (every token's text is in the class of its kind),
    [lex_no_fuel_item] (no out-of-fuel / panic item; the unmodelled item only inside the zone), and the
    run of [lex_loop] as a derivation ([lexrun]) that records, for every item, the remaining input at
    which [scan_token] produced it. *)
From WacV Require Import Str Ord Token Lexer LexTables LexImpl LexSpec LexTablesProofs Semver Ast Parser LexClasses.
From WacV Require Import LexerSound NoPanicLexer LexerClassA LexerClassB LexerClassC.
From Coq Require Import Lia.
Local Open Scope nat_scope.

(* ------------------------------------------------------------------ best_symbol *)

Lemma starts_with_firstn x : forall s, starts_with x s = true -> firstn (length x) s = x.
Proof.
  induction x as [|a x IH]; intros s; [reflexivity|]. destruct s as [|b s]; cbn [starts_with]; [discriminate|].
  intros H. apply andb_true_iff in H. destruct H as [Hab H]. apply N.eqb_eq in Hab. subst b. cbn [length firstn]. now rewrite IH.
Qed.

Lemma starts_with_app x rest : starts_with x (x ++ rest) = true.
Proof. induction x as [|a x IH]; [reflexivity|]. cbn [app starts_with]. now rewrite N.eqb_refl, IH. Qed.

Lemma best_symbol_none tbl s : best_symbol tbl s = None ->
  forall y k', In (y, k') tbl -> starts_with y s = true -> y = [].
Proof.
  induction tbl as [|[x t] tbl IH]; cbn [best_symbol]; [intros _ y k' []|].
  destruct (starts_with x s && negb (is_nil_str x)) eqn:E.
  - destruct (best_symbol tbl s) as [[? ?]|]; [destruct (_ <? _)|]; discriminate.
  - intros Hb y k' [Hy|Hy] Hsy; [|eauto]. inversion Hy; subst. rewrite Hsy in E. destruct y; [reflexivity|discriminate].
Qed.

(** [best_symbol] returns a row whose non-empty text starts [s] and no such row has a longer text. *)
Lemma best_symbol_spec tbl s : forall k n, best_symbol tbl s = Some (k, n) ->
  (exists x, In (x, k) tbl /\ starts_with x s = true /\ x <> [] /\ n = length x) /\
  (forall y k', In (y, k') tbl -> starts_with y s = true -> y <> [] -> length y <= n).
Proof.
  induction tbl as [|[x t] tbl IH]; intros k n; cbn [best_symbol]; [discriminate|].
  destruct (starts_with x s && negb (is_nil_str x)) eqn:E.
  - apply andb_true_iff in E. destruct E as [Es Ene]. assert (Hx : x <> []) by (intros ->; discriminate).
    destruct (best_symbol tbl s) as [[t' n']|] eqn:Eb.
    + destruct (IH t' n' eq_refl) as [(x' & Hin & Hs' & Hne' & ->) Hmax].
      destruct (length x <? length x') eqn:El.
      * apply Nat.ltb_lt in El. intros H; inversion H; subst. split.
        -- exists x'. repeat split; auto. now right.
        -- intros y k' [Hy|Hy] Hsy Hney; [inversion Hy; subst; lia|eauto].
      * apply Nat.ltb_ge in El. intros H; inversion H; subst. split.
        -- exists x. repeat split; auto. now left.
        -- intros y k' [Hy|Hy] Hsy Hney; [inversion Hy; subst; lia|]. specialize (Hmax _ _ Hy Hsy Hney). lia.
    + intros H; inversion H; subst. split.
      * exists x. repeat split; auto. now left.
      * intros y k' [Hy|Hy] Hsy Hney; [inversion Hy; subst; lia|].
        exfalso. apply Hney. exact (best_symbol_none _ _ Eb _ _ Hy Hsy).
  - intros H. destruct (IH k n H) as [(x' & Hin & Hs' & Hne' & ->) Hmax]. split.
    + exists x'. repeat split; auto. now right.
    + intros y k' [Hy|Hy] Hsy Hney; [|eauto]. inversion Hy; subst. rewrite Hsy in E. destruct y; [congruence|discriminate].
Qed.

(* ------------------------------------------------------------------ token classes at scan_token level *)

Section Classes.
Variable d : deviations.
Variable base : lexcfg.
Hypothesis Htab : tables_ok base.
Notation cfg := (cfg_with d base).
Notation au := (uppercase_words d).

Lemma kw_or_ident_class w : id_b d w = true -> token_class d (kw_or_ident_of w) w = true.
Proof.
  intros Hi. unfold kw_or_ident_of. destruct (lookup_str w doc_keywords) as [k|] eqn:E.
  - apply lookup_str_some in E. pose proof (kw_row d w k E) as Hr. unfold kw_row_ok in Hr. cbn [fst snd] in Hr.
    do 6 (apply andb_true_iff in Hr; destruct Hr as [Hr _]). apply andb_true_iff in Hr. now destruct Hr.
  - cbn [token_class]. unfold is_keyword_text. rewrite E, Hi. cbn [negb]. now rewrite orb_true_r.
Qed.

Lemma firstn_app_S {A} (a : list A) c b : firstn (S (length a)) (a ++ c :: b) = a ++ [c].
Proof. induction a as [|x a IH]; cbn [length app firstn]; [reflexivity|]. cbn [length app firstn] in IH. now rewrite IH. Qed.

Lemma head_is_inv c s : head_is c s = true -> exists r, s = c :: r.
Proof. destruct s as [|x r]; cbn [head_is]; [discriminate|]. intros H. apply N.eqb_eq in H. subst. eauto. Qed.

Lemma dash_ident_intro w : id_b d w = true -> dash_ident_b d (w ++ [c_minus]) = true.
Proof. intros H. unfold dash_ident_b. rewrite rev_unit, N.eqb_refl, rev_involutive. exact H. Qed.

(** texts of a shaped input *)
Lemma shape_text fuel s x : shape_ok d fuel s x ->
  s = sh_id x ++ chain_text c_colon (sh_colon x) ++ chain_text c_slash (sh_slash x) ++ sh_ver x ++ sh_rest x.
Proof. intros (-> & _). reflexivity. Qed.

Lemma scan_result_class fuel s x k n :
  shape_ok d fuel s x -> scan_result d x = ScanTok k n -> token_class d k (firstn n s) = true.
Proof.
  intros Hx. pose proof (shape_text _ _ _ Hx) as Hs.
  destruct Hx as (_ & Hi & _ & _ & HidsC & _ & _ & _ & HidsP & _ & _ & _ & Hv & _).
  unfold scan_result. cbv zeta. destruct (head_is c_minus (after_id x)) eqn:Ehd.
  - destruct (pkg_separator_zone d && is_keyword_prefix (sh_id x)); [discriminate|].
    destruct (head_is_inv _ _ Ehd) as (r' & Er). destruct (dangling_dash d) eqn:Edd.
    + intros H; inversion H; subst k n. unfold after_id in Er. rewrite Hs at 1.
      replace (chain_text c_colon (sh_colon x) ++ chain_text c_slash (sh_slash x) ++ sh_ver x ++ sh_rest x) with (c_minus :: r')
        by (rewrite <- Er; unfold after_colon; reflexivity).
      rewrite firstn_app_S. cbn [token_class]. rewrite Edd, dash_ident_intro by exact Hi. now rewrite orb_true_r.
    + intros H; inversion H; subst k n. rewrite Hs, firstn_app_exact. now apply kw_or_ident_class.
  - destruct (sh_colon x) as [|j segsC] eqn:EC.
    + destruct (head_is c_colon (after_id x) && keyword_colon d) eqn:Ekc.
      * intros H; inversion H; subst k n. rewrite Hs, firstn_app_exact. cbn [token_class].
        apply andb_true_iff in Ekc. destruct Ekc as [_ ->]. rewrite Hi. reflexivity.
      * intros H; inversion H; subst k n. rewrite Hs, firstn_app_exact. now apply kw_or_ident_class.
    + destruct (pkg_separator_zone d && _); [discriminate|]. destruct (sh_slash x) as [|p1 segsP] eqn:EP.
      * intros H; inversion H; subst k n. change (chain_text c_slash []) with (@nil N) in Hs. cbn [app] in Hs. rewrite Hs.
        replace (sh_id x ++ chain_text c_colon (j :: segsC) ++ sh_ver x ++ sh_rest x)
          with ((sh_id x ++ chain_text c_colon (j :: segsC) ++ sh_ver x) ++ sh_rest x) by now rewrite <- !app_assoc.
        rewrite firstn_app_exact. cbn [token_class rule_class]. apply pkg_name_intro; auto. discriminate.
      * intros H; inversion H; subst k n. rewrite Hs.
        replace (sh_id x ++ chain_text c_colon (j :: segsC) ++ chain_text c_slash (p1 :: segsP) ++ sh_ver x ++ sh_rest x)
          with ((sh_id x ++ chain_text c_colon (j :: segsC) ++ chain_text c_slash (p1 :: segsP) ++ sh_ver x) ++ sh_rest x)
          by now rewrite <- !app_assoc.
        rewrite firstn_app_exact. cbn [token_class rule_class]. apply pkg_path_intro; auto; discriminate.
Qed.

(** [lex_token_classes], for one call of [scan_token] *)
Theorem scan_token_class fuel s k n :
  length s < fuel -> scan_token cfg fuel s = ScanTok k n -> token_class d k (firstn n s) = true.
Proof.
  intros Hf. destruct (id_len au s) as [|n0] eqn:En.
  - rewrite scan_token_unfold. destruct s as [|c r]; [discriminate|]. destruct (c =? c_quote)%N eqn:Eq.
    + apply N.eqb_eq in Eq. subst c. destruct (find_char c_quote r) as [m|] eqn:Ef; [|discriminate].
      intros H; inversion H; subst k n. destruct (find_char_spec _ _ _ Ef) as (body & rest & -> & <- & Hb).
      change (firstn (S (S (length body))) (c_quote :: body ++ c_quote :: rest))
        with (c_quote :: firstn (S (length body)) (body ++ c_quote :: rest)).
      rewrite firstn_app_S. cbn [token_class rule_class]. now apply string_b_intro.
    + cbn [allow_upper cfg_with symbols]. rewrite En. destruct (best_symbol (symbols base) (c :: r)) as [[k' n']|] eqn:Eb; [|discriminate].
      intros H; inversion H; subst k' n'. destruct (best_symbol_spec _ _ _ _ Eb) as [(x & Hin & Hs & Hne & ->) _].
      rewrite (starts_with_firstn _ _ Hs). apply Htab in Hin. pose proof (sym_row d x k Hin) as Hr. unfold sym_row_ok in Hr.
      cbn [fst snd] in Hr. do 6 (apply andb_true_iff in Hr; destruct Hr as [Hr _]). apply andb_true_iff in Hr. now destruct Hr.
  - destruct (scan_token_shape_eq d base Htab fuel s Hf) as (x & Hx & ->); [congruence|]. intros H. eapply scan_result_class; eauto.
Qed.

(* ------------------------------------------------------------------ the unmodelled zone at scan_token level *)

Lemma word_stop_dash up r : word_stop d up (c_minus :: r) = true -> starts_word d r = false.
Proof.
  cbn [word_stop]. intros H. apply andb_true_iff in H. destruct H as [_ H]. apply negb_true_iff in H.
  rewrite N.eqb_refl in H. exact H.
Qed.

Lemma seq_In_1 n len : 1 <= n <= len -> In n (seq 1 len).
Proof. intros H. apply in_seq. lia. Qed.

Theorem scan_token_unmodelled fuel s :
  length s < fuel -> scan_token cfg fuel s = ScanUnmodelled -> pkg_separator_zone d = true /\ unmodelled_at d s = true.
Proof.
  intros Hf. destruct (id_len au s) as [|n0] eqn:En.
  { rewrite scan_token_unfold. destruct s as [|c r]; [discriminate|]. destruct (c =? c_quote)%N.
    - destruct (find_char c_quote r); discriminate.
    - cbn [allow_upper cfg_with symbols]. rewrite En. destruct (best_symbol (symbols base) (c :: r)) as [[k' n']|]; discriminate. }
  destruct (scan_token_shape_eq d base Htab fuel s Hf) as (x & Hx & ->); [congruence|].
  pose proof (shape_text _ _ _ Hx) as Hs.
  destruct Hx as (_ & Hi & _ & Hst & HidsC & _ & HnoC & HfolC & _).
  pose proof (id_b_not_nil d _ Hi) as Hne. assert (Hl1 : 1 <= length (sh_id x)) by (destruct (sh_id x); [congruence|cbn; lia]).
  unfold scan_result. cbv zeta. destruct (head_is c_minus (after_id x)) eqn:Ehd.
  - destruct (pkg_separator_zone d && is_keyword_prefix (sh_id x)) eqn:Ez; [|destruct (dangling_dash d); discriminate].
    intros _. apply andb_true_iff in Ez. destruct Ez as [Ez Ekp]. split; [exact Ez|].
    destruct (head_is_inv _ _ Ehd) as (r' & Er). unfold unmodelled_at. apply existsb_exists. exists (length (sh_id x)).
    assert (Hs' : s = sh_id x ++ c_minus :: r') by (rewrite Hs at 1; rewrite <- Er; reflexivity).
    split.
    + apply seq_In_1. rewrite Hs', app_length. cbn [length]. lia.
    + rewrite Hs', firstn_app_exact, skipn_app_exact, Hi, Ekp. cbn [dangling_dash_at andb]. rewrite N.eqb_refl.
      unfold id_follow in Hst. rewrite Er in Hst. rewrite (word_stop_dash _ _ Hst). now rewrite orb_true_r.
  - destruct (sh_colon x) as [|j segsC] eqn:EC.
    { destruct (head_is c_colon (after_id x) && keyword_colon d); discriminate. }
    rewrite <- EC in *. assert (HneC : sh_colon x <> []) by (rewrite EC; discriminate).
    destruct (pkg_separator_zone d && (head_is c_minus (after_colon x) || head_is c_colon (after_colon x))) eqn:Ez;
      [|destruct (sh_slash x); discriminate].
    intros _. apply andb_true_iff in Ez. destruct Ez as [Ez Ehd2]. split; [exact Ez|].
    set (p := sh_id x ++ chain_text c_colon (sh_colon x)).
    assert (Hs' : s = p ++ after_colon x) by (rewrite Hs at 1; unfold p, after_colon; now rewrite <- app_assoc).
    assert (Hac : exists c r', after_colon x = c :: r' /\ dangling_sep d (c :: r') = true).
    { apply orb_true_iff in Ehd2. destruct Ehd2 as [E|E]; destruct (head_is_inv _ _ E) as (r' & Er); rewrite Er in *.
      - exists c_minus, r'. split; [reflexivity|]. cbn [dangling_sep]. rewrite N.eqb_refl. specialize (HfolC HneC).
        unfold id_follow in HfolC. rewrite (word_stop_dash _ _ HfolC). reflexivity.
      - exists c_colon, r'. split; [reflexivity|]. cbn [dangling_sep]. cbn [no_seg] in HnoC. rewrite N.eqb_refl in *.
        cbn [andb] in *. rewrite HnoC. now rewrite orb_true_r. }
    destruct Hac as (c & r' & Er & Hdang).
    unfold unmodelled_at. apply existsb_exists. exists (length p). split.
    + apply seq_In_1. rewrite Hs', Er, !app_length. unfold p. rewrite app_length. cbn [length]. lia.
    + rewrite Hs', firstn_app_exact, skipn_app_exact, Er, Hdang. unfold p. rewrite pkg_core_intro; auto.
Qed.

End Classes.

(* ------------------------------------------------------------------ the run of lex_loop *)

(** A text at which a token starts: no white space, no comment opener. *)
Definition at_token (s : str) : bool :=
  match s with
  | c :: r => negb (is_ws c) &&
              negb ((c =? c_slash)%N && match r with c2 :: _ => (c2 =? c_slash)%N || (c2 =? c_star)%N | [] => false end)
  | [] => false
  end.

Lemma skip_gap_at_token fuel : forall o s alive docs o' s' docs',
  skip_gap fuel o s alive docs = GapOk o' s' docs' -> s' = [] \/ at_token s' = true.
Proof.
  induction fuel as [|f IH]; intros o s alive docs o' s' docs'; cbn [skip_gap]; [discriminate|].
  destruct s as [|c r]; [intros H; inversion H; now left|].
  destruct (is_ws c) eqn:Ews; [apply IH|].
  destruct (c =? c_slash)%N eqn:Esl.
  2:{ intros H; inversion H; subst. right. cbn [at_token]. now rewrite Ews, Esl. }
  destruct r as [|c2 r2].
  { intros H; inversion H; subst. right. cbn [at_token]. now rewrite Ews, Esl. }
  destruct (c2 =? c_slash)%N eqn:E2.
  { destruct (push_doc alive docs _ o); [apply IH|discriminate]. }
  destruct (c2 =? c_star)%N eqn:E3.
  { destruct (block_comment_length r2); [|discriminate]. destruct (push_doc alive docs _ o); [apply IH|discriminate]. }
  intros H; inversion H; subst. right. cbn [at_token]. now rewrite Ews, Esl, E2, E3.
Qed.

Inductive lexrun (cfg : lexcfg) : N -> str -> list lexitem -> Prop :=
| lr_end o g : skippable g -> lexrun cfg o g []
| lr_tok o g s1 fuel k n docs items :
    skippable g -> at_token s1 = true -> length s1 < fuel -> scan_token cfg fuel s1 = ScanTok k n ->
    lexrun cfg (o + byte_len g + byte_len (firstn n s1))%N (skipn n s1) items ->
    lexrun cfg o (g ++ s1)
      (LTok {| tk := k; tsp := {| off := (o + byte_len g)%N; slen := byte_len (firstn n s1) |};
               ttext := firstn n s1; tdocs := docs |} :: items)
| lr_scan_err o g s1 fuel e n :
    skippable g -> at_token s1 = true -> length s1 < fuel -> scan_token cfg fuel s1 = ScanErr e n ->
    lexrun cfg o (g ++ s1) [LErr e {| off := (o + byte_len g)%N; slen := n |}]
| lr_unmodelled o g s1 fuel :
    skippable g -> at_token s1 = true -> length s1 < fuel -> scan_token cfg fuel s1 = ScanUnmodelled ->
    lexrun cfg o (g ++ s1) [LUnmodelled {| off := (o + byte_len g)%N; slen := 0 |}]
| lr_gap_err o g rest e sp :
    skippable g -> off sp = (o + byte_len g)%N -> lexrun cfg o (g ++ rest) [LErr e sp].

Lemma lex_loop_run cfg : forall fuel o s, length s < fuel -> lexrun cfg o s (lex_loop fuel cfg o s).
Proof.
  induction fuel as [|f IH]; intros o s Hf; [lia|]. cbn [lex_loop].
  pose proof (skip_gap_fine (S f) o s true [] Hf) as Hfine.
  destruct (skip_gap (S f) o s true []) as [o1 s1 docs|e sp| |] eqn:Eg; cbn [gap_fine] in Hfine; try contradiction.
  - pose proof (skip_gap_at_token _ _ _ _ _ _ _ _ Eg) as Hat.
    apply skip_gap_ok in Eg. destruct Eg as (g & -> & Hg & ->).
    destruct s1 as [|c1 r1]; [rewrite app_nil_r; now constructor|].
    destruct Hat as [Hat|Hat]; [discriminate|].
    rewrite app_length in Hf.
    destruct (scan_token cfg (S f) (c1 :: r1)) as [k n|e n|] eqn:Es.
    + pose proof (scan_token_bound _ _ _ _ _ Es) as [Hn1 Hn2].
      apply (lr_tok cfg o g (c1 :: r1) (S f) k n docs _ Hg Hat); [lia|exact Es|]. apply IH. rewrite skipn_length. lia.
    + apply (lr_scan_err cfg o g (c1 :: r1) (S f) e n Hg Hat); [lia|exact Es].
    + apply (lr_unmodelled cfg o g (c1 :: r1) (S f) Hg Hat); [lia|exact Es].
  - apply skip_gap_err in Eg. destruct Eg as (g & rest & -> & Hg & Ho). now apply lr_gap_err.
Qed.

Lemma lex_run cfg src : screen cfg src = None -> lexrun cfg 0%N src (lex cfg src).
Proof. intros Hs. unfold lex. rewrite Hs. apply lex_loop_run. lia. Qed.

(** A property of the items that holds for the results of [scan_token] holds along the run. The
    position of each item: [pre] is the source text before the remaining input [s1]. *)
Lemma lexrun_items cfg (P : str -> str -> lexitem -> Prop) :
  (forall pre s1 fuel k n t, length s1 < fuel -> at_token s1 = true -> scan_token cfg fuel s1 = ScanTok k n ->
     tk t = k -> ttext t = firstn n s1 -> off (tsp t) = byte_len pre -> slen (tsp t) = byte_len (firstn n s1) ->
     P pre s1 (LTok t)) ->
  (forall pre s1 fuel e n, length s1 < fuel -> scan_token cfg fuel s1 = ScanErr e n ->
     P pre s1 (LErr e {| off := byte_len pre; slen := n |})) ->
  (forall pre s1 fuel, length s1 < fuel -> scan_token cfg fuel s1 = ScanUnmodelled ->
     P pre s1 (LUnmodelled {| off := byte_len pre; slen := 0 |})) ->
  (forall pre rest e sp, off sp = byte_len pre -> P pre rest (LErr e sp)) ->
  forall o s items, lexrun cfg o s items ->
  forall pre0, o = byte_len pre0 ->
  Forall (fun it => exists pre s1, pre0 ++ s = pre ++ s1 /\ P pre s1 it) items.
Proof.
  intros Htok Herr Hun Hgap. induction 1 as [o g Hg|o g s1 fuel k n docs items Hg Hat Hf Hs Hrun IH|o g s1 fuel e n Hg Hat Hf Hs
                                            |o g s1 fuel Hg Hat Hf Hs|o g rest e sp Hg Ho]; intros pre0 Hpre.
  - constructor.
  - constructor.
    + exists (pre0 ++ g), s1. split; [now rewrite app_assoc|].
      eapply Htok; eauto; cbn [tsp off slen]; rewrite ?byte_len_app; subst; reflexivity.
    + specialize (IH ((pre0 ++ g) ++ firstn n s1)). eapply Forall_impl; [|apply IH].
      * intros it (pre & s2 & He & Hp). exists pre, s2. split; [|exact Hp]. rewrite <- He, <- !app_assoc.
        now rewrite (firstn_skipn n s1).
      * rewrite !byte_len_app. subst o. reflexivity.
  - constructor; [|constructor]. exists (pre0 ++ g), s1. split; [now rewrite app_assoc|].
    replace (o + byte_len g)%N with (byte_len (pre0 ++ g)) by (rewrite byte_len_app; subst; reflexivity). eapply Herr; eauto.
  - constructor; [|constructor]. exists (pre0 ++ g), s1. split; [now rewrite app_assoc|].
    replace (o + byte_len g)%N with (byte_len (pre0 ++ g)) by (rewrite byte_len_app; subst; reflexivity). eapply Hun; eauto.
  - constructor; [|constructor]. exists (pre0 ++ g), rest. split; [now rewrite app_assoc|]. apply Hgap.
    rewrite byte_len_app, Ho. subst. reflexivity.
Qed.

(* ------------------------------------------------------------------ theorems about lex *)

Lemma In_tails (pre s : str) : In s (tails (pre ++ s)).
Proof.
  induction pre as [|c pre IH]; cbn [app].
  - destruct s; cbn [tails]; now left.
  - cbn [tails]. now right.
Qed.

Section Lex.
Variable d : deviations.
Variable base : lexcfg.
Hypothesis Htab : tables_ok base.
Notation cfg := (cfg_with d base).

(** [lex_token_classes] *)
Theorem lex_token_classes_proof src :
  Forall (fun it => match it with LTok t => token_class d (tk t) (ttext t) = true | _ => True end) (lex cfg src).
Proof.
  destruct (screen cfg src) as [[e sp]|] eqn:Es.
  { unfold lex. rewrite Es. constructor; [exact I|constructor]. }
  pose proof (lexrun_items cfg (fun _ _ it => match it with LTok t => token_class d (tk t) (ttext t) = true | _ => True end))
    as H.
  specialize (H ltac:(intros pre s1 fuel k n t Hf _ Hs <- ->; intros; eapply scan_token_class; eauto)
                ltac:(intros; exact I) ltac:(intros; exact I) ltac:(intros; exact I) _ _ _ (lex_run cfg src Es) [] eq_refl).
  eapply Forall_impl; [|exact H]. intros it (pre & s1 & _ & Hp). exact Hp.
Qed.

(** [lex_no_fuel_item] *)
Theorem lex_no_fuel_item_proof src :
  ~ In LFuel (lex cfg src) /\ ~ In LPanic (lex cfg src) /\
  (forall sp, In (LUnmodelled sp) (lex cfg src) ->
     pkg_separator_zone d = true /\
     exists pre s1, src = pre ++ s1 /\ sp = {| off := byte_len pre; slen := 0 |} /\ unmodelled_at d s1 = true) /\
  (unmodelled_zone d src = false -> forall sp, ~ In (LUnmodelled sp) (lex cfg src)).
Proof.
  assert (Hmain : Forall (fun it => match it with
                    | LFuel | LPanic => False
                    | LUnmodelled sp => pkg_separator_zone d = true /\
                        exists pre s1, src = pre ++ s1 /\ sp = {| off := byte_len pre; slen := 0 |} /\ unmodelled_at d s1 = true
                    | _ => True end) (lex cfg src)).
  { destruct (screen cfg src) as [[e sp]|] eqn:Es.
    { unfold lex. rewrite Es. constructor; [exact I|constructor]. }
    pose proof (lexrun_items cfg (fun pre s1 it => match it with
                    | LFuel | LPanic => False
                    | LUnmodelled sp => pkg_separator_zone d = true /\ sp = {| off := byte_len pre; slen := 0 |} /\ unmodelled_at d s1 = true
                    | _ => True end)) as H.
    specialize (H ltac:(intros; exact I) ltac:(intros; exact I)
                  ltac:(intros pre s1 fuel Hf Hs; destruct (scan_token_unmodelled d base Htab fuel s1 Hf Hs); auto)
                  ltac:(intros; exact I) _ _ _ (lex_run cfg src Es) [] eq_refl).
    eapply Forall_impl; [|exact H]. intros it (pre & s1 & He & Hp). destruct it; auto.
    destruct Hp as (Hz & Hsp & Hu). split; [exact Hz|]. exists pre, s1. cbn [app] in He. auto. }
  rewrite Forall_forall in Hmain. split; [|split; [|split]].
  - intros H. exact (Hmain _ H).
  - intros H. exact (Hmain _ H).
  - intros sp H. exact (Hmain _ H).
  - intros Hz sp H. destruct (Hmain _ H) as (Hf & pre & s1 & -> & _ & Hu). unfold unmodelled_zone in Hz.
    rewrite Hf in Hz. cbn [andb] in Hz.
    assert (existsb (unmodelled_at d) (tails (pre ++ s1)) = true) by (apply existsb_exists; exists s1; split; [apply In_tails|exact Hu]).
    congruence.
Qed.

End Lex.
