(** C13: the text the (repaired) printer writes for a parsed document passes the lexer's screening:
    it consists of ASCII literals, blanks, line feeds, slices of the (screened) source, and lines of
    doc comments whose characters are source characters. Also: the token predicate [lexed] that the
    lexer's output satisfies (accurate span, produced by [scan_token], doc characters from the source)
    and its transport to the printer's commands. *)
From WacV Require Import Str Token Lexer LexTables LexImpl LexerSound Semver Ast Parser Grammar ParserComb ParserProofs ParserTop.
From WacV Require Import Printer PrintSpec PrinterText PrinterProofs PrinterWf PrinterLexFacts PrinterLeaves.
From Coq Require Import Lia.
Local Open Scope nat_scope.

Lemma drop_bytes_incl s : forall n s', drop_bytes s n = Some s' -> incl s' s.
Proof.
  induction s as [|c s IH]; intros n s'; cbn [drop_bytes].
  - destruct (n =? 0)%N; [intros H; inversion H; apply incl_refl|discriminate].
  - destruct (n =? 0)%N; [intros H; inversion H; apply incl_refl|].
    destruct (utf8_len c <=? n)%N; [|discriminate]. intros H x Hx. right. eapply IH; eauto.
Qed.

Lemma take_bytes_incl s : forall n t, take_bytes s n = Some t -> incl t s.
Proof.
  induction s as [|c s IH]; intros n t; cbn [take_bytes].
  - destruct (n =? 0)%N; [intros H; inversion H; intros x []|discriminate].
  - destruct (n =? 0)%N; [intros H; inversion H; intros x []|].
    destruct (utf8_len c <=? n)%N; [|discriminate].
    destruct (take_bytes s (n - utf8_len c)) eqn:E; [|discriminate]. intros H; inversion H; subst.
    intros x [<-|Hx]; [now left|right; eapply IH; eauto].
Qed.

Lemma slice_incl src sp t : slice src sp = Some t -> incl t src.
Proof.
  unfold slice. destruct (drop_bytes src (off sp)) eqn:E; [|discriminate]. intros H x Hx.
  eapply drop_bytes_incl; eauto. eapply take_bytes_incl; eauto.
Qed.

Lemma split_on_incl c s : Forall (fun seg => incl seg s) (split_on c s).
Proof.
  induction s as [|x s IH]; cbn [split_on]; [constructor; [apply incl_refl|constructor]|].
  destruct (x =? c)%N.
  - constructor; [intros y []|]. eapply Forall_impl; [|exact IH]. intros seg H y Hy. right. auto.
  - destruct (split_on c s) as [|seg segs]; [constructor; [intros y [<-|[]]; now left|constructor]|].
    inversion IH; subst. constructor.
    + intros y [<-|Hy]; [now left|right; auto].
    + eapply Forall_impl; [|eassumption]. intros sg H y Hy. right. auto.
Qed.

Lemma doc_norm_text_incl text l : In l (doc_norm_text text) -> incl l text.
Proof.
  unfold doc_norm_text. intros H. apply filter_In in H. destruct H as [H _]. apply in_map_iff in H.
  destruct H as (seg & <- & Hs). pose proof (split_on_incl c_nl text) as Hf. rewrite Forall_forall in Hf.
  intros x Hx. apply (Hf _ Hs). now apply In_trim in Hx.
Qed.

(* ------------------------------------------------------------------ what the lexer's tokens satisfy *)

Definition lexed (src : str) (t : rtoken) : Prop :=
  slice src (tsp t) = Some (ttext t) /\ tokfact impl_cfg src t.

Lemma lex_lexed src : Forall (acc2 (lexed src)) (lex impl_cfg src).
Proof.
  pose proof (lex_acc impl_cfg src) as H1. pose proof (lex_facts impl_cfg src src eq_refl) as H2.
  unfold Acc in H1. induction H1 as [|it l Hit _ IH]; [constructor|]. inversion H2; subst. constructor; [|auto].
  destruct it; cbn in *; auto. split; auto.
Qed.

(** The commands of a parsed document satisfy any property that holds of fixed commands and of the
    copies / doc lines of lexed tokens. *)
Theorem parsed_commands src doc r (P : cmd -> Prop) :
  parse_document impl_flags impl_cfg src = POk doc r ->
  (forall k, P (CTok k)) -> P CSp -> P CIndent -> P CNewline -> P CRawNl -> P CInc -> P CDec ->
  (forall t, lexed src t -> P (CSrc (tk t) (tsp t))) ->
  (forall t, lexed src t -> Forall P (p_docs repaired (tdocs t))) ->
  Forall P (p_document repaired doc).
Proof.
  intros H. apply parse_document_sound in H. destruct H as [_ H]. intros.
  eapply (l_document (lexed src) P); eauto. apply lex_lexed.
Qed.

(* ------------------------------------------------------------------ screening of the printed text *)

Definition okcb (c : N) : bool := match arm_verdict (arms impl_cfg) c with None => true | Some _ => false end.
Lemma okcb_ok c : okcb c = true <-> okc impl_cfg c.
Proof. unfold okcb, okc. destruct (arm_verdict (arms impl_cfg) c); split; congruence. Qed.

Lemma fixed_text_ok k : Forall (okc impl_cfg) (fixed_text k).
Proof.
  assert (H : forallb okcb (fixed_text k) = true) by (destruct k; vm_compute; reflexivity).
  rewrite forallb_forall in H. apply Forall_forall. intros c Hc. apply okcb_ok. auto.
Qed.

Definition clean_cmd (src : str) (c : cmd) : Prop :=
  match c with
  | CSrc _ sp => forall t, slice src sp = Some t -> Forall (okc impl_cfg) t
  | CDoc l => Forall (okc impl_cfg) l
  | _ => True
  end.

Lemma layout_clean src cs : Forall (clean_cmd src) cs ->
  forall ind b ps, layout src ind b cs = Some ps -> Forall (okc impl_cfg) (text_of ps).
Proof.
  assert (Hsp : okc impl_cfg 32%N) by (apply okcb_ok; vm_compute; reflexivity).
  assert (Hnl : okc impl_cfg c_nl) by (apply okcb_ok; vm_compute; reflexivity).
  assert (Hpre : Forall (okc impl_cfg) doc_prefix).
  { apply Forall_forall. intros c Hc. apply okcb_ok. revert c Hc. apply forallb_forall. vm_compute. reflexivity. }
  assert (Hind : forall n, Forall (okc impl_cfg) (indent_text n)).
  { induction n as [|n IHn]; [constructor|]. cbn [indent_text]. apply Forall_app. split; [|exact IHn].
    repeat constructor; exact Hsp. }
  induction 1 as [|c cs Hc _ IH]; intros ind b ps H; cbn [layout] in H; [inversion H; constructor|].
  destruct c; cbn [clean_cmd] in Hc.
  - destruct (layout src ind b cs) eqn:E; inversion H; subst. cbn [text_of flat_map piece_text]. apply Forall_app.
    split; [apply fixed_text_ok|eapply IH; eauto].
  - destruct (slice src sp) eqn:Es; [|discriminate]. destruct (layout src ind b cs) eqn:E; inversion H; subst.
    cbn [text_of flat_map piece_text]. apply Forall_app. split; [auto|eapply IH; eauto].
  - destruct (layout src ind b cs) eqn:E; inversion H; subst. cbn [text_of flat_map piece_text app].
    constructor; [exact Hsp|eapply IH; eauto].
  - destruct (layout src ind false cs) as [l0|] eqn:E; [|destruct b; discriminate].
    assert (Hd : Forall (okc impl_cfg) (doc_prefix ++ line ++ [c_nl])).
    { apply Forall_app. split; [exact Hpre|]. apply Forall_app. split; [exact Hc|repeat constructor; exact Hnl]. }
    destruct b; inversion H; subst; cbn [text_of flat_map piece_text]; repeat (apply Forall_app; split); auto;
      eapply IH; eauto.
  - destruct b; [eapply IH; eauto|]. destruct (layout src ind true cs) eqn:E; inversion H; subst.
    cbn [text_of flat_map piece_text]. apply Forall_app. split; [apply Hind|eapply IH; eauto].
  - destruct (layout src ind false cs) eqn:E; inversion H; subst. cbn [text_of flat_map piece_text app].
    constructor; [exact Hnl|eapply IH; eauto].
  - destruct (layout src ind b cs) eqn:E; inversion H; subst. cbn [text_of flat_map piece_text app].
    constructor; [exact Hnl|eapply IH; eauto].
  - eapply IH; eauto.
  - eapply IH; eauto.
Qed.

Theorem print_screen src doc r ps :
  parse_document impl_flags impl_cfg src = POk doc r -> print_pieces repaired src doc = Some ps ->
  screen impl_cfg (text_of ps) = None.
Proof.
  intros Hparse Hp. apply screen_none. unfold print_pieces in Hp. eapply layout_clean; [|exact Hp].
  pose proof (parse_ok_screen _ _ _ _ _ Hparse) as Hsc. change (cfg_with impl_flags impl_cfg) with impl_cfg in Hsc.
  apply screen_none in Hsc. rewrite Forall_forall in Hsc.
  apply (parsed_commands src doc r (clean_cmd src) Hparse); try exact I; try (intros; exact I).
  - intros t [Hs _]. cbn [clean_cmd]. intros t' Ht'. apply Forall_forall. intros c Hc. apply Hsc.
    eapply slice_incl; eauto.
  - intros t [_ [_ Hd]]. unfold p_docs. rewrite Forall_forall in Hd.
    apply Forall_forall. intros c Hc. apply in_flat_map in Hc. destruct Hc as (dc & Hdc & Hc).
    apply in_map_iff in Hc. destruct Hc as (l & <- & Hl). cbn [clean_cmd].
    rewrite doc_lines_repaired in Hl. apply doc_norm_text_incl in Hl.
    apply Forall_forall. intros x Hx. apply Hsc. apply (Hd _ Hdc). auto.
Qed.
