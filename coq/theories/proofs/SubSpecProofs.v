(** Facts about the specification SubSpec.v: the decision procedure decides the declarative relation;
    value types are invariant; reflexivity, transitivity; independence of the resource parameter on
    resource-free trees. *)
From Coq Require Import ZArith ZifyBool ZifyN Lia.
From WacV Require Import Str Types SubSpec CheckerEq.

(** * Induction principle for the nested [vtree] *)
Definition OptP {A} (P : A -> Prop) (o : option A) : Prop := match o with Some x => P x | None => True end.

Section VtreeInd.
  Variable P : vtree -> Prop.
  Hypothesis Hprim : forall p, P (VTPrim p).
  Hypothesis Hborrow : forall n, P (VTBorrow n).
  Hypothesis Hown : forall n, P (VTOwn n).
  Hypothesis Htuple : forall l, Forall P l -> P (VTTuple l).
  Hypothesis Hlist : forall t, P t -> P (VTList t).
  Hypothesis Hfsl : forall t n, P t -> P (VTFsl t n).
  Hypothesis Hoption : forall t, P t -> P (VTOption t).
  Hypothesis Hresult : forall o e, OptP P o -> OptP P e -> P (VTResult o e).
  Hypothesis Hvariant : forall c, Forall (fun kv => OptP P (snd kv)) c -> P (VTVariant c).
  Hypothesis Hrecord : forall f, Forall (fun kv => P (snd kv)) f -> P (VTRecord f).
  Hypothesis Hflags : forall l, P (VTFlags l).
  Hypothesis Henum : forall l, P (VTEnum l).
  Hypothesis Hstream : forall o, OptP P o -> P (VTStream o).
  Hypothesis Hfuture : forall o, OptP P o -> P (VTFuture o).

  Fixpoint vtree_rect' (t : vtree) : P t :=
    let opt (o : option vtree) : OptP P o :=
        match o return OptP P o with Some x => vtree_rect' x | None => I end in
    match t return P t with
    | VTPrim p => Hprim p
    | VTBorrow n => Hborrow n
    | VTOwn n => Hown n
    | VTTuple l => Htuple l ((fix go (l : list vtree) : Forall P l :=
                                match l return Forall P l with
                                | [] => Forall_nil _
                                | x :: r => Forall_cons x (vtree_rect' x) (go r)
                                end) l)
    | VTList x => Hlist x (vtree_rect' x)
    | VTFsl x n => Hfsl x n (vtree_rect' x)
    | VTOption x => Hoption x (vtree_rect' x)
    | VTResult o e => Hresult o e (opt o) (opt e)
    | VTVariant c => Hvariant c ((fix go (l : list (str * option vtree)) : Forall (fun kv => OptP P (snd kv)) l :=
                                    match l return Forall (fun kv => OptP P (snd kv)) l with
                                    | [] => Forall_nil _
                                    | (k, o) :: r => Forall_cons (k, o) (opt o) (go r)
                                    end) c)
    | VTRecord f => Hrecord f ((fix go (l : list (str * vtree)) : Forall (fun kv => P (snd kv)) l :=
                                  match l return Forall (fun kv => P (snd kv)) l with
                                  | [] => Forall_nil _
                                  | (k, x) :: r => Forall_cons (k, x) (vtree_rect' x) (go r)
                                  end) f)
    | VTFlags l => Hflags l
    | VTEnum l => Henum l
    | VTStream o => Hstream o (opt o)
    | VTFuture o => Hfuture o (opt o)
    end.
End VtreeInd.

(** * The decision procedure for value types *)
Section Decide.
  Variable RES : str -> str -> Prop.
  Variable res_b : str -> str -> bool.
  Hypothesis res_b_iff : forall n m, res_b n m = true <-> RES n m.

  Lemma opt2_case {A} (P : A -> A -> Prop) (p : A -> A -> bool) (a b : option A) :
    OptP (fun x => forall y, p x y = true <-> P x y) a ->
    (match a, b with None, None => true | Some u, Some v => p u v | _, _ => false end = true <-> Opt2 P a b).
  Proof.
    destruct a as [x|], b as [y|]; cbn [OptP]; intro H.
    - rewrite H. split; [now constructor | now inversion 1].
    - split; [discriminate | inversion 1].
    - split; [discriminate | inversion 1].
    - split; [constructor | reflexivity].
  Qed.

  Lemma vsub_b_iff a : forall b, vsub_b res_b a b = true <-> VSub RES a b.
  Proof.
    induction a using vtree_rect'; intros b; destruct b; cbn [vsub_b];
      try (split; [discriminate | now inversion 1]).
    - rewrite primeqb_eq. split; [intros ->; constructor | now inversion 1].
    - rewrite res_b_iff. split; [now constructor | now inversion 1].
    - rewrite res_b_iff. split; [now constructor | now inversion 1].
    - (* tuple *)
      rename l0 into m. revert m. induction H as [|x l Hx Hl IH]; intros [|y m].
      + split; [constructor; constructor | reflexivity].
      + split; [discriminate | inversion 1 as [| | |? ? F| | | | | | | | | |]; inversion F].
      + split; [discriminate | inversion 1 as [| | |? ? F| | | | | | | | | |]; inversion F].
      + rewrite andb_true_iff, Hx, IH. split.
        * intros [H1 H2]. inversion H2; subst. constructor. now constructor.
        * inversion 1 as [| | |? ? F| | | | | | | | | |]; subst. inversion F; subst. split; [assumption | now constructor].
    - rewrite IHa. split; [now constructor | now inversion 1].
    - rewrite andb_true_iff, N.eqb_eq, IHa. split; [intros [-> ?]; now constructor | inversion 1; now subst].
    - rewrite IHa. split; [now constructor | now inversion 1].
    - rewrite andb_true_iff, (opt2_case (VSub RES)), (opt2_case (VSub RES)) by assumption.
      split; [intros [? ?]; now constructor | now inversion 1].
    - (* variant *)
      rename c0 into m. revert m. induction H as [|[k o] l Hx Hl IH]; intros [|[k' o'] m].
      + split; [constructor; constructor | reflexivity].
      + split; [discriminate | inversion 1 as [| | | | | | | |? ? F| | | | |]; inversion F].
      + split; [discriminate | inversion 1 as [| | | | | | | |? ? F| | | | |]; inversion F].
      + rewrite !andb_true_iff, seqb_eq, IH. cbn [snd] in Hx. rewrite (opt2_case (VSub RES)) by assumption. split.
        * intros [[H1 H2] H3]. inversion H3; subst. constructor. constructor; [now split | assumption].
        * inversion 1 as [| | | | | | | |? ? F| | | | |]; subst. inversion F as [|? ? ? ? [E1 E2] F']; subst.
          cbn [fst snd] in *. repeat split; try assumption. now constructor.
    - (* record *)
      rename f0 into m. revert m. induction H as [|[k o] l Hx Hl IH]; intros [|[k' o'] m].
      + split; [constructor; constructor | reflexivity].
      + split; [discriminate | inversion 1 as [| | | | | | | | |? ? F| | | |]; inversion F].
      + split; [discriminate | inversion 1 as [| | | | | | | | |? ? F| | | |]; inversion F].
      + rewrite !andb_true_iff, seqb_eq, IH. cbn [snd] in Hx. rewrite Hx. split.
        * intros [[H1 H2] H3]. inversion H3; subst. constructor. constructor; [now split | assumption].
        * inversion 1 as [| | | | | | | | |? ? F| | | |]; subst. inversion F as [|? ? ? ? [E1 E2] F']; subst.
          cbn [fst snd] in *. repeat split; try assumption. now constructor.
    - rewrite (listeqb_eq _ seqb_eq). split; [intros ->; constructor | now inversion 1].
    - rewrite (listeqb_eq _ seqb_eq). split; [intros ->; constructor | now inversion 1].
    - rewrite (opt2_case (VSub RES)) by assumption. split; [now constructor | now inversion 1].
    - rewrite (opt2_case (VSub RES)) by assumption. split; [now constructor | now inversion 1].
  Qed.
End Decide.

(** * Value types are invariant; changing the resource parameter *)
Lemma Forall2_from_Forall {A} (P Q : A -> A -> Prop) l : forall m,
  Forall (fun x => forall y, P x y -> Q x y) l -> Forall2 P l m -> Forall2 Q l m.
Proof.
  induction l as [|x l IH]; intros m HF H2; inversion H2; subst; constructor.
  - inversion HF; subst. auto.
  - inversion HF; subst. auto.
Qed.
Lemma Opt2_from_OptP {A} (P Q : A -> A -> Prop) (a b : option A) :
  OptP (fun x => forall y, P x y -> Q x y) a -> Opt2 P a b -> Opt2 Q a b.
Proof. intros H1 H2; inversion H2; subst; constructor. cbn in H1. auto. Qed.

Lemma vt_resfree_opt (o : option vtree) :
  match o with Some y => vt_resfree y | None => true end = true -> OptP (fun x => vt_resfree x = true) o.
Proof. destruct o; cbn; auto. Qed.

Lemma VSub_change (R R' : str -> str -> Prop) a : forall b,
  (vt_resfree a = true \/ (forall n m, R n m -> R' n m)) -> VSub R a b -> VSub R' a b.
Proof.
  induction a using vtree_rect'; intros b Hc HS; inversion HS; subst; try (constructor; fail).
  - destruct Hc as [Hc|Hc]; [discriminate | constructor; auto].
  - destruct Hc as [Hc|Hc]; [discriminate | constructor; auto].
  - constructor. eapply Forall2_from_Forall; [|eassumption].
    rewrite Forall_forall in *. intros x Hx y Hy. apply H; [assumption| |assumption].
    destruct Hc as [Hc|Hc]; [left|now right]. cbn [vt_resfree] in Hc. rewrite forallb_forall in Hc. auto.
  - constructor. apply IHa; auto.
  - constructor. apply IHa; auto.
  - constructor. apply IHa; auto.
  - assert (Ho : vt_resfree (VTResult o e) = true -> OptP (fun x => vt_resfree x = true) o /\ OptP (fun x => vt_resfree x = true) e).
    { cbn [vt_resfree]. intro E. apply andb_true_iff in E as [E1 E2]. split; now apply vt_resfree_opt. }
    constructor.
    + eapply Opt2_from_OptP; [|eassumption]. destruct o as [x|]; cbn [OptP] in *; [|exact I].
      intros y Hy. apply H; [|assumption]. destruct Hc as [Hc|Hc]; [left; now apply Ho | now right].
    + eapply Opt2_from_OptP; [|eassumption]. destruct e as [x|]; cbn [OptP] in *; [|exact I].
      intros y Hy. apply H0; [|assumption]. destruct Hc as [Hc|Hc]; [left; now apply Ho | now right].
  - constructor. eapply Forall2_from_Forall; [|eassumption].
    rewrite Forall_forall in *. intros [k o] Hx [k' o'] [E Hy]. split; [assumption|]. cbn [fst snd] in *.
    eapply Opt2_from_OptP; [|eassumption]. specialize (H _ Hx). cbn [snd] in H.
    destruct o as [x|]; cbn [OptP] in *; [|exact I]. intros y Hy'. apply H; [|assumption].
    destruct Hc as [Hc|Hc]; [left|now right]. cbn [vt_resfree] in Hc. rewrite forallb_forall in Hc.
    apply (Hc _ Hx).
  - constructor. eapply Forall2_from_Forall; [|eassumption].
    rewrite Forall_forall in *. intros [k o] Hx [k' o'] [E Hy]. split; [assumption|]. cbn [fst snd] in *.
    specialize (H _ Hx). cbn [snd] in H. apply H; [|assumption].
    destruct Hc as [Hc|Hc]; [left|now right]. cbn [vt_resfree] in Hc. rewrite forallb_forall in Hc.
    apply (Hc _ Hx).
  - constructor. eapply Opt2_from_OptP; [|eassumption]. destruct o as [x|]; cbn [OptP] in *; [|exact I].
    intros y Hy. apply H; [|assumption]. destruct Hc as [Hc|Hc]; [left; exact Hc | now right].
  - constructor. eapply Opt2_from_OptP; [|eassumption]. destruct o as [x|]; cbn [OptP] in *; [|exact I].
    intros y Hy. apply H; [|assumption]. destruct Hc as [Hc|Hc]; [left; exact Hc | now right].
Qed.

Lemma VSub_eq_refl a : VSub eq a a.
Proof.
  induction a using vtree_rect'; try (constructor; auto; fail).
  - constructor. induction H; constructor; auto.
  - constructor; [destruct o | destruct e]; constructor; cbn [OptP] in *; auto.
  - constructor. induction H as [|[k o] l Hx Hl IH]; constructor; auto. split; [reflexivity|].
    cbn [snd] in *. destruct o; constructor; auto.
  - constructor. induction H as [|[k o] l Hx Hl IH]; constructor; auto.
  - constructor. destruct o; constructor; auto.
  - constructor. destruct o; constructor; auto.
Qed.

Lemma VSub_eq_inv a : forall b, VSub eq a b -> a = b.
Proof.
  induction a using vtree_rect'; intros b HS; inversion HS; subst; try reflexivity; clear HS;
    repeat match goal with
           | F : Forall2 _ _ _ |- _ => revert F
           | F : Opt2 _ _ _ |- _ => revert F
           end.
  - intro F. f_equal. revert b0 F. induction H as [|x l Hx Hl IH]; intros m H2; inversion H2; subst; [reflexivity|].
    f_equal; auto.
  - f_equal; auto.
  - f_equal; auto.
  - f_equal; auto.
  - intros F1 F2. f_equal.
    + inversion F1; subst; [reflexivity|]. cbn [OptP] in H. f_equal; auto.
    + inversion F2; subst; [reflexivity|]. cbn [OptP] in H0. f_equal; auto.
  - intro F. f_equal. revert b0 F. induction H as [|[k o] l Hx Hl IH]; intros m H2; inversion H2 as [|? [k' o'] ? ? [E1 E2] F]; subst; [reflexivity|].
    cbn [fst snd] in *. subst. f_equal; [|auto]. f_equal. inversion E2; subst; [reflexivity|]. cbn [OptP] in Hx. f_equal; auto.
  - intro F. f_equal. revert b0 F. induction H as [|[k o] l Hx Hl IH]; intros m H2; inversion H2 as [|? [k' o'] ? ? [E1 E2] F]; subst; [reflexivity|].
    cbn [fst snd] in *. subst. f_equal; [|auto]. f_equal. auto.
  - intro F. f_equal. inversion F; subst; [reflexivity|]. cbn [OptP] in H. f_equal; auto.
  - intro F. f_equal. inversion F; subst; [reflexivity|]. cbn [OptP] in H. f_equal; auto.
Qed.

Theorem VSub_eq_iff a b : VSub eq a b <-> a = b.
Proof. split; [apply VSub_eq_inv | intros ->; apply VSub_eq_refl]. Qed.

(** * Core externs and modules *)
Lemma limits_b_iff ai am bi bm : limits_b ai am bi bm = true <-> limits_ok ai am bi bm.
Proof.
  unfold limits_b, limits_ok. rewrite andb_true_iff, N.leb_le.
  destruct bm as [y|]; [destruct am as [x|]|]; rewrite ?N.leb_le; intuition discriminate.
Qed.
Lemma pagecm_b_iff a b : pagecm_b a b = true <-> PageCM a b.
Proof. unfold pagecm_b, PageCM. apply N.eqb_eq. Qed.
Lemma popt_eqb_iff a b : popt_eqb a b = true <-> a = b.
Proof. apply optNeqb_eq. Qed.

Section Core.
  Variable PG : option N -> option N -> Prop.
  Variable pg_b : option N -> option N -> bool.
  Hypothesis pg_b_iff : forall a b, pg_b a b = true <-> PG a b.

  Lemma esub_b_iff a b : esub_b pg_b a b = true <-> ESub PG a b.
  Proof.
    destruct a, b; cbn [esub_b]; try (split; [discriminate | now inversion 1]).
    - rewrite cfeqb_eq. split; [intros ->; constructor | now inversion 1].
    - rewrite !andb_true_iff, refeqb_eq, limits_b_iff, !booleqb_eq. split.
      + intros [[[-> ?] ->] ->]. now constructor.
      + inversion 1; subst. auto.
    - rewrite !andb_true_iff, limits_b_iff, !booleqb_eq, pg_b_iff. split.
      + intros [[[-> ->] ?] ?]. now constructor.
      + inversion 1; subst. auto.
    - rewrite !andb_true_iff, cteqb_eq, !booleqb_eq. split.
      + intros [[-> ->] ->]. constructor.
      + inversion 1; subst. auto.
    - rewrite cfeqb_eq. split; [intros ->; constructor | now inversion 1].
  Qed.

  Lemma msub_b_iff a b : msub_b pg_b a b = true <-> MSub PG a b.
  Proof.
    unfold msub_b, MSub. rewrite andb_true_iff, !forallb_forall. split.
    - intros [H1 H2]. split.
      + intros k x Hin. specialize (H1 _ Hin). cbn [fst snd] in H1.
        destruct (assoc2 k (m_imports b)) as [y|]; [|discriminate]. exists y. split; [reflexivity | now apply esub_b_iff].
      + intros k y Hin. specialize (H2 _ Hin). cbn [fst snd] in H2.
        destruct (assoc k (m_exports a)) as [x|]; [|discriminate]. exists x. split; [reflexivity | now apply esub_b_iff].
    - intros [H1 H2]. split.
      + intros [k x] Hin. destruct (H1 _ _ Hin) as [y [E Hy]]. cbn [fst snd]. rewrite E. now apply esub_b_iff.
      + intros [k y] Hin. destruct (H2 _ _ Hin) as [x [E Hx]]. cbn [fst snd]. rewrite E. now apply esub_b_iff.
  Qed.

End Core.
Section CoreRefl.
  Variable PG : option N -> option N -> Prop.
  Hypothesis PG_refl : forall a, PG a a.

  Lemma ESub_refl a : ESub PG a a.
  Proof. destruct a; constructor; auto; unfold limits_ok; (split; [lia | destruct maximum; [lia | exact I]]). Qed.
  Lemma MSub_refl m : NoDup (keys (m_imports m)) -> NoDup (keys (m_exports m)) -> MSub PG m m.
  Proof.
    intros N1 N2. split.
    - intros k x Hin. exists x. split; [now apply in_assoc2 | apply ESub_refl].
    - intros k y Hin. exists y. split; [now apply in_assoc | apply ESub_refl].
  Qed.
End CoreRefl.
Section CoreTrans.
  Variable PG : option N -> option N -> Prop.
  Hypothesis PG_trans : forall a b c, PG a b -> PG b c -> PG a c.

  Lemma ESub_trans a b c : ESub PG a b -> ESub PG b c -> ESub PG a c.
  Proof.
    intros H1 H2; inversion H1; subst; inversion H2; subst; constructor; try (eapply PG_trans; eassumption); unfold limits_ok in *;
      repeat match goal with
             | H : _ /\ _ |- _ => destruct H
             | x : option N |- _ => destruct x
             end; try (split; try lia; try exact I); try contradiction.
  Qed.

  Lemma MSub_trans a b c : MSub PG a b -> MSub PG b c -> MSub PG a c.
  Proof.
    intros [I1 E1] [I2 E2]. split.
    - intros k x Hin. destruct (I1 _ _ Hin) as [y [Ey Hy]]. apply assoc2_in in Ey.
      destruct (I2 _ _ Ey) as [z [Ez Hz]]. exists z. split; [assumption | eapply ESub_trans; eassumption].
    - intros k z Hin. destruct (E2 _ _ Hin) as [y [Ey Hy]]. apply assoc_in in Ey.
      destruct (E1 _ _ Ey) as [x [Ex Hx]]. exists x. split; [assumption | eapply ESub_trans; eassumption].
  Qed.
End CoreTrans.

(** changing the page-size relation *)
Lemma ESub_change (PG PG' : option N -> option N -> Prop) (ok : coreextern -> Prop) a b :
  (forall x y m64 sh i1 m1 i2 m2, ok (CEMemory m64 sh i1 m1 x) -> ok (CEMemory m64 sh i2 m2 y) -> PG x y -> PG' x y) ->
  ok a -> ok b -> ESub PG a b -> ESub PG' a b.
Proof. intros H Oa Ob HS. inversion HS; subst; constructor; auto. eapply H; eassumption. Qed.

(** * Functions *)
Section DecideItems.
  Variable RES : str -> str -> Prop.
  Variable res_b : str -> str -> bool.
  Hypothesis res_b_iff : forall n m, res_b n m = true <-> RES n m.
  Variable PG : option N -> option N -> Prop.
  Variable pg_b : option N -> option N -> bool.
  Hypothesis pg_b_iff : forall a b, pg_b a b = true <-> PG a b.

  Lemma forall2_b_iff {A} (p : A -> A -> bool) (P : A -> A -> Prop) (Hp : forall x y, p x y = true <-> P x y) l :
    forall m, forall2_b p l m = true <-> Forall2 P l m.
  Proof.
    induction l as [|x l IH]; intros [|y m]; cbn [forall2_b].
    - split; [constructor | reflexivity].
    - split; [discriminate | inversion 1].
    - split; [discriminate | inversion 1].
    - rewrite andb_true_iff, Hp, IH. split; [intros []; now constructor | inversion 1; now subst].
  Qed.
  Lemma opt2_b_iff {A} (p : A -> A -> bool) (P : A -> A -> Prop) (Hp : forall x y, p x y = true <-> P x y) a b :
    opt2_b p a b = true <-> Opt2 P a b.
  Proof.
    destruct a, b; cbn [opt2_b].
    - rewrite Hp. split; [now constructor | now inversion 1].
    - split; [discriminate | inversion 1].
    - split; [discriminate | inversion 1].
    - split; [constructor | reflexivity].
  Qed.

  Lemma fsub_b_iff f g : fsub_b res_b f g = true <-> FSub RES f g.
  Proof.
    unfold fsub_b, FSub. rewrite !andb_true_iff, booleqb_eq.
    rewrite (forall2_b_iff _ (fun x y => fst x = fst y /\ VSub RES (snd x) (snd y))).
    - rewrite (opt2_b_iff _ (VSub RES)) by (intros; now apply vsub_b_iff). tauto.
    - intros x y. rewrite andb_true_iff, seqb_eq, (vsub_b_iff RES res_b res_b_iff). tauto.
  Qed.

  (** * Items *)
  Lemma list_max_le n l : (list_max l <= n)%nat <-> Forall (fun x => (x <= n)%nat) l.
  Proof.
    induction l as [|x l IH]; cbn [list_max]; split; intro H.
    - constructor. - lia.
    - constructor; [lia | apply IH; lia].
    - inversion H; subst. apply IH in H3. lia.
  Qed.
  Lemma depth_child (l : list (str * tree)) k x n :
    (list_max (map (fun kv => tdepth (snd kv)) l) <= n)%nat -> In (k, x) l -> (tdepth x <= n)%nat.
  Proof.
    intros H Hin. apply list_max_le in H. rewrite Forall_forall in H. apply H.
    apply in_map_iff. exists (k, x). split; [reflexivity | assumption].
  Qed.

  Definition cov_spec (ea eb : list (str * tree)) : Prop :=
    forall k b, In (k, b) eb -> exists a, assoc k ea = Some a /\ Sub RES PG a b.

  Lemma sub_f_iff n : forall a b, (tdepth a <= n)%nat -> (tdepth b <= n)%nat ->
    (sub_f res_b pg_b (S n) a b = true <-> Sub RES PG a b).
  Proof.
    induction n as [|n IH].
    - intros a b Ha Hb. destruct a; cbn [tdepth] in Ha; try lia.
    - intros a b Ha Hb.
      assert (Hcov : forall ea eb, (list_max (map (fun kv => tdepth (snd kv)) ea) <= n)%nat ->
                                   (list_max (map (fun kv => tdepth (snd kv)) eb) <= n)%nat ->
                forallb (fun kb => match assoc (fst kb) ea with
                                   | Some x => sub_f res_b pg_b (S n) x (snd kb) | None => false end) eb = true
                <-> cov_spec ea eb).
      { intros ea eb Hea Heb. unfold cov_spec. rewrite forallb_forall. split.
        - intros H k y Hin. specialize (H _ Hin). cbn [fst snd] in H.
          destruct (assoc k ea) as [x|] eqn:E; [|discriminate]. exists x. split; [reflexivity|].
          pose proof (depth_child ea k x n Hea (assoc_in _ _ _ E)) as Dx.
          pose proof (depth_child eb k y n Heb Hin) as Dy.
          now apply (proj1 (IH x y Dx Dy)).
        - intros H [k y] Hin. destruct (H _ _ Hin) as [x [E Hx]]. cbn [fst snd]. rewrite E.
          pose proof (depth_child ea k x n Hea (assoc_in _ _ _ E)) as Dx.
          pose proof (depth_child eb k y n Heb Hin) as Dy.
          now apply (proj2 (IH x y Dx Dy)). }
      destruct a, b; cbn [sub_f]; try (split; [discriminate | now inversion 1]); cbn [tdepth] in Ha, Hb.
      + rewrite fsub_b_iff. split; [now constructor | now inversion 1].
      + rewrite Hcov by lia. split; [now constructor | now inversion 1].
      + rewrite andb_true_iff, !Hcov by lia. split; [intros []; now constructor | now inversion 1].
      + rewrite (msub_b_iff PG pg_b pg_b_iff). split; [now constructor | now inversion 1].
      + rewrite (vsub_b_iff RES res_b res_b_iff). split; [now constructor | now inversion 1].
      + rewrite res_b_iff. split; [now constructor | now inversion 1].
      + rewrite fsub_b_iff. split; [now constructor | now inversion 1].
      + rewrite (vsub_b_iff RES res_b res_b_iff). split; [now constructor | now inversion 1].
      + rewrite Hcov by lia. split; [now constructor | now inversion 1].
      + rewrite andb_true_iff, !Hcov by lia. split; [intros []; now constructor | now inversion 1].
      + rewrite (msub_b_iff PG pg_b pg_b_iff). split; [now constructor | now inversion 1].
  Qed.
End DecideItems.

(** The executable specification decides the declarative relation. *)
Theorem sub_b_iff a b : sub_b a b = true <-> SubCM a b.
Proof.
  unfold sub_b, SubCM. apply sub_f_iff; [|apply pagecm_b_iff|lia|lia].
  intros n m. unfold nores_b, NoRes. split; [discriminate | tauto].
Qed.
(** [SubN]: the relation the checker decides (resources by name, page sizes as written). *)
Notation SubN := (Sub eq eq).
Theorem sub_names_b_iff a b : sub_names_b a b = true <-> SubN a b.
Proof. unfold sub_names_b. apply sub_f_iff; [apply seqb_eq | apply popt_eqb_iff | lia | lia]. Qed.

(** * Reflexivity, transitivity, independence of the resource parameter *)
Lemma Forall2_fst_vsub_eq (l m : list (str * vtree)) :
  Forall2 (fun x y => fst x = fst y /\ VSub eq (snd x) (snd y)) l m <-> l = m.
Proof.
  split.
  - induction 1 as [|[k x] [k' y] l m [E1 E2] F IH]; [reflexivity|]. cbn [fst snd] in *.
    apply VSub_eq_inv in E2. congruence.
  - intros ->. induction m as [|[k x] m IH]; constructor; auto. split; [reflexivity | apply VSub_eq_refl].
Qed.
Lemma Opt2_vsub_eq (a b : option vtree) : Opt2 (VSub eq) a b <-> a = b.
Proof.
  split.
  - inversion 1; subst; [reflexivity|]. f_equal. now apply VSub_eq_inv.
  - intros ->. destruct b; constructor. apply VSub_eq_refl.
Qed.
Lemma FSub_eq_iff f g : FSub eq f g <-> f = g.
Proof.
  unfold FSub. rewrite Forall2_fst_vsub_eq, Opt2_vsub_eq. destruct f as [p1 r1 a1], g as [p2 r2 a2]; cbn [ft_async ft_params ft_result].
  split; [intros [-> [-> ->]]; reflexivity | intros H; injection H as -> -> ->; auto].
Qed.

Lemma FSub_change (R R' : str -> str -> Prop) f g :
  (ft_resfree f = true \/ (forall n m, R n m -> R' n m)) -> FSub R f g -> FSub R' f g.
Proof.
  intros Hc [H1 [H2 H3]]. split; [assumption|]. split.
  - eapply Forall2_from_Forall; [|exact H2]. apply Forall_forall. intros [k x] Hin [k' y] [E1 E2].
    split; [assumption|]. cbn [fst snd] in *. eapply VSub_change; [|exact E2].
    destruct Hc as [Hc|Hc]; [left|now right]. unfold ft_resfree in Hc. apply andb_true_iff in Hc as [Hc _].
    rewrite forallb_forall in Hc. apply (Hc _ Hin).
  - inversion H3; subst; constructor. eapply VSub_change; [|eassumption].
    destruct Hc as [Hc|Hc]; [left|now right]. unfold ft_resfree in Hc. apply andb_true_iff in Hc as [_ Hc].
    match goal with E : Some _ = ft_result f |- _ => rewrite <- E in Hc end. exact Hc.
Qed.

Fixpoint wf_tree (t : tree) : Prop :=
  let all := fix go (l : list (str * tree)) : Prop :=
               match l with [] => True | (_, x) :: r => wf_tree x /\ go r end in
  match t with
  | XInst e | XTInst e => NoDup (keys e) /\ all e
  | XComp i e | XTComp i e => (NoDup (keys i) /\ all i) /\ (NoDup (keys e) /\ all e)
  | XMod m | XTMod m => NoDup (keys (m_imports m)) /\ NoDup (keys (m_exports m))
  | _ => True
  end.
Lemma wf_all_in (l : list (str * tree)) k x :
  (fix go (l : list (str * tree)) : Prop := match l with [] => True | (_, x) :: r => wf_tree x /\ go r end) l ->
  In (k, x) l -> wf_tree x.
Proof.
  induction l as [|[k' y] l IH]; [intros _ []|]. intros [H1 H2] [E|Hin]; [injection E as -> ->; assumption | auto].
Qed.

Lemma resfree_child (l : list (str * tree)) k x :
  forallb (fun kv => resfree (snd kv)) l = true -> In (k, x) l -> resfree x = true.
Proof. intros H Hin. rewrite forallb_forall in H. apply (H _ Hin). Qed.


Section ReflTrans.
  Variable PG : option N -> option N -> Prop.
  Hypothesis PG_refl : forall a, PG a a.
  Hypothesis PG_trans : forall a b c, PG a b -> PG b c -> PG a c.
  Notation SubP := (Sub eq PG).

  Lemma Sub_refl n : forall a, (tdepth a <= n)%nat -> wf_tree a -> SubP a a.
  Proof.
    induction n as [|n IH]; intros a Ha Hw; [destruct a; cbn [tdepth] in Ha; lia|].
    assert (Hcov : forall e, (list_max (map (fun kv => tdepth (snd kv)) e) <= n)%nat -> NoDup (keys e) ->
                             (fix go (l : list (str * tree)) : Prop := match l with [] => True | (_, x) :: r => wf_tree x /\ go r end) e ->
                             forall k b, In (k, b) e -> exists a, assoc k e = Some a /\ SubP a b).
    { intros e He Hn Hall k b Hin. exists b. split; [now apply in_assoc|].
      apply IH; [eapply depth_child; eassumption | eapply wf_all_in; eassumption]. }
    destruct a; cbn [tdepth] in Ha; cbn [wf_tree] in Hw; constructor;
      try apply FSub_eq_iff; try apply VSub_eq_refl; try reflexivity;
      try (apply (MSub_refl PG PG_refl); tauto); try (apply Hcov; [lia | tauto | tauto]).
  Qed.

  Lemma Sub_trans n : forall a b c, (tdepth b <= n)%nat -> SubP a b -> SubP b c -> SubP a c.
  Proof.
    induction n as [|n IH]; intros a b c Hb H1 H2; [destruct b; cbn [tdepth] in Hb; lia|].
    assert (Hcov : forall ea eb ec, (list_max (map (fun kv => tdepth (snd kv)) eb) <= n)%nat ->
              (forall k b, In (k, b) eb -> exists a, assoc k ea = Some a /\ SubP a b) ->
              (forall k c, In (k, c) ec -> exists b, assoc k eb = Some b /\ SubP b c) ->
              (forall k c, In (k, c) ec -> exists a, assoc k ea = Some a /\ SubP a c)).
    { intros ea eb ec Heb Hab Hbc k z Hin. destruct (Hbc _ _ Hin) as [y [Ey Hy]]. apply assoc_in in Ey.
      destruct (Hab _ _ Ey) as [x [Ex Hx]]. exists x. split; [assumption|].
      eapply IH; [eapply depth_child; eassumption | eassumption | eassumption]. }
    inversion H1; subst; inversion H2; subst; cbn [tdepth] in Hb; constructor;
      try (match goal with
           | A : FSub eq _ _, B : FSub eq _ _ |- _ => apply FSub_eq_iff in A; apply FSub_eq_iff in B; apply FSub_eq_iff; congruence
           | A : VSub eq _ _, B : VSub eq _ _ |- _ => apply VSub_eq_inv in A; apply VSub_eq_inv in B; subst; apply VSub_eq_refl
           | A : MSub _ _ _, B : MSub _ _ _ |- _ => eapply (MSub_trans PG PG_trans); eassumption
           | A : ?n = ?m, B : ?m = ?k |- ?n = ?k => congruence
           end); try reflexivity.
    - eapply Hcov; [|eassumption|eassumption]. lia.
    - eapply (Hcov ib0 ib ia); [|eassumption|eassumption]. lia.
    - eapply Hcov; [|eassumption|eassumption]. lia.
    - eapply Hcov; [|eassumption|eassumption]. lia.
    - eapply (Hcov ib0 ib ia); [|eassumption|eassumption]. lia.
    - eapply Hcov; [|eassumption|eassumption]. lia.
  Qed.
End ReflTrans.

(** ** Changing the parameters.  [okm] is a condition on module types under which the page-size relation may be
    changed (e.g. "canonical": the default page size is never spelled out); [tokm] lifts it to trees. *)
Definition MSub_change (PG PG' : option N -> option N -> Prop) (ok : coreextern -> Prop) a b :
  (forall x y m64 sh i1 m1 i2 m2, ok (CEMemory m64 sh i1 m1 x) -> ok (CEMemory m64 sh i2 m2 y) -> PG x y -> PG' x y) ->
  (forall k x, In (k, x) (m_imports a) -> ok x) -> (forall k x, In (k, x) (m_exports a) -> ok x) ->
  (forall k x, In (k, x) (m_imports b) -> ok x) -> (forall k x, In (k, x) (m_exports b) -> ok x) ->
  MSub PG a b -> MSub PG' a b.
Proof.
  intros H Ai Ae Bi Be [I1 E1]. split.
  - intros k x Hin. destruct (I1 _ _ Hin) as [y [Ey Hy]]. exists y. split; [assumption|].
    eapply ESub_change; [exact H | eapply Bi; eapply assoc2_in; eassumption | eapply Ai; eassumption | assumption].
  - intros k y Hin. destruct (E1 _ _ Hin) as [x [Ex Hx]]. exists x. split; [assumption|].
    eapply ESub_change; [exact H | eapply Ae; eapply assoc_in; eassumption | eapply Be; eassumption | assumption].
Qed.

Definition mod_ok (ok : coreextern -> Prop) (m : moduletype) : Prop :=
  (forall k x, In (k, x) (m_imports m) -> ok x) /\ (forall k x, In (k, x) (m_exports m) -> ok x).
Fixpoint tokm (ok : coreextern -> Prop) (t : tree) : Prop :=
  let all := fix go (l : list (str * tree)) : Prop :=
               match l with [] => True | (_, x) :: r => tokm ok x /\ go r end in
  match t with
  | XInst e | XTInst e => all e
  | XComp i e | XTComp i e => all i /\ all e
  | XMod m | XTMod m => mod_ok ok m
  | _ => True
  end.
Lemma tokm_all_in ok (l : list (str * tree)) k x :
  (fix go (l : list (str * tree)) : Prop := match l with [] => True | (_, x) :: r => tokm ok x /\ go r end) l ->
  In (k, x) l -> tokm ok x.
Proof.
  induction l as [|[k' y] l IH]; [intros _ []|]. intros [H1 H2] [E|Hin]; [injection E as -> ->; assumption | auto].
Qed.
Lemma tokm_all_intro ok (l : list (str * tree)) :
  (forall k x, In (k, x) l -> tokm ok x) ->
  (fix go (l : list (str * tree)) : Prop := match l with [] => True | (_, x) :: r => tokm ok x /\ go r end) l.
Proof.
  induction l as [|[k x] l IH]; intro H; [exact I|]. split; [apply (H k); now left | apply IH; intros k' x' Hin; apply (H k'); now right].
Qed.

Lemma Sub_change (R R' : str -> str -> Prop) (PG PG' : option N -> option N -> Prop) (ok : coreextern -> Prop) n :
  (forall x y m64 sh i1 m1 i2 m2, ok (CEMemory m64 sh i1 m1 x) -> ok (CEMemory m64 sh i2 m2 y) -> PG x y -> PG' x y) ->
  forall a b, (tdepth a <= n)%nat -> (tdepth b <= n)%nat -> tokm ok a -> tokm ok b ->
  ((resfree a = true /\ resfree b = true) \/ (forall n m, R n m -> R' n m)) -> Sub R PG a b -> Sub R' PG' a b.
Proof.
  intros HPG. induction n as [|n IH]; intros a b Ha Hb Oa Ob Hc HS; [destruct a; cbn [tdepth] in Ha; lia|].
  assert (Hcov : forall ea eb, (list_max (map (fun kv => tdepth (snd kv)) ea) <= n)%nat ->
                               (list_max (map (fun kv => tdepth (snd kv)) eb) <= n)%nat ->
            (fix go (l : list (str * tree)) : Prop := match l with [] => True | (_, x) :: r => tokm ok x /\ go r end) ea ->
            (fix go (l : list (str * tree)) : Prop := match l with [] => True | (_, x) :: r => tokm ok x /\ go r end) eb ->
            ((forallb (fun kv => resfree (snd kv)) ea = true /\ forallb (fun kv => resfree (snd kv)) eb = true)
             \/ (forall n m, R n m -> R' n m)) ->
            (forall k b, In (k, b) eb -> exists a, assoc k ea = Some a /\ Sub R PG a b) ->
            (forall k b, In (k, b) eb -> exists a, assoc k ea = Some a /\ Sub R' PG' a b)).
  { intros ea eb Hea Heb Oea Oeb Hc' H k y Hin. destruct (H _ _ Hin) as [x [Ex Hx]]. exists x. split; [assumption|].
    pose proof (assoc_in _ _ _ Ex) as Hinx.
    apply IH; [exact (depth_child ea k x n Hea Hinx) | exact (depth_child eb k y n Heb Hin)
               | exact (tokm_all_in ok ea k x Oea Hinx) | exact (tokm_all_in ok eb k y Oeb Hin) | | assumption].
    destruct Hc' as [[C1 C2]|C]; [left|now right].
    split; [exact (resfree_child ea k x C1 Hinx) | exact (resfree_child eb k y C2 Hin)]. }
  inversion HS; subst; cbn [tdepth] in Ha, Hb; cbn [tokm] in Oa, Ob; constructor;
    try (eapply FSub_change; [|eassumption]; destruct Hc as [[C1 C2]|C]; [left; exact C1 | now right]);
    try (eapply VSub_change; [|eassumption]; destruct Hc as [[C1 C2]|C]; [left; exact C1 | now right]);
    try (eapply (MSub_change PG PG' ok); [exact HPG | apply Oa | apply Oa | apply Ob | apply Ob | assumption]).
  - apply (Hcov ea eb); [lia | lia | assumption | assumption | | assumption]. destruct Hc as [[C1 C2]|C]; [left; now split | now right].
  - apply (Hcov ib ia); [lia | lia | tauto | tauto | | assumption].
    destruct Hc as [[C1 C2]|C]; [left | now right]. cbn [resfree] in C1, C2.
    apply andb_true_iff in C1 as [? ?], C2 as [? ?]. now split.
  - apply (Hcov ea eb); [lia | lia | tauto | tauto | | assumption].
    destruct Hc as [[C1 C2]|C]; [left | now right]. cbn [resfree] in C1, C2.
    apply andb_true_iff in C1 as [? ?], C2 as [? ?]. now split.
  - destruct Hc as [[C1 C2]|C]; [discriminate | auto].
  - apply (Hcov ea eb); [lia | lia | assumption | assumption | | assumption]. destruct Hc as [[C1 C2]|C]; [left; now split | now right].
  - apply (Hcov ib ia); [lia | lia | tauto | tauto | | assumption].
    destruct Hc as [[C1 C2]|C]; [left | now right]. cbn [resfree] in C1, C2.
    apply andb_true_iff in C1 as [? ?], C2 as [? ?]. now split.
  - apply (Hcov ea eb); [lia | lia | tauto | tauto | | assumption].
    destruct Hc as [[C1 C2]|C]; [left | now right]. cbn [resfree] in C1, C2.
    apply andb_true_iff in C1 as [? ?], C2 as [? ?]. now split.
Qed.

Lemma tokm_true t : tokm (fun _ => True) t.
Proof.
  assert (H : forall n t, (tdepth t <= n)%nat -> tokm (fun _ => True) t).
  { induction n as [|n IH]; intros t0 Ht; [destruct t0; cbn [tdepth] in Ht; lia|].
    destruct t0; cbn [tdepth] in Ht; cbn [tokm]; try exact I; try (split; intros; exact I);
      repeat split; apply tokm_all_intro; intros k x Hin; apply IH; eapply depth_child; try eassumption; lia. }
  apply (H (tdepth t)). lia.
Qed.

(** Memory types that never spell out the default page size. *)
Definition ce_canon (c : coreextern) : Prop :=
  match c with CEMemory _ _ _ _ p => p <> Some 16 | _ => True end.
Definition tcanon : tree -> Prop := tokm ce_canon.

Lemma page_log2_canon a b : a <> Some 16 -> b <> Some 16 -> (page_log2 a = page_log2 b <-> a = b).
Proof. destruct a, b; cbn [page_log2]; intros Ha Hb; split; intro H; try congruence. Qed.

(** Soundness direction: whatever a name-comparing relation with a page relation finer than [PageCM] accepts on
    resource-free trees is in the component-model relation. *)
Theorem SubP_SubCM (PG : option N -> option N -> Prop) a b : (forall x y, PG x y -> PageCM x y) ->
  resfree a = true -> resfree b = true -> Sub eq PG a b -> SubCM a b.
Proof.
  intros HP Ra Rb H. unfold SubCM.
  eapply (Sub_change eq NoRes PG PageCM (fun _ => True) (Nat.max (tdepth a) (tdepth b)));
    [ intros; now apply HP | lia | lia | apply tokm_true | apply tokm_true | left; now split | exact H ].
Qed.
(** Completeness direction: on trees whose memory types satisfy [ok], when [PageCM] implies [PG] on such memories. *)
Theorem SubCM_SubP (PG : option N -> option N -> Prop) (ok : coreextern -> Prop) a b :
  (forall x y m64 sh i1 m1 i2 m2, ok (CEMemory m64 sh i1 m1 x) -> ok (CEMemory m64 sh i2 m2 y) -> PageCM x y -> PG x y) ->
  tokm ok a -> tokm ok b -> SubCM a b -> Sub eq PG a b.
Proof.
  intros HP Ca Cb H. unfold SubCM in H.
  eapply (Sub_change NoRes eq PageCM PG ok (Nat.max (tdepth a) (tdepth b)));
    [ exact HP | lia | lia | exact Ca | exact Cb | right; intros ? ? [] | exact H ].
Qed.
