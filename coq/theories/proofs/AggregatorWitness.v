(** Concrete aggregation histories (the same case lines are in corpus/C09/cases.txt and are replayed on the real
    aggregator by every run of the check): refutations of the general statements, and non-vacuity of the partial ones.
    Generated once from the case lines; strings are code-point lists. *)
From Coq Require Import Permutation.
From WacV Require Import Str Names NamesSpec Types Checker SubSpec Aggregator AggregatorSpec.
From WacV Require Import AggregatorFrame AggregatorRemap AggregatorFlat AggregatorHistory.

Definition w_nested_t0 : types :=
  mktypes 1 [] [] [mkfunc [] (None) false]
    [mkif (None) [] [([97], KFunc (mkid 1 0))];
     mkif (None) [] [([110], KInstance (mkid 1 0))]] [] [].
Definition w_nested_t1 : types :=
  mktypes 2 [] [] [mkfunc [] (None) false]
    [mkif (None) [] [([97], KFunc (mkid 2 0));([98], KFunc (mkid 2 0))];
     mkif (None) [] [([110], KInstance (mkid 2 0))]] [] [].
Definition w_nested : list (str * (types * kind)) :=
  [([102;111;111], (w_nested_t0, KInstance (mkid 1 1)));
   ([102;111;111], (w_nested_t1, KInstance (mkid 2 1)))].

Definition w_disjoint_t0 : types :=
  mktypes 1 [] [] [mkfunc [] (None) false]
    [mkif (None) [] [([97], KFunc (mkid 1 0))];
     mkif (None) [] [([110], KInstance (mkid 1 0))]] [] [].
Definition w_disjoint_t1 : types :=
  mktypes 2 [] [] [mkfunc [] (None) false]
    [mkif (None) [] [([98], KFunc (mkid 2 0))];
     mkif (None) [] [([110], KInstance (mkid 2 0))]] [] [].
Definition w_disjoint : list (str * (types * kind)) :=
  [([102;111;111], (w_disjoint_t0, KInstance (mkid 1 1)));
   ([102;111;111], (w_disjoint_t1, KInstance (mkid 2 1)))].

Definition w_order_t0 : types :=
  mktypes 1 [] [] [mkfunc [] (None) false]
    [mkif (None) [] [([97], KFunc (mkid 1 0))];
     mkif (None) [] [([110], KInstance (mkid 1 0))]] [] [].
Definition w_order_t1 : types :=
  mktypes 2 [] [] [mkfunc [] (None) false]
    [mkif (None) [] [([97], KFunc (mkid 2 0));([98], KFunc (mkid 2 0))];
     mkif (None) [] [([110], KInstance (mkid 2 0))]] [] [].
Definition w_order_t2 : types :=
  mktypes 3 [] [] [mkfunc [] (None) false;
     mkfunc [([120], VPrim PU8)] (None) false]
    [mkif (None) [] [([97], KFunc (mkid 3 0));([98], KFunc (mkid 3 1))];
     mkif (None) [] [([110], KInstance (mkid 3 0))]] [] [].
Definition w_order : list (str * (types * kind)) :=
  [([102;111;111], (w_order_t0, KInstance (mkid 1 1)));
   ([102;111;111], (w_order_t1, KInstance (mkid 2 1)));
   ([102;111;111], (w_order_t2, KInstance (mkid 3 1)))].

Definition w_comp_t0 : types :=
  mktypes 1 [] [] [mkfunc [] (None) false]
    [] [mkworld (None) [] [([105], KFunc (mkid 1 0))] []] [].
Definition w_comp_t1 : types :=
  mktypes 2 [] [] []
    [] [mkworld (None) [] [] []] [].
Definition w_comp_t2 : types :=
  mktypes 3 [] [] [mkfunc [([120], VPrim PU8)] (None) false]
    [] [mkworld (None) [] [([106], KFunc (mkid 3 0))] []] [].
Definition w_comp : list (str * (types * kind)) :=
  [([102;111;111], (w_comp_t0, KComponent (mkid 1 0)));
   ([102;111;111], (w_comp_t1, KComponent (mkid 2 0)));
   ([102;111;111], (w_comp_t2, KComponent (mkid 3 0)))].

Definition w_panic_t0 : types :=
  mktypes 1 [] [] []
    [mkif (None) [] [([116], KType (TValue (VPrim PU8)))]] [] [].
Definition w_panic_t1 : types :=
  mktypes 2 [DAlias (VPrim PU8)] [] [mkfunc [([120], VDefined (mkid 2 0))] (None) false]
    [mkif (None) [] [([116], KType (TValue (VDefined (mkid 2 0))));([103], KFunc (mkid 2 0))]] [] [].
Definition w_panic : list (str * (types * kind)) :=
  [([102;111;111], (w_panic_t0, KInstance (mkid 1 0)));
   ([102;111;111], (w_panic_t1, KInstance (mkid 2 0)))].

Definition w_owner_t0 : types :=
  mktypes 1 [] [mkres [114] (None)] []
    [mkif (Some [100;101;112;58;112;47;116;121;112;101;115;64;48;46;50;46;48]) [] [([114], KType (TResource (mkid 1 0)))]] [] [].
Definition w_owner_t1 : types :=
  mktypes 2 [] [mkres [114] (None)] []
    [mkif (Some [100;101;112;58;112;47;116;121;112;101;115;64;48;46;50;46;49]) [] [([114], KType (TResource (mkid 2 0)))]] [] [].
Definition w_owner_t2 : types :=
  mktypes 3 [] [mkres [114] (None);
     mkres [114] (Some (Some (mkid 3 0), mkid 3 0))] [mkfunc [] (Some (VOwn (mkid 3 1))) false]
    [mkif (Some [100;101;112;58;112;47;116;121;112;101;115;64;48;46;50;46;48]) [] [([114], KType (TResource (mkid 3 0)))];
     mkif (Some [109;121;58;112;47;105;64;49;46;48;46;48]) [([114], (mkid 3 0, None))] [([114], KType (TResource (mkid 3 1)));([109;107], KFunc (mkid 3 0))]] [] [].
Definition w_owner_t3 : types :=
  mktypes 4 [] [mkres [114] (None)] []
    [mkif (Some [100;101;112;58;112;47;116;121;112;101;115;64;48;46;50;46;51]) [] [([114], KType (TResource (mkid 4 0)))]] [] [].
Definition w_owner : list (str * (types * kind)) :=
  [([100;101;112;58;112;47;116;121;112;101;115;64;48;46;50;46;48], (w_owner_t0, KInstance (mkid 1 0)));
   ([100;101;112;58;112;47;116;121;112;101;115;64;48;46;50;46;49], (w_owner_t1, KInstance (mkid 2 0)));
   ([109;121;58;112;47;105;64;49;46;48;46;48], (w_owner_t2, KInstance (mkid 3 1)));
   ([100;101;112;58;112;47;116;121;112;101;115;64;48;46;50;46;51], (w_owner_t3, KInstance (mkid 4 0)))].

Definition w_shared_t0 : types :=
  mktypes 1 [] [] [mkfunc [] (None) false]
    [mkif (Some [120;58;121;47;122;64;50;46;48;46;48]) [] [([102], KFunc (mkid 1 0))]] [] [].
Definition w_shared_t1 : types :=
  mktypes 2 [] [] [mkfunc [] (None) false]
    [mkif (Some [120;58;121;47;122;64;50;46;48;46;48]) [] [([103], KFunc (mkid 2 0))]] [] [].
Definition w_shared_t2 : types :=
  mktypes 3 [] [] [mkfunc [] (None) false]
    [mkif (None) [] [([104], KFunc (mkid 3 0))]] [] [].
Definition w_shared : list (str * (types * kind)) :=
  [([120;58;121;47;122;64;50;46;48;46;48], (w_shared_t0, KInstance (mkid 1 0)));
   ([98;97;114], (w_shared_t1, KInstance (mkid 2 0)));
   ([98;97;114], (w_shared_t2, KInstance (mkid 3 0)))].

Definition w_flat_t0 : types :=
  mktypes 1 [] [] [mkfunc [] (None) false]
    [mkif (Some [97;58;98;47;99;64;48;46;50;46;49]) [] [([102], KFunc (mkid 1 0))]] [] [].
Definition w_flat_t1 : types :=
  mktypes 2 [] [] [mkfunc [([120], VPrim PU8)] (None) false]
    [mkif (Some [97;58;98;47;99;64;48;46;50;46;48]) [] [([103], KFunc (mkid 2 0))]] [] [].
Definition w_flat_t2 : types :=
  mktypes 3 [] [] [mkfunc [] (None) false;
     mkfunc [] (Some (VPrim PString)) false]
    [mkif (Some [97;58;98;47;99;64;48;46;50;46;51]) [] [([102], KFunc (mkid 3 0));([104], KFunc (mkid 3 1))]] [] [].
Definition w_flat : list (str * (types * kind)) :=
  [([97;58;98;47;99;64;48;46;50;46;49], (w_flat_t0, KInstance (mkid 1 0)));
   ([97;58;98;47;99;64;48;46;50;46;48], (w_flat_t1, KInstance (mkid 2 0)));
   ([97;58;98;47;99;64;48;46;50;46;51], (w_flat_t2, KInstance (mkid 3 0)))].

Definition run (l : list (str * (types * kind))) := aggregate_all (fun x => x) 40 60 (agg0 0) st0 l 0.
Definition rev_run (l : list (str * (types * kind))) := aggregate_all (@rev _) 40 60 (agg0 0) st0 l 0.

(** the merged requirement of [n] and the requirement of contributor [c], as trees *)
Definition merged_tree (a : agg) (n : str) : option tree :=
  match assoc (Aggregator.canonical a n) (imports a) with
  | Some m => unfold 40 (a_types a) m
  | None => None
  end.
Definition req_tree (c : str * (types * kind)) : option tree := unfold 40 (fst (snd c)) (snd (snd c)).

Definition dflt : str * (types * kind) := (nil, (w_nested_t0, KValue (VPrim PU8))).
(** split conjunctions only ([split] on an equation would try to convert both sides with the lazy machine) *)
Ltac conj_vc := repeat (match goal with |- _ /\ _ => split; [vm_compute; reflexivity|] end); vm_compute; reflexivity.

(** * 1. Regression (repository commits 0bf540d, 874f221): nested instances are merged by union, the aliased primitive
      no longer panics.  Before the repairs [w_nested] gave a merged type that the second contributor's requirement was
      not satisfied by, [w_disjoint] failed, [w_order] succeeded in some orders only, [w_panic] panicked. *)
Example nested_now_united :
  exists a s tm, run w_nested = inl (a, s) /\ merged_tree a [102;111;111] = Some tm /\
                 forall c, In c w_nested -> exists tr, req_tree c = Some tr /\ sub_b tm tr = true.
Proof.
  eexists _, _, _. split; [vm_compute; reflexivity|]. split; [vm_compute; reflexivity|].
  unfold w_nested. intros c [<-|[<-|[]]]; eexists; (split; [vm_compute; reflexivity|]); vm_compute; reflexivity.
Qed.
Example disjoint_now_united :
  exists a s tm, run w_disjoint = inl (a, s) /\ merged_tree a [102;111;111] = Some tm /\
                 forall c, In c w_disjoint -> exists tr, req_tree c = Some tr /\ sub_b tm tr = true.
Proof.
  eexists _, _, _. split; [vm_compute; reflexivity|]. split; [vm_compute; reflexivity|].
  unfold w_disjoint. intros c [<-|[<-|[]]]; eexists; (split; [vm_compute; reflexivity|]); vm_compute; reflexivity.
Qed.
(** a genuine conflict below a nested instance fails in every order that was explored here *)
Example nested_conflict_fails :
  (exists p e, run w_order = inr (p, AErr e)) /\
  (exists p e, run [nth 1 w_order dflt; nth 2 w_order dflt; nth 0 w_order dflt] = inr (p, AErr e)) /\
  (exists p e, run [nth 2 w_order dflt; nth 0 w_order dflt; nth 1 w_order dflt] = inr (p, AErr e)).
Proof. split; [|split]; eexists _, _; vm_compute; reflexivity. Qed.
Example alias_primitive_no_panic :
  exists a s tm, run w_panic = inl (a, s) /\ merged_tree a [102;111;111] = Some tm /\
                 forall c, In c w_panic -> exists tr, req_tree c = Some tr /\ sub_b tm tr = true.
Proof.
  eexists _, _, _. split; [vm_compute; reflexivity|]. split; [vm_compute; reflexivity|].
  unfold w_panic. intros c [<-|[<-|[]]]; eexists; (split; [vm_compute; reflexivity|]); vm_compute; reflexivity.
Qed.

(** * 2. The merged type is not an upper bound in general: component requirements with different imports
      (no contributor is satisfied) *)
Theorem upper_bound_witness_component :
  exists a s tm, run w_comp = inl (a, s) /\ merged_tree a [102;111;111] = Some tm /\
                 forall c, In c w_comp -> exists tr, req_tree c = Some tr /\ sub_b tm tr = false.
Proof.
  eexists _, _, _. split; [vm_compute; reflexivity|]. split; [vm_compute; reflexivity|].
  unfold w_comp. intros c [<-|[<-|[<-|[]]]]; eexists; (split; [vm_compute; reflexivity|]); vm_compute; reflexivity.
Qed.

(** * 3. Success depends on the order, and failure without a conflict: one interface identifier under two import names.
      x: interface `d` {f: func()};  y: anonymous {f: func(x: u8)};  y: interface `d` {g: func()}.
      In the order x, y, y the third contribution is merged into y's own interface; in the order x, y(d), y the
      second one is unified with x's interface `d`, y denotes that interface, and the third conflicts with x's `f`. *)
Definition w_ids_t0 : types := mktypes 1 [] [] [mkfunc [] None false] [mkif (Some [100]) [] [([102], KFunc (mkid 1 0))]] [] [].
Definition w_ids_t1 : types := mktypes 2 [] [] [mkfunc [([120], VPrim PU8)] None false] [mkif None [] [([102], KFunc (mkid 2 0))]] [] [].
Definition w_ids_t2 : types := mktypes 3 [] [] [mkfunc [] None false] [mkif (Some [100]) [] [([103], KFunc (mkid 3 0))]] [] [].
Definition w_ids : list (str * (types * kind)) :=
  [([120], (w_ids_t0, KInstance (mkid 1 0))); ([121], (w_ids_t1, KInstance (mkid 2 0))); ([121], (w_ids_t2, KInstance (mkid 3 0)))].
Definition w_ids' : list (str * (types * kind)) := [nth 0 w_ids dflt; nth 2 w_ids dflt; nth 1 w_ids dflt].
Theorem order_witness :
  exists l l', Permutation l l' /\ (exists a s, run l = inl (a, s)) /\ (exists p e, run l' = inr (p, AErr e)).
Proof.
  exists w_ids, w_ids'. split; [unfold w_ids', w_ids; cbn [nth]; apply perm_skip; apply perm_swap|].
  split; eexists _, _; vm_compute; reflexivity.
Qed.
(** the failing order has no conflict: the first contribution is alone under its name, the other two share a name and have
    a merge that satisfies both *)
Theorem failure_witness_shared :
  exists l p e tb tc tm, run l = inr (p, AErr e) /\ length l = 3%nat /\
    str_eqb (fst (nth 0 l dflt)) (fst (nth 1 l dflt)) = false /\ str_eqb (fst (nth 1 l dflt)) (fst (nth 2 l dflt)) = true /\
    compat_spec_b (fst (nth 0 l dflt)) (fst (nth 1 l dflt)) = false /\
    req_tree (nth 1 l dflt) = Some tb /\ req_tree (nth 2 l dflt) = Some tc /\
    tmerge tb tc = Some tm /\ sub_b tm tb = true /\ sub_b tm tc = true.
Proof. exists w_ids'. eexists _, _, _, _, _. conj_vc. Qed.

(** * 4. Owned resources: two imports on one track, and a second round changes the state *)
Theorem owner_witness :
  exists a s k1 k2, run w_owner = inl (a, s) /\ In k1 (map fst (imports a)) /\ In k2 (map fst (imports a)) /\
                    str_eqb k1 k2 = false /\ compat_spec_b k1 k2 = true /\
                    exists a2 s2, aggregate_all (fun x => x) 40 60 a s w_owner 0 = inl (a2, s2) /\
                                  list_eqb str_eqb (map fst (imports a2)) (map fst (imports a)) = false.
Proof.
  eexists _, _, _, _. split; [vm_compute; reflexivity|].
  split; [vm_compute; left; reflexivity|]. split; [vm_compute; right; right; left; reflexivity|].
  split; [vm_compute; reflexivity|]. split; [vm_compute; reflexivity|].
  eexists _, _. split; [vm_compute; reflexivity|]. vm_compute; reflexivity.
Qed.

(** * 5. One interface identifier under two import names: the name -> tree map depends on the order *)
Theorem shared_id_witness :
  exists l l' a s a' s' n t t', Permutation l l' /\ run l = inl (a, s) /\ run l' = inl (a', s') /\
                                merged_tree a n = Some t /\ merged_tree a' n = Some t' /\ sub_b t' t = false.
Proof.
  exists w_shared, [nth 0 w_shared dflt; nth 2 w_shared dflt; nth 1 w_shared dflt].
  eexists _, _, _, _, [120;58;121;47;122;64;50;46;48;46;48], _, _.
  split; [unfold w_shared; cbn [nth]; apply perm_skip; apply perm_swap|].
  conj_vc.
Qed.

(** * 6. Non-vacuity of the partial theorems: three versions of one track, owner-free *)
Lemma w_flat_owner_free : Forall (fun c : str * (types * kind) => owner_free (fst (snd c))) w_flat.
Proof. repeat constructor; intros r H; cbn in H; contradiction. Qed.
Definition n_023 : str := [97;58;98;47;99;64;48;46;50;46;51].          (* a:b/c@0.2.3 *)
Example flat_run :
  exists a s, run w_flat = inl (a, s) /\
              map fst (imports a) = [n_023] /\
              map (Aggregator.canonical a) (map fst w_flat) = [n_023; n_023; n_023] /\
              map (spec_canonical (map fst w_flat)) (map fst w_flat) = [n_023; n_023; n_023] /\
              rev_run w_flat = inl (a, s).
Proof. eexists _, _. conj_vc. Qed.

(** * 7. Non-vacuity of the flat theorems: the three versions of [w_flat] (interfaces identified by their import name) *)
Definition flat_col (t : types) : Prop := t = w_flat_t0 \/ t = w_flat_t1 \/ t = w_flat_t2.
Lemma flat_col_same t1 t2 : flat_col t1 -> flat_col t2 -> t_tag t1 = t_tag t2 -> t1 = t2.
Proof. intros [->|[->| ->]] [->|[->| ->]]; cbn; auto; discriminate. Qed.
Lemma flat_col_tag t : flat_col t -> t_tag t <> 0.
Proof. intros [->|[->| ->]]; cbn; discriminate. Qed.
Lemma w_flat_flat : Forall (flat_contrib flat_col) w_flat.
Proof.
  assert (OF : forall t, t_resources t = [] -> owner_free t) by (intros t E r H; rewrite E in H; contradiction).
  assert (Hleaf : forall t (n : str) f g tr, unfold g t (KFunc f) = Some tr -> resfree tr = true ->
                                     forall n0 k, In (n0, k) [(n, KFunc f)] ->
                                                  leafk k = true /\ exists tr, UnfK t k tr /\ resfree tr = true).
  { intros t n f g tr Hu Hr n0 k [E|[]]. injection E as <- <-. split; auto. exists tr. split; auto. now exists g. }
  unfold w_flat. constructor; [|constructor; [|constructor; [|constructor]]]; unfold flat_contrib; cbn [fst snd].
  - split; [left; reflexivity|]. split; [apply OF; reflexivity|].
    eexists (mkid 1 0), _. split; [reflexivity|]. split; [reflexivity|]. split; [|right; reflexivity].
    split; [reflexivity|]. split.
    + repeat constructor. cbn. tauto.
    + cbn [i_exports]. apply (Hleaf _ _ _ 3%nat (XFunc (mkft [] None false))); reflexivity.
  - split; [right; left; reflexivity|]. split; [apply OF; reflexivity|].
    eexists (mkid 2 0), _. split; [reflexivity|]. split; [reflexivity|]. split; [|right; reflexivity].
    split; [reflexivity|]. split.
    + repeat constructor. cbn. tauto.
    + cbn [i_exports]. apply (Hleaf _ _ _ 3%nat (XFunc (mkft [([120], VTPrim PU8)] None false))); reflexivity.
  - split; [right; right; reflexivity|]. split; [apply OF; reflexivity|].
    eexists (mkid 3 0), _. split; [reflexivity|]. split; [reflexivity|]. split; [|right; reflexivity].
    split; [reflexivity|]. split.
    + repeat constructor; cbn; intuition discriminate.
    + cbn [i_exports]. intros n0 k [E|Hin].
      * injection E as <- <-. split; auto. exists (XFunc (mkft [] None false)). split; [exists 3%nat|]; reflexivity.
      * apply (Hleaf w_flat_t2 [104] (mkid 3 1) 3%nat (XFunc (mkft [] (Some (VTPrim PString)) false)) eq_refl eq_refl _ _ Hin).
Qed.
Lemma w_flat_distinct : NoDup (map ckey w_flat).
Proof. repeat constructor; cbn; intuition discriminate. Qed.
Example flat_merged :
  exists a s, run w_flat = inl (a, s) /\ map fst (imports a) = [n_023] /\
              merged_tree a n_023 =
              Some (XInst [([102], XFunc (mkft [] None false)); ([103], XFunc (mkft [([120], VTPrim PU8)] None false));
                           ([104], XFunc (mkft [] (Some (VTPrim PString)) false))]).
Proof. eexists _, _. conj_vc. Qed.
