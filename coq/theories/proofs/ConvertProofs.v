(** Proofs about the model of [Package::from_bytes] (model/Convert.v) against spec/ConvertSpec.v.
    Part 1: basic facts, [convert_lists_exactly]. *)
From Coq Require Import Lia.
From WacV Require Import Str Types Convert ConvertSpec.
Set Warnings "-unused-intro-pattern".

(** * Monad inversion *)
Lemma bind_ok {A B} (x : cres A) (f : A -> cres B) r :
  bind x f = COk r -> exists a, x = COk a /\ f a = COk r.
Proof. destruct x; cbn [bind]; try discriminate. eauto. Qed.

Tactic Notation "inv_bind" hyp(H) "as" simple_intropattern(p) ident(Hx) :=
  apply bind_ok in H; destruct H as [p [Hx H]].

(** * Strings *)
Lemma str_eqb_refl s : str_eqb s s = true.
Proof. induction s as [|c s IH]; cbn [str_eqb]; [reflexivity|]. now rewrite N.eqb_refl, IH. Qed.
Lemma str_eqb_eq a : forall b, str_eqb a b = true -> a = b.
Proof.
  induction a as [|x a IH]; intros [|y b]; cbn [str_eqb]; try discriminate; [reflexivity|].
  intro H. apply andb_prop in H as [H1 H2]. apply N.eqb_eq in H1. f_equal; auto.
Qed.
Lemma str_eqb_neq a b : str_eqb a b = false -> a <> b.
Proof. intros H E. subst. now rewrite str_eqb_refl in H. Qed.

(** * Lookups in grown arenas *)
Lemma nth_error_snoc {A} (l : list A) x : nth_error (l ++ [x]) (length l) = Some x.
Proof. rewrite nth_error_app2 by lia. now rewrite Nat.sub_diag. Qed.
Lemma nth_error_app_some {A} (l r : list A) i x : nth_error l i = Some x -> nth_error (l ++ r) i = Some x.
Proof. intro H. rewrite nth_error_app1; [assumption|]. apply nth_error_Some. congruence. Qed.

Lemma lookup_new {A} tag (l : list A) x : lookup tag (l ++ [x]) (mkid tag (length l)) = Some x.
Proof. unfold lookup. cbn [id_tag id_idx]. rewrite N.eqb_refl. apply nth_error_snoc. Qed.

(** * [IndexMap::insert] of a fresh key appends *)
Lemma imap_insert_fresh {B} k (v : B) l : ~ In k (map fst l) -> imap_insert k v l = l ++ [(k, v)].
Proof.
  induction l as [|[k' v'] l IH]; cbn [imap_insert map fst In app]; [reflexivity|].
  intro H. destruct (str_eqb k k') eqn:E.
  - apply str_eqb_eq in E. subst. tauto.
  - rewrite IH; [reflexivity | tauto].
Qed.

(** * The kind of a converted entity *)
Lemma entity_kind_ok hf f g n e s k s' :
  c_entity hf f g n e s = COk (k, s') -> ent_kind_ok g e k = true.
Proof.
  destruct f as [|f]; [discriminate|]. cbn [c_entity]. unfold entity_body.
  destruct e as [m|v|v|rf cr|i|c]; intro H; inv_bind H as [x s1] Ha; injection H as <- _; try reflexivity.
  cbn [ent_kind_ok]. unfold ty_body in Ha.
  destruct (node_of g cr) as [[d|a ps r|ex|im ex|r|m]|]; try discriminate;
    inv_bind Ha as [y s2] Hb; injection Ha as <- _; reflexivity.
Qed.

(** * [collect] *)
Lemma collect_spec hf f g : forall l acc s m s',
  NoDup (map fst l) -> (forall n, In n (map fst l) -> ~ In n (map fst acc)) ->
  collect (c_entity hf f g) l acc s = COk (m, s') ->
  exists new, m = acc ++ new /\ items_agree g l new.
Proof.
  induction l as [|[n e] l IH]; intros acc s m s' Hnd Hfresh H; cbn [collect] in H.
  - injection H as <- _. exists []. split; [now rewrite app_nil_r | constructor].
  - inv_bind H as [k s1] Ha. cbn [map fst] in Hnd, Hfresh. inversion Hnd as [|? ? Hn Hnd']; subst.
    rewrite imap_insert_fresh in H by (apply Hfresh; now left).
    apply IH in H; [|assumption|].
    + destruct H as [new [-> Hag]]. exists ((n, k) :: new). split; [now rewrite <- app_assoc|].
      constructor; [|assumption]. cbn [fst snd]. split; [reflexivity|]. eapply entity_kind_ok; eassumption.
    + intros x Hx. rewrite map_app, in_app_iff. cbn [map fst In]. intros [Hin|[<-|[]]]; [|contradiction].
      eapply Hfresh; [right; eassumption | assumption].
Qed.

(** * The world lists exactly the imports and exports; the instance type is the export list *)
Theorem lists_exactly_holds hf f g t0 p t :
  NoDup (map fst (vg_imports g)) -> NoDup (map fst (vg_exports g)) ->
  from_graph hf f g t0 = COk (p, t) -> lists_exactly g t p.
Proof.
  intros Hi He H. unfold from_graph in H. inv_bind H as [[imports exports] s2] Hc. unfold conv_items in Hc.
  inv_bind Hc as [imports' s1] Ha. inv_bind Hc as [exports' s2'] Ha0. injection Hc as -> -> ->.
  apply collect_spec in Ha; [|assumption|intros ? ? []]. destruct Ha as [im [-> Him]].
  apply collect_spec in Ha0; [|assumption|intros ? ? []]. destruct Ha0 as [ex [-> Hex]].
  cbn [app] in H. unfold add_world, add_if in H. cbn [t_tag t_worlds t_interfaces] in H.
  set (W := mkworld None [] im ex) in *.
  match type of H with match ?X with _ => _ end = _ => assert (EW : X = Some W) end.
  { unfold get_world. cbn [t_tag t_worlds]. apply lookup_new. }
  rewrite EW in H. cbn [w_exports W] in H.
  destruct (find_definitions _ _ ex []) as [defs|]; [|discriminate].
  injection H as <- <-. cbn [pk_ty pk_instance].
  exists W, (mkif None [] ex). repeat split; try assumption.
  unfold get_if. cbn [t_tag t_interfaces]. apply lookup_new.
Qed.

(** the boolean form evaluated by the correspondence driver is sound for the declarative one *)
Lemma items_agree_b_sound g : forall l m, items_agree_b g l m = true -> items_agree g l m.
Proof.
  induction l as [|a l IH]; intros [|b m]; cbn [items_agree_b]; try discriminate; [constructor|].
  intro H. apply andb_prop in H as [H H3]. apply andb_prop in H as [H1 H2].
  constructor; [|now apply IH]. split; [now apply str_eqb_eq | assumption].
Qed.
