(** C13, [render_lex]: lexing the printed text gives the token stream the pieces denote.

    Proved here: the part of the statement that concerns the printer's own layout -- blanks, line
    feeds, doc lines -- i.e. that the lexer's gap skipping ([skip_gap]) passes over exactly the
    non-token pieces, collects exactly the doc comments [tokens_of_pieces] attaches to the next token,
    and arrives at each token at the byte offset [tokens_of_pieces] computes. What is assumed
    ([toks_scan]) is, for every token piece, that [scan_token] run on that token's text followed by
    the rest of the printed text returns that token's kind and length (the printer separates two
    tokens that could fuse) and that the text starts with neither white space nor a slash. *)
From WacV Require Import Str Token Lexer LexTables LexImpl Semver Ast Parser Printer PrintSpec PrinterText.
From Coq Require Import Lia.
Local Open Scope nat_scope.

Definition ws_char (c : N) : bool := ((c =? 32) || (c =? 10))%N.

(** The non-token pieces are what the printer writes: blanks and line feeds; doc lines without a line
    feed inside (the piece carries the line feed that ends it). *)
Fixpoint gaps_okb (ps : list piece) : bool :=
  match ps with
  | [] => true
  | PcTok _ _ :: r => gaps_okb r
  | PcWs s :: r => forallb ws_char s && gaps_okb r
  | PcDoc l :: r => negb (existsb (N.eqb c_nl) l) && gaps_okb r
  end.

Definition tok_start (t : str) : Prop :=
  match t with c :: _ => is_ws c = false /\ c <> c_slash | [] => False end.

Fixpoint toks_scan (cfg : lexcfg) (ps : list piece) : Prop :=
  match ps with
  | [] => True
  | PcTok k t :: r =>
      tok_start t /\
      (forall F, length (t ++ text_of r) < F -> scan_token cfg F (t ++ text_of r) = ScanTok k (length t)) /\
      toks_scan cfg r
  | _ :: r => toks_scan cfg r
  end.

Section Lex.
Variable cfg : lexcfg.

(** What [lex_loop] does once the gap before the next token has been skipped. *)
Definition cont (F : nat) (g : gapres) : list lexitem :=
  match g with
  | GapErr e sp => [LErr e sp]
  | GapPanic => [LPanic]
  | GapFuel => [LFuel]
  | GapOk o1 s1 docs =>
      match s1 with
      | [] => []
      | _ :: _ =>
          match scan_token cfg (S F) s1 with
          | ScanErr e n => [LErr e {| off := o1; slen := n |}]
          | ScanUnmodelled => [LUnmodelled {| off := o1; slen := 0 |}]
          | ScanTok k n =>
              let text := firstn n s1 in
              let bl := byte_len text in
              LTok {| tk := k; tsp := {| off := o1; slen := bl |}; ttext := text; tdocs := docs |}
              :: lex_loop F cfg (o1 + bl) (skipn n s1)
          end
      end
  end.

Lemma lex_loop_cont F o s : lex_loop (S F) cfg o s = cont F (skip_gap (S F) o s true []).
Proof. reflexivity. Qed.

Lemma ws_char_facts c : ws_char c = true -> is_ws c = true /\ is_doc_ws c = true /\ utf8_len c = 1%N.
Proof.
  unfold ws_char. intros H. apply orb_true_iff in H. destruct H as [H|H]; apply N.eqb_eq in H; subst c; repeat split.
Qed.

(** Skipping a run of blanks / line feeds. *)
Lemma skip_gap_ws s : forall g o rest docs,
  forallb ws_char s = true -> length s < g ->
  skip_gap g o (s ++ rest) true docs = skip_gap (g - length s) (o + byte_len s) rest true docs.
Proof.
  induction s as [|c s IH]; intros g o rest docs Hs Hg.
  - cbn [app length byte_len]. rewrite Nat.sub_0_r, N.add_0_r. reflexivity.
  - cbn [forallb] in Hs. apply andb_true_iff in Hs. destruct Hs as [Hc Hs].
    destruct (ws_char_facts c Hc) as (H1 & H2 & H3).
    destruct g as [|g]; [cbn in Hg; lia|]. cbn [app skip_gap]. rewrite H1, H2. cbn [andb].
    rewrite IH by (auto; cbn in Hg; lia). cbn [length byte_len]. rewrite H3. f_equal; lia.
Qed.

Lemma run_len_no_nl l rest :
  existsb (N.eqb c_nl) l = false ->
  run_len (fun x => negb (x =? c_nl)%N) (l ++ c_nl :: rest) = length l.
Proof.
  induction l as [|c l IH]; intros H; cbn [app run_len length].
  - rewrite N.eqb_refl. reflexivity.
  - cbn [existsb] in H. apply orb_false_iff in H. destruct H as [H1 H2].
    rewrite N.eqb_sym in H1. rewrite H1. cbn [negb]. now rewrite IH.
Qed.

Lemma firstn_app_exact {A} (a b : list A) : firstn (length a) (a ++ b) = a.
Proof. induction a; cbn; [now destruct b|]. now f_equal. Qed.
Lemma skipn_app_exact {A} (a b : list A) : skipn (length a) (a ++ b) = b.
Proof. induction a; cbn; auto. Qed.

(** Skipping one printed doc line (up to, not including, its line feed). *)
Lemma skip_gap_doc l : forall g o rest docs,
  existsb (N.eqb c_nl) l = false ->
  skip_gap (S g) o (doc_prefix ++ l ++ c_nl :: rest) true docs =
  skip_gap g (o + byte_len (doc_prefix ++ l)) (c_nl :: rest) true
           (docs ++ [(doc_of_line l, {| off := o; slen := byte_len (doc_prefix ++ l) |})]).
Proof.
  intros g o rest docs Hl. unfold doc_prefix. cbn [app skip_gap].
  change (is_ws 47%N) with false. cbv iota. change ((47 =? c_slash)%N) with true. cbv iota.
  change ((47 =? c_slash)%N) with true. cbv iota.
  change (47%N :: 32%N :: l ++ c_nl :: rest) with ((47%N :: 32%N :: l) ++ c_nl :: rest).
  rewrite run_len_no_nl by (cbn [existsb]; exact Hl).
  rewrite firstn_app_exact, skipn_app_exact. unfold push_doc. cbn [doc_of_comment]. reflexivity.
Qed.

(** The main induction: from any state of the gap skipping, the lexer produces the tokens of the
    remaining pieces. [F]: fuel of [lex_loop]; [g]: remaining fuel of [skip_gap]. *)
Lemma text_of_cons p ps : text_of (p :: ps) = piece_text p ++ text_of ps.
Proof. reflexivity. Qed.

Lemma lex_pieces ps : forall F g o docs,
  gaps_okb ps = true -> toks_scan cfg ps ->
  length (text_of ps) < g -> length (text_of ps) <= F ->
  cont F (skip_gap g o (text_of ps) true docs) = map LTok (tokens_of_pieces o docs ps).
Proof.
  induction ps as [|p ps IH]; intros F g o docs Hg Hs Hlg HlF.
  - destruct g; [cbn in Hlg; lia|]. reflexivity.
  - rewrite text_of_cons in *. destruct p as [k t|s|l]; cbn [piece_text gaps_okb toks_scan tokens_of_pieces] in *.
    + (* token *)
      destruct Hs as (Hst & Hscan & Hs). destruct t as [|c t]; [destruct Hst|]. destruct Hst as [Hws Hsl].
      destruct g; [cbn in Hlg; lia|]. cbn [app skip_gap]. rewrite Hws.
      assert (Hc : (c =? c_slash)%N = false) by (apply N.eqb_neq; exact Hsl). rewrite Hc.
      cbn [cont]. change (c :: t ++ text_of ps) with ((c :: t) ++ text_of ps).
      rewrite (Hscan (S F)) by lia.
      rewrite firstn_app_exact, skipn_app_exact. cbn [map]. f_equal.
      rewrite app_length in HlF, Hlg. cbn [length] in HlF, Hlg.
      destruct F as [|F]; [lia|]. rewrite lex_loop_cont. apply IH; auto; lia.
    + (* blanks *)
      apply andb_true_iff in Hg. destruct Hg as [Hw Hg]. rewrite app_length in Hlg, HlF.
      rewrite skip_gap_ws by (auto; lia). apply IH; auto; lia.
    + (* doc line *)
      apply andb_true_iff in Hg. destruct Hg as [Hg1 Hg3]. apply negb_true_iff in Hg1.
      destruct g; [cbn in Hlg; lia|]. rewrite <- !app_assoc. cbn [app].
      rewrite skip_gap_doc by exact Hg1.
      rewrite !app_length in Hlg, HlF. cbn [length] in Hlg, HlF. change (length doc_prefix) with 4 in *.
      change (c_nl :: text_of ps) with ([c_nl] ++ text_of ps).
      rewrite skip_gap_ws by (cbn; auto; lia). cbn [length byte_len]. change (utf8_len c_nl) with 1%N.
      replace (o + byte_len (doc_prefix ++ l) + (1 + 0))%N with (o + byte_len (doc_prefix ++ l) + 1)%N by lia.
      apply IH; auto; lia.
Qed.

(** [render_lex_partial]. *)
Theorem lex_of_pieces ps :
  screen cfg (text_of ps) = None -> gaps_okb ps = true -> toks_scan cfg ps ->
  lex cfg (text_of ps) = items_of_pieces ps.
Proof.
  intros Hsc Hg Hs. unfold lex. rewrite Hsc. rewrite lex_loop_cont. unfold items_of_pieces.
  apply lex_pieces; auto.
Qed.

End Lex.
