(** C06: the alias/dependency edges of every reachable state are acyclic, provided the type table of
    the universe is well founded (a type only refers to types of smaller index, or to itself, which
    [define_type] skips). Witness: a rank function that maps every definition node to its type index and
    every alias node above its source. Consequence: no operation on live identifiers panics, after any
    history. *)
From Coq Require Import List Arith Bool NArith Lia.
From WacV Require Import Graph GraphInv GraphPrims GraphSteps GraphRemove GraphUnreg GraphTheorems GraphLive GraphAcyclic.
Import ListNotations.

Definition UniverseWF (u : universe) : Prop :=
  forall t td d, nth_error (u_tys u) t = Some td -> In d (td_deps td) -> d < length (u_tys u) -> d <= t.

Definition RankInv (u : universe) (s : gstate) : Prop := exists rk : nat -> nat,
  (forall t n, In (t, n) (defined s) -> rk n = t /\ t < length (u_tys u)) /\
  (forall e, In e (edges s) -> dep_edge e -> rk (esrc e) < rk (etgt e)).

Lemma RankInv_acyclic u s : RankInv u s -> Acyclic s.
Proof. intros [rk [_ H]]. exists rk. exact H. Qed.

(** operations that add nothing but argument edges *)
Definition shrinks (s s' : gstate) : Prop :=
  incl (defined s') (defined s) /\ forall e, In e (edges s') -> In e (edges s) \/ exists i, ek e = EArg i.

Lemma shrinks_refl s : shrinks s s.
Proof. split; [apply incl_refl|auto]. Qed.

Lemma shrinks_eq s s' : defined s' = defined s -> edges s' = edges s -> shrinks s s'.
Proof. intros H1 H2. unfold shrinks. rewrite H1, H2. split; [apply incl_refl|auto]. Qed.

Lemma RankInv_shrinks u s s' : shrinks s s' -> RankInv u s -> RankInv u s'.
Proof.
  intros [Sd Se] [rk [Rd Re]]. exists rk. split.
  - intros t n H. apply Rd. now apply Sd.
  - intros e He De. destruct (Se e He) as [H|[i H]]; [auto|]. now apply De in H.
Qed.

Lemma add_node_same s nd : edges (fst (add_node s nd)) = edges s /\ defined (fst (add_node s nd)) = defined s.
Proof. unfold add_node. destruct (free_nodes s); cbn; auto. Qed.

Lemma register_shrinks u s p : shrinks s (fst (register u s p)).
Proof.
  unfold register. destruct (find_pkg_slot s p); [apply shrinks_refl|].
  destruct (free_pkgs s); [apply shrinks_eq; reflexivity|].
  destruct (nth_error (pkgs s) n); [apply shrinks_eq; reflexivity|apply shrinks_refl].
Qed.

Lemma import_shrinks u s nm k : shrinks s (fst (import_ u s nm k)).
Proof.
  unfold import_. destruct (nth_error (u_lkinds u) k); [|apply shrinks_refl].
  destruct (alist_get N.eqb (imports s) nm); [apply shrinks_refl|]. destruct (negb _); [apply shrinks_refl|].
  match goal with |- context [add_node s ?nd] => pose proof (add_node_same s nd) as [X Y]; destruct (add_node s nd) end.
  cbn in *. now apply shrinks_eq.
Qed.

Lemma instantiate_shrinks u s id : shrinks s (fst (instantiate u s id)).
Proof.
  unfold instantiate. destruct (pkg_desc u s id); [|apply shrinks_refl].
  match goal with |- context [add_node s ?nd] => pose proof (add_node_same s nd) as [X Y]; destruct (add_node s nd) end.
  cbn in *. now apply shrinks_eq.
Qed.

Lemma set_arg_shrinks u s inst a arg : shrinks s (fst (set_arg u s inst a arg)).
Proof.
  unfold set_arg. destruct (get_node s inst) as [nd|]; [|apply shrinks_refl].
  destruct (nk nd); try apply shrinks_refl. destruct (inst_imports u s nd); [|apply shrinks_refl].
  destruct (get_full l a 0) as [[index expected]|]; [|apply shrinks_refl].
  destruct (scan_incoming _ index arg); try apply shrinks_refl.
  destruct (get_node s arg) as [an|]; [|apply shrinks_refl]. destruct (negb _); [apply shrinks_refl|].
  destruct (add_satisfied _ inst index) as [[s2|]|] eqn:AS; try apply shrinks_refl. cbn [fst].
  unfold add_satisfied in AS. destruct (get_node _ inst) as [x|]; [|discriminate].
  destruct (nk x); try discriminate. destruct (existsb _ sat0); [discriminate|]. injection AS as <-. cbn.
  split; cbn; [apply incl_refl|]. intros e [<-|H]; [right; cbn; eauto|auto].
Qed.

Lemma unset_arg_shrinks u s inst a arg : shrinks s (fst (unset_arg u s inst a arg)).
Proof.
  unfold unset_arg. destruct (get_node s inst) as [nd|]; [|apply shrinks_refl].
  destruct (nk nd); try apply shrinks_refl. destruct (inst_imports u s nd); [|apply shrinks_refl].
  destruct (get_full l a 0) as [[index expected]|]; [|apply shrinks_refl].
  destruct (scan_connecting _ index); try apply shrinks_refl.
  destruct (remove_satisfied s inst index) as [s1|] eqn:RS; [|apply shrinks_refl].
  apply remove_satisfied_inv in RS as [x [st [_ [_ ->]]]]. cbn.
  split; cbn; [apply incl_refl|]. intros e H. left. eapply remove_first_In; eauto.
Qed.

Lemma export_shrinks u s n e : shrinks s (fst (export_ u s n e)).
Proof.
  unfold export_, update_node. destruct (alist_get N.eqb (exports s) e); [apply shrinks_refl|].
  destruct (negb _); [apply shrinks_refl|]. destruct (get_node s n); [|apply shrinks_refl].
  apply shrinks_eq; reflexivity.
Qed.

Lemma unexport_shrinks s n : shrinks s (fst (unexport s n)).
Proof.
  unfold unexport. destruct (get_node s n) as [nd|]; [|apply shrinks_refl].
  destruct (nk nd); [apply shrinks_refl| | |];
    (match goal with |- context [match ?x with inl _ => _ | inr _ => _ end] => destruct x end;
     [apply shrinks_eq; reflexivity|apply shrinks_refl]).
Qed.

Lemma set_name_shrinks s n nm : shrinks s (fst (set_name s n nm)).
Proof.
  unfold set_name, update_node. destruct (get_node s n); [apply shrinks_eq; reflexivity|apply shrinks_refl].
Qed.

Lemma remove_node_shrinks s n : shrinks s (fst (remove_node s n)).
Proof.
  unfold remove_node. destruct (remove_node_rec _ s n) as [s'|] eqn:R; [|apply shrinks_refl].
  apply remove_node_rec_shrinks in R as (_ & A & B). split; auto.
Qed.

Lemma unregister_shrinks s id : shrinks s (fst (unregister s id)).
Proof.
  unfold unregister. destruct (nth_error (pkgs s) (fst id)) as [sl|]; [|apply shrinks_refl].
  destruct (negb (ps_gen sl =? snd id)); [apply shrinks_refl|]. destruct (negb _); [apply shrinks_refl|].
  destruct (remove_satisfied_all _ _) as [s2|] eqn:R; [|apply shrinks_refl].
  destruct (ps_pkg sl); [|apply shrinks_refl].
  apply remove_satisfied_all_spec in R as (_ & _ & _ & R2 & _ & _ & R5 & _). cbn in R2, R5. cbn [fst].
  match goal with |- context [fold_left drop_node ?v s2] =>
    destruct (drop_all_rest v s2) as (_ & _ & S3 & _); pose proof (drop_all_edges v s2) as S4 end.
  split; cbn [with_pkgs defined edges].
  - rewrite S3, R5. intros x Hx. apply filter_In in Hx. tauto.
  - intros e He. rewrite S4, R2 in He. apply filter_In in He. tauto.
Qed.

(** * the two operations that add alias/dependency edges *)
Lemma alias_rank u s n e : InvC u s -> RankInv u s -> RankInv u (fst (alias u s n e)).
Proof.
  intros HI HR. unfold alias. destruct (get_node s n) as [nd|] eqn:G; auto.
  destruct (u_inst_exports u (nitem nd)) as [ex|]; auto.
  destruct (get_full ex e 0) as [[index kind]|]; auto. destruct (find _ (outgoing s n)); auto.
  destruct (add_node s _) as [s1 idx] eqn:A. cbn [fst]. pose proof HI as [F E X I D P].
  apply add_node_spec in A as ([Fd Fu] & _ & E1 & _ & _ & E4 & _); [|exact F].
  destruct HR as [rk [Rd Re]]. rewrite get_node_getn in G.
  assert (Hn : n <> idx) by (intros ->; congruence).
  exists (fun m => if m =? idx then S (rk n) else rk m). split.
  - intros t m H. cbn in H. rewrite E4 in H. destruct (Nat.eqb_spec m idx) as [->|_]; [|auto].
    apply (do_def _ _ D) in H as [x [Gx _]]. congruence.
  - intros x [<-|Hx] Dx; cbn [esrc etgt].
    + rewrite Nat.eqb_refl. apply Nat.eqb_neq in Hn. rewrite Hn. lia.
    + rewrite E1 in Hx. destruct (eo_live _ _ E x Hx) as [L1 L2].
      apply liveb_true in L1 as [y1 L1], L2 as [y2 L2].
      destruct (Nat.eqb_spec (esrc x) idx) as [Eq|_]; [congruence|].
      destruct (Nat.eqb_spec (etgt x) idx) as [Eq|_]; [congruence|]. auto.
Qed.

Lemma define_type_rank u s nm t : UniverseWF u -> InvC u s -> RankInv u s -> RankInv u (fst (define_type u s nm t)).
Proof.
  intros WF HI HR. unfold define_type. destruct (nth_error (u_tys u) t) as [td|] eqn:Ty; auto.
  destruct (existsb (fun p => fst p =? t) (defined s)) eqn:Ex1; auto. destruct (td_res td); auto.
  destruct (existsb (fun p => N.eqb (fst p) nm) (exports s)); auto. destruct (negb (u_import_name_ok u nm)); auto.
  destruct (add_node s _) as [s1 idx] eqn:A. cbn [fst]. pose proof HI as [F E X I D P].
  apply add_node_spec in A as ([Fd Fu] & _ & E1 & _ & _ & E4 & _); [|exact F].
  destruct HR as [rk [Rd Re]].
  assert (Hnew : forall ot, In ot (map fst (defined s)) -> ot <> t).
  { intros ot Hin ->. apply in_map_iff in Hin as [[t' n'] [Eq Hin]]. cbn in Eq. subst t'.
    assert (existsb (fun p : nat * nat => fst p =? t) (defined s) = true); [|congruence].
    apply existsb_exists. exists (t, n'). split; auto. apply Nat.eqb_refl. }
  set (good := fun e : edge =>
     dep_edge e ->
     (etgt e = idx /\ exists d, In (d, esrc e) (defined s) /\ In d (td_deps td) /\ d <> t) \/
     (esrc e = idx /\ exists ot od, In (ot, etgt e) (defined s) /\ nth_error (u_tys u) ot = Some od /\ In t (td_deps od))).
  set (Q := fun s' : gstate => defined s' = defined s /\ forall e, In e (edges s') -> In e (edges s) \/ good e).
  assert (Q1 : Q s1) by (split; [exact E4|intros e He; left; now rewrite <- E1]).
  set (f1 := fun (s : gstate) (d : nat) =>
               if d =? t then s else
               match alist_get Nat.eqb (defined s) d with
               | Some dn => if has_dep_edge s dn idx then s else add_edge s {| esrc := dn; etgt := idx; ek := EDep |}
               | None => s end).
  set (s2 := fold_left f1 (td_deps td) s1).
  assert (Q2 : Q s2).
  { apply fold_left_ind; auto. intros a d Hd Qa. unfold f1. destruct (Nat.eqb_spec d t) as [_|Hne]; auto.
    destruct (alist_get Nat.eqb (defined a) d) as [dn|] eqn:Al; auto.
    destruct (has_dep_edge a dn idx); auto. apply alist_get_nat_In in Al. destruct Qa as [Qd Qe].
    rewrite Qd in Al. split; [exact Qd|]. intros x [<-|Hx]; [|auto]. right. intros _. left. cbn. eauto. }
  set (others := fold_right insert_sorted_by_node [] (defined s2)).
  set (f2 := fun (s : gstate) (o : nat * nat) =>
               match nth_error (u_tys u) (fst o) with
               | None => s
               | Some od =>
                   fold_left (fun s d => if (d =? t) && negb (has_dep_edge s idx (snd o))
                                         then add_edge s {| esrc := idx; etgt := snd o; ek := EDep |} else s)
                             (td_deps od) s
               end).
  set (s3 := fold_left f2 others s2).
  assert (Q3 : Q s3).
  { apply fold_left_ind; auto. intros a [ot on] Ho Qa. unfold f2. cbn [fst snd].
    destruct (nth_error (u_tys u) ot) as [od|] eqn:To; auto.
    apply sorted_In in Ho. destruct Q2 as [Qd2 _]. rewrite Qd2 in Ho.
    apply fold_left_ind; auto. intros b d Hd Qb. destruct ((d =? t) && _) eqn:C; auto.
    apply andb_true_iff in C as [C _]. apply Nat.eqb_eq in C. subst d. destruct Qb as [Qd Qe].
    split; [exact Qd|]. intros x [<-|Hx]; [|auto]. right. intros _. right. cbn. eauto 6. }
  destruct Q3 as [Qd Qe].
  assert (Hdead : forall t' n', In (t', n') (defined s) -> n' <> idx).
  { intros t' n' H ->. apply (do_def _ _ D) in H as [x [Gx _]]. congruence. }
  exists (fun m => if m =? idx then t else rk m). split.
  - intros t' m H. cbn in H. rewrite Qd in H. destruct H as [[= <- <-]|H].
    { rewrite Nat.eqb_refl. split; auto. apply nth_error_Some. congruence. }
    pose proof (Hdead _ _ H) as Hm. apply Nat.eqb_neq in Hm. rewrite Hm. auto.
  - intros x Hx Dx. cbn in Hx. destruct (Qe x Hx) as [Hold|Hg].
    + destruct (eo_live _ _ E x Hold) as [L1 L2]. apply liveb_true in L1 as [y1 L1], L2 as [y2 L2].
      destruct (Nat.eqb_spec (esrc x) idx) as [Eq|_]; [congruence|].
      destruct (Nat.eqb_spec (etgt x) idx) as [Eq|_]; [congruence|]. auto.
    + destruct (Hg Dx) as [[Et [d [Hd [Hin Hne]]]]|[Es [ot [od [Hd [To Hin]]]]]].
      * rewrite Et, Nat.eqb_refl. pose proof (Hdead _ _ Hd) as Hm. apply Nat.eqb_neq in Hm. rewrite Hm.
        destruct (Rd _ _ Hd) as [Rk Lt]. rewrite Rk. specialize (WF t td d Ty Hin Lt). lia.
      * rewrite Es, Nat.eqb_refl. pose proof (Hdead _ _ Hd) as Hm. apply Nat.eqb_neq in Hm. rewrite Hm.
        destruct (Rd _ _ Hd) as [Rk Lt]. rewrite Rk.
        assert (Lt' : t < length (u_tys u)) by (apply nth_error_Some; congruence).
        specialize (WF ot od t To Hin Lt').
        assert (ot <> t) by (apply Hnew; apply (in_map fst) in Hd; exact Hd). lia.
Qed.

Lemma step_rank u s o : UniverseWF u -> InvC u s -> RankInv u s -> RankInv u (fst (step u s o)).
Proof.
  intros WF HI HR. destruct o; cbn [step].
  - eapply RankInv_shrinks; eauto using register_shrinks.
  - eapply RankInv_shrinks; eauto using unregister_shrinks.
  - now apply define_type_rank.
  - eapply RankInv_shrinks; eauto using import_shrinks.
  - eapply RankInv_shrinks; eauto using instantiate_shrinks.
  - now apply alias_rank.
  - eapply RankInv_shrinks; eauto using set_arg_shrinks.
  - eapply RankInv_shrinks; eauto using unset_arg_shrinks.
  - eapply RankInv_shrinks; eauto using export_shrinks.
  - eapply RankInv_shrinks; eauto using unexport_shrinks.
  - eapply RankInv_shrinks; eauto using set_name_shrinks.
  - eapply RankInv_shrinks; eauto using remove_node_shrinks.
Qed.

Lemma reach_rank u ops : UniverseWF u -> InvC u (run u ops) /\ RankInv u (run u ops).
Proof.
  intros WF. unfold run.
  assert (H0 : InvC u empty_graph /\ RankInv u empty_graph).
  { split; [apply Inv_iff, inv_empty|]. exists (fun _ => 0). split; [intros ? ? []|intros ? []]. }
  revert H0. generalize empty_graph. induction ops as [|o ops IH]; intros s [H1 H2]; cbn; auto.
  apply IH. split; [now apply step_invC|now apply step_rank].
Qed.

Lemma reach_acyclic u ops : UniverseWF u -> Acyclic (run u ops).
Proof. intros WF. apply (RankInv_acyclic u). now apply (reach_rank u ops). Qed.

Lemma step_no_panic_live u ops o :
  UniverseWF u -> LiveOp u (run u ops) o -> forall p, snd (step u (run u ops) o) <> OPanic p.
Proof.
  intros WF L. apply step_no_panic_live_acyclic; auto; [apply reach_inv|now apply reach_acyclic].
Qed.
