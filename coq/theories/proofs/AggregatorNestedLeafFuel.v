(** The copy of a resource-free LEAF (function, value, value type) of a contributor never runs out of fuel when the fuel is
    at least [2*g + 2], [g] the fuel at which [unfold] computes the leaf's tree - in any state of the aggregator.  This
    discharges the escape clause [LeafOof] of the nested fuel bound (AggregatorNestedFuel.v). *)
From Coq Require Import ZArith ZifyBool ZifyN Lia.
From WacV Require Import Str Names Types Checker SubSpec CheckerEq CheckerValue CheckerProofs.
From WacV Require Import Aggregator AggregatorSpec AggregatorFrame AggregatorRemap AggregatorChecker AggregatorNames
     AggregatorFlat AggregatorNestedSpec AggregatorNestedDen AggregatorNestedFuel.

Definition nf {A} (m : M A) : Prop := forall c, m c <> AOof.
Lemma nf_ret {A} (a : A) : nf (ret a). Proof. intros c. discriminate. Qed.
Lemma nf_panic {A} : nf (@panic A). Proof. intros c. discriminate. Qed.
Lemma nf_bind {A B} (m : M A) (k : A -> M B) : nf m -> (forall x, nf (k x)) -> nf (bindM m k).
Proof. intros Hm Hk c. unfold bindM. pose proof (Hm c). destruct (m c) as [[x c']| | |]; try discriminate; [apply Hk | contradiction]. Qed.
Lemma nf_bind_idxM {A B} (o : option A) (k : A -> M B) : (forall x, o = Some x -> nf (k x)) -> nf (bindM (idxM o) k).
Proof. intros H c. destruct o as [x|]; cbn [idxM]; [exact (H x eq_refl c) | discriminate]. Qed.
Lemma nf_mapM {A B} (f : A -> M B) l : (forall x, In x l -> nf (f x)) -> nf (mapM f l).
Proof.
  induction l as [|a l IH]; intros H; cbn [mapM]; [apply nf_ret|].
  apply nf_bind; [apply H; now left|]. intros y. apply nf_bind; [apply IH; intros; apply H; now right|]. intros ys. apply nf_ret.
Qed.
Lemma nf_optM {A B} (f : A -> M B) o : (forall x, o = Some x -> nf (f x)) -> nf (optM f o).
Proof. destruct o as [a|]; intros H; cbn [optM]; [|apply nf_ret]. apply nf_bind; [now apply H|]. intros y. apply nf_ret. Qed.
Lemma nf_remapped_get k : nf (remapped_get k). Proof. intros c. discriminate. Qed.
Lemma nf_remapped_new k v : nf (remapped_new k v).
Proof. intros c. unfold remapped_new. destruct (rm_get k (c_remapped c)); discriminate. Qed.
Lemma nf_add_def d : nf (add_def d). Proof. intros c. discriminate. Qed.
Lemma nf_add_func d : nf (add_func d). Proof. intros c. discriminate. Qed.

(** children of the list-shaped unfoldings *)
Lemma all_some_in {A B} (U : A -> option B) l trs v : all_some (map U l) = Some trs -> In v l -> exists tr, U v = Some tr /\ In tr trs.
Proof.
  intros H. apply all_some_map_inv in H. induction H as [|x y l l' Hx _ IH]; [intros []|]. intros [->|Hin]; [exists y; split; auto; now left|].
  destruct (IH Hin) as [tr [E I]]. exists tr. split; auto. now right.
Qed.
Lemma map_snd_in_l {K A B} (U : A -> option B) (l : list (K * A)) l' kv : map_snd U l = Some l' -> In kv l ->
  exists y, U (snd kv) = Some y /\ In (fst kv, y) l'.
Proof.
  intros H. apply map_snd_inv in H. induction H as [|[k x] [k' y] l l' [E Hx] _ IH]; [intros []|]. cbn [fst snd] in *. subst k'.
  intros [<-|Hin]; [exists y; split; auto; now left|]. destruct (IH Hin) as [y0 [E0 I0]]. exists y0. split; auto. now right.
Qed.

Section LeafFuel.
  Variable ord : list (str * id) -> list (str * id).
  Variable cf : nat.
  Variable t : types.

  Definition vt_total (g : nat) : Prop := forall v tr, unfold_vt g t v = Some tr -> vt_resfree tr = true ->
    forall F, (2 * g <= F)%nat -> nf (remap_value_type ord cf F t v).

  Lemma omap_total g o otr : vt_total g -> omap (unfold_vt g t) o = Some otr ->
    match otr with Some y => vt_resfree y | None => true end = true ->
    forall F, (2 * g <= F)%nat -> nf (optM (remap_value_type ord cf F t) o).
  Proof.
    intros HV Hu Hr F HF. apply nf_optM. intros x ->. cbn [omap] in Hu. destruct (unfold_vt g t x) as [y|] eqn:E; [|discriminate].
    injection Hu as <-. eapply HV; eauto.
  Qed.

  Lemma vt_total_all : forall g, vt_total g.
  Proof.
    induction g as [|g IH]; intros v tr Hu Hr F HF; [discriminate|]. destruct F as [|f]; [lia|]. cbn [remap_value_type].
    rewrite unfold_vt_eq in Hu. destruct v as [p|r|r|d]; cbn [unfold_vt_body] in Hu.
    - apply nf_ret.
    - destruct (res_name_of (S g) t r); [|discriminate]. injection Hu as <-. discriminate.
    - destruct (res_name_of (S g) t r); [|discriminate]. injection Hu as <-. discriminate.
    - apply nf_bind; [|intros y; apply nf_ret]. destruct f as [|f]; [lia|]. cbn [remap_defined_type].
      assert (HF' : (2 * g <= f)%nat) by lia.
      apply nf_bind; [apply nf_remapped_get|]. intros hit. destruct hit as [[| |[| | |y]| | |]|]; try apply nf_panic; [apply nf_ret|].
      apply nf_bind_idxM. intros x Hx. rewrite Hx in Hu.
      assert (Hfin : forall x', nf (y <-- add_def x' ;;; remapped_new (TValue (VDefined d)) (TValue (VDefined y)) ;;; ret y)).
      { intros x'. apply nf_bind; [apply nf_add_def|]. intros y. apply nf_bind; [apply nf_remapped_new|]. intros _. apply nf_ret. }
      apply nf_bind; [|intros x'; apply Hfin].
      destruct x as [l|v|v n|v|o e|cs|fs|fl|el|v|o|o].
      + destruct (all_some (map (unfold_vt g t) l)) as [trs|] eqn:El; [|discriminate]. injection Hu as <-.
        apply nf_bind; [|intros; apply nf_ret]. apply nf_mapM. intros v Hin.
        destruct (all_some_in _ _ _ _ El Hin) as [tr0 [E0 I0]]. cbn [vt_resfree] in Hr. rewrite forallb_forall in Hr.
        eapply IH; eauto.
      + destruct (unfold_vt g t v) as [trc|] eqn:Ev; [|discriminate]. injection Hu as <-.
        apply nf_bind; [|intros; apply nf_ret]. eapply IH; eauto.
      + destruct (unfold_vt g t v) as [trc|] eqn:Ev; [|discriminate]. injection Hu as <-.
        apply nf_bind; [|intros; apply nf_ret]. eapply IH; eauto.
      + destruct (unfold_vt g t v) as [trc|] eqn:Ev; [|discriminate]. injection Hu as <-.
        apply nf_bind; [|intros; apply nf_ret]. eapply IH; eauto.
      + destruct (omap (unfold_vt g t) o) as [tro|] eqn:Eo; [|discriminate].
        destruct (omap (unfold_vt g t) e) as [tre|] eqn:Ee; [|discriminate]. injection Hu as <-.
        cbn [vt_resfree] in Hr. apply andb_true_iff in Hr as [Hr1 Hr2].
        apply nf_bind; [eapply omap_total; eauto|]. intros o'. apply nf_bind; [eapply omap_total; eauto|]. intros e'. apply nf_ret.
      + destruct (map_snd (omap (unfold_vt g t)) cs) as [trs|] eqn:El; [|discriminate]. injection Hu as <-.
        apply nf_bind; [|intros; apply nf_ret]. apply nf_mapM. intros nv Hin. apply nf_bind; [|intros; apply nf_ret].
        destruct (map_snd_in_l _ _ _ _ El Hin) as [y0 [E0 I0]]. cbn [vt_resfree] in Hr. rewrite forallb_forall in Hr.
        specialize (Hr _ I0). cbn [snd] in Hr. eapply omap_total; eauto.
      + destruct (map_snd (unfold_vt g t) fs) as [trs|] eqn:El; [|discriminate]. injection Hu as <-.
        apply nf_bind; [|intros; apply nf_ret]. apply nf_mapM. intros nv Hin. apply nf_bind; [|intros; apply nf_ret].
        destruct (map_snd_in_l _ _ _ _ El Hin) as [y0 [E0 I0]]. cbn [vt_resfree] in Hr. rewrite forallb_forall in Hr.
        specialize (Hr _ I0). cbn [snd] in Hr. eapply IH; eauto.
      + apply nf_ret.
      + apply nf_ret.
      + apply nf_bind; [|intros; apply nf_ret]. eapply IH; eauto.
      + destruct (omap (unfold_vt g t) o) as [tro|] eqn:Eo; [|discriminate]. injection Hu as <-.
        apply nf_bind; [|intros; apply nf_ret]. eapply omap_total; eauto.
      + destruct (omap (unfold_vt g t) o) as [tro|] eqn:Eo; [|discriminate]. injection Hu as <-.
        apply nf_bind; [|intros; apply nf_ret]. eapply omap_total; eauto.
  Qed.

  Lemma func_total g i ft : unfold_func g t i = Some ft -> ft_resfree ft = true ->
    forall F, (2 * g + 1 <= F)%nat -> nf (remap_func_type ord cf F t i).
  Proof.
    intros Hu Hr F HF. destruct F as [|f]; [lia|]. cbn [remap_func_type].
    apply nf_bind; [apply nf_remapped_get|]. intros hit. destruct hit as [[|y| | | |]|]; try apply nf_panic; [apply nf_ret|].
    unfold unfold_func in Hu. apply nf_bind_idxM. intros x Hx. rewrite Hx in Hu.
    destruct (map_snd (unfold_vt g t) (f_params x)) as [ps|] eqn:Ep; [|discriminate].
    destruct (omap (unfold_vt g t) (f_result x)) as [r|] eqn:Er; [|discriminate]. injection Hu as <-.
    unfold ft_resfree in Hr. cbn [ft_params ft_result] in Hr. apply andb_true_iff in Hr as [Hr1 Hr2].
    apply nf_bind.
    - apply nf_mapM. intros nv Hin. apply nf_bind; [|intros; apply nf_ret].
      destruct (map_snd_in_l _ _ _ _ Ep Hin) as [y0 [E0 I0]]. rewrite forallb_forall in Hr1. specialize (Hr1 _ I0). cbn [snd] in Hr1.
      eapply (vt_total_all g); eauto. lia.
    - intros ps'. apply nf_bind; [eapply omap_total; eauto using vt_total_all; lia|]. intros r'.
      apply nf_bind; [apply nf_add_func|]. intros y. apply nf_bind; [apply nf_remapped_new|]. intros _. apply nf_ret.
  Qed.

  Theorem leaf_copy_total g k tr : leafk k = true -> unfold g t k = Some tr -> resfree tr = true ->
    forall F, (2 * g + 2 <= F)%nat -> nf (remap_item_kind ord cf F t k).
  Proof.
    intros Hl Hu Hr F HF. destruct F as [|f]; [lia|]. cbn [remap_item_kind].
    destruct g as [|g]; [discriminate|]. cbn [unfold] in Hu.
    destruct k as [[| |v| | |]|i| | | |v]; try discriminate Hl.
    - destruct (unfold_vt (S g) t v) as [vt|] eqn:Ev; [|discriminate]. injection Hu as <-. cbn [resfree] in Hr.
      apply nf_bind; [|intros; apply nf_ret]. destruct f as [|f]; [lia|]. cbn [remap_type].
      apply nf_bind; [|intros; apply nf_ret]. eapply (vt_total_all (S g)); eauto. lia.
    - destruct (unfold_func (S g) t i) as [ft|] eqn:Ef; [|discriminate]. injection Hu as <-. cbn [resfree] in Hr.
      apply nf_bind; [|intros; apply nf_ret]. eapply func_total; eauto. lia.
    - destruct (unfold_vt (S g) t v) as [vt|] eqn:Ev; [|discriminate]. injection Hu as <-. cbn [resfree] in Hr.
      apply nf_bind; [|intros; apply nf_ret]. eapply (vt_total_all (S g)); eauto. lia.
  Qed.

  (** the escape clause [LeafOof] of the nested fuel bound is empty for [L >= 2*g + 2] when every resource-free leaf kind of
      the contributor's collection unfolds within [g] *)
  Corollary no_LeafOof g L : (forall k tr, leaf_den t k tr -> unfold g t k = Some tr) -> (2 * g + 2 <= L)%nat ->
    ~ LeafOof ord cf t L.
  Proof.
    intros Hg HL [F [k [tr [c [HF [[Lk [U R]] H]]]]]]. assert (HF2 : (2 * g + 2 <= F)%nat) by lia.
    exact (leaf_copy_total g k tr Lk (Hg k tr (conj Lk (conj U R))) R F HF2 c H).
  Qed.

  (** closed forms of the nested bounds *)
  Theorem nested_copy_total g d k tr ids :
    (forall k0 tr0, leaf_den t k0 tr0 -> unfold g t k0 = Some tr0) -> SDen d t k tr ids ->
    forall F c, (2 * d + 2 * g + 2 <= F)%nat -> remap_item_kind ord cf F t k c <> AOof.
  Proof.
    intros Hg HD F c HF H. apply (no_LeafOof g (2 * g + 2) Hg (le_n _)).
    apply (nested_copy_fuel_bound ord cf t (2 * g + 2) d k tr ids HD F c); [lia|exact H].
  Qed.
  Theorem nested_merge_total g d i oid e ids :
    (forall k0 tr0, leaf_den t k0 tr0 -> unfold g t k0 = Some tr0) -> SIDen d t i oid e ids ->
    forall F y c, (2 * d + 2 * g + 4 <= F)%nat -> merge_interface ord cf F y t i c = AOof -> ChkOof cf t.
  Proof.
    intros Hg ID F y c HF H.
    destruct (nested_merge_fuel_bound ord cf t (2 * g + 2) d i oid e ids ID F y c ltac:(lia) H) as [X|X]; [|exact X].
    exfalso. exact (no_LeafOof g (2 * g + 2) Hg (le_n _) X).
  Qed.
End LeafFuel.
