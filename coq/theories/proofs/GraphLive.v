(** C06: operations on live identifiers do not panic (all operations except [remove_node], which is
    in [GraphAcyclic.v]), and error outcomes imply their documented preconditions. *)
From Coq Require Import List Arith Bool NArith Lia.
From WacV Require Import Graph GraphInv GraphPrims GraphSteps GraphRemove GraphUnreg GraphTheorems.
Import ListNotations.

(** every identifier in the operation denotes something that exists *)
Definition LiveOp (u : universe) (s : gstate) (o : op) : Prop :=
  match o with
  | Register _ => True
  | Unregister id => get_pkg s id <> None
  | DefineType _ t => t < length (u_tys u)
  | Import _ k => k < length (u_lkinds u)
  | Instantiate id => exists p, get_pkg s id = Some p /\ p < length (u_pkgs u)
  | Alias n _ => live s n = true
  | SetArg i _ n => live s i = true /\ live s n = true
  | UnsetArg i _ n => live s i = true /\ live s n = true
  | Export n _ => live s n = true
  | Unexport n => live s n = true
  | SetName n _ => live s n = true
  | RemoveNode n => live s n = true
  end.

Definition no_panic (o : outcome) : Prop := forall p, o <> OPanic p.
Ltac np := solve [intros ? ?; discriminate].

Lemma live_get s n : live s n = true -> exists nd, get_node s n = Some nd.
Proof. unfold live. destruct (get_node s n); [eauto|discriminate]. Qed.

Lemma register_live u s p : InvC u s -> no_panic (snd (register u s p)).
Proof.
  intros H. unfold register. destruct (find_pkg_slot s p); [np|].
  destruct (free_pkgs s) as [|i fp] eqn:Fp; [np|].
  destruct (po_free _ _ _ _ (ic_pkg _ _ H) i) as [sl [Sl _]]; [rewrite Fp; now left|]. rewrite Sl. np.
Qed.

Lemma unregister_live u s id : InvC u s -> get_pkg s id <> None -> no_panic (snd (unregister s id)).
Proof.
  intros H L. destruct (unregister_spec u s id H) as (_ & _ & G & _). rewrite (G L). np.
Qed.

Lemma define_type_live u s nm t : t < length (u_tys u) -> no_panic (snd (define_type u s nm t)).
Proof.
  intros L. unfold define_type. destruct (nth_error (u_tys u) t) as [td|] eqn:E.
  2:{ apply nth_error_None in E. lia. }
  destruct (existsb (fun p => fst p =? t) (defined s)); [np|]. destruct (td_res td); [np|].
  destruct (existsb (fun p => N.eqb (fst p) nm) (exports s)); [np|].
  destruct (negb (u_import_name_ok u nm)); [np|]. destruct (add_node s _). np.
Qed.

Lemma import_live u s nm k : k < length (u_lkinds u) -> no_panic (snd (import_ u s nm k)).
Proof.
  intros L. unfold import_. destruct (nth_error (u_lkinds u) k) as [kd|] eqn:E.
  2:{ apply nth_error_None in E. lia. }
  destruct (alist_get N.eqb (imports s) nm); [np|]. destruct (negb _); [np|]. destruct (add_node s _). np.
Qed.

Lemma instantiate_live u s id p :
  get_pkg s id = Some p -> p < length (u_pkgs u) -> no_panic (snd (instantiate u s id)).
Proof.
  intros G L. unfold instantiate, pkg_desc. rewrite G. destruct (nth_error (u_pkgs u) p) eqn:E.
  2:{ apply nth_error_None in E. lia. }
  destruct (add_node s _). np.
Qed.

Lemma alias_live u s n e : live s n = true -> no_panic (snd (alias u s n e)).
Proof.
  intros L. apply live_get in L as [nd G]. unfold alias. rewrite G.
  destruct (u_inst_exports u (nitem nd)) as [ex|]; [|np]. destruct (get_full ex e 0) as [[index kind]|]; [|np].
  destruct (find _ (outgoing s n)); [np|]. destruct (add_node s _). np.
Qed.

Lemma inst_imports_some u s n nd sat :
  InvC u s -> get_node s n = Some nd -> nk nd = NInst sat -> exists imps, inst_imports u s nd = Some imps.
Proof.
  intros H G K. destruct (po_inst _ _ _ _ (ic_pkg _ _ H) n nd sat G K) as [id [pd [Hn Hp]]].
  unfold inst_imports. rewrite Hn, pkg_desc_l_eq, Hp. eauto.
Qed.

Lemma set_arg_live u s inst a arg :
  InvC u s -> live s inst = true -> live s arg = true -> no_panic (snd (set_arg u s inst a arg)).
Proof.
  intros H L1 L2. apply live_get in L1 as [nd G], L2 as [an Ga]. unfold set_arg. rewrite G.
  destruct (nk nd) as [| |sat|] eqn:K; try np.
  destruct (inst_imports_some u s inst nd sat H G K) as [imps ->].
  destruct (get_full imps a 0) as [[index expected]|]; [|np].
  destruct (scan_incoming _ index arg) eqn:Sc; try np.
  - rewrite Ga. destruct (negb (u_sub u _ _)); [np|].
    destruct (set_arg_cases u s inst arg nd sat index an H G K Sc Ga) as [s2 [Eq Hi]].
    cbn zeta in Eq. rewrite Eq. np.
  - exfalso. apply scan_incoming_panic in Sc as [e [He [Et Hk]]].
    destruct (eo_inst_arg _ _ (ic_edge _ _ H) e nd sat He) as [i Hi]; auto; [now rewrite Et|].
    now apply Hk in Hi.
Qed.

Lemma unset_arg_live u s inst a arg :
  InvC u s -> live s inst = true -> no_panic (snd (unset_arg u s inst a arg)).
Proof.
  intros H L1. apply live_get in L1 as [nd G]. unfold unset_arg. rewrite G.
  destruct (nk nd) as [| |sat|] eqn:K; try np.
  destruct (inst_imports_some u s inst nd sat H G K) as [imps ->].
  destruct (get_full imps a 0) as [[index expected]|]; [|np].
  destruct (scan_connecting _ index) eqn:Sc; try np.
  - destruct (unset_arg_cases u s inst arg nd sat index H G K Sc) as [s1 [Eq Hi]]. rewrite Eq. np.
  - exfalso. apply scan_connecting_panic in Sc as [e [He [Et Hk]]].
    destruct (eo_inst_arg _ _ (ic_edge _ _ H) e nd sat He) as [i Hi]; auto; [now rewrite Et|].
    now apply Hk in Hi.
Qed.

Lemma export_live u s n e : live s n = true -> no_panic (snd (export_ u s n e)).
Proof.
  intros L. apply live_get in L as [nd G]. unfold export_, update_node. rewrite G.
  destruct (alist_get N.eqb (exports s) e); [np|]. destruct (negb _); np.
Qed.

Lemma unexport_live u s n : InvC u s -> live s n = true -> no_panic (snd (unexport s n)).
Proof.
  intros H L. apply live_get in L as [nd G]. unfold unexport. rewrite G.
  destruct (nk nd) eqn:K; [np| | |];
    (destruct (unexport_cases u s n nd H G) as [ex [Eq Hi]]; [congruence|];
     rewrite K in *; cbn zeta in Eq; rewrite Eq; np).
Qed.

Lemma set_name_live s n nm : live s n = true -> no_panic (snd (set_name s n nm)).
Proof. intros L. apply live_get in L as [nd G]. unfold set_name, update_node. rewrite G. np. Qed.

Lemma step_no_panic_live_but_remove u s o :
  Inv u s -> LiveOp u s o -> (forall n, o <> RemoveNode n) -> forall p, snd (step u s o) <> OPanic p.
Proof.
  intros H L Hr. apply Inv_iff in H. destruct o; cbn [step LiveOp] in *.
  - now apply register_live.
  - now apply (unregister_live u).
  - now apply define_type_live.
  - now apply import_live.
  - destruct L as [q [G Lq]]. eapply instantiate_live; eauto.
  - now apply alias_live.
  - destruct L. now apply set_arg_live.
  - destruct L. now apply unset_arg_live.
  - now apply export_live.
  - now apply (unexport_live u).
  - now apply set_name_live.
  - exfalso. now apply (Hr n).
Qed.

(** * documented errors *)
Lemma export_errors u s n e x :
  snd (export_ u s n e) = OErr x ->
  (exists m, x = ExportAlreadyExists m /\ alist_get N.eqb (exports s) e = Some m) \/
  (x = InvalidExportName /\ alist_get N.eqb (exports s) e = None /\ u_export_name_ok u e = false).
Proof.
  unfold export_. destruct (alist_get N.eqb (exports s) e) as [m|]; [intros [= <-]; eauto|].
  destruct (u_export_name_ok u e); cbn [negb]; [destruct (update_node s n _); discriminate|].
  intros [= <-]. auto.
Qed.

Lemma export_exists_iff u s n e m :
  snd (export_ u s n e) = OErr (ExportAlreadyExists m) <-> alist_get N.eqb (exports s) e = Some m.
Proof.
  split.
  - intros H. apply export_errors in H as [[m' [[= ->] H]]|[H _]]; [auto|discriminate].
  - intros H. unfold export_. now rewrite H.
Qed.

Lemma import_errors u s nm k x :
  snd (import_ u s nm k) = OErr x ->
  (exists n, x = ImportAlreadyExists n /\ alist_get N.eqb (imports s) nm = Some n) \/
  (x = InvalidImportName /\ alist_get N.eqb (imports s) nm = None /\ u_import_name_ok u nm = false).
Proof.
  unfold import_. destruct (nth_error (u_lkinds u) k); [|discriminate].
  destruct (alist_get N.eqb (imports s) nm) as [m|]; [intros [= <-]; eauto|].
  destruct (u_import_name_ok u nm); cbn [negb]; [destruct (add_node s _); discriminate|].
  intros [= <-]. auto.
Qed.

(** the node named by [ImportAlreadyExists] is the live import node of that name *)
Lemma import_exists_node u s nm k n :
  Inv u s -> snd (import_ u s nm k) = OErr (ImportAlreadyExists n) ->
  exists nd, get_node s n = Some nd /\ nk nd = NImport nm.
Proof.
  intros H E. apply import_errors in E as [[n' [[= ->] E]]|[E _]]; [|discriminate].
  apply alist_get_In in E. now apply (inv_imports _ _ H).
Qed.

Lemma existsb_fst_nat {B} (l : list (nat * B)) t :
  existsb (fun p => fst p =? t) l = true -> exists n, In (t, n) l.
Proof.
  intros H. apply existsb_exists in H as [[t' n] [Hin E]]. cbn in E. apply Nat.eqb_eq in E. subst. eauto.
Qed.

Lemma define_type_errors u s nm t x :
  snd (define_type u s nm t) = OErr x ->
  exists td, nth_error (u_tys u) t = Some td /\
  ((x = TypeAlreadyDefined /\ exists n, In (t, n) (defined s)) \/
   (x = CannotDefineResource /\ td_res td = true) \/
   (x = ExportConflict /\ In nm (map fst (exports s))) \/
   (x = InvalidExternName /\ u_import_name_ok u nm = false)).
Proof.
  unfold define_type. destruct (nth_error (u_tys u) t) as [td|]; [|discriminate]. intros H. exists td. split; auto.
  destruct (existsb (fun p => fst p =? t) (defined s)) eqn:E1.
  { injection H as <-. left. split; auto. now apply existsb_fst_nat. }
  destruct (td_res td) eqn:E2. { injection H as <-. auto. }
  destruct (existsb (fun p => N.eqb (fst p) nm) (exports s)) eqn:E3.
  { injection H as <-. right. right. left. split; auto.
    destruct (in_dec N.eq_dec nm (map fst (exports s))) as [Hi|Hi]; auto.
    apply existsb_key_false in Hi. congruence. }
  destruct (u_import_name_ok u nm) eqn:E4; cbn [negb] in H. { destruct (add_node s _). discriminate. }
  injection H as <-. auto.
Qed.

Lemma unexport_errors s n x :
  snd (unexport s n) = OErr x ->
  x = MustExportDefinition /\ exists nd, get_node s n = Some nd /\ nk nd = NDef.
Proof.
  unfold unexport. destruct (get_node s n) as [nd|]; [|discriminate].
  destruct (nk nd) eqn:K; [intros [= <-]; eauto| | |];
    (destruct (match nexport nd with Some nm => _ | None => _ end); discriminate).
Qed.

Lemma alias_errors u s n e x :
  snd (alias u s n e) = OErr x ->
  exists nd, get_node s n = Some nd /\
  ((x = NodeIsNotAnInstance /\ u_inst_exports u (nitem nd) = None) \/
   (x = InstanceMissingExport /\ exists ex, u_inst_exports u (nitem nd) = Some ex /\ get_full ex e 0 = None)).
Proof.
  unfold alias. destruct (get_node s n) as [nd|]; [|discriminate]. intros H. exists nd. split; auto.
  destruct (u_inst_exports u (nitem nd)) as [ex|]; [|injection H as <-; auto].
  destruct (get_full ex e 0) as [[index kind]|] eqn:Gf; [|injection H as <-; eauto].
  destruct (find _ (outgoing s n)); [discriminate|]. destruct (add_node s _). discriminate.
Qed.

Lemma scan_incoming_other es inst index arg :
  scan_incoming (filter (fun e => etgt e =? inst) es) index arg = ScanOther ->
  exists e, In e es /\ etgt e = inst /\ ek e = EArg index /\ esrc e <> arg.
Proof.
  induction es as [|x es IH]; cbn; [discriminate|]. destruct (Nat.eqb_spec (etgt x) inst) as [Et|Et].
  - cbn. destruct (ek x) as [j|j|] eqn:K; try discriminate.
    destruct (Nat.eqb_spec j index) as [->|Hj].
    + destruct (Nat.eqb_spec (esrc x) arg); [discriminate|]. intros _. exists x. auto.
    + intros H. destruct (IH H) as [e [He R]]. eauto.
  - intros H. destruct (IH H) as [e [He R]]. eauto.
Qed.

Lemma set_arg_errors u s inst a arg x :
  snd (set_arg u s inst a arg) = OErr x ->
  exists nd, get_node s inst = Some nd /\
  ((x = NodeIsNotAnInstantiation /\ forall sat, nk nd <> NInst sat) \/
   exists imps, inst_imports u s nd = Some imps /\
     ((x = InvalidArgumentName /\ get_full imps a 0 = None) \/
      exists index expected, get_full imps a 0 = Some (index, expected) /\
        ((x = ArgumentAlreadyPassed /\
          exists e, In e (edges s) /\ etgt e = inst /\ ek e = EArg index /\ esrc e <> arg) \/
         (x = ArgumentTypeMismatch /\ exists an, get_node s arg = Some an /\ u_sub u (nitem an) expected = false)))).
Proof.
  unfold set_arg. destruct (get_node s inst) as [nd|]; [|discriminate]. intros H. exists nd. split; auto.
  destruct (nk nd) as [| |sat|] eqn:K; try (injection H as <-; left; split; auto; intros; discriminate).
  right. destruct (inst_imports u s nd) as [imps|]; [|discriminate]. exists imps. split; auto.
  destruct (get_full imps a 0) as [[index expected]|]; [|injection H as <-; auto].
  right. exists index, expected. split; auto.
  destruct (scan_incoming _ index arg) eqn:Sc; try discriminate.
  - destruct (get_node s arg) as [an|]; [|discriminate].
    destruct (u_sub u (nitem an) expected) eqn:Su; cbn [negb] in H.
    + destruct (add_satisfied _ inst index) as [[s2|]|]; discriminate.
    + injection H as <-. right. eauto.
  - injection H as <-. left. split; auto. now apply scan_incoming_other in Sc.
Qed.

(** the operations that have no error outcome *)
Lemma infallible_ops u s o x :
  snd (step u s o) = OErr x ->
  match o with
  | Unregister _ | Instantiate _ | SetName _ _ | RemoveNode _ => False
  | _ => True
  end.
Proof.
  destruct o; cbn [step]; auto.
  - unfold unregister. destruct (nth_error (pkgs s) (fst id)) as [sl|]; [|discriminate].
    destruct (negb (ps_gen sl =? snd id)); [discriminate|]. destruct (negb _); [discriminate|].
    destruct (remove_satisfied_all _ _); [|discriminate]. destruct (ps_pkg sl); discriminate.
  - unfold instantiate. destruct (pkg_desc u s id); [|discriminate]. destruct (add_node s _). discriminate.
  - unfold set_name. destruct (update_node s n _); discriminate.
  - unfold remove_node. destruct (remove_node_rec _ s n); discriminate.
Qed.
