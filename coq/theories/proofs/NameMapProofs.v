(** NameMap::{insert,get}: exact match first, else the highest version on the track, whatever the
    insertion order. *)
From Coq Require Import Permutation.
From WacV Require Import Str Ord Semver Names NamesSpec SemverProofs SemverText NamesProofs.

Lemma NoDup_app_one {A} (l : list A) a : NoDup l -> ~ In a l -> NoDup (l ++ [a]).
Proof.
  induction l as [|x l IH]; cbn; intros ND Hn.
  - constructor; auto; constructor.
  - inversion ND as [|? ? Hx ND']; subst. constructor.
    + intros H. apply in_app_or in H as [H|[H|[]]]; [contradiction|]. subst. apply Hn. now left.
    + apply IH; auto.
Qed.

Section WithV.
Context {V : Type}.
Implicit Types (es : list (str * V)).

(** association-list facts *)
Lemma im_insert_snd {W} (m : list (str * W)) k v : snd (im_insert m k v) = im_get m k.
Proof.
  induction m as [|[k' v'] m IH]; cbn; auto.
  destruct (str_eqb k' k); cbn; auto. destruct (im_insert m k v); cbn in *; auto.
Qed.

Lemma im_get_insert {W} (m : list (str * W)) k v k' :
  im_get (fst (im_insert m k v)) k' = if str_eqb k k' then Some v else im_get m k'.
Proof.
  induction m as [|[k0 v0] m IH]; cbn.
  - reflexivity.
  - destruct (str_eqb k0 k) eqn:E; cbn.
    + apply str_eqb_eq in E; subst. destruct (str_eqb k k'); auto.
    + destruct (im_insert m k v) as [m' o] eqn:I; cbn in *. rewrite IH.
      destruct (str_eqb k k') eqn:E2; auto. apply str_eqb_eq in E2; subst. now rewrite E.
Qed.

Lemma im_insert_fresh {W} (m : list (str * W)) k v :
  im_get m k = None -> fst (im_insert m k v) = m ++ [(k, v)].
Proof.
  induction m as [|[k0 v0] m IH]; cbn; auto.
  destruct (str_eqb k0 k); try discriminate. intros H. apply IH in H.
  destruct (im_insert m k v); cbn in *. now rewrite H.
Qed.

Lemma im_get_none_existsb {W} (m : list (str * W)) k :
  im_get m k = None <-> existsb (str_eqb k) (map fst m) = false.
Proof.
  induction m as [|[k0 v0] m IH]; cbn; [tauto|].
  destruct (str_eqb k0 k) eqn:E.
  - apply str_eqb_eq in E; subst. rewrite str_eqb_refl. cbn. split; discriminate.
  - replace (str_eqb k k0) with false; auto.
    symmetry. apply str_eqb_neq. apply str_eqb_neq in E. congruence.
Qed.

Lemma im_get_app {W} (m1 m2 : list (str * W)) k :
  im_get (m1 ++ m2) k = match im_get m1 k with Some v => Some v | None => im_get m2 k end.
Proof.
  induction m1 as [|[k0 v0] m1 IH]; cbn; auto. destruct (str_eqb k0 k); auto.
Qed.

Lemma im_get_in {W} (m : list (str * W)) k v : im_get m k = Some v -> In (k, v) m.
Proof.
  induction m as [|[k0 v0] m IH]; cbn; try discriminate.
  destruct (str_eqb k0 k) eqn:E.
  - apply str_eqb_eq in E; subst. intros H; injection H as ->. auto.
  - auto.
Qed.

Lemma in_im_get {W} (m : list (str * W)) k v : NoDup (map fst m) -> In (k, v) m -> im_get m k = Some v.
Proof.
  induction m as [|[k0 v0] m IH]; cbn; [tauto|]. intros ND [E|Hin].
  - injection E as -> ->. now rewrite str_eqb_refl.
  - inversion ND as [|? ? Hn ND']; subst. destruct (str_eqb k0 k) eqn:E.
    + apply str_eqb_eq in E; subst. exfalso. apply Hn. apply (in_map fst) in Hin. exact Hin.
    + auto.
Qed.

Lemma find_exact_im_get es q : find_exact q es = im_get es q.
Proof. induction es as [|[n x] es IH]; cbn; auto. destruct (str_eqb n q); auto. Qed.

(** the alternate table after a history *)
Definition alt_step (k : str) (acc : option (str * version)) (e : str * V) : option (str * version) :=
  match alt_key (fst e) with
  | Some (k', v) =>
      if str_eqb k' k then
        match acc with
        | Some (pn, pv) => if version_ltb v pv then acc else Some (fst e, v)
        | None => Some (fst e, v)
        end
      else acc
  | None => acc
  end.
Definition alt_best (k : str) es : option (str * version) := fold_left (alt_step k) es None.

Lemma alt_best_snoc k es e : alt_best k (es ++ [e]) = alt_step k (alt_best k es) e.
Proof. unfold alt_best. now rewrite fold_left_app. Qed.

Definition Rel (m : namemap V) es : Prop :=
  defs m = es /\ forall k, im_get (alts m) k = alt_best k es.

Lemma Rel_step m es op : Rel m es -> Rel (nm_step m op) (acc_step es op).
Proof.
  intros [Hd Ha]. destruct op as [name item]. unfold nm_step, nm_insert, acc_step. cbn [fst snd].
  destruct (im_insert (defs m) name item) as [d prev] eqn:I.
  assert (prev = im_get (defs m) name) as Hp by (rewrite <- im_insert_snd with (v := item); now rewrite I).
  destruct (existsb (str_eqb name) (map fst es)) eqn:X.
  - (* rejected: defined twice *)
    destruct prev as [p|]; [split; auto|].
    symmetry in Hp. apply im_get_none_existsb in Hp. congruence.
  - assert (im_get (defs m) name = None) as Hn by (apply im_get_none_existsb; congruence).
    rewrite Hn in Hp. subst prev.
    assert (d = es ++ [(name, item)]) as ->.
    { replace d with (fst (im_insert (defs m) name item)) by now rewrite I.
      rewrite im_insert_fresh by auto. now rewrite Hd. }
    destruct (alt_key name) as [[ak v]|] eqn:AK.
    + destruct (im_insert (alts m) ak (name, v)) as [a prevk] eqn:IA.
      assert (prevk = alt_best ak es) as Hpk.
      { rewrite <- Ha. rewrite <- im_insert_snd with (v := (name, v)). now rewrite IA. }
      assert (forall k, im_get a k = if str_eqb ak k then Some (name, v) else alt_best k es) as Hga.
      { intros k. replace a with (fst (im_insert (alts m) ak (name, v))) by now rewrite IA.
        rewrite im_get_insert. now rewrite Ha. }
      destruct prevk as [[pk pv]|].
      * destruct (version_ltb v pv) eqn:L; (split; [reflexivity|]); intros k; cbn [alts];
          rewrite alt_best_snoc; unfold alt_step; cbn [fst]; rewrite AK.
        -- rewrite im_get_insert, Hga. destruct (str_eqb ak k) eqn:E; auto.
           apply str_eqb_eq in E; subst k. rewrite <- Hpk. now rewrite L.
        -- rewrite Hga. destruct (str_eqb ak k) eqn:E; auto.
           apply str_eqb_eq in E; subst k. rewrite <- Hpk. now rewrite L.
      * split; [reflexivity|]. intros k; cbn [alts]. rewrite alt_best_snoc; unfold alt_step; cbn [fst]; rewrite AK.
        rewrite Hga. destruct (str_eqb ak k) eqn:E; auto.
        apply str_eqb_eq in E; subst k. now rewrite <- Hpk.
    + split; [reflexivity|]. intros k; cbn [alts]. rewrite alt_best_snoc; unfold alt_step; cbn [fst]; rewrite AK. apply Ha.
Qed.

Lemma Rel_fold ops : forall m es, Rel m es -> Rel (fold_left nm_step ops m) (fold_left acc_step ops es).
Proof.
  induction ops as [|op ops IH]; intros m es R; cbn; auto. apply IH, Rel_step, R.
Qed.

Lemma Rel_build (ops : list (str * V)) : Rel (nm_build ops) (accepted ops).
Proof. apply Rel_fold. split; auto. Qed.

(** accepted insertions have distinct names and come from the history *)
Lemma acc_step_nodup es op : NoDup (map fst es) -> NoDup (map fst (acc_step es op)).
Proof.
  intros ND. unfold acc_step. destruct (existsb _ _) eqn:X; auto.
  rewrite map_app. cbn. apply NoDup_app_one; auto.
  intros Hin. assert (existsb (str_eqb (fst op)) (map fst es) = true); [|congruence].
  apply existsb_exists. exists (fst op). split; auto. apply str_eqb_refl.
Qed.

Lemma accepted_nodup_gen ops : forall es, NoDup (map fst es) -> NoDup (map fst (fold_left acc_step ops es)).
Proof. induction ops as [|op ops IH]; intros es ND; cbn; auto. apply IH, acc_step_nodup, ND. Qed.

Lemma accepted_nodup (ops : list (str * V)) : NoDup (map fst (accepted ops)).
Proof. apply accepted_nodup_gen. constructor. Qed.

Lemma accepted_incl_gen ops : forall es e, In e (fold_left acc_step ops es) -> In e es \/ In e ops.
Proof.
  induction ops as [|op ops IH]; intros es e H; cbn in *; auto.
  apply IH in H as [H|H]; auto. unfold acc_step in H. destruct (existsb _ _); auto.
  apply in_app_or in H as [H|[H|[]]]; auto.
Qed.

Lemma accepted_incl (ops : list (str * V)) e : In e (accepted ops) -> In e ops.
Proof. intros H. apply accepted_incl_gen in H as [[]|H]; auto. Qed.

Lemma accepted_nodup_id_gen ops : forall es,
  NoDup (map fst (es ++ ops)) -> fold_left acc_step ops es = es ++ ops.
Proof.
  induction ops as [|op ops IH]; intros es ND; cbn.
  - now rewrite app_nil_r.
  - assert (existsb (str_eqb (fst op)) (map fst es) = false) as X.
    { destruct (existsb _ _) eqn:X; auto. exfalso.
      apply existsb_exists in X as [k [Hin E]]. apply str_eqb_eq in E; subst k.
      rewrite map_app in ND. cbn in ND. apply NoDup_remove_2 in ND. apply ND. apply in_or_app; auto. }
    unfold acc_step at 2. rewrite X. rewrite IH.
    + now rewrite <- app_assoc.
    + now rewrite <- app_assoc.
Qed.

Lemma accepted_nodup_id (ops : list (str * V)) : NoDup (map fst ops) -> accepted ops = ops.
Proof. intros ND. unfold accepted. now rewrite accepted_nodup_id_gen. Qed.

(** candidates on the query's track *)
Definition pick_max (best : option (version * V)) (c : version * V) : option (version * V) :=
  match best with
  | Some (bv, _) => if version_ltb (fst c) bv then best else Some c
  | None => Some c
  end.

Fixpoint cands (q : str) es : list (version * V) :=
  match es with
  | [] => []
  | (n, x) :: r =>
      if same_track n q then
        match version_of n with Some v => (v, x) :: cands q r | None => cands q r end
      else cands q r
  end.

Lemma best_on_track_fold q es acc : best_on_track q es acc = fold_left pick_max (cands q es) acc.
Proof.
  revert acc. induction es as [|[n x] es IH]; intros acc; cbn; auto.
  destruct (same_track n q); auto. destruct (version_of n) as [v|]; auto.
  cbn. rewrite IH. unfold pick_max at 2. cbn. destruct acc as [[bv bx]|]; auto.
Qed.

Lemma cands_in q es v x : In (v, x) (cands q es) <->
  exists n, In (n, x) es /\ same_track n q = true /\ version_of n = Some v.
Proof.
  induction es as [|[n0 x0] es IH]; cbn.
  - split; [tauto|]. intros [n [[] _]].
  - destruct (same_track n0 q) eqn:S.
    + destruct (version_of n0) as [v0|] eqn:Vn; cbn; rewrite IH; split.
      * intros [E|[n [H1 H2]]]; [injection E as -> ->; exists n0; auto | exists n; auto].
      * intros [n [[E|H1] [H2 H3]]]; [injection E as -> ->; left; congruence | right; exists n; auto].
      * intros [n [H1 H2]]; exists n; auto.
      * intros [n [[E|H1] [H2 H3]]]; [injection E as -> ->; congruence | exists n; auto].
    + rewrite IH; split.
      * intros [n [H1 H2]]; exists n; auto.
      * intros [n [[E|H1] [H2 H3]]]; [injection E as -> ->; congruence | exists n; auto].
Qed.

Lemma version_ltb_lt a b : version_ltb a b = true <-> cmp_version a b = Lt.
Proof. unfold version_ltb. destruct (cmp_version a b); split; congruence. Qed.

Definition vle (a b : version) : Prop := cmp_version a b <> Gt.

Lemma vle_refl a : vle a a.
Proof. unfold vle. rewrite (tc_refl _ cmp_version_total). discriminate. Qed.

Lemma vle_trans a b c : vle a b -> vle b c -> vle a c.
Proof.
  pose proof cmp_version_total as T. unfold vle. intros H1 H2 G.
  destruct (cmp_version a b) eqn:E1; try congruence.
  - apply (tc_eq _ T) in E1. subst. contradiction.
  - destruct (cmp_version b c) eqn:E2; try congruence.
    + apply (tc_eq _ T) in E2. subst. congruence.
    + pose proof (tc_trans _ T _ _ _ E1 E2). congruence.
Qed.

Lemma not_lt_vle a b : version_ltb a b = false -> vle b a.
Proof.
  pose proof cmp_version_total as T. unfold version_ltb, vle. rewrite (tc_anti _ T a b).
  destruct (cmp_version a b); cbn; congruence.
Qed.

Lemma lt_vle a b : version_ltb a b = true -> vle a b.
Proof. unfold version_ltb, vle. destruct (cmp_version a b); congruence. Qed.

Lemma pick_max_spec acc c0 : exists m, pick_max acc c0 = Some m /\ (acc = Some m \/ m = c0) /\
  vle (fst c0) (fst m) /\ (forall a, acc = Some a -> vle (fst a) (fst m)).
Proof.
  unfold pick_max. destruct acc as [[bv bx]|].
  - destruct (version_ltb (fst c0) bv) eqn:L.
    + exists (bv, bx). repeat split; auto.
      * now apply lt_vle.
      * intros a E; injection E as <-. apply vle_refl.
    + exists c0. repeat split; auto.
      * apply vle_refl.
      * intros a E; injection E as <-. now apply not_lt_vle.
  - exists c0. repeat split; auto. apply vle_refl. discriminate.
Qed.

Lemma fold_max_spec (l : list (version * V)) : forall acc r,
  fold_left pick_max l acc = r ->
  (r = None -> acc = None /\ l = []) /\
  (forall c, r = Some c ->
     (acc = Some c \/ In c l) /\
     forall c', acc = Some c' \/ In c' l -> vle (fst c') (fst c)).
Proof.
  induction l as [|c0 l IH]; intros acc r H; cbn in H.
  - subst r. split; auto. intros c ->. split; auto. intros c' [E|[]]. injection E as ->. apply vle_refl.
  - destruct (pick_max_spec acc c0) as [m [Pm [Hm [L0 La]]]].
    apply IH in H as [H1 H2]. split.
    + intros E. apply H1 in E as [E _]. congruence.
    + intros c E. destruct (H2 c E) as [Hin Hmax]. split.
      * destruct Hin as [Hin|Hin]; [|right; right; exact Hin].
        rewrite Pm in Hin. injection Hin as <-. destruct Hm as [Hm| ->]; [left; exact Hm | right; left; reflexivity].
      * assert (vle (fst m) (fst c)) as Mc by (apply Hmax; left; exact Pm).
        intros c' [Hc'|[Hc'|Hc']].
        -- eapply vle_trans; [apply La; exact Hc' | exact Mc].
        -- subst c'. eapply vle_trans; eauto.
        -- apply Hmax. right. exact Hc'.
Qed.

(** "x is the value of an entry with the highest version among those compatible with q" *)
Definition is_highest es (q : str) (x : V) : Prop :=
  exists n v, In (n, x) es /\ same_track n q = true /\ version_of n = Some v /\
    forall n' x' v', In (n', x') es -> same_track n' q = true -> version_of n' = Some v' ->
                     vle v' v.

Lemma best_on_track_some q es v x :
  best_on_track q es None = Some (v, x) -> is_highest es q x.
Proof.
  rewrite best_on_track_fold. intros H. apply fold_max_spec in H as [_ H].
  destruct (H _ eq_refl) as [[F|Hin] Hmax]; try discriminate.
  apply cands_in in Hin as [n [H1 [H2 H3]]]. exists n, v. repeat split; auto.
  intros n' x' v' I1 I2 I3. apply (Hmax (v', x')). right. apply cands_in. exists n'; auto.
Qed.

Lemma best_on_track_none q es :
  best_on_track q es None = None ->
  forall n x, In (n, x) es -> same_track n q = true -> version_of n = None.
Proof.
  rewrite best_on_track_fold. intros H. apply fold_max_spec in H as [H _].
  destruct (H eq_refl) as [_ E]. intros n x Hin S.
  destruct (version_of n) as [v|] eqn:Vn; auto.
  assert (In (v, x) (cands q es)) as C by (apply cands_in; exists n; auto). rewrite E in C. destruct C.
Qed.

Lemma same_track_version n q : same_track n q = true -> exists v, version_of n = Some v.
Proof.
  unfold same_track, version_of. destruct (name_track n) as [[[b t] v]|]; try discriminate. eauto.
Qed.

(** the model lookup equals the specification lookup *)
Definition bstep (q : str) (best : option (version * V)) (e : str * V) : option (version * V) :=
  if same_track (fst e) q then
    match version_of (fst e), best with
    | Some v, Some (bv, _) => if version_ltb v bv then best else Some (v, snd e)
    | Some v, None => Some (v, snd e)
    | None, _ => best
    end
  else best.

Lemma best_on_track_cons q e es acc :
  best_on_track q (e :: es) acc = best_on_track q es (bstep q acc e).
Proof.
  destruct e as [n x]. unfold bstep. cbn. destruct (same_track n q); auto.
  destruct (version_of n); auto. destruct acc as [[bv bx]|]; auto.
Qed.

Definition RelAcc es_all (acc : option (str * version)) (acc' : option (version * V)) : Prop :=
  match acc, acc' with
  | None, None => True
  | Some (n, v), Some (v', x) => v = v' /\ im_get es_all n = Some x
  | _, _ => False
  end.

Lemma alt_best_vs_best q ak vq es_all : alt_key q = Some (ak, vq) -> NoDup (map fst es_all) ->
  forall es acc acc', incl es es_all -> RelAcc es_all acc acc' ->
    RelAcc es_all (fold_left (alt_step ak) es acc) (best_on_track q es acc').
Proof.
  intros AQ ND. induction es as [|[n0 x0] es IH]; intros acc acc' Hincl R.
  - exact R.
  - rewrite best_on_track_cons. cbn [fold_left].
    assert (In (n0, x0) es_all) as Hin0 by (apply Hincl; left; reflexivity).
    assert (incl es es_all) as Hincl' by (intros e He; apply Hincl; right; exact He).
    apply IH; auto. unfold alt_step, bstep. cbn [fst snd].
    destruct (alt_key n0) as [[k0 v0]|] eqn:A0.
    + rewrite (alt_key_same_track _ _ _ _ _ _ A0 AQ).
      destruct (same_track n0 q) eqn:S; auto.
      assert (version_of n0 = Some v0) as Vn.
      { apply alt_key_sound in A0 as [b [t [TN _]]]. unfold version_of. now rewrite TN. }
      rewrite Vn. unfold RelAcc in *. destruct acc as [[pn pv]|], acc' as [[bv bx]|]; try contradiction.
      * destruct R as [-> R]. destruct (version_ltb v0 bv); auto. split; auto. now apply in_im_get.
      * split; auto. now apply in_im_get.
    + apply alt_key_none in A0. unfold same_track. rewrite A0. exact R.
Qed.

Theorem nm_get_spec (ops : list (str * V)) q : nm_get (nm_build ops) q = spec_get ops q.
Proof.
  destruct (Rel_build ops) as [Hd Ha]. unfold nm_get, spec_get. rewrite Hd, find_exact_im_get.
  destruct (im_get (accepted ops) q) as [x|]; auto.
  destruct (alt_key q) as [[ak vq]|] eqn:AQ.
  - rewrite Ha. unfold alt_best.
    pose proof (alt_best_vs_best q ak vq (accepted ops) AQ (accepted_nodup ops) (accepted ops) None None
                  (incl_refl _) I) as H. unfold RelAcc in H.
    destruct (fold_left (alt_step ak) (accepted ops) None) as [[n v]|],
             (best_on_track q (accepted ops) None) as [[v' x]|]; try contradiction; auto.
    destruct H as [_ H]. exact H.
  - apply alt_key_none in AQ.
    assert (forall es acc, best_on_track q es acc = acc) as B.
    { induction es as [|[n x] es IH]; intros acc; cbn; auto.
      unfold same_track. rewrite AQ. destruct (name_track n) as [[[? ?] ?]|]; auto. }
    now rewrite B.
Qed.

(** declarative consequences *)
Theorem spec_get_exact (ops : list (str * V)) n x : In (n, x) (accepted ops) -> spec_get ops n = Some x.
Proof.
  intros H. unfold spec_get. rewrite find_exact_im_get.
  rewrite (in_im_get _ _ _ (accepted_nodup ops) H). reflexivity.
Qed.

Theorem spec_get_highest (ops : list (str * V)) q x :
  find_exact q (accepted ops) = None -> spec_get ops q = Some x -> is_highest (accepted ops) q x.
Proof.
  unfold spec_get. intros ->. destruct (best_on_track q (accepted ops) None) as [[v y]|] eqn:B; try discriminate.
  intros H; injection H as ->. eapply best_on_track_some; eauto.
Qed.

Theorem spec_get_none (ops : list (str * V)) q :
  spec_get ops q = None ->
  forall n x, In (n, x) (accepted ops) -> n <> q /\ same_track n q = false.
Proof.
  unfold spec_get. rewrite find_exact_im_get.
  destruct (im_get (accepted ops) q) as [y|] eqn:E; try discriminate.
  destruct (best_on_track q (accepted ops) None) as [[v y]|] eqn:B; try discriminate.
  intros _ n x Hin. split.
  - intros ->. rewrite (in_im_get _ _ _ (accepted_nodup ops) Hin) in E. discriminate.
  - destruct (same_track n q) eqn:S; auto.
    pose proof (best_on_track_none _ _ B _ _ Hin S) as Vn.
    apply same_track_version in S as [v Vn']. congruence.
Qed.

(** uniqueness of the highest entry: equal versions on one track mean equal names *)
Lemma same_track_same_version_name a b v :
  same_track a b = true -> version_of a = Some v -> version_of b = Some v -> a = b.
Proof.
  unfold same_track, version_of.
  destruct (name_track a) as [[[ba ta] va]|] eqn:A; try discriminate.
  destruct (name_track b) as [[[bb tb] vb]|] eqn:B; try discriminate.
  intros S E1 E2. injection E1 as ->. injection E2 as ->.
  apply andb_true_iff in S as [S _]. apply str_eqb_eq in S. subst bb.
  apply name_track_shape in A as [ra [-> [_ [Pa _]]]].
  apply name_track_shape in B as [rb [-> [_ [Pb _]]]].
  f_equal. f_equal. eapply parse_version_inj; eauto.
Qed.

Lemma highest_unique es q x x' :
  NoDup (map fst es) -> is_highest es q x -> is_highest es q x' -> x = x'.
Proof.
  pose proof cmp_version_total as T.
  intros ND [n [v [I1 [S1 [V1 M1]]]]] [n' [v' [I2 [S2 [V2 M2]]]]].
  pose proof (M1 _ _ _ I2 S2 V2) as A. pose proof (M2 _ _ _ I1 S1 V1) as B. unfold vle in A, B.
  assert (v = v') as <-.
  { destruct (cmp_version v v') eqn:C.
    - now apply (tc_eq _ T).
    - rewrite (tc_anti _ T), C in A. cbn in A. congruence.
    - congruence. }
  assert (n = n') as <-.
  { eapply same_track_same_version_name; eauto.
    eapply same_track_trans; eauto. now rewrite same_track_sym. }
  apply (in_im_get _ _ _ ND) in I1, I2. congruence.
Qed.

Lemma is_highest_perm es es' q x : Permutation es es' -> is_highest es q x -> is_highest es' q x.
Proof.
  intros P [n [v [I [S [Vn M]]]]]. exists n, v. repeat split; auto.
  - eapply Permutation_in; eauto.
  - intros n' x' v' I'. apply (M n' x' v'). eapply Permutation_in; [apply Permutation_sym|]; eauto.
Qed.

Theorem spec_get_order_indep (ops ops' : list (str * V)) q :
  Permutation ops ops' -> NoDup (map fst ops) -> spec_get ops q = spec_get ops' q.
Proof.
  intros P ND.
  assert (NoDup (map fst ops')) as ND' by (eapply Permutation_NoDup; [apply Permutation_map|]; eauto).
  unfold spec_get. rewrite !accepted_nodup_id by auto. rewrite !find_exact_im_get.
  destruct (im_get ops q) as [x|] eqn:E.
  - apply im_get_in in E. eapply Permutation_in in E; eauto.
    now rewrite (in_im_get _ _ _ ND' E).
  - destruct (im_get ops' q) as [x'|] eqn:E'.
    + apply im_get_in in E'. eapply Permutation_in in E'; [|apply Permutation_sym; eauto].
      rewrite (in_im_get _ _ _ ND E') in E. discriminate.
    + destruct (best_on_track q ops None) as [[v x]|] eqn:B, (best_on_track q ops' None) as [[v' x']|] eqn:B'; auto.
      * apply best_on_track_some in B, B'. f_equal.
        eapply highest_unique; [exact ND'| |exact B']. eapply is_highest_perm; eauto.
      * exfalso. apply best_on_track_some in B as [n [v0 [I [S [Vn _]]]]].
        eapply Permutation_in in I; eauto.
        pose proof (best_on_track_none _ _ B' _ _ I S). congruence.
      * exfalso. apply best_on_track_some in B' as [n [v0 [I [S [Vn _]]]]].
        eapply Permutation_in in I; [|apply Permutation_sym; eauto].
        pose proof (best_on_track_none _ _ B _ _ I S). congruence.
Qed.

End WithV.
