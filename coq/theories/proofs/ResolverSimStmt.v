(** C04 proofs, part 12: simulation of statements and of whole documents. *)
From Coq Require Import List Arith Bool NArith Lia.
From WacV Require Import Str Token Lexer Semver Names Ast Graph Resolver LangSpec ResolverProofs ResolverNew
  ResolverStmts ResolverInv ResolverSim ResolverSimExpr ResolverSimNew GraphInv.
Import ListNotations.
Local Open Scope nat_scope.

Section SimStmt.
  Variable u : runiverse.
  Variable self_name : str.
  Variable K : kid -> Prop.
  Hypothesis U : uok u K.
  Notation dv := impl_flags_c04.
  Notation Rel := (Rel u K).

  Definition unit_rel (vm : list sval) (a b : unit) : Prop := True.

  (** ** a state change that replaces one node by one with the same kind, tag and package *)
  Lemma rel_update st env vm n nd nd' g' sc' env' :
    Rel st env vm -> get_node (rs_g st) n = Some nd ->
    nitem nd' = nitem nd -> nk nd' = nk nd -> npkg nd' = npkg nd ->
    nodes g' = set_nth (nodes (rs_g st)) n (Some nd') -> edges g' = edges (rs_g st) ->
    imports g' = imports (rs_g st) -> pkgs g' = pkgs (rs_g st) -> free_nodes g' = [] -> free_pkgs g' = [] ->
    se_imports env' = se_imports env -> se_insts env' = se_insts env ->
    scope_ok vm sc' (se_names env') -> exports_ok u vm (exports g') (se_exports env') ->
    Rel {| rs_g := g'; rs_scope := sc' |} env' vm.
  Proof.
    intros R G I1 I2 I3 Hn He Hi Hp F Fp Ei En Hsc Hex.
    assert (L : n < length (nodes (rs_g st))).
    { apply nth_error_Some. unfold get_node in G. intros X. rewrite X in G. discriminate. }
    assert (Old : forall k a, get_node (rs_g st) k = Some a ->
              exists a', get_node g' k = Some a' /\ nitem a' = nitem a /\ nk a' = nk a /\ npkg a' = npkg a).
    { intros k a Ga. unfold get_node in *. rewrite Hn, nth_error_set_nth'. destruct (Nat.eqb_spec k n) as [->|Ne].
      - apply Nat.ltb_lt in L. rewrite L. exists nd'. rewrite G in Ga. injection Ga as <-. auto.
      - exists a. auto. }
    eapply (Rel_frame u K st env vm _ _ _ R); cbn [rs_g rs_scope].
    - split; auto.
    - rewrite Hn, length_set_nth'. apply (r_len _ _ _ _ _ R).
    - apply prefix_refl.
    - split; [rewrite Ei|rewrite En]; apply prefix_refl.
    - rewrite Hn, length_set_nth'. lia.
    - exact Old.
    - intros id p. unfold get_pkg. now rewrite Hp.
    - intros e H. now rewrite He.
    - intros e H. left. now rewrite <- He.
    - intros k Lo Hi'. rewrite Hn, length_set_nth' in Hi'. lia.
    - exact Hsc.
    - exact Hex.
    - rewrite Ei. eapply imports_ok_mono; [apply prefix_refl|exact Hi|exact Old|apply (r_imports _ _ _ _ _ R)].
    - rewrite En. apply (r_insts _ _ _ _ _ R).
  Qed.

  (** ** binding a local name *)
  Lemma register_name_sim st env vm id n v :
    Rel st env vm -> nth_error vm n = Some v ->
    sim u K unit_rel vm env (register_name u id n st) (bind_name id v env).
  Proof.
    intros R V. unfold register_name, bind_name. unfold bind at 1, get_scope at 1.
    pose proof (scope_get vm _ _ (id_string id) (r_scope _ _ _ _ _ R)) as SG.
    destruct (im_get (rs_scope st) (id_string id)) as [[m a]|].
    - destruct SG as (w & -> & _). reflexivity.
    - rewrite SG. unfold bind at 1, put_scope at 1. unfold bind at 1, get_g at 1. cbn [rs_g].
      destruct (rel_live u K _ _ _ _ _ R V) as (nd & G). rewrite G.
      assert (Sc' : scope_ok vm (rs_scope st ++ [(id_string id, (n, off (id_span id)))]) (se_names env ++ [(id_string id, v)])).
      { apply Forall2_app; [apply (r_scope _ _ _ _ _ R)|]. constructor; [split; auto|constructor]. }
      destruct (nname nd) eqn:NN.
      + (* the node already has a debug name *)
        cbn. exists vm. split; [apply prefix_refl|]. split; [|split; [split; cbn; apply prefix_refl|exact I]].
        eapply (rel_update st env vm n nd nd (rs_g st)); eauto.
        * unfold get_node in G. symmetry. clear -G. revert n G. induction (nodes (rs_g st)) as [|x l IH]; intros [|n] G; cbn in *; try discriminate.
          -- destruct x; [now injection G as ->|discriminate].
          -- f_equal. now apply IH.
        * apply (r_free _ _ _ _ _ R).
        * apply (r_free _ _ _ _ _ R).
        * apply (r_exports _ _ _ _ _ R).
      + unfold bind at 1, gop, bind at 1, get_g at 1. cbn [rs_g]. unfold set_name, update_node. rewrite G.
        unfold bind at 1, put_g at 1, ret at 1. cbn.
        exists vm. split; [apply prefix_refl|]. split; [|split; [split; cbn; apply prefix_refl|exact I]].
        apply (rel_update st env vm n nd
                 {| nk := nk nd; npkg := npkg nd; nitem := nitem nd; nname := Some (ru_intern u (id_string id)); nexport := nexport nd |});
          auto; try apply (r_free _ _ _ _ _ R). apply (r_exports _ _ _ _ _ R).
  Qed.

  (** ** imports *)
  Lemma import_rel st env vm name k' :
    Rel st env vm -> K k' -> has_key (se_imports env) name = false ->
    u_import_name_ok u (ru_intern u name) = true ->
    exists g',
      import_ u (rs_g st) (ru_intern u name) (N.to_nat k') = (g', ONode (length (nodes (rs_g st)))) /\
      Rel {| rs_g := g'; rs_scope := rs_scope st |}
          {| se_names := se_names env; se_imports := se_imports env ++ [(name, k')]; se_insts := se_insts env;
             se_exports := se_exports env |}
          (vm ++ [VImport name]).
  Proof.
    intros R HK HI OK. unfold import_. rewrite (uo_lk _ _ U k' HK).
    pose proof (proj2 (imports_get u K (rs_g st) vm (se_imports env) name U (r_imports _ _ _ _ _ R)) HI) as AG.
    rewrite AG, OK. cbn [negb].
    destruct (r_free _ _ _ _ _ R) as [F Fp].
    destruct (add_node (rs_g st) (mk_node (NImport (ru_intern u name)) k' None)) as [s1 idx] eqn:A.
    apply add_node_nofree in A as (-> & Hn & F' & He & Hi & Hx & Hd & Hp & Hf); auto.
    set (len := length (nodes (rs_g st))).
    eexists. split; [reflexivity|].
    assert (Lv : length vm = len) by apply (r_len _ _ _ _ _ R).
    assert (Old : forall k nd0, get_node (rs_g st) k = Some nd0 ->
              get_node (with_maps s1 ((ru_intern u name, len) :: imports s1) (exports s1) (defined s1)) k = Some nd0).
    { intros k nd0 G0. unfold get_node in *. cbn. rewrite Hn. now apply get_node_app_old. }
    eapply (Rel_frame u K st env vm _ _ _ R); cbn [rs_g rs_scope se_names se_imports se_insts se_exports].
    - split; cbn; congruence.
    - cbn. rewrite Hn, !app_length. cbn. lia.
    - apply prefix_snoc.
    - split; cbn; [apply prefix_snoc|apply prefix_refl].
    - cbn. rewrite Hn, app_length. lia.
    - intros k nd0 G0. exists nd0. split; [now apply Old|auto].
    - intros id p. unfold get_pkg. cbn. now rewrite Hp.
    - intros e H. cbn. now rewrite He.
    - intros e H. cbn in H. left. now rewrite <- He.
    - intros k Lo Hi'. cbn in Hi'. rewrite Hn, app_length in Hi'. cbn in Hi'. assert (k = len) by (unfold len; lia). subst k.
      exists (mk_node (NImport (ru_intern u name)) k' None), (VImport name). split.
      { unfold get_node. cbn. rewrite Hn. unfold len. rewrite nth_error_app2, Nat.sub_diag by lia. reflexivity. }
      split; [rewrite nth_error_app2 by lia; rewrite Lv, Nat.sub_diag; reflexivity|].
      unfold node_ok. cbn. split; [exact HK|]. split; [|split; [discriminate|reflexivity]].
      rewrite im_get_app. unfold has_key in HI. destruct (im_get (se_imports env) name); [discriminate|]. cbn. now rewrite str_eqb_refl.
    - eapply scope_ok_mono; [apply prefix_snoc|apply (r_scope _ _ _ _ _ R)].
    - cbn. rewrite Hx. eapply exports_ok_mono; [apply prefix_snoc|apply (r_exports _ _ _ _ _ R)].
    - unfold imports_ok. cbn [imports with_maps rev]. rewrite Hi. apply Forall2_app.
      + eapply Forall2_impl; [|apply (r_imports _ _ _ _ _ R)].
        intros a b (A0 & B0 & nd0 & G0 & I0). split; auto. split; [eapply prefix_nth; eauto; apply prefix_snoc|].
        exists nd0. split; [now apply Old|auto].
      + constructor; [|constructor]. cbn. split; [reflexivity|].
        split; [rewrite nth_error_app2 by lia; rewrite Lv, Nat.sub_diag; reflexivity|].
        exists (mk_node (NImport (ru_intern u name)) k' None). split; [|reflexivity].
        unfold get_node. cbn. rewrite Hn. unfold len. rewrite nth_error_app2, Nat.sub_diag by lia. reflexivity.
    - intros j Hj. destruct (r_insts _ _ _ _ _ R j Hj) as (k & Vk). exists k. eapply prefix_nth; eauto. apply prefix_snoc.
  Qed.

  (** ** package paths *)
  Lemma project_sim mk : (forall s a, class_of (mk s a) = IUnknownPath s) -> forall l start k st env,
    K k ->
    match project u mk k (segs_from start l) st, project_kind u k l env with
    | inl (k1, st1), inl (k2, e2) => k1 = k2 /\ st1 = st /\ e2 = env /\ K k1
    | inr f, inr i => fail_matches f i
    | _, _ => False
    end.
  Proof.
    intros Hmk. induction l as [|s r IH]; intros start k st env HK; cbn [segs_from project project_kind].
    - cbn. repeat split; auto.
    - destruct (ru_proj_exports u k) as [ex|] eqn:PE; [|cbn; apply Hmk].
      destruct (im_get ex s) as [k'|] eqn:IG; [|cbn; apply Hmk].
      apply IH. apply (uo_K_proj _ _ U k ex s k' HK PE). apply im_get_In. exact IG.
  Qed.

  Lemma path_sim st env vm p :
    Rel st env vm ->
    match resolve_package_path u self_name p st, path_kind u self_name p env with
    | inl (k1, st'), inl (k2, e2) => k1 = k2 /\ e2 = env /\ Rel st' env vm /\ K k1 /\ rs_scope st' = rs_scope st
    | inr f, inr i => fail_matches f i
    | _, _ => False
    end.
  Proof.
    intros R. unfold resolve_package_path, path_kind, resolve_local_path, segment_spans.
    destruct (split_on c_slash (pp_segments p)) as [|s r] eqn:SP; [now apply split_on_nonempty in SP|].
    cbn [segs_from].
    destruct (str_eqb (pp_name p) self_name).
    - unfold bind at 1, get_scope at 1. unfold sbind, env_.
      pose proof (scope_get vm _ _ s (r_scope _ _ _ _ _ R)) as SG.
      destruct (im_get (rs_scope st) s) as [[n a]|].
      + destruct SG as (v & -> & V). destruct (rel_live u K _ _ _ _ _ R V) as (nd & G).
        unfold bind at 1. rewrite (kind_of_eq _ _ _ G).
        destruct (r_node _ _ _ _ _ R n nd v G V) as (HK & VK & _). rewrite VK.
        pose proof (project_sim EPackagePathMissingExport (fun _ _ => eq_refl) r
                      (off (pp_span p) + len (pp_name p) + 1 + len s + 1)%N (nitem nd) st env HK) as PS.
        destruct (project u EPackagePathMissingExport (nitem nd) _ st) as [[k1 st1]|f], (project_kind u (nitem nd) r env) as [[k2 e2]|i]; auto.
        destruct PS as (-> & -> & -> & HK1). auto.
      + rewrite SG. reflexivity.
    - unfold sbind, find_pkg. unfold bind at 1.
      pose proof (resolve_package_sim u K U st env vm (pp_name p) (pp_version p) (off (pp_span p)) R) as S0.
      destruct (resolve_package u (pp_name p) (pp_version p) (off (pp_span p)) st) as [[id s0]|f],
               (ru_pkg_find u (pp_name p) (pp_version p)) as [pi|]; try (exfalso; exact S0); [|subst f; reflexivity].
      destruct S0 as (R0 & GP0 & Sc0 & pd & Ppd). cbn [sret].
      unfold bind at 1, get_g at 1. rewrite GP0.
      destruct (im_get (ru_pkg_defs u pi) s) as [k|] eqn:IG; [|reflexivity].
      assert (HK : K k) by (eapply (uo_K_defs _ _ U); eapply im_get_In; eauto).
      pose proof (project_sim EPackageMissingExport (fun _ _ => eq_refl) r
                    (off (pp_span p) + len (pp_name p) + 1 + len s + 1)%N k s0 env HK) as PS.
      destruct (project u EPackageMissingExport k _ s0) as [[k1 st1]|f], (project_kind u k r env) as [[k2 e2]|i]; auto.
      destruct PS as (-> & -> & -> & HK1). auto.
  Qed.

  (** ** import statements *)
  Definition imp_name (id : ident) (nm : option extern_name) (t : import_type) : M (str * N) :=
    match nm with
    | Some n => ret (extern_name_str n, extern_name_at n)
    | None =>
        match t with
        | ITPackage p => ret (pp_string p, off (pp_span p))
        | ITFunc _ | ITInterface _ => ret (id_string id, off (id_span id))
        | ITIdent i =>
            n <- local_item i ;;
            k <- kind_of n ;;
            match ru_kind_id u k with
            | Some s => ret (s, off (id_span id))
            | None => ret (id_string id, off (id_span id))
            end
        end
    end.

  Definition imp_kind (t : import_type) : M kid :=
    match t with
    | ITPackage p => resolve_package_path u self_name p
    | ITFunc f =>
        match func_sig f with
        | None => unsupp UFuncType
        | Some s => match ru_func_kind u s with Some k => ret k | None => unsupp UFuncType end
        end
    | ITInterface _ => unsupp UInlineInterface
    | ITIdent i => n <- local_item i ;; kind_of n
    end.

  Definition spec_imp_name (id : ident) (nm : option extern_name) (t : import_type) : SM str :=
    match nm with
    | Some n => sret (extern_name_str n)
    | None =>
        match t with
        | ITPackage p => sret (pp_string p)
        | ITFunc _ | ITInterface _ => sret (id_string id)
        | ITIdent i =>
            sbind (lookup i) (fun v => sbind env_ (fun e =>
            match val_kind u e v with
            | Some k => sret (match ru_kind_id u k with Some s => s | None => id_string id end)
            | None => ill IOutOfScope
            end))
        end
    end.

  Definition spec_imp_kind (t : import_type) : SM kid :=
    match t with
    | ITPackage p => path_kind u self_name p
    | ITFunc f =>
        match func_sig f with
        | Some s => match ru_func_kind u s with Some k => sret k | None => ill IOutOfScope end
        | None => ill IOutOfScope
        end
    | ITInterface _ => ill IOutOfScope
    | ITIdent i =>
        sbind (lookup i) (fun v => sbind env_ (fun e =>
        match val_kind u e v with Some k => sret k | None => ill IOutOfScope end))
    end.

  Lemma imp_name_sim st env vm id nm t :
    Rel st env vm ->
    match imp_name id nm t st, spec_imp_name id nm t env with
    | inl ((name, _), st'), inl (name', e') => name = name' /\ st' = st /\ e' = env
    | inr f, inr i => fail_matches f i
    | _, _ => False
    end.
  Proof.
    intros R. unfold imp_name, spec_imp_name. destruct nm as [n|]; [cbn; auto|].
    destruct t as [p|f|items|i]; try (cbn; auto; fail).
    unfold sbind, env_. unfold bind at 1.
    destruct (lookup_cases u K st env vm i R) as [(n & v & -> & -> & V)|[-> ->]]; [|reflexivity].
    destruct (rel_live u K _ _ _ _ _ R V) as (nd & G). unfold bind at 1. rewrite (kind_of_eq _ _ _ G).
    destruct (r_node _ _ _ _ _ R n nd v G V) as (_ & VK & _). rewrite VK.
    destruct (ru_kind_id u (nitem nd)); cbn; auto.
  Qed.

  Lemma imp_kind_sim st env vm t :
    Rel st env vm ->
    match imp_kind t st, spec_imp_kind t env with
    | inl (k1, st'), inl (k2, e2) => k1 = k2 /\ e2 = env /\ Rel st' env vm /\ K k1 /\ rs_scope st' = rs_scope st
    | inr f, inr i => fail_matches f i
    | _, _ => False
    end.
  Proof.
    intros R. unfold imp_kind, spec_imp_kind. destruct t as [p|f|items|i].
    - now apply path_sim.
    - destruct (func_sig f) as [sg|]; [|reflexivity]. destruct (ru_func_kind u sg) as [k|] eqn:FK; [|reflexivity].
      cbn. split; [reflexivity|]. split; [reflexivity|]. split; [exact R|]. split; [eapply (uo_K_func _ _ U); eauto|reflexivity].
    - reflexivity.
    - unfold sbind, env_. unfold bind at 1.
      destruct (lookup_cases u K st env vm i R) as [(n & v & -> & -> & V)|[-> ->]]; [|reflexivity].
      destruct (rel_live u K _ _ _ _ _ R V) as (nd & G). rewrite (kind_of_eq _ _ _ G).
      destruct (r_node _ _ _ _ _ R n nd v G V) as (HK & VK & _). rewrite VK. cbn.
      split; [reflexivity|]. split; [reflexivity|]. split; [exact R|]. split; [exact HK|reflexivity].
  Qed.

  Lemma import_statement_sim st env vm id nm t :
    Rel st env vm ->
    sim u K unit_rel vm env (import_statement u self_name id nm t st) (import_stmt u self_name id nm t env).
  Proof.
    intros R.
    change (import_statement u self_name id nm t st) with
      (bind (imp_name id nm t) (fun x => let '(name, at_) := x in
         bind (imp_kind t) (fun k =>
         bind (gop (fun g => import_ u g (ru_intern u name) (N.to_nat (ru_promote u k)))) (fun o =>
         match o with
         | ONode n => register_name u id n
         | OErr (ImportAlreadyExists _) => err (EDuplicateExternName XImport name at_)
         | OErr InvalidImportName => err (EInvalidExternName XImport name at_)
         | OPanic p => panic (RGraph p)
         | _ => panic RBadUniverse
         end))) st).
    change (import_stmt u self_name id nm t env) with
      (sbind (spec_imp_name id nm t) (fun name =>
       sbind (spec_imp_kind t) (fun k =>
       sbind (add_import u name (ru_promote u k)) (fun v => bind_name id v))) env).
    unfold bind at 1, sbind at 1. pose proof (imp_name_sim st env vm id nm t R) as S1.
    destruct (imp_name id nm t st) as [[[name at_] s1]|f], (spec_imp_name id nm t env) as [[name' e1]|i];
      try exact S1; try (exfalso; exact S1).
    destruct S1 as (<- & -> & ->).
    unfold bind at 1, sbind at 1. pose proof (imp_kind_sim st env vm t R) as S2.
    destruct (imp_kind t st) as [[k s2]|f], (spec_imp_kind t env) as [[k' e2]|i]; try exact S2; try (exfalso; exact S2).
    destruct S2 as (<- & -> & R2 & HK & Sc2).
    unfold bind at 1, sbind at 1, gop, bind at 1, get_g at 1. unfold add_import.
    destruct (has_key (se_imports env) name) eqn:HI.
    - (* the extern name is taken *)
      unfold import_. rewrite (uo_lk _ _ U _ (uo_K_promote _ _ U _ HK)).
      pose proof (imports_get u K (rs_g s2) vm (se_imports env) name U (r_imports _ _ _ _ _ R2)) as IG.
      destruct (alist_get N.eqb (imports (rs_g s2)) (ru_intern u name)) as [m|].
      + unfold bind at 1, put_g at 1, ret at 1. reflexivity.
      + rewrite (proj1 IG eq_refl) in HI. discriminate.
    - destruct (u_import_name_ok u (ru_intern u name)) eqn:OK; cbn [negb].
      + destruct (import_rel s2 env vm name (ru_promote u k) R2 (uo_K_promote _ _ U _ HK) HI OK) as (g' & -> & R3).
        unfold bind at 1, put_g at 1, ret at 1.
        eapply (sim_weaken u K unit_rel vm (vm ++ [VImport name]) env
                  {| se_names := se_names env; se_imports := se_imports env ++ [(name, ru_promote u k)];
                     se_insts := se_insts env; se_exports := se_exports env |});
          [apply prefix_snoc|split; cbn; [apply prefix_snoc|apply prefix_refl]|].
        apply register_name_sim; auto.
        rewrite nth_error_app2, (r_len _ _ _ _ _ R2), Nat.sub_diag by (rewrite (r_len _ _ _ _ _ R2); lia). reflexivity.
      + unfold import_. rewrite (uo_lk _ _ U _ (uo_K_promote _ _ U _ HK)).
        rewrite (proj2 (imports_get u K (rs_g s2) vm (se_imports env) name U (r_imports _ _ _ _ _ R2)) HI), OK. cbn [negb].
        unfold bind at 1, put_g at 1, ret at 1. reflexivity.
  Qed.

  (** ** exports *)
  Lemma infer_export_name_eq item st nd :
    get_node (rs_g st) item = Some nd ->
    infer_export_name u item st =
      inl (match instance_id u (nitem nd) with Some p => Some p | None => node_source u (rs_g st) item end, st).
  Proof.
    intros G. destruct (infer_export_name u item st) as [[r st']|f] eqn:E.
    - apply infer_export_name_spec in E as (-> & nd' & G' & ->). rewrite G in G'. injection G' as <-. reflexivity.
    - exfalso. unfold infer_export_name in E. unfold bind at 1 in E. rewrite (kind_of_eq _ _ _ G) in E.
      destruct (instance_id u (nitem nd)); [discriminate|].
      unfold bind at 1, get_g at 1 in E. unfold node_import_name in E. rewrite G in E.
      destruct (nk nd); try discriminate; destruct (get_alias_source u (rs_g st) item) as [[? ?]|]; discriminate.
  Qed.

  Lemma scope_nodes_live st env vm nm n a :
    Rel st env vm -> im_get (rs_scope st) nm = Some (n, a) ->
    exists nd, get_node (rs_g st) n = Some nd /\ nk nd <> NDef.
  Proof.
    intros R L. pose proof (scope_get vm _ _ nm (r_scope _ _ _ _ _ R)) as SG. rewrite L in SG.
    destruct SG as (v & _ & V). destruct (rel_live u K _ _ _ _ _ R V) as (nd & G).
    destruct (r_node _ _ _ _ _ R n nd v G V) as (_ & _ & ND & _). eauto.
  Qed.

  Lemma export_item_sim st env vm item v nm at_ :
    Rel st env vm -> nth_error vm item = Some v ->
    sim u K unit_rel vm env (export_item u item nm at_ st) (add_export u nm v env).
  Proof.
    intros R V. rewrite export_item_unfold.
    2:{ intros n a L. destruct (scope_nodes_live _ _ _ _ _ _ R L) as (nd & G & _). congruence. }
    assert (Df : defines st nm = false).
    { unfold defines. destruct (im_get (rs_scope st) nm) as [[n a]|] eqn:L; auto.
      destruct (scope_nodes_live _ _ _ _ _ _ R L) as (nd & G & ND). rewrite G. destruct (nk nd); auto. now contradiction ND. }
    rewrite Df. unfold add_export, export_.
    pose proof (exports_get u K vm _ _ nm U (r_exports _ _ _ _ _ R)) as EG.
    destruct (alist_get N.eqb (exports (rs_g st)) (ru_intern u nm)) as [m|].
    - destruct EG as (w & EG & _). unfold has_key. rewrite EG. reflexivity.
    - unfold has_key. rewrite EG. destruct (u_export_name_ok u (ru_intern u nm)); cbn [negb]; [|reflexivity].
      destruct (rel_live u K _ _ _ _ _ R V) as (nd & G). unfold update_node. rewrite G.
      (* the exported item is never a type definition here: [export] does not rename *)
      assert (ER : exports_renamed (rs_g st) item = exports (rs_g st)).
      { unfold exports_renamed. rewrite G. destruct (r_node _ _ _ _ _ R item nd v G V) as (_ & _ & ND & _).
        destruct (nk nd); auto. now contradiction ND. }
      rewrite ER.
      exists vm. split; [apply prefix_refl|]. split; [|split; [split; cbn; apply prefix_refl|exact I]].
      apply (rel_update st env vm item nd
               {| nk := nk nd; npkg := npkg nd; nitem := nitem nd; nname := nname nd; nexport := Some (ru_intern u nm) |});
        auto; try apply (r_free _ _ _ _ _ R).
      + apply (r_scope _ _ _ _ _ R).
      + cbn. apply Forall2_app; [apply (r_exports _ _ _ _ _ R)|]. constructor; [split; auto|constructor].
  Qed.

  (** the loop of a spread export *)
  Lemma spread_exports_sim item v k0 exN ea da : forall names any st env vm,
    Rel st env vm -> nth_error vm item = Some v -> val_kind u env v = Some k0 -> u_inst_exports u k0 = Some exN ->
    (forall nm, In nm names -> has_key (text_items u exN) nm = true) ->
    sim u K (fun _ a b => a = b) vm env (spread_exports u item ea da names any st) (spread_export u v names any env).
  Proof.
    induction names as [|nm r IH]; intros any st env vm R V VK UE Hn.
    - cbn. exists vm. split; [apply prefix_refl|]. split; auto. split; [apply env_le_refl|reflexivity].
    - cbn [spread_exports spread_export]. unfold bind at 1, get_g at 1. unfold sbind at 1, env_ at 1.
      pose proof (exports_get u K vm _ _ nm U (r_exports _ _ _ _ _ R)) as EG.
      destruct (alist_get N.eqb (exports (rs_g st)) (ru_intern u nm)) as [m|].
      + destruct EG as (w & EG & _). unfold has_key. rewrite EG. apply IH; auto. intros x Hx. apply Hn. now right.
      + unfold has_key at 1. rewrite EG.
        destruct (rel_live u K _ _ _ _ _ R V) as (nd & G).
        destruct (r_node _ _ _ _ _ R item nd v G V) as (_ & VK' & _). rewrite VK in VK'. injection VK' as ->.
        unfold bind at 1. rewrite (alias_export_eq u st item nd nm ea OpSpread G). unfold inst_exports. rewrite UE.
        rewrite (Hn nm (or_introl eq_refl)).
        destruct (alias_sim u K st env vm item nd v exN nm U R G V UE (Hn nm (or_introl eq_refl))) as (g' & n & vm1 & A & P1 & R1 & Vn).
        rewrite A. unfold bind at 1, sbind at 1.
        pose proof (export_item_sim _ env vm1 n (VAccess v nm) nm da R1 Vn) as S.
        destruct (export_item u n nm da _) as [[[] s2]|f], (add_export u nm (VAccess v nm) env) as [[[] e2]|i];
          try exact S; try (exfalso; exact S).
        destruct S as (vm2 & P2 & R2 & L2 & _).
        eapply sim_weaken; [exact (prefix_trans _ _ _ P1 P2)|exact L2|].
        apply IH; auto.
        * exact (prefix_nth _ _ _ _ (prefix_trans _ _ _ P1 P2) V).
        * eapply val_kind_mono; eauto.
        * intros x Hx. apply Hn. now right.
  Qed.

  Lemma has_key_self (ex : list (str * kid)) nm : In nm (map fst ex) -> has_key ex nm = true.
  Proof. intros H. now apply has_key_In. Qed.

  Lemma export_statement_sim st env vm e opts :
    Rel st env vm ->
    sim u K unit_rel vm env (export_statement u self_name e opts st) (export_stmt dv u self_name e opts env).
  Proof.
    intros R. unfold export_statement, export_stmt. unfold bind at 1, sbind at 1.
    pose proof (expr_sim_all u self_name K U e st env vm R) as S.
    destruct (eval_expr u self_name e st) as [[item s1]|f], (value_of dv u self_name e env) as [[v e1]|i];
      try exact S; try (exfalso; exact S).
    destruct S as (vm1 & P1 & R1 & L1 & V1). unfold item_rel in V1.
    destruct (rel_live u K _ _ _ _ _ R1 V1) as (nd & G).
    destruct (r_node _ _ _ _ _ R1 item nd v G V1) as (_ & VK & _).
    eapply sim_weaken; [exact P1|exact L1|]. unfold sbind at 1, env_ at 1.
    destruct opts as [|sp|n].
    - (* inferred name *)
      unfold bind at 1. rewrite (infer_export_name_eq item s1 nd G).
      unfold export_name_of. rewrite (val_path_node u K s1 e1 vm1 item nd v R1 G V1), (node_source_val u K s1 e1 vm1 item nd v U R1 G V1).
      destruct (match instance_id u (nitem nd) with Some p => Some p | None => val_source v end) as [nm|]; [|reflexivity].
      now apply export_item_sim.
    - (* spread *)
      unfold bind at 1. rewrite (kind_of_eq _ _ _ G). unfold val_exports. rewrite VK. unfold inst_exports.
      destruct (u_inst_exports u (nitem nd)) as [exN|] eqn:UE; [|reflexivity].
      unfold bind at 1, sbind at 1.
      pose proof (spread_exports_sim item v (nitem nd) exN (off (expr_span e)) (off sp) (map fst (text_items u exN)) false
                    s1 e1 vm1 R1 V1 VK UE (has_key_self _)) as S.
      destruct (spread_exports u item _ _ _ false s1) as [[any s2]|f], (spread_export u v _ false e1) as [[any' e2]|i];
        try exact S; try (exfalso; exact S).
      destruct S as (vm2 & P2 & R2 & L2 & ->).
      destruct any'; cbn.
      + exists vm2. split; auto. split; auto. split; auto. exact I.
      + reflexivity.
    - now apply export_item_sim.
  Qed.

  Lemma statement_sim st env vm s :
    Rel st env vm -> sim u K unit_rel vm env (statement_step u self_name s st) (stmt dv u self_name s env).
  Proof.
    intros R. destruct s as [docs id nm t|t|docs id e|docs e opts]; cbn [statement_step stmt].
    - now apply import_statement_sim.
    - reflexivity.
    - unfold let_statement, let_stmt. unfold bind, sbind.
      pose proof (expr_sim_all u self_name K U e st env vm R) as S.
      destruct (eval_expr u self_name e st) as [[item s1]|f], (value_of dv u self_name e env) as [[v e1]|i];
        try exact S; try (exfalso; exact S).
      destruct S as (vm1 & P1 & R1 & L1 & V1). eapply sim_weaken; [exact P1|exact L1|]. now apply register_name_sim.
    - now apply export_statement_sim.
  Qed.

  Lemma statements_sim l : forall st env vm,
    Rel st env vm -> sim u K unit_rel vm env (statements u self_name l st) (stmts dv u self_name l env).
  Proof.
    induction l as [|s r IH]; intros st env vm R.
    - cbn. exists vm. split; [apply prefix_refl|]. split; auto. split; [apply env_le_refl|exact I].
    - cbn [statements stmts]. unfold bind, sbind. pose proof (statement_sim st env vm s R) as S.
      destruct (statement_step u self_name s st) as [[[] s1]|f], (stmt dv u self_name s env) as [[[] e1]|i];
        try exact S; try (exfalso; exact S).
      destruct S as (vm1 & P1 & R1 & L1 & _). eapply sim_weaken; [exact P1|exact L1|]. now apply IH.
  Qed.
End SimStmt.

(** * the whole document *)
Theorem resolve_simulates_denote (u : runiverse) (K : kid -> Prop) (d : document) :
  uok u K -> pd_targets (doc_directive d) = None ->
  match resolve u d, denote impl_flags_c04 u d with
  | inl st, inl env => exists vm, Rel u K st env vm
  | inr f, inr i => fail_matches f i
  | _, _ => False
  end.
Proof.
  intros U NT. unfold resolve, denote. rewrite NT.
  pose proof (statements_sim u (pn_name (pd_package (doc_directive d))) K U (doc_statements d) init_state empty_env []
                (rel_init u K)) as S.
  destruct (statements u _ (doc_statements d) init_state) as [[[] st]|f],
           (stmts impl_flags_c04 u _ (doc_statements d) empty_env) as [[[] env]|i]; try exact S; try (exfalso; exact S).
  destruct S as (vm & _ & R & _). eauto.
Qed.
