(** Lexer classes, part G: the statements about [lex] that props/C12.v exports: [lex_longest],
    its refutations under the two automaton artefacts, and [relex_stable] for [lex]. *)
From WacV Require Import Str Ord Token Lexer LexTables LexImpl LexSpec LexTablesProofs Semver Ast Parser LexClasses.
From WacV Require Import LexerSound NoPanicLexer LexerClassA LexerClassB LexerClassC LexerClassD LexerClassE LexerClassF.
From Coq Require Import Lia.
Local Open Scope nat_scope.

Section Lex.
Variable d : deviations.
Variable base : lexcfg.
Hypothesis Htab : tables_ok base.
Notation cfg := (cfg_with d base).

(** Every token of the stream was produced by a call of [scan_token] at some remaining input. *)
Lemma lex_tokens_scanned src :
  Forall (fun it => match it with
                    | LTok t => exists pre s1 fuel n, src = pre ++ s1 /\ off (tsp t) = byte_len pre /\ length s1 < fuel /\
                                  at_token s1 = true /\ scan_token cfg fuel s1 = ScanTok (tk t) n /\ ttext t = firstn n s1 /\
                                  n <= length s1
                    | _ => True end) (lex cfg src).
Proof.
  destruct (screen cfg src) as [[e sp]|] eqn:Es.
  { unfold lex. rewrite Es. constructor; [exact I|constructor]. }
  pose proof (lexrun_items cfg (fun pre s1 it => match it with
                    | LTok t => exists fuel n, off (tsp t) = byte_len pre /\ length s1 < fuel /\ at_token s1 = true /\
                                  scan_token cfg fuel s1 = ScanTok (tk t) n /\ ttext t = firstn n s1 /\ n <= length s1
                    | _ => True end)) as H.
  specialize (H ltac:(intros pre s1 fuel k n t Hf Hat Hs <- Htx Ho _; exists fuel, n;
                      destruct (scan_token_bound _ _ _ _ _ Hs); auto 10)
                ltac:(intros; exact I) ltac:(intros; exact I) ltac:(intros; exact I) _ _ _ (lex_run cfg src Es) [] eq_refl).
  eapply Forall_impl; [|exact H]. intros it (pre & s1 & He & Hp). destruct it; auto.
  destruct Hp as (fuel & n & Hp). exists pre, s1, fuel, n. cbn [app] in He. intuition.
Qed.

Theorem lex_longest_proof src :
  Forall (fun it => match it with
                    | LTok t => exists pre s1, src = pre ++ s1 /\ off (tsp t) = byte_len pre /\
                                  ttext t = firstn (length (ttext t)) s1 /\
                                  forall m k', length (ttext t) < m <= length s1 -> rule_class d k' (firstn m s1) = false
                    | _ => True end) (lex cfg src).
Proof.
  eapply Forall_impl; [|apply lex_tokens_scanned]. intros it H. destruct it as [t| | | |]; auto.
  destruct H as (pre & s1 & fuel & n & -> & Ho & Hf & _ & Hs & Ht & Hn).
  assert (Hl : length (ttext t) = n) by (rewrite Ht; apply firstn_length_le; exact Hn).
  exists pre, s1. repeat split; auto.
  - now rewrite Hl.
  - intros m k' [Hm1 Hm2]. rewrite Hl in Hm1. eapply scan_token_longest; eauto.
Qed.

Theorem lex_munch_proof src :
  dangling_dash d = false -> keyword_colon d = false ->
  Forall (fun it => match it with
                    | LTok t => rule_class d (tk t) (ttext t) = true /\ (tk t = TIdent -> is_keyword_text (ttext t) = false)
                    | _ => True end) (lex cfg src).
Proof.
  intros Hdd Hkc. eapply Forall_impl; [|apply (lex_token_classes_proof d base Htab)]. intros it H.
  destruct it as [t| | | |]; auto. destruct (tk t) eqn:Ek; cbn [token_class rule_class] in *; (split; [|try discriminate]); auto.
  - rewrite Hdd, Hkc in H. cbn [andb orb] in H. rewrite orb_false_r in H. apply andb_true_iff in H. tauto.
  - intros _. rewrite Hdd, Hkc in H. cbn [andb orb] in H. rewrite orb_false_r in H. apply andb_true_iff in H.
    destruct H as [_ H]. now apply negb_true_iff in H.
Qed.

(* ------------------------------------------------------------------ relex for lex *)

Lemma skip_gap_at f o s alive docs : at_token s = true -> skip_gap (S f) o s alive docs = GapOk o s docs.
Proof.
  destruct s as [|c r]; [discriminate|]. cbn [at_token skip_gap]. intros H. apply andb_true_iff in H. destruct H as [Hw H].
  apply negb_true_iff in Hw, H. rewrite Hw. destruct (c =? c_slash)%N; [|reflexivity]. cbn [andb] in H.
  destruct r as [|c2 r2]; [reflexivity|]. apply orb_false_iff in H. destruct H as [-> ->]. reflexivity.
Qed.

Theorem relex_lex_proof src t rest :
  In (LTok t) (lex cfg src) ->
  follow_ok d (tk t) (ttext t) rest = true -> at_token (ttext t ++ rest) = true ->
  screen cfg (ttext t ++ rest) = None ->
  exists tl, lex cfg (ttext t ++ rest) =
             LTok {| tk := tk t; tsp := {| off := 0; slen := byte_len (ttext t) |}; ttext := ttext t; tdocs := [] |} :: tl.
Proof.
  intros Hin Hfol Hat Hsc. pose proof (lex_tokens_scanned src) as H. rewrite Forall_forall in H. specialize (H _ Hin).
  destruct H as (pre & s1 & fuel & n & _ & _ & Hf & _ & Hs & Ht & Hn).
  assert (Hl : length (ttext t) = n) by (rewrite Ht; apply firstn_length_le; exact Hn).
  set (w := ttext t) in *. set (F := S (length (w ++ rest))).
  assert (Hre : scan_token cfg (S F) (w ++ rest) = ScanTok (tk t) n).
  { rewrite Ht. eapply relex_stable_scan; eauto; [now rewrite <- Ht|rewrite <- Ht; unfold F; lia]. }
  unfold lex. rewrite Hsc. fold F. cbn [lex_loop]. rewrite (skip_gap_at F 0%N (w ++ rest) true [] Hat).
  destruct (w ++ rest) as [|c r] eqn:Ew; [discriminate|]. rewrite Hre. rewrite <- Ew.
  assert (Hfw : firstn n (w ++ rest) = w) by (rewrite <- Hl; apply firstn_app_exact).
  rewrite Hfw. eexists. reflexivity.
Qed.

End Lex.

(* ------------------------------------------------------------------ the two artefacts refute munch *)

(** [foo-] *)
Lemma dash_refuted :
  exists src t, In (LTok t) (lex impl_cfg src) /\ tk t = TIdent /\
                forallb (fun k => negb (rule_class impl_flags k (ttext t))) all_tokens = true /\
                rule_class impl_flags TIdent (firstn 3 (ttext t)) = true.
Proof.
  exists [102; 111; 111; 45]%N. eexists. split; [vm_compute; left; reflexivity|].
  repeat split; vm_compute; reflexivity.
Qed.

(** [record:] *)
Lemma kwcolon_refuted :
  exists src t, In (LTok t) (lex impl_cfg src) /\ tk t = TIdent /\ rule_class impl_flags TRecordKeyword (ttext t) = true.
Proof.
  exists [114; 101; 99; 111; 114; 100; 58]%N. eexists. split; [vm_compute; left; reflexivity|].
  repeat split; vm_compute; reflexivity.
Qed.
