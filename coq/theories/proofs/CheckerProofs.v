(** Item-level rules of the checker: functions, core externs and modules, instances, components;
    the memo invariant; the main characterisation [is_subtype_spec]. *)
From Coq Require Import ZArith ZifyBool ZifyN Lia.
From WacV Require Import Str Types C07Flags Checker SubSpec CheckerEq SubSpecProofs CheckerValue.
Set Warnings "-unused-intro-pattern".

(** * Functions *)
Section Func.
  Variables at_ bt : types.
  Hypothesis same : t_tag at_ = t_tag bt -> at_ = bt.

  Lemma func_params_spec g F k : (g <= F)%nat -> forall x y lx ly,
    map_snd (unfold_vt g at_) x = Some lx -> map_snd (unfold_vt g bt) y = Some ly -> length x = length y ->
    decides (func_params F k at_ x bt y) (lx = ly).
  Proof.
    intros HF. unfold map_snd.
    induction x as [|[an u] x IH]; intros [|[bn v] y] lx ly Hx Hy Hl; cbn [length] in Hl; try discriminate.
    - cbn in Hx, Hy. injection Hx as <-. injection Hy as <-. now apply decides_ok.
    - cbn [map all_some fst snd] in Hx, Hy. cbn [func_params].
      destruct (unfold_vt g at_ u) as [tu|] eqn:Eu; [|discriminate].
      destruct (all_some (map _ x)) as [lx'|] eqn:Ex; [|discriminate].
      destruct (unfold_vt g bt v) as [tv|] eqn:Ev; [|discriminate].
      destruct (all_some (map _ y)) as [ly'|] eqn:Ey; [|discriminate].
      injection Hx as <-. injection Hy as <-.
      destruct (str_eqb an bn) eqn:En; cbn [negb].
      + apply seqb_eq in En as ->.
        eapply decides_iff; [|apply decides_bind; [apply (value_type_spec at_ bt same g F k u v tu tv HF Eu Ev)
                                                  | apply (IH y lx' ly' eq_refl Ey); lia]].
        split; [intros [-> ->]; reflexivity | intros H; injection H; auto].
      + apply decides_err. apply seqb_neq in En. intros H. injection H. congruence.
  Qed.

  Lemma func_spec g F k a b fa fb : (g <= F)%nat ->
    unfold_func g at_ a = Some fa -> unfold_func g bt b = Some fb -> decides (func F k at_ a bt b) (fa = fb).
  Proof.
    intros HF Ha Hb. unfold func. unfold unfold_func in Ha, Hb.
    destruct (get_func at_ a) as [x|] eqn:Ea; [|discriminate]. destruct (get_func bt b) as [y|] eqn:Eb; [|discriminate].
    destruct (id_eqb a b) eqn:Eid.
    - apply decides_ok. apply ideqb_eq in Eid. subst b.
      assert (Et : at_ = bt). { apply same. apply lookup_tag in Ea, Eb. congruence. }
      rewrite <- Et in Hb, Eb. rewrite Ea in Eb. injection Eb as <-. rewrite Ha in Hb. now injection Hb.
    - cbn [idx bind].
      destruct (map_snd (unfold_vt g at_) (f_params x)) as [pa|] eqn:Pa; [|discriminate].
      destruct (omap (unfold_vt g at_) (f_result x)) as [ra|] eqn:Ra; [|discriminate].
      destruct (map_snd (unfold_vt g bt) (f_params y)) as [pb|] eqn:Pb; [|discriminate].
      destruct (omap (unfold_vt g bt) (f_result y)) as [rb|] eqn:Rb; [|discriminate].
      injection Ha as <-. injection Hb as <-.
      assert (Hef : exists e f, ef k x y = (e, f) /\ ((e = x /\ f = y) \/ (e = y /\ f = x))).
      { destruct k; cbn [ef]; eauto 6. }
      destruct Hef as [e [f [-> Hef]]].
      destruct (Bool.eqb (f_async x) (f_async y)) eqn:Easync; cbn [negb].
      2:{ apply decides_err. intro H. injection H as _ _ H. apply booleqb_eq in H. congruence. }
      apply (proj1 (booleqb_eq _ _)) in Easync.
      destruct (Nat.eqb (length (f_params x)) (length (f_params y))) eqn:El; cbn [negb].
      2:{ apply decides_err. apply Nat.eqb_neq in El. intro H. injection H as H _ _. apply El.
          apply map_snd_length in Pa, Pb. congruence. }
      apply Nat.eqb_eq in El.
      pose proof (func_params_spec g F k HF _ _ _ _ Pa Pb El) as Hp.
      assert (Hr : decides (match f_result x, f_result y with
                            | None, None => ok
                            | Some u, Some v => value_type F k at_ u bt v
                            | _, _ => match f_result e, f_result f with
                                      | Some _, None => Err (EFuncResult true)
                                      | None, Some _ => Err (EFuncResult false)
                                      | _, _ => Panic
                                      end
                            end) (ra = rb)).
      { destruct (f_result x) as [u|] eqn:Rx, (f_result y) as [v|] eqn:Ry; cbn [omap] in Ra, Rb.
        - destruct (unfold_vt g at_ u) as [tu|] eqn:Eu; [|discriminate]. destruct (unfold_vt g bt v) as [tv|] eqn:Ev; [|discriminate].
          injection Ra as <-. injection Rb as <-.
          eapply decides_iff; [|apply (value_type_spec at_ bt same g F k u v tu tv HF Eu Ev)].
          split; [congruence | intros H; now injection H].
        - destruct (unfold_vt g at_ u); [|discriminate]. injection Ra as <-. injection Rb as <-.
          destruct Hef as [[-> ->]|[-> ->]]; rewrite Rx, Ry; apply decides_err; discriminate.
        - destruct (unfold_vt g bt v); [|discriminate]. injection Ra as <-. injection Rb as <-.
          destruct Hef as [[-> ->]|[-> ->]]; rewrite Rx, Ry; apply decides_err; discriminate.
        - injection Ra as <-. injection Rb as <-. now apply decides_ok. }
      eapply decides_iff; [|apply (decides_bind _ _ _ _ Hp Hr)].
      split; [intros [-> ->]; f_equal; assumption | intros H; injection H; auto].
  Qed.
End Func.

(** * Core externs and modules *)
Lemma limits_match_iff ai am bi bm : limits_match ai am bi bm = true <-> limits_ok ai am bi bm.
Proof.
  unfold limits_match, limits_ok. rewrite andb_true_iff, N.leb_le.
  destruct am as [x|], bm as [y|]; rewrite ?N.leb_le; intuition discriminate.
Qed.

(** The page-size relation the checker implements: equality of the [Option]s, or (once the source normalises the
    default) equality of the page sizes they denote.  [SubX] is the relation the checker decides. *)
Definition PGx : option N -> option N -> Prop := if psl_default_normalised then PageCM else eq.
Notation SubX := (Sub eq PGx).
Lemma PGx_refl a : PGx a a.
Proof. unfold PGx, PageCM. destruct psl_default_normalised; reflexivity. Qed.
Lemma PGx_trans a b c : PGx a b -> PGx b c -> PGx a c.
Proof. unfold PGx, PageCM. destruct psl_default_normalised; congruence. Qed.
Lemma PGx_PageCM a b : PGx a b -> PageCM a b.
Proof. unfold PGx, PageCM. destruct psl_default_normalised; congruence. Qed.
Lemma page_size_eqb_iff a b : page_size_eqb a b = true <-> PGx a b.
Proof.
  unfold page_size_eqb, PGx, PageCM. destruct psl_default_normalised.
  - apply N.eqb_eq.
  - apply optNeqb_eq.
Qed.

Lemma core_extern_spec k a b : decides (core_extern k a b) (ESub PGx a b).
Proof.
  destruct a as [f|elem initial maximum t64 shared|m64 shared initial maximum psl|vt mut shared|f],
           b as [f0|elem0 initial0 maximum0 t640 shared0|m640 shared0 initial0 maximum0 psl0|vt0 mut0 shared0|f0];
    cbn [core_extern];
    try (destruct k; cbn [ef]; apply decides_err; inversion 1; fail).
  - unfold core_func. destruct (corefunc_eqb f f0) eqn:E.
    + apply cfeqb_eq in E as ->. apply decides_ok. constructor.
    + apply decides_err. inversion 1; subst. assert (corefunc_eqb f0 f0 = true) by now apply cfeqb_eq. congruence.
  - destruct (reftype_eqb elem elem0) eqn:E1; cbn [negb].
    2:{ apply decides_err. inversion 1; subst. assert (reftype_eqb elem0 elem0 = true) by now apply refeqb_eq. congruence. }
    apply refeqb_eq in E1 as ->.
    destruct (limits_match initial maximum initial0 maximum0) eqn:E2; cbn [negb].
    2:{ apply decides_err. inversion 1; subst. match goal with H : limits_ok _ _ _ _ |- _ => apply limits_match_iff in H end. congruence. }
    apply limits_match_iff in E2.
    destruct (Bool.eqb t64 t640) eqn:E3; cbn [negb].
    2:{ apply decides_err. inversion 1; subst. rewrite Bool.eqb_reflx in E3. discriminate. }
    apply (proj1 (booleqb_eq _ _)) in E3 as ->.
    destruct (Bool.eqb shared shared0) eqn:E4; cbn [negb].
    2:{ apply decides_err. inversion 1; subst. rewrite Bool.eqb_reflx in E4. discriminate. }
    apply (proj1 (booleqb_eq _ _)) in E4 as ->. apply decides_ok. now constructor.
  - destruct (Bool.eqb shared shared0) eqn:E4; cbn [negb].
    2:{ apply decides_err. inversion 1; subst. rewrite Bool.eqb_reflx in E4. discriminate. }
    apply (proj1 (booleqb_eq _ _)) in E4 as ->.
    destruct (Bool.eqb m64 m640) eqn:E3; cbn [negb].
    2:{ apply decides_err. inversion 1; subst. rewrite Bool.eqb_reflx in E3. discriminate. }
    apply (proj1 (booleqb_eq _ _)) in E3 as ->.
    destruct (limits_match initial maximum initial0 maximum0) eqn:E2; cbn [negb].
    2:{ apply decides_err. inversion 1; subst. match goal with H : limits_ok _ _ _ _ |- _ => apply limits_match_iff in H end. congruence. }
    apply limits_match_iff in E2.
    destruct (page_size_eqb psl psl0) eqn:E5; cbn [negb].
    2:{ apply decides_err. inversion 1; subst.
        match goal with H : PGx _ _ |- _ => apply page_size_eqb_iff in H end. congruence. }
    apply page_size_eqb_iff in E5. apply decides_ok. now constructor.
  - destruct (Bool.eqb mut mut0) eqn:E3; cbn [negb].
    2:{ apply decides_err. inversion 1; subst. rewrite Bool.eqb_reflx in E3. discriminate. }
    apply (proj1 (booleqb_eq _ _)) in E3 as ->.
    destruct (coretype_eqb vt vt0) eqn:E1; cbn [negb].
    2:{ apply decides_err. inversion 1; subst. assert (coretype_eqb vt0 vt0 = true) by now apply cteqb_eq. congruence. }
    apply cteqb_eq in E1 as ->.
    destruct (Bool.eqb shared shared0) eqn:E4; cbn [negb].
    2:{ apply decides_err. inversion 1; subst. rewrite Bool.eqb_reflx in E4. discriminate. }
    apply (proj1 (booleqb_eq _ _)) in E4 as ->. apply decides_ok. constructor.
  - unfold core_func. destruct (corefunc_eqb f f0) eqn:E.
    + apply cfeqb_eq in E as ->. apply decides_ok. constructor.
    + apply decides_err. inversion 1; subst. assert (corefunc_eqb f0 f0 = true) by now apply cfeqb_eq. congruence.
Qed.

Lemma module_imports_spec prev k b : forall a,
  decides (module_imports prev k a b)
          (forall key x, In (key, x) a -> exists y, assoc2 key b = Some y /\ ESub PGx y x).
Proof.
  induction a as [|[key ae] a IH]; cbn [module_imports].
  - apply decides_ok. intros ? ? [].
  - destruct (assoc2 key b) as [be|] eqn:E.
    + eapply decides_iff; [|apply decides_bind; [apply (core_extern_spec k be ae) | apply IH]]. split.
      * intros [H1 H2] key' x [Hin|Hin]; [injection Hin as <- <-; eauto | eauto].
      * intros H. split.
        -- destruct (H key ae (or_introl eq_refl)) as [y [Ey Hy]]. congruence.
        -- intros key' x Hin. apply H. now right.
    + destruct prev; apply decides_err; intro H; destruct (H key ae (or_introl eq_refl)) as [y [Ey _]]; congruence.
Qed.
Lemma module_exports_spec k a : forall b,
  decides (module_exports k a b)
          (forall key y, In (key, y) b -> exists x, assoc key a = Some x /\ ESub PGx x y).
Proof.
  induction b as [|[key be] b IH]; cbn [module_exports].
  - apply decides_ok. intros ? ? [].
  - destruct (assoc key a) as [ae|] eqn:E.
    + eapply decides_iff; [|apply decides_bind; [apply (core_extern_spec Cov ae be) | apply IH]]. split.
      * intros [H1 H2] key' x [Hin|Hin]; [injection Hin as <- <-; eauto | eauto].
      * intros H. split.
        -- destruct (H key be (or_introl eq_refl)) as [y [Ey Hy]]. congruence.
        -- intros key' x Hin. apply H. now right.
    + destruct k; apply decides_err; intro H; destruct (H key be (or_introl eq_refl)) as [y [Ey _]]; congruence.
Qed.

(** * The item-level denotation: one-step equation, fuel monotonicity *)
Definition unfold_inst (U : kind -> option tree) (t : types) (i : id) : option (list (str * tree)) :=
  match get_if t i with None => None | Some x => map_snd U (i_exports x) end.
Definition unfold_comp (U : kind -> option tree) (t : types) (w : id) : option (list (str * tree) * list (str * tree)) :=
  match get_world t w with
  | None => None
  | Some x => match map_snd U (w_imports x), map_snd U (w_exports x) with
              | Some i, Some e => Some (i, e)
              | _, _ => None
              end
  end.
Definition unfold_body (U : kind -> option tree) (fuel : nat) (t : types) (k : kind) : option tree :=
  match k with
  | KFunc i => option_map XFunc (unfold_func fuel t i)
  | KInstance i => option_map XInst (unfold_inst U t i)
  | KComponent w => option_map (fun ie => XComp (fst ie) (snd ie)) (unfold_comp U t w)
  | KModule m => option_map XMod (get_mod t m)
  | KValue v => option_map XValue (unfold_vt fuel t v)
  | KType (TResource r) => option_map XTRes (res_name_of fuel t r)
  | KType (TFunc i) => option_map XTFunc (unfold_func fuel t i)
  | KType (TValue v) => option_map XTValue (unfold_vt fuel t v)
  | KType (TInterface i) => option_map XTInst (unfold_inst U t i)
  | KType (TWorld w) => option_map (fun ie => XTComp (fst ie) (snd ie)) (unfold_comp U t w)
  | KType (TModule m) => option_map XTMod (get_mod t m)
  end.
Lemma unfold_eq f t k : unfold (S f) t k = unfold_body (unfold f t) (S f) t k.
Proof. destruct k as [[]| | | | |]; reflexivity. Qed.

Lemma unfold_func_S f t i ft : unfold_func f t i = Some ft -> unfold_func (S f) t i = Some ft.
Proof.
  unfold unfold_func. destruct (get_func t i) as [x|]; [|discriminate].
  destruct (map_snd (unfold_vt f t) (f_params x)) as [ps|] eqn:E1; [|discriminate].
  destruct (omap (unfold_vt f t) (f_result x)) as [r|] eqn:E2; [|discriminate].
  assert (He : ext_some (unfold_vt f t) (unfold_vt (S f) t)) by (intros v tr; apply unfold_vt_S).
  now rewrite (map_snd_ext _ _ _ _ He E1), (omap_ext _ _ _ _ He E2).
Qed.

Lemma unfold_S f t : forall k tr, unfold f t k = Some tr -> unfold (S f) t k = Some tr.
Proof.
  induction f as [|f IH]; intros k tr; [discriminate|].
  rewrite (unfold_eq f), (unfold_eq (S f)).
  assert (He : ext_some (unfold f t) (unfold (S f) t)) by exact IH.
  assert (Hi : forall i e, unfold_inst (unfold f t) t i = Some e -> unfold_inst (unfold (S f) t) t i = Some e).
  { intros i e. unfold unfold_inst. destruct (get_if t i); [|discriminate]. now apply map_snd_ext. }
  assert (Hc : forall i e, unfold_comp (unfold f t) t i = Some e -> unfold_comp (unfold (S f) t) t i = Some e).
  { intros i e. unfold unfold_comp. destruct (get_world t i) as [x|]; [|discriminate].
    destruct (map_snd (unfold f t) (w_imports x)) eqn:E1; [|discriminate].
    destruct (map_snd (unfold f t) (w_exports x)) eqn:E2; [|discriminate].
    now rewrite (map_snd_ext _ _ _ _ He E1), (map_snd_ext _ _ _ _ He E2). }
  unfold unfold_body. destruct k as [[r|i|v|i|w|m]|i|i|w|m|v]; apply option_map_ext; intro y; auto;
    try apply unfold_func_S; try apply unfold_vt_S; try apply res_name_of_S.
Qed.
Lemma unfold_mono f f' t k tr : (f <= f')%nat -> unfold f t k = Some tr -> unfold f' t k = Some tr.
Proof. induction 1 as [|m Hle IH]; [auto|]. intro Hu. apply unfold_S. auto. Qed.
Lemma unfold_func_mono f f' t i ft : (f <= f')%nat -> unfold_func f t i = Some ft -> unfold_func f' t i = Some ft.
Proof. induction 1 as [|m Hle IH]; [auto|]. intro Hu. apply unfold_func_S. auto. Qed.

(** * Descriptions never fail on kinds that have a denotation *)
Lemma desc_vt_total g t : forall F v tr, (g <= F)%nat -> unfold_vt g t v = Some tr -> exists D, desc_vt F t v = Ok D.
Proof.
  induction g as [|g IH]; intros F v tr HF Hu; [discriminate|]. destruct F as [|F]; [lia|].
  destruct v as [p|r|r|d]; cbn [desc_vt]; try (eexists; reflexivity).
  rewrite unfold_vt_eq in Hu. cbn [unfold_vt_body] in Hu.
  destruct (get_def t d) as [x|]; [|discriminate]. cbn [idx bind].
  destruct x; try (eexists; reflexivity). apply (IH F v tr); [lia | assumption].
Qed.
Lemma desc_kind_total g t F k tr : (g <= F)%nat -> unfold g t k = Some tr -> exists D, desc_kind F t k = Ok D.
Proof.
  intros HF Hu. destruct g as [|g]; [discriminate|]. rewrite unfold_eq in Hu.
  destruct k as [[r|i|v|i|w|m]|i|i|w|m|v]; cbn [desc_kind desc_ty]; try (eexists; reflexivity).
  cbn [unfold_body] in Hu. destruct (unfold_vt (S g) t v) as [tv|] eqn:E; [|discriminate].
  apply (desc_vt_total (S g) t F v tv HF E).
Qed.

(** * Names are unique in the trees of collections whose maps have unique keys *)
Definition nodup_types (t : types) : Prop :=
  (forall i x, nth_error (t_interfaces t) i = Some x -> NoDup (keys (i_exports x))) /\
  (forall i x, nth_error (t_worlds t) i = Some x -> NoDup (keys (w_imports x)) /\ NoDup (keys (w_exports x))) /\
  (forall i m, nth_error (t_modules t) i = Some m -> NoDup (keys (m_imports m)) /\ NoDup (keys (m_exports m))).

Lemma lookup_nth {A} tag (l : list A) i x : lookup tag l i = Some x -> nth_error l (id_idx i) = Some x.
Proof. unfold lookup. destruct (id_tag i =? tag); [auto | discriminate]. Qed.

Lemma map_snd_cons {K A B} (U : A -> option B) (k : K) (x : A) l l' :
  map_snd U ((k, x) :: l) = Some l' -> exists y r, U x = Some y /\ map_snd U l = Some r /\ l' = (k, y) :: r.
Proof.
  unfold map_snd. cbn [map all_some fst snd]. destruct (U x) as [y|]; [|discriminate].
  destruct (all_some _) as [r|]; [|discriminate]. intro H. injection H as <-. eauto.
Qed.
Lemma map_snd_keys {K A B} (U : A -> option B) (l : list (K * A)) l' : map_snd U l = Some l' -> keys l' = keys l.
Proof.
  revert l'. induction l as [|[k x] l IH]; intros l' H.
  - unfold map_snd in H. cbn in H. injection H as <-. reflexivity.
  - apply map_snd_cons in H as [y [r [_ [Hr ->]]]]. unfold keys in *. cbn [map fst]. f_equal. now apply IH.
Qed.
Lemma map_snd_in {K A B} (U : A -> option B) (l : list (K * A)) l' k y :
  map_snd U l = Some l' -> In (k, y) l' -> exists x, In (k, x) l /\ U x = Some y.
Proof.
  revert l'. induction l as [|[k' x] l IH]; intros l' H Hin.
  - unfold map_snd in H. cbn in H. injection H as <-. destruct Hin.
  - apply map_snd_cons in H as [y' [r [Hy [Hr ->]]]]. destruct Hin as [E|Hin].
    + injection E as -> ->. exists x. split; [now left | assumption].
    + destruct (IH _ Hr Hin) as [x' [H1 H2]]. exists x'. split; [now right | assumption].
  Qed.
Lemma map_snd_assoc {A B} (U : A -> option B) (l : list (str * A)) l' k :
  map_snd U l = Some l' -> assoc k l' = match assoc k l with Some x => U x | None => None end.
Proof.
  revert l'. induction l as [|[k' x] l IH]; intros l' H.
  - unfold map_snd in H. cbn in H. injection H as <-. reflexivity.
  - apply map_snd_cons in H as [y [r [Hy [Hr ->]]]]. cbn [assoc]. destruct (str_eqb k k'); [now rewrite Hy | now apply IH].
Qed.

Lemma wf_all_intro (l : list (str * tree)) :
  (forall k x, In (k, x) l -> wf_tree x) ->
  (fix go (l : list (str * tree)) : Prop := match l with [] => True | (_, x) :: r => wf_tree x /\ go r end) l.
Proof.
  induction l as [|[k x] l IH]; intro H; [exact I|]. split; [apply (H k); now left | apply IH; intros k' x' Hin; apply (H k'); now right].
Qed.

Lemma unfold_wf_tree t : nodup_types t -> forall g k tr, unfold g t k = Some tr -> wf_tree tr.
Proof.
  intros [Ni [Nw Nm]]. induction g as [|g IH]; intros k tr Hu; [discriminate|].
  rewrite unfold_eq in Hu.
  assert (Hi : forall i e, unfold_inst (unfold g t) t i = Some e ->
                           NoDup (keys e) /\ (fix go (l : list (str * tree)) : Prop := match l with [] => True | (_, x) :: r => wf_tree x /\ go r end) e).
  { intros i e. unfold unfold_inst. destruct (get_if t i) as [x|] eqn:E; [|discriminate]. intro H. split.
    - rewrite (map_snd_keys _ _ _ H). apply (Ni _ _ (lookup_nth _ _ _ _ E)).
    - apply wf_all_intro. intros k' y Hin. destruct (map_snd_in _ _ _ _ _ H Hin) as [x' [_ Hx']]. apply (IH _ _ Hx'). }
  assert (Hc : forall w ie, unfold_comp (unfold g t) t w = Some ie ->
                 (NoDup (keys (fst ie)) /\ (fix go (l : list (str * tree)) : Prop := match l with [] => True | (_, x) :: r => wf_tree x /\ go r end) (fst ie)) /\
                 (NoDup (keys (snd ie)) /\ (fix go (l : list (str * tree)) : Prop := match l with [] => True | (_, x) :: r => wf_tree x /\ go r end) (snd ie))).
  { intros w ie. unfold unfold_comp. destruct (get_world t w) as [x|] eqn:E; [|discriminate].
    destruct (map_snd (unfold g t) (w_imports x)) as [i'|] eqn:E1; [|discriminate].
    destruct (map_snd (unfold g t) (w_exports x)) as [e'|] eqn:E2; [|discriminate].
    intro H. injection H as <-. cbn [fst snd]. destruct (Nw _ _ (lookup_nth _ _ _ _ E)) as [N1 N2]. split; split.
    - now rewrite (map_snd_keys _ _ _ E1).
    - apply wf_all_intro. intros k' y Hin. destruct (map_snd_in _ _ _ _ _ E1 Hin) as [x' [_ Hx']]. apply (IH _ _ Hx').
    - now rewrite (map_snd_keys _ _ _ E2).
    - apply wf_all_intro. intros k' y Hin. destruct (map_snd_in _ _ _ _ _ E2 Hin) as [x' [_ Hx']]. apply (IH _ _ Hx'). }
  unfold unfold_body in Hu.
  destruct k as [[r|i|v|i|w|m]|i|i|w|m|v];
    match type of Hu with option_map _ ?o = _ => destruct o as [z|] eqn:Ez; [|discriminate] end;
    cbn [option_map] in Hu; injection Hu as <-; cbn [wf_tree];
    first [exact I | apply (Hi _ _ Ez) | apply (Hc _ _ Ez) | apply (Nm _ _ (lookup_nth _ _ _ _ Ez))].
Qed.

(** * A kind denotes the same tree in every collection (of a tag-consistent family) in which it has a denotation *)
Lemma unfold_vt_tag g t v tr : unfold_vt g t v = Some tr ->
  match v with VPrim _ => True | VBorrow i | VOwn i | VDefined i => id_tag i = t_tag t end.
Proof.
  destruct g as [|g]; [discriminate|]. rewrite unfold_vt_eq. destruct v as [p|r|r|d]; cbn [unfold_vt_body]; [auto | | |].
  - cbn [res_name_of]. destruct (get_res t r) eqn:E; [|discriminate]. intros _. apply (lookup_tag _ _ _ _ E).
  - cbn [res_name_of]. destruct (get_res t r) eqn:E; [|discriminate]. intros _. apply (lookup_tag _ _ _ _ E).
  - destruct (get_def t d) eqn:E; [|discriminate]. intros _. apply (lookup_tag _ _ _ _ E).
Qed.

Section Items.
  Variable E : types -> Prop.
  Hypothesis E_same : forall t1 t2, E t1 -> E t2 -> t_tag t1 = t_tag t2 -> t1 = t2.
  Hypothesis E_nodup : forall t, E t -> nodup_types t.

  Lemma unfold_indep g1 g2 t1 t2 k a b : E t1 -> E t2 ->
    unfold g1 t1 k = Some a -> unfold g2 t2 k = Some b -> a = b.
  Proof.
    intros H1 H2 Ha Hb.
    assert (Hsame : t_tag t1 = t_tag t2 -> a = b).
    { intro Et. pose proof (E_same _ _ H1 H2 Et) as <-.
      apply (unfold_mono g1 (Nat.max g1 g2)) in Ha; [|lia]. apply (unfold_mono g2 (Nat.max g1 g2)) in Hb; [|lia]. congruence. }
    destruct g1 as [|g1]; [discriminate|]. destruct g2 as [|g2]; [discriminate|].
    pose proof Ha as Ha'. pose proof Hb as Hb'. rewrite unfold_eq in Ha', Hb'. unfold unfold_body in Ha', Hb'.
    assert (Hv : forall v (f : vtree -> tree), option_map f (unfold_vt (S g1) t1 v) = Some a ->
                                               option_map f (unfold_vt (S g2) t2 v) = Some b -> a = b).
    { intros v f Xa Xb. destruct (unfold_vt (S g1) t1 v) as [ta|] eqn:Ua; [|discriminate].
      destruct (unfold_vt (S g2) t2 v) as [tb|] eqn:Ub; [|discriminate].
      pose proof (unfold_vt_tag _ _ _ _ Ua) as Ta. pose proof (unfold_vt_tag _ _ _ _ Ub) as Tb.
      destruct v as [p|r|r|d]; try (apply Hsame; congruence).
      rewrite unfold_vt_eq in Ua, Ub. cbn [unfold_vt_body] in Ua, Ub. injection Ua as <-. injection Ub as <-.
      cbn in Xa, Xb. congruence. }
    destruct k as [[r|i|v|i|w|m]|i|i|w|m|v]; try (eapply Hv; eassumption); apply Hsame.
    - cbn [res_name_of] in Ha', Hb'. destruct (get_res t1 r) eqn:X1; [|discriminate]. destruct (get_res t2 r) eqn:X2; [|discriminate].
      apply lookup_tag in X1, X2. congruence.
    - unfold unfold_func in Ha', Hb'. destruct (get_func t1 i) eqn:X1; [|discriminate]. destruct (get_func t2 i) eqn:X2; [|discriminate].
      apply lookup_tag in X1, X2. congruence.
    - unfold unfold_inst in Ha', Hb'. destruct (get_if t1 i) eqn:X1; [|discriminate]. destruct (get_if t2 i) eqn:X2; [|discriminate].
      apply lookup_tag in X1, X2. congruence.
    - unfold unfold_comp in Ha', Hb'. destruct (get_world t1 w) eqn:X1; [|discriminate]. destruct (get_world t2 w) eqn:X2; [|discriminate].
      apply lookup_tag in X1, X2. congruence.
    - destruct (get_mod t1 m) eqn:X1; [|discriminate]. destruct (get_mod t2 m) eqn:X2; [|discriminate].
      apply lookup_tag in X1, X2. congruence.
    - unfold unfold_func in Ha', Hb'. destruct (get_func t1 i) eqn:X1; [|discriminate]. destruct (get_func t2 i) eqn:X2; [|discriminate].
      apply lookup_tag in X1, X2. congruence.
    - unfold unfold_inst in Ha', Hb'. destruct (get_if t1 i) eqn:X1; [|discriminate]. destruct (get_if t2 i) eqn:X2; [|discriminate].
      apply lookup_tag in X1, X2. congruence.
    - unfold unfold_comp in Ha', Hb'. destruct (get_world t1 w) eqn:X1; [|discriminate]. destruct (get_world t2 w) eqn:X2; [|discriminate].
      apply lookup_tag in X1, X2. congruence.
    - destruct (get_mod t1 m) eqn:X1; [|discriminate]. destruct (get_mod t2 m) eqn:X2; [|discriminate].
      apply lookup_tag in X1, X2. congruence.
  Qed.

  (** ** The memo invariant *)
  Definition cache_ok (c : list (kind * kind)) : Prop :=
    forall x y, In (x, y) c -> forall xt yt g tx ty, E xt -> E yt ->
      unfold g xt x = Some tx -> unfold g yt y = Some ty -> SubX tx ty.

  Definition post (P : Prop) (s : st) (rs : SR) : Prop :=
    decides (fst rs) P /\ cache_ok (cache (snd rs)) /\ (fst rs = Ok tt -> ks (snd rs) = ks s) /\
    incl (cache s) (cache (snd rs)).

  Lemma post_iff (P Q : Prop) s rs : (P <-> Q) -> post P s rs -> post Q s rs.
  Proof. intros H [H1 H2]. split; [eapply decides_iff; eassumption | assumption]. Qed.
  Lemma post_lift (P : Prop) s r : cache_ok (cache s) -> decides r P -> post P s (lift r s).
  Proof. intros Hc Hd. unfold post, lift. cbn [fst snd]. repeat split; auto. apply incl_refl. Qed.
  Lemma post_sbind (P Q : Prop) s r s1 k :
    post P s (r, s1) -> (r = Ok tt -> post Q s1 (k s1)) -> post (P /\ Q) s (sbind (r, s1) k).
  Proof.
    intros [Hd [Hc [Hk Hi]]] Hn. cbn [fst snd] in *. destruct Hd as [[-> HP]|[[e ->] HP]].
    - cbn [sbind]. destruct (Hn eq_refl) as [Hd' [Hc' [Hk' Hi']]]. repeat split.
      + eapply decides_iff; [|exact Hd']. tauto.
      + assumption.
      + intro H. rewrite (Hk' H). auto.
      + eapply incl_tran; eassumption.
    - cbn [sbind]. repeat split; cbn [fst snd]; auto; try discriminate. apply decides_err. tauto.
  Qed.

  (** ** The three export/import loops are one loop *)
  Fixpoint gen_loop (call : st -> kind -> kind -> SR) (miss : st -> kind -> R unit) (s : st)
           (a b : list (str * kind)) : SR :=
    match b with
    | [] => (ok, s)
    | (k, bk) :: rest =>
      match assoc k a with
      | Some ak => sbind (call s ak bk) (fun s' => gen_loop call miss s' a rest)
      | None => (miss s bk, s)
      end
    end.
  Lemma sbind_ext r k1 k2 : (forall s, k1 s = k2 s) -> sbind r k1 = sbind r k2.
  Proof. intro H. destruct r as [[u| | |] s]; cbn [sbind]; auto. Qed.

  Lemma instance_exports_gen rec vf at_ a bt : forall b s,
    instance_exports rec vf s at_ a bt b =
    gen_loop (fun s ak bk => rec s at_ ak bt bk)
             (fun s bk => _ <- desc_kind vf bt bk ;; Err (match vkind (ks s) with Cov => EInstMissing | Contra => EInstUnexpected end))
             s a b.
  Proof.
    induction b as [|[k bk] b IH]; intro s; cbn [instance_exports gen_loop]; [reflexivity|].
    destruct (assoc k a); [|reflexivity]. apply sbind_ext. intro s'. apply IH.
  Qed.
  Lemma world_exports_gen rec vf at_ a bt : forall b s,
    world_exports rec vf s at_ a bt b =
    gen_loop (fun s ak bk => rec s at_ ak bt bk)
             (fun s bk => _ <- desc_kind vf bt bk ;; Err (match vkind (ks s) with Cov => ECompExpMissing | Contra => ECompExpUnexpected end))
             s a b.
  Proof.
    induction b as [|[k bk] b IH]; intro s; cbn [world_exports gen_loop]; [reflexivity|].
    destruct (assoc k a); [|reflexivity]. apply sbind_ext. intro s'. apply IH.
  Qed.
  Lemma world_imports_gen rec vf prev at_ bt b : forall a s,
    world_imports rec vf prev s at_ a bt b =
    gen_loop (fun s bk ak => rec s bt bk at_ ak)
             (fun s ak => _ <- desc_kind vf at_ ak ;; Err (match prev with Cov => ECompImpMissing | Contra => ECompImpUnexpected end))
             s b a.
  Proof.
    induction a as [|[k ak] a IH]; intro s; cbn [world_imports gen_loop]; [reflexivity|].
    destruct (assoc k b); [|reflexivity]. apply sbind_ext. intro s'. apply IH.
  Qed.

  Lemma map_snd_some_in {K A B} (U : A -> option B) (l : list (K * A)) l' k x :
    map_snd U l = Some l' -> In (k, x) l -> exists y, U x = Some y.
  Proof.
    revert l'. induction l as [|[k' x'] l IH]; intros l' H Hin; [destruct Hin|].
    apply map_snd_cons in H as [y [r [Hy [Hr ->]]]]. destruct Hin as [Eq|Hin].
    - injection Eq as -> ->. eauto.
    - eapply IH; eassumption.
  Qed.

  Lemma gen_loop_spec call miss (U V : kind -> option tree) :
    (forall s ak bk ta tb, cache_ok (cache s) -> U ak = Some ta -> V bk = Some tb -> post (SubX ta tb) s (call s ak bk)) ->
    (forall s bk tb, V bk = Some tb -> exists e, miss s bk = Err e) ->
    forall a a', map_snd U a = Some a' ->
    forall b b' s, map_snd V b = Some b' -> cache_ok (cache s) ->
    post (cov_spec eq PGx a' b') s (gen_loop call miss s a b).
  Proof.
    intros Hcall Hmiss a a' Ha. induction b as [|[k bk] b IH]; intros b' s Hb Hc.
    - unfold map_snd in Hb. cbn in Hb. injection Hb as <-. cbn [gen_loop]. apply post_lift; [assumption|].
      apply decides_ok. intros ? ? [].
    - apply map_snd_cons in Hb as [tb [r [Hb1 [Hb2 ->]]]]. cbn [gen_loop].
      pose proof (map_snd_assoc U a a' k Ha) as Hassoc.
      destruct (assoc k a) as [ak|] eqn:Ek.
      + destruct (map_snd_some_in U a a' k ak Ha (assoc_in _ _ _ Ek)) as [ta Hta]. rewrite Hta in Hassoc.
        pose proof (Hcall s ak bk ta tb Hc Hta Hb1) as Hp. destruct (call s ak bk) as [r1 s1] eqn:Ecall.
        eapply post_iff; [|apply (post_sbind (SubX ta tb) (cov_spec eq PGx a' r) s r1 s1 _ Hp)].
        * unfold cov_spec. split.
          -- intros [H1 H2] k' tb' [Eq|Hin]; [injection Eq as <- <-; eauto | eauto].
          -- intro H. split.
             ++ destruct (H k tb (or_introl eq_refl)) as [ta' [Eq Hs]]. congruence.
             ++ intros k' tb' Hin. apply H. now right.
        * intros ->. destruct Hp as [_ [Hc1 _]]. apply (IH r s1 Hb2 Hc1).
      + destruct (Hmiss s bk tb Hb1) as [e He]. rewrite He. unfold post. cbn [fst snd]. repeat split; auto; try discriminate.
        * apply decides_err. intro H. destruct (H k tb (or_introl eq_refl)) as [ta' [Eq _]]. congruence.
        * apply incl_refl.
  Qed.

  (** ** Instances, components, modules under a correct recursive call *)
  Section Level.
    Variable g : nat.
    Variable rec : st -> types -> kind -> types -> kind -> SR.
    Hypothesis Hrec : forall s xt x yt y tx ty, E xt -> E yt -> cache_ok (cache s) ->
      unfold g xt x = Some tx -> unfold g yt y = Some ty -> post (SubX tx ty) s (rec s xt x yt y).
    Variable vf : nat.
    Hypothesis Hvf : (S g <= vf)%nat.

    Lemma miss_total (t : types) (mk : st -> err) s bk tb :
      unfold g t bk = Some tb -> exists e, (_ <- desc_kind vf t bk ;; (Err (mk s) : R unit)) = Err e.
    Proof.
      intro Hu. destruct (desc_kind_total g t vf bk tb ltac:(lia) Hu) as [D ->]. cbn [bind]. eauto.
    Qed.

    Lemma cov_refl xt i e : E xt -> unfold_inst (unfold g xt) xt i = Some e -> cov_spec eq PGx e e.
    Proof.
      intros He Hu.
      assert (Hk : unfold (S g) xt (KInstance i) = Some (XInst e)) by (rewrite unfold_eq; cbn [unfold_body]; now rewrite Hu).
      pose proof (unfold_wf_tree xt (E_nodup _ He) _ _ _ Hk) as Hw.
      pose proof (Sub_refl PGx PGx_refl (tdepth (XInst e)) (XInst e) (le_n _) Hw) as Hs. now inversion Hs.
    Qed.

    Lemma interface_spec s xt a yt b ea eb : E xt -> E yt -> cache_ok (cache s) ->
      unfold_inst (unfold g xt) xt a = Some ea -> unfold_inst (unfold g yt) yt b = Some eb ->
      post (cov_spec eq PGx ea eb) s (interface rec vf s xt a yt b).
    Proof.
      intros Hx Hy Hc Ha Hb. unfold interface. pose proof Ha as Ha'. pose proof Hb as Hb'. unfold unfold_inst in Ha', Hb'.
      destruct (get_if xt a) as [ia|] eqn:Ea; [|discriminate]. destruct (get_if yt b) as [ib|] eqn:Eb; [|discriminate].
      destruct (id_eqb a b) eqn:Eid.
      - apply ideqb_eq in Eid. subst b. apply post_lift; [assumption|]. apply decides_ok.
        assert (Et : xt = yt). { apply E_same; auto. apply lookup_tag in Ea, Eb. congruence. }
        subst yt. rewrite Ha in Hb. injection Hb as <-. now apply (cov_refl xt a).
      - rewrite instance_exports_gen.
        exact (gen_loop_spec _ _ (unfold g xt) (unfold g yt)
                 (fun s' ak bk ta tb Hc' Hta Htb => Hrec s' xt ak yt bk ta tb Hx Hy Hc' Hta Htb)
                 (fun s' bk tb Htb => miss_total yt (fun s0 => match vkind (ks s0) with Cov => EInstMissing | Contra => EInstUnexpected end) s' bk tb Htb)
                 (i_exports ia) ea Ha' (i_exports ib) eb s Hb' Hc).
    Qed.

    Lemma world_spec s xt a yt b ia ea ib eb : E xt -> E yt -> cache_ok (cache s) ->
      unfold_comp (unfold g xt) xt a = Some (ia, ea) -> unfold_comp (unfold g yt) yt b = Some (ib, eb) ->
      post (cov_spec eq PGx ib ia /\ cov_spec eq PGx ea eb) s (world_ rec vf s xt a yt b).
    Proof.
      intros Hx Hy Hc Ha Hb. unfold world_. unfold unfold_comp in Ha, Hb.
      destruct (get_world xt a) as [wa|] eqn:Ea; [|discriminate]. destruct (get_world yt b) as [wb|] eqn:Eb; [|discriminate].
      destruct (map_snd (unfold g xt) (w_imports wa)) as [ia'|] eqn:A1; [|discriminate].
      destruct (map_snd (unfold g xt) (w_exports wa)) as [ea'|] eqn:A2; [|discriminate].
      destruct (map_snd (unfold g yt) (w_imports wb)) as [ib'|] eqn:B1; [|discriminate].
      destruct (map_snd (unfold g yt) (w_exports wb)) as [eb'|] eqn:B2; [|discriminate].
      injection Ha as <- <-. injection Hb as <- <-.
      rewrite world_imports_gen.
      set (s1 := set_ks s (invert (ks s))).
      assert (Hc1 : cache_ok (cache s1)) by exact Hc.
      pose proof (gen_loop_spec (fun s0 bk ak => rec s0 yt bk xt ak)
                    (fun s0 ak => _ <- desc_kind vf xt ak ;; Err (match vkind (ks s) with Cov => ECompImpMissing | Contra => ECompImpUnexpected end))
                    (unfold g yt) (unfold g xt)
                    (fun s' bk ak tb ta Hc' Htb Hta => Hrec s' yt bk xt ak tb ta Hy Hx Hc' Htb Hta)
                    (fun s' ak ta Hta => miss_total xt (fun _ => match vkind (ks s) with Cov => ECompImpMissing | Contra => ECompImpUnexpected end) s' ak ta Hta)
                    (w_imports wb) ib' B1 (w_imports wa) ia' s1 A1 Hc1) as Hp.
      destruct (gen_loop _ _ s1 (w_imports wb) (w_imports wa)) as [r1 s2] eqn:Eloop.
      destruct Hp as [D1 [Hc2 [Hk2 I1]]]. cbn [fst snd] in *.
      destruct D1 as [[-> P1]|[[e ->] P1]]; cbn [sbind].
      - specialize (Hk2 eq_refl). unfold revert. rewrite Hk2. unfold s1. cbn [set_ks ks invert].
        rewrite world_exports_gen.
        assert (Hc3 : cache_ok (cache (set_ks s2 (ks s)))) by exact Hc2.
        pose proof (gen_loop_spec (fun s0 ak bk => rec s0 xt ak yt bk)
                      (fun s0 bk => _ <- desc_kind vf yt bk ;; Err (match vkind (ks s0) with Cov => ECompExpMissing | Contra => ECompExpUnexpected end))
                      (unfold g xt) (unfold g yt)
                      (fun s' ak bk ta tb Hc' Hta Htb => Hrec s' xt ak yt bk ta tb Hx Hy Hc' Hta Htb)
                      (fun s' bk tb Htb => miss_total yt (fun s0 => match vkind (ks s0) with Cov => ECompExpMissing | Contra => ECompExpUnexpected end) s' bk tb Htb)
                      (w_exports wa) ea' A2 (w_exports wb) eb' (set_ks s2 (ks s)) B2 Hc3) as Hp2.
        destruct Hp2 as [D2 [C2 [K2 I2]]]. unfold post. repeat split; auto.
        + eapply decides_iff; [|exact D2]. tauto.
        + eapply incl_tran; [exact I1 | exact I2].
      - unfold post. cbn [fst snd]. repeat split; auto; try discriminate. apply decides_err. tauto.
    Qed.

    Lemma module_spec s xt a yt b ma mb : E xt -> E yt -> cache_ok (cache s) ->
      get_mod xt a = Some ma -> get_mod yt b = Some mb -> post (MSub PGx ma mb) s (module_ s xt a yt b).
    Proof.
      intros Hx Hy Hc Ea Eb. unfold module_. rewrite Ea, Eb.
      destruct (id_eqb a b) eqn:Eid.
      - apply ideqb_eq in Eid. subst b. apply post_lift; [assumption|]. apply decides_ok.
        assert (Et : xt = yt). { apply E_same; auto. apply lookup_tag in Ea, Eb. congruence. }
        subst yt. assert (ma = mb) by congruence. subst mb.
        destruct (E_nodup _ Hx) as [_ [_ Nm]]. destruct (Nm _ _ (lookup_nth _ _ _ _ Ea)). now apply (MSub_refl PGx PGx_refl).
      - pose proof (module_imports_spec (vkind (ks s)) (vkind (ks (set_ks s (invert (ks s))))) (m_imports mb) (m_imports ma)) as H1.
        pose proof (module_exports_spec (vkind (ks s)) (m_exports ma) (m_exports mb)) as H2.
        destruct (module_imports _ _ (m_imports ma) (m_imports mb)) as [u|e| |] eqn:E1.
        + destruct u. unfold post. cbn [fst snd]. repeat split; auto; [|apply incl_refl].
          destruct H1 as [[_ P1]|[[e He] _]]; [|discriminate]. eapply decides_iff; [|exact H2]. unfold MSub. tauto.
        + unfold post. cbn [fst snd set_ks cache]. repeat split; auto; try discriminate; [|apply incl_refl].
          destruct H1 as [[He _]|[_ P1]]; [discriminate|]. apply decides_err. unfold MSub. tauto.
        + destruct H1 as [[He _]|[[e He] _]]; discriminate.
        + destruct H1 as [[He _]|[[e He] _]]; discriminate.
    Qed.
  End Level.

  Lemma cache_mem_in p c : cache_mem p c = true <-> In p c.
  Proof.
    unfold cache_mem. rewrite existsb_exists. split.
    - intros [q [Hin Hq]]. unfold pair_eqb in Hq. apply andb_true_iff in Hq as [H1 H2].
      apply kindeqb_eq in H1, H2. destruct p, q; cbn [fst snd] in *. now subst.
    - intro Hin. exists p. split; [assumption|]. unfold pair_eqb. apply andb_true_iff. split; now apply kindeqb_eq.
  Qed.

  Ltac inv_opt H :=
    match type of H with
    | option_map _ ?o = Some _ => let z := fresh "z" in let Ez := fresh "Ez" in
                                  destruct o as [z|] eqn:Ez; [|discriminate H]; cbn [option_map] in H; injection H as <-
    end.

  (** ** Main characterisation: on kinds that have a denotation, the checker (with any memo that satisfies the
      invariant, any variance stack) returns Ok or Err, Ok exactly on the pairs of [Sub eq]; the invariant is
      kept, the memo only grows, and the variance stack is restored on Ok. *)
  Lemma is_subtype_spec g : forall F s xt x yt y tx ty, (g <= F)%nat -> E xt -> E yt -> cache_ok (cache s) ->
    unfold g xt x = Some tx -> unfold g yt y = Some ty -> post (SubX tx ty) s (is_subtype F s xt x yt y).
  Proof.
    induction g as [|g IH]; intros F s xt x yt y tx ty HF Hx Hy Hc Hux Huy; [discriminate|].
    destruct F as [|F]; [lia|]. cbn [is_subtype].
    destruct (cache_mem (x, y) (cache s)) eqn:Emem.
    { apply cache_mem_in in Emem. apply post_lift; [assumption|]. apply decides_ok. apply (Hc x y Emem xt yt (S g) tx ty Hx Hy Hux Huy). }
    assert (Hrec : forall s xt x yt y tx ty, E xt -> E yt -> cache_ok (cache s) ->
              unfold g xt x = Some tx -> unfold g yt y = Some ty -> post (SubX tx ty) s (is_subtype F s xt x yt y)).
    { intros. apply IH; auto. lia. }
    assert (Hcore : post (SubX tx ty) s (is_subtype_ (is_subtype F) (S F) s xt x yt y)).
    { pose proof Hux as Hux'. pose proof Huy as Huy'. rewrite unfold_eq in Hux', Huy'. unfold unfold_body in Hux', Huy'.
      assert (Hmis : forall r, r = mismatch (vkind (ks s)) (desc_kind (S F)) x xt y yt -> ~ SubX tx ty ->
                               post (SubX tx ty) s (lift r s)).
      { intros r -> Hn. apply post_lift; [assumption|].
        destruct (desc_kind_total (S g) xt (S F) x tx HF Hux) as [D1 E1]. destruct (desc_kind_total (S g) yt (S F) y ty HF Huy) as [D2 E2].
        unfold mismatch. destruct (vkind (ks s)); cbn [ef2]; rewrite E1, E2; cbn [bind]; now apply decides_err. }
      assert (Hmist : forall a b r, x = KType a -> y = KType b -> r = mismatch (vkind (ks s)) (desc_ty (S F)) a xt b yt -> ~ SubX tx ty ->
                               post (SubX tx ty) s (lift r s)).
      { intros a b r -> -> -> Hn. apply post_lift; [assumption|].
        destruct (desc_kind_total (S g) xt (S F) _ tx HF Hux) as [D1 E1]. destruct (desc_kind_total (S g) yt (S F) _ ty HF Huy) as [D2 E2].
        cbn [desc_kind] in E1, E2.
        unfold mismatch. destruct (vkind (ks s)); cbn [ef2]; rewrite E1, E2; cbn [bind]; now apply decides_err. }
      assert (Hfunc : forall a b fa fb, unfold_func (S g) xt a = Some fa -> unfold_func (S g) yt b = Some fb ->
                        decides (func (S F) (vkind (ks s)) xt a yt b) (FSub eq fa fb)).
      { intros a b fa fb Ha Hb. eapply decides_iff; [symmetry; apply FSub_eq_iff|].
        apply (func_spec xt yt (E_same xt yt Hx Hy) (S g) (S F) _ a b fa fb HF Ha Hb). }
      assert (Hval : forall a b ta tb, unfold_vt (S g) xt a = Some ta -> unfold_vt (S g) yt b = Some tb ->
                        decides (value_type (S F) (vkind (ks s)) xt a yt b) (VSub eq ta tb)).
      { intros a b ta tb Ha Hb. eapply decides_iff; [symmetry; apply VSub_eq_iff|].
        apply (value_type_spec xt yt (E_same xt yt Hx Hy) (S g) (S F) _ a b ta tb HF Ha Hb). }
      assert (Hres : forall a b na nb, res_name_of (S g) xt a = Some na -> res_name_of (S g) yt b = Some nb ->
                        decides (resource (S F) (vkind (ks s)) xt a yt b) (na = nb)).
      { intros a b na nb Ha Hb. apply (resource_spec xt yt (E_same xt yt Hx Hy) (S g) (S F) _ a b na nb HF Ha Hb). }
      destruct x as [[xr|xi|xv|xi|xw|xm]|xi|xi|xw|xm|xv], y as [[yr|yi|yv|yi|yw|ym]|yi|yi|yw|ym|yv];
        cbn [is_subtype_ ty_];
        try (inv_opt Hux'; inv_opt Huy';
             first [ apply (Hmis _ eq_refl); inversion 1
                   | eapply (Hmist _ _ _ eq_refl eq_refl eq_refl); inversion 1 ]; fail);
        inv_opt Hux'; inv_opt Huy'.
      - (* type resource *)
        apply post_lift; [assumption|]. eapply decides_iff; [|apply (Hres _ _ _ _ Ez Ez0)].
        split; [intros ->; now constructor | now inversion 1].
      - apply post_lift; [assumption|]. eapply decides_iff; [|apply (Hfunc _ _ _ _ Ez Ez0)].
        split; [now constructor | now inversion 1].
      - apply post_lift; [assumption|]. eapply decides_iff; [|apply (Hval _ _ _ _ Ez Ez0)].
        split; [now constructor | now inversion 1].
      - eapply post_iff; [|apply (interface_spec g (is_subtype F) Hrec (S F) HF s xt xi yt yi z z0 Hx Hy Hc Ez Ez0)].
        split; [now constructor | now inversion 1].
      - destruct z as [ia ea], z0 as [ib eb]. cbn [fst snd].
        eapply post_iff; [|apply (world_spec g (is_subtype F) Hrec (S F) HF s xt xw yt yw ia ea ib eb Hx Hy Hc Ez Ez0)].
        split; [intros []; now constructor | now inversion 1].
      - eapply post_iff; [|apply (module_spec s xt xm yt ym z z0 Hx Hy Hc Ez Ez0)].
        split; [now constructor | now inversion 1].
      - apply post_lift; [assumption|]. eapply decides_iff; [|apply (Hfunc _ _ _ _ Ez Ez0)].
        split; [now constructor | now inversion 1].
      - eapply post_iff; [|apply (interface_spec g (is_subtype F) Hrec (S F) HF s xt xi yt yi z z0 Hx Hy Hc Ez Ez0)].
        split; [now constructor | now inversion 1].
      - destruct z as [ia ea], z0 as [ib eb]. cbn [fst snd].
        eapply post_iff; [|apply (world_spec g (is_subtype F) Hrec (S F) HF s xt xw yt yw ia ea ib eb Hx Hy Hc Ez Ez0)].
        split; [intros []; now constructor | now inversion 1].
      - eapply post_iff; [|apply (module_spec s xt xm yt ym z z0 Hx Hy Hc Ez Ez0)].
        split; [now constructor | now inversion 1].
      - apply post_lift; [assumption|]. eapply decides_iff; [|apply (Hval _ _ _ _ Ez Ez0)].
        split; [now constructor | now inversion 1]. }
    destruct (is_subtype_ (is_subtype F) (S F) s xt x yt y) as [r s'] eqn:Er.
    destruct Hcore as [D [C [K I]]]. cbn [fst snd] in *.
    destruct D as [[-> P]|[[e ->] P]].
    - unfold post. cbn [fst snd ks cache]. repeat split; auto.
      + now apply decides_ok.
      + intros x' y' [Eq|Hin]; [|now apply C].
        injection Eq as <- <-. intros xt' yt' g' tx' ty' Hx' Hy' Hux'' Huy''.
        rewrite (unfold_indep _ _ _ _ _ _ _ Hx' Hx Hux'' Hux), (unfold_indep _ _ _ _ _ _ _ Hy' Hy Huy'' Huy). exact P.
      + intros p Hp. right. now apply I.
    - unfold post. cbn [fst snd]. repeat split; auto; try discriminate. now apply decides_err.
  Qed.
End Items.
