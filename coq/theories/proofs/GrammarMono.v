(** The grammar of spec/Grammar.v is monotone in its deviation flags: every flag only ADDS
    productions. Hence a derivation that uses no flag at all ([core_flags]: the productions LANGUAGE.md
    and the parser have in common) is a derivation of the documented grammar AND of the implemented
    one, with the same tree ([impl_vs_doc_agree_outside_deviations]). *)
From WacV Require Import Str Token Lexer Semver Ast Parser Grammar ParserComb ParserProofs.
From Coq Require Import Lia.
Local Open Scope nat_scope.

(** The flags that guard productions (the four lexical flags do not occur in the grammar). *)
Definition flags_le (a b : deviations) : Prop :=
  (arrow_empty_results a = true -> arrow_empty_results b = true) /\
  (result_underscore_forms a = true -> result_underscore_forms b = true) /\
  (empty_new_args a = true -> empty_new_args b = true) /\
  (fill_alone a = true -> fill_alone b = true) /\
  (fill_anywhere a = true -> fill_anywhere b = true) /\
  (empty_use_items a = true -> empty_use_items b = true) /\
  (empty_include_with a = true -> empty_include_with b = true) /\
  (named_results a = true -> named_results b = true) /\
  (borrow_any_type a = true -> borrow_any_type b = true).

(** No deviation in either direction: the productions common to LANGUAGE.md and the parser. *)
Definition core_flags : deviations := {|
  arrow_empty_results := false; result_underscore_forms := false; uppercase_words := false;
  dangling_dash := false; keyword_colon := false; pkg_separator_zone := false;
  empty_new_args := false; fill_alone := false; fill_anywhere := false; empty_use_items := false;
  empty_include_with := false; named_results := false; borrow_any_type := false |}.

Lemma core_le d : flags_le core_flags d.
Proof. unfold flags_le, core_flags; cbn. repeat split; discriminate. Qed.

Lemma seplist_mono {A} (R1 R2 : drel A) :
  (forall ts r a, R1 ts r a -> R2 ts r a) -> forall ts r x, seplist R1 ts r x -> seplist R2 ts r x.
Proof.
  intros H ts r x Hs. induction Hs.
  - apply sl_nil.
  - apply sl_one; auto.
  - eapply sl_trail; eauto.
  - eapply sl_cons; eauto.
Qed.

Lemma many_mono {A} (R1 R2 : drel A) :
  (forall ts r a, R1 ts r a -> R2 ts r a) -> forall ts r x, many R1 ts r x -> many R2 ts r x.
Proof. intros H ts r x Hs. induction Hs; [apply many_nil|eapply many_cons; eauto]. Qed.

Lemma opt_mono {A} k (R1 R2 : drel A) :
  (forall ts r a, R1 ts r a -> R2 ts r a) -> forall ts r x, opt k R1 ts r x -> opt k R2 ts r x.
Proof. intros H ts r x Hs. destruct Hs; [apply opt_none|eapply opt_some; eauto]. Qed.

Scheme g_type_mono_ind := Minimality for g_type Sort Prop
  with g_types_mono_ind := Minimality for g_types Sort Prop.
Combined Scheme g_type_types_ind from g_type_mono_ind, g_types_mono_ind.

Scheme g_expr_mono_ind := Minimality for g_expr Sort Prop
  with g_primary_mono_ind := Minimality for g_primary Sort Prop
  with g_args_mono_ind := Minimality for g_args Sort Prop
  with g_arg_mono_ind := Minimality for g_arg Sort Prop.
Combined Scheme g_expr_all_ind from g_expr_mono_ind, g_primary_mono_ind, g_args_mono_ind, g_arg_mono_ind.

Section Mono.
Variables d1 d2 : deviations.
Hypothesis Hle : flags_le d1 d2.

Let H_arrow := proj1 Hle.
Let H_under := proj1 (proj2 Hle).
Let H_new := proj1 (proj2 (proj2 Hle)).
Let H_alone := proj1 (proj2 (proj2 (proj2 Hle))).
Let H_any := proj1 (proj2 (proj2 (proj2 (proj2 Hle)))).
Let H_use := proj1 (proj2 (proj2 (proj2 (proj2 (proj2 Hle))))).
Let H_incl := proj1 (proj2 (proj2 (proj2 (proj2 (proj2 (proj2 Hle)))))).
Let H_named := proj1 (proj2 (proj2 (proj2 (proj2 (proj2 (proj2 (proj2 Hle))))))).
Let H_borrow := proj2 (proj2 (proj2 (proj2 (proj2 (proj2 (proj2 (proj2 Hle))))))).

Ltac exs := repeat match goal with |- exists _, _ => eexists end.
Ltac conj := repeat match goal with |- _ /\ _ => split end.
Ltac ex := repeat match goal with
                  | H : exists _, _ |- _ => destruct H
                  | H : _ /\ _ |- _ => destruct H
                  end.

Lemma args_ok_mono args tr : args_ok d1 args tr = true -> args_ok d2 args tr = true.
Proof.
  unfold args_ok. destruct args as [|a args]; [apply H_new|].
  assert (Hgen : forall b, fill_anywhere d1 || b = true -> fill_anywhere d2 || b = true).
  { intros b Hb. apply orb_true_iff in Hb. destruct Hb as [Hb|Hb]; [now rewrite (H_any Hb)|rewrite Hb; apply orb_true_r]. }
  destruct a; try apply Hgen. destruct args; [|apply Hgen]. destruct tr; [apply H_any|apply H_alone].
Qed.

Lemma g_type_mono :
  (forall ts r t, g_type d1 ts r t -> g_type d2 ts r t) /\ (forall ts r x, g_types d1 ts r x -> g_types d2 ts r x).
Proof.
  apply (g_type_types_ind d1 (fun ts r t => g_type d2 ts r t) (fun ts r x => g_types d2 ts r x)); intros.
  - eapply gt_prim; eauto.
  - eapply gt_tuple; eauto.
  - eapply gt_list; eauto.
  - eapply gt_option; eauto.
  - eapply gt_result; eauto.
  - eapply gt_result_ok; eauto.
  - eapply gt_result_err; eauto.
  - eapply gt_result_both; eauto.
  - eapply gt_result_u; eauto.
  - eapply gt_result_uu; eauto.
  - eapply gt_result_tu; eauto.
  - eapply gt_borrow; eauto.
  - eapply gt_borrow_ty; eauto.
  - eapply gt_id; eauto.
  - apply gts_nil.
  - eapply gts_one; eauto.
  - eapply gts_trail; eauto.
  - eapply gts_cons; eauto.
Qed.

Lemma g_type_mono1 ts r t : g_type d1 ts r t -> g_type d2 ts r t.
Proof. apply g_type_mono. Qed.
Local Hint Resolve g_type_mono1 : core.

Lemma g_named_type_mono ts r n : g_named_type d1 ts r n -> g_named_type d2 ts r n.
Proof. unfold g_named_type. intros H. ex. subst. exs; conj; eauto. Qed.
Local Hint Resolve g_named_type_mono : core.

Lemma g_params_mono ts r ps : g_params d1 ts r ps -> g_params d2 ts r ps.
Proof. unfold g_params. intros (tr & H). exists tr. eapply seplist_mono; [|exact H]. auto. Qed.
Local Hint Resolve g_params_mono : core.

Lemma g_results_mono ts r x : g_results d1 ts r x -> g_results d2 ts r x.
Proof.
  intros H. destruct H.
  - apply gr_scalar; auto.
  - eapply gr_named; eauto.
  - apply gr_empty; auto.
Qed.
Local Hint Resolve g_results_mono : core.

Lemma g_func_type_mono ts r f : g_func_type d1 ts r f -> g_func_type d2 ts r f.
Proof.
  unfold g_func_type. intros H. ex. subst. exs; conj; eauto.
  eapply opt_mono; [|eassumption]. auto.
Qed.
Local Hint Resolve g_func_type_mono : core.

Lemma g_variant_case_mono ts r v : g_variant_case d1 ts r v -> g_variant_case d2 ts r v.
Proof.
  unfold g_variant_case. intros H. ex. subst. exs; conj; eauto.
  eapply opt_mono; [|eassumption]. cbn. intros ts0 r0 a Hopt. ex. eauto.
Qed.

Lemma g_field_mono ts r f : g_field d1 ts r f -> g_field d2 ts r f.
Proof. unfold g_field. intros H. ex. subst. exs; conj; eauto. Qed.

Lemma g_braced_mono {A} kw (R1 R2 : drel A) mk :
  (forall ts r a, R1 ts r a -> R2 ts r a) -> forall ts r x, g_braced kw R1 mk ts r x -> g_braced kw R2 mk ts r x.
Proof.
  intros HR ts r x H. unfold g_braced in *. ex. subst. exs; conj; eauto.
  eapply seplist_mono; eauto.
Qed.

Lemma g_resource_item_mono ts r m : g_resource_item d1 ts r m -> g_resource_item d2 ts r m.
Proof. intros H. destruct H; [eapply gri_constructor; eauto|eapply gri_method; eauto]. Qed.

Lemma g_type_decl_mono ts r x : g_type_decl d1 ts r x -> g_type_decl d2 ts r x.
Proof.
  intros H. destruct H.
  - apply gd_variant. eapply g_braced_mono; [|eassumption]. apply g_variant_case_mono.
  - apply gd_record. eapply g_braced_mono; [|eassumption]. apply g_field_mono.
  - apply gd_flags. assumption.
  - apply gd_enum. assumption.
  - eapply gd_alias_func; eauto.
  - eapply gd_alias_type; eauto.
Qed.
Local Hint Resolve g_type_decl_mono : core.

Lemma g_item_type_decl_mono ts r x : g_item_type_decl d1 ts r x -> g_item_type_decl d2 ts r x.
Proof.
  intros H. destruct H.
  - eapply gi_resource_semi; eauto.
  - eapply gi_resource_body; eauto. eapply many_mono; [|eassumption]. apply g_resource_item_mono.
  - apply gi_type_decl. auto.
Qed.
Local Hint Resolve g_item_type_decl_mono : core.

Lemma g_use_mono ts r u : g_use d1 ts r u -> g_use d2 ts r u.
Proof.
  unfold g_use. intros H. ex. subst. exs; conj; eauto.
  match goal with H : _ \/ _ |- _ => destruct H; [left; assumption|right; auto] end.
Qed.
Local Hint Resolve g_use_mono : core.

Lemma g_func_type_ref_mono ts r f : g_func_type_ref d1 ts r f -> g_func_type_ref d2 ts r f.
Proof. intros H. destruct H; [apply gfr_func; auto|apply gfr_id; auto]. Qed.
Local Hint Resolve g_func_type_ref_mono : core.

Lemma g_interface_item_mono ts r x : g_interface_item d1 ts r x -> g_interface_item d2 ts r x.
Proof.
  intros H. destruct H.
  - apply gii_use; auto.
  - apply gii_type; auto.
  - eapply gii_export; eauto.
Qed.

Lemma g_interface_body_mono ts r x : g_interface_body d1 ts r x -> g_interface_body d2 ts r x.
Proof.
  unfold g_interface_body. intros H. ex. exs; conj; eauto.
  eapply many_mono; [|eassumption]. apply g_interface_item_mono.
Qed.
Local Hint Resolve g_interface_body_mono : core.

Lemma g_inline_interface_mono ts r x : g_inline_interface d1 ts r x -> g_inline_interface d2 ts r x.
Proof. unfold g_inline_interface. intros H. ex. exs; conj; eauto. Qed.
Local Hint Resolve g_inline_interface_mono : core.

Lemma g_extern_type_mono ts r x : g_extern_type d1 ts r x -> g_extern_type d2 ts r x.
Proof. intros H. destruct H; [apply get_func|apply get_interface|apply get_id]; auto. Qed.
Local Hint Resolve g_extern_type_mono : core.

Lemma g_world_item_path_mono ts r x : g_world_item_path d1 ts r x -> g_world_item_path d2 ts r x.
Proof. intros H. destruct H; [eapply gwp_named; eauto|apply gwp_package; auto|apply gwp_id; auto]. Qed.
Local Hint Resolve g_world_item_path_mono : core.

Lemma g_world_item_mono ts r x : g_world_item d1 ts r x -> g_world_item d2 ts r x.
Proof.
  intros H. destruct H.
  - apply gwi_use; auto.
  - apply gwi_type; auto.
  - eapply gwi_import; eauto.
  - eapply gwi_export; eauto.
  - eapply gwi_include; eauto. eapply opt_mono; [|eassumption]. cbn. intros ts0 r0 a Hopt. ex.
    exs; conj; eauto.
    match goal with H : _ \/ _ |- _ => destruct H; [left; assumption|right; auto] end.
Qed.

Lemma g_type_statement_mono ts r x : g_type_statement d1 ts r x -> g_type_statement d2 ts r x.
Proof.
  intros H. destruct H.
  - eapply gts_interface; eauto.
  - eapply gts_world; eauto. eapply many_mono; [|eassumption]. apply g_world_item_mono.
  - apply gts_type; auto.
Qed.
Local Hint Resolve g_type_statement_mono : core.

Lemma g_expr_mono :
  (forall ts r x, g_expr d1 ts r x -> g_expr d2 ts r x) /\
  (forall ts r x, g_primary d1 ts r x -> g_primary d2 ts r x) /\
  (forall ts r x, g_args d1 ts r x -> g_args d2 ts r x) /\
  (forall ts r x, g_arg d1 ts r x -> g_arg d2 ts r x).
Proof.
  apply (g_expr_all_ind d1 (fun ts r x => g_expr d2 ts r x) (fun ts r x => g_primary d2 ts r x)
                           (fun ts r x => g_args d2 ts r x) (fun ts r x => g_arg d2 ts r x)); intros.
  - eapply ge_expr; eauto.
  - eapply gp_new; eauto. now apply args_ok_mono.
  - eapply gp_nested; eauto.
  - apply gp_id; auto.
  - apply ga_nil.
  - apply ga_one; auto.
  - eapply ga_trail; eauto.
  - eapply ga_cons; eauto.
  - apply gar_inferred; auto.
  - eapply gar_spread; eauto.
  - eapply gar_named; eauto.
  - apply gar_fill; auto.
Qed.

Lemma g_expr_mono1 ts r x : g_expr d1 ts r x -> g_expr d2 ts r x.
Proof. apply g_expr_mono. Qed.
Local Hint Resolve g_expr_mono1 : core.

Lemma g_import_type_mono ts r x : g_import_type d1 ts r x -> g_import_type d2 ts r x.
Proof. intros H. destruct H; [apply git_package|apply git_func|apply git_interface|apply git_id]; auto. Qed.
Local Hint Resolve g_import_type_mono : core.

Lemma g_statement_mono ts r x : g_statement d1 ts r x -> g_statement d2 ts r x.
Proof.
  intros H. destruct H.
  - eapply gs_import; eauto.
  - apply gs_type; auto.
  - eapply gs_let; eauto.
  - eapply gs_export; eauto.
Qed.

Lemma g_document_mono ts r doc : g_document d1 ts r doc -> g_document d2 ts r doc.
Proof.
  unfold g_document. intros H. ex. subst. exs; conj; eauto.
  eapply many_mono; [|eassumption]. apply g_statement_mono.
Qed.

End Mono.

(** The tree of a whole-stream derivation is unique, for any token stream. *)
Lemma g_document_unique d ts doc1 doc2 : g_document d ts [] doc1 -> g_document d ts [] doc2 -> doc1 = doc2.
Proof.
  intros H1 H2.
  set (e := {| dv := d; cx := {| eof_tok := {| off := 0; slen := 0 |}; eof_la := {| off := 0; slen := 0 |} |};
               fuel := S (length ts) |}).
  pose proof (parse_document_items_complete e ts doc1 H1 ltac:(cbn; lia)) as P1.
  pose proof (parse_document_items_complete e ts doc2 H2 ltac:(cbn; lia)) as P2.
  congruence.
Qed.

(** [impl_vs_doc_agree_outside_deviations]: a token stream derivable without any deviation is derivable
    in the documented grammar and in the implemented one, each derives exactly one tree from it, and
    it is the same tree. *)
Lemma agree_outside_deviations ts doc :
  g_document core_flags ts [] doc ->
  g_document doc_flags ts [] doc /\ g_document impl_flags ts [] doc /\
  (forall doc', g_document doc_flags ts [] doc' -> doc' = doc) /\
  (forall doc', g_document impl_flags ts [] doc' -> doc' = doc).
Proof.
  intros H.
  pose proof (g_document_mono core_flags doc_flags (core_le _) _ _ _ H) as Hd.
  pose proof (g_document_mono core_flags impl_flags (core_le _) _ _ _ H) as Hi.
  repeat split; auto; intros doc' H'; eapply g_document_unique; eauto.
Qed.
