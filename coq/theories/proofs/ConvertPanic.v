(** Which panics the conversion can raise.

    On a well-typed validator graph ([ConvertSpec.wt_graph_b]: reference sorts, unique item names) the conversion never
    indexes an arena out of range, never finds an entry of the wrong kind in its cache and never inserts an item twice:
    [PBadIndex], [PInvalidCached], [PDupItem] are impossible.  What remains is
      [PDupOwner]          [use_or_own]'s [assert!(prev.is_none())]  (finding F1), and
      [PExpectedResource]  a handle [own r] / [borrow r] whose resource has not been converted. *)
From Coq Require Import Lia.
From WacV Require Import Str Types CheckerEq CheckerValue CheckerProofs Convert ConvertSpec ConvertProofs ConvertFrame ConvertTree
                         ConvertEntity ConvertCache ConvertIds.
Set Warnings "-unused-intro-pattern".

Definition mild {A} (x : cres A) : Prop :=
  match x with CPanic PInvalidCached | CPanic PBadIndex | CPanic PDupItem => False | _ => True end.
Lemma mild_bind {A B} (x : cres A) (f : A -> cres B) : mild x -> (forall a, x = COk a -> mild (f a)) -> mild (bind x f).
Proof. destruct x; cbn [bind]; intros H1 H2; auto. Qed.
Lemma mild_ok {A} (a : A) : mild (COk a).
Proof. exact I. Qed.

Lemma nodup_names_sound l : nodup_names l = true -> NoDup l.
Proof.
  induction l as [|x l IH]; cbn [nodup_names]; [constructor|]. intro H. apply andb_prop in H as [H1 H2].
  constructor; [|auto]. intro Hin. apply negb_true_iff in H1. assert (existsb (str_eqb x) l = true); [|congruence].
  apply existsb_exists. exists x. split; [exact Hin | apply str_eqb_refl].
Qed.
Lemma nassoc_in {B} k (l : list (nat * B)) v : nassoc k l = Some v -> In (k, v) l.
Proof.
  induction l as [|[k' v'] l IH]; cbn [nassoc]; [discriminate|].
  destruct (Nat.eqb k k') eqn:E; [apply Nat.eqb_eq in E; intro H; injection H as <-; subst; now left | right; auto].
Qed.

(** * Conversions leave every slot they did not allocate alone -- unconditionally *)
Section Frame.
  Variable g : vgraph.
  Definition fr_ok {R} (F : cstate -> cres (R * cstate)) : Prop :=
    forall s r s', F s = COk (r, s') -> agree [] (cs_types s) (cs_types s').
  Lemma mapM_fr {A B} (f : A -> cstate -> cres (B * cstate)) : (forall a, fr_ok (f a)) -> forall l, fr_ok (mapM f l).
  Proof.
    intros Hf. induction l as [|a l IH]; intros s r s' H; cbn [mapM] in H; [injection H as <- <-; apply agree_refl|].
    inv_bind H as [y s1] H1. inv_bind H as [ys s2] H2. injection H as <- <-.
    eapply agree_trans; [exact (Hf a _ _ _ H1) | exact (IH _ _ _ H2)].
  Qed.
  Lemma optM_fr {A B} (f : A -> cstate -> cres (B * cstate)) : (forall a, fr_ok (f a)) -> forall o, fr_ok (optM f o).
  Proof.
    intros Hf [a|] s r s' H; cbn [optM] in H; [|injection H as <- <-; apply agree_refl].
    inv_bind H as [y s1] H1. injection H as <- <-. exact (Hf a _ _ _ H1).
  Qed.
  Lemma named_fr {K A B} (f : A -> cstate -> cres (B * cstate)) : (forall a, fr_ok (f a)) -> forall kv : K * A, fr_ok (named f kv).
  Proof. intros Hf kv s r s' H. unfold named in H. inv_bind H as [y s1] H1. injection H as <- <-. exact (Hf _ _ _ _ H1). Qed.
  Lemma mk_def_fr d : fr_ok (mk_def d).
  Proof. intros s r s' H. unfold mk_def in H. injection H as <- <-. apply (agree_add_def (cs_types s) d). Qed.
  Lemma val_body_fr R v : (forall d, fr_ok (R d)) -> fr_ok (val_body R v).
  Proof. intros HR. destruct v as [p|d]; cbn [val_body]; [|apply HR]. intros s r s' H. injection H as <- <-. apply agree_refl. Qed.
  Lemma defined_body_fr R d : (forall d, fr_ok (R d)) -> fr_ok (defined_body R g d).
  Proof.
    intros HR s r s' H. unfold defined_body in H.
    destruct (nassoc d (cs_cache s)) as [[[ | |x| | | ]|]|]; try discriminate; [injection H as <- <-; apply agree_refl|].
    destruct (node_of g d) as [[nd| | | | | ]|]; try discriminate.
    inv_bind H as [v s1] H1. injection H as <- <-. cbn [cache_put cs_types].
    pose proof (val_body_fr R) as HV.
    destruct nd as [p|fs|cs|x|k x|x n|l|l|l|x|o e|r0|r0|o|o]; try discriminate;
      try (exact (mk_def_fr _ _ _ _ H1));
      try (inv_bind H1 as [a s0] H0; injection H1 as <- <-; apply agree_refl).
    - inv_bind H1 as [a s0] H0. eapply agree_trans; [|exact (mk_def_fr _ _ _ _ H1)].
      exact (mapM_fr _ (named_fr _ (fun v => HV v HR)) _ _ _ _ H0).
    - inv_bind H1 as [a s0] H0. eapply agree_trans; [|exact (mk_def_fr _ _ _ _ H1)].
      exact (mapM_fr _ (named_fr _ (optM_fr _ (fun v => HV v HR))) _ _ _ _ H0).
    - inv_bind H1 as [a s0] H0. eapply agree_trans; [|exact (mk_def_fr _ _ _ _ H1)]. exact (HV _ HR _ _ _ H0).
    - inv_bind H1 as [a s0] H0. eapply agree_trans; [|exact (mk_def_fr _ _ _ _ H1)]. exact (HV _ HR _ _ _ H0).
    - inv_bind H1 as [a s0] H0. eapply agree_trans; [|exact (mk_def_fr _ _ _ _ H1)]. exact (mapM_fr _ (fun v => HV v HR) _ _ _ _ H0).
    - inv_bind H1 as [a s0] H0. eapply agree_trans; [|exact (mk_def_fr _ _ _ _ H1)]. exact (HV _ HR _ _ _ H0).
    - inv_bind H1 as [a s0] H0. inv_bind H1 as [b s00] H00.
      eapply agree_trans; [exact (optM_fr _ (fun v => HV v HR) _ _ _ _ H0)|].
      eapply agree_trans; [exact (optM_fr _ (fun v => HV v HR) _ _ _ _ H00) | exact (mk_def_fr _ _ _ _ H1)].
    - inv_bind H1 as [a s0] H0. eapply agree_trans; [|exact (mk_def_fr _ _ _ _ H1)]. exact (optM_fr _ (fun v => HV v HR) _ _ _ _ H0).
    - inv_bind H1 as [a s0] H0. eapply agree_trans; [|exact (mk_def_fr _ _ _ _ H1)]. exact (optM_fr _ (fun v => HV v HR) _ _ _ _ H0).
  Qed.
  Lemma c_defined_fr : forall fuel d, fr_ok (c_defined fuel g d).
  Proof. induction fuel as [|f IH]; intros d; [intros s r s' H; discriminate|]. cbn [c_defined]. apply defined_body_fr. exact IH. Qed.
  Lemma c_val_fr fuel v : fr_ok (c_val fuel g v).
  Proof. unfold c_val. apply val_body_fr. apply c_defined_fr. Qed.
  Lemma c_func_fr fuel v : fr_ok (c_func fuel g v).
  Proof.
    intros s r s' H. unfold c_func in H.
    destruct (nassoc v (cs_cache s)) as [[[ |f0| | | | ]|]|]; try discriminate; [injection H as <- <-; apply agree_refl|].
    destruct (node_of g v) as [[ |a ps r0| | | | ]|]; try discriminate.
    inv_bind H as [ps' s1] H1. inv_bind H as [r' s2] H2. unfold add_func in H. injection H as <- <-.
    eapply agree_trans; [exact (mapM_fr _ (named_fr _ (c_val_fr fuel)) _ _ _ _ H1)|].
    eapply agree_trans; [exact (optM_fr _ (c_val_fr fuel) _ _ _ _ H2)|]. apply (agree_add_func (cs_types s2)).
  Qed.
  Lemma c_module_fr v : fr_ok (c_module g v).
  Proof.
    intros s r s' H. unfold c_module in H.
    destruct (nassoc v (cs_cache s)) as [[[ | | | | |m0]|]|]; try discriminate; [injection H as <- <-; apply agree_refl|].
    destruct (node_of g v) as [[ | | | | |[mt|]]|]; try discriminate. unfold add_mod in H. injection H as <- <-.
    apply (agree_add_mod (cs_types s)).
  Qed.
  Lemma c_resource_fr hf name v : fr_ok (c_resource hf g name v).
  Proof.
    intros s r s' H. unfold c_resource in H.
    destruct (nassoc v (cs_cache s)) as [[|r0]|]; try discriminate; [injection H as <- <-; apply agree_refl|].
    destruct (node_of g v) as [[ | | | |rid| ]|]; try discriminate.
    destruct (nassoc rid (cs_resmap s)) as [src|].
    - destruct (find_owner hf g (cs_owners s) v) as [o|]; [|discriminate]. unfold add_res in H. injection H as <- <-.
      apply (agree_add_res (cs_types s)).
    - unfold add_res in H. injection H as <- <-. apply (agree_add_res (cs_types s)).
  Qed.

  Lemma put_if_export_agree me n k s s' : put_if_export me n k s = COk s' -> agree [(true, id_idx me)] (cs_types s) (cs_types s').
  Proof.
    unfold put_if_export. destruct (get_if _ _); [|discriminate]. destruct (assoc _ _); [discriminate|].
    destruct (upd_if _ _ _) as [t|] eqn:E; [|discriminate]. intro H. injection H as <-. eapply agree_upd_if; [exact E | left; now left].
  Qed.
  Lemma put_world_import_agree me n k s s' : put_world_import me n k s = COk s' -> agree [(false, id_idx me)] (cs_types s) (cs_types s').
  Proof.
    unfold put_world_import. destruct (get_world _ _); [|discriminate]. destruct (assoc _ _); [discriminate|].
    destruct (upd_world _ _ _) as [t|] eqn:E; [|discriminate]. intro H. injection H as <-. eapply agree_upd_world; [exact E | left; now left].
  Qed.
  Lemma put_world_export_agree me n k s s' : put_world_export me n k s = COk s' -> agree [(false, id_idx me)] (cs_types s) (cs_types s').
  Proof.
    unfold put_world_export. destruct (get_world _ _); [|discriminate]. destruct (assoc _ _); [discriminate|].
    destruct (upd_world _ _ _) as [t|] eqn:E; [|discriminate]. intro H. injection H as <-. eapply agree_upd_world; [exact E | left; now left].
  Qed.

  Section Bodies.
    Variable hf : nat.
    Variable E : str -> vent -> cstate -> cres (kind * cstate).
    Hypothesis HE : forall n e, fr_ok (E n e).
    Lemma inst_loop_fr vn me : forall l s s', inst_loop hf g E vn me l s = COk s' -> agree [(true, id_idx me)] (cs_types s) (cs_types s').
    Proof.
      induction l as [|[n e] l IH]; intros s s' H; cbn [inst_loop] in H; [injection H as <-; apply agree_refl|].
      inv_bind H as [k s1] H1. inv_bind H as s2 H2. inv_bind H as s3 H3.
      eapply agree_trans; [apply agree_nil; exact (HE _ _ _ _ _ H1)|].
      eapply agree_trans; [|eapply agree_trans; [exact (put_if_export_agree _ _ _ _ _ H3) | exact (IH _ _ H)]].
      apply agree_nil. destruct e as [ | | |rf cr| | ]; try (injection H2 as <-; apply agree_refl).
      inv_bind H2 as sa Ha. eapply agree_trans; [exact (proj1 (use_or_own_frame g _ _ _ _ _ _ _ _ Ha)) | exact (proj1 (reset_self_owner_frame _ _ _ _ H2))].
    Qed.
    Lemma instance_body_fr name v : fr_ok (instance_body hf g E name v).
    Proof.
      intros s r s' H. unfold instance_body in H.
      destruct (nassoc v (cs_cache s)) as [[[ | | |i0| | ]|]|]; try discriminate; [injection H as <- <-; apply agree_refl|].
      destruct (node_of g v) as [[ | |exports| | | ]|]; try discriminate.
      unfold add_if in H. inv_bind H as s1 H1. injection H as <- <-. cbn [cache_put cs_types].
      eapply agree_close_if; [apply (agree_add_if (cs_types s) (mkif (iface_id_of name) [] []))|]. exact (inst_loop_fr _ _ _ _ _ H1).
    Qed.
    Lemma comp_imports_fr vn me : forall l s s', comp_imports hf g E vn me l s = COk s' -> agree [(false, id_idx me)] (cs_types s) (cs_types s').
    Proof.
      induction l as [|[n e] l IH]; intros s s' H; cbn [comp_imports] in H; [injection H as <-; apply agree_refl|].
      inv_bind H as [k s1] H1. inv_bind H as s2 H2. inv_bind H as s3 H3.
      eapply agree_trans; [apply agree_nil; exact (HE _ _ _ _ _ H1)|].
      eapply agree_trans; [|eapply agree_trans; [exact (put_world_import_agree _ _ _ _ _ H3) | exact (IH _ _ H)]].
      apply agree_nil. destruct e as [ | | |rf cr| | ]; try (injection H2 as <-; apply agree_refl).
      exact (proj1 (use_or_own_frame g _ _ _ _ _ _ _ _ H2)).
    Qed.
    Lemma comp_exports_fr me : forall l s s', comp_exports E me l s = COk s' -> agree [(false, id_idx me)] (cs_types s) (cs_types s').
    Proof.
      induction l as [|[n e] l IH]; intros s s' H; cbn [comp_exports] in H; [injection H as <-; apply agree_refl|].
      inv_bind H as [k s1] H1. inv_bind H as s3 H3.
      eapply agree_trans; [apply agree_nil; exact (HE _ _ _ _ _ H1)|].
      eapply agree_trans; [exact (put_world_export_agree _ _ _ _ _ H3) | exact (IH _ _ H)].
    Qed.
    Lemma component_body_fr name v : fr_ok (component_body hf g E name v).
    Proof.
      intros s r s' H. unfold component_body in H.
      destruct (nassoc v (cs_cache s)) as [[[ | | | |w0| ]|]|]; try discriminate; [injection H as <- <-; apply agree_refl|].
      destruct (node_of g v) as [[ | | |imports exports| | ]|]; try discriminate.
      unfold add_world in H. inv_bind H as s1 H1. inv_bind H as s2 H2. injection H as <- <-. cbn [cache_put cs_types].
      eapply agree_close_world; [apply (agree_add_world (cs_types s) (mkworld (iface_id_of name) [] [] []))|].
      eapply agree_trans; [exact (comp_imports_fr _ _ _ _ _ H1) | exact (comp_exports_fr _ _ _ _ H2)].
    Qed.
    Lemma entity_body_fr n e : fr_ok (entity_body hf g E n e).
    Proof.
      intros s r s' H. unfold entity_body in H.
      destruct e as [m|v|v|rf cr|i|c]; inv_bind H as [x s1] H1; injection H as <- <-.
      - exact (c_module_fr m _ _ _ H1).
      - exact (c_func_fr hf v _ _ _ H1).
      - exact (c_val_fr hf v _ _ _ H1).
      - unfold ty_body in H1. destruct (node_of g cr) as [[d|a ps r0|ex|im ex|rid|mm]|]; try discriminate;
          inv_bind H1 as [y s2] H2; injection H1 as <- <-.
        + exact (c_defined_fr hf cr _ _ _ H2).
        + exact (c_func_fr hf cr _ _ _ H2).
        + exact (instance_body_fr None cr _ _ _ H2).
        + exact (component_body_fr None cr _ _ _ H2).
        + exact (c_resource_fr hf n cr _ _ _ H2).
      - exact (instance_body_fr (Some n) i _ _ _ H1).
      - exact (component_body_fr (Some n) c _ _ _ H1).
    Qed.
  End Bodies.
  Lemma c_entity_fr hf : forall fuel n e, fr_ok (c_entity hf fuel g n e).
  Proof. induction fuel as [|f IH]; intros n e; [intros s r s' H; discriminate|]. cbn [c_entity]. apply entity_body_fr. exact IH. Qed.
End Frame.

(** * Progress *)
Section Progress.
  Variable g : vgraph.
  Hypothesis WT : wt_graph_b g = true.

  Lemma wt_node_of v n : node_of g v = Some n -> wt_node g n = true.
  Proof.
    unfold node_of. destruct (nth_error (vg_nodes g) v) as [[n' p]|] eqn:E; [|discriminate]. intro H. injection H as <-.
    unfold wt_graph_b in WT. apply andb_prop in WT as [W _]. apply andb_prop in W as [W _].
    rewrite forallb_forall in W. exact (W _ (nth_error_In _ _ E)).
  Qed.

  Definition pg {R} (F : cstate -> cres (R * cstate)) : Prop := forall s, ids_inv g s -> mild (F s).

  Lemma mapM_pg {A B} (f : A -> cstate -> cres (B * cstate)) : forall l,
    (forall a, In a l -> pg (f a)) -> (forall a, id_ok g (f a)) -> pg (mapM f l).
  Proof.
    induction l as [|a l IH]; intros Hp Hi s I; cbn [mapM]; [exact Logic.I|].
    apply mild_bind; [apply Hp; [now left | exact I]|]. intros [y s1] H1.
    apply mild_bind; [|intros [ys s2] _; exact Logic.I]. apply IH; [intros x Hx; apply Hp; now right | exact Hi|].
    exact (proj1 (Hi a _ _ _ I H1)).
  Qed.
  Lemma optM_pg {A B} (f : A -> cstate -> cres (B * cstate)) o : (forall a, o = Some a -> pg (f a)) -> pg (optM f o).
  Proof.
    intros Hp s I. destruct o as [a|]; cbn [optM]; [|exact Logic.I]. apply mild_bind; [now apply Hp|]. intros [y s1] _. exact Logic.I.
  Qed.
  Lemma named_pg {K A B} (f : A -> cstate -> cres (B * cstate)) (kv : K * A) : pg (f (snd kv)) -> pg (named f kv).
  Proof. intros Hp s I. unfold named. apply mild_bind; [now apply Hp|]. intros [y s1] _. exact Logic.I. Qed.

  Lemma hit_kind s v e : ids_inv g s -> nassoc v (cs_cache s) = Some e -> node_matches (node_of g v) e.
  Proof. intros I H. exact (iv_kind _ _ I _ _ (nassoc_in _ _ _ H)). Qed.

  Section DefBody.
    Variable R : vid -> cstate -> cres (valtype * cstate).
    Hypothesis HRp : forall d, is_def g d = true -> pg (R d).
    Hypothesis HRi : forall d, id_ok g (R d).

    Lemma val_body_pg v : wt_val g v = true -> pg (val_body R v).
    Proof. intros W. destruct v as [p|d]; cbn [val_body]; [intros s _; exact Logic.I | now apply HRp]. Qed.
    Lemma mk_def_pg d s : mild (mk_def d s).
    Proof. exact Logic.I. Qed.

    Lemma defined_body_pg d : is_def g d = true -> pg (defined_body R g d).
    Proof.
      intros Hd s I. unfold defined_body. unfold is_def in Hd.
      destruct (node_of g d) as [[nd| | | | | ]|] eqn:En; try discriminate.
      destruct (nassoc d (cs_cache s)) as [e|] eqn:Ec.
      { pose proof (hit_kind _ _ _ I Ec) as K. rewrite En in K. destruct e as [[ | |x| | | ]|]; try contradiction. exact Logic.I. }
      pose proof (wt_node_of _ _ En) as W. cbn [wt_node] in W.
      apply mild_bind; [|intros [v s1] _; exact Logic.I].
      pose proof (val_body_id g R HRi) as VI.
      destruct nd as [p|fs|cs|x|k x|x n|l|l|l|x|o e|r0|r0|o|o]; cbn [wt_def] in W; try exact Logic.I.
      - apply mild_bind; [|intros [a s0] _; exact Logic.I]. apply mapM_pg; [|intro a; apply named_id; exact VI|exact I].
        intros a Ha. apply named_pg. apply val_body_pg. rewrite forallb_forall in W. exact (W a Ha).
      - apply mild_bind; [|intros [a s0] _; exact Logic.I]. apply mapM_pg; [|intro a; apply named_id; apply optM_id; exact VI|exact I].
        intros a Ha. apply named_pg. apply optM_pg. intros y Hy. apply val_body_pg. rewrite forallb_forall in W. specialize (W a Ha).
        cbn beta in W. rewrite Hy in W. exact W.
      - apply mild_bind; [|intros [a s0] _; exact Logic.I]. now apply val_body_pg.
      - apply mild_bind; [|intros [a s0] _; exact Logic.I]. now apply val_body_pg.
      - apply mild_bind; [|intros [a s0] _; exact Logic.I]. apply mapM_pg; [|exact VI|exact I].
        intros a Ha. apply val_body_pg. rewrite forallb_forall in W. exact (W a Ha).
      - apply mild_bind; [|intros [a s0] _; exact Logic.I]. now apply val_body_pg.
      - apply andb_prop in W as [W1 W2]. apply mild_bind.
        + apply optM_pg; [|exact I]. intros y ->. now apply val_body_pg.
        + intros [a s0] H0. apply mild_bind; [|intros [b s00] _; exact Logic.I]. apply optM_pg.
          * intros y ->. now apply val_body_pg.
          * exact (proj1 (optM_id g _ VI _ _ _ _ I H0)).
      - unfold res_of_cache. destruct (nassoc r0 (cs_cache s)) as [[|]|]; exact Logic.I.
      - unfold res_of_cache. destruct (nassoc r0 (cs_cache s)) as [[|]|]; exact Logic.I.
      - apply mild_bind; [|intros [a s0] _; exact Logic.I]. apply optM_pg; [|exact I]. intros y ->. now apply val_body_pg.
      - apply mild_bind; [|intros [a s0] _; exact Logic.I]. apply optM_pg; [|exact I]. intros y ->. now apply val_body_pg.
    Qed.
  End DefBody.

  Lemma c_defined_pg : forall fuel d, is_def g d = true -> pg (c_defined fuel g d).
  Proof.
    induction fuel as [|f IH]; intros d Hd; [intros s _; exact Logic.I|]. cbn [c_defined].
    apply defined_body_pg; [exact IH | apply c_defined_id | exact Hd].
  Qed.
  Lemma c_val_pg fuel v : wt_val g v = true -> pg (c_val fuel g v).
  Proof. intro W. unfold c_val. apply val_body_pg; [intros d Hd; now apply c_defined_pg | exact W]. Qed.

  Lemma c_func_pg fuel v : is_func g v = true -> pg (c_func fuel g v).
  Proof.
    intros Hv s I. unfold c_func. unfold is_func in Hv.
    destruct (node_of g v) as [[ |a ps r0| | | | ]|] eqn:En; try discriminate.
    destruct (nassoc v (cs_cache s)) as [e|] eqn:Ec.
    { pose proof (hit_kind _ _ _ I Ec) as K. rewrite En in K. destruct e as [[ |f0| | | | ]|]; try contradiction. exact Logic.I. }
    pose proof (wt_node_of _ _ En) as W. cbn [wt_node] in W. apply andb_prop in W as [W1 W2].
    apply mild_bind.
    - apply mapM_pg; [|intro x; apply named_id; apply c_val_id|exact I]. intros x Hx. apply named_pg. apply c_val_pg.
      rewrite forallb_forall in W1. exact (W1 x Hx).
    - intros [ps' s1] H1. apply mild_bind; [|intros [r' s2] _; exact Logic.I]. apply optM_pg.
      + intros y ->. now apply c_val_pg.
      + exact (proj1 (mapM_id g _ (named_id g _ (c_val_id g fuel)) _ _ _ _ I H1)).
  Qed.
  Lemma c_module_pg v : is_mod g v = true -> pg (c_module g v).
  Proof.
    intros Hv s I. unfold c_module. unfold is_mod in Hv.
    destruct (node_of g v) as [[ | | | | |mt]|] eqn:En; try discriminate.
    destruct (nassoc v (cs_cache s)) as [e|] eqn:Ec.
    { pose proof (hit_kind _ _ _ I Ec) as K. rewrite En in K. destruct e as [[ | | | | |m0]|]; try contradiction. exact Logic.I. }
    destruct mt; exact Logic.I.
  Qed.
  Lemma c_resource_pg hf name v : is_res g v = true -> pg (c_resource hf g name v).
  Proof.
    intros Hv s I. unfold c_resource. unfold is_res in Hv.
    destruct (node_of g v) as [[ | | | |rid| ]|] eqn:En; try discriminate.
    destruct (nassoc v (cs_cache s)) as [e|] eqn:Ec.
    { pose proof (hit_kind _ _ _ I Ec) as K. rewrite En in K. destruct e as [|r0]; try contradiction. exact Logic.I. }
    destruct (nassoc rid (cs_resmap s)); [|exact Logic.I]. destruct (find_owner hf g (cs_owners s) v); exact Logic.I.
  Qed.

  (** a converted resource is in range *)
  Lemma c_resource_valid hf name v s r s' : ids_inv g s -> c_resource hf g name v s = COk (r, s') -> get_res (cs_types s') r <> None.
  Proof.
    intros I H. destruct (c_resource_id g hf name v _ _ _ I H) as [I' _].
    pose proof (c_resource_fills g hf name v _ _ _ H) as F. apply nassoc_in in F.
    pose proof (iv_valid _ _ I' _ _ F) as V. unfold valid_ent in V. cbn [ent_slot arena_len] in V. destruct V as [V1 V2].
    unfold get_res, lookup. rewrite V1, N.eqb_refl. apply nth_error_Some. exact V2.
  Qed.

  Definition kind_ok (t : types) (k : kind) : Prop :=
    match k with KType (TResource r) => get_res t r <> None | _ => True end.

  Lemma upd_if_some t i f x : get_if t i = Some x -> upd_if t i f <> None.
  Proof. unfold upd_if. intros ->. discriminate. Qed.
  Lemma upd_world_some t i f x : get_world t i = Some x -> upd_world t i f <> None.
  Proof. unfold upd_world. intros ->. discriminate. Qed.

  Lemma use_or_own_mild hf vn ow name rf cr s :
    (match ow with OwIface me => get_if (cs_types s) me <> None | OwWorld me => get_world (cs_types s) me <> None end) ->
    mild (use_or_own hf g vn ow name rf cr s).
  Proof.
    intros Hs. unfold use_or_own. destruct (find_owner hf g (cs_owners s) rf) as [[[other orig]|]|]; [| |exact Logic.I].
    - apply mild_bind; [|intros; exact Logic.I]. destruct other as [i|w]; [|exact Logic.I].
      destruct (owner_eqb ow (OwIface i)); [exact Logic.I|]. destruct ow as [me|me].
      + destruct (get_if (cs_types s) me) as [x|] eqn:Ex; [|contradiction]. pose proof (upd_if_some _ _ (fun x0 => mkif (i_id x0) (imap_insert name (i, if str_eqb name orig then None else Some orig) (i_uses x0)) (i_exports x0)) _ Ex) as U.
        destruct (upd_if _ _ _); [exact Logic.I | contradiction].
      + destruct (get_world (cs_types s) me) as [x|] eqn:Ex; [|contradiction]. pose proof (upd_world_some _ _ (fun x0 => mkworld (w_id x0) (imap_insert name (i, if str_eqb name orig then None else Some orig) (w_uses x0)) (w_imports x0) (w_exports x0)) _ Ex) as U.
        destruct (upd_world _ _ _); [exact Logic.I | contradiction].
    - destruct (nassoc cr (cs_owners s)); exact Logic.I.
  Qed.
  Lemma reset_self_owner_mild me k s : kind_ok (cs_types s) k -> mild (reset_self_owner me k s).
  Proof.
    intros Hk. unfold reset_self_owner. destruct k as [[res| | | | | ]| | | | | ]; try exact Logic.I. cbn [kind_ok] in Hk.
    destruct (get_res (cs_types s) res) as [r|] eqn:Er; [|contradiction].
    destruct (res_alias r) as [[[o|] src]|]; try exact Logic.I. destruct (id_eqb o me); [|exact Logic.I].
    unfold upd_res. rewrite Er. exact Logic.I.
  Qed.

  Section Bodies.
    Variable hf : nat.
    Variable E : str -> vent -> cstate -> cres (kind * cstate).
    Hypothesis HEp : forall n e, wt_ent g e = true -> pg (E n e).
    Hypothesis HEi : forall n e, id_ok g (E n e).
    Hypothesis HEf : forall n e, fr_ok (E n e).
    Hypothesis HEk : forall n e s k s', ids_inv g s -> E n e s = COk (k, s') -> kind_ok (cs_types s') k.

    Lemma inst_loop_pg vn me : forall l done s x,
      ids_inv g s -> get_if (cs_types s) me = Some x -> map fst (i_exports x) = map fst done ->
      NoDup (map fst (done ++ l)) -> forallb (fun kv => wt_ent g (snd kv)) l = true ->
      mild (inst_loop hf g E vn me l s).
    Proof.
      induction l as [|[n e] l IH]; intros done s x I Hx Hk Hnd Hw; cbn [inst_loop]; [exact Logic.I|].
      cbn [forallb snd] in Hw. apply andb_prop in Hw as [We Wl].
      apply mild_bind; [now apply HEp|]. intros [k s1] H1.
      destruct (HEi _ _ _ _ _ I H1) as [I1 _]. pose proof (HEf _ _ _ _ _ H1) as A1.
      destruct (agree_get_if _ _ _ A1 _ _ Hx (fun F => F)) as [x1 [Hx1 Ex1]].
      pose proof (HEk _ _ _ _ _ I H1) as K1.
      apply mild_bind.
      { destruct e as [ | | |rf cr| | ]; try exact Logic.I. apply mild_bind; [apply use_or_own_mild; congruence|].
        intros sa Ha. apply reset_self_owner_mild. destruct (use_or_own_frame g _ _ _ _ _ _ _ _ Ha) as [Aa _].
        destruct k as [[res| | | | | ]| | | | | ]; try exact Logic.I. cbn [kind_ok] in *.
        destruct (get_res (cs_types s1) res) as [r|] eqn:Er; [|contradiction].
        destruct (agree_get_res _ _ _ Aa _ _ Er) as [r' [-> _]]. discriminate. }
      intros s2 H2.
      assert (X : ids_inv g s2 /\ agree [] (cs_types s1) (cs_types s2)).
      { destruct e as [ | | |rf cr| | ]; try (injection H2 as <-; split; [exact I1 | apply agree_refl]).
        inv_bind H2 as sa Ha. destruct (use_or_own_frame g _ _ _ _ _ _ _ _ Ha) as [Aa Ca].
        destruct (agree_step g _ _ _ Aa Ca (use_or_own_resmap g _ _ _ _ _ _ _ _ Ha) I1) as [Ia _].
        destruct (reset_self_owner_frame _ _ _ _ H2) as [Ab Cb].
        destruct (agree_step g _ _ _ Ab Cb (reset_self_owner_resmap _ _ _ _ H2) Ia) as [Ib _].
        split; [exact Ib | eapply agree_trans; eassumption]. }
      destruct X as [I2 A2]. destruct (agree_get_if _ _ _ A2 _ _ Hx1 (fun F => F)) as [x2 [Hx2 Ex2]].
      assert (Hfresh : assoc n (i_exports x2) = None).
      { apply assoc_none. unfold Types.keys. rewrite Ex2, Ex1, Hk. rewrite map_app in Hnd. cbn [map fst] in Hnd.
        intro Hin. apply (NoDup_remove_2 _ _ _ Hnd). apply in_or_app. now left. }
      apply mild_bind.
      { unfold put_if_export. rewrite Hx2, Hfresh. pose proof (upd_if_some _ _ (fun x0 => mkif (i_id x0) (i_uses x0) (i_exports x0 ++ [(n, k)])) _ Hx2) as U.
        destruct (upd_if _ _ _); [exact Logic.I | contradiction]. }
      intros s3 H3. destruct (put_if_export_frame _ _ _ _ _ _ H3 Hx2) as [A3 [C3 [x3 [Hx3 Ex3]]]].
      assert (I3 : ids_inv g s3).
      { apply (agree_step g [(true, id_idx me)] s2 s3 A3 C3); [|exact I2].
        unfold put_if_export in H3. rewrite Hx2, Hfresh in H3. destruct (upd_if _ _ _); [|discriminate]. injection H3 as <-. reflexivity. }
      apply (IH (done ++ [(n, e)]) s3 x3 I3 Hx3); [|now rewrite <- app_assoc|exact Wl].
      rewrite Ex3, Ex2, Ex1, !map_app, Hk. reflexivity.
    Qed.

    Lemma instance_body_pg name v : is_inst g v = true -> pg (instance_body hf g E name v).
    Proof.
      intros Hv s I. unfold instance_body. unfold is_inst in Hv.
      destruct (node_of g v) as [[ | |exports| | | ]|] eqn:En; try discriminate.
      destruct (nassoc v (cs_cache s)) as [e|] eqn:Ec.
      { pose proof (hit_kind _ _ _ I Ec) as K. rewrite En in K. destruct e as [[ | | |i0| | ]|]; try contradiction. exact Logic.I. }
      pose proof (wt_node_of _ _ En) as W. cbn [wt_node] in W. unfold wt_items in W. apply andb_prop in W as [W1 W2].
      unfold add_if. apply mild_bind; [|intros; exact Logic.I].
      set (t0 := mktypes _ _ _ _ _ _ _). set (me := mkid _ _).
      assert (A0 : agree [] (cs_types s) t0) by apply (agree_add_if (cs_types s) (mkif (iface_id_of name) [] [])).
      destruct (agree_step g [] s (with_types s t0) A0 eq_refl eq_refl I) as [I0 _].
      apply (inst_loop_pg v me exports [] (with_types s t0) (mkif (iface_id_of name) [] [])); [exact I0 | | reflexivity | | exact W1].
      - unfold get_if, t0, me. cbn [cs_types with_types t_tag t_interfaces]. apply lookup_new.
      - cbn [app]. now apply nodup_names_sound.
    Qed.

    Lemma comp_imports_pg vn me : forall l done s x,
      ids_inv g s -> get_world (cs_types s) me = Some x -> map fst (w_imports x) = map fst done ->
      NoDup (map fst (done ++ l)) -> forallb (fun kv => wt_ent g (snd kv)) l = true ->
      mild (comp_imports hf g E vn me l s).
    Proof.
      induction l as [|[n e] l IH]; intros done s x I Hx Hk Hnd Hw; cbn [comp_imports]; [exact Logic.I|].
      cbn [forallb snd] in Hw. apply andb_prop in Hw as [We Wl].
      apply mild_bind; [now apply HEp|]. intros [k s1] H1.
      destruct (HEi _ _ _ _ _ I H1) as [I1 _]. pose proof (HEf _ _ _ _ _ H1) as A1.
      destruct (agree_get_world _ _ _ A1 _ _ Hx (fun F => F)) as [x1 [Hx1 [Ei1 Ee1]]].
      apply mild_bind.
      { destruct e as [ | | |rf cr| | ]; try exact Logic.I. apply use_or_own_mild; congruence. }
      intros s2 H2.
      assert (X : ids_inv g s2 /\ agree [] (cs_types s1) (cs_types s2)).
      { destruct e as [ | | |rf cr| | ]; try (injection H2 as <-; split; [exact I1 | apply agree_refl]).
        destruct (use_or_own_frame g _ _ _ _ _ _ _ _ H2) as [Aa Ca].
        destruct (agree_step g _ _ _ Aa Ca (use_or_own_resmap g _ _ _ _ _ _ _ _ H2) I1) as [Ia _]. split; assumption. }
      destruct X as [I2 A2]. destruct (agree_get_world _ _ _ A2 _ _ Hx1 (fun F => F)) as [x2 [Hx2 [Ei2 Ee2]]].
      assert (Hfresh : assoc n (w_imports x2) = None).
      { apply assoc_none. unfold Types.keys. rewrite Ei2, Ei1, Hk. rewrite map_app in Hnd. cbn [map fst] in Hnd.
        intro Hin. apply (NoDup_remove_2 _ _ _ Hnd). apply in_or_app. now left. }
      apply mild_bind.
      { unfold put_world_import. rewrite Hx2, Hfresh. pose proof (upd_world_some _ _ (fun x0 => mkworld (w_id x0) (w_uses x0) (w_imports x0 ++ [(n, k)]) (w_exports x0)) _ Hx2) as U.
        destruct (upd_world _ _ _); [exact Logic.I | contradiction]. }
      intros s3 H3. destruct (put_world_import_frame _ _ _ _ _ _ H3 Hx2) as [A3 [C3 [x3 [Hx3 [Ei3 Ee3]]]]].
      assert (I3 : ids_inv g s3).
      { apply (agree_step g [(false, id_idx me)] s2 s3 A3 C3); [|exact I2].
        unfold put_world_import in H3. rewrite Hx2, Hfresh in H3. destruct (upd_world _ _ _); [|discriminate]. injection H3 as <-. reflexivity. }
      apply (IH (done ++ [(n, e)]) s3 x3 I3 Hx3); [|now rewrite <- app_assoc|exact Wl].
      rewrite Ei3, Ei2, Ei1, !map_app, Hk. reflexivity.
    Qed.
    Lemma comp_exports_pg me : forall l done s x,
      ids_inv g s -> get_world (cs_types s) me = Some x -> map fst (w_exports x) = map fst done ->
      NoDup (map fst (done ++ l)) -> forallb (fun kv => wt_ent g (snd kv)) l = true ->
      mild (comp_exports E me l s).
    Proof.
      induction l as [|[n e] l IH]; intros done s x I Hx Hk Hnd Hw; cbn [comp_exports]; [exact Logic.I|].
      cbn [forallb snd] in Hw. apply andb_prop in Hw as [We Wl].
      apply mild_bind; [now apply HEp|]. intros [k s1] H1.
      destruct (HEi _ _ _ _ _ I H1) as [I1 _]. pose proof (HEf _ _ _ _ _ H1) as A1.
      destruct (agree_get_world _ _ _ A1 _ _ Hx (fun F => F)) as [x1 [Hx1 [Ei1 Ee1]]].
      assert (Hfresh : assoc n (w_exports x1) = None).
      { apply assoc_none. unfold Types.keys. rewrite Ee1, Hk. rewrite map_app in Hnd. cbn [map fst] in Hnd.
        intro Hin. apply (NoDup_remove_2 _ _ _ Hnd). apply in_or_app. now left. }
      apply mild_bind.
      { unfold put_world_export. rewrite Hx1, Hfresh. pose proof (upd_world_some _ _ (fun x0 => mkworld (w_id x0) (w_uses x0) (w_imports x0) (w_exports x0 ++ [(n, k)])) _ Hx1) as U.
        destruct (upd_world _ _ _); [exact Logic.I | contradiction]. }
      intros s3 H3. destruct (put_world_export_frame _ _ _ _ _ _ H3 Hx1) as [A3 [C3 [x3 [Hx3 [Ei3 Ee3]]]]].
      assert (I3 : ids_inv g s3).
      { apply (agree_step g [(false, id_idx me)] s1 s3 A3 C3); [|exact I1].
        unfold put_world_export in H3. rewrite Hx1, Hfresh in H3. destruct (upd_world _ _ _); [|discriminate]. injection H3 as <-. reflexivity. }
      apply (IH (done ++ [(n, e)]) s3 x3 I3 Hx3); [|now rewrite <- app_assoc|exact Wl].
      rewrite Ee3, Ee1, !map_app, Hk. reflexivity.
    Qed.

    Lemma comp_imports_slot vn me : forall l s s' x,
      get_world (cs_types s) me = Some x -> comp_imports hf g E vn me l s = COk s' ->
      exists x', get_world (cs_types s') me = Some x' /\ w_exports x' = w_exports x.
    Proof.
      induction l as [|[n e] l IH]; intros s s' x Hx H; cbn [comp_imports] in H; [injection H as <-; eauto|].
      inv_bind H as [k s1] H1. inv_bind H as s2 H2. inv_bind H as s3 H3.
      destruct (agree_get_world _ _ _ (HEf _ _ _ _ _ H1) _ _ Hx (fun F => F)) as [x1 [Hx1 [_ Ee1]]].
      assert (A2 : agree [] (cs_types s1) (cs_types s2)).
      { destruct e as [ | | |rf cr| | ]; try (injection H2 as <-; apply agree_refl). exact (proj1 (use_or_own_frame g _ _ _ _ _ _ _ _ H2)). }
      destruct (agree_get_world _ _ _ A2 _ _ Hx1 (fun F => F)) as [x2 [Hx2 [_ Ee2]]].
      destruct (put_world_import_frame _ _ _ _ _ _ H3 Hx2) as [_ [_ [x3 [Hx3 [_ Ee3]]]]].
      destruct (IH _ _ _ Hx3 H) as [x' [Hx' Ee']]. exists x'. split; [exact Hx' | congruence].
    Qed.

    Lemma component_body_pg name v : is_comp g v = true -> pg (component_body hf g E name v).
    Proof.
      intros Hv s I. unfold component_body. unfold is_comp in Hv.
      destruct (node_of g v) as [[ | | |imports exports| | ]|] eqn:En; try discriminate.
      destruct (nassoc v (cs_cache s)) as [e|] eqn:Ec.
      { pose proof (hit_kind _ _ _ I Ec) as K. rewrite En in K. destruct e as [[ | | | |w0| ]|]; try contradiction. exact Logic.I. }
      pose proof (wt_node_of _ _ En) as W. cbn [wt_node] in W. apply andb_prop in W as [Wi We].
      unfold wt_items in Wi, We. apply andb_prop in Wi as [Wi1 Wi2]. apply andb_prop in We as [We1 We2].
      unfold add_world. set (t0 := mktypes _ _ _ _ _ _ _). set (me := mkid _ _).
      assert (A0 : agree [] (cs_types s) t0) by apply (agree_add_world (cs_types s) (mkworld (iface_id_of name) [] [] [])).
      destruct (agree_step g [] s (with_types s t0) A0 eq_refl eq_refl I) as [I0 _].
      assert (G0 : get_world (cs_types (with_types s t0)) me = Some (mkworld (iface_id_of name) [] [] [])).
      { unfold get_world, t0, me. cbn [cs_types with_types t_tag t_worlds]. apply lookup_new. }
      apply mild_bind.
      { apply (comp_imports_pg v me imports [] _ _ I0 G0); [reflexivity | cbn [app]; now apply nodup_names_sound | exact Wi1]. }
      intros s1 H1. apply mild_bind; [|intros; exact Logic.I].
      destruct (comp_imports_id g hf E HEi _ _ _ _ _ I0 H1) as [I1 _].
      destruct (comp_imports_slot _ _ _ _ _ _ G0 H1) as [x1 [Hx1 Ee1]]. cbn [w_exports] in Ee1.
      apply (comp_exports_pg me exports [] s1 x1 I1 Hx1); [now rewrite Ee1 | cbn [app]; now apply nodup_names_sound | exact We1].
    Qed.

    Lemma entity_body_pg n e : wt_ent g e = true -> pg (entity_body hf g E n e).
    Proof.
      intros W s I. unfold entity_body. destruct e as [m|v|v|rf cr|i|c]; cbn [wt_ent] in W.
      - apply mild_bind; [now apply c_module_pg | intros [x s1] _; exact Logic.I].
      - apply mild_bind; [now apply c_func_pg | intros [x s1] _; exact Logic.I].
      - apply mild_bind; [now apply c_val_pg | intros [x s1] _; exact Logic.I].
      - apply mild_bind; [|intros [x s1] _; exact Logic.I]. unfold ty_body.
        destruct (node_of g cr) as [[d|a ps r0|ex|im ex|rid|mm]|] eqn:En; try discriminate.
        + apply mild_bind; [apply c_defined_pg; [unfold is_def; now rewrite En | exact I] | intros [y s2] _; exact Logic.I].
        + apply mild_bind; [apply c_func_pg; [unfold is_func; now rewrite En | exact I] | intros [y s2] _; exact Logic.I].
        + apply mild_bind; [apply instance_body_pg; [unfold is_inst; now rewrite En | exact I] | intros [y s2] _; exact Logic.I].
        + apply mild_bind; [apply component_body_pg; [unfold is_comp; now rewrite En | exact I] | intros [y s2] _; exact Logic.I].
        + apply mild_bind; [apply c_resource_pg; [unfold is_res; now rewrite En | exact I] | intros [y s2] _; exact Logic.I].
      - apply mild_bind; [now apply instance_body_pg | intros [x s1] _; exact Logic.I].
      - apply mild_bind; [now apply component_body_pg | intros [x s1] _; exact Logic.I].
    Qed.

    (** the resource of a converted resource item is in range *)
    Lemma entity_body_kind n e s k s' : ids_inv g s -> entity_body hf g E n e s = COk (k, s') -> kind_ok (cs_types s') k.
    Proof.
      intros I H. unfold entity_body in H. destruct e as [m|v|v|rf cr|i|c]; inv_bind H as [x s1] H1; injection H as <- <-; try exact Logic.I.
      unfold ty_body in H1. destruct (node_of g cr) as [[d|a ps r0|ex|im ex|rid|mm]|]; try discriminate;
        inv_bind H1 as [y s2] H2; injection H1 as <- <-; try exact Logic.I.
      cbn [kind_ok]. eapply c_resource_valid; eassumption.
    Qed.
  End Bodies.

  Lemma c_entity_all hf : forall fuel,
    (forall n e, wt_ent g e = true -> pg (c_entity hf fuel g n e)) /\
    (forall n e s k s', ids_inv g s -> c_entity hf fuel g n e s = COk (k, s') -> kind_ok (cs_types s') k).
  Proof.
    induction fuel as [|f [IH1 IH2]]; [split; [intros n e _ s _; exact Logic.I | intros n e s k s' _ H; discriminate]|].
    cbn [c_entity]. split.
    - intros n e W. apply entity_body_pg; auto; [apply c_entity_id | apply c_entity_fr].
    - intros n e s k s'. apply entity_body_kind.
  Qed.

  Lemma collect_pg hf fuel : forall l acc s, ids_inv g s -> forallb (fun kv => wt_ent g (snd kv)) l = true ->
    mild (collect (c_entity hf fuel g) l acc s).
  Proof.
    induction l as [|[n e] l IH]; intros acc s I W; cbn [collect]; [exact Logic.I|].
    cbn [forallb snd] in W. apply andb_prop in W as [We Wl].
    apply mild_bind; [apply (proj1 (c_entity_all hf fuel)); assumption|]. intros [k s1] H1.
    apply IH; [exact (proj1 (c_entity_id g hf fuel n e _ _ _ I H1)) | exact Wl].
  Qed.

  (** * The theorem: the two loops of [from_bytes] raise none of [PBadIndex], [PInvalidCached], [PDupItem] *)
  Theorem conv_items_mild hf fuel t0 : mild (conv_items hf fuel g t0).
  Proof.
    unfold conv_items. pose proof WT as W0. unfold wt_graph_b in W0. apply andb_prop in W0 as [W W3]. apply andb_prop in W as [_ W2].
    assert (I0 : ids_inv g (cs_init t0)) by (constructor; cbn; intros; try contradiction; discriminate).
    apply mild_bind; [now apply collect_pg|]. intros [im s1] H1.
    apply mild_bind; [|intros [ex s2] _; exact Logic.I]. apply collect_pg; [|exact W3].
    eapply collect_id; [exact I0 | exact H1].
  Qed.
End Progress.
