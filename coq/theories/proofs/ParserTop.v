(** Whole-document statements: [Document::parse] against [g_document], and the implementation /
    documentation delta by computed witnesses. *)
From Coq Require Import String.
From WacV Require Import Str StrLit Token Lexer LexTables LexImpl LexSpec Semver Ast Parser Grammar ParserComb ParserProofs.
From Coq Require Import Lia.
Local Open Scope nat_scope.

Definition doc_env (d : deviations) (base : lexcfg) (src : str) : env :=
  let items := lex (cfg_with d base) src in
  {| dv := d; cx := mk_ctx src items; fuel := S (length items) |}.

Lemma parse_document_sound d base src doc r :
  parse_document d base src = POk doc r -> r = [] /\ g_document d (lex (cfg_with d base) src) [] doc.
Proof.
  unfold parse_document. intros H. apply parse_document_items_sound in H. destruct H as [H ->]. auto.
Qed.

Lemma parse_document_complete d base src doc :
  g_document d (lex (cfg_with d base) src) [] doc -> parse_document d base src = POk doc [].
Proof.
  intros H. unfold parse_document.
  apply (parse_document_items_complete (doc_env d base src)); [exact H|]. cbn. lia.
Qed.

Definition is_ok {A} (r : pres A) : bool := match r with POk _ [] => true | _ => false end.

(** Texts on which the implementation's grammar and the documented one differ, one per flag. *)
Definition w_arrow_empty_results : str := L"package a:b; type f = func() ->;".
Definition w_result_underscore_forms : str := L"package a:b; type t = result<_>;".
Definition w_uppercase_words : str := L"package a:b; let FOO = foo-BAR;".
Definition w_empty_new_args : str := L"package a:b; let x = new c:d {};".
Definition w_fill_alone : str := L"package a:b; let x = new c:d { ... };".
Definition w_fill_anywhere : str := L"package a:b; let x = new c:d { ..., y, ..., };".
Definition w_empty_use_items : str := L"package a:b; interface i { use x.{}; }".
Definition w_empty_include_with : str := L"package a:b; world w { include x with {}; }".
Definition w_named_results : str := L"package a:b; type f = func() -> (a: u8);".
Definition w_borrow_any_type : str := L"package a:b; type t = borrow<list<u8>>;".
Definition w_dangling_dash : str := L"package a:b; let x = foo-;".
Definition w_keyword_colon : str := L"package a:b; interface i { record: func(); }".

Definition accepts_impl (s : str) : bool := is_ok (parse_document impl_flags impl_cfg s).
Definition accepts_doc (s : str) : bool := is_ok (parse_document doc_flags doc_cfg s).

Lemma delta_witnesses :
  map (fun s => (accepts_impl s, accepts_doc s))
      [w_arrow_empty_results; w_result_underscore_forms; w_uppercase_words; w_empty_new_args; w_fill_alone;
       w_fill_anywhere; w_empty_use_items; w_empty_include_with; w_dangling_dash; w_keyword_colon;
       w_named_results; w_borrow_any_type]
  = [(true, false); (true, false); (true, false); (true, false); (true, false);
     (true, false); (true, false); (true, false); (true, false); (true, false);
     (false, true); (false, true)].
Proof. vm_compute. reflexivity. Qed.

(** A document both grammars accept, with the same tree (non-vacuity of the agreement). *)
Definition w_common : str :=
  L"package a:b@1.0.0 targets c:d/e; import f: func(x: list<u8>) -> result<string, u32>; let y = new g:h { f, ... }.z; export y as ""q"";".

Lemma common_accepted :
  is_ok (parse_document impl_flags impl_cfg w_common) = true /\
  parse_document impl_flags impl_cfg w_common = parse_document doc_flags doc_cfg w_common.
Proof. vm_compute. split; reflexivity. Qed.

(** The placement rule for the fill [...] under the documented flags, in declarative form:
    LANGUAGE.md [instantiation-args ::= instantiation-arg (',' instantiation-arg)* (',' '...'?)?] --
    a non-empty list of proper arguments, optionally followed by a final [...] (then no comma after it). *)
Lemma args_ok_doc_spec args tr :
  args_ok doc_flags args tr = true <->
  exists init, init <> [] /\ forallb (fun a => negb (is_fill a)) init = true /\
               (args = init \/ (exists sp, args = init ++ [AFill sp] /\ tr = false)).
Proof.
  assert (Hex : forall l, existsb is_fill l = false <-> forallb (fun a => negb (is_fill a)) l = true).
  { induction l as [|a l IH]; cbn; [tauto|]. rewrite orb_false_iff, andb_true_iff, IH, negb_true_iff. tauto. }
  destruct args as [|a0 rest]; [cbn; split; [discriminate|]|].
  { intros (init & Hne & _ & [H|(sp & H & _)]); [congruence|]. destruct init; [congruence|discriminate]. }
  destruct (exists_last (l := a0 :: rest)) as (ini & lastx & E); [discriminate|].
  assert (Hrl : removelast (a0 :: rest) = ini) by (rewrite E; apply removelast_last).
  assert (Hl : forall dflt, last (a0 :: rest) dflt = lastx) by (intros; rewrite E; apply last_last).
  assert (Hok : args_ok doc_flags (a0 :: rest) tr =
                match ini with
                | [] => negb (is_fill lastx)
                | _ => negb (existsb is_fill ini) && (negb (is_fill lastx) || negb tr)
                end).
  { destruct rest as [|a1 rest'].
    - destruct ini as [|x ini]; [cbn in E; inversion E; subst|destruct ini; discriminate].
      destruct lastx; cbn; try reflexivity. now destruct tr.
    - destruct ini as [|x ini]; [destruct rest'; discriminate|].
      rewrite <- Hrl, <- (Hl (AInferred {| id_string := []; id_span := {| off := 0; slen := 0 |} |})).
      destruct a0; reflexivity. }
  rewrite Hok, E. clear Hok. split.
  - intros H. destruct (is_fill lastx) eqn:Ef.
    + destruct ini as [|x ini]; [discriminate|]. cbn [negb orb] in H. apply andb_true_iff in H. destruct H as [H1 H2].
      apply negb_true_iff in H1, H2. exists (x :: ini). split; [discriminate|]. split; [now apply Hex|].
      right. destruct lastx; try discriminate. eauto.
    + exists (ini ++ [lastx]). split; [destruct ini; discriminate|]. split; [|now left].
      rewrite forallb_app. cbn. rewrite Ef. cbn. rewrite andb_true_r.
      destruct ini as [|x ini]; [reflexivity|]. apply andb_true_iff in H. destruct H as [H _].
      apply negb_true_iff in H. now apply Hex.
  - intros (init & Hne & Hall & [H|(sp & H & ->)]).
    + assert (init = ini ++ [lastx]) by congruence. subst init. rewrite forallb_app in Hall.
      apply andb_true_iff in Hall. destruct Hall as [H1 H2]. cbn in H2. rewrite andb_true_r in H2.
      destruct ini as [|x ini]; [exact H2|]. rewrite H2. cbn [orb]. rewrite andb_true_r.
      apply negb_true_iff. now apply Hex.
    + apply app_inj_tail in H. destruct H as [-> ->]. destruct init as [|x init]; [congruence|].
      cbn [is_fill negb orb]. rewrite andb_true_r. apply negb_true_iff. now apply Hex.
Qed.
