(** C13: [toks_scan] for the printed pieces -- at every token boundary of the printed text the lexer
    model's [scan_token] returns the intended token. From: what follows each token ([PrinterAdj]), the
    stability of the scanners ([PrinterScan]), and the lexical origin of every copied text. *)
From WacV Require Import Str Token Lexer LexTables LexImpl Semver Ast Parser Printer PrintSpec PrinterText.
From WacV Require Import PrinterProofs PrinterLexFacts PrinterLex PrinterScan PrinterAdj.
From Coq Require Import Lia.
Local Open Scope nat_scope.

(* ------------------------------------------------------------------ characters *)

Lemma hard_facts c : hard c = true ->
  alnum c = false /\ c <> c_minus /\ c <> c_percent /\ c <> c_colon /\ c <> c_slash /\ c <> c_atsign /\ c <> c_period /\
  semver_char c = false.
Proof.
  unfold hard. intros H. apply andb_true_iff in H. destruct H as [H1 H2]. apply negb_true_iff in H1, H2.
  cbn [existsb] in H2. repeat (apply orb_false_iff in H2; destruct H2 as [? H2]).
  repeat match goal with H : (c =? _)%N = false |- _ => apply N.eqb_neq in H end.
  pose proof (alnum_false c H1) as (L & U & D).
  repeat split; auto; try (intros E; subst c; congruence).
  unfold semver_char, is_alpha. rewrite L, U, D. cbn [orb].
  destruct (c =? 45)%N eqn:E1; [apply N.eqb_eq in E1; congruence|]. destruct (c =? 43)%N eqn:E2; [apply N.eqb_eq in E2; congruence|reflexivity].
Qed.

Lemma hard_stops c x : hard c = true -> pstop (c :: x) /\ nonid (c :: x).
Proof.
  intros H. destruct (hard_facts c H) as (A & M & P & C & S & T & D & V).
  assert (Hn : nonid (c :: x)) by (cbn; auto). split; [|exact Hn].
  repeat split; try (cbn; assumption); try (apply nonid_istop; exact Hn).
  cbn. intros E. congruence.
Qed.

(* ------------------------------------------------------------------ first characters of what follows *)

Lemma fixed_nonempty_lead k c1 : hd_error (fixed_text k) = Some c1 -> exists y, fixed_text k = c1 :: y.
Proof. destruct (fixed_text k); cbn; [discriminate|]. intros H; inversion H. eauto. Qed.

Lemma layout_lead1 src r : forall ind b ps c1,
  layout src ind b r = Some ps -> lead1 r = Some c1 -> exists x, text_of ps = c1 :: x.
Proof.
  destruct r as [|c r]; intros ind b ps c1 H Hl; [discriminate Hl|]. cbn [layout] in H.
  destruct c; try discriminate Hl; cbn [lead1] in Hl.
  - destruct (fixed_nonempty_lead _ _ Hl) as (y & Hy). destruct (layout src ind b r); inversion H; subst.
    cbn [text_of flat_map piece_text]. rewrite Hy. cbn [app]. eauto.
  - inversion Hl; subst. destruct (layout src ind b r); inversion H; subst. cbn. eauto.
  - inversion Hl; subst. destruct (layout src ind false r); inversion H; subst. cbn. eauto.
  - inversion Hl; subst. destruct (layout src ind b r); inversion H; subst. cbn. eauto.
Qed.

Lemma layout_lead2 src r : forall ind b ps c1 c2,
  layout src ind b r = Some ps -> lead1 r = Some c1 -> lead2 r = Some c2 -> exists x, text_of ps = c1 :: c2 :: x.
Proof.
  destruct r as [|c r]; intros ind b ps c1 c2 H Hl1 Hl2; [discriminate Hl1|]. destruct c; try discriminate Hl2.
  cbn [layout] in H. cbn [lead1 lead2] in *. destruct (layout src ind b r) as [ps'|] eqn:E; inversion H; subst.
  cbn [text_of flat_map piece_text]. destruct (fixed_text k) as [|a [|a2 y]]; [discriminate Hl1| |].
  - inversion Hl1; subst. destruct (layout_lead1 src r ind b ps' c2 E Hl2) as (x & Hx).
    cbn [app]. unfold text_of in Hx. rewrite Hx. eauto.
  - inversion Hl1; inversion Hl2; subst. cbn [app]. eauto.
Qed.

(* ------------------------------------------------------------------ first character of a token *)

Lemma letter_start c : (is_lower c || is_upper c || (c =? c_percent)%N)%bool = true ->
  is_ws c = false /\ c <> c_slash /\ c <> c_period.
Proof.
  unfold is_lower, is_upper, is_ws, c_percent, c_slash, c_period. intros H.
  assert (Hc : (97 <= c <= 122 \/ 65 <= c <= 90 \/ c = 37)%N).
  { apply orb_true_iff in H. destruct H as [H|H]; [apply orb_true_iff in H; destruct H as [H|H]|].
    - apply andb_true_iff in H. destruct H as [H1 H2]. apply N.leb_le in H1, H2. lia.
    - apply andb_true_iff in H. destruct H as [H1 H2]. apply N.leb_le in H1, H2. lia.
    - apply N.eqb_eq in H. lia. }
  repeat split; try lia.
  repeat (apply orb_false_iff; split); apply N.eqb_neq; lia.
Qed.

Lemma id_len_pos_head c r : 0 < id_len true (c :: r) -> (is_lower c || is_upper c || (c =? c_percent)%N)%bool = true.
Proof.
  cbn [id_len]. destruct (c =? c_percent)%N; [now rewrite orb_true_r|]. cbn [words_len].
  destruct (is_lower c); [reflexivity|]. destruct (is_upper c); [reflexivity|]. cbn. lia.
Qed.

Lemma origin_start F s1 k n : scan_token impl_cfg F s1 = ScanTok k n -> src_kind k = true ->
  exists c x, firstn n s1 = c :: x /\ is_ws c = false /\ c <> c_slash /\ c <> c_period.
Proof.
  intros H Hk. pose proof (scan_token_pos _ _ _ _ _ H) as Hn. destruct s1 as [|c r]; [discriminate H|].
  apply scan_token_path in H.
  destruct n as [|n]; [lia|]. exists c, (firstn n r). split; [reflexivity|].
  destruct H as [r0 m Hs _ _ _|Hi Hq Hb|n1 Hi Hp _ _ _ _|n1 Hi Hp _ _ _ _ _|n1 n2 m Hi Hp _ _ _ _ _ _ _ _].
  - inversion Hs; subst. repeat split; discriminate || reflexivity.
  - rewrite (table_kinds_not_src k) in Hk; [discriminate|]. left. eapply best_symbol_kind; eauto.
  - apply letter_start, id_len_pos_head with (r := r). lia.
  - apply letter_start, id_len_pos_head with (r := r). lia.
  - apply letter_start, id_len_pos_head with (r := r). lia.
Qed.

Definition tok_startb (t : str) : bool :=
  match t with c :: _ => negb (is_ws c) && negb (c =? c_slash)%N | [] => false end.
Lemma tok_startb_ok t : tok_startb t = true -> tok_start t.
Proof.
  destruct t as [|c t]; [discriminate|]. cbn. intros H. apply andb_true_iff in H. destruct H as [H1 H2].
  apply negb_true_iff in H1, H2. apply N.eqb_neq in H2. auto.
Qed.

Lemma fixed_start k : okfixed k = true -> tok_start (fixed_text k).
Proof.
  assert (H : forallb (fun k => negb (okfixed k) || tok_startb (fixed_text k)) all_tokens = true) by (vm_compute; reflexivity).
  rewrite forallb_forall in H. intros Hk. specialize (H k). assert (Hin : In k all_tokens) by (destruct k; cbn; tauto).
  specialize (H Hin). rewrite Hk in H. apply tok_startb_ok. exact H.
Qed.

Lemma okfixed_sym k : okfixed k = true -> is_kw k = false -> is_sym k = true.
Proof. unfold okfixed. intros H Hk. rewrite Hk in H. apply andb_true_iff in H. destruct H as [H _]. exact H. Qed.

(* ------------------------------------------------------------------ the copied texts *)

(** A [source(span)] copy is the text of a token the lexer cut. *)
Definition leaf_ok (src : str) (c : cmd) : Prop :=
  match c with
  | CSrc k sp =>
      exists t, slice src sp = Some t /\
                (exists F s1 n, scan_token impl_cfg F s1 = ScanTok k n /\ t = firstn n s1)
  | _ => True
  end.

Lemma oeqb_true o c : oeqb o c = true -> o = Some c.
Proof. destruct o as [x|]; cbn; [|discriminate]. intros H. apply N.eqb_eq in H. now subst. Qed.
Lemma ohard_true o : ohard o = true -> exists c, o = Some c /\ hard c = true.
Proof. destruct o as [x|]; cbn; [eauto|discriminate]. Qed.

Lemma tokfokb_src_kind k sp nx : tokfokb (CSrc k sp) nx = true -> src_kind k = true.
Proof. destruct k; cbn; intros H; try reflexivity; discriminate H. Qed.

(** A literal token followed by the rest of the printed text. *)
Lemma fixed_scan src k r ind b ps' :
  tokfokb (CTok k) r = true -> layout src ind b r = Some ps' -> Forall (leaf_ok src) r -> adjb r [] = true ->
  tok_start (fixed_text k) /\
  forall F, length (fixed_text k ++ text_of ps') < F ->
            scan_token impl_cfg F (fixed_text k ++ text_of ps') = ScanTok k (length (fixed_text k)).
Proof.
  intros Hf Hl Hleaf Hadj. cbn [tokfokb] in Hf. apply andb_true_iff in Hf. destruct Hf as [Hok Hf].
  split; [now apply fixed_start|]. intros F HF.
  destruct (is_kw k) eqn:Ek.
  - apply ohard_true in Hf. destruct Hf as (c1 & Hl1 & Hh). destruct (layout_lead1 _ _ _ _ _ _ Hl Hl1) as (x & ->).
    destruct (hard_stops c1 x Hh) as [(Hi & _ & Hc & Hm & _) _]. now apply rescan_kw.
  - apply rescan_sym; [now apply okfixed_sym|]. intros ->. cbn [token_eqb token_code N.eqb Pos.eqb] in Hf.
    change (token_eqb TDot TDot) with true in Hf. cbv iota in Hf.
    destruct r as [|c r']; [discriminate Hf|].
    destruct c;
      try (match type of Hf with context [lead1 ?l] => destruct (lead1 l) as [c1|] eqn:E end; [|discriminate Hf];
           apply negb_true_iff, N.eqb_neq in Hf; destruct (layout_lead1 _ _ _ _ _ _ Hl E) as (x & ->); exact Hf).
    (* a copy follows the period *)
    inversion Hleaf as [|? ? Hc _]; subst. destruct Hc as (t & Hs & (F0 & s1 & n & Hsc & ->)).
    cbn [layout] in Hl. rewrite Hs in Hl. destruct (layout src ind b r'); inversion Hl; subst.
    assert (Hk : src_kind k = true).
    { cbn [adjb] in Hadj. apply andb_true_iff in Hadj. destruct Hadj as [Hadj _]. eapply tokfokb_src_kind; eauto. }
    destruct (origin_start _ _ _ _ Hsc Hk) as (c & x & Hfx & _ & _ & Hp). cbn [text_of flat_map piece_text]. rewrite Hfx. exact Hp.
Qed.

(** A copied token followed by the rest of the printed text. *)
Lemma src_scan src k sp r ind b ps' t :
  leaf_ok src (CSrc k sp) -> slice src sp = Some t ->
  tokfokb (CSrc k sp) r = true -> layout src ind b r = Some ps' ->
  (k = TIdent -> lookup_str t (keywords impl_cfg) = None \/ exists x, text_of ps' = c_colon :: x) ->
  tok_start t /\
  forall F, length (t ++ text_of ps') < F -> scan_token impl_cfg F (t ++ text_of ps') = ScanTok k (length t).
Proof.
  intros (t' & Hs' & (F0 & s1 & n & Hsc & Ht')) Hs Hf Hl Hlk. rewrite Hs in Hs'. injection Hs' as Hs'.
  rewrite <- Hs' in Ht'. clear Hs' t'.
  pose proof (tokfokb_src_kind _ _ _ Hf) as Hk.
  split.
  { destruct (origin_start _ _ _ _ Hsc Hk) as (c & x & Hfx & Hw & Hsl & _). rewrite Ht', Hfx. cbn. auto. }
  intros F HF. subst t.
  destruct k; try discriminate Hk; cbn [tokfokb] in Hf.
  - (* identifier *)
    specialize (Hlk eq_refl).
    apply orb_true_iff in Hf. destruct Hf as [Hf|Hf]; [apply orb_true_iff in Hf; destruct Hf as [Hf|Hf]|].
    + apply ohard_true in Hf. destruct Hf as (c1 & Hl1 & Hh). destruct (layout_lead1 _ _ _ _ _ _ Hl Hl1) as (x & Hx).
      rewrite Hx in *. destruct (hard_stops c1 x Hh) as [(Hi & _ & Hc & Hm & _) _].
      apply (rescan_ident F0); auto. intros y E. inversion E; subst. cbn in Hc. congruence.
    + apply oeqb_true in Hf. destruct (layout_lead1 _ _ _ _ _ _ Hl Hf) as (x & Hx). rewrite Hx in *.
      apply (rescan_ident F0); auto; [apply nonid_istop; cbn; repeat split; discriminate|cbn; discriminate|].
      intros y E. discriminate E.
    + apply andb_true_iff in Hf. destruct Hf as [H1 H2]. apply oeqb_true in H1.
      assert (Hc2 : exists c2, lead2 r = Some c2 /\ (c2 = 32 \/ c2 = 10)%N).
      { apply orb_true_iff in H2. destruct H2 as [H2|H2]; apply oeqb_true in H2; eauto. }
      destruct Hc2 as (c2 & H2' & Hc2). destruct (layout_lead2 _ _ _ _ _ _ _ Hl H1 H2') as (x & Hx). rewrite Hx in *.
      apply (rescan_ident F0); auto; [apply nonid_istop; cbn; repeat split; discriminate|cbn; discriminate|].
      intros y E. inversion E; subst. apply id_len_nonstart; destruct Hc2; subst; try reflexivity; discriminate.
  - (* string *) now apply (rescan_string F0).
  - (* package name *)
    apply orb_true_iff in Hf. destruct Hf as [Hf|Hf].
    + apply ohard_true in Hf. destruct Hf as (c1 & Hl1 & Hh). destruct (layout_lead1 _ _ _ _ _ _ Hl Hl1) as (x & Hx).
      rewrite Hx in *. apply (rescan_pkg F0 s1 _ n _ F Hsc (or_introl eq_refl)); [apply hard_stops; exact Hh|lia].
    + apply andb_true_iff in Hf. destruct Hf as [H1 H2]. apply oeqb_true in H1, H2.
      destruct (layout_lead2 _ _ _ _ _ _ _ Hl H1 H2) as (x & Hx). rewrite Hx in *.
      apply (rescan_pkg F0 s1 _ n _ F Hsc (or_introl eq_refl)); [|lia].
      split; [apply nonid_istop; cbn; repeat split; discriminate|]. split; [split; [reflexivity|intros _; reflexivity]|].
      repeat split; cbn; discriminate.
  - (* package path *)
    apply orb_true_iff in Hf. destruct Hf as [Hf|Hf].
    + apply ohard_true in Hf. destruct Hf as (c1 & Hl1 & Hh). destruct (layout_lead1 _ _ _ _ _ _ Hl Hl1) as (x & Hx).
      rewrite Hx in *. apply (rescan_pkg F0 s1 _ n _ F Hsc (or_intror eq_refl)); [apply hard_stops; exact Hh|lia].
    + apply andb_true_iff in Hf. destruct Hf as [H1 H2]. apply oeqb_true in H1, H2.
      destruct (layout_lead2 _ _ _ _ _ _ _ Hl H1 H2) as (x & Hx). rewrite Hx in *.
      apply (rescan_pkg F0 s1 _ n _ F Hsc (or_intror eq_refl)); [|lia].
      split; [apply nonid_istop; cbn; repeat split; discriminate|]. split; [split; [reflexivity|intros _; reflexivity]|].
      repeat split; cbn; discriminate.
Qed.

(** [toks_scan] for the pieces of any command list with good adjacency and good leaves. *)
Theorem relex_cmds src cs :
  Forall (leaf_ok src) cs -> forall ind b ps, layout src ind b cs = Some ps -> adjb cs [] = true ->
  kwcb ps = true -> toks_scan impl_cfg ps.
Proof.
  induction 1 as [|c cs Hc Hcs IH]; intros ind b ps Hl Hadj Hkw; cbn [layout] in Hl; [inversion Hl; exact I|].
  cbn [adjb] in Hadj. apply andb_true_iff in Hadj. destruct Hadj as [Hf Hadj]. rewrite app_nil_r in Hf.
  destruct c.
  - destruct (layout src ind b cs) as [ps'|] eqn:E; inversion Hl; subst. cbn [toks_scan].
    destruct (fixed_scan src k cs ind b ps' Hf E Hcs Hadj) as [H1 H2]. split; [exact H1|]. split; [exact H2|].
    eapply IH; eauto. destruct k; exact Hkw.
  - destruct (slice src sp) as [t|] eqn:Es; [|discriminate]. destruct (layout src ind b cs) as [ps'|] eqn:E; inversion Hl; subst.
    cbn [toks_scan].
    assert (Hkw' : kwcb ps' = true /\ (k = TIdent -> lookup_str t (keywords impl_cfg) = None \/ exists x, text_of ps' = c_colon :: x)).
    { destruct k; try (split; [exact Hkw|discriminate]). cbn [kwcb] in Hkw. apply andb_true_iff in Hkw. destruct Hkw as [H1 H2].
      split; [exact H2|]. intros _. apply orb_true_iff in H1. destruct H1 as [H1|H1].
      - left. unfold kw_text in H1. destruct (lookup_str t (keywords impl_cfg)); [discriminate H1|reflexivity].
      - right. destruct ps' as [|[k' [|c t']| |] ps'']; try discriminate H1. apply N.eqb_eq in H1. subst c.
        cbn [text_of flat_map piece_text app]. eauto. }
    destruct Hkw' as [Hkw1 Hkw2].
    destruct (src_scan src k sp cs ind b ps' t Hc Es Hf E Hkw2) as [H1 H2].
    split; [exact H1|]. split; [exact H2|]. eapply IH; eauto.
  - destruct (layout src ind b cs) eqn:E; inversion Hl; subst. cbn [toks_scan]. eapply IH; eauto.
  - destruct (layout src ind false cs) eqn:E; [|destruct b; discriminate]. destruct b; inversion Hl; subst; cbn [toks_scan]; eapply IH; eauto.
  - destruct b; [eapply IH; eauto|]. destruct (layout src ind true cs) eqn:E; inversion Hl; subst. cbn [toks_scan]. eapply IH; eauto.
  - destruct (layout src ind false cs) eqn:E; inversion Hl; subst. cbn [toks_scan]. eapply IH; eauto.
  - destruct (layout src ind b cs) eqn:E; inversion Hl; subst. cbn [toks_scan]. eapply IH; eauto.
  - eapply IH; eauto.
  - eapply IH; eauto.
Qed.
