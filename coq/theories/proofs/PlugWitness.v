(** Concrete witnesses for property C10: cases in which the export-first algorithm of plug.rs and
    the import-first reading of the property diverge.  Each is replayed on the real
    [wac_graph::plug] (corpus/C10/cases.txt). *)
From Coq Require Import String List Arith Bool NArith Lia.
From WacV Require Import Str StrLit Names NamesProofs Graph Plug PlugSpec PlugProofs.
Import ListNotations.
Local Open Scope nat_scope.

Lemma tracks_distinct_b_sound text l : tracks_distinct_b text l = true -> tracks_distinct text l.
Proof.
  induction l as [|a r IH]; cbn [tracks_distinct_b]; intros T x y Ix Iy C; [destruct Ix|].
  apply andb_prop in T. destruct T as (Ta & Tr). rewrite forallb_forall in Ta.
  assert (K : forall b, In b r -> compat (text a) (text b) = true -> a = b).
  { intros b Ib Cb. specialize (Ta b Ib). rewrite Cb in Ta. cbn in Ta. rewrite orb_false_r in Ta. apply N.eqb_eq. exact Ta. }
  destruct Ix as [<-|Ix], Iy as [<-|Iy].
  - reflexivity.
  - apply K; assumption.
  - symmetry. apply K; [assumption|]. rewrite compat_sym. exact C.
  - apply IH; assumption.
Qed.

(** names: 0 = a:b/c@0.2.0, 1 = a:b/c@0.2.1 (one track), 2 = out.  kinds: 0 = func(), 1 = func(a: u32)
    (unrelated), 100.. = instance types of the packages.  Package 0 is the socket (exports out: func()). *)
Definition w_text (n : name) : str :=
  match n with
  | 0%N => L"a:b/c@0.2.0"
  | 1%N => L"a:b/c@0.2.1"
  | _ => L"out"
  end.

Definition w_universe (simps p1 p2 : list item) : puniverse :=
  {| pu_graph :=
       {| u_inst_exports := fun k => match k with
                                     | 100%N => Some [(2%N, 0%N)]
                                     | 101%N => Some p1
                                     | 102%N => Some p2
                                     | _ => None end;
          u_pkgs := [ {| pd_inst := 100%N; pd_imports := simps |};
                      {| pd_inst := 101%N; pd_imports := [] |};
                      {| pd_inst := 102%N; pd_imports := [] |} ];
          u_tys := []; u_lkinds := [];
          u_sub := N.eqb;
          u_import_name_ok := fun _ => true;
          u_export_name_ok := fun _ => true |};
     pu_name_text := w_text |}.

Definition w_state (pu : puniverse) : gstate := register_all pu [0; 1; 2].
Definition w_socket : pkgid := (0, 0).
Definition w_p1 : pkgid := (1, 0).
Definition w_p2 : pkgid := (2, 0).

Ltac solve_nodup := repeat (apply NoDup_cons; [cbn; intuition discriminate|]); apply NoDup_nil.
Ltac solve_all_nodup := repeat (apply Forall_cons; [solve_nodup|]); apply Forall_nil.

Lemma w_case simps p1 p2 (plugs : list pkgid) (pls : list (list item)) :
  NoDup (map fst simps) -> Forall (fun exps => NoDup (map fst exps)) pls ->
  Forall2 (fun p exps => exists pd, pkg_desc (w_universe simps p1 p2) (w_state (w_universe simps p1 p2)) p = Some pd /\
                                    u_inst_exports (w_universe simps p1 p2) (pd_inst pd) = Some exps) plugs pls ->
  plug_case (w_universe simps p1 p2) (w_state (w_universe simps p1 p2)) plugs w_socket simps [(2%N, 0%N)] pls.
Proof.
  intros ND NDp F. split; [repeat split|]. split.
  - split; [|exact F]. eexists. split; [reflexivity|]. split; reflexivity.
  - split; [exact ND|]. split; [solve_nodup|]. split; [exact NDp|]. repeat constructor.
Qed.

(** ** 1. the socket imports two names on one track; the plug exports one of them.
       Import-first: both imports are offered the plug's export.  plug.rs: only the exact name. *)
Definition w1 := w_universe [(0%N, 0%N); (1%N, 0%N)] [(1%N, 0%N)] [].

Lemma w1_case : plug_case w1 (w_state w1) [w_p1] w_socket [(0%N, 0%N); (1%N, 0%N)] [(2%N, 0%N)] [[(1%N, 0%N)]].
Proof.
  apply w_case; [solve_nodup|solve_all_nodup|].
  constructor; [|constructor]. eexists. split; reflexivity.
Qed.


Lemma w1_diverges :
  snd (plug w1 (w_state w1) [w_p1] w_socket) = POk /\
  suppliers (pu_name_text w1) (u_sub w1) [[(1%N, 0%N)]] (0%N, 0%N) = [(0, 1%N)] /\
  forall a, ~ In (0%N, a) (get_args w1 (fst (plug w1 (w_state w1) [w_p1] w_socket)) 0).
Proof.
  split; [vm_compute; reflexivity|]. split; [vm_compute; reflexivity|].
  intros a. vm_compute. intros [E|[]]. discriminate.
Qed.

(** ** 2. an exact-name import of incompatible type shadows the compatible neighbour on its track *)
Definition w2 := w_universe [(0%N, 1%N); (1%N, 0%N)] [(0%N, 0%N)] [].

Lemma w2_case : plug_case w2 (w_state w2) [w_p1] w_socket [(0%N, 1%N); (1%N, 0%N)] [(2%N, 0%N)] [[(0%N, 0%N)]].
Proof.
  apply w_case; [solve_nodup|solve_all_nodup|].
  constructor; [|constructor]. eexists. split; reflexivity.
Qed.


Lemma w2_diverges :
  snd (plug w2 (w_state w2) [w_p1] w_socket) = PNoPlugHappened /\
  suppliers (pu_name_text w2) (u_sub w2) [[(0%N, 0%N)]] (1%N, 0%N) = [(0, 0%N)].
Proof. split; vm_compute; reflexivity. Qed.

(** ** 3. (historical, before repair 7db12e7) one plug exports two names on one track, both compatible
       with the one socket import: the raw export-first pairs target that import twice, and the
       unrepaired plug.rs failed with ArgumentAlreadyPassed on a single plug.  The repaired algorithm
       keeps one pair per import (exact name preferred) and the plug succeeds. *)
Definition w3 := w_universe [(0%N, 0%N)] [(0%N, 0%N); (1%N, 0%N)] [].

Lemma w3_case : plug_case w3 (w_state w3) [w_p1] w_socket [(0%N, 0%N)] [(2%N, 0%N)] [[(0%N, 0%N); (1%N, 0%N)]].
Proof.
  apply w_case; [solve_nodup|solve_all_nodup|].
  constructor; [|constructor]. eexists. split; reflexivity.
Qed.

Lemma w3_socket_tracks : socket_tracks_distinct w3 [(0%N, 0%N)].
Proof. apply tracks_distinct_b_sound. vm_compute. reflexivity. Qed.

Lemma w3_raw_pairs_collide :
  plug_matches (pu_name_text w3) (u_sub w3) [(0%N, 0%N)] [(0%N, 0%N); (1%N, 0%N)] = [(0%N, 0%N); (1%N, 0%N)] /\
  plug_pairs (pu_name_text w3) (u_sub w3) [(0%N, 0%N)] [(0%N, 0%N); (1%N, 0%N)] = [(0%N, 0%N)].
Proof. split; vm_compute; reflexivity. Qed.

Lemma w3_repaired :
  snd (plug w3 (w_state w3) [w_p1] w_socket) = POk /\
  suppliers (pu_name_text w3) (u_sub w3) [[(0%N, 0%N); (1%N, 0%N)]] (0%N, 0%N) = [(0, 0%N)].
Proof. split; vm_compute; reflexivity. Qed.

(** ** 4. two plugs, each exporting exactly one of the socket's two same-track imports: plug.rs
       wires both by exact name; read import-first, each import is offered by both plugs *)
Definition w4 := w_universe [(0%N, 0%N); (1%N, 0%N)] [(0%N, 0%N)] [(1%N, 0%N)].

Lemma w4_case : plug_case w4 (w_state w4) [w_p1; w_p2] w_socket [(0%N, 0%N); (1%N, 0%N)] [(2%N, 0%N)]
                          [[(0%N, 0%N)]; [(1%N, 0%N)]].
Proof.
  apply w_case; [solve_nodup|solve_all_nodup|].
  constructor; [|constructor; [|constructor]]; eexists; split; reflexivity.
Qed.


Lemma w4_diverges :
  snd (plug w4 (w_state w4) [w_p1; w_p2] w_socket) = POk /\
  length (suppliers (pu_name_text w4) (u_sub w4) [[(0%N, 0%N)]; [(1%N, 0%N)]] (0%N, 0%N)) = 2.
Proof. split; vm_compute; reflexivity. Qed.

(** the witnesses are not degenerate: the hypotheses they violate really fail *)
Lemma w1_not_socket_tracks : ~ socket_tracks_distinct w1 [(0%N, 0%N); (1%N, 0%N)].
Proof.
  intros T. assert (0%N = 1%N); [|discriminate].
  apply T; [left; reflexivity|right; left; reflexivity|vm_compute; reflexivity].
Qed.

(** ** 0. a case in which all hypotheses hold and the plug succeeds (non-vacuity):
       the socket imports a:b/c@0.2.0, the plug exports a:b/c@0.2.1 (semver fallback) *)
Definition w0 := w_universe [(0%N, 0%N)] [(1%N, 0%N)] [].

Lemma w0_case : plug_case w0 (w_state w0) [w_p1; w_p2] w_socket [(0%N, 0%N)] [(2%N, 0%N)] [[(1%N, 0%N)]; []].
Proof.
  apply w_case; [solve_nodup|solve_all_nodup|].
  constructor; [|constructor; [|constructor]]; eexists; split; reflexivity.
Qed.
Lemma w0_socket_tracks : socket_tracks_distinct w0 [(0%N, 0%N)].
Proof. apply tracks_distinct_b_sound. vm_compute. reflexivity. Qed.
Lemma w0_ok : snd (plug w0 (w_state w0) [w_p1; w_p2] w_socket) = POk /\
              suppliers (pu_name_text w0) (u_sub w0) [[(1%N, 0%N)]; []] (0%N, 0%N) = [(0, 1%N)].
Proof. split; vm_compute; reflexivity. Qed.
