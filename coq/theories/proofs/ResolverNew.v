(** C04 proofs, part 5: every graph operation the resolver uses only extends the graph; expressions
    only extend the graph; the argument table of a [new] expression is the declarative binding. *)
From Coq Require Import List Arith Bool NArith Lia.
From WacV Require Import Str Token Lexer Semver Names Ast Graph Resolver LangSpec ResolverProofs.
Import ListNotations.
Local Open Scope nat_scope.

Definition node_stable (a b : node) : Prop :=
  nitem b = nitem a /\ npkg b = npkg a /\ (forall nm, nk b = NImport nm <-> nk a = NImport nm) /\ (nk b = NDef <-> nk a = NDef).

Lemma node_stable_refl a : node_stable a a.
Proof. unfold node_stable. tauto. Qed.

Lemma gframe_intro g g' :
  nofree g -> free_nodes g' = free_nodes g -> free_pkgs g' = free_pkgs g ->
  (forall id p, get_pkg g id = Some p -> get_pkg g' id = Some p) ->
  (nodes g' = nodes g \/ (exists nd, nodes g' = nodes g ++ [Some nd]) \/
   (exists n a b, get_node g n = Some a /\ nodes g' = set_nth (nodes g) n (Some b) /\ node_stable a b)) ->
  gframe g g'.
Proof.
  intros [F Fp] E1 E2 HP HN. constructor; auto.
  - split; congruence.
  - destruct HN as [->|[(nd & ->)|(n & a & b & _ & -> & _)]]; auto.
    + rewrite app_length. lia.
    + now rewrite length_set_nth'.
  - intros k a G. destruct HN as [E|[(nd & E)|(n & a0 & b & G0 & E & St)]].
    + exists a. unfold get_node in *. rewrite E. split; auto. apply node_stable_refl.
    + exists a. unfold get_node in *. rewrite E. split; [now apply get_node_app_old|apply node_stable_refl].
    + unfold get_node in *. rewrite E, nth_error_set_nth'. destruct (Nat.eqb_spec k n) as [->|Hne].
      * assert (L : n < length (nodes g)).
        { apply nth_error_Some. intros X. rewrite X in G0. discriminate. }
        apply Nat.ltb_lt in L. rewrite L. exists b. split; auto. rewrite G in G0. injection G0 as <-. exact St.
      * exists a. split; auto. apply node_stable_refl.
Qed.

Lemma get_pkg_same g g' : pkgs g' = pkgs g -> forall id p, get_pkg g id = Some p -> get_pkg g' id = Some p.
Proof. intros E id p. unfold get_pkg. now rewrite E. Qed.

Lemma register_gframe (u : universe) g p g' o : nofree g -> register u g p = (g', o) -> gframe g g'.
Proof.
  intros NF. pose proof NF as [F Fp]. unfold register. destruct (find_pkg_slot g p).
  - intros [= <- <-]. now apply gframe_refl.
  - rewrite Fp. intros [= <- <-]. apply gframe_intro; auto; cbn; auto.
    intros id q. unfold get_pkg. cbn. destruct (nth_error (pkgs g) (fst id)) as [sl|] eqn:E; [|discriminate].
    rewrite nth_error_app1; [now rewrite E|]. apply nth_error_Some. congruence.
Qed.

Lemma instantiate_gframe (u : universe) g id g' o : nofree g -> instantiate u g id = (g', o) -> gframe g g'.
Proof.
  intros NF. pose proof NF as [F Fp]. unfold instantiate. destruct (pkg_desc u g id) as [pd|].
  - destruct (add_node g _) as [s1 idx] eqn:A. apply add_node_nofree in A as (-> & Hn & F' & He & Hi & Hx & Hd & Hp & Hf); auto.
    intros [= <- <-]. apply gframe_intro; auto; try congruence.
    + now apply get_pkg_same.
    + right. left. eauto.
  - intros [= <- <-]. now apply gframe_refl.
Qed.

Lemma set_arg_gframe (u : universe) g inst a arg g' o : nofree g -> set_arg u g inst a arg = (g', o) -> gframe g g'.
Proof.
  intros NF. unfold set_arg.
  destruct (get_node g inst) as [nd|] eqn:G; [|intros [= <- <-]; now apply gframe_refl].
  destruct (nk nd) as [| |sat|] eqn:K; try (intros [= <- <-]; now apply gframe_refl).
  destruct (inst_imports u g nd) as [imps|]; [|intros [= <- <-]; now apply gframe_refl].
  destruct (get_full imps a 0) as [[index expected]|]; [|intros [= <- <-]; now apply gframe_refl].
  destruct (scan_incoming (incoming g inst) index arg); try (intros [= <- <-]; now apply gframe_refl).
  destruct (get_node g arg) as [an|]; [|intros [= <- <-]; now apply gframe_refl].
  destruct (negb (u_sub u (nitem an) expected)); [intros [= <- <-]; now apply gframe_refl|].
  unfold add_satisfied.
  change (get_node (add_edge g {| esrc := arg; etgt := inst; ek := EArg index |}) inst) with (get_node g inst).
  rewrite G, K.
  destruct (existsb (Nat.eqb index) sat); [intros [= <- <-]; now apply gframe_refl|].
  intros [= <- <-]. apply gframe_intro; auto; cbn; auto.
  right. right. exists inst, nd, {| nk := NInst (index :: sat); npkg := npkg nd; nitem := nitem nd; nname := nname nd; nexport := nexport nd |}.
  split; auto. split; auto. unfold node_stable. cbn. rewrite K. repeat split; auto; intros; discriminate.
Qed.

Lemma import_gframe (u : universe) g nm k g' o : nofree g -> import_ u g nm k = (g', o) -> gframe g g'.
Proof.
  intros NF. pose proof NF as [F Fp]. unfold import_. destruct (nth_error (u_lkinds u) k) as [kd|]; [|intros [= <- <-]; now apply gframe_refl].
  destruct (alist_get N.eqb (imports g) nm); [intros [= <- <-]; now apply gframe_refl|].
  destruct (negb (u_import_name_ok u nm)); [intros [= <- <-]; now apply gframe_refl|].
  destruct (add_node g _) as [s1 idx] eqn:A. apply add_node_nofree in A as (-> & Hn & F' & He & Hi & Hx & Hd & Hp & Hf); auto.
  intros [= <- <-]. apply gframe_intro; auto; cbn; try congruence.
  - now apply get_pkg_same.
  - right. left. eauto.
Qed.

Lemma update_node_gframe g n f g' :
  nofree g -> (forall nd, node_stable nd (f nd)) -> update_node g n f = Some g' -> gframe g g'.
Proof.
  intros NF Hf. unfold update_node. destruct (get_node g n) as [nd|] eqn:G; [|discriminate].
  intros [= <-]. apply gframe_intro; auto; cbn; auto. right. right. exists n, nd, (f nd). auto.
Qed.

Lemma export_gframe (u : universe) g n e g' o : nofree g -> export_ u g n e = (g', o) -> gframe g g'.
Proof.
  intros NF. unfold export_. destruct (alist_get N.eqb (exports g) e); [intros [= <- <-]; now apply gframe_refl|].
  destruct (negb (u_export_name_ok u e)); [intros [= <- <-]; now apply gframe_refl|].
  destruct (update_node g n _) as [s1|] eqn:U; [|intros [= <- <-]; now apply gframe_refl].
  intros [= <- <-]. apply update_node_gframe in U; auto.
  - destruct U as [[A B] C D E]. constructor; [exact (conj A B)|exact C|exact D|exact E].
  - intros nd. unfold node_stable. cbn. tauto.
Qed.

Lemma set_name_gframe g n nm g' o : nofree g -> set_name g n nm = (g', o) -> gframe g g'.
Proof.
  intros NF. unfold set_name. destruct (update_node g n _) as [s1|] eqn:U; intros [= <- <-]; [|now apply gframe_refl].
  apply update_node_gframe in U; auto. intros nd. unfold node_stable. cbn. tauto.
Qed.

(** * monadic frames *)
Definition mframe {A} (m : M A) : Prop :=
  forall st x st', m st = inl (x, st') -> nofree (rs_g st) ->
    gframe (rs_g st) (rs_g st') /\ rs_scope st' = rs_scope st.

Lemma mframe_ret {A} (a : A) : mframe (ret a).
Proof. intros st x st' H NF. apply ret_inl in H as [-> ->]. split; auto. now apply gframe_refl. Qed.
Lemma mframe_err {A} e : mframe (@err A e).
Proof. intros st x st' H. discriminate. Qed.
Lemma mframe_panic {A} p : mframe (@panic A p).
Proof. intros st x st' H. discriminate. Qed.
Lemma mframe_unsupp {A} w : mframe (@unsupp A w).
Proof. intros st x st' H. discriminate. Qed.
Lemma mframe_fail {A} f : mframe (fun _ : rstate => @inr (A * rstate) fail f).
Proof. intros st x st' H. discriminate. Qed.
Lemma mframe_get_g : mframe get_g.
Proof. intros st x st' H NF. apply get_g_inl in H as [-> ->]. split; auto. now apply gframe_refl. Qed.
Lemma mframe_get_scope : mframe get_scope.
Proof. intros st x st' H NF. apply get_scope_inl in H as [-> ->]. split; auto. now apply gframe_refl. Qed.

Lemma mframe_bind {A B} (m : M A) (f : A -> M B) : mframe m -> (forall x, mframe (f x)) -> mframe (bind m f).
Proof.
  intros Hm Hf st y st' H NF. apply bind_inl in H as (x & s1 & H1 & H).
  destruct (Hm _ _ _ H1 NF) as [G1 S1]. destruct (Hf x _ _ _ H (gf_free _ _ G1)) as [G2 S2].
  split; [eapply gframe_trans; eauto|congruence].
Qed.

Lemma mframe_gop (f : gstate -> gstate * outcome) :
  (forall g g' o, nofree g -> f g = (g', o) -> gframe g g') -> mframe (gop f).
Proof. intros Hf st o st' H NF. apply gop_inl in H as [E S]. split; auto. eapply Hf; eauto. Qed.

Ltac mframe_step :=
  first [ apply mframe_ret | apply mframe_err | apply mframe_panic | apply mframe_unsupp | apply mframe_fail
        | apply mframe_get_g | apply mframe_get_scope
        | apply mframe_bind; [|intros ?] ].

Section Frames.
  Variable u : runiverse.
  Variable self_name : str.

  Lemma mframe_kind_of n : mframe (kind_of n).
  Proof. unfold kind_of. mframe_step; [mframe_step|]. destruct (get_node x n); mframe_step. Qed.

  Lemma mframe_local_item id : mframe (local_item id).
  Proof. unfold local_item. mframe_step; [mframe_step|]. destruct (im_get x (id_string id)) as [[? ?]|]; mframe_step. Qed.

  Lemma mframe_resolve_package nm v at_ : mframe (resolve_package u nm v at_).
  Proof.
    unfold resolve_package. destruct (ru_pkg_find u nm v); [|mframe_step].
    mframe_step; [mframe_step|]. destruct (find_pkg_slot x n).
    - destruct (nth_error (pkgs x) n0); mframe_step.
    - mframe_step.
      + apply mframe_gop. intros g g' o NF E. eapply register_gframe; eauto.
      + destruct x0; mframe_step.
  Qed.

  Lemma mframe_alias_export item nm at_ op : mframe (alias_export u item nm at_ op).
  Proof.
    unfold alias_export. mframe_step; [apply mframe_kind_of|]. destruct (inst_exports u x); [|mframe_step].
    destruct (has_key l nm); [|mframe_step]. mframe_step.
    - apply mframe_gop. intros g g' o NF E. eapply alias_gframe; eauto.
    - destruct x0; mframe_step.
  Qed.

  Lemma mframe_eval_postfix item pe parent : mframe (eval_postfix u item pe parent).
  Proof.
    destruct pe as [sp id|sp s]; cbn [eval_postfix].
    - mframe_step; [apply mframe_kind_of|]. destruct (inst_exports u x); [|mframe_step].
      mframe_step; [apply mframe_alias_export|]. destruct x0; mframe_step.
    - mframe_step; [apply mframe_alias_export|]. destruct x; mframe_step.
  Qed.

  Lemma mframe_postfix_chain l : forall item parent, mframe (postfix_chain u item parent l).
  Proof.
    induction l as [|pe r IH]; intros item parent; cbn [postfix_chain]; [mframe_step|].
    mframe_step; [apply mframe_eval_postfix|apply IH].
  Qed.

  Lemma mframe_inferred_name imports id item : mframe (inferred_name u imports id item).
  Proof.
    unfold inferred_name. mframe_step; [apply mframe_kind_of|].
    destruct (match instance_id u x with Some i => if has_key imports i then Some i else None | None => None end); [mframe_step|].
    mframe_step; [mframe_step|]. destruct (node_import_name x0 item) as [imp|p]; [|mframe_step].
    destruct (match imp with
              | Some nm => if has_key imports (ru_text u nm) then Some (ru_text u nm) else None
              | None => match get_alias_source u x0 item with
                        | Some (_, nm) => if has_key imports (ru_text u nm) then Some (ru_text u nm) else None
                        | None => None end end); [mframe_step|].
    destruct (find_matching_interface_name (id_string id) imports); mframe_step.
  Qed.

  Lemma mframe_tbl_insert t nm item at_ : mframe (tbl_insert t nm item at_).
  Proof. unfold tbl_insert. destruct (has_key t nm); mframe_step. Qed.

  (** [evalf] is framed on the expressions of the named arguments *)
  Definition args_framed (evalf : expr -> M nat) (args : list inst_arg) : Prop :=
    Forall (fun a => match a with ANamed _ e => mframe (evalf e) | _ => True end) args.

  Lemma mframe_pass1 evalf imports args : args_framed evalf args -> forall t req, mframe (pass1 u evalf imports args t req).
  Proof.
    induction args as [|a r IH]; intros HF t req; cbn [pass1]; [mframe_step|].
    inversion HF as [|? ? Ha Hr]; subst. destruct a as [id|id|an e|sp].
    - mframe_step; [apply mframe_local_item|]. mframe_step; [apply mframe_inferred_name|].
      mframe_step; [apply mframe_tbl_insert|]. now apply IH.
    - now apply IH.
    - mframe_step; [exact Ha|]. mframe_step; [apply mframe_tbl_insert|]. now apply IH.
    - destruct r; [now apply IH|mframe_step].
  Qed.

  Lemma mframe_spread_names item at_ expected : forall t any, mframe (spread_names u item at_ expected t any).
  Proof.
    induction expected as [|nm r IH]; intros t any; cbn [spread_names]; [mframe_step|].
    destruct (has_key t nm); [apply IH|]. mframe_step; [apply mframe_alias_export|]. destruct x; apply IH.
  Qed.

  Lemma mframe_spread_arg id expected t : mframe (spread_arg u id expected t).
  Proof.
    unfold spread_arg. mframe_step; [apply mframe_local_item|]. mframe_step; [apply mframe_kind_of|].
    destruct (u_inst_exports u x0); [|mframe_step]. mframe_step; [apply mframe_spread_names|].
    destruct x1 as [t' any]. destruct any; mframe_step.
  Qed.

  Lemma mframe_pass2 expected args : forall t, mframe (pass2 u args expected t).
  Proof.
    induction args as [|a r IH]; intros t; cbn [pass2]; [mframe_step|].
    destruct a; try apply IH. mframe_step; [apply mframe_spread_arg|apply IH].
  Qed.

  Lemma mframe_set_args inst t : mframe (set_args u inst t).
  Proof.
    induction t as [|[nm [n at_]] r IH]; cbn [set_args]; [mframe_step|].
    mframe_step.
    - apply mframe_gop. intros g g' o NF E. eapply set_arg_gframe; eauto.
    - destruct x; try mframe_step; [exact IH|]. destruct e; mframe_step.
  Qed.

  Lemma mframe_new_expr evalf pkg args : args_framed evalf args -> mframe (new_expr u self_name evalf pkg args).
  Proof.
    intros HF. unfold new_expr. destruct (str_eqb (pn_name pkg) self_name); [mframe_step|].
    mframe_step; [apply mframe_resolve_package|]. mframe_step; [mframe_step|].
    destruct (pkg_desc u x0 x); [|mframe_step].
    mframe_step; [now apply mframe_pass1|]. destruct x1 as [t1 req].
    mframe_step; [apply mframe_pass2|].
    mframe_step; [apply mframe_gop; intros g g' o NF E; eapply instantiate_gframe; eauto|].
    destruct x2; try apply mframe_panic.
    mframe_step; [apply mframe_set_args|].
    destruct req; [|mframe_step]. destruct (find _ _); mframe_step.
  Qed.
End Frames.

(** * induction over expressions (nested through the argument lists) *)
Section ExprInd.
  Variable P : expr -> Prop.
  Variable Q : primary_expr -> Prop.
  Definition argP (a : inst_arg) : Prop := match a with ANamed _ e => P e | _ => True end.
  Hypothesis HExpr : forall sp p post, Q p -> P (Expr sp p post).
  Hypothesis HNew : forall sp pkg args, Forall argP args -> Q (PNew sp pkg args).
  Hypothesis HNested : forall sp inner, P inner -> Q (PNested sp inner).
  Hypothesis HIdent : forall i, Q (PIdent i).

  Fixpoint expr_ind' (e : expr) : P e :=
    match e with Expr sp p post => HExpr sp p post (primary_ind' p) end
  with primary_ind' (p : primary_expr) : Q p :=
    match p with
    | PNew sp pkg args =>
        HNew sp pkg args
          ((fix go (l : list inst_arg) : Forall argP l :=
              match l with
              | [] => Forall_nil argP
              | a :: r =>
                  @Forall_cons inst_arg argP a r
                    (match a as a0 return argP a0 with
                     | ANamed _ e => expr_ind' e
                     | _ => I
                     end) (go r)
              end) args)
    | PNested sp inner => HNested sp inner (expr_ind' inner)
    | PIdent i => HIdent i
    end.
End ExprInd.

Section EvalFrame.
  Variable u : runiverse.
  Variable self_name : str.

  (** evaluating an expression only extends the graph and leaves the scope alone *)
  Theorem mframe_eval_expr e : mframe (eval_expr u self_name e).
  Proof.
    apply (expr_ind' (fun e => mframe (eval_expr u self_name e)) (fun p => mframe (eval_primary u self_name p))).
    - intros sp p post Hp. cbn [eval_expr]. apply mframe_bind; [exact Hp|]. intros n. apply mframe_postfix_chain.
    - intros sp pkg args HA. cbn [eval_primary]. apply mframe_new_expr. exact HA.
    - intros sp inner Hi. exact Hi.
    - intros i. apply mframe_local_item.
  Qed.
End EvalFrame.

(** * the argument edges of an instantiation *)
Lemma get_full_nth' {B} (l : list (name * B)) k : forall i j v,
  get_full l k i = Some (j, v) -> i <= j /\ nth_error l (j - i) = Some (k, v).
Proof.
  induction l as [|[k' v'] l IH]; intros i j v H; cbn in H; [discriminate|].
  destruct (N.eqb_spec k' k) as [->|Hne].
  - injection H as <- <-. rewrite Nat.sub_diag. auto.
  - apply IH in H as [L N]. split; [lia|]. replace (j - i) with (S (j - S i)) by lia. exact N.
Qed.

Lemma scan_same es index arg :
  scan_incoming es index arg = ScanSame -> exists e, In e es /\ ek e = EArg index /\ esrc e = arg.
Proof.
  induction es as [|e r IH]; cbn; [discriminate|]. destruct (ek e) eqn:K; try discriminate.
  destruct (Nat.eqb_spec i index) as [->|Hne].
  - destruct (Nat.eqb_spec (esrc e) arg) as [<-|]; [|discriminate]. intros _. exists e. auto.
  - intros H. destruct (IH H) as (e' & Hi & A & B). exists e'. auto.
Qed.

Section ArgEdges.
  Variable u : universe.

  (** membership in [get_args], unfolded *)
  Definition has_arg (g : gstate) (inst : nat) (a : name) (arg : nat) : Prop :=
    exists nd sat imps e i k,
      get_node g inst = Some nd /\ nk nd = NInst sat /\ inst_imports u g nd = Some imps /\
      In e (edges g) /\ etgt e = inst /\ esrc e = arg /\ ek e = EArg i /\ nth_error imps i = Some (a, k).

  Lemma has_arg_get_args g inst a arg : has_arg g inst a arg -> In (a, arg) (get_args u g inst).
  Proof.
    intros (nd & sat & imps & e & i & k & G & K & Im & He & T & S & Ke & Nt). unfold get_args. rewrite G, K, Im.
    apply in_flat_map. exists e. split.
    - unfold incoming. apply filter_In. split; auto. now apply Nat.eqb_eq.
    - rewrite Ke, Nt, S. now left.
  Qed.

  Lemma inst_imports_same g g' nd nd' : pkgs g' = pkgs g -> npkg nd' = npkg nd -> inst_imports u g' nd' = inst_imports u g nd.
  Proof. intros P N. unfold inst_imports, pkg_desc, get_pkg. now rewrite N, P. Qed.

  (** a successful [set_arg] makes the node an argument *)
  Lemma set_arg_adds g inst a arg g' :
    set_arg u g inst a arg = (g', OUnit) -> has_arg g' inst a arg.
  Proof.
    unfold set_arg. destruct (get_node g inst) as [nd|] eqn:G; [|discriminate].
    destruct (nk nd) as [| |sat|] eqn:K; try discriminate.
    destruct (inst_imports u g nd) as [imps|] eqn:Im; [|discriminate].
    destruct (get_full imps a 0) as [[index expected]|] eqn:GF; [|discriminate].
    apply get_full_nth' in GF as [_ Nt]. rewrite Nat.sub_0_r in Nt.
    destruct (scan_incoming (incoming g inst) index arg) eqn:Sc; try discriminate.
    - (* fresh edge *)
      destruct (get_node g arg) as [an|]; [|discriminate].
      destruct (negb (u_sub u (nitem an) expected)); [discriminate|].
      unfold add_satisfied.
      change (get_node (add_edge g {| esrc := arg; etgt := inst; ek := EArg index |}) inst) with (get_node g inst).
      rewrite G, K. destruct (existsb (Nat.eqb index) sat); [discriminate|]. intros [= <-].
      set (nd' := {| nk := NInst (index :: sat); npkg := npkg nd; nitem := nitem nd; nname := nname nd; nexport := nexport nd |}).
      exists nd', (index :: sat), imps, {| esrc := arg; etgt := inst; ek := EArg index |}, index, expected.
      split.
      { unfold get_node, set_node. cbn. rewrite nth_error_set_nth', Nat.eqb_refl.
        assert (L : inst < length (nodes g)).
        { apply nth_error_Some. unfold get_node in G. intros X. rewrite X in G. discriminate. }
        apply Nat.ltb_lt in L. now rewrite L. }
      split; [reflexivity|]. split; [rewrite <- Im; now apply inst_imports_same|].
      split; [cbn; now left|]. cbn. auto.
    - (* already passed by the same node *)
      intros [= <-]. apply scan_same in Sc as (e & He & Ke & Se).
      unfold incoming in He. apply filter_In in He as [He T]. apply Nat.eqb_eq in T.
      exists nd, sat, imps, e, index, expected. repeat split; auto.
  Qed.

  (** ... and keeps the arguments already there *)
  Lemma set_arg_keeps g inst a arg g' o inst0 a0 arg0 :
    set_arg u g inst a arg = (g', o) -> has_arg g inst0 a0 arg0 -> has_arg g' inst0 a0 arg0.
  Proof.
    intros H (nd0 & sat0 & imps0 & e0 & i0 & k0 & G0 & K0 & Im0 & He0 & T0 & S0 & Ke0 & Nt0).
    unfold set_arg in H. destruct (get_node g inst) as [nd|] eqn:G; [|injection H as <- _; exists nd0, sat0, imps0, e0, i0, k0; auto 10].
    destruct (nk nd) as [| |sat|] eqn:K; try (injection H as <- _; exists nd0, sat0, imps0, e0, i0, k0; auto 10; fail).
    destruct (inst_imports u g nd) as [imps|] eqn:Im; [|injection H as <- _; exists nd0, sat0, imps0, e0, i0, k0; auto 10].
    destruct (get_full imps a 0) as [[index expected]|]; [|injection H as <- _; exists nd0, sat0, imps0, e0, i0, k0; auto 10].
    destruct (scan_incoming (incoming g inst) index arg); try (injection H as <- _; exists nd0, sat0, imps0, e0, i0, k0; auto 10; fail).
    destruct (get_node g arg) as [an|]; [|injection H as <- _; exists nd0, sat0, imps0, e0, i0, k0; auto 10].
    destruct (negb (u_sub u (nitem an) expected)); [injection H as <- _; exists nd0, sat0, imps0, e0, i0, k0; auto 10|].
    unfold add_satisfied in H.
    change (get_node (add_edge g {| esrc := arg; etgt := inst; ek := EArg index |}) inst) with (get_node g inst) in H.
    rewrite G, K in H. destruct (existsb (Nat.eqb index) sat); [injection H as <- _; exists nd0, sat0, imps0, e0, i0, k0; auto 10|].
    injection H as <- _.
    set (nd' := {| nk := NInst (index :: sat); npkg := npkg nd; nitem := nitem nd; nname := nname nd; nexport := nexport nd |}).
    assert (L : inst < length (nodes g)).
    { apply nth_error_Some. unfold get_node in G. intros X. rewrite X in G. discriminate. }
    apply Nat.ltb_lt in L.
    destruct (Nat.eq_dec inst0 inst) as [->|Hne].
    - rewrite G in G0. injection G0 as <-. rewrite K in K0. injection K0 as <-.
      exists nd', (index :: sat), imps0, e0, i0, k0. split.
      { unfold get_node, set_node. cbn. now rewrite nth_error_set_nth', Nat.eqb_refl, L. }
      split; [reflexivity|]. split; [rewrite <- Im0; now apply inst_imports_same|].
      split; [cbn; now right|]. auto.
    - exists nd0, sat0, imps0, e0, i0, k0. split.
      { unfold get_node, set_node. cbn. rewrite nth_error_set_nth'. apply Nat.eqb_neq in Hne. now rewrite Hne. }
      split; auto. split; [rewrite <- Im0; now apply inst_imports_same|]. split; [cbn; now right|]. auto.
  Qed.
End ArgEdges.

Section SetArgs.
  Variable u : runiverse.

  (** every entry of the table is an argument of the instantiation afterwards *)
  Lemma set_args_all inst : forall t st st',
    set_args u inst t st = inl (tt, st') ->
    (forall a0 arg0, has_arg u (rs_g st) inst a0 arg0 -> has_arg u (rs_g st') inst a0 arg0) /\
    (forall nm n at_, In (nm, (n, at_)) t -> has_arg u (rs_g st') inst (ru_intern u nm) n).
  Proof.
    induction t as [|[nm [n at_]] r IH]; intros st st' H.
    - cbn in H. apply ret_inl in H as [_ ->]. split; auto. intros ? ? ? [].
    - cbn [set_args] in H. apply bind_inl in H as (o & s1 & H1 & H). apply gop_inl in H1 as [H1 _].
      destruct o as [| | |e|p]; try discriminate. 2:{ destruct e; discriminate. }
      apply IH in H as [Keep All]. split.
      + intros a0 arg0 HA. apply Keep. eapply set_arg_keeps; eauto.
      + intros nm' n' at' [[= <- <- <-]|Hin]; [|eauto]. apply Keep. eapply set_arg_adds; eauto.
  Qed.
End SetArgs.

Lemma str_eq_dec (a b : str) : {a = b} + {a <> b}.
Proof. destruct (str_eqb a b) eqn:E; [left; now apply str_eqb_eq|right; intros ->; rewrite str_eqb_refl in E; discriminate]. Qed.

Lemma classic_nodup (l : list str) : NoDup l \/ ~ NoDup l.
Proof.
  induction l as [|a l IH]; [left; constructor|].
  destruct IH as [ND|NND]; [|right; intros H; inversion H; auto].
  destruct (in_dec str_eq_dec a l) as [Hi|Hn]; [right; intros H; inversion H; auto|left; now constructor].
Qed.

(** * the [new] expression *)
Section NewExpr.
  Variable u : runiverse.
  Variable self_name : str.

  Lemma new_expr_inl evalf pkg args st inst st' :
    new_expr u self_name evalf pkg args st = inl (inst, st') ->
    str_eqb (pn_name pkg) self_name = false /\
    exists id s0 pd t1 req s1 t2 s2 s3,
      resolve_package u (pn_name pkg) (pn_version pkg) (off (pn_span pkg)) st = inl (id, s0) /\
      pkg_desc u (rs_g s0) id = Some pd /\
      pass1 u evalf (text_items u (pd_imports pd)) args [] true s0 = inl ((t1, req), s1) /\
      pass2 u args (map fst (text_items u (pd_imports pd))) t1 s1 = inl (t2, s2) /\
      instantiate u (rs_g s2) id = (rs_g s3, ONode inst) /\ rs_scope s3 = rs_scope s2 /\
      set_args u inst t2 s3 = inl (tt, st') /\
      (req = true -> find (fun p => negb (has_key t2 (fst p))) (text_items u (pd_imports pd)) = None).
  Proof.
    unfold new_expr. destruct (str_eqb (pn_name pkg) self_name); [discriminate|]. intros H. split; auto.
    apply bind_inl in H as (id & s0 & H0 & H). apply bind_inl in H as (g & s0' & Hg & H). apply get_g_inl in Hg as [-> ->].
    destruct (pkg_desc u (rs_g s0) id) as [pd|] eqn:PD; [|discriminate].
    apply bind_inl in H as ([t1 req] & s1 & H1 & H). apply bind_inl in H as (t2 & s2 & H2 & H).
    apply bind_inl in H as (o & s3 & H3 & H). apply gop_inl in H3 as [H3 Sc3].
    destruct o; try discriminate. apply bind_inl in H as ([] & s4 & H4 & H).
    assert (Fin : inst = n /\ st' = s4 /\
                  (req = true -> find (fun p => negb (has_key t2 (fst p))) (text_items u (pd_imports pd)) = None)).
    { destruct req.
      - destruct (find _ _) eqn:Fd; [discriminate|]. apply ret_inl in H as [-> ->]. auto.
      - apply ret_inl in H as [-> ->]. split; auto. split; auto. discriminate. }
    destruct Fin as (-> & -> & HM).
    exists id, s0, pd, t1, req, s1, t2, s2, s3.
    split; [exact H0|]. split; [exact PD|]. split; [exact H1|]. split; [exact H2|]. split; [exact H3|].
    split; [exact Sc3|]. split; [exact H4|exact HM].
  Qed.

  (** the outcome of [new] once its arguments are passed: complete, or the first missing import *)
  Lemma new_expr_outcome evalf pkg args st id s0 pd t1 req s1 t2 s2 s3 inst s4 :
    str_eqb (pn_name pkg) self_name = false ->
    resolve_package u (pn_name pkg) (pn_version pkg) (off (pn_span pkg)) st = inl (id, s0) ->
    pkg_desc u (rs_g s0) id = Some pd ->
    pass1 u evalf (text_items u (pd_imports pd)) args [] true s0 = inl ((t1, req), s1) ->
    pass2 u args (map fst (text_items u (pd_imports pd))) t1 s1 = inl (t2, s2) ->
    gop (fun g => instantiate u g id) s2 = inl (ONode inst, s3) ->
    set_args u inst t2 s3 = inl (tt, s4) ->
    new_expr u self_name evalf pkg args st =
      if req then
        match find (fun p => negb (has_key t2 (fst p))) (text_items u (pd_imports pd)) with
        | Some p => inr (FErr (EMissingInstantiationArg (fst p) (off (pn_span pkg))))
        | None => inl (inst, s4)
        end
      else inl (inst, s4).
  Proof.
    intros E H0 PD H1 H2 H3 H4. unfold new_expr. rewrite E. unfold bind at 1. rewrite H0.
    unfold bind at 1. unfold get_g at 1. rewrite PD. unfold bind at 1. rewrite H1. unfold bind at 1. rewrite H2.
    unfold bind at 1. rewrite H3. unfold bind at 1. rewrite H4.
    destruct req; [|reflexivity]. destruct (find _ _); reflexivity.
  Qed.

  (** 1./2. Argument binding.  After a successful [new]: the first pass produced one table entry
      per explicit (inferred or named) argument, with pairwise different names, and accepted [...]
      only in last position; the spreads were applied in order, each adding exactly the expected
      names it exports that were still unbound (and at least one); and every import of the
      instantiated package is bound by the FIRST applicable rule -- the explicit argument of that
      name, else the first spread (in order) whose instance exports it, else it is left to be an
      implicit import when [...] is present -- and none is missing.  Every table entry is an argument
      of the new instantiation in the resulting graph ([get_args]). *)
  Lemma new_expr_binding_at evalf pkg args st id s0 pd t1 req s1 t2 s2 s3 inst st' :
    resolve_package u (pn_name pkg) (pn_version pkg) (off (pn_span pkg)) st = inl (id, s0) ->
    pkg_desc u (rs_g s0) id = Some pd ->
    pass1 u evalf (text_items u (pd_imports pd)) args [] true s0 = inl ((t1, req), s1) ->
    pass2 u args (map fst (text_items u (pd_imports pd))) t1 s1 = inl (t2, s2) ->
    instantiate u (rs_g s2) id = (rs_g s3, ONode inst) ->
    set_args u inst t2 s3 = inl (tt, st') ->
    (req = true -> find (fun p => negb (has_key t2 (fst p))) (text_items u (pd_imports pd)) = None) ->
    args_framed evalf args -> nofree (rs_g st) ->
    exists recs,
      pkg_desc u (rs_g st') id = Some pd /\
      (forall nm n at_, im_get t2 nm = Some (n, at_) -> In (ru_intern u nm, n) (get_args u (rs_g st') inst)) /\
      (NoDup (map fst (text_items u (pd_imports pd))) ->
        NoDup (map fst t1) /\ length t1 = length (filter is_explicit_arg args) /\
        req = negb (existsb is_fill_arg args) /\
        (forall pre sp post, args = pre ++ AFill sp :: post -> post = []) /\
        map sr_id recs = spread_idents args /\
        spreads_from u (map fst (text_items u (pd_imports pd))) t1 recs t2 /\
        (forall i, In i (map fst (text_items u (pd_imports pd))) ->
           match bind_import t1 (map to_src recs) (negb req) i with
           | BExplicit x => im_get t2 i = Some x
           | BSpread sp => exists n, im_get t2 i = Some (n, snd (sp_val sp)) /\ alias_witness u (fst (sp_val sp)) i n
           | BImplicit => im_get t2 i = None
           | BMissing => False
           end)).
  Proof.
    intros H0 PD H1 H2 H3 H4 HM HF NF.
    destruct (mframe_resolve_package u _ _ _ _ _ _ H0 NF) as [G0 _].
    destruct (mframe_pass1 u evalf _ args HF _ _ _ _ _ H1 (gf_free _ _ G0)) as [G1 _].
    destruct (mframe_pass2 u _ args _ _ _ _ H2 (gf_free _ _ G1)) as [G2 _].
    assert (G3 : gframe (rs_g s2) (rs_g s3)) by (eapply instantiate_gframe; [exact (gf_free _ _ G2)|exact H3]).
    destruct (mframe_set_args u inst t2 _ _ _ H4 (gf_free _ _ G3)) as [G4 _].
    assert (PD' : pkg_desc u (rs_g st') id = Some pd).
    { unfold pkg_desc in *. destruct (get_pkg (rs_g s0) id) as [p|] eqn:GP; [|discriminate].
      assert (GF : gframe (rs_g s0) (rs_g st')).
      { eapply gframe_trans; [exact G1|]. eapply gframe_trans; [exact G2|]. eapply gframe_trans; [exact G3|exact G4]. }
      now rewrite (gf_pkgs _ _ GF _ _ GP). }
    destruct (pass1_inl u evalf _ args _ _ _ _ _ _ H1 (NoDup_nil _)) as (ND1 & (ex & E1 & L1) & Rq & FL).
    cbn in E1. subst ex.
    assert (exists recs, map sr_id recs = spread_idents args /\
              (NoDup (map fst (text_items u (pd_imports pd))) ->
               spreads_from u (map fst (text_items u (pd_imports pd))) t1 recs t2)) as (recs & Ids & SFh).
    { destruct (classic_nodup (map fst (text_items u (pd_imports pd)))) as [ND|NND].
      - destruct (pass2_inl u _ args _ _ _ _ H2 (gf_free _ _ G1) ND) as (recs & Ids & _ & SF & _). exists recs. auto.
      - exists (map (fun id => {| sr_id := id; sr_item := 0; sr_exports := []; sr_adds := [] |}) (spread_idents args)).
        split; [rewrite map_map; cbn; apply map_id|]. intros ND. contradiction. }
    exists recs. split; [exact PD'|].
    split.
    { intros nm n at_ L. apply im_get_In in L. apply has_arg_get_args.
      destruct (set_args_all u inst t2 _ _ H4) as [_ All]. eapply All; eauto. }
    intros ND. specialize (SFh ND).
    split; [exact ND1|]. split; [exact L1|]. split; [now rewrite Rq|]. split; [exact FL|]. split; [exact Ids|]. split; [exact SFh|].
    intros i Hi. pose proof (spreads_from_binding u _ (negb req) _ _ _ SFh ND i Hi) as B.
    destruct (bind_import t1 (map to_src recs) (negb req) i) eqn:BI; auto.
    (* missing: impossible after a successful [new] *)
    unfold bind_import in BI. destruct (im_get t1 i); [discriminate|]. destruct (first_spread _ i); [discriminate|].
    destruct req; [|discriminate]. specialize (HM eq_refl).
    apply in_map_iff in Hi as (p & <- & Hp). pose proof (find_none _ _ HM p Hp) as X. cbn in X.
    apply negb_false_iff in X. unfold has_key in X. now rewrite B in X.
  Qed.

  Theorem new_expr_binding evalf pkg args st inst st' :
    new_expr u self_name evalf pkg args st = inl (inst, st') ->
    args_framed evalf args -> nofree (rs_g st) ->
    exists id pd t1 req recs t2,
      pkg_desc u (rs_g st') id = Some pd /\
      (forall nm n at_, im_get t2 nm = Some (n, at_) -> In (ru_intern u nm, n) (get_args u (rs_g st') inst)) /\
      (NoDup (map fst (text_items u (pd_imports pd))) ->
        NoDup (map fst t1) /\ length t1 = length (filter is_explicit_arg args) /\
        req = negb (existsb is_fill_arg args) /\
        (forall pre sp post, args = pre ++ AFill sp :: post -> post = []) /\
        map sr_id recs = spread_idents args /\
        spreads_from u (map fst (text_items u (pd_imports pd))) t1 recs t2 /\
        (forall i, In i (map fst (text_items u (pd_imports pd))) ->
           match bind_import t1 (map to_src recs) (negb req) i with
           | BExplicit x => im_get t2 i = Some x
           | BSpread sp => exists n, im_get t2 i = Some (n, snd (sp_val sp)) /\ alias_witness u (fst (sp_val sp)) i n
           | BImplicit => im_get t2 i = None
           | BMissing => False
           end)).
  Proof.
    intros H HF NF. apply new_expr_inl in H as (_ & id & s0 & pd & t1 & req & s1 & t2 & s2 & s3 & H0 & PD & H1 & H2 & H3 & Sc3 & H4 & HM).
    destruct (new_expr_binding_at evalf pkg args st id s0 pd t1 req s1 t2 s2 s3 inst st' H0 PD H1 H2 H3 H4 HM HF NF) as (recs & X).
    exists id, pd, t1, req, recs, t2. exact X.
  Qed.

  (** 6c. A missing argument: once the arguments are passed, [new] is rejected with
      [MissingInstantiationArg] exactly when [...] is absent and some import has no table entry
      (by [new_expr_binding]: no explicit argument and no spread provides it); the import named is
      the first such in the package's import order, the span is the package name's. *)
  Theorem new_expr_missing evalf pkg args st id s0 pd t1 req s1 t2 s2 s3 inst s4 nm a :
    str_eqb (pn_name pkg) self_name = false ->
    resolve_package u (pn_name pkg) (pn_version pkg) (off (pn_span pkg)) st = inl (id, s0) ->
    pkg_desc u (rs_g s0) id = Some pd ->
    pass1 u evalf (text_items u (pd_imports pd)) args [] true s0 = inl ((t1, req), s1) ->
    pass2 u args (map fst (text_items u (pd_imports pd))) t1 s1 = inl (t2, s2) ->
    gop (fun g => instantiate u g id) s2 = inl (ONode inst, s3) ->
    set_args u inst t2 s3 = inl (tt, s4) ->
    (new_expr u self_name evalf pkg args st = inr (FErr (EMissingInstantiationArg nm a)) <->
     req = true /\ a = off (pn_span pkg) /\
     exists k, find (fun p => negb (has_key t2 (fst p))) (text_items u (pd_imports pd)) = Some (nm, k)).
  Proof.
    intros E H0 PD H1 H2 H3 H4. rewrite (new_expr_outcome evalf pkg args st id s0 pd t1 req s1 t2 s2 s3 inst s4); auto.
    destruct req.
    - destruct (find _ _) as [[n k]|] eqn:Fd; cbn [fst].
      + split.
        * intros [= <- <-]. split; auto. split; auto. eauto.
        * intros (_ & -> & k' & [= <- <-]). reflexivity.
      + split; [discriminate|]. intros (_ & _ & k' & X). discriminate.
    - split; [discriminate|]. intros (X & _). discriminate.
  Qed.

  (** ** ineffective and non-instance spreads *)
  Lemma spread_names_idle item at_ nd ex : forall expected t any st,
    get_node (rs_g st) item = Some nd -> inst_exports u (nitem nd) = Some ex ->
    spread_filter t ex expected = [] ->
    spread_names u item at_ expected t any st = inl ((t, any), st).
  Proof.
    induction expected as [|nm r IH]; intros t any st G IE SF; [reflexivity|].
    unfold spread_filter in SF. cbn [filter] in SF. cbn [spread_names].
    destruct (has_key t nm) eqn:HK; [now apply IH|].
    cbn [negb andb] in SF. destruct (has_key ex nm) eqn:HE; [discriminate|].
    unfold bind at 1. unfold alias_export, bind at 1. unfold kind_of, bind at 1. unfold get_g at 1. rewrite G.
    unfold ret at 1. rewrite IE, HE. unfold ret at 1. now apply IH.
  Qed.

  Lemma spread_names_no_err item at_ nd ex : forall expected t any st e,
    nofree (rs_g st) -> get_node (rs_g st) item = Some nd -> inst_exports u (nitem nd) = Some ex ->
    spread_names u item at_ expected t any st <> inr (FErr e).
  Proof.
    induction expected as [|nm r IH]; intros t any st e NF G IE H; [discriminate|].
    cbn [spread_names] in H. destruct (has_key t nm); [eapply IH; eauto|].
    apply bind_inr in H as [H|(a & s1 & H1 & H)].
    - apply alias_export_not_instance in H as (_ & nd' & G' & IE'). rewrite G in G'. injection G' as <-. congruence.
    - pose proof H1 as H1'. apply alias_export_inl in H1 as (nd' & ex' & G' & IE' & Sc & [(HK' & -> & ->)|(HK' & n & -> & A)]).
      + eapply IH; eauto.
      + destruct (alias_same_nodes u _ _ _ _ _ NF A) as (NF1 & _ & _ & _ & _ & N1). eapply IH; eauto.
  Qed.

  (** 6h/6f. A spread argument is rejected with [SpreadInstantiationNoMatch] exactly when its
      instance exports none of the still-unbound imports, and with [NotAnInstance{Spread}] exactly
      when it is not an instance (the identifier being defined) *)
  Theorem spread_arg_errors id expected t st item at0 nd :
    nofree (rs_g st) -> NoDup expected ->
    im_get (rs_scope st) (id_string id) = Some (item, at0) -> get_node (rs_g st) item = Some nd ->
    (forall a, spread_arg u id expected t st = inr (FErr (ENotAnInstance OpSpread a)) <->
               inst_exports u (nitem nd) = None /\ a = off (id_span id)) /\
    (forall a, spread_arg u id expected t st = inr (FErr (ESpreadInstantiationNoMatch a)) <->
               exists ex, inst_exports u (nitem nd) = Some ex /\ spread_filter t ex expected = [] /\ a = off (id_span id)).
  Proof.
    intros NF ND L G.
    assert (Hd : spread_arg u id expected t st =
                 match u_inst_exports u (nitem nd) with
                 | None => inr (FErr (ENotAnInstance OpSpread (off (id_span id))))
                 | Some _ =>
                     match spread_names u item (off (id_span id)) expected t false st with
                     | inl ((t', any), s) => if any then inl (t', s) else inr (FErr (ESpreadInstantiationNoMatch (off (id_span id))))
                     | inr f => inr f
                     end
                 end).
    { unfold spread_arg, bind at 1. unfold local_item, bind at 1. unfold get_scope at 1. rewrite L. unfold ret at 1.
      unfold bind at 1. unfold kind_of, bind at 1. unfold get_g at 1. rewrite G. unfold ret at 1.
      destruct (u_inst_exports u (nitem nd)); [|reflexivity]. unfold bind at 1.
      destruct (spread_names u item (off (id_span id)) expected t false st) as [[[t' any] s]|f]; [|reflexivity].
      destruct any; reflexivity. }
    rewrite Hd. unfold inst_exports. destruct (u_inst_exports u (nitem nd)) as [l|] eqn:UE.
    - assert (IE : inst_exports u (nitem nd) = Some (text_items u l)) by (unfold inst_exports; now rewrite UE).
      destruct (spread_names u item (off (id_span id)) expected t false st) as [[[t' any] s]|f] eqn:SN.
      + destruct (spread_names_inl u item _ nd _ _ _ _ _ _ _ _ SN NF ND G IE) as (adds & -> & MF & _ & -> & _).
        cbn [orb]. split; intros a.
        * split; [destruct adds; discriminate|intros [X _]; discriminate].
        * destruct adds as [|x adds]; cbn [is_nil negb].
          -- split; [intros [= <-]; exists (text_items u l); rewrite <- MF; auto|reflexivity || (intros (ex & _ & _ & ->); reflexivity)].
          -- split; [discriminate|]. intros (ex & [= <-] & SF & _). rewrite <- MF in SF. discriminate.
      + split; intros a.
        * split; [|intros [X _]; discriminate]. intros [= ->]. exfalso. eapply spread_names_no_err; eauto.
        * split; [intros [= ->]; exfalso; eapply spread_names_no_err; eauto|].
          intros (ex & [= <-] & SF & ->). rewrite (spread_names_idle item _ nd _ _ _ _ _ G IE SF) in SN. discriminate.
    - split; intros a.
      + split; [intros [= <-]; auto|intros [_ ->]; reflexivity].
      + split; [discriminate|intros (ex & X & _); discriminate].
  Qed.
End NewExpr.
