(** C14: the recursion of the parser is not bounded by anything but the input. For every [d] the text
    [package a:b;let x=] [(]^d [y] [)]^d [;]  (2d + 20 characters) is accepted and its tree nests [d + 1]
    expressions, each level one activation of [Expr::parse] -> [PrimaryExpr::parse] ->
    [NestedExpr::parse] of the Rust code (no depth guard): the model-level form of the stack-overflow
    finding. The lexing of the text is computed symbolically, one token per step. *)
From Coq Require Import String.
From WacV Require Import Str StrLit Token Lexer LexTables LexImpl Semver Ast Parser ParserComb NoPanicSpans.
From Coq Require Import ZArith Lia.
Local Open Scope nat_scope.

Definition c_open : N := 40.  Definition c_close : N := 41.  Definition c_semi : N := 59.  Definition c_y : N := 121.

Definition deep_tail (d : nat) : str := repeat c_open d ++ c_y :: repeat c_close d ++ [c_semi].
Definition deep_src (d : nat) : str := L"package a:b;let x=" ++ deep_tail d.

Lemma deep_src_length d : length (deep_src d) = 2 * d + 20.
Proof. unfold deep_src, deep_tail. rewrite !app_length. cbn [length]. rewrite app_length, !repeat_length. cbn [length]. lia. Qed.

(* ------------------------------------------------------------------ lexing, one token per step *)

Definition ptok (k : token) (c : N) (o : N) : lexitem :=
  LTok {| tk := k; tsp := {| off := o; slen := 1 |}; ttext := [c]; tdocs := [] |}.

Definition t_pkg : rtoken := {| tk := TPackageKeyword; tsp := {| off := 0; slen := 7 |}; ttext := L"package"; tdocs := [] |}.
Definition t_name : rtoken := {| tk := TPackageName; tsp := {| off := 8; slen := 3 |}; ttext := L"a:b"; tdocs := [] |}.
Definition t_semi1 : rtoken := {| tk := TSemicolon; tsp := {| off := 11; slen := 1 |}; ttext := [c_semi]; tdocs := [] |}.
Definition t_let : rtoken := {| tk := TLetKeyword; tsp := {| off := 12; slen := 3 |}; ttext := L"let"; tdocs := [] |}.
Definition t_x : rtoken := {| tk := TIdent; tsp := {| off := 16; slen := 1 |}; ttext := [120%N]; tdocs := [] |}.
Definition t_eq : rtoken := {| tk := TEquals; tsp := {| off := 17; slen := 1 |}; ttext := [61%N]; tdocs := [] |}.

Definition pre_toks : list lexitem := [LTok t_pkg; LTok t_name; LTok t_semi1; LTok t_let; LTok t_x; LTok t_eq].

Lemma lex_pre f tail :
  lex_loop (6 + f) impl_cfg 0 (L"package a:b;let x=" ++ tail) = pre_toks ++ lex_loop f impl_cfg 18 tail.
Proof.
  change (6 + f) with (S (S (S (S (S (S f)))))). reflexivity.
Qed.

Fixpoint opens (o : N) (d : nat) : list lexitem :=
  match d with O => [] | S d' => ptok TOpenParen c_open o :: opens (o + 1) d' end.
Fixpoint closes (o : N) (d : nat) : list lexitem :=
  match d with O => [] | S d' => ptok TCloseParen c_close o :: closes (o + 1) d' end.

Lemma lex_open f o rest :
  lex_loop (S f) impl_cfg o (c_open :: rest) = ptok TOpenParen c_open o :: lex_loop f impl_cfg (o + 1) rest.
Proof. reflexivity. Qed.
Lemma lex_close f o rest :
  lex_loop (S f) impl_cfg o (c_close :: rest) = ptok TCloseParen c_close o :: lex_loop f impl_cfg (o + 1) rest.
Proof. reflexivity. Qed.
Lemma lex_y_close f o rest :
  lex_loop (S f) impl_cfg o (c_y :: c_close :: rest) = ptok TIdent c_y o :: lex_loop f impl_cfg (o + 1) (c_close :: rest).
Proof. reflexivity. Qed.
Lemma lex_y_semi f o rest :
  lex_loop (S f) impl_cfg o (c_y :: c_semi :: rest) = ptok TIdent c_y o :: lex_loop f impl_cfg (o + 1) (c_semi :: rest).
Proof. reflexivity. Qed.
Lemma lex_semi_end f o : lex_loop (S (S f)) impl_cfg o [c_semi] = [ptok TSemicolon c_semi o].
Proof. reflexivity. Qed.

Lemma lex_opens d : forall f o rest,
  lex_loop (d + f) impl_cfg o (repeat c_open d ++ rest) = opens o d ++ lex_loop f impl_cfg (o + N.of_nat d) rest.
Proof.
  induction d as [|d IH]; intros f o rest.
  - cbn [plus repeat app opens]. now rewrite N.add_0_r.
  - cbn [plus repeat app opens]. rewrite lex_open, IH. do 3 f_equal. lia.
Qed.

Lemma lex_closes d : forall f o,
  lex_loop (d + S (S f)) impl_cfg o (repeat c_close d ++ [c_semi]) =
  closes o d ++ [ptok TSemicolon c_semi (o + N.of_nat d)].
Proof.
  induction d as [|d IH]; intros f o.
  - cbn [plus repeat app closes]. rewrite lex_semi_end. now rewrite N.add_0_r.
  - cbn [plus repeat app closes]. rewrite lex_close, IH. do 4 f_equal. lia.
Qed.

Definition deep_tokens (d : nat) : list lexitem :=
  pre_toks ++ opens 18 d ++ ptok TIdent c_y (18 + N.of_nat d)
           :: closes (19 + N.of_nat d) d ++ [ptok TSemicolon c_semi (19 + N.of_nat d + N.of_nat d)].

Lemma screen_from_app a : forall s1 s2 o,
  screen_from a o s1 = None -> screen_from a o (s1 ++ s2) = screen_from a (o + byte_len s1) s2.
Proof.
  induction s1 as [|c s1 IH]; intros s2 o; cbn [screen_from app byte_len].
  - intros _. now rewrite N.add_0_r.
  - destruct (arm_verdict a c); [discriminate|]. intros H. rewrite (IH _ _ H). f_equal. lia.
Qed.

Lemma screen_from_repeat a c n : arm_verdict a c = None -> forall o, screen_from a o (repeat c n) = None.
Proof. intros Hc. induction n as [|n IH]; intros o; cbn [repeat screen_from]; [reflexivity|]. now rewrite Hc. Qed.

Lemma screen_deep d : screen impl_cfg (deep_src d) = None.
Proof.
  unfold screen, deep_src, deep_tail.
  rewrite screen_from_app by reflexivity.
  rewrite screen_from_app by (apply screen_from_repeat; reflexivity).
  change (c_y :: repeat c_close d ++ [c_semi]) with ([c_y] ++ repeat c_close d ++ [c_semi]).
  rewrite screen_from_app by reflexivity.
  rewrite screen_from_app by (apply screen_from_repeat; reflexivity).
  reflexivity.
Qed.

Lemma lex_deep d : lex impl_cfg (deep_src d) = deep_tokens d.
Proof.
  unfold lex. rewrite screen_deep. rewrite deep_src_length.
  replace (S (S (2 * d + 20))) with (6 + (d + (1 + (d + S (S 13))))) by lia.
  unfold deep_src. rewrite lex_pre. unfold deep_tokens, deep_tail. f_equal.
  rewrite lex_opens. f_equal.
  destruct d as [|d].
  - cbn [repeat app plus closes]. rewrite lex_y_semi, lex_semi_end. cbn [N.of_nat].
    replace (18 + 0 + 1)%N with (19 + 0)%N by lia. replace (19 + 0 + 0)%N with (19 + 0)%N by lia. reflexivity.
  - cbn [repeat app]. change (1 + (S d + S (S 13))) with (S (S d + S (S 13))).
    rewrite lex_y_close.
    change (c_close :: repeat c_close d ++ [c_semi]) with (repeat c_close (S d) ++ [c_semi]).
    rewrite lex_closes. replace (18 + N.of_nat (S d) + 1)%N with (19 + N.of_nat (S d))%N by lia. reflexivity.
Qed.

(* ------------------------------------------------------------------ parsing nested parentheses *)

(** [nested d ts r]: [ts] is [d] opening parentheses, an identifier, [d] closing parentheses, then [r]. *)
Fixpoint nested (d : nat) (ts r : list lexitem) : Prop :=
  match d with
  | O => exists t, ts = LTok t :: r /\ tk t = TIdent
  | S d' => exists t ts' t', ts = LTok t :: ts' /\ tk t = TOpenParen /\ tk t' = TCloseParen /\
                             nested d' ts' (LTok t' :: r)
  end.

Definition quiet (r : list lexitem) : Prop :=
  match peek_kind r with Some k => k <> TDot /\ k <> TOpenBracket | None => True end.

Lemma postfix_loop_quiet n e r : quiet r -> postfix_loop (S n) e r = POk [] r.
Proof.
  unfold quiet. cbn [postfix_loop]. destruct (peek_kind r) as [k|]; [|reflexivity]. intros [H1 H2].
  apply token_eqb_neq in H1, H2. now rewrite H1, H2.
Qed.

Lemma parse_nested e : forall d f ts r,
  nested d ts r -> quiet r -> d < f -> 0 < fuel e ->
  exists x, parse_expr_f f e ts = POk x r /\ expr_depth x = S d.
Proof.
  induction d as [|d IH]; intros f ts r Hn Hq Hf He; (destruct f as [|f]; [lia|]);
    (destruct (fuel e) as [|fe] eqn:Efe; [lia|]); cbn [parse_expr_f nested] in *.
  - destruct Hn as (t & -> & Hk). unfold expr_step, primary_step, alt. cbn [peek_kind]. rewrite Hk.
    cbn [alt_find mem_tok token_eqb token_code N.eqb Pos.eqb orb]. unfold parse_ident, next_tok. rewrite Hk.
    cbn [token_eqb token_code N.eqb Pos.eqb bind]. rewrite Efe, (postfix_loop_quiet _ _ _ Hq). cbn [bind].
    eexists. split; [reflexivity|reflexivity].
  - destruct Hn as (t & ts' & t' & -> & Hk & Hk' & Hn).
    assert (Hq' : quiet (LTok t' :: r)).
    { unfold quiet. cbn [peek_kind]. rewrite Hk'. split; discriminate. }
    destruct (IH f ts' (LTok t' :: r) Hn Hq' ltac:(lia) ltac:(lia)) as (x & Hx & Hdx).
    unfold expr_step, primary_step, alt. cbn [peek_kind]. rewrite Hk.
    cbn [alt_find mem_tok token_eqb token_code N.eqb Pos.eqb orb]. unfold parse_token, next_tok. rewrite Hk.
    cbn [token_eqb token_code N.eqb Pos.eqb bind]. rewrite Hx. cbn [bind]. rewrite Hk'.
    cbn [token_eqb token_code N.eqb Pos.eqb bind]. rewrite Efe, (postfix_loop_quiet _ _ _ Hq). cbn [bind].
    eexists. split; [reflexivity|]. cbn [mk_expr expr_depth primary_depth]. now rewrite Hdx.
Qed.

Lemma closes_snoc d : forall o, closes o (S d) = closes o d ++ [ptok TCloseParen c_close (o + N.of_nat d)].
Proof.
  induction d as [|d IH]; intros o.
  - cbn [closes app N.of_nat]. now rewrite N.add_0_r.
  - change (closes o (S (S d))) with (ptok TCloseParen c_close o :: closes (o + 1) (S d)).
    rewrite IH. cbn [closes app]. do 4 f_equal. lia.
Qed.

Lemma nested_tokens d : forall o o' oy r,
  nested d (opens o d ++ ptok TIdent c_y oy :: closes o' d ++ r) r.
Proof.
  induction d as [|d IH]; intros o o' oy r.
  - cbn [nested opens closes app]. eexists. split; reflexivity.
  - rewrite closes_snoc. cbn [nested opens app]. rewrite <- app_assoc. cbn [app].
    eexists _, _, _. split; [reflexivity|]. split; [reflexivity|]. split; [|apply IH]. reflexivity.
Qed.

(* ------------------------------------------------------------------ the whole document *)

Lemma next_tok_hit e k t r : tk t = k -> next_tok e k (LTok t :: r) = POk t r.
Proof. intros <-. unfold next_tok. now rewrite token_eqb_refl. Qed.

Lemma parse_token_hit e k t r : tk t = k -> parse_token e k (LTok t :: r) = POk (tsp t) r.
Proof. intros H. unfold parse_token. now rewrite (next_tok_hit _ _ _ _ H). Qed.

Lemma parse_ident_hit e t r : tk t = TIdent -> parse_ident e (LTok t :: r) = POk (mk_ident t) r.
Proof. intros H. unfold parse_ident. now rewrite (next_tok_hit _ _ _ _ H). Qed.

Theorem deep_parse d :
  exists doc, parse_document impl_flags impl_cfg (deep_src d) = POk doc [] /\
              rec_depth (POk doc []) = S d.
Proof.
  unfold parse_document. change (cfg_with impl_flags impl_cfg) with impl_cfg. rewrite lex_deep.
  set (e := {| dv := impl_flags; cx := mk_ctx (deep_src d) (deep_tokens d);
               fuel := S (length (deep_tokens d)) |}).
  assert (Hlen : length (deep_tokens d) = 2 * d + 8).
  { unfold deep_tokens. rewrite !app_length. cbn [length pre_toks]. rewrite app_length. cbn [length].
    assert (forall n o, length (opens o n) = n) as Ho by (induction n; intros; cbn; auto).
    assert (forall n o, length (closes o n) = n) as Hc by (induction n; intros; cbn; auto).
    rewrite Ho, Hc. lia. }
  assert (Hfe : fuel e = S (S (2 * d + 7))) by (unfold e; cbn [fuel]; rewrite Hlen; f_equal; lia).
  set (semi := {| tk := TSemicolon; tsp := {| off := 19 + N.of_nat d + N.of_nat d; slen := 1 |};
                  ttext := [c_semi]; tdocs := [] |}).
  set (body := opens 18 d ++ ptok TIdent c_y (18 + N.of_nat d) :: closes (19 + N.of_nat d) d ++ [LTok semi]).
  destruct (parse_nested e d (fuel e) body [LTok semi]
              (nested_tokens d 18 (19 + N.of_nat d) (18 + N.of_nat d) [LTok semi])) as (x & Hx & Hdx).
  { unfold quiet. cbn. split; discriminate. }
  { rewrite Hfe. lia. }
  { rewrite Hfe. lia. }
  set (stmt := SLet [] (mk_ident t_x) x).
  assert (Hlet : parse_let_statement e (LTok t_let :: LTok t_x :: LTok t_eq :: body) = POk stmt []).
  { unfold parse_let_statement. cbv zeta. rewrite parse_token_hit by reflexivity. cbn [bind].
    rewrite parse_ident_hit by reflexivity. cbn [bind]. rewrite parse_token_hit by reflexivity. cbn [bind].
    unfold parse_expr. rewrite Hx. cbn [bind]. rewrite parse_token_hit by reflexivity. reflexivity. }
  assert (Hstmt : parse_statement e (LTok t_let :: LTok t_x :: LTok t_eq :: body) = POk stmt []).
  { unfold parse_statement. eapply alt_complete; [reflexivity|reflexivity|exact Hlet]. }
  assert (Hloop : statements_loop (fuel e) e (LTok t_let :: LTok t_x :: LTok t_eq :: body) = POk [stmt] []).
  { rewrite Hfe. cbn [statements_loop]. rewrite Hstmt. reflexivity. }
  assert (Hdir : forall r, parse_directive e (LTok t_pkg :: LTok t_name :: LTok t_semi1 :: r) =
                           POk {| pd_package := {| pn_string := L"a:b"; pn_name := L"a:b"; pn_version := None;
                                                   pn_span := tsp t_name |};
                                  pd_targets := None |} r).
  { intros r. unfold parse_directive. rewrite parse_token_hit by reflexivity. cbn [bind].
    unfold parse_package_name. rewrite next_tok_hit by reflexivity. cbn [bind].
    change (of_leaf (package_name_of t_name) (LTok t_semi1 :: r)) with
      (POk {| pn_string := L"a:b"; pn_name := L"a:b"; pn_version := None; pn_span := tsp t_name |} (LTok t_semi1 :: r)).
    cbn [bind]. change (parse_optional TTargetsKeyword (parse_package_path e) (LTok t_semi1 :: r))
      with (@POk (option package_path) None (LTok t_semi1 :: r)). cbn [bind].
    rewrite parse_token_hit by reflexivity. reflexivity. }
  change (deep_tokens d) with (LTok t_pkg :: LTok t_name :: LTok t_semi1 :: LTok t_let :: LTok t_x :: LTok t_eq :: body).
  unfold parse_document_items. cbv zeta. rewrite Hdir. cbn [bind]. rewrite Hloop. cbn [bind].
  eexists. split; [reflexivity|].
  cbn [rec_depth doc_statements map statement_depth list_max fold_right stmt]. unfold stmt. cbn [statement_depth].
  rewrite Hdx. lia.
Qed.
