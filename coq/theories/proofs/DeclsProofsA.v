(** C05, part A: infrastructure for the simulation between the declaration resolver ([Decls.v]) and the
    WIT denotation ([WitDenote.v]).

    - fuel-free relational views of [unfold_vt]/[res_name_of]/[unfold_func]/[unfold] with
      constructor-style introduction rules and the inversions that the later parts need;
    - arena extension [aext] and transport of every view along it;
    - the relations between scopes and environments ([rel_item], [Renv]) and between export lists and
      item lists ([Rexts]), all instances of one keyed pointwise relation [R2]. *)
From Coq Require Import ZArith ZifyBool ZifyN Lia.
From WacV Require Import Str Types CheckerEq CheckerValue CheckerProofs Decls WitDenote.
From WacV Require Ast.
Set Warnings "-unused-intro-pattern".

(** * Inversion of [dbind] *)
Lemma dbind_ok {A B} (r : dres A) (f : A -> dres B) b :
  dbind r f = DOk b -> exists a, r = DOk a /\ f a = DOk b.
Proof. destruct r as [a| | | |]; cbn [dbind]; try discriminate. intro H. exists a. auto. Qed.

Tactic Notation "dinv" hyp(H) "as" simple_intropattern(p) :=
  apply dbind_ok in H as p; cbv beta iota in H.

(** * Generic list facts *)
Lemma all_some_forall2 {A B} (U : A -> option B) l l' :
  all_some (map U l) = Some l' -> Forall2 (fun x y => U x = Some y) l l'.
Proof.
  revert l'. induction l as [|x l IH]; intros l'; cbn [map all_some].
  - intro H. injection H as <-. constructor.
  - destruct (U x) as [y|] eqn:E; [|discriminate]. destruct (all_some (map U l)) as [r|]; [|discriminate].
    intro H. injection H as <-. constructor; auto.
Qed.
Lemma forall2_all_some {A B} (U : A -> option B) l l' :
  Forall2 (fun x y => U x = Some y) l l' -> all_some (map U l) = Some l'.
Proof.
  induction 1 as [|x y l l' Hxy _ IH]; cbn [map all_some]; [reflexivity|]. now rewrite Hxy, IH.
Qed.
Lemma all_some_app {A} (l1 l2 : list (option A)) r1 r2 :
  all_some l1 = Some r1 -> all_some l2 = Some r2 -> all_some (l1 ++ l2) = Some (r1 ++ r2).
Proof.
  revert r1. induction l1 as [|[x|] l1 IH]; intros r1; cbn [all_some app]; try discriminate.
  - intro H. injection H as <-. auto.
  - destruct (all_some l1) as [r|]; [|discriminate]. intros H H2. injection H as <-.
    now rewrite (IH _ eq_refl H2).
Qed.

Lemma Forall2_imp {A B} (P Q : A -> B -> Prop) l l' : (forall a b, P a b -> Q a b) -> Forall2 P l l' -> Forall2 Q l l'.
Proof. intros H. induction 1; constructor; auto. Qed.

(** keyed maps over association lists *)
Lemma map_snd_forall2 {K A B} (U : A -> option B) (l : list (K * A)) l' :
  map_snd U l = Some l' -> Forall2 (fun a b => fst a = fst b /\ U (snd a) = Some (snd b)) l l'.
Proof.
  revert l'. induction l as [|[k x] l IH]; intros l' H.
  - unfold map_snd in H. cbn in H. injection H as <-. constructor.
  - apply map_snd_cons in H as [y [r [Hy [Hr ->]]]]. constructor; [cbn; auto | auto].
Qed.
Lemma forall2_map_snd {K A B} (U : A -> option B) (l : list (K * A)) l' :
  Forall2 (fun a b => fst a = fst b /\ U (snd a) = Some (snd b)) l l' -> map_snd U l = Some l'.
Proof.
  unfold map_snd. induction 1 as [|[k x] [k' y] l l' [Hk Hxy] _ IH]; cbn [map all_some fst snd] in *; [reflexivity|].
  subst k'. now rewrite Hxy, IH.
Qed.

(** a common fuel for a list of fuel-indexed facts *)
Section Collect.
  Context {A B : Type} (U : nat -> A -> option B).
  Hypothesis mono : forall f f' x y, (f <= f')%nat -> U f x = Some y -> U f' x = Some y.

  Lemma collect_list l l' :
    Forall2 (fun x y => exists f, U f x = Some y) l l' -> exists f, all_some (map (U f) l) = Some l'.
  Proof.
    induction 1 as [|x y l l' [f1 H1] _ [f2 IH]]; [exists O; reflexivity|].
    exists (Nat.max f1 f2). cbn [map all_some].
    rewrite (mono f1 _ x y (Nat.le_max_l _ _) H1).
    assert (He : ext_some (U f2) (U (Nat.max f1 f2))) by (intros a b; apply mono; apply Nat.le_max_r).
    now rewrite (all_some_map_ext _ _ _ _ He IH).
  Qed.
  Lemma collect_opt o o' :
    match o, o' with Some x, Some y => exists f, U f x = Some y | None, None => True | _, _ => False end ->
    exists f, omap (U f) o = Some o'.
  Proof.
    destruct o as [x|], o' as [y|]; try contradiction.
    - intros [f H]. exists f. cbn [omap]. now rewrite H.
    - intros _. exists O. reflexivity.
  Qed.
  Lemma collect_keyed {K} (l : list (K * A)) l' :
    Forall2 (fun a b => fst a = fst b /\ exists f, U f (snd a) = Some (snd b)) l l' -> exists f, map_snd (U f) l = Some l'.
  Proof.
    induction 1 as [|[k x] [k' y] l l' [Hk [f1 H1]] _ [f2 IH]]; [exists O; reflexivity|]. cbn [fst snd] in *. subst k'.
    exists (Nat.max f1 f2). apply forall2_map_snd. constructor.
    - cbn [fst snd]. split; [reflexivity|]. apply (mono f1); [apply Nat.le_max_l | exact H1].
    - apply map_snd_forall2. assert (He : ext_some (U f2) (U (Nat.max f1 f2))) by (intros a b; apply mono; apply Nat.le_max_r).
      apply (map_snd_ext _ _ _ _ He IH).
  Qed.
End Collect.

Lemma omap_mono {A B} (U : nat -> A -> option B) :
  (forall f f' x y, (f <= f')%nat -> U f x = Some y -> U f' x = Some y) ->
  forall f f' o o', (f <= f')%nat -> omap (U f) o = Some o' -> omap (U f') o = Some o'.
Proof. intros mono f f' o o' Hle. apply omap_ext. intros x y. now apply mono. Qed.

(** * Relational views *)
Definition uv (t : types) (v : valtype) (tr : vtree) : Prop := exists f, unfold_vt f t v = Some tr.
Definition un (t : types) (r : id) (n : str) : Prop := exists f, res_name_of f t r = Some n.
Definition uf (t : types) (i : id) (ft : ftree) : Prop := exists f, unfold_func f t i = Some ft.
Definition uk (t : types) (k : kind) (tr : tree) : Prop := exists f, unfold f t k = Some tr.

Definition uvo (t : types) (o : option valtype) (o' : option vtree) : Prop :=
  match o, o' with Some v, Some tr => uv t v tr | None, None => True | _, _ => False end.

(** keyed pointwise relation *)
Definition R2 {A B} (P : A -> B -> Prop) (l : list (str * A)) (l' : list (str * B)) : Prop :=
  Forall2 (fun a b => fst a = fst b /\ P (snd a) (snd b)) l l'.

Lemma R2_nil {A B} (P : A -> B -> Prop) : R2 P [] [].
Proof. constructor. Qed.
Lemma R2_cons {A B} (P : A -> B -> Prop) k x y l l' : P x y -> R2 P l l' -> R2 P ((k, x) :: l) ((k, y) :: l').
Proof. intros H1 H2. constructor; [cbn; auto | exact H2]. Qed.
Lemma R2_app {A B} (P : A -> B -> Prop) l1 l1' l2 l2' : R2 P l1 l1' -> R2 P l2 l2' -> R2 P (l1 ++ l2) (l1' ++ l2').
Proof. apply Forall2_app. Qed.
Lemma R2_snoc {A B} (P : A -> B -> Prop) k x y l l' : R2 P l l' -> P x y -> R2 P (l ++ [(k, x)]) (l' ++ [(k, y)]).
Proof. intros H1 H2. apply R2_app; [exact H1|]. apply R2_cons; [exact H2 | apply R2_nil]. Qed.
Lemma R2_mono {A B} (P Q : A -> B -> Prop) l l' : (forall x y, P x y -> Q x y) -> R2 P l l' -> R2 Q l l'.
Proof. intros H. induction 1 as [|a b l l' [Hk Hp] _ IH]; constructor; auto. Qed.
Lemma R2_keys {A B} (P : A -> B -> Prop) l l' : R2 P l l' -> map fst l = map fst l'.
Proof. induction 1 as [|a b l l' [Hk _] _ IH]; cbn [map]; [reflexivity | now rewrite Hk, IH]. Qed.
Lemma R2_assoc {A B} (P : A -> B -> Prop) l l' k : R2 P l l' ->
  match assoc k l, assoc k l' with Some x, Some y => P x y | None, None => True | _, _ => False end.
Proof.
  induction 1 as [|[k1 x] [k2 y] l l' [Hk Hp] _ IH]; cbn [assoc fst snd] in *; [exact I|]. subst k2.
  destruct (str_eqb k k1); [exact Hp | exact IH].
Qed.
Lemma R2_assoc_some {A B} (P : A -> B -> Prop) l l' k x : R2 P l l' -> assoc k l = Some x ->
  exists y, assoc k l' = Some y /\ P x y.
Proof.
  intros H E. pose proof (R2_assoc P l l' k H) as Ha. rewrite E in Ha.
  destruct (assoc k l') as [y|]; [eauto | contradiction].
Qed.
Lemma R2_assoc_none {A B} (P : A -> B -> Prop) l l' k : R2 P l l' -> assoc k l = None -> assoc k l' = None.
Proof.
  intros H E. pose proof (R2_assoc P l l' k H) as Ha. rewrite E in Ha.
  destruct (assoc k l') as [y|]; [contradiction | reflexivity].
Qed.
Lemma R2_has {A B} (P : A -> B -> Prop) l l' k : R2 P l l' -> has k l = bound k l'.
Proof.
  intros H. unfold has, bound. pose proof (R2_assoc P l l' k H) as Ha.
  destruct (assoc k l), (assoc k l'); auto; contradiction.
Qed.
Lemma R2_forall2 {A B} (P : A -> B -> Prop) l l' :
  R2 P l l' -> Forall2 (fun a b => fst a = fst b /\ P (snd a) (snd b)) l l'.
Proof. auto. Qed.

Notation Rexts t := (R2 (uk t)).
Notation uvf t := (R2 (uv t)).
Notation uvc t := (R2 (uvo t)).

(** ** Monotonicity instances *)
Lemma uv_mono t : forall f f' x y, (f <= f')%nat -> unfold_vt f t x = Some y -> unfold_vt f' t x = Some y.
Proof. intros. eapply unfold_vt_mono; eauto. Qed.
Lemma uvo_mono t : forall f f' x y, (f <= f')%nat -> omap (unfold_vt f t) x = Some y -> omap (unfold_vt f' t) x = Some y.
Proof. apply (omap_mono (fun f => unfold_vt f t)). apply uv_mono. Qed.
Lemma uk_mono t : forall f f' x y, (f <= f')%nat -> unfold f t x = Some y -> unfold f' t x = Some y.
Proof. intros. eapply unfold_mono; eauto. Qed.

Lemma uvo_omap t o o' : uvo t o o' -> exists f, omap (unfold_vt f t) o = Some o'.
Proof. intro H. apply (collect_opt (fun f => unfold_vt f t)). exact H. Qed.
Lemma omap_uvo t f o o' : omap (unfold_vt f t) o = Some o' -> uvo t o o'.
Proof.
  destruct o as [v|]; cbn [omap].
  - destruct (unfold_vt f t v) as [y|] eqn:E; [|discriminate]. intro H. injection H as <-. exists f. exact E.
  - intro H. injection H as <-. exact I.
Qed.

Lemma uvs_collect t l l' : Forall2 (uv t) l l' -> exists f, all_some (map (unfold_vt f t) l) = Some l'.
Proof. apply (collect_list (fun f => unfold_vt f t)). apply uv_mono. Qed.
Lemma uvf_collect t l l' : uvf t l l' -> exists f, map_snd (unfold_vt f t) l = Some l'.
Proof. apply (collect_keyed (fun f => unfold_vt f t)). apply uv_mono. Qed.
Lemma uvc_collect t l l' : uvc t l l' -> exists f, map_snd (omap (unfold_vt f t)) l = Some l'.
Proof.
  intro H. apply (collect_keyed (fun f => omap (unfold_vt f t))); [apply uvo_mono|].
  eapply Forall2_imp; [|exact H]. cbv beta. intros a b [Hk Hp]. split; [exact Hk|]. now apply uvo_omap.
Qed.
Lemma Rexts_collect t l l' : Rexts t l l' -> exists f, map_snd (unfold f t) l = Some l'.
Proof. apply (collect_keyed (fun f => unfold f t)). apply uk_mono. Qed.

Lemma map_snd_uvf t f l l' : map_snd (unfold_vt f t) l = Some l' -> uvf t l l'.
Proof.
  intro H. apply map_snd_forall2 in H. eapply Forall2_imp; [|exact H].
  intros a b [Hk Hp]. split; [exact Hk | exists f; exact Hp].
Qed.
Lemma map_snd_uvc t f l l' : map_snd (omap (unfold_vt f t)) l = Some l' -> uvc t l l'.
Proof.
  intro H. apply map_snd_forall2 in H. eapply Forall2_imp; [|exact H].
  intros a b [Hk Hp]. split; [exact Hk | eapply omap_uvo; exact Hp].
Qed.
Lemma map_snd_Rexts t f l l' : map_snd (unfold f t) l = Some l' -> Rexts t l l'.
Proof.
  intro H. apply map_snd_forall2 in H. eapply Forall2_imp; [|exact H].
  intros a b [Hk Hp]. split; [exact Hk | exists f; exact Hp].
Qed.
Lemma all_some_uvs t f l l' : all_some (map (unfold_vt f t) l) = Some l' -> Forall2 (uv t) l l'.
Proof.
  intro H. apply all_some_forall2 in H. eapply Forall2_imp; [|exact H]. cbv beta. intros a b Hp. exists f. exact Hp.
Qed.

(** ** Introduction rules: value types *)
Lemma uv_prim t p : uv t (VPrim p) (VTPrim p).
Proof. exists 1%nat. reflexivity. Qed.
Lemma un_pos t r n f : res_name_of f t r = Some n -> exists g, f = S g.
Proof. destruct f; [discriminate | eauto]. Qed.
Lemma uv_borrow t r n : un t r n -> uv t (VBorrow r) (VTBorrow n).
Proof. intros [f H]. destruct (un_pos _ _ _ _ H) as [g ->]. exists (S g). cbn [unfold_vt]. now rewrite H. Qed.
Lemma uv_own t r n : un t r n -> uv t (VOwn r) (VTOwn n).
Proof. intros [f H]. destruct (un_pos _ _ _ _ H) as [g ->]. exists (S g). cbn [unfold_vt]. now rewrite H. Qed.

Lemma uv_list t d x tx : get_def t d = Some (DList x) -> uv t x tx -> uv t (VDefined d) (VTList tx).
Proof. intros E [f H]. exists (S f). cbn [unfold_vt]. now rewrite E, H. Qed.
Lemma uv_option t d x tx : get_def t d = Some (DOption x) -> uv t x tx -> uv t (VDefined d) (VTOption tx).
Proof. intros E [f H]. exists (S f). cbn [unfold_vt]. now rewrite E, H. Qed.
Lemma uv_alias t d x tx : get_def t d = Some (DAlias x) -> uv t x tx -> uv t (VDefined d) tx.
Proof. intros E [f H]. exists (S f). cbn [unfold_vt]. now rewrite E, H. Qed.
Lemma uv_tuple t d l l' : get_def t d = Some (DTuple l) -> Forall2 (uv t) l l' -> uv t (VDefined d) (VTTuple l').
Proof. intros E H. destruct (uvs_collect _ _ _ H) as [f Hf]. exists (S f). cbn [unfold_vt]. now rewrite E, Hf. Qed.
Lemma uv_result t d o e o' e' :
  get_def t d = Some (DResult o e) -> uvo t o o' -> uvo t e e' -> uv t (VDefined d) (VTResult o' e').
Proof.
  intros E Ho He. destruct (uvo_omap _ _ _ Ho) as [f1 H1]. destruct (uvo_omap _ _ _ He) as [f2 H2].
  exists (S (Nat.max f1 f2)). cbn [unfold_vt]. rewrite E.
  rewrite (uvo_mono t f1 _ _ _ (Nat.le_max_l _ _) H1), (uvo_mono t f2 _ _ _ (Nat.le_max_r _ _) H2). reflexivity.
Qed.
Lemma uv_variant t d c c' : get_def t d = Some (DVariant c) -> uvc t c c' -> uv t (VDefined d) (VTVariant c').
Proof. intros E H. destruct (uvc_collect _ _ _ H) as [f Hf]. exists (S f). cbn [unfold_vt]. now rewrite E, Hf. Qed.
Lemma uv_record t d c c' : get_def t d = Some (DRecord c) -> uvf t c c' -> uv t (VDefined d) (VTRecord c').
Proof. intros E H. destruct (uvf_collect _ _ _ H) as [f Hf]. exists (S f). cbn [unfold_vt]. now rewrite E, Hf. Qed.
Lemma uv_flags t d l : get_def t d = Some (DFlags l) -> uv t (VDefined d) (VTFlags l).
Proof. intros E. exists 1%nat. cbn [unfold_vt]. now rewrite E. Qed.
Lemma uv_enum t d l : get_def t d = Some (DEnum l) -> uv t (VDefined d) (VTEnum l).
Proof. intros E. exists 1%nat. cbn [unfold_vt]. now rewrite E. Qed.

(** ** Inversion of a defined value type *)
Definition uv_def_shape (t : types) (x : deftype) (tr : vtree) : Prop :=
  match x with
  | DTuple l => exists l', tr = VTTuple l' /\ Forall2 (uv t) l l'
  | DList y => exists ty, tr = VTList ty /\ uv t y ty
  | DFsl y n => exists ty, tr = VTFsl ty n /\ uv t y ty
  | DOption y => exists ty, tr = VTOption ty /\ uv t y ty
  | DResult o e => exists o' e', tr = VTResult o' e' /\ uvo t o o' /\ uvo t e e'
  | DVariant c => exists c', tr = VTVariant c' /\ uvc t c c'
  | DRecord c => exists c', tr = VTRecord c' /\ uvf t c c'
  | DFlags l => tr = VTFlags l
  | DEnum l => tr = VTEnum l
  | DAlias y => uv t y tr
  | DStream o => exists o', tr = VTStream o' /\ uvo t o o'
  | DFuture o => exists o', tr = VTFuture o' /\ uvo t o o'
  end.
Lemma uv_def_inv t d x tr : get_def t d = Some x -> uv t (VDefined d) tr -> uv_def_shape t x tr.
Proof.
  intros E [f H]. destruct f as [|f]; [discriminate|]. cbn [unfold_vt] in H. rewrite E in H.
  destruct x; cbn [uv_def_shape].
  - destruct (all_some _) as [l'|] eqn:E1; [|discriminate]. injection H as <-. eexists; split; [reflexivity|].
    eapply all_some_uvs; exact E1.
  - destruct (unfold_vt f t v) as [y|] eqn:E1; [|discriminate]. injection H as <-. eexists; split; [reflexivity | exists f; exact E1].
  - destruct (unfold_vt f t v) as [y|] eqn:E1; [|discriminate]. injection H as <-. eexists; split; [reflexivity | exists f; exact E1].
  - destruct (unfold_vt f t v) as [y|] eqn:E1; [|discriminate]. injection H as <-. eexists; split; [reflexivity | exists f; exact E1].
  - destruct (omap _ ok) as [o'|] eqn:E1; [|discriminate]. destruct (omap _ err) as [e'|] eqn:E2; [|discriminate].
    injection H as <-. do 2 eexists; split; [reflexivity|]. split; eapply omap_uvo; eassumption.
  - destruct (map_snd _ cases) as [c'|] eqn:E1; [|discriminate]. injection H as <-. eexists; split; [reflexivity|].
    eapply map_snd_uvc; exact E1.
  - destruct (map_snd _ fields) as [c'|] eqn:E1; [|discriminate]. injection H as <-. eexists; split; [reflexivity|].
    eapply map_snd_uvf; exact E1.
  - now injection H as <-.
  - now injection H as <-.
  - exists f. exact H.
  - destruct (omap _ o) as [o'|] eqn:E1; [|discriminate]. injection H as <-. eexists; split; [reflexivity|]. eapply omap_uvo; exact E1.
  - destruct (omap _ o) as [o'|] eqn:E1; [|discriminate]. injection H as <-. eexists; split; [reflexivity|]. eapply omap_uvo; exact E1.
Qed.
Lemma uv_prim_inv t p tr : uv t (VPrim p) tr -> tr = VTPrim p.
Proof. intros [[|f] H]; [discriminate|]. cbn in H. now injection H as <-. Qed.
Lemma uv_borrow_inv t r tr : uv t (VBorrow r) tr -> exists n, tr = VTBorrow n /\ un t r n.
Proof.
  intros [[|f] H]; [discriminate|]. cbn [unfold_vt] in H.
  destruct (res_name_of (S f) t r) as [n|] eqn:E; [|discriminate]. injection H as <-. exists n. split; [reflexivity | exists (S f); exact E].
Qed.
Lemma uv_own_inv t r tr : uv t (VOwn r) tr -> exists n, tr = VTOwn n /\ un t r n.
Proof.
  intros [[|f] H]; [discriminate|]. cbn [unfold_vt] in H.
  destruct (res_name_of (S f) t r) as [n|] eqn:E; [|discriminate]. injection H as <-. exists n. split; [reflexivity | exists (S f); exact E].
Qed.

(** ** Resources *)
Lemma un_def t r x : get_res t r = Some x -> res_alias x = None -> un t r (res_name x).
Proof. intros E Ha. exists 1%nat. cbn [res_name_of]. rewrite E. unfold res_source. now rewrite Ha. Qed.
Lemma un_alias t r x o s n : get_res t r = Some x -> res_alias x = Some (o, s) -> un t s n -> un t r n.
Proof. intros E Ha [f H]. exists (S f). cbn [res_name_of]. rewrite E. unfold res_source. now rewrite Ha. Qed.

(** ** Functions *)
Lemma uf_intro t i x ps r :
  get_func t i = Some x -> uvf t (f_params x) ps -> uvo t (f_result x) r -> uf t i (mkft ps r (f_async x)).
Proof.
  intros E Hp Hr. destruct (uvf_collect _ _ _ Hp) as [f1 H1]. destruct (uvo_omap _ _ _ Hr) as [f2 H2].
  exists (Nat.max f1 f2). unfold unfold_func. rewrite E.
  assert (He : ext_some (unfold_vt f1 t) (unfold_vt (Nat.max f1 f2) t)) by (intros a b; apply uv_mono; apply Nat.le_max_l).
  rewrite (map_snd_ext _ _ _ _ He H1), (uvo_mono t f2 _ _ _ (Nat.le_max_r _ _) H2). reflexivity.
Qed.
Lemma uf_inv t i ft : uf t i ft ->
  exists x, get_func t i = Some x /\ uvf t (f_params x) (ft_params ft) /\ uvo t (f_result x) (ft_result ft) /\ ft_async ft = f_async x.
Proof.
  intros [f H]. unfold unfold_func in H. destruct (get_func t i) as [x|]; [|discriminate]. exists x.
  destruct (map_snd _ (f_params x)) as [ps|] eqn:E1; [|discriminate].
  destruct (omap _ (f_result x)) as [r|] eqn:E2; [|discriminate]. injection H as <-. cbn.
  split; [reflexivity|]. split; [eapply map_snd_uvf; exact E1|]. split; [eapply omap_uvo; exact E2 | reflexivity].
Qed.

(** ** Kinds *)
Lemma uk_tvalue t v tr : uv t v tr -> uk t (KType (TValue v)) (XTValue tr).
Proof. intros [f H]. destruct f as [|f]; [discriminate|]. exists (S f). rewrite unfold_eq. cbn [unfold_body]. now rewrite H. Qed.
Lemma uk_tres t r n : un t r n -> uk t (KType (TResource r)) (XTRes n).
Proof. intros [f H]. destruct f as [|f]; [discriminate|]. exists (S f). rewrite unfold_eq. cbn [unfold_body]. now rewrite H. Qed.
Lemma uk_tfunc t i ft : uf t i ft -> uk t (KType (TFunc i)) (XTFunc ft).
Proof.
  intros [f H]. exists (S f). rewrite unfold_eq. cbn [unfold_body]. now rewrite (unfold_func_S _ _ _ _ H).
Qed.
Lemma uk_func t i ft : uf t i ft -> uk t (KFunc i) (XFunc ft).
Proof.
  intros [f H]. exists (S f). rewrite unfold_eq. cbn [unfold_body]. now rewrite (unfold_func_S _ _ _ _ H).
Qed.
Lemma uk_inst t i x e : get_if t i = Some x -> Rexts t (i_exports x) e -> uk t (KInstance i) (XInst e).
Proof.
  intros E H. destruct (Rexts_collect _ _ _ H) as [f Hf]. exists (S f). rewrite unfold_eq. cbn [unfold_body].
  unfold unfold_inst. now rewrite E, Hf.
Qed.
Lemma uk_tinst t i x e : get_if t i = Some x -> Rexts t (i_exports x) e -> uk t (KType (TInterface i)) (XTInst e).
Proof.
  intros E H. destruct (Rexts_collect _ _ _ H) as [f Hf]. exists (S f). rewrite unfold_eq. cbn [unfold_body].
  unfold unfold_inst. now rewrite E, Hf.
Qed.
Lemma uk_tworld t w x i e :
  get_world t w = Some x -> Rexts t (w_imports x) i -> Rexts t (w_exports x) e -> uk t (KType (TWorld w)) (XTComp i e).
Proof.
  intros E Hi He. destruct (Rexts_collect _ _ _ Hi) as [f1 H1]. destruct (Rexts_collect _ _ _ He) as [f2 H2].
  exists (S (Nat.max f1 f2)). rewrite unfold_eq. cbn [unfold_body]. unfold unfold_comp. rewrite E.
  assert (He1 : ext_some (unfold f1 t) (unfold (Nat.max f1 f2) t)) by (intros a b; apply uk_mono; apply Nat.le_max_l).
  assert (He2 : ext_some (unfold f2 t) (unfold (Nat.max f1 f2) t)) by (intros a b; apply uk_mono; apply Nat.le_max_r).
  rewrite (map_snd_ext _ _ _ _ He1 H1), (map_snd_ext _ _ _ _ He2 H2). reflexivity.
Qed.

Lemma uk_tvalue_inv t v tr : uk t (KType (TValue v)) tr -> exists vt, tr = XTValue vt /\ uv t v vt.
Proof.
  intros [[|f] H]; [discriminate|]. rewrite unfold_eq in H. cbn [unfold_body] in H.
  destruct (unfold_vt (S f) t v) as [y|] eqn:E; [|discriminate]. injection H as <-. exists y. split; [reflexivity | exists (S f); exact E].
Qed.
Lemma uk_tres_inv t r tr : uk t (KType (TResource r)) tr -> exists n, tr = XTRes n /\ un t r n.
Proof.
  intros [[|f] H]; [discriminate|]. rewrite unfold_eq in H. cbn [unfold_body] in H.
  destruct (res_name_of (S f) t r) as [y|] eqn:E; [|discriminate]. injection H as <-. exists y. split; [reflexivity | exists (S f); exact E].
Qed.

(** * Arena extension *)
Record aext (t t' : types) : Prop := mkaext {
  ax_tag : t_tag t' = t_tag t;
  ax_def : exists l, t_defined t' = t_defined t ++ l;
  ax_res : exists l, t_resources t' = t_resources t ++ l;
  ax_func : exists l, t_funcs t' = t_funcs t ++ l;
  ax_if : exists l, t_interfaces t' = t_interfaces t ++ l;
  ax_world : exists l, t_worlds t' = t_worlds t ++ l;
  ax_mod : exists l, t_modules t' = t_modules t ++ l }.

Lemma aext_refl t : aext t t.
Proof. constructor; try reflexivity; exists []; now rewrite app_nil_r. Qed.
Lemma aext_trans a b c : aext a b -> aext b c -> aext a c.
Proof.
  intros [H0 [l1 H1] [l2 H2] [l3 H3] [l4 H4] [l5 H5] [l6 H6]] [G0 [m1 G1] [m2 G2] [m3 G3] [m4 G4] [m5 G5] [m6 G6]].
  constructor; [congruence | | | | | |].
  - exists (l1 ++ m1). now rewrite G1, H1, app_assoc.
  - exists (l2 ++ m2). now rewrite G2, H2, app_assoc.
  - exists (l3 ++ m3). now rewrite G3, H3, app_assoc.
  - exists (l4 ++ m4). now rewrite G4, H4, app_assoc.
  - exists (l5 ++ m5). now rewrite G5, H5, app_assoc.
  - exists (l6 ++ m6). now rewrite G6, H6, app_assoc.
Qed.

Lemma aext_add_defined t d : aext t (fst (add_defined t d)).
Proof. constructor; cbn; try reflexivity; try (exists []; now rewrite app_nil_r). now exists [d]. Qed.
Lemma aext_add_resource t d : aext t (fst (add_resource t d)).
Proof. constructor; cbn; try reflexivity; try (exists []; now rewrite app_nil_r). now exists [d]. Qed.
Lemma aext_add_func t d : aext t (fst (add_func t d)).
Proof. constructor; cbn; try reflexivity; try (exists []; now rewrite app_nil_r). now exists [d]. Qed.
Lemma aext_add_interface t d : aext t (fst (add_interface t d)).
Proof. constructor; cbn; try reflexivity; try (exists []; now rewrite app_nil_r). now exists [d]. Qed.
Lemma aext_add_world t d : aext t (fst (add_world t d)).
Proof. constructor; cbn; try reflexivity; try (exists []; now rewrite app_nil_r). now exists [d]. Qed.

Lemma lookup_app {A} tag (l l' : list A) i x : lookup tag l i = Some x -> lookup tag (l ++ l') i = Some x.
Proof.
  unfold lookup. destruct (id_tag i =? tag); [|discriminate]. intro H.
  rewrite nth_error_app1; [exact H|]. apply nth_error_Some. congruence.
Qed.
Lemma lookup_new {A} tag (l : list A) x : lookup tag (l ++ [x]) (mkid tag (length l)) = Some x.
Proof.
  unfold lookup. cbn [id_tag id_idx]. rewrite N.eqb_refl. rewrite nth_error_app2 by lia.
  now rewrite Nat.sub_diag.
Qed.

Lemma aext_get_def t t' i x : aext t t' -> get_def t i = Some x -> get_def t' i = Some x.
Proof. intros [H0 [l H] _ _ _ _ _]. unfold get_def. rewrite H0, H. apply lookup_app. Qed.
Lemma aext_get_res t t' i x : aext t t' -> get_res t i = Some x -> get_res t' i = Some x.
Proof. intros [H0 _ [l H] _ _ _ _]. unfold get_res. rewrite H0, H. apply lookup_app. Qed.
Lemma aext_get_func t t' i x : aext t t' -> get_func t i = Some x -> get_func t' i = Some x.
Proof. intros [H0 _ _ [l H] _ _ _]. unfold get_func. rewrite H0, H. apply lookup_app. Qed.
Lemma aext_get_if t t' i x : aext t t' -> get_if t i = Some x -> get_if t' i = Some x.
Proof. intros [H0 _ _ _ [l H] _ _]. unfold get_if. rewrite H0, H. apply lookup_app. Qed.
Lemma aext_get_world t t' i x : aext t t' -> get_world t i = Some x -> get_world t' i = Some x.
Proof. intros [H0 _ _ _ _ [l H] _]. unfold get_world. rewrite H0, H. apply lookup_app. Qed.
Lemma aext_get_mod t t' i x : aext t t' -> get_mod t i = Some x -> get_mod t' i = Some x.
Proof. intros [H0 _ _ _ _ _ [l H]]. unfold get_mod. rewrite H0, H. apply lookup_app. Qed.

Lemma get_def_new t d : get_def (fst (add_defined t d)) (snd (add_defined t d)) = Some d.
Proof. unfold get_def. cbn. apply lookup_new. Qed.
Lemma get_res_new t d : get_res (fst (add_resource t d)) (snd (add_resource t d)) = Some d.
Proof. unfold get_res. cbn. apply lookup_new. Qed.
Lemma get_func_new t d : get_func (fst (add_func t d)) (snd (add_func t d)) = Some d.
Proof. unfold get_func. cbn. apply lookup_new. Qed.
Lemma get_if_new t d : get_if (fst (add_interface t d)) (snd (add_interface t d)) = Some d.
Proof. unfold get_if. cbn. apply lookup_new. Qed.
Lemma get_world_new t d : get_world (fst (add_world t d)) (snd (add_world t d)) = Some d.
Proof. unfold get_world. cbn. apply lookup_new. Qed.

(** ** Transport of the views *)
Lemma res_name_of_aext t t' : aext t t' -> forall f, ext_some (res_name_of f t) (res_name_of f t').
Proof.
  intros Hx. induction f as [|f IH]; intros r n; [discriminate|]. cbn [res_name_of].
  destruct (get_res t r) as [x|] eqn:E; [|discriminate]. rewrite (aext_get_res _ _ _ _ Hx E).
  destruct (res_source x); [apply IH | auto].
Qed.

Lemma unfold_vt_body_ext2 U U' rn rn' t t' v tr :
  ext_some U U' -> ext_some rn rn' -> (forall d x, get_def t d = Some x -> get_def t' d = Some x) ->
  unfold_vt_body U rn t v = Some tr -> unfold_vt_body U' rn' t' v = Some tr.
Proof.
  intros He Hr Hg. unfold unfold_vt_body. destruct v as [p|r|r|d]; [auto | | |].
  - apply option_map_ext. intro y. apply Hr.
  - apply option_map_ext. intro y. apply Hr.
  - destruct (get_def t d) as [x|] eqn:E; [|discriminate]. rewrite (Hg _ _ E).
    destruct x; try (apply option_map_ext; intro y); auto.
    + now apply all_some_map_ext.
    + destruct (omap U ok) as [o'|] eqn:E1; [|discriminate].
      destruct (omap U err) as [e'|] eqn:E2; [|discriminate].
      now rewrite (omap_ext _ _ _ _ He E1), (omap_ext _ _ _ _ He E2).
    + apply map_snd_ext. now apply omap_ext_some.
    + now apply map_snd_ext.
    + now apply omap_ext.
    + now apply omap_ext.
Qed.

Lemma unfold_vt_aext t t' : aext t t' -> forall f, ext_some (unfold_vt f t) (unfold_vt f t').
Proof.
  intros Hx. induction f as [|f IH]; intros v tr; [discriminate|].
  rewrite !unfold_vt_eq. apply unfold_vt_body_ext2; [exact IH | now apply res_name_of_aext |].
  intros d x. now apply aext_get_def.
Qed.
Lemma unfold_func_aext t t' : aext t t' -> forall f i ft, unfold_func f t i = Some ft -> unfold_func f t' i = Some ft.
Proof.
  intros Hx f i ft. unfold unfold_func. destruct (get_func t i) as [x|] eqn:E; [|discriminate].
  rewrite (aext_get_func _ _ _ _ Hx E).
  destruct (map_snd _ (f_params x)) as [ps|] eqn:E1; [|discriminate].
  destruct (omap _ (f_result x)) as [r|] eqn:E2; [|discriminate].
  pose proof (unfold_vt_aext t t' Hx f) as He.
  now rewrite (map_snd_ext _ _ _ _ He E1), (omap_ext _ _ _ _ He E2).
Qed.
Lemma unfold_aext t t' : aext t t' -> forall f, ext_some (unfold f t) (unfold f t').
Proof.
  intros Hx. induction f as [|f IH]; intros k tr; [discriminate|].
  rewrite !unfold_eq.
  assert (Hi : forall i e, unfold_inst (unfold f t) t i = Some e -> unfold_inst (unfold f t') t' i = Some e).
  { intros i e. unfold unfold_inst. destruct (get_if t i) as [x|] eqn:E; [|discriminate].
    rewrite (aext_get_if _ _ _ _ Hx E). now apply map_snd_ext. }
  assert (Hc : forall i e, unfold_comp (unfold f t) t i = Some e -> unfold_comp (unfold f t') t' i = Some e).
  { intros i e. unfold unfold_comp. destruct (get_world t i) as [x|] eqn:E; [|discriminate].
    rewrite (aext_get_world _ _ _ _ Hx E).
    destruct (map_snd (unfold f t) (w_imports x)) eqn:E1; [|discriminate].
    destruct (map_snd (unfold f t) (w_exports x)) eqn:E2; [|discriminate].
    now rewrite (map_snd_ext _ _ _ _ IH E1), (map_snd_ext _ _ _ _ IH E2). }
  unfold unfold_body. destruct k as [[r|i|v|i|w|m]|i|i|w|m|v]; apply option_map_ext; intro y; auto;
    try apply unfold_func_aext; try apply unfold_vt_aext; try apply res_name_of_aext; try apply aext_get_mod; auto.
Qed.

Lemma uv_aext t t' v tr : aext t t' -> uv t v tr -> uv t' v tr.
Proof. intros Hx [f H]. exists f. now apply (unfold_vt_aext t t' Hx). Qed.
Lemma un_aext t t' r n : aext t t' -> un t r n -> un t' r n.
Proof. intros Hx [f H]. exists f. now apply (res_name_of_aext t t' Hx). Qed.
Lemma uf_aext t t' i ft : aext t t' -> uf t i ft -> uf t' i ft.
Proof. intros Hx [f H]. exists f. now apply (unfold_func_aext t t' Hx). Qed.
Lemma uk_aext t t' k tr : aext t t' -> uk t k tr -> uk t' k tr.
Proof. intros Hx [f H]. exists f. now apply (unfold_aext t t' Hx). Qed.
Lemma uvo_aext t t' o o' : aext t t' -> uvo t o o' -> uvo t' o o'.
Proof. intros Hx. destruct o, o'; cbn; auto. now apply uv_aext. Qed.
Lemma uvf_aext t t' l l' : aext t t' -> uvf t l l' -> uvf t' l l'.
Proof. intros Hx. apply R2_mono. intros x y. now apply uv_aext. Qed.
Lemma uvc_aext t t' l l' : aext t t' -> uvc t l l' -> uvc t' l l'.
Proof. intros Hx. apply R2_mono. intros x y. now apply uvo_aext. Qed.
Lemma Rexts_aext t t' l l' : aext t t' -> Rexts t l l' -> Rexts t' l l'.
Proof. intros Hx. apply R2_mono. intros x y. now apply uk_aext. Qed.

(** * Scope items and environments *)
Inductive rel_item (t : types) : ty -> sem -> Prop :=
| RI_val v tr : uv t v tr -> rel_item t (TValue v) (SVal tr)
| RI_res r n : un t r n -> rel_item t (TResource r) (SRes n)
| RI_func f ft : uf t f ft -> rel_item t (TFunc f) (SFunc ft)
| RI_if i x e : get_if t i = Some x -> Rexts t (i_exports x) e -> rel_item t (TInterface i) (SIface (i_id x) e)
| RI_world w x i e : get_world t w = Some x -> Rexts t (w_imports x) i -> Rexts t (w_exports x) e ->
                     rel_item t (TWorld w) (SWorld i e).

Notation Renv t := (R2 (rel_item t)).

Lemma rel_item_aext t t' x s : aext t t' -> rel_item t x s -> rel_item t' x s.
Proof.
  intros Hx [v tr H|r n H|f ft H|i y e H1 H2|w y i e H1 H2 H3].
  - constructor. now apply (uv_aext t).
  - constructor. now apply (un_aext t).
  - constructor. now apply (uf_aext t).
  - apply (RI_if t' i y e); [now apply (aext_get_if t) | now apply (Rexts_aext t)].
  - apply (RI_world t' w y i e); [now apply (aext_get_world t) | now apply (Rexts_aext t) | now apply (Rexts_aext t)].
Qed.
Lemma Renv_aext t t' l l' : aext t t' -> Renv t l l' -> Renv t' l l'.
Proof. intros Hx. apply R2_mono. intros x y. now apply rel_item_aext. Qed.

(** the tree of the type of a scope item is the tree of its denotation *)
Lemma rel_item_uk t x s : rel_item t x s -> uk t (KType x) (sem_tree s).
Proof.
  intros [v tr H|r n H|f ft H|i y e H1 H2|w y i e H1 H2 H3]; cbn [sem_tree].
  - now apply uk_tvalue.
  - now apply uk_tres.
  - now apply uk_tfunc.
  - now apply (uk_tinst t i y).
  - now apply (uk_tworld t w y).
Qed.

(** * Small facts about the association-list primitives *)
Lemma name_of_nm i : name_of i = nm i.
Proof. reflexivity. Qed.

Lemma has_app {B} k (l1 l2 : list (str * B)) : has k (l1 ++ l2) = has k l1 || has k l2.
Proof.
  unfold has. induction l1 as [|[k' v] l1 IH]; cbn [app assoc]; [reflexivity|].
  destruct (str_eqb k k'); [reflexivity | exact IH].
Qed.
Lemma bound_app {B} k (l1 l2 : list (str * B)) : bound k (l1 ++ l2) = bound k l1 || bound k l2.
Proof. apply (has_app k l1 l2). Qed.
Lemma has_keys {B} k (l : list (str * B)) : has k l = existsb (str_eqb k) (map fst l).
Proof.
  unfold has. induction l as [|[k' v] l IH]; cbn [assoc map fst existsb]; [reflexivity|].
  destruct (str_eqb k k'); [reflexivity | exact IH].
Qed.
Lemma bound_keys {B} k (l : list (str * B)) : bound k l = existsb (str_eqb k) (map fst l).
Proof. apply (has_keys k l). Qed.
Lemma mem_existsb k l : mem k l = existsb (str_eqb k) l.
Proof. induction l as [|x l IH]; cbn [mem existsb]; [reflexivity | now rewrite IH]. Qed.
Lemma imap_set_fresh {B} k (v : B) l : has k l = false -> imap_set k v l = l ++ [(k, v)].
Proof.
  unfold has. induction l as [|[k' v'] l IH]; cbn [imap_set assoc app]; [reflexivity|].
  destruct (str_eqb k k'); [discriminate|]. intro H. now rewrite (IH H).
Qed.

(** [distinct] and incremental duplicate checks *)
Lemma existsb_app_single (p : str -> bool) l x : existsb p (l ++ [x]) = existsb p l || p x.
Proof. rewrite existsb_app. cbn [existsb]. now rewrite orb_false_r. Qed.
Lemma distinct_snoc l x : distinct (l ++ [x]) = distinct l && negb (existsb (str_eqb x) l).
Proof.
  induction l as [|y l IH]; cbn [app distinct existsb]; [reflexivity|].
  rewrite IH, existsb_app_single, (seqb_sym x y).
  destruct (existsb (str_eqb y) l), (str_eqb y x), (distinct l), (existsb (str_eqb x) l); reflexivity.
Qed.
Lemma distinct_app_disjoint l1 l2 :
  distinct l1 = true -> distinct l2 = true -> (forall k, In k l2 -> existsb (str_eqb k) l1 = false) ->
  distinct (l1 ++ l2) = true.
Proof.
  revert l1. induction l2 as [|x l2 IH]; intros l1 H1 H2 Hd; [now rewrite app_nil_r|].
  cbn [distinct] in H2. apply andb_true_iff in H2 as [Hx H2].
  change (l1 ++ x :: l2) with (l1 ++ [x] ++ l2). rewrite app_assoc. apply IH; [|exact H2|].
  - rewrite distinct_snoc, H1, (Hd x (or_introl eq_refl)). reflexivity.
  - intros k Hk. rewrite existsb_app_single, (Hd k (or_intror Hk)). cbn [orb].
    destruct (str_eqb k x) eqn:E; [|reflexivity]. apply seqb_eq in E as ->.
    apply negb_true_iff in Hx. assert (Hin : existsb (str_eqb x) l2 = true).
    { apply existsb_exists. exists x. split; [exact Hk | apply seqb_refl]. }
    congruence.
Qed.
