(** C06/C02/C03: a type definition is exported under exactly ONE name, the one its node records.
    [export] RENAMES a definition (the previous name leaves the export map), so in every graph built
    through the API the entries of the export map that designate a definition are exactly its
    [nexport] field. History invariant [DefExp]; consequence [ValidEncInv.DefsSingle] (two entries of one
    definition carry the same name), which was a hypothesis of C01/C02/C03 before the repair of
    [CompositionGraph::export]. *)
From Coq Require Import List Arith Bool NArith Lia.
From WacV Require Import Graph GraphInv GraphPrims GraphSteps GraphRemove GraphUnreg GraphTheorems GraphLive
  GraphAcyclic GraphRank GraphAlias GraphFrame.
Import ListNotations.

Definition DefExp (s : gstate) : Prop :=
  forall nm n nd, In (nm, n) (exports s) -> get_node s n = Some nd -> nk nd = NDef -> nexport nd = Some nm.

(** two entries of the export map that designate one definition carry the same name *)
Lemma def_exp_single s nm nm' n nd :
  DefExp s -> In (nm, n) (exports s) -> In (nm', n) (exports s) -> get_node s n = Some nd -> nk nd = NDef -> nm' = nm.
Proof.
  intros H H1 H2 G K. pose proof (H nm n nd H1 G K) as E1. pose proof (H nm' n nd H2 G K) as E2. congruence.
Qed.

Lemma def_exp_empty : DefExp empty_graph.
Proof. intros nm n nd []. Qed.

(** * the generic step: the export map only loses entries, a definition of the new state is a definition
      of the old state with the same export name *)
Record DX (s s' : gstate) : Prop := {
  dx_exports : forall x, In x (exports s') -> In x (exports s);
  dx_nodes : forall m b, get_node s' m = Some b -> nk b = NDef ->
             exists a, get_node s m = Some a /\ nk a = NDef /\ nexport a = nexport b }.

Lemma def_exp_dx s s' : DefExp s -> DX s s' -> DefExp s'.
Proof.
  intros H [X N] nm n nd Hin G K. destruct (N n nd G K) as (a & Ga & Ka & Ea). rewrite <- Ea. eapply H; eauto.
Qed.

Lemma DX_eq s s' : nodes s' = nodes s -> exports s' = exports s -> DX s s'.
Proof.
  intros Hn Hx. constructor.
  - intros x. now rewrite Hx.
  - intros m b G K. unfold get_node in *. rewrite Hn in G. eauto.
Qed.

Lemma DX_refl s : DX s s.
Proof. now apply DX_eq. Qed.

Lemma DX_set_node s s' n nd nd' :
  get_node s n = Some nd -> (nk nd' = NDef -> nk nd = NDef /\ nexport nd = nexport nd') ->
  nodes s' = set_nth (nodes s) n (Some nd') -> (forall x, In x (exports s') -> In x (exports s)) -> DX s s'.
Proof.
  intros G R Hn Hx. rewrite get_node_getn in G. constructor; auto.
  intros m b G' K. rewrite get_node_getn in *. rewrite Hn in G'. erewrite getn_set_live in G' by eauto.
  destruct (Nat.eqb_spec m n) as [->|_]; [|eauto].
  injection G' as <-. destruct (R K) as [K1 E1]. eauto.
Qed.

Lemma DX_add_node u s nd s1 idx s' :
  InvC u s -> add_node s nd = (s1, idx) -> nk nd <> NDef -> nodes s' = nodes s1 -> exports s' = exports s -> DX s s'.
Proof.
  intros HI A K Hn Hx. apply add_node_spec in A as ([Fd Fu] & _); [|apply HI]. constructor.
  - intros x. now rewrite Hx.
  - intros m b G Kb. rewrite get_node_getn in *. rewrite Hn, Fu in G.
    destruct (Nat.eqb_spec m idx) as [->|_]; [injection G as <-; contradiction|eauto].
Qed.

Lemma add_node_exports s nd : exports (fst (add_node s nd)) = exports s.
Proof. unfold add_node. destruct (free_nodes s); reflexivity. Qed.

(** * the operations *)
Lemma register_dx u s p : DX s (fst (register u s p)).
Proof.
  unfold register. destruct (find_pkg_slot s p); [apply DX_refl|].
  destruct (free_pkgs s); [apply DX_eq; reflexivity|].
  destruct (nth_error (pkgs s) n); [apply DX_eq; reflexivity|apply DX_refl].
Qed.

Lemma import_dx u s nm k : InvC u s -> DX s (fst (import_ u s nm k)).
Proof.
  intros HI. unfold import_. destruct (nth_error (u_lkinds u) k); [|apply DX_refl].
  destruct (alist_get N.eqb (imports s) nm); [apply DX_refl|]. destruct (negb _); [apply DX_refl|].
  pose proof (add_node_exports s (mk_node (NImport nm) k0 None)) as X.
  destruct (add_node s _) as [s1 idx] eqn:A. cbn [fst] in *. eapply DX_add_node; eauto; cbn; try discriminate; try reflexivity.
Qed.

Lemma instantiate_dx u s id : InvC u s -> DX s (fst (instantiate u s id)).
Proof.
  intros HI. unfold instantiate. destruct (pkg_desc u s id) as [pd|]; [|apply DX_refl].
  pose proof (add_node_exports s (mk_node (NInst []) (pd_inst pd) (Some id))) as X.
  destruct (add_node s _) as [s1 idx] eqn:A. cbn [fst] in *. eapply DX_add_node; eauto; cbn; try discriminate; try reflexivity.
Qed.

Lemma alias_dx u s n e : InvC u s -> DX s (fst (alias u s n e)).
Proof.
  intros HI. unfold alias. destruct (get_node s n) as [nd|]; [|apply DX_refl].
  destruct (u_inst_exports u (nitem nd)); [|apply DX_refl].
  destruct (get_full l e 0) as [[index kind]|]; [|apply DX_refl]. destruct (find _ (outgoing s n)); [apply DX_refl|].
  pose proof (add_node_exports s (mk_node NAlias kind (npkg nd))) as X.
  destruct (add_node s _) as [s1 idx] eqn:A. cbn [fst] in *. eapply DX_add_node; eauto; cbn; try discriminate; try reflexivity.
Qed.

Lemma set_name_dx s n nm : DX s (fst (set_name s n nm)).
Proof.
  unfold set_name, update_node. destruct (get_node s n) as [nd|] eqn:G; [|apply DX_refl]. cbn [fst].
  eapply DX_set_node; [exact G| |reflexivity|auto]. cbn. auto.
Qed.

Lemma unexport_dx s n : DX s (fst (unexport s n)).
Proof.
  unfold unexport. destruct (get_node s n) as [nd|] eqn:G; [|apply DX_refl].
  destruct (nk nd) eqn:K; [apply DX_refl| | |];
    (match goal with |- context [match ?x with inl _ => _ | inr _ => _ end] => destruct x eqn:Sw end;
     [|apply DX_refl]; cbn [fst]; eapply DX_set_node; [exact G| |reflexivity|];
     [cbn; rewrite K; discriminate|];
     intros x Hx; cbn [with_maps exports] in Hx; apply filter_In in Hx as [Hx _];
     cbn [set_node exports] in Sw; destruct (nexport nd) as [nm|];
     [destruct (swap_remove (exports s) nm) eqn:Sr; [|discriminate]; injection Sw as <-; eapply swap_remove_In; eauto
     |injection Sw as <-; exact Hx]).
Qed.

Lemma set_arg_dx u s inst a arg : DX s (fst (set_arg u s inst a arg)).
Proof.
  unfold set_arg. destruct (get_node s inst) as [nd|] eqn:G; [|apply DX_refl].
  destruct (nk nd) eqn:K; try apply DX_refl. destruct (inst_imports u s nd); [|apply DX_refl].
  destruct (get_full l a 0) as [[index expected]|]; [|apply DX_refl].
  destruct (scan_incoming _ index arg); try apply DX_refl.
  destruct (get_node s arg) as [an|]; [|apply DX_refl]. destruct (negb _); [apply DX_refl|].
  destruct (add_satisfied _ inst index) as [[s2|]|] eqn:AS; try apply DX_refl. cbn [fst].
  unfold add_satisfied in AS. change (get_node (add_edge s _) inst) with (get_node s inst) in AS.
  rewrite G, K in AS. destruct (existsb _ sat); [discriminate|]. injection AS as <-.
  eapply DX_set_node; [exact G| |reflexivity|auto]. cbn. discriminate.
Qed.

Lemma unset_arg_dx u s inst a arg : DX s (fst (unset_arg u s inst a arg)).
Proof.
  unfold unset_arg. destruct (get_node s inst) as [nd|] eqn:G; [|apply DX_refl].
  destruct (nk nd) eqn:K; try apply DX_refl. destruct (inst_imports u s nd); [|apply DX_refl].
  destruct (get_full l a 0) as [[index expected]|]; [|apply DX_refl].
  destruct (scan_connecting _ index); try apply DX_refl.
  destruct (remove_satisfied s inst index) as [s1|] eqn:RS; [|apply DX_refl].
  apply remove_satisfied_inv in RS as [x [st [G' [K' ->]]]]. cbn [fst]. rewrite G in G'. injection G' as <-.
  eapply DX_set_node; [exact G| |reflexivity|auto]. cbn. discriminate.
Qed.

Lemma remove_node_dx u s n : Inv u s -> DX s (fst (remove_node s n)).
Proof.
  intros HI. destruct (remove_node s n) as [s' o] eqn:R. cbn [fst].
  assert (Hs : o <> OUnit -> s' = s).
  { revert R. unfold remove_node. destruct (remove_node_rec _ s n); intros [= <- <-]; [intros H; now contradiction H|auto]. }
  destruct o; try (rewrite Hs by discriminate; apply DX_refl).
  pose proof (remove_frame u s n s' HI R) as [L Nd _ Ex _ _ _]. constructor.
  - intros x Hx. now apply Ex in Hx.
  - intros m b G K. assert (Lm : live s' m = true) by (unfold live; now rewrite G).
    specialize (Nd m Lm). rewrite G in Nd. destruct (get_node s m) as [a|]; [|contradiction].
    destruct Nd as (_ & _ & _ & E & C). exists a. repeat split; auto. rewrite K in C. now apply (kclass_def _ _ C).
Qed.

Lemma unregister_dx s id : DX s (fst (unregister s id)).
Proof.
  destruct (unregister s id) as [s' o] eqn:R. cbn [fst].
  assert (Hs : o <> OUnit -> s' = s).
  { revert R. unfold unregister. destruct (nth_error (pkgs s) (fst id)) as [sl|]; [|now intros [= <- <-]].
    destruct (negb (ps_gen sl =? snd id)); [now intros [= <- <-]|]. destruct (negb _); [now intros [= <- <-]|].
    destruct (remove_satisfied_all _ _); [|now intros [= <- <-]]. destruct (ps_pkg sl); [|now intros [= <- <-]].
    intros [= <- <-] H. now contradiction H. }
  destruct o; try (rewrite Hs by discriminate; apply DX_refl).
  destruct (unregister_frame s id s' R) as (_ & Nd & _ & Ex & _). constructor.
  - intros x Hx. now apply Ex in Hx.
  - intros m b G K. assert (Lm : live s' m = true) by (unfold live; now rewrite G).
    specialize (Nd m Lm). rewrite G in Nd. destruct (get_node s m) as [a|]; [|contradiction].
    destruct Nd as (_ & _ & _ & E & C). exists a. repeat split; auto. rewrite K in C. now apply (kclass_def _ _ C).
Qed.

(** [define_type]: the new definition enters the map under the name its node records *)
Lemma define_type_def_exp u s nm t : InvC u s -> DefExp s -> DefExp (fst (define_type u s nm t)).
Proof.
  intros HI H. unfold define_type. destruct (nth_error (u_tys u) t) as [td|] eqn:T; [|exact H].
  destruct (existsb (fun p => fst p =? t) (defined s)); [exact H|]. destruct (td_res td); [exact H|].
  destruct (existsb (fun p => N.eqb (fst p) nm) (exports s)); [exact H|].
  destruct (negb (u_import_name_ok u nm)); [exact H|].
  set (nd := {| nk := NDef; npkg := None; nitem := td_kind td; nname := None; nexport := Some nm |}).
  pose proof (add_node_exports s nd) as X0.
  destruct (add_node s nd) as [s1 idx] eqn:A. cbn [fst] in X0.
  set (Q := fun s' : gstate => nodes s' = nodes s1 /\ exports s' = exports s1).
  assert (Qadd : forall s' a b, Q s' -> Q (add_edge s' {| esrc := a; etgt := b; ek := EDep |})).
  { intros s' a b [Q1 Q2]. split; [exact Q1|exact Q2]. }
  assert (Q1 : Q s1) by (split; reflexivity).
  match goal with |- DefExp (fst (with_maps ?s3 _ _ _, _)) => assert (Q3 : Q s3) end.
  { apply fold_left_ind.
    - intros a0 [ot on] _ Qa. cbn [fst snd]. destruct (nth_error (u_tys u) ot); auto.
      apply fold_left_ind; auto. intros b d _ Qb. destruct ((d =? t) && _); auto.
    - apply fold_left_ind; auto. intros a0 d _ Qa. destruct (d =? t); auto.
      destruct (alist_get Nat.eqb (defined a0) d); auto. destruct (has_dep_edge a0 n idx); auto. }
  destruct Q3 as [Q3n Q3x]. cbn [fst].
  apply add_node_spec in A as ([Fd Fu] & _); [|apply HI].
  intros nm' n x Hin G K. cbn [with_maps exports] in Hin. rewrite get_node_getn in G. cbn [with_maps nodes] in G.
  rewrite Q3n, Fu in G. rewrite Q3x, X0 in Hin. apply in_app_or in Hin as [Hin|[[= <- <-]|[]]].
  - assert (L : liveb (nodes s) n = true) by (eapply xo_live; [apply HI|exact Hin]).
    destruct (Nat.eqb_spec n idx) as [->|_].
    + apply liveb_true in L as [y L]. congruence.
    + eapply H; eauto.
  - rewrite Nat.eqb_refl in G. injection G as <-. reflexivity.
Qed.

(** [export]: the definition's previous name leaves the map, the new one is recorded in the node *)
Lemma export_def_exp u s n e : InvC u s -> DefExp s -> DefExp (fst (export_ u s n e)).
Proof.
  intros HI H. unfold export_. destruct (alist_get N.eqb (exports s) e) eqn:Al; [exact H|].
  destruct (negb (u_export_name_ok u e)); [exact H|]. unfold update_node.
  destruct (get_node s n) as [nd|] eqn:G; [|exact H]. cbn [fst].
  set (nd' := {| nk := nk nd; npkg := npkg nd; nitem := nitem nd; nname := nname nd; nexport := Some e |}).
  pose proof (xo_keys _ _ (ic_ex _ _ HI)) as ND.
  intros nm m x Hin Gm K. cbn [with_maps exports] in Hin. rewrite get_node_getn in Gm. cbn [with_maps set_node nodes] in Gm.
  rewrite get_node_getn in G. erewrite getn_set_live in Gm by eauto.
  apply in_app_or in Hin as [Hin|[[= <- <-]|[]]].
  - unfold exports_renamed in Hin. rewrite get_node_getn, G in Hin.
    destruct (Nat.eqb_spec m n) as [->|Hne].
    + injection Gm as <-. cbn [nd' nk] in K. rewrite K in Hin. exfalso.
      destruct (nexport nd) as [previous|] eqn:Ex.
      * apply shift_remove_In_iff in Hin as [Hin Hk]; auto. cbn in Hk.
        pose proof (H nm n nd Hin G K) as E'. congruence.
      * pose proof (H nm n nd Hin G K) as E'. congruence.
    + assert (Hin' : In (nm, m) (exports s)).
      { destruct (nk nd); auto. destruct (nexport nd); auto. eapply shift_remove_In; eauto. }
      eapply H; eauto.
  - rewrite Nat.eqb_refl in Gm. injection Gm as <-. reflexivity.
Qed.

(** * all operations, all histories *)
Lemma step_def_exp : forall u s o, Inv u s -> DefExp s -> DefExp (fst (step u s o)).
Proof.
  intros u s o HI H. pose proof (proj1 (Inv_iff u s) HI) as HC. destruct o; cbn [step].
  - eapply def_exp_dx; eauto using register_dx.
  - eapply def_exp_dx; eauto using unregister_dx.
  - now apply define_type_def_exp.
  - eapply def_exp_dx; eauto using import_dx.
  - eapply def_exp_dx; eauto using instantiate_dx.
  - eapply def_exp_dx; eauto using alias_dx.
  - eapply def_exp_dx; eauto using set_arg_dx.
  - eapply def_exp_dx; eauto using unset_arg_dx.
  - now apply export_def_exp.
  - eapply def_exp_dx; eauto using unexport_dx.
  - eapply def_exp_dx; eauto using set_name_dx.
  - eapply def_exp_dx; eauto using remove_node_dx.
Qed.

Lemma reach_def_exp : forall u ops, DefExp (run u ops).
Proof.
  intros u ops. induction ops as [|o ops IH] using rev_ind.
  - exact def_exp_empty.
  - rewrite run_app. apply step_def_exp; auto. apply reach_inv.
Qed.

(** the export map and the node fields agree on definitions: an entry designates a definition iff the
    definition records that name *)
Theorem definition_export_exact : forall u ops nm n nd,
  get_node (run u ops) n = Some nd -> nk nd = NDef ->
  (In (nm, n) (exports (run u ops)) <-> nexport nd = Some nm).
Proof.
  intros u ops nm n nd G K. split.
  - intros Hin. eapply reach_def_exp; eauto.
  - intros E. eapply inv_node_export; eauto. apply reach_inv.
Qed.

(** the export map after a successful [export] *)
Lemma export_map_after : forall u s n e nd,
  Inv u s -> get_node s n = Some nd -> snd (step u s (Export n e)) = OUnit ->
  exports (fst (step u s (Export n e))) =
    match nk nd, nexport nd with
    | NDef, Some previous => filter (fun p => negb (N.eqb (fst p) previous)) (exports s)
    | _, _ => exports s
    end ++ [(e, n)].
Proof.
  intros u s n e nd HI G. cbn [step]. unfold export_. destruct (alist_get N.eqb (exports s) e); [discriminate|].
  destruct (negb (u_export_name_ok u e)); [discriminate|]. unfold update_node. rewrite G. intros _. cbn [fst with_maps exports].
  unfold exports_renamed. rewrite G. destruct (nk nd); auto. destruct (nexport nd); auto.
  rewrite shift_remove_filter; auto. apply (inv_exports_keys _ _ HI).
Qed.
