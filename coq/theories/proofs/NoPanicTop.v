(** C14: whole-input statements about [Document::parse] (the model under the implementation's flags and
    the tables generated from [lexer.rs]), and the two witnesses against the end-of-input span rule. *)
From Coq Require Import String.
From WacV Require Import Str StrLit Token Lexer LexTables LexImpl Semver Ast Parser
  NoPanicLexer NoPanicSpans NoPanicParser.
From Coq Require Import ZArith ZifyBool ZifyN Lia.
Local Open Scope nat_scope.

Lemma cfg_impl_eq : cfg_with impl_flags impl_cfg = impl_cfg.
Proof. reflexivity. Qed.

Definition has_unmodelled (items : list lexitem) : Prop := exists sp, In (LUnmodelled sp) items.

(** The outcome predicate of [NoPanicParser] for the whole document. [um = false] may be used when the
    lexer reported no not-modelled lexeme. *)
Lemma parse_document_outcome um src :
  (um = false -> ~ has_unmodelled (lex impl_cfg src)) ->
  outcome src um (fun d => Forall (span_ok src) (document_spans d)) (fun m => m = 0)
          (parse_document impl_flags impl_cfg src).
Proof.
  intros Hum. unfold parse_document. rewrite cfg_impl_eq.
  apply parse_document_items_good; [reflexivity| |cbn [fuel]; lia].
  pose proof (lex_wf impl_cfg src impl_tables_sane) as Hwf. unfold wf.
  apply Forall_forall. intros it Hin. split.
  - rewrite Forall_forall in Hwf. now apply Hwf.
  - intros Hf sp ->. apply (Hum Hf). now exists sp.
Qed.

Lemma parse_never_panics_lemma src :
  match parse_document impl_flags impl_cfg src with PPanic _ | PFuel => False | _ => True end.
Proof.
  pose proof (parse_document_outcome true src ltac:(discriminate)) as H.
  destruct (parse_document impl_flags impl_cfg src); cbn [outcome] in H; auto.
Qed.

(** Totality on the modelled lexemes. *)
Lemma parse_total_lemma src :
  ~ has_unmodelled (lex impl_cfg src) ->
  (exists doc, parse_document impl_flags impl_cfg src = POk doc []) \/
  (exists x, parse_document impl_flags impl_cfg src = PErr x /\ perror_span x <> None).
Proof.
  intros Hno. pose proof (parse_document_outcome false src (fun _ => Hno)) as H.
  destruct (parse_document impl_flags impl_cfg src) as [doc r|x|n| |]; cbn [outcome] in H; try contradiction;
    try discriminate.
  - left. exists doc. destruct H as (_ & _ & Hl). destruct r; [reflexivity|discriminate].
  - right. exists x. split; [reflexivity|]. destruct x; cbn [err_ok perror_span] in *; try discriminate. contradiction.
Qed.

(** Spans of the tree and of every error that is not reported at the end of the input. *)
Lemma spans_partial_lemma src :
  match parse_document impl_flags impl_cfg src with
  | POk d _ => Forall (span_ok src) (document_spans d)
  | PErr x => at_end_of_input x = false -> exists sp, perror_span x = Some sp /\ span_ok src sp
  | _ => True
  end.
Proof.
  pose proof (parse_document_outcome true src ltac:(discriminate)) as H.
  destruct (parse_document impl_flags impl_cfg src) as [doc r|x|n| |]; cbn [outcome] in H; auto.
  - tauto.
  - intros Hend. destruct x as [le sp|at_ found sp|w sp|txt sp|w]; cbn [err_ok perror_span at_end_of_input] in *;
      try (eexists; split; [reflexivity|assumption]); try contradiction.
    destruct found; [|discriminate]. eexists. split; [reflexivity|tauto].
Qed.

(** A returned [Expected*] error always lists at least one expected token ([Lookahead::error] would
    otherwise hit [unreachable!]). *)
Lemma expected_nonempty_lemma src at_ found sp :
  parse_document impl_flags impl_cfg src = PErr (PE_Expected at_ found sp) -> at_ <> [].
Proof.
  intros E. pose proof (parse_document_outcome true src ltac:(discriminate)) as H. rewrite E in H.
  cbn [outcome err_ok] in H. destruct found; tauto.
Qed.

(* ------------------------------------------------------------------ executable form of the span predicate *)

Fixpoint boundaryb_from (o : N) (s : str) (n : N) : bool :=
  (o =? n)%N || match s with [] => false | c :: r => boundaryb_from (o + utf8_len c) r n end.

Definition span_okb (src : str) (sp : span) : bool :=
  boundaryb_from 0 src (off sp) && boundaryb_from 0 src (off sp + slen sp).

Lemma boundaryb_from_complete : forall pre post o,
  boundaryb_from o (pre ++ post) (o + byte_len pre) = true.
Proof.
  induction pre as [|c pre IH]; intros post o.
  - cbn [byte_len app]. rewrite N.add_0_r. destruct post; cbn [boundaryb_from]; now rewrite N.eqb_refl.
  - cbn [app byte_len boundaryb_from]. replace (o + (utf8_len c + byte_len pre))%N with (o + utf8_len c + byte_len pre)%N by lia.
    rewrite IH. apply orb_true_r.
Qed.

Lemma boundary_b src n : boundary src n -> boundaryb_from 0 src n = true.
Proof. intros (pre & post & -> & ->). apply (boundaryb_from_complete pre post 0%N). Qed.

Lemma span_ok_b src sp : span_ok src sp -> span_okb src sp = true.
Proof. intros [H1 H2]. unfold span_okb. now rewrite (boundary_b _ _ H1), (boundary_b _ _ H2). Qed.

(* ------------------------------------------------------------------ the end-of-input rule is wrong *)

Definition w_empty : str := [].
(** [package a:b // é]: 17 bytes, the last character (U+00E9) occupies bytes 15 and 16. *)
Definition w_midchar : str := L"package a:b // " ++ [233%N].

Lemma eof_span_empty :
  parse_document impl_flags impl_cfg w_empty = PErr (PE_Expected [TPackageKeyword] None {| off := 0; slen := 1 |}).
Proof. vm_compute. reflexivity. Qed.

Lemma eof_span_midchar :
  parse_document impl_flags impl_cfg w_midchar = PErr (PE_Expected [TSemicolon] None {| off := 16; slen := 1 |}) /\
  byte_len w_midchar = 17%N.
Proof. vm_compute. split; reflexivity. Qed.

Lemma midchar_not_boundary : ~ boundary w_midchar 16.
Proof. intros H. apply boundary_b in H. vm_compute in H. discriminate. Qed.
