(** C14: whole-input statements about [Document::parse] (the model under the implementation's flags and
    the tables generated from [lexer.rs]), the end-of-input span rule ([Lexer::span]: the whole character
    holding the byte before the span; empty on an empty source), and the two texts on which the former
    byte-counting rule produced a span outside the source / inside a character. *)
From Coq Require Import String.
From WacV Require Import Str StrLit Token Lexer LexTables LexImpl Semver Ast Parser
  LexerSound NoPanicLexer NoPanicSpans NoPanicParser.
From Coq Require Import ZArith ZifyBool ZifyN Lia.
Local Open Scope nat_scope.

Lemma cfg_impl_eq : cfg_with impl_flags impl_cfg = impl_cfg.
Proof. reflexivity. Qed.

Definition has_unmodelled (items : list lexitem) : Prop := exists sp, In (LUnmodelled sp) items.

(* ------------------------------------------------------------------ the end-of-input span rule *)

(** The character holding a byte: a good span, whatever the byte. *)
Lemma char_holding_ok src : forall s pre o n,
  src = pre ++ s -> o = byte_len pre -> span_ok src (char_holding o s n).
Proof.
  induction s as [|c r IH]; intros pre o n Hsrc Ho; cbn [char_holding].
  - apply (span_ok_slice src pre [] []); [now rewrite Hsrc|exact Ho|reflexivity].
  - destruct (n <? o + utf8_len c)%N.
    + apply (span_ok_slice src pre [c] r); [exact Hsrc|exact Ho|cbn [byte_len]; lia].
    + apply (IH (pre ++ [c])); [now rewrite <- app_assoc|rewrite byte_len_app; cbn [byte_len]; lia].
Qed.

(** [Lexer::span] of a span with both ends on character boundaries is a good span. *)
Lemma lexer_span_ok src start stop :
  boundary src start -> boundary src stop -> (start <= stop)%N -> span_ok src (lexer_span src start stop).
Proof.
  intros Hs He Hle. unfold lexer_span. destruct (stop =? byte_len src)%N.
  - now apply (char_holding_ok src src [] 0%N).
  - split; cbn [off slen]; [exact Hs|]. now replace (start + (stop - start))%N with stop by lia.
Qed.

Lemma last_tok_in : forall items acc t,
  last_tok items acc = Some t -> acc = Some t \/ In (LTok t) items.
Proof.
  induction items as [|x r IH]; intros acc t H; cbn [last_tok] in H; [now left|].
  destruct x as [t'| | | |]; apply IH in H; destruct H as [H|H]; auto using in_cons.
  inversion H; subst. right. now left.
Qed.

(** Both end-of-input spans of the environment [Document::parse] builds are good spans. *)
Lemma mk_ctx_ok src items :
  Forall (item_wf src) items ->
  span_ok src (eof_tok (mk_ctx src items)) /\ span_ok src (eof_la (mk_ctx src items)).
Proof.
  intros Hwf. unfold mk_ctx. cbn [eof_tok eof_la]. split.
  - apply lexer_span_ok; [apply boundary_end|apply boundary_end|lia].
  - destruct (last_tok items None) as [t|] eqn:E.
    + apply last_tok_in in E. destruct E as [E|E]; [discriminate|].
      rewrite Forall_forall in Hwf. specialize (Hwf _ E). apply item_wf_span in Hwf.
      destruct Hwf as [H1 H2]. apply lexer_span_ok; [exact H1|exact H2|unfold span_end; lia].
    + apply lexer_span_ok; [apply boundary_0|apply boundary_0|lia].
Qed.

(** The environment of [parse_document] under the implementation's flags. *)
Definition top_env (src : str) : env :=
  {| dv := impl_flags; cx := mk_ctx src (lex impl_cfg src); fuel := S (length (lex impl_cfg src)) |}.

(** The outcome predicate of [NoPanicParser] for the whole document. [um = false] may be used when the
    lexer reported no not-modelled lexeme. *)
Lemma parse_document_outcome um src :
  (um = false -> ~ has_unmodelled (lex impl_cfg src)) ->
  outcome src (top_env src) um (fun d => Forall (span_ok src) (document_spans d)) (fun m => m = 0)
          (parse_document impl_flags impl_cfg src).
Proof.
  intros Hum. unfold parse_document. rewrite cfg_impl_eq.
  apply (parse_document_items_good src (top_env src)); [reflexivity| |cbn [fuel top_env]; lia].
  pose proof (lex_wf impl_cfg src impl_tables_sane) as Hwf. unfold wf.
  apply Forall_forall. intros it Hin. split.
  - rewrite Forall_forall in Hwf. now apply Hwf.
  - intros Hf sp ->. apply (Hum Hf). now exists sp.
Qed.

Lemma parse_never_panics_lemma src :
  match parse_document impl_flags impl_cfg src with PPanic _ | PFuel => False | _ => True end.
Proof.
  pose proof (parse_document_outcome true src ltac:(discriminate)) as H.
  destruct (parse_document impl_flags impl_cfg src); cbn [outcome] in H; auto.
Qed.

(** Totality on the modelled lexemes. *)
Lemma parse_total_lemma src :
  ~ has_unmodelled (lex impl_cfg src) ->
  (exists doc, parse_document impl_flags impl_cfg src = POk doc []) \/
  (exists x, parse_document impl_flags impl_cfg src = PErr x /\ perror_span x <> None).
Proof.
  intros Hno. pose proof (parse_document_outcome false src (fun _ => Hno)) as H.
  destruct (parse_document impl_flags impl_cfg src) as [doc r|x|n| |]; cbn [outcome] in H; try contradiction;
    try discriminate.
  - left. exists doc. destruct H as (_ & _ & Hl). destruct r; [reflexivity|discriminate].
  - right. exists x. split; [reflexivity|]. destruct x; cbn [err_ok perror_span] in *; try discriminate. contradiction.
Qed.

(** Spans of the tree and of EVERY error, those reported at the end of the input included. *)
Lemma spans_lemma src :
  match parse_document impl_flags impl_cfg src with
  | POk d _ => Forall (span_ok src) (document_spans d)
  | PErr x => exists sp, perror_span x = Some sp /\ span_ok src sp
  | _ => True
  end.
Proof.
  pose proof (parse_document_outcome true src ltac:(discriminate)) as H.
  destruct (parse_document impl_flags impl_cfg src) as [doc r|x|n| |]; cbn [outcome] in H; auto.
  - tauto.
  - destruct x as [le sp|at_ found sp|w sp|txt sp|w]; cbn [err_ok perror_span] in *;
      try (eexists; split; [reflexivity|assumption]); try contradiction.
    eexists. split; [reflexivity|]. destruct found as [k|]; [tauto|].
    destruct (mk_ctx_ok src (lex impl_cfg src) (lex_wf impl_cfg src impl_tables_sane)) as [Ht Hl].
    destruct H as [_ [-> | ->]]; assumption.
Qed.

(** A returned [Expected*] error always lists at least one expected token ([Lookahead::error] would
    otherwise hit [unreachable!]). *)
Lemma expected_nonempty_lemma src at_ found sp :
  parse_document impl_flags impl_cfg src = PErr (PE_Expected at_ found sp) -> at_ <> [].
Proof.
  intros E. pose proof (parse_document_outcome true src ltac:(discriminate)) as H. rewrite E in H.
  cbn [outcome err_ok] in H. destruct found; tauto.
Qed.

(* ------------------------------------------------------------------ executable form of the span predicate *)

Fixpoint boundaryb_from (o : N) (s : str) (n : N) : bool :=
  (o =? n)%N || match s with [] => false | c :: r => boundaryb_from (o + utf8_len c) r n end.

Definition span_okb (src : str) (sp : span) : bool :=
  boundaryb_from 0 src (off sp) && boundaryb_from 0 src (off sp + slen sp).

Lemma boundaryb_from_complete : forall pre post o,
  boundaryb_from o (pre ++ post) (o + byte_len pre) = true.
Proof.
  induction pre as [|c pre IH]; intros post o.
  - cbn [byte_len app]. rewrite N.add_0_r. destruct post; cbn [boundaryb_from]; now rewrite N.eqb_refl.
  - cbn [app byte_len boundaryb_from]. replace (o + (utf8_len c + byte_len pre))%N with (o + utf8_len c + byte_len pre)%N by lia.
    rewrite IH. apply orb_true_r.
Qed.

Lemma boundary_b src n : boundary src n -> boundaryb_from 0 src n = true.
Proof. intros (pre & post & -> & ->). apply (boundaryb_from_complete pre post 0%N). Qed.

Lemma span_ok_b src sp : span_ok src sp -> span_okb src sp = true.
Proof. intros [H1 H2]. unfold span_okb. now rewrite (boundary_b _ _ H1), (boundary_b _ _ H2). Qed.

(* ------------------------------------------------------------------ the two former counterexamples *)

(** The two texts on which the byte-counting end-of-input rule (span [start - 1], length 1) left the
    source: they are kept as regression cases of [./check C14]. *)
Definition w_empty : str := [].
(** [package a:b // \u00e9]: 17 bytes, the last character (U+00E9) occupies bytes 15 and 16. *)
Definition w_midchar : str := L"package a:b // " ++ [233%N].

(** Empty source: the empty span at 0 (formerly (0,1), outside the source). *)
Lemma eof_span_empty :
  parse_document impl_flags impl_cfg w_empty = PErr (PE_Expected [TPackageKeyword] None {| off := 0; slen := 0 |}).
Proof. vm_compute. reflexivity. Qed.

(** The token [a:b] (bytes 8..11) is the last one; the source ends in a comment and a two-byte
    character, so the end-of-input span of [parse_token] is that whole character, (15,2) (formerly
    (16,1), which starts inside it). *)
Lemma eof_span_midchar :
  parse_document impl_flags impl_cfg w_midchar = PErr (PE_Expected [TSemicolon] None {| off := 15; slen := 2 |}) /\
  byte_len w_midchar = 17%N.
Proof. vm_compute. split; reflexivity. Qed.

(** Both errors now carry a good span (instances of [spans_lemma], with the spans made explicit). *)
Lemma eof_witnesses_in_bounds :
  (exists x, parse_document impl_flags impl_cfg w_empty = PErr x /\
             perror_span x = Some {| off := 0; slen := 0 |} /\ span_ok w_empty {| off := 0; slen := 0 |}) /\
  (exists x, parse_document impl_flags impl_cfg w_midchar = PErr x /\
             perror_span x = Some {| off := 15; slen := 2 |} /\ span_ok w_midchar {| off := 15; slen := 2 |} /\
             (15 + 2 <= byte_len w_midchar)%N).
Proof.
  split.
  - pose proof (spans_lemma w_empty) as H. rewrite eof_span_empty in H. destruct H as (sp & Hsp & Hok).
    cbn [perror_span] in Hsp. inversion Hsp; subst sp. eexists. split; [exact eof_span_empty|]. split; [reflexivity|exact Hok].
  - destruct eof_span_midchar as [E Hlen]. pose proof (spans_lemma w_midchar) as H. rewrite E in H.
    destruct H as (sp & Hsp & Hok). cbn [perror_span] in Hsp. inversion Hsp; subst sp.
    eexists. split; [exact E|]. split; [reflexivity|]. split; [exact Hok|]. rewrite Hlen. lia.
Qed.
