(** Fuel of the nested merge / copy.  The Rust recursion of [merge_interface] / [remap_interface] over nested instance exports
    is modelled on explicit fuel.  This file bounds the fuel THAT recursion needs by the depth [d] of the contributor's
    requirement ([SDen]: interfaces may be shared between several places):

      with fuel  >= 2*d + L + 2  [merge_interface] (and with fuel >= 2*d + L [remap_item_kind]) of a nested requirement
      of depth [d] - whatever the state of the aggregator - can only answer "out of fuel" if
        - a LEAF of the contributor (function, value, value type) could not be copied with fuel >= L ([LeafOof L]), or
        - the SubtypeChecker, whose fuel [cf] is a separate parameter, answered OutOfFuel ([ChkOof]).

    i.e. the nested recursion itself never runs out.  (Both escape clauses are about flat, leaf-level work that the flat
    development has as well; [deep_run] in AggregatorNestedWitness.v runs a depth-3 history with fuel 60.) *)
From Coq Require Import ZArith ZifyBool ZifyN Lia.
From WacV Require Import Str Names Types Checker SubSpec CheckerEq CheckerValue CheckerProofs.
From WacV Require Import Aggregator AggregatorSpec AggregatorFrame AggregatorRemap AggregatorChecker AggregatorNames
     AggregatorFlat AggregatorNestedSpec AggregatorNestedDen.

Section NFuel.
  Variable ord : list (str * id) -> list (str * id).
  Variable cf : nat.
  Variable t : types.
  Variable L : nat.

  Definition LeafOof : Prop :=
    exists F k tr c, (L <= F)%nat /\ leaf_den t k tr /\ remap_item_kind ord cf F t k c = AOof.
  Definition ChkOof : Prop :=
    exists s T a b, fst (is_subtype cf s t a T b) = OutOfFuel \/ fst (is_subtype cf s T b t a) = OutOfFuel.
  (** [m] runs out of fuel only through an escape [Esc] (which contains [LeafOof]; for merges also [ChkOof]) *)
  Variable Esc : Prop.
  Hypothesis HLeaf : LeafOof -> Esc.
  Definition okm {A} (m : M A) : Prop := forall c, m c = AOof -> Esc.

  Lemma okm_prim {A} (m : M A) : (forall c, m c <> AOof) -> okm m.
  Proof. intros H c E. exfalso. exact (H c E). Qed.
  Lemma okm_ret {A} (a : A) : okm (ret a). Proof. apply okm_prim. discriminate. Qed.
  Lemma okm_fail {A} e : okm (@fail A e). Proof. apply okm_prim. discriminate. Qed.
  Lemma okm_panic {A} : okm (@panic A). Proof. apply okm_prim. discriminate. Qed.
  Lemma okm_bind {A B} (m : M A) (k : A -> M B) : okm m -> (forall x, okm (k x)) -> okm (bindM m k).
  Proof.
    intros Hm Hk c H. unfold bindM in H. destruct (m c) as [[x c']| | |] eqn:E; try discriminate;
      [eapply Hk; eauto | eapply Hm; eauto].
  Qed.
  Lemma okm_bind_idxM {A B} (o : option A) (k : A -> M B) : (forall x, o = Some x -> okm (k x)) -> okm (bindM (idxM o) k).
  Proof.
    intros H c E. destruct o as [x|]; cbn [idxM] in E; [|discriminate]. unfold bindM, ret in E. exact (H x eq_refl c E).
  Qed.
  Lemma okm_bind_ret {A B} (a : A) (k : A -> M B) : okm (k a) -> okm (bindM (ret a) k).
  Proof. intros H c E. unfold bindM, ret in E. exact (H c E). Qed.
  Lemma okm_forM {A} (f : A -> M unit) l : (forall x, In x l -> okm (f x)) -> okm (forM f l).
  Proof.
    induction l as [|a l IH]; intros H; cbn [forM]; [apply okm_ret|].
    apply okm_bind; [apply H; now left|]. intros _. apply IH. intros; apply H; now right.
  Qed.
  Lemma okm_mapM {A B} (f : A -> M B) l : (forall x, In x l -> okm (f x)) -> okm (mapM f l).
  Proof.
    induction l as [|a l IH]; intros H; cbn [mapM]; [apply okm_ret|].
    apply okm_bind; [apply H; now left|]. intros y. apply okm_bind; [apply IH; intros; apply H; now right|].
    intros ys. apply okm_ret.
  Qed.

  Lemma okm_agg_if y : okm (agg_if y).
  Proof. apply okm_prim. intros c. unfold agg_if. destruct (get_if (c_types c) y); cbn [idxM]; discriminate. Qed.
  Lemma okm_upd_if y f : okm (upd_if y f).
  Proof. unfold upd_if. apply okm_bind; [apply okm_agg_if|]. intros x. apply okm_prim. discriminate. Qed.
  Lemma okm_remapped_get k : okm (remapped_get k). Proof. apply okm_prim. discriminate. Qed.
  Lemma okm_remapped_set k v : okm (remapped_set k v). Proof. apply okm_prim. discriminate. Qed.
  Lemma okm_remapped_new k v : okm (remapped_new k v).
  Proof. apply okm_prim. intros c. unfold remapped_new. destruct (rm_get k (c_remapped c)); discriminate. Qed.
  Lemma okm_add_if x : okm (add_if x). Proof. apply okm_prim. discriminate. Qed.
  Lemma okm_iface_new n y : okm (iface_new n y).
  Proof. apply okm_prim. intros c. unfold iface_new. destruct (has_key n (c_ifaces c)); discriminate. Qed.
  Lemma okm_iface_set n y : okm (iface_set n y). Proof. apply okm_prim. discriminate. Qed.
  Lemma okm_lookup_iface n : okm (lookup_iface ord n). Proof. apply okm_prim. discriminate. Qed.
  Lemma okm_sub_fa a b : okm (sub_fa cf t a b).
  Proof. apply okm_prim. intros c. unfold sub_fa. destruct (is_subtype cf (c_chk c) t a (c_types c) b). discriminate. Qed.

  (** the second check of a same-named export, whose verdict is turned into a result *)
  Lemma okm_sub_af_must {B} ctx tk sk (K : M B) : (ChkOof -> Esc) -> okm K -> okm (r2 <-- sub_af cf t tk sk ;;; must ctx r2 ;;; K).
  Proof.
    intros HChk HK c H. unfold bindM at 1 in H. unfold sub_af in H.
    destruct (is_subtype cf (c_chk c) (c_types c) tk t sk) as [r s'] eqn:E.
    destruct r as [[]| | |]; cbn [must] in H.
    - unfold bindM, ret in H. exact (HK _ H).
    - discriminate.
    - discriminate.
    - apply HChk. exists (c_chk c), (c_types c), sk, tk. right. now rewrite E.
  Qed.

  (** * Copy *)
  Definition RB (d : nat) : Prop := forall k tr ids, SDen d t k tr ids -> forall F, (2 * d + L <= F)%nat ->
    okm (remap_item_kind ord cf F t k).
  Definition RIB (d : nat) : Prop := forall i e ids, SIDen d t i None e ids -> forall F, (2 * d + L + 1 <= F)%nat ->
    okm (remap_interface ord cf F t i).

  Lemma kids_den_in d own exs e n k : kids (SDen d t) own exs e -> In (n, k) exs -> exists tr, SDen d t k tr (own n).
  Proof.
    induction 1 as [|[n1 k1] [n2 tr] exs e [E Hk] _ IH]; [intros []|]. cbn [fst snd] in *. intros [X|X].
    - injection X as -> ->. eauto.
    - now apply IH.
  Qed.

  Lemma RIB_of_RB d : RB d -> RIB d.
  Proof.
    intros HK i e ids [exs [own [Hg [ND [K [Sh ->]]]]]] F HF. destruct F as [|f]; [lia|]. cbn [remap_interface].
    apply okm_bind_idxM. intros x Hx. rewrite Hg in Hx. injection Hx as <-. cbn [i_id i_uses i_exports].
    apply okm_bind_ret. apply okm_bind_ret.
    cbn [mapM]. apply okm_bind_ret.
    apply okm_bind.
    - apply okm_mapM. intros [n k] Hin. cbn [fst snd]. apply okm_bind; [|intros k'; apply okm_ret].
      destruct (kids_den_in _ _ _ _ _ _ K Hin) as [tr Hd]. apply (HK k tr _ Hd). lia.
    - intros es. apply okm_bind; [apply okm_add_if|]. intros y. apply okm_bind_ret. apply okm_ret.
  Qed.

  Lemma RB_0 : RB 0. Proof. intros k tr ids []. Qed.
  Lemma RB_S d : RIB d -> RB (S d).
  Proof.
    intros HI k tr ids HD F HF. cbn [DenG] in HD. destruct HD as [[LD ->]|[y0 [e [-> [-> HD]]]]].
    - intros c E. apply HLeaf. exists F, k, tr, c. split; [lia|auto].
    - destruct F as [|f]; [lia|]. cbn [remap_item_kind]. apply okm_bind; [|intros y; apply okm_ret].
      apply (HI y0 e ids HD). lia.
  Qed.
  Theorem RB_all : forall d, RB d.
  Proof. induction d as [|d IH]; [apply RB_0 | apply RB_S, RIB_of_RB, IH]. Qed.
  Theorem RIB_all : forall d, RIB d.
  Proof. intros d. apply RIB_of_RB, RB_all. Qed.

  (** * Merge *)
  Definition MB (d : nat) : Prop := forall i oid e ids, SIDen d t i oid e ids -> forall F y, (2 * d + L + 2 <= F)%nat ->
    okm (merge_interface ord cf F y t i).

  Lemma nested_pair_some tk sk y target source : nested_pair tk sk y = Some (target, source) -> sk = KInstance source.
  Proof.
    unfold nested_pair. destruct tk; try discriminate. destruct sk; try discriminate. destruct (id_eqb _ _); [discriminate|].
    intros H. now injection H as _ <-.
  Qed.

  Hypothesis HChk : ChkOof -> Esc.
  Lemma MB_of d (HMB : forall d', d = S d' -> MB d') : MB d.
  Proof.
    intros i oid e ids [exs [own [Hg [ND [K [Sh ->]]]]]] F y HF. destruct F as [|f]; [lia|]. rewrite merge_interface_S.
    apply okm_bind.
    - destruct f as [|f]; [lia|]. cbn [merge_interface_used_types]. apply okm_bind_idxM. intros x Hx. rewrite Hg in Hx.
      injection Hx as <-. cbn [i_uses forM]. apply okm_ret.
    - intros _. apply okm_bind_idxM. intros x Hx. rewrite Hg in Hx. injection Hx as <-. cbn [i_exports].
      apply okm_forM. intros [name sk] Hin. unfold merge_export_body.
      destruct (kids_den_in _ _ _ _ _ _ K Hin) as [tb HD].
      assert (Hremap : okm (k' <-- remap_item_kind ord cf f t sk ;;; upd_if y (if_set_export name k'))).
      { apply okm_bind; [apply (RB_all d sk tb _ HD); lia | intros k'; apply okm_upd_if]. }
      apply okm_bind; [apply okm_agg_if|]. intros ex. destruct (assoc name (i_exports ex)) as [tk|]; [|exact Hremap].
      destruct (nested_pair tk sk y) as [[target source]|] eqn:Enp.
      + apply nested_pair_some in Enp. subst sk. destruct d as [|d']; [destruct HD|].
        apply Den_inst in HD as [eb [-> IDs]]. apply okm_bind; [|intros _; apply okm_remapped_set].
        apply (HMB d' eq_refl source None eb _ IDs). lia.
      + apply okm_bind; [apply okm_sub_fa|]. intros r1. destruct (is_ok r1).
        * destruct (replaceable (ty_of sk) (ty_of tk)); [apply okm_remapped_set | apply okm_ret].
        * apply okm_sub_af_must; [exact HChk|exact Hremap].
  Qed.
  Theorem MB_all : forall d, MB d.
  Proof. induction d as [|d IH]; apply MB_of; intros d' E; [discriminate|]. injection E as <-. exact IH. Qed.
End NFuel.

(** the bound, spelled out *)
Theorem nested_merge_fuel_bound ord cf t L d i oid e ids :
  SIDen d t i oid e ids -> forall F y c, (2 * d + L + 2 <= F)%nat ->
  merge_interface ord cf F y t i c = AOof -> LeafOof ord cf t L \/ ChkOof cf t.
Proof.
  intros ID F y c HF H.
  exact (MB_all ord cf t L (LeafOof ord cf t L \/ ChkOof cf t) (fun X => or_introl X) (fun X => or_intror X) d i oid e ids ID F y HF c H).
Qed.
(** a copy does not consult the checker *)
Theorem nested_copy_fuel_bound ord cf t L d k tr ids :
  SDen d t k tr ids -> forall F c, (2 * d + L <= F)%nat ->
  remap_item_kind ord cf F t k c = AOof -> LeafOof ord cf t L.
Proof. intros HD F c HF H. exact (RB_all ord cf t L (LeafOof ord cf t L) (fun X => X) d k tr ids HD F HF c H). Qed.
