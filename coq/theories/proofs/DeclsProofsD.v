(** C05, part D: worlds -- items, paths, [include]. *)
From Coq Require Import String.
From Coq Require Import ZArith ZifyBool ZifyN Lia.
From WacV Require Import Str StrLit Types CheckerEq CheckerValue CheckerProofs Decls WitDenote
     DeclsProofsA DeclsProofsB DeclsProofsF DeclsProofsC.
From WacV Require Ast.
Set Warnings "-unused-intro-pattern".

Definition Rwst (w : wst) (wb : wbody) : Prop :=
  Rloc (w_loc w) (wb_imp wb) /\ Rexts (w_types w) (w_exp w) (wb_exp wb).

Lemma side_wside imp w wb : Rwst w wb -> Rexts (w_types w) (side imp w) (wside imp wb).
Proof. intros [[_ H1] H2]. destruct imp; assumption. Qed.

Lemma w_types_put imp w n k t : w_types (put imp w n k t) = t.
Proof. destruct imp; reflexivity. Qed.

Lemma put_sim imp w wb n k tr t1 :
  Rwst w wb -> aext (w_types w) t1 -> has n (side imp w) = false -> uk t1 k tr ->
  Rwst (put imp w n k t1) (wput imp wb n tr).
Proof.
  intros [[He Hi] Hx] X1 Hh Hk. unfold put, wput, side, with_imports, with_exports, Rwst, Rloc, w_types, w_imp in *.
  destruct imp; cbn [w_loc w_exp l_types l_cur l_exts wb_imp wb_exp b_env b_items]; rewrite (imap_set_fresh _ _ _ Hh).
  - split; [split|]; [eapply Renv_aext; eassumption | apply R2_snoc; [eapply Rexts_aext; eassumption | exact Hk]
                      | eapply Rexts_aext; eassumption].
  - split; [split|]; [eapply Renv_aext; eassumption | eapply Rexts_aext; eassumption
                      | apply R2_snoc; [eapply Rexts_aext; eassumption | exact Hk]].
Qed.

(** * Paths *)
Lemma iface_path_sim imp w wb found so w' :
  Rwst w wb ->
  (forall k, found = DOk k -> leafk k = false -> exists x s, k = KType x /\ so = Some s /\ rel_item (w_types w) x s) ->
  iface_path imp w found = DOk w' ->
  w_types w' = w_types w /\ exists wb', den_path_iface imp wb so = Some wb' /\ Rwst w' wb'.
Proof.
  intros Hw Hfound H. unfold iface_path in H. dinv H as [it [E1 H]].
  destruct it as [[r|f|v|i|wd|m]|f|i|wd|m|v]; try discriminate.
  destruct (Hfound _ E1 eq_refl) as [x [s [Ek [-> Hs]]]]. injection Ek as <-.
  inversion Hs as [| | |ii d e G Hx|]; subst. rewrite G in H. destruct (i_id d) as [n|]; [|discriminate].
  destruct (has n (side imp w)) eqn:Eh; [discriminate|]. injection H as <-. rewrite w_types_put. split; [reflexivity|].
  cbn [den_path_iface]. rewrite <- (R2_has _ _ _ n (side_wside imp _ _ Hw)), Eh. eexists. split; [reflexivity|].
  apply put_sim; [exact Hw | apply aext_refl | exact Eh | eapply uk_inst; eassumption].
Qed.

Lemma world_item_path_sim root pkgs genv penv imp w wb p w' :
  flat (w_types w) -> Renv (w_types w) root genv -> Rpk (w_types w) pkgs penv -> Rwst w wb ->
  world_item_path root pkgs imp w p = DOk w' ->
  aext (w_types w) (w_types w') /\ exists wb', den_world_path genv penv imp wb p = Some wb' /\ Rwst w' wb'.
Proof.
  intros Hf Hg Hp Hw H. destruct p as [i et|pp|i]; cbn [world_item_path den_world_path] in *.
  - change (name_of i) with (nm i) in H. destruct (has (nm i) (side imp w)) eqn:Eh; [discriminate|].
    dinv H as [[k t1] [E1 H]]. injection H as <-. rewrite w_types_put.
    rewrite <- (R2_has _ _ _ (nm i) (side_wside imp _ _ Hw)), Eh.
    assert (Hk : aext (w_types w) t1 /\ exists tr,
              match et with
              | Ast.ETIdent j =>
                match match assoc (nm j) (b_env (wb_imp wb)) with Some s => Some s | None => assoc (nm j) genv end with
                | Some (SIface _ e) => Some (XInst e)
                | Some (SFunc f) => Some (XFunc f)
                | _ => None
                end
              | Ast.ETFunc f => option_map XFunc (den_func (b_env (wb_imp wb)) MFree [] (Ast.ft_params f) (Ast.ft_results f))
              | Ast.ETInterface items => option_map XInst (den_iface genv penv items)
              end = Some tr /\ uk t1 k tr).
    { destruct Hw as [[He Hi] Hx]. destruct et as [j|fn|items].
      - dinv E1 as [it [E0 E1]]. change (name_of j) with (nm j) in E0.
        assert (Hit : exists s, match assoc (nm j) (b_env (wb_imp wb)) with Some s => Some s | None => assoc (nm j) genv end = Some s
                                /\ rel_item (w_types w) it s).
        { destruct (assoc (nm j) (l_cur (w_loc w))) as [x|] eqn:Ea.
          - injection E0 as <-. destruct (R2_assoc_some _ _ _ _ _ He Ea) as [s [As Hs]]. exists s. now rewrite As.
          - rewrite (R2_assoc_none _ _ _ _ He Ea). apply lookup_in_ok in E0.
            destruct (R2_assoc_some _ _ _ _ _ Hg E0) as [s [As Hs]]. eauto. }
        destruct Hit as [s [-> Hs]].
        destruct it; try discriminate; injection E1 as <- <-; (split; [apply aext_refl|]).
        + inversion Hs as [| |f' ft Huf| |]; subst. exists (XFunc ft). split; [reflexivity | now apply uk_func].
        + inversion Hs as [| | |ii d e G Hx'|]; subst. exists (XInst e). split; [reflexivity | eapply uk_inst; eassumption].
      - dinv E1 as [[x t0] [E0 E1]]. injection E1 as <- <-.
        destruct (func_type_sim _ _ _ _ _ FFree None [] _ _ He ltac:(discriminate) E0) as [X1 [ft [D1 U1]]].
        split; [exact X1|]. exists (XFunc ft). cbn [kmap] in D1. rewrite D1. split; [reflexivity | now apply uk_func].
      - dinv E1 as [[x t0] [E0 E1]]. injection E1 as <- <-.
        destruct (interface_body_sim _ _ _ _ _ _ _ _ _ Hf Hg Hp E0) as [X1 [e [D1 [_ [d [G [_ Hx']]]]]]].
        split; [exact X1|]. exists (XInst e). rewrite D1. split; [reflexivity | eapply uk_inst; eassumption]. }
    destruct Hk as [X1 [tr [-> Hk]]]. split; [exact X1|]. eexists. split; [reflexivity|]. now apply put_sim.
  - destruct (iface_path_sim imp w wb (path_item root pkgs (w_types w) pp) (den_path genv penv pp) w' Hw) as [Ht R1]; [|exact H|].
    + intros k Hk Hl. eapply path_item_sim; eassumption.
    + rewrite Ht. split; [apply aext_refl | exact R1].
  - destruct (iface_path_sim imp w wb (do x <- lookup_in root i ;; DOk (KType x)) (assoc (nm i) genv) w' Hw) as [Ht R1]; [|exact H|].
    + intros k Hk Hl. dinv Hk as [x [E0 Hk]]. injection Hk as <-. apply lookup_in_ok in E0.
      destruct (R2_assoc_some _ _ _ _ _ Hg E0) as [s [As Hs]]. eauto.
    + rewrite Ht. split; [apply aext_refl | exact R1].
Qed.

(** * World items *)
Lemma world_items_go_sim root pkgs genv penv : forall items w wb w',
  wflat w -> Renv (w_types w) root genv -> Rpk (w_types w) pkgs penv -> Rwst w wb ->
  world_items_go root pkgs w items = DOk w' ->
  aext (w_types w) (w_types w') /\ exists wb', den_world_items genv penv wb items = Some wb' /\ Rwst w' wb'.
Proof.
  induction items as [|it rest IH]; intros w wb w' Hf Hg Hp Hw H.
  - cbn in H. injection H as <-. split; [apply aext_refl|]. exists wb. auto.
  - cbn [world_items_go] in H. dinv H as [w1 [E1 H]].
    assert (Hf1 : wflat w1).
    { apply (world_items_go_flat root pkgs [it] w w1 Hf). cbn [world_items_go]. now rewrite E1. }
    assert (Hstep : aext (w_types w) (w_types w1) /\ exists wb1,
              match it with
              | Ast.WIUse u => option_map (fun b => mkwbody b (wb_exp wb)) (den_use genv penv (wb_imp wb) u)
              | Ast.WIType d => option_map (fun b => mkwbody b (wb_exp wb)) (den_decl (wb_imp wb) d)
              | Ast.WIImport _ p => den_world_path genv penv true wb p
              | Ast.WIExport _ p => den_world_path genv penv false wb p
              | Ast.WIInclude _ _ _ => Some wb
              end = Some wb1 /\ Rwst w1 wb1).
    { destruct it as [u|d|docs p|docs p|docs r its].
      - destruct Hw as [Hl Hx]. dinv E1 as [l [E0 E1]]. injection E1 as <-.
        destruct (use_type_sim _ _ _ _ _ _ _ _ (proj1 Hf) Hg Hp Hl E0) as [Ht [b' [D1 R1]]].
        unfold w_types in *. cbn [w_loc]. rewrite Ht. split; [apply aext_refl|]. rewrite D1. eexists. split; [reflexivity|].
        split; cbn [w_loc w_exp wb_imp wb_exp]; [exact R1 | unfold w_types; cbn [w_loc]; rewrite Ht; exact Hx].
      - destruct Hw as [Hl Hx]. dinv E1 as [l [E0 E1]]. injection E1 as <-.
        destruct (item_type_decl_sim _ _ _ _ _ Hl E0) as [X1 [b' [D1 R1]]]. unfold w_types in *. cbn [w_loc].
        split; [exact X1|]. rewrite D1. eexists. split; [reflexivity|].
        split; cbn [w_loc w_exp wb_imp wb_exp]; [exact R1 | unfold w_types; cbn [w_loc]; eapply Rexts_aext; eassumption].
      - eapply world_item_path_sim; try eassumption. exact (proj1 Hf).
      - eapply world_item_path_sim; try eassumption. exact (proj1 Hf).
      - injection E1 as <-. split; [apply aext_refl|]. exists wb. auto. }
    destruct Hstep as [X1 [wb1 [D1 R1]]].
    destruct (IH _ _ _ Hf1 (Renv_aext _ _ _ _ X1 Hg) (Rpk_aext _ _ _ _ X1 Hp) R1 H) as [X2 [wb' [D2 R2']]].
    split; [eapply aext_trans; eassumption|]. exists wb'. split; [|exact R2']. cbn [den_world_items]. rewrite D1. exact D2.
Qed.

(** * [include] *)
Definition ren_of (items : list Ast.include_item) : list (str * str) :=
  map (fun it => (nm (Ast.ii_from it), nm (Ast.ii_to it))) items.

Lemma repl_go_ok : forall items acc repl, repl_go acc items = DOk repl ->
  repl = acc ++ ren_of items /\ (distinct (map fst acc) = true -> distinct (map fst repl) = true).
Proof.
  induction items as [|it rest IH]; intros acc repl H; cbn [repl_go] in H.
  - injection H as <-. unfold ren_of. cbn [map]. rewrite app_nil_r. auto.
  - change (name_of (Ast.ii_from it)) with (nm (Ast.ii_from it)) in H. change (name_of (Ast.ii_to it)) with (nm (Ast.ii_to it)) in H.
    destruct (has (nm (Ast.ii_from it)) acc) eqn:Eh; [discriminate|]. destruct (IH _ _ H) as [-> Hd].
    split; [unfold ren_of; cbn [map]; now rewrite <- app_assoc|]. intro Hd0. apply Hd.
    rewrite map_app. cbn [map fst]. rewrite distinct_snoc, Hd0, <- has_keys, Eh. reflexivity.
Qed.

Lemma mem_app k l1 l2 : mem k (l1 ++ l2) = mem k l1 || mem k l2.
Proof. rewrite !mem_existsb. apply existsb_app. Qed.

(** every used renaming belongs to a plain name met so far *)
Definition UInv (used done : list str) : Prop :=
  forall k, mem k used = true -> has_colon k = false /\ mem k done = true.

Lemma is_id_has_colon n : is_id n = has_colon n.
Proof. reflexivity. Qed.

Lemma include_go_sim t ren : forall src src', Rexts t src src' ->
  forall target target' used done tgt used',
  Rexts t target target' -> UInv used done ->
  include_go target ren used src = DOk (tgt, used') ->
  exists tgt', den_include_side ren target' src' = Some tgt' /\ Rexts t tgt tgt' /\ UInv used' (done ++ map fst src).
Proof.
  induction 1 as [|[n kd] [n' tr] src src' [Hn Hk] _ IH]; intros target target' used done tgt used' Ht Hinv H.
  - cbn in H. injection H as <- <-. exists target'. cbn [map]. rewrite app_nil_r. auto.
  - cbn [fst snd] in Hn, Hk. subst n'. cbn [include_go] in H. dinv H as [[n1 used1] [E1 H]].
    cbn [den_include_side]. cbv zeta. unfold renamed. rewrite is_id_has_colon.
    cbn [map fst]. change (done ++ n :: map fst src) with (done ++ [n] ++ map fst src). rewrite app_assoc.
    unfold replace_name in E1. destruct (has_colon n) eqn:Ec.
    + (* an interface id: never renamed, merged when present *)
      injection E1 as <- <-.
      assert (Hinv1 : UInv used (done ++ [n])).
      { intros k Hk'. destruct (Hinv k Hk') as [H1 H2]. split; [exact H1|]. now rewrite mem_app, H2. }
      unfold or_insert in H. rewrite <- (R2_has _ _ _ n Ht). destruct (has n target) eqn:Eh.
      * apply (IH _ _ _ _ _ _ Ht Hinv1 H).
      * apply (IH _ _ _ _ _ _ (R2_snoc _ _ _ _ _ _ Ht Hk) Hinv1 H).
    + (* a plain name: renamed when a replacement exists, on either side *)
      assert (Hstep : n1 = match assoc n ren with Some m => m | None => n end /\ has n1 target = false /\
                      UInv used1 (done ++ [n])).
      { destruct (assoc n ren) as [to|] eqn:Er.
        - destruct (has to target) eqn:Eh; [discriminate|]. injection E1 as <- <-. split; [reflexivity|]. split; [exact Eh|].
          intros k Hk'. cbn [mem] in Hk'. rewrite mem_app. cbn [mem]. rewrite orb_false_r.
          destruct (str_eqb k n) eqn:E.
          + apply seqb_eq in E. subst k. split; [exact Ec | apply orb_true_r].
          + cbn [orb] in Hk'. destruct (Hinv k Hk') as [H1 H2]. split; [exact H1 | now rewrite H2].
        - destruct (has n target) eqn:Eh; [discriminate|]. injection E1 as <- <-. split; [reflexivity|]. split; [exact Eh|].
          intros k Hk'. destruct (Hinv k Hk') as [H1 H2]. split; [exact H1|]. now rewrite mem_app, H2. }
      destruct Hstep as [-> [Eh Hinv1]].
      unfold or_insert in H. rewrite Eh in H. rewrite <- (R2_has _ _ _ _ Ht), Eh.
      apply (IH _ _ _ _ _ _ (R2_snoc _ _ _ _ _ _ Ht Hk) Hinv1 H).
Qed.

Definition world_ref_sem (genv : env) (penv : penv_t) (r : Ast.world_ref) : option sem :=
  match r with
  | Ast.WRIdent i => assoc (nm i) genv
  | Ast.WRPackage pp => den_path genv penv pp
  end.

Lemma den_include_eq genv penv w r items :
  den_include genv penv w r items =
  (if negb (distinct (map fst (ren_of items))) then None else
   match world_ref_sem genv penv r with
   | Some (SWorld wi we) =>
     if negb (forallb (fun kv => negb (is_id (fst kv)) && (bound (fst kv) wi || bound (fst kv) we)) (ren_of items)) then None else
     match den_include_side (ren_of items) (b_items (wb_imp w)) wi, den_include_side (ren_of items) (wb_exp w) we with
     | Some i1, Some e1 => Some (mkwbody (mkbody (b_env (wb_imp w)) i1) e1)
     | _, _ => None
     end
   | _ => None
   end).
Proof. reflexivity. Qed.

(** the included world, as a kind, and its denotation *)
Lemma world_ref_sim root pkgs genv penv t r k :
  flat t -> Renv t root genv -> Rpk t pkgs penv ->
  match r with
  | Ast.WRIdent i => do x <- lookup_in root i ;; DOk (KType x)
  | Ast.WRPackage pp => path_item root pkgs t pp
  end = DOk k -> leafk k = false ->
  exists x s, k = KType x /\ world_ref_sem genv penv r = Some s /\ rel_item t x s.
Proof.
  intros Hf Hg Hp H Hl. destruct r as [i|pp]; cbn [world_ref_sem].
  - dinv H as [x [E0 H]]. injection H as <-. apply lookup_in_ok in E0.
    destruct (R2_assoc_some _ _ _ _ _ Hg E0) as [s [As Hs]]. eauto.
  - eapply path_item_sim; eassumption.
Qed.

Lemma world_include_sim root pkgs genv penv w wb r items w' :
  flat (w_types w) -> Renv (w_types w) root genv -> Rpk (w_types w) pkgs penv -> Rwst w wb ->
  world_include root pkgs w r items = DOk w' ->
  w_types w' = w_types w /\ exists wb', den_include genv penv wb r items = Some wb' /\ Rwst w' wb'.
Proof.
  intros Hf Hg Hp Hw H. unfold world_include in H. dinv H as [repl [E1 H]]. dinv H as [it [E2 H]].
  destruct (repl_go_ok _ _ _ E1) as [-> Hd]. cbn [app] in *. specialize (Hd eq_refl).
  assert (Hgen : exists x other, it = KType (TWorld x) /\ get_world (w_types w) x = Some other /\
            (do (imps, used1) <- include_go (w_imp w) (ren_of items) [] (w_imports other) ;;
             do (exps, used2) <- include_go (w_exp w) (ren_of items) used1 (w_exports other) ;;
             if existsb (fun it => negb (mem (name_of (Ast.ii_from it)) used2)) items then DErr EMissingWorldInclude
             else DOk (mkwst (mkloc (l_cur (w_loc w)) (l_uses (w_loc w)) imps (w_types w)) exps)) = DOk w').
  { destruct it as [[r0|f|v|i|wd|m]|f|i|wd|m|v]; try discriminate.
    - destruct (get_world (w_types w) wd) as [other|] eqn:G; [|discriminate]. eauto.
    - exfalso. destruct (world_ref_sim _ _ _ _ _ _ _ Hf Hg Hp E2 eq_refl) as [x [s [Ek _]]]. discriminate. }
  clear H. destruct Hgen as [x [other [-> [G H]]]].
  destruct (world_ref_sim _ _ _ _ _ _ _ Hf Hg Hp E2 eq_refl) as [x0 [s [Ek [Ds Hs]]]]. injection Ek as <-.
  inversion Hs as [| | | |ww other' wi we G' Hwi Hwe]; subst. rewrite G in G'. injection G' as <-.
  dinv H as [[imps used1] [E3 H]]. dinv H as [[exps used2] [E4 H]].
  destruct (existsb (fun it => negb (mem (name_of (Ast.ii_from it)) used2)) items) eqn:Emiss; [discriminate|]. injection H as <-.
  destruct Hw as [[He Hi] Hx]. unfold w_imp, w_types in *.
  assert (Hinv0 : UInv [] []) by (intros k Hk; discriminate).
  destruct (include_go_sim _ (ren_of items) _ _ Hwi _ _ _ _ _ _ Hi Hinv0 E3) as [i1 [D1 [R1 Hinv1]]].
  cbn [app] in Hinv1.
  destruct (include_go_sim _ (ren_of items) _ _ Hwe _ _ _ _ _ _ Hx Hinv1 E4) as [e1 [D2 [R2' Hinv2]]].
  cbn [w_loc l_types]. split; [reflexivity|].
  rewrite den_include_eq, Hd, Ds. cbn [negb].
  assert (Hall : forallb (fun kv => negb (is_id (fst kv)) && (bound (fst kv) wi || bound (fst kv) we)) (ren_of items) = true).
  { apply forallb_forall. intros kv Hin. unfold ren_of in Hin. apply in_map_iff in Hin as [it0 [<- Hin]]. cbn [fst].
    assert (Hu : mem (nm (Ast.ii_from it0)) used2 = true).
    { destruct (mem (nm (Ast.ii_from it0)) used2) eqn:E; [reflexivity|].
      assert (existsb (fun it => negb (mem (name_of (Ast.ii_from it)) used2)) items = true); [|congruence].
      apply existsb_exists. exists it0. split; [exact Hin|]. change (name_of (Ast.ii_from it0)) with (nm (Ast.ii_from it0)).
      now rewrite E. }
    destruct (Hinv2 _ Hu) as [Ec Em]. rewrite is_id_has_colon, Ec. cbn [negb andb].
    rewrite mem_app, !mem_existsb, (R2_keys _ _ _ Hwi), (R2_keys _ _ _ Hwe), <- !bound_keys in Em. exact Em. }
  rewrite Hall. cbn [negb]. rewrite D1, D2. eexists. split; [reflexivity|].
  split; [split|]; cbn [w_loc w_exp l_cur l_exts l_types wb_imp wb_exp b_env b_items]; assumption.
Qed.

Lemma world_includes_go_sim root pkgs genv penv : forall items w wb w',
  wflat w -> Renv (w_types w) root genv -> Rpk (w_types w) pkgs penv -> Rwst w wb ->
  world_includes_go root pkgs w items = DOk w' ->
  w_types w' = w_types w /\ exists wb', den_world_includes genv penv wb items = Some wb' /\ Rwst w' wb'.
Proof.
  induction items as [|it rest IH]; intros w wb w' Hf Hg Hp Hw H.
  - cbn in H. injection H as <-. split; [reflexivity|]. exists wb. auto.
  - destruct it as [u|d|docs p|docs p|docs r its]; cbn [world_includes_go den_world_includes] in *;
      try (eapply IH; eassumption).
    dinv H as [w1 [E1 H]].
    destruct (world_include_sim _ _ _ _ _ _ _ _ _ (proj1 Hf) Hg Hp Hw E1) as [Ht [wb1 [D1 R1]]].
    assert (Hf1 : wflat w1) by (eapply world_include_flat; eassumption).
    rewrite <- Ht in Hg, Hp. destruct (IH _ _ _ Hf1 Hg Hp R1 H) as [Ht2 [wb' [D2 R2']]].
    split; [congruence|]. exists wb'. rewrite D1. auto.
Qed.

Lemma world_body_sim root pkgs genv penv t idn items i t' :
  flat t -> Renv t root genv -> Rpk t pkgs penv ->
  world_body root pkgs t idn items = DOk (i, t') ->
  aext t t' /\ exists wi we, den_world genv penv items = Some (wi, we) /\ rel_item t' (TWorld i) (SWorld wi we).
Proof.
  intros Hf Hg Hp H. unfold world_body in H. dinv H as [w1 [E1 H]]. dinv H as [w2 [E2 H]].
  set (w0 := mkwst (mkloc [] [] [] t) []) in *.
  assert (Hw0 : Rwst w0 (mkwbody (mkbody [] []) [])) by (split; [split|]; apply R2_nil).
  assert (Hf0 : wflat w0) by (split; [exact Hf | reflexivity]).
  destruct (world_items_go_sim _ _ _ _ _ _ _ _ Hf0 Hg Hp Hw0 E1) as [X1 [wb1 [D1 R1]]].
  change (w_types w0) with t in X1.
  assert (Hf1 : wflat w1) by (eapply world_items_go_flat; eassumption).
  destruct (world_includes_go_sim _ _ _ _ _ _ _ _ Hf1 (Renv_aext _ _ _ _ X1 Hg) (Rpk_aext _ _ _ _ X1 Hp) R1 E2)
    as [Ht [wb2 [D2 [[_ Ri] Rx]]]].
  set (x := mkworld idn (l_uses (w_loc w2)) (w_imp w2) (w_exp w2)) in *. unfold add_world in H. injection H as <- <-.
  assert (X2 : aext (w_types w2) (fst (add_world (w_types w2) x))) by apply aext_add_world.
  split; [rewrite Ht in *; eapply aext_trans; eassumption|].
  exists (b_items (wb_imp wb2)), (wb_exp wb2). unfold den_world. rewrite D1, D2. split; [reflexivity|].
  apply (RI_world _ _ x); [apply get_world_new | |]; cbn [w_imports w_exports x].
  - eapply Rexts_aext; [exact X2 | exact Ri].
  - eapply Rexts_aext; [exact X2 | exact Rx].
Qed.

(** * HISTORICAL regression record: [include ... with] before the repair

    The algorithm of resolution.rs BEFORE commit 0d98072 (kept here only as a regression record; it is not part of
    the model any more): [replace_name] removed a renaming from the map after its first use, so when the included
    world both imports and exports the plain name [f], [include w with { f as g }] renamed only the import. *)
Fixpoint remove_key_prefix {B} (k : str) (l : list (str * B)) : list (str * B) :=
  match l with
  | [] => []
  | (k', v) :: r => if str_eqb k k' then r else (k', v) :: remove_key_prefix k r
  end.
Definition replace_name_prefix (target : list (str * kind)) (n : str) (repl : list (str * str))
  : dres (str * list (str * str)) :=
  if has_colon n then DOk (n, repl) else
  let '(n1, repl1) := match assoc n repl with Some to => (to, remove_key_prefix n repl) | None => (n, repl) end in
  if has n1 target then DErr EWorldIncludeConflict else DOk (n1, repl1).
Fixpoint include_go_prefix (target : list (str * kind)) (repl : list (str * str)) (src : list (str * kind))
  : dres (list (str * kind) * list (str * str)) :=
  match src with
  | [] => DOk (target, repl)
  | (n, k) :: rest =>
    do (n1, repl1) <- replace_name_prefix target n repl ;;
    include_go_prefix (or_insert n1 k target) repl1 rest
  end.

Definition rb_f : str := L"f".
Definition rb_g : str := L"g".
Definition rb_other : world := mkworld None [] [(rb_f, KFunc (mkid 0 0))] [(rb_f, KFunc (mkid 0 0))].
Definition rb_types : types := mktypes 0 [] [] [mkfunc [] None false] [] [rb_other] [].
Definition rb_span : Token.span := {| Token.off := 0; Token.slen := 0 |}.
Definition rb_ident (s : str) : Ast.ident := {| Ast.id_string := s; Ast.id_span := rb_span |}.
Definition rb_items : list Ast.include_item := [{| Ast.ii_from := rb_ident rb_f; Ast.ii_to := rb_ident rb_g |}].
Definition rb_root : scope := [(L"w", TWorld (mkid 0 0))].
Definition rb_ft : ftree := mkft [] None false.
Definition rb_genv : env := [(L"w", SWorld [(rb_f, XFunc rb_ft)] [(rb_f, XFunc rb_ft)])].
Definition rb_w0 : wst := mkwst (mkloc [] [] [] rb_types) [].
Definition rb_wb0 : wbody := mkwbody (mkbody [] []) [].

(** the pre-fix algorithm on the witness: imports [g], exports still [f] *)
Lemma include_prefix_witness :
  exists imps repl1 exps repl2,
    include_go_prefix [] (ren_of rb_items) (w_imports rb_other) = DOk (imps, repl1) /\
    include_go_prefix [] repl1 (w_exports rb_other) = DOk (exps, repl2) /\
    map fst imps = [rb_g] /\ map fst exps = [rb_f].
Proof. do 4 eexists. repeat split; vm_compute; reflexivity. Qed.

(** the current model and the denotation on the same witness: [g] on both sides *)
Lemma include_current_witness :
  (exists w', world_include rb_root (mkpkgs [] []) rb_w0 (Ast.WRIdent (rb_ident (L"w"))) rb_items = DOk w' /\
              map fst (w_imp w') = [rb_g] /\ map fst (w_exp w') = [rb_g]) /\
  (exists wb', den_include rb_genv (mkpenv [] []) rb_wb0 (Ast.WRIdent (rb_ident (L"w"))) rb_items = Some wb' /\
               map fst (b_items (wb_imp wb')) = [rb_g] /\ map fst (wb_exp wb') = [rb_g]).
Proof. split; eexists; (split; [vm_compute; reflexivity|]); split; vm_compute; reflexivity. Qed.
