(** C06: the frame of [remove_node]: apart from the removed nodes nothing changes. The surviving nodes
    keep their package, kind, name and export name (an instantiation may lose satisfied indexes), the
    maps and the edge list keep exactly the entries whose nodes survive, the package table is untouched. *)
From Coq Require Import List Arith Bool NArith Lia.
From WacV Require Import Graph GraphInv GraphPrims GraphSteps GraphRemove GraphUnreg GraphTheorems GraphLive
  GraphAcyclic GraphRank GraphAlias.
Import ListNotations.

Definition nrel5 (a b : node) : Prop :=
  nitem b = nitem a /\ npkg b = npkg a /\ nname b = nname a /\ nexport b = nexport a /\ kclass (nk a) (nk b).

Lemma nrel5_refl a : nrel5 a a.
Proof. repeat split. apply kclass_refl. Qed.

Lemma nrel5_trans a b c : nrel5 a b -> nrel5 b c -> nrel5 a c.
Proof.
  intros (A1 & A2 & A3 & A4 & A5) (B1 & B2 & B3 & B4 & B5). repeat split; try congruence.
  destruct (nk a), (nk b), (nk c); cbn in *; auto; congruence.
Qed.

Lemma remove_satisfied_all_fields l : forall s s',
  remove_satisfied_all s l = inl s' ->
  forall m, orel (fun a b => nitem b = nitem a /\ nname b = nname a) (getn (nodes s) m) (getn (nodes s') m).
Proof.
  induction l as [|[t i] r IH]; intros s s' H m; cbn in H.
  - injection H as <-. destruct (getn (nodes s) m); cbn; auto.
  - destruct (remove_satisfied s t i) as [s1|] eqn:R; [|discriminate].
    apply remove_satisfied_inv in R as [nd [sat [G [K ->]]]]. rewrite get_node_getn in G.
    specialize (IH _ _ H m). cbn in IH. erewrite getn_set_live in IH by eauto.
    destruct (Nat.eqb_spec m t) as [Eq|_]; [|exact IH]. subst m. rewrite G. exact IH.
Qed.

Lemma remove_one_frame u s n nd0 s' :
  InvC u s -> get_node s n = Some nd0 -> remove_one s n = inl s' ->
  (forall x, In x (exports s') <-> In x (exports s) /\ snd x <> n) /\
  (forall x, In x (imports s') <-> In x (imports s) /\ snd x <> n) /\
  (forall x, In x (defined s') <-> In x (defined s) /\ snd x <> n) /\
  pkgs s' = pkgs s /\
  (forall m, m <> n -> orel nrel5 (get_node s m) (get_node s' m)).
Proof.
  intros HI G0. pose proof HI as [F E X I D P]. rewrite get_node_getn in G0.
  unfold remove_one. destruct (remove_satisfied_all s _) as [s1|] eqn:R; [|discriminate].
  pose proof (remove_satisfied_all_fields _ _ _ R) as Hf.
  apply remove_satisfied_all_spec in R as (Hc & _ & _ & _ & R3 & R4 & R5 & R6 & _).
  pose proof (Hc n) as Cn. rewrite G0 in Cn. rewrite get_node_getn.
  destruct (getn (nodes s1) n) as [nd|] eqn:G1; [|destruct Cn]. cbn in Cn. pose proof Cn as (C1 & C2 & C3).
  assert (KC : kclass (nk nd0) (nk nd)) by (eapply cleared_kclass; eauto).
  assert (Hm : forall m, m <> n -> orel nrel5 (getn (nodes s) m) (getn (set_nth (nodes s1) n None) m)).
  { intros m Hne. rewrite getn_set_none. apply Nat.eqb_neq in Hne. rewrite Hne. specialize (Hc m). specialize (Hf m).
    destruct (getn (nodes s) m) as [n0|], (getn (nodes s1) m) as [n1|]; cbn in *; auto.
    destruct Hc as (D1 & D2 & D3). destruct Hf as [F1 F2]. repeat split; auto. destruct (nk n0); rewrite D3; cbn; auto. }
  cbn [drop_node imports exports defined]. rewrite R3, R4, R5.
  pose proof (imports_after_remove _ _ _ _ I G0) as IAR.
  assert (Hex : forall ex1, match nexport nd with
                            | Some nm => match swap_remove (exports s) nm with Some ex => inl ex | None => inr PExportMissing end
                            | None => inl (exports s) end = inl ex1 ->
                forall x, In x (filter (fun p : name * nat => negb (snd p =? n)) ex1) <-> In x (exports s) /\ snd x <> n).
  { intros ex1 H1. apply (exports_after_remove _ _ _ _ ex1 X G0). rewrite <- C2.
    destruct (nexport nd); [destruct (swap_remove (exports s) n0); [injection H1 as ->; auto|discriminate]|now injection H1]. }
  assert (Hdf_other : nk nd0 <> NDef -> forall x, In x (defined s) <-> In x (defined s) /\ snd x <> n).
  { intros Hk [t m]. split; [|tauto]. intros H. split; auto. cbn. intros ->.
    apply (do_def _ _ D) in H as [x [Gx Kx]]. congruence. }
  destruct (nk nd) as [|nm|st|] eqn:K1, (nk nd0) as [|nm0|st0|] eqn:K0; cbn in KC; try discriminate KC;
    cbn zeta in IAR; destruct IAR as [Mi _].
  - destruct (match nexport nd with Some nm => _ | None => _ end) as [ex1|] eqn:Ex; [|discriminate].
    destruct (existsb _ (defined s)); [|discriminate]. intros [= <-]. cbn.
    split; [now apply Hex|split; [exact Mi|split; [|split; [rewrite R6; reflexivity|exact Hm]]]].
    intros x. rewrite filter_In, negb_true_iff, Nat.eqb_neq. reflexivity.
  - injection KC as ->. destruct (alist_get N.eqb (imports s) nm); [|discriminate].
    destruct (match nexport nd with Some nm => _ | None => _ end) as [ex1|] eqn:Ex; [|discriminate].
    intros [= <-]. cbn.
    split; [now apply Hex|split; [exact Mi|split; [apply Hdf_other; discriminate|split; [rewrite R6; reflexivity|exact Hm]]]].
  - destruct (match nexport nd with Some nm => _ | None => _ end) as [ex1|] eqn:Ex; [|discriminate].
    intros [= <-]. cbn.
    split; [now apply Hex|split; [exact Mi|split; [apply Hdf_other; discriminate|split; [rewrite R6; reflexivity|exact Hm]]]].
  - destruct (match nexport nd with Some nm => _ | None => _ end) as [ex1|] eqn:Ex; [|discriminate].
    intros [= <-]. cbn.
    split; [now apply Hex|split; [exact Mi|split; [apply Hdf_other; discriminate|split; [rewrite R6; reflexivity|exact Hm]]]].
Qed.

Record Frame (s s' : gstate) : Prop := {
  fr_live : forall m, live s' m = true -> live s m = true;
  fr_nodes : forall m, live s' m = true -> orel nrel5 (get_node s m) (get_node s' m);
  fr_edges : forall e, In e (edges s') <-> In e (edges s) /\ live s' (esrc e) = true /\ live s' (etgt e) = true;
  fr_exports : forall x, In x (exports s') <-> In x (exports s) /\ live s' (snd x) = true;
  fr_imports : forall x, In x (imports s') <-> In x (imports s) /\ live s' (snd x) = true;
  fr_defined : forall x, In x (defined s') <-> In x (defined s) /\ live s' (snd x) = true;
  fr_pkgs : pkgs s' = pkgs s }.

Lemma Frame_refl u s : InvC u s -> Frame s s.
Proof.
  intros [F E X I D P]. constructor; auto.
  - intros m L. apply live_get in L as [nd G]. rewrite G. apply nrel5_refl.
  - intros e. split; [|tauto]. intros H. split; auto. apply (eo_live _ _ E e H).
  - intros [nm n]. split; [|tauto]. intros H. split; auto. eapply xo_live; eauto.
  - intros [nm n]. split; [|tauto]. intros H. split; auto. apply (io_iff _ _ I) in H as [nd [G _]].
    cbn. unfold live. now rewrite get_node_getn, G.
  - intros [t n]. split; [|tauto]. intros H. split; auto. apply (do_def _ _ D) in H as [nd [G _]].
    cbn. unfold live. now rewrite get_node_getn, G.
Qed.

Lemma Frame_trans s s1 s2 : Frame s s1 -> Frame s1 s2 -> Frame s s2.
Proof.
  intros [A1 A2 A3 A4 A5 A6 A7] [B1 B2 B3 B4 B5 B6 B7]. constructor.
  - auto.
  - intros m L. specialize (B2 m L). specialize (A2 m (B1 m L)).
    destruct (get_node s m), (get_node s1 m), (get_node s2 m); cbn in *; try contradiction; auto.
    eapply nrel5_trans; eauto.
  - intros e. rewrite B3, A3. split; [tauto|]. intros (H1 & H2 & H3). repeat split; auto.
  - intros x. rewrite B4, A4. split; [tauto|]. intros (H1 & H2). repeat split; auto.
  - intros x. rewrite B5, A5. split; [tauto|]. intros (H1 & H2). repeat split; auto.
  - intros x. rewrite B6, A6. split; [tauto|]. intros (H1 & H2). repeat split; auto.
  - congruence.
Qed.

Lemma remove_one_Frame u s n nd0 s' :
  InvC u s -> get_node s n = Some nd0 -> remove_one s n = inl s' -> Frame s s'.
Proof.
  intros HI G R. destruct (remove_one_live u s n nd0 HI G) as [s'' [R' (_ & Dn & K & _)]].
  rewrite R in R'. injection R' as <-. destruct (remove_one_frame u s n nd0 s' HI G R) as (Me & Mi & Md & Pk & Nd).
  destruct (remove_one_delta s n s' R) as (De & _ & _). pose proof HI as [F E X I D P].
  assert (Hl : forall m, live s' m = true -> m <> n /\ live s m = true).
  { intros m L. assert (m <> n) by (intros ->; congruence). split; auto. now rewrite <- (K m). }
  assert (Hl' : forall m, m <> n -> live s m = true -> live s' m = true) by (intros m Hne L; now rewrite K).
  constructor; auto.
  - intros m L. now apply Hl.
  - intros m L. apply Nd. now apply Hl.
  - intros e. rewrite De, filter_In, andb_true_iff, !negb_true_iff, !Nat.eqb_neq. split.
    + intros (H1 & H2 & H3). destruct (eo_live _ _ E e H1) as [L1 L2]. rewrite <- live_liveb in L1, L2. auto.
    + intros (H1 & H2 & H3). apply Hl in H2, H3. tauto.
  - intros [nm m]. rewrite Me. cbn. split; intros [H1 H2]; split; auto.
    + apply Hl'; auto. eapply xo_live; eauto.
    + now apply Hl in H2.
  - intros [nm m]. rewrite Mi. cbn. split; intros [H1 H2]; split; auto.
    + apply Hl'; auto. apply (io_iff _ _ I) in H1 as [nd [Gm _]]. unfold live. now rewrite get_node_getn, Gm.
    + now apply Hl in H2.
  - intros [t m]. rewrite Md. cbn. split; intros [H1 H2]; split; auto.
    + apply Hl'; auto. apply (do_def _ _ D) in H1 as [nd [Gm _]]. unfold live. now rewrite get_node_getn, Gm.
    + now apply Hl in H2.
Qed.

Lemma remove_node_rec_Frame u fuel : forall s n s',
  InvC u s -> remove_node_rec fuel s n = inl s' -> Frame s s'.
Proof.
  induction fuel as [|f IH]; intros s n s' HI; [discriminate|]. rewrite remove_node_rec_S.
  assert (G : forall l s0 s1, InvC u s0 -> go_list (remove_node_rec f) s0 l = inl s1 -> InvC u s1 /\ Frame s0 s1).
  { induction l as [|x r IHl]; intros s0 s1 H0; cbn.
    - intros [= <-]. split; [exact H0|eapply Frame_refl; eauto].
    - destruct (live s0 x); [|apply IHl; exact H0].
      destruct (remove_node_rec f s0 x) as [s2|] eqn:R; [|discriminate]. intros Go.
      pose proof (remove_node_rec_ok u f s0 x H0) as Ok. rewrite R in Ok. destruct Ok as (I2 & _).
      destruct (IHl s2 s1 I2 Go) as [J1 J2]. split; [exact J1|]. eapply Frame_trans; eauto. }
  destruct (go_list _ s (dependants s n)) as [s1|] eqn:Go; [|discriminate].
  destruct (G _ _ _ HI Go) as [J1 J2]. intros R. destruct (get_node s1 n) as [nd|] eqn:Gn.
  - eapply Frame_trans; eauto. eapply remove_one_Frame; eauto.
  - rewrite (remove_one_dead u s1 n J1 Gn) in R. discriminate.
Qed.

Lemma remove_frame u s n s' : Inv u s -> remove_node s n = (s', OUnit) -> Frame s s'.
Proof.
  intros H R. apply Inv_iff in H. unfold remove_node in R.
  destruct (remove_node_rec _ s n) as [s''|] eqn:RR; [|discriminate]. injection R as <-.
  eapply remove_node_rec_Frame; eauto.
Qed.

(** * the frame of [unregister] *)
Lemma unregister_frame s id s' :
  unregister s id = (s', OUnit) ->
  (forall m, live s' m = true <-> live s m = true /\ node_pkg_is s id m = false) /\
  (forall m, live s' m = true -> orel nrel5 (get_node s m) (get_node s' m)) /\
  (forall e, In e (edges s') <-> In e (edges s) /\ node_pkg_is s id (esrc e) = false /\ node_pkg_is s id (etgt e) = false) /\
  (forall x, In x (exports s') <-> In x (exports s) /\ node_pkg_is s id (snd x) = false) /\
  (forall x, In x (imports s') <-> In x (imports s) /\ node_pkg_is s id (snd x) = false) /\
  (forall x, In x (defined s') <-> In x (defined s) /\ node_pkg_is s id (snd x) = false) /\
  (forall id', fst id' <> fst id -> get_pkg s' id' = get_pkg s id').
Proof.
  intros R. destruct (unregister_delta s id s' R) as (De & Dd & _). revert R.
  unfold unregister. destruct (nth_error (pkgs s) (fst id)) as [sl|]; [|discriminate].
  destruct (negb (ps_gen sl =? snd id)); [discriminate|]. destruct (negb _); [discriminate|].
  destruct (remove_satisfied_all _ _) as [s2|] eqn:R; [|discriminate].
  destruct (ps_pkg sl); [|discriminate]. intros [= <-].
  pose proof (remove_satisfied_all_fields _ _ _ R) as Hf.
  apply remove_satisfied_all_spec in R as (Hc & _ & _ & R2 & R3 & R4 & R5 & R6 & _).
  cbn [with_maps nodes edges imports exports defined pkgs] in *.
  set (victims := nodes_where s2 (fun nd => pkg_eqb (npkg nd) (Some id))) in *.
  destruct (drop_all_rest victims s2) as (S1 & S2 & S3 & S4 & _).
  assert (Hd_eq : forall m, mem victims m = node_pkg_is s id m).
  { intros m. apply eq_true_iff_eq. rewrite mem_In. unfold victims. rewrite nodes_where_In.
    unfold node_pkg_is. rewrite get_node_getn. specialize (Hc m).
    destruct (getn (nodes s) m) as [a|], (getn (nodes s2) m) as [b|]; cbn in Hc; try contradiction.
    - destruct Hc as (C1 & _). rewrite <- C1. split; [intros [x [[= <-] H]]; auto|eauto].
    - split; [intros [x [H _]]; discriminate|discriminate]. }
  assert (Hn : forall m, get_node (with_pkgs (fold_left drop_node victims s2)
                            (set_nth (pkgs (fold_left drop_node victims s2)) (fst id) {| ps_pkg := None; ps_gen := S (ps_gen sl) |})
                            (fst id :: free_pkgs (fold_left drop_node victims s2))) m
                         = if node_pkg_is s id m then None else getn (nodes s2) m).
  { intros m. rewrite get_node_getn. cbn [with_pkgs nodes]. now rewrite drop_all_nodes, Hd_eq. }
  assert (Hkeep : forall {A} (l : list (A * nat)) x,
             In x (filter (fun p => negb (node_pkg_is s id (snd p))) l) <-> In x l /\ node_pkg_is s id (snd x) = false).
  { intros A l x. rewrite filter_In, negb_true_iff. reflexivity. }
  split; [|split; [|split; [exact De|split; [|split; [|split]]]]].
  - intros m. unfold live. rewrite Hn, get_node_getn. specialize (Hc m).
    destruct (node_pkg_is s id m); [split; [discriminate|intros [_ ?]; discriminate]|].
    destruct (getn (nodes s) m), (getn (nodes s2) m); cbn in Hc; try contradiction; split; auto; try tauto;
      try (intros [? _]; discriminate).
  - intros m L. unfold live in L. rewrite Hn in *. rewrite get_node_getn. specialize (Hc m). specialize (Hf m).
    destruct (node_pkg_is s id m); [discriminate|].
    destruct (getn (nodes s) m) as [n0|], (getn (nodes s2) m) as [n1|]; cbn in *; auto.
    destruct Hc as (D1 & D2 & D3). destruct Hf as [F1 F2]. repeat split; auto. destruct (nk n0); rewrite D3; cbn; auto.
  - intros x. cbn [with_pkgs exports]. rewrite S2, R4. apply Hkeep.
  - intros x. cbn [with_pkgs imports]. rewrite S1, R3. apply Hkeep.
  - intros x. cbn [with_pkgs defined]. rewrite S3, R5. apply Hkeep.
  - intros id' Hne. unfold get_pkg. cbn [with_pkgs pkgs]. rewrite S4, R6, nth_error_set_nth.
    apply Nat.eqb_neq in Hne. now rewrite Hne.
Qed.
