(** Frame reasoning for the aggregator's state monad: what a computation leaves unchanged. *)
From WacV Require Import Str Ord Semver Names Types Checker Aggregator.
From WacV Require Import SemverProofs CheckerEq.

(** * Inversion of monadic steps *)
Lemma bindM_ok {A B} (m : M A) (k : A -> M B) c y c2 :
  bindM m k c = AOk (y, c2) -> exists x c1, m c = AOk (x, c1) /\ k x c1 = AOk (y, c2).
Proof. unfold bindM. destruct (m c) as [[x c1]| | |]; try discriminate. eauto. Qed.
Lemma ret_ok {A} (a : A) c y c2 : ret a c = AOk (y, c2) -> y = a /\ c2 = c.
Proof. unfold ret. intros H. injection H as <- <-. auto. Qed.

Section Pres.
  Variable P : core -> core -> Prop.
  Hypothesis P_refl : forall c, P c c.
  Hypothesis P_trans : forall a b c, P a b -> P b c -> P a c.

  Definition pres {A} (m : M A) : Prop := forall c x c', m c = AOk (x, c') -> P c c'.

  Lemma pres_ret {A} (a : A) : pres (ret a).
  Proof. intros c x c' H. apply ret_ok in H as [_ ->]. apply P_refl. Qed.
  Lemma pres_bind {A B} (m : M A) (k : A -> M B) : pres m -> (forall x, pres (k x)) -> pres (bindM m k).
  Proof. intros Hm Hk c y c2 H. apply bindM_ok in H as [x [c1 [H1 H2]]]. eapply P_trans; [eapply Hm | eapply Hk]; eauto. Qed.
  Lemma pres_fail {A} e : pres (@fail A e). Proof. intros c x c' H. discriminate. Qed.
  Lemma pres_panic {A} : pres (@panic A). Proof. intros c x c' H. discriminate. Qed.
  Lemma pres_oof {A} : pres (@oof A). Proof. intros c x c' H. discriminate. Qed.
  Lemma pres_get : pres get.
  Proof. intros c x c' H. unfold get in H. injection H as <- <-. apply P_refl. Qed.
  Lemma pres_idxM {A} (o : option A) : pres (idxM o).
  Proof. destruct o; cbn [idxM]; [apply pres_ret | apply pres_panic]. Qed.
  Lemma pres_liftR {A} (r : R A) : pres (liftR r).
  Proof. destruct r; cbn [liftR]; auto using pres_ret, pres_fail, pres_panic, pres_oof. Qed.
  Lemma pres_must ctx r : pres (must ctx r).
  Proof. destruct r; cbn [must]; auto using pres_ret, pres_fail, pres_panic, pres_oof. Qed.
  Lemma pres_mapM {A B} (f : A -> M B) l : (forall x, In x l -> pres (f x)) -> pres (mapM f l).
  Proof.
    induction l as [|a l IH]; intros H; cbn [mapM]; [apply pres_ret|].
    apply pres_bind; [apply H; now left|]. intros y. apply pres_bind; [apply IH; intros; apply H; now right|].
    intros ys. apply pres_ret.
  Qed.
  Lemma pres_forM {A} (f : A -> M unit) l : (forall x, In x l -> pres (f x)) -> pres (forM f l).
  Proof.
    induction l as [|a l IH]; intros H; cbn [forM]; [apply pres_ret|].
    apply pres_bind; [apply H; now left|]. intros _. apply IH. intros; apply H; now right.
  Qed.
  Lemma pres_optM {A B} (f : A -> M B) o : (forall x, o = Some x -> pres (f x)) -> pres (optM f o).
  Proof.
    destruct o as [a|]; intros H; cbn [optM]; [|apply pres_ret].
    apply pres_bind; [now apply H|]. intros y. apply pres_ret.
  Qed.
  (** binding the result of an arena lookup keeps the equation *)
  Lemma pres_bind_idxM {A B} (o : option A) (k : A -> M B) : (forall x, o = Some x -> pres (k x)) -> pres (bindM (idxM o) k).
  Proof.
    intros H c y c2 E. apply bindM_ok in E as [x [c1 [H1 H2]]]. destruct o as [a|]; cbn [idxM] in H1; [|discriminate].
    apply ret_ok in H1 as [-> ->]. eapply H; eauto.
  Qed.
  Lemma pres_bind_ret {A B} (a : A) (k : A -> M B) : pres (k a) -> pres (bindM (ret a) k).
  Proof. intros H c y c2 E. unfold bindM, ret in E. eapply H; eauto. Qed.
  (** a primitive that only rewrites the state *)
  Lemma pres_prim {A} (m : M A) : (forall c x c', m c = AOk (x, c') -> P c c') -> pres m.
  Proof. auto. Qed.
End Pres.

(** * The import list is left alone *)
Definition same_imports (c c' : core) : Prop := c_imports c' = c_imports c.
Lemma same_imports_refl c : same_imports c c. Proof. reflexivity. Qed.
Lemma same_imports_trans a b c : same_imports a b -> same_imports b c -> same_imports a c.
Proof. unfold same_imports. congruence. Qed.

(** No resource alias of the collection has an owning interface. *)
Definition owner_free (t : types) : Prop :=
  forall r, In r (t_resources t) -> match res_alias r with Some (Some _, _) => False | _ => True end.

Lemma lookup_in {A} tag (l : list A) i x : lookup tag l i = Some x -> In x l.
Proof. unfold lookup. destruct (id_tag i =? tag); [|discriminate]. apply nth_error_In. Qed.

Ltac prim_tac :=
  let c := fresh "c" in let x := fresh "x" in let c' := fresh "c'" in let H := fresh "H" in
  intros c x c' H; unfold same_imports;
  repeat match type of H with
         | context [match ?e with _ => _ end] => destruct e eqn:?; try discriminate H
         | context [let '(_, _) := ?e in _] => destruct e eqn:?
         end;
  try (injection H as <- <-); try reflexivity.

Notation SI := (pres same_imports).
Local Hint Resolve same_imports_refl same_imports_trans : si.

Lemma si_remapped_get k : SI (remapped_get k). Proof. unfold remapped_get. prim_tac. Qed.
Lemma si_remapped_set k v : SI (remapped_set k v). Proof. unfold remapped_set. prim_tac. Qed.
Lemma si_remapped_new k v : SI (remapped_new k v). Proof. unfold remapped_new. prim_tac. Qed.
Lemma si_add_def d : SI (add_def d). Proof. unfold add_def. prim_tac. Qed.
Lemma si_add_res d : SI (add_res d). Proof. unfold add_res. prim_tac. Qed.
Lemma si_add_func d : SI (add_func d). Proof. unfold add_func. prim_tac. Qed.
Lemma si_add_if d : SI (add_if d). Proof. unfold add_if. prim_tac. Qed.
Lemma si_add_world d : SI (add_world d). Proof. unfold add_world. prim_tac. Qed.
Lemma si_add_mod d : SI (add_mod d). Proof. unfold add_mod. prim_tac. Qed.
Lemma si_agg_if i : SI (agg_if i).
Proof. unfold agg_if. intros c x c' H. destruct (get_if (c_types c) i); cbn [idxM] in H; [apply ret_ok in H as [_ ->]; reflexivity | discriminate]. Qed.
Lemma si_agg_world i : SI (agg_world i).
Proof. unfold agg_world. intros c x c' H. destruct (get_world (c_types c) i); cbn [idxM] in H; [apply ret_ok in H as [_ ->]; reflexivity | discriminate]. Qed.
Lemma si_agg_mod i : SI (agg_mod i).
Proof. unfold agg_mod. intros c x c' H. destruct (get_mod (c_types c) i); cbn [idxM] in H; [apply ret_ok in H as [_ ->]; reflexivity | discriminate]. Qed.
Lemma si_upd_if i f : SI (upd_if i f).
Proof.
  unfold upd_if. apply (pres_bind _ same_imports_trans); [apply si_agg_if|]. intros x c y c' H. injection H as <- <-. reflexivity.
Qed.
Lemma si_upd_world i f : SI (upd_world i f).
Proof.
  unfold upd_world. apply (pres_bind _ same_imports_trans); [apply si_agg_world|]. intros x c y c' H. injection H as <- <-. reflexivity.
Qed.
Lemma si_upd_mod i f : SI (upd_mod i f).
Proof.
  unfold upd_mod. apply (pres_bind _ same_imports_trans); [apply si_agg_mod|]. intros x c y c' H. injection H as <- <-. reflexivity.
Qed.
Lemma si_sub_fa cf t a b : SI (sub_fa cf t a b). Proof. unfold sub_fa. prim_tac. Qed.
Lemma si_sub_af cf t a b : SI (sub_af cf t a b). Proof. unfold sub_af. prim_tac. Qed.
Lemma si_chk_invert : SI chk_invert. Proof. unfold chk_invert. prim_tac. Qed.
Lemma si_chk_revert : SI chk_revert. Proof. unfold chk_revert. prim_tac. Qed.
Lemma si_cur_variance : SI cur_variance. Proof. unfold cur_variance. prim_tac. Qed.
Lemma si_lookup_iface ord n : SI (lookup_iface ord n). Proof. unfold lookup_iface. prim_tac. Qed.
Lemma si_iface_set n i : SI (iface_set n i). Proof. unfold iface_set. prim_tac. Qed.
Lemma si_iface_new n i : SI (iface_new n i). Proof. unfold iface_new. prim_tac. Qed.
(** one structural step of a [pres same_imports] goal *)
Ltac si_step :=
  match goal with
  | |- SI (bindM (ret _) _) => apply pres_bind_ret
  | |- SI (bindM (idxM _) _) => apply pres_bind_idxM; intros ? ?
  | |- SI (bindM _ _) => apply (pres_bind _ same_imports_trans); [ | intro]
  | |- SI (ret _) => apply (pres_ret _ same_imports_refl)
  | |- SI panic => apply pres_panic
  | |- SI oof => apply pres_oof
  | |- SI (fail _) => apply pres_fail
  | |- SI get => apply (pres_get _ same_imports_refl)
  | |- SI (idxM _) => apply (pres_idxM _ same_imports_refl)
  | |- SI (liftR _) => apply (pres_liftR _ same_imports_refl)
  | |- SI (must _ _) => apply (pres_must _ same_imports_refl)
  | |- SI (remapped_get _) => apply si_remapped_get
  | |- SI (remapped_set _ _) => apply si_remapped_set
  | |- SI (remapped_new _ _) => apply si_remapped_new
  | |- SI (add_def _) => apply si_add_def
  | |- SI (add_res _) => apply si_add_res
  | |- SI (add_func _) => apply si_add_func
  | |- SI (add_if _) => apply si_add_if
  | |- SI (add_world _) => apply si_add_world
  | |- SI (add_mod _) => apply si_add_mod
  | |- SI (agg_if _) => apply si_agg_if
  | |- SI (agg_world _) => apply si_agg_world
  | |- SI (agg_mod _) => apply si_agg_mod
  | |- SI (upd_if _ _) => apply si_upd_if
  | |- SI (upd_world _ _) => apply si_upd_world
  | |- SI (upd_mod _ _) => apply si_upd_mod
  | |- SI (sub_fa _ _ _ _) => apply si_sub_fa
  | |- SI (sub_af _ _ _ _) => apply si_sub_af
  | |- SI chk_invert => apply si_chk_invert
  | |- SI chk_revert => apply si_chk_revert
  | |- SI cur_variance => apply si_cur_variance
  | |- SI (lookup_iface _ _) => apply si_lookup_iface
  | |- SI (iface_set _ _) => apply si_iface_set
  | |- SI (iface_new _ _) => apply si_iface_new
  | |- SI (mapM _ _) => apply (pres_mapM _ same_imports_refl same_imports_trans); intros ? ?
  | |- SI (forM _ _) => apply (pres_forM _ same_imports_refl same_imports_trans); intros ? ?
  | |- SI (optM _ _) => apply (pres_optM _ same_imports_refl same_imports_trans); intros ? ?
  | |- SI (match ?e with _ => _ end) => destruct e eqn:?
  | |- SI (let '(_, _) := ?e in _) => destruct e eqn:?
  | |- SI (if ?e then _ else _) => destruct e eqn:?
  end.

Lemma si_remap_module_type t m : SI (remap_module_type t m).
Proof. unfold remap_module_type. repeat si_step. Qed.

Section Frame.
  Variable ord : list (str * id) -> list (str * id).
  Variable cf : nat.
  Variable t : types.
  Hypothesis OF : owner_free t.

  Definition frame_stmt (fuel : nat) : Prop :=
    (forall k, SI (remap_item_kind ord cf fuel t k)) /\
    (forall x, SI (remap_type ord cf fuel t x)) /\
    (forall r, SI (remap_resource ord cf fuel t r)) /\
    (forall i, SI (remap_func_type ord cf fuel t i)) /\
    (forall v, SI (remap_value_type ord cf fuel t v)) /\
    (forall d, SI (remap_defined_type ord cf fuel t d)) /\
    (forall i, SI (remap_interface ord cf fuel t i)) /\
    (forall w, SI (remap_world ord cf fuel t w)) /\
    (forall e i, SI (merge_interface ord cf fuel e t i)) /\
    (forall e i, SI (merge_interface_used_types ord cf fuel e t i)).

  Lemma frame_all : forall fuel, frame_stmt fuel.
  Proof.
    induction fuel as [|f IH].
    - repeat split; intros; apply pres_oof.
    - destruct IH as [Hk [Hty [Hr [Hf [Hv [Hd [Hi [Hw [Hm Hu]]]]]]]]].
      repeat split; intros.
      + cbn [remap_item_kind]. repeat (si_step || apply si_remap_module_type || apply Hty || apply Hf || apply Hi || apply Hw || apply Hv).
      + cbn [remap_type]. repeat (si_step || apply si_remap_module_type || apply Hr || apply Hf || apply Hi || apply Hw || apply Hv).
      + (* remap_resource: the owner branch is unreachable *)
        cbn [remap_resource].
        repeat (match goal with
                | |- SI (bindM (optM _ (res_alias ?x)) _) =>
                  let E := fresh "E" in
                  destruct (res_alias x) as [[[o|] src]|] eqn:E; cbn [optM];
                  [ exfalso; match goal with H : get_res t _ = Some x |- _ =>
                                               apply lookup_in in H; apply OF in H; rewrite E in H; exact H end | | ]
                | _ => si_step || apply Hr
                end).
      + cbn [remap_func_type]. repeat (si_step || apply Hv).
      + cbn [remap_value_type]. repeat (si_step || apply Hr || apply Hd).
      + cbn [remap_defined_type]. repeat (si_step || apply Hv).
      + cbn [remap_interface]. repeat (si_step || apply Hm || apply Hi || apply Hk).
      + cbn [remap_world]. repeat (si_step || apply Hi || apply Hk).
      + cbn [merge_interface]. repeat (si_step || apply Hu || apply Hk || apply Hm).
      + cbn [merge_interface_used_types]. repeat (si_step || apply Hi).
  Qed.

  Lemma si_remap_item_kind fuel k : SI (remap_item_kind ord cf fuel t k).
  Proof. apply frame_all. Qed.
  Lemma si_remap_interface fuel i : SI (remap_interface ord cf fuel t i).
  Proof. apply frame_all. Qed.
  Lemma si_merge_interface fuel e i : SI (merge_interface ord cf fuel e t i).
  Proof. apply frame_all. Qed.

  Lemma si_merge_item_kind fuel e k : SI (merge_item_kind ord cf fuel e t k).
  Proof.
    unfold merge_item_kind, merge_type, merge_world, merge_world_used_types, merge_func_type, merge_resource, merge_value_type,
      merge_module_type, cannot_merge.
    repeat (si_step || apply si_merge_interface || apply si_remap_item_kind || apply si_remap_interface).
  Qed.
End Frame.
