(** C05, part F: facts about the resolver alone (no denotation).

    - [frame]: a step extends the arenas and leaves the interface and world arenas untouched;
    - [flat]: no export of an interface or world of the collection is itself an interface type, a world type
      or a component; every collection the resolver builds from a flat one is flat.  Package paths that
      project through exports can therefore never name an interface or a world;
    - the arena-level specifications [resource_decl_spec] (names and signatures of resource members) and
      [use_items_spec] ([use] binds the very same type). *)
From Coq Require Import String.
From Coq Require Import ZArith ZifyBool ZifyN Lia.
From WacV Require Import Str StrLit Types CheckerEq CheckerValue CheckerProofs Decls WitDenote DeclsProofsA DeclsProofsB.
From WacV Require Ast.
Set Warnings "-unused-intro-pattern".

(** * Frames *)
Definition frame (t t' : types) : Prop :=
  aext t t' /\ t_interfaces t' = t_interfaces t /\ t_worlds t' = t_worlds t.

Lemma frame_refl t : frame t t.
Proof. split; [apply aext_refl | auto]. Qed.
Lemma frame_trans a b c : frame a b -> frame b c -> frame a c.
Proof. intros [H1 [H2 H3]] [G1 [G2 G3]]. split; [eapply aext_trans; eassumption | split; congruence]. Qed.
Lemma frame_add_defined t d : frame t (fst (add_defined t d)).
Proof. split; [apply aext_add_defined | auto]. Qed.
Lemma frame_add_resource t d : frame t (fst (add_resource t d)).
Proof. split; [apply aext_add_resource | auto]. Qed.
Lemma frame_add_func t d : frame t (fst (add_func t d)).
Proof. split; [apply aext_add_func | auto]. Qed.
Lemma frame_aext t t' : frame t t' -> aext t t'.
Proof. now intros [H _]. Qed.

Lemma defined_frame t d v t' : defined t d = DOk (v, t') -> frame t t'.
Proof. unfold defined, add_defined. intro H. injection H as <- <-. apply (frame_add_defined t d). Qed.
Lemma value_ty_frame t d x t' : value_ty t d = DOk (x, t') -> frame t t' /\ exists i, x = TValue (VDefined i).
Proof.
  unfold value_ty, add_defined. intro H. injection H as <- <-. split; [apply (frame_add_defined t d) | eauto].
Qed.

Definition ty_frame (x : Ast.ty) : Prop := forall cur t v t', resolve_ty cur t x = DOk (v, t') -> frame t t'.

Lemma tys_go_frame ts : Forall ty_frame ts -> forall cur t vs t', tys_go cur t ts = DOk (vs, t') -> frame t t'.
Proof.
  induction 1 as [|y r Hy _ IH]; intros cur t vs t' H.
  - cbn in H. injection H as <- <-. apply frame_refl.
  - cbn [tys_go] in H. dinv H as [[v t1] [E1 H]]. dinv H as [[vs' t2] [E2 H]]. injection H as <- <-.
    eapply frame_trans; [eapply Hy; exact E1 | eapply IH; exact E2].
Qed.
Lemma oty_frame o : optP ty_frame o -> forall cur t ov t', oty_step cur t o = DOk (ov, t') -> frame t t'.
Proof.
  destruct o as [y|]; intros Hy cur t ov t' H; cbn [oty_step] in H.
  - dinv H as [[v t1] [E1 H]]. injection H as <- <-. eapply Hy; exact E1.
  - injection H as <- <-. apply frame_refl.
Qed.
Lemma resolve_ty_frame : forall x, ty_frame x.
Proof.
  apply ty_ind'; unfold ty_frame.
  - intros p sp cur t v t' H. cbn in H. injection H as <- <-. apply frame_refl.
  - intros ts sp Hts cur t v t' H. rewrite resolve_tuple_eq in H. dinv H as [[vs t1] [E1 H]].
    eapply frame_trans; [apply (tys_go_frame ts Hts _ _ _ _ E1) | eapply defined_frame; exact H].
  - intros y sp IH cur t v t' H. cbn [resolve_ty] in H. dinv H as [[v1 t1] [E1 H]].
    eapply frame_trans; [eapply IH; exact E1 | eapply defined_frame; exact H].
  - intros y sp IH cur t v t' H. cbn [resolve_ty] in H. dinv H as [[v1 t1] [E1 H]].
    eapply frame_trans; [eapply IH; exact E1 | eapply defined_frame; exact H].
  - intros o r sp Ho Hr cur t v t' H.
    change (resolve_ty cur t (Ast.TyResult o r sp))
      with (do (ov, t1) <- oty_step cur t o ;; do (ev, t2) <- oty_step cur t1 r ;; defined t2 (DResult ov ev)) in H.
    dinv H as [[ov t1] [E1 H]]. dinv H as [[ev t2] [E2 H]].
    eapply frame_trans; [apply (oty_frame o Ho _ _ _ _ E1)|]. eapply frame_trans; [apply (oty_frame r Hr _ _ _ _ E2)|].
    eapply defined_frame; exact H.
  - intros i sp cur t v t' H. cbn [resolve_ty] in H. dinv H as [it [E1 H]]. destruct it; try discriminate.
    injection H as <- <-. apply frame_refl.
  - intros y sp _ cur t v t' H. discriminate H.
  - intros i cur t v t' H. cbn [resolve_ty] in H. dinv H as [it [E1 H]]. destruct it; try discriminate;
      injection H as <- <-; apply frame_refl.
Qed.
Lemma oty_step_frame o cur t ov t' : oty_step cur t o = DOk (ov, t') -> frame t t'.
Proof. apply oty_frame. destruct o; [apply resolve_ty_frame | exact I]. Qed.

Lemma params_go_frame : forall ps cur t acc ps' t', params_go cur t acc ps = DOk (ps', t') ->
  frame t t' /\ exists l, ps' = acc ++ l /\ map fst l = map (fun p => nm (Ast.nt_id p)) ps.
Proof.
  induction ps as [|p r IH]; intros cur t acc ps' t' H.
  - cbn in H. injection H as <- <-. split; [apply frame_refl|]. exists []. now rewrite app_nil_r.
  - cbn [params_go] in H. dinv H as [[v t1] [E1 H]]. destruct (has _ acc); [discriminate|].
    destruct (IH _ _ _ _ _ H) as [X2 [l [-> Hl]]]. split; [eapply frame_trans; [eapply resolve_ty_frame; exact E1 | exact X2]|].
    exists ((nm (Ast.nt_id p), v) :: l). rewrite <- app_assoc. cbn [app map fst]. now rewrite Hl.
Qed.
Lemma fields_go_frame : forall ps cur t acc ps' t', fields_go cur t acc ps = DOk (ps', t') -> frame t t'.
Proof.
  induction ps as [|p r IH]; intros cur t acc ps' t' H.
  - cbn in H. injection H as <- <-. apply frame_refl.
  - cbn [fields_go] in H. dinv H as [[v t1] [E1 H]]. destruct (has _ acc); [discriminate|].
    eapply frame_trans; [eapply resolve_ty_frame; exact E1 | eapply IH; exact H].
Qed.
Lemma cases_go_frame : forall ps cur t acc ps' t', cases_go cur t acc ps = DOk (ps', t') -> frame t t'.
Proof.
  induction ps as [|p r IH]; intros cur t acc ps' t' H.
  - cbn in H. injection H as <- <-. apply frame_refl.
  - rewrite cases_go_eq in H. dinv H as [[v t1] [E1 H]]. destruct (has _ acc); [discriminate|].
    eapply frame_trans; [eapply oty_step_frame; exact E1 | eapply IH; exact H].
Qed.

(** ** Function types: the entry that is added *)
Definition self_pre (k : fkind) (res : option id) : list (str * valtype) :=
  match k, res with FMethod, Some r => [(self_name, VBorrow r)] | _, _ => [] end.

Lemma func_type_frame cur t ps rs k res i t' :
  func_type cur t ps rs k res = DOk (i, t') ->
  frame t t' /\ exists rest result,
    get_func t' i = Some (mkfunc (self_pre k res ++ rest) result false) /\
    map fst rest = map (fun p => nm (Ast.nt_id p)) ps /\
    (rs = Ast.RLEmpty -> result = match k with FConstructor => option_map VOwn res | _ => None end).
Proof.
  intro H. unfold func_type in H.
  dinv H as [acc0 [E0 H]]. dinv H as [[params t1] [E1 H]]. dinv H as [[result t2] [E2 H]].
  unfold add_func in H. injection H as <- <-.
  assert (Ha : acc0 = self_pre k res).
  { destruct k; cbn [self_pre]; try (now injection E0 as <-). destruct res; [now injection E0 as <- | discriminate]. }
  subst acc0. destruct (params_go_frame _ _ _ _ _ _ E1) as [X1 [rest [-> Hrest]]].
  assert (Hr : frame t1 t2 /\ (rs = Ast.RLEmpty -> result = match k with FConstructor => option_map VOwn res | _ => None end)).
  { destruct rs as [|y|rs'].
    - destruct k; try (injection E2 as <- <-; split; [apply frame_refl | reflexivity]).
      destruct res; [|discriminate]. injection E2 as <- <-. split; [apply frame_refl | reflexivity].
    - dinv E2 as [[v t2'] [E3 E2]]. destruct (cb_vt _ _ _) as [[|]|]; try discriminate. injection E2 as <- <-.
      split; [eapply resolve_ty_frame; exact E3 | discriminate].
    - discriminate. }
  destruct Hr as [X2 Hres]. set (x := mkfunc (self_pre k res ++ rest) result false).
  split.
  - eapply frame_trans; [exact X1|]. eapply frame_trans; [exact X2|]. apply (frame_add_func t2 x).
  - exists rest, result. split; [apply (get_func_new t2 x) | auto].
Qed.

Lemma func_type_ref_frame cur t r f t' : func_type_ref cur t r = DOk (f, t') -> frame t t'.
Proof.
  destruct r as [fn|i]; cbn [func_type_ref]; intro H.
  - apply func_type_frame in H. tauto.
  - dinv H as [it [E1 H]]. destruct it; try discriminate. injection H as <- <-. apply frame_refl.
Qed.

(** ** Plain declarations *)
Definition leafk (k : kind) : bool :=
  match k with KType (TInterface _) | KType (TWorld _) | KComponent _ => false | _ => true end.
Definition leafx (l : list (str * kind)) : bool := forallb (fun kv => leafk (snd kv)) l.

Lemma type_alias_frame cur t n k x t' : type_alias cur t n k = DOk (x, t') -> frame t t' /\ leafk (KType x) = true.
Proof.
  intro H. destruct k as [fn|y].
  - cbn [type_alias] in H. dinv H as [[i t1] [E1 H]]. injection H as <- <-. apply func_type_frame in E1. tauto.
  - assert (Hg : forall y0, (do (v, t1) <- resolve_ty cur t y0 ;; value_ty t1 (DAlias v)) = DOk (x, t') ->
                            frame t t' /\ leafk (KType x) = true).
    { intros y0 H0. dinv H0 as [[v t1] [E1 H0]]. destruct (value_ty_frame _ _ _ _ H0) as [X2 [i ->]].
      split; [eapply frame_trans; [eapply resolve_ty_frame; exact E1 | exact X2] | reflexivity]. }
    destruct y as [p sp|ts sp|y sp|y sp|o r sp|i sp|y sp|i]; try (cbn [type_alias] in H; apply (Hg _ H)).
    cbn [type_alias] in H. dinv H as [it [E1 H]]. destruct it as [r|f|v|j|w|m]; try discriminate.
    + destruct (get_res t r) as [x0|]; [|discriminate]. unfold add_resource in H. injection H as <- <-.
      split; [apply (frame_add_resource t) | reflexivity].
    + destruct (get_func t f) as [x0|]; [|discriminate]. unfold add_func in H. injection H as <- <-.
      split; [apply (frame_add_func t) | reflexivity].
    + destruct (value_ty_frame _ _ _ _ H) as [X2 [i0 ->]]. split; [exact X2 | reflexivity].
Qed.

Lemma plain_decl_frame cur t d x t' : plain_decl cur t d = DOk (x, t') -> frame t t' /\ leafk (KType x) = true.
Proof.
  intro H. destruct d as [docs id ms|docs id cs|docs id fs|docs id fl|docs id cs|docs id k]; cbn [plain_decl] in H.
  - discriminate.
  - dinv H as [[c t1] [E1 H]]. destruct (value_ty_frame _ _ _ _ H) as [X2 [i ->]].
    split; [eapply frame_trans; [eapply cases_go_frame; exact E1 | exact X2] | reflexivity].
  - dinv H as [[c t1] [E1 H]]. destruct (value_ty_frame _ _ _ _ H) as [X2 [i ->]].
    split; [eapply frame_trans; [eapply fields_go_frame; exact E1 | exact X2] | reflexivity].
  - dinv H as [l [E1 H]]. destruct (value_ty_frame _ _ _ _ H) as [X2 [i ->]]. split; [exact X2 | reflexivity].
  - dinv H as [l [E1 H]]. destruct (value_ty_frame _ _ _ _ H) as [X2 [i ->]]. split; [exact X2 | reflexivity].
  - eapply type_alias_frame; exact H.
Qed.

(** * Shared definitions for the body-level steps *)
Lemma register_ok sc n x sc' : register sc n x = DOk sc' -> has n sc = false /\ sc' = (n, x) :: sc.
Proof. unfold register. destruct (has n sc); [discriminate|]. intro H. injection H as <-. auto. Qed.

Lemma resource_decl_eq dup l i ms :
  resource_decl dup l i ms =
  (do cur1 <- register (l_cur l) (nm i) (TResource (snd (add_resource (l_types l) (mkres (nm i) None)))) ;;
   if has (nm i) (l_exts l) then DErr dup else
   do (exts, t2) <- methods_go cur1 (nm i) (snd (add_resource (l_types l) (mkres (nm i) None))) []
                      (l_exts l ++ [(nm i, KType (TResource (snd (add_resource (l_types l) (mkres (nm i) None)))))])
                      (fst (add_resource (l_types l) (mkres (nm i) None))) ms ;;
   DOk (mkloc cur1 (l_uses l) exts t2)).
Proof. reflexivity. Qed.

Definition item_plain (dup : derr) (l : loc) (d : Ast.item_type_decl) : dres loc :=
  do (x, t1) <- plain_decl (l_cur l) (l_types l) d ;;
  do cur1 <- register (l_cur l) (decl_name d) x ;;
  if has (decl_name d) (l_exts l) then DErr dup
  else DOk (mkloc cur1 (l_uses l) (l_exts l ++ [(decl_name d, KType x)]) t1).

Definition use_local (it : Ast.use_item) : str :=
  match Ast.ui_as it with Some a => nm a | None => nm (Ast.ui_id it) end.
Definition use_rec (iface : id) (it : Ast.use_item) : used :=
  (iface, match Ast.ui_as it with Some _ => Some (nm (Ast.ui_id it)) | None => None end).

Lemma use_items_cons iface l it rest :
  use_items iface l (it :: rest) =
  match get_if (l_types l) iface with
  | None => DPanic 9
  | Some x =>
    match assoc (nm (Ast.ui_id it)) (i_exports x) with
    | None => DErr EUndefinedInterfaceType
    | Some (KType ((TResource _ | TValue _) as y)) =>
      if has (use_local it) (l_exts l) then DErr EUseConflict else
      do cur1 <- register (l_cur l) (use_local it) y ;;
      use_items iface (mkloc cur1 (imap_set (use_local it) (use_rec iface it) (l_uses l))
                             (imap_set (use_local it) (KType y) (l_exts l)) (l_types l)) rest
    | Some _ => DErr ENotInterfaceValueType
    end
  end.
Proof. reflexivity. Qed.

(** * Resource members: names and signatures (arena level) *)
Definition member_kind (m : Ast.resource_method) : mkind :=
  match m with
  | Ast.RMConstructor _ _ _ => MCtor
  | Ast.RMMethod _ _ s _ => if s then MStatic else MMethod
  end.
Definition member_params (m : Ast.resource_method) : list Ast.named_type :=
  match m with Ast.RMConstructor _ _ ps => ps | Ast.RMMethod _ _ _ ft => Ast.ft_params ft end.
Definition declared_names (m : Ast.resource_method) : list str := map (fun p => nm (Ast.nt_id p)) (member_params m).

(** what the arena holds for member [m] of resource [r]: a function whose parameters are, for a method,
    [self: borrow<r>] followed by the declared ones, and otherwise exactly the declared ones (so a static
    function or a constructor has no [self]); a constructor returns [own<r>]. *)
Definition member_fn_ok (t : types) (r : id) (m : Ast.resource_method) (k : kind) : Prop :=
  exists f ft, k = KFunc f /\ get_func t f = Some ft /\
    match member_kind m with
    | MMethod => exists rest, f_params ft = (self_name, VBorrow r) :: rest /\ map fst rest = declared_names m
    | MStatic => map fst (f_params ft) = declared_names m
    | MCtor => map fst (f_params ft) = declared_names m /\ f_result ft = Some (VOwn r)
    | MFree => False
    end.

Lemma leafx_app l1 l2 : leafx (l1 ++ l2) = leafx l1 && leafx l2.
Proof. apply forallb_app. Qed.

Lemma methods_go_frame : forall ms cur rname r names exts t exts' t',
  methods_go cur rname r names exts t ms = DOk (exts', t') ->
  frame t t' /\ exists fs, exts' = exts ++ fs /\
    map fst fs = map (fun m => member_name rname (member_key m) (member_kind m)) ms /\
    Forall2 (fun m kv => member_fn_ok t' r m (snd kv)) ms fs.
Proof.
  induction ms as [|m rest IH]; intros cur rname r names exts t exts' t' H.
  - cbn in H. injection H as <- <-. split; [apply frame_refl|]. exists []. rewrite app_nil_r. repeat split. constructor.
  - cbn [methods_go] in H. dinv H as [[[[names1 en] f] t1] [E1 H]]. destruct (has en exts); [discriminate|].
    assert (Hm : frame t t1 /\ en = member_name rname (member_key m) (member_kind m) /\ member_fn_ok t1 r m (KFunc f)).
    { destruct m as [docs sp ps|docs i is_static fty].
      - destruct (mem [] names); [discriminate|]. dinv E1 as [[f0 t0] [E0 E1]]. injection E1 as <- <- <- <-.
        destruct (func_type_frame _ _ _ _ _ _ _ _ E0) as [X1 [ps' [res' [G [Hn Hres]]]]]. split; [exact X1|].
        split; [reflexivity|]. exists f0, (mkfunc (self_pre FConstructor (Some r) ++ ps') res' false).
        split; [reflexivity|]. split; [exact G|]. cbn [member_kind self_pre app f_params f_result].
        split; [exact Hn | now apply Hres].
      - destruct (mem (name_of i) names); [discriminate|]. dinv E1 as [[f0 t0] [E0 E1]]. injection E1 as <- <- <- <-.
        destruct (func_type_frame _ _ _ _ _ _ _ _ E0) as [X1 [ps' [res' [G [Hn Hres]]]]]. split; [exact X1|].
        split; [destruct is_static; reflexivity|]. eexists f0, _. split; [reflexivity|]. split; [exact G|].
        cbn [member_kind]. destruct is_static; cbn [self_pre app f_params].
        + exact Hn.
        + exists ps'. split; [reflexivity | exact Hn]. }
    destruct Hm as [X1 [-> Hok]]. destruct (IH _ _ _ _ _ _ _ _ H) as [X2 [fs [-> [Hn Hf]]]].
    split; [eapply frame_trans; eassumption|]. eexists (_ :: fs). rewrite <- app_assoc. split; [reflexivity|].
    cbn [map fst]. rewrite Hn. split; [reflexivity|]. constructor; [|exact Hf].
    destruct Hok as [f1 [ft [Ek [G Hsh]]]]. exists f1, ft. split; [exact Ek|]. split; [|exact Hsh].
    eapply aext_get_func; [apply frame_aext; exact X2 | exact G].
Qed.

Lemma member_fn_leaf t r ms fs : Forall2 (fun m kv => member_fn_ok t r m (snd kv)) ms fs -> leafx fs = true.
Proof.
  induction 1 as [|m kv ms fs [f [ft [Ek _]]] _ IH]; [reflexivity|]. unfold leafx in *. cbn [forallb]. now rewrite Ek, IH.
Qed.

(** [method_names] *)
Lemma resource_decl_spec dup l i ms l' :
  resource_decl dup l i ms = DOk l' ->
  let n := nm i in
  let r := mkid (t_tag (l_types l)) (length (t_resources (l_types l))) in
  frame (l_types l) (l_types l') /\
  get_res (l_types l') r = Some (mkres n None) /\
  l_cur l' = (n, TResource r) :: l_cur l /\ l_uses l' = l_uses l /\
  exists fs, l_exts l' = l_exts l ++ (n, KType (TResource r)) :: fs /\
             map fst fs = map (fun m => member_name n (member_key m) (member_kind m)) ms /\
             Forall2 (fun m kv => member_fn_ok (l_types l') r m (snd kv)) ms fs.
Proof.
  intros H n r. rewrite resource_decl_eq in H.
  set (nr := mkres (nm i) None) in *. change (snd (add_resource (l_types l) nr)) with r in H.
  set (t1 := fst (add_resource (l_types l) nr)) in *.
  dinv H as [cur1 [E1 H]]. unfold register in E1. destruct (has (nm i) (l_cur l)); [discriminate|]. injection E1 as <-.
  destruct (has (nm i) (l_exts l)); [discriminate|]. dinv H as [[exts t2] [E2 H]]. injection H as <-.
  cbn [l_types l_cur l_exts l_uses].
  destruct (methods_go_frame _ _ _ _ _ _ _ _ _ E2) as [X2 [fs [-> [Hn Hf]]]].
  split; [eapply frame_trans; [apply (frame_add_resource (l_types l) nr) | exact X2]|].
  split; [eapply aext_get_res; [apply frame_aext; exact X2 | apply (get_res_new (l_types l) nr)]|].
  split; [reflexivity|]. split; [reflexivity|]. exists fs. rewrite <- app_assoc. auto.
Qed.

Lemma item_type_decl_frame dup l d l' : item_type_decl dup l d = DOk l' ->
  frame (l_types l) (l_types l') /\ (leafx (l_exts l) = true -> leafx (l_exts l') = true).
Proof.
  intro H.
  assert (Hp : forall d0, item_plain dup l d0 = DOk l' ->
                          frame (l_types l) (l_types l') /\ (leafx (l_exts l) = true -> leafx (l_exts l') = true)).
  { intros d0 H0. unfold item_plain in H0. dinv H0 as [[x t1] [E1 H0]]. dinv H0 as [cur1 [E2 H0]].
    destruct (has _ (l_exts l)); [discriminate|]. injection H0 as <-. cbn [l_types l_exts].
    destruct (plain_decl_frame _ _ _ _ _ E1) as [X1 Hl]. split; [exact X1|]. intro Hx.
    rewrite leafx_app, Hx. unfold leafx. cbn [forallb snd]. now rewrite Hl. }
  destruct d as [docs id ms|docs id cs|docs id fs|docs id fl|docs id cs|docs id k];
    [|apply (Hp (Ast.DVariant docs id cs) H)|apply (Hp (Ast.DRecord docs id fs) H)|apply (Hp (Ast.DFlags docs id fl) H)
     |apply (Hp (Ast.DEnum docs id cs) H)|apply (Hp (Ast.DAlias docs id k) H)].
  cbn [item_type_decl] in H. destruct (resource_decl_spec _ _ _ _ _ H) as [X1 [_ [_ [_ [fs [-> [_ Hf]]]]]]].
  split; [exact X1|]. intro Hx. rewrite leafx_app, Hx. unfold leafx at 1. cbn [forallb snd leafk andb].
  eapply member_fn_leaf; exact Hf.
Qed.

(** * [use]: the very same type *)
Definition usable (y : ty) : Prop := (exists r, y = TResource r) \/ (exists v, y = TValue v).

(** one step of [use_items] in generic form *)
Lemma use_items_step iface l it rest l' x :
  get_if (l_types l) iface = Some x -> use_items iface l (it :: rest) = DOk l' ->
  exists y, assoc (nm (Ast.ui_id it)) (i_exports x) = Some (KType y) /\ usable y /\
            has (use_local it) (l_exts l) = false /\ has (use_local it) (l_cur l) = false /\
            use_items iface (mkloc ((use_local it, y) :: l_cur l) (imap_set (use_local it) (use_rec iface it) (l_uses l))
                                   (l_exts l ++ [(use_local it, KType y)]) (l_types l)) rest = DOk l'.
Proof.
  intros Hg H. rewrite use_items_cons, Hg in H.
  destruct (assoc (nm (Ast.ui_id it)) (i_exports x)) as [k|]; [|discriminate].
  assert (Hgen : exists y, k = KType y /\ usable y /\
            (if has (use_local it) (l_exts l) then DErr EUseConflict else
             do cur1 <- register (l_cur l) (use_local it) y ;;
             use_items iface (mkloc cur1 (imap_set (use_local it) (use_rec iface it) (l_uses l))
                                    (imap_set (use_local it) (KType y) (l_exts l)) (l_types l)) rest) = DOk l').
  { destruct k as [y| | | | |]; try discriminate. destruct y as [r| |v| | |]; try discriminate.
    - exists (TResource r). split; [reflexivity|]. split; [left; eauto | exact H].
    - exists (TValue v). split; [reflexivity|]. split; [right; eauto | exact H]. }
  clear H. destruct Hgen as [y [-> [Hu H]]]. exists y.
  destruct (has (use_local it) (l_exts l)) eqn:Eh2; [discriminate|]. dinv H as [cur1 [E1 H]].
  apply register_ok in E1 as [Eh1 ->]. rewrite (imap_set_fresh _ _ _ Eh2) in H. auto.
Qed.

Lemma use_items_keep iface : forall items l l' k y,
  use_items iface l items = DOk l' -> assoc k (l_cur l) = Some y -> assoc k (l_cur l') = Some y.
Proof.
  induction items as [|it rest IH]; intros l l' k y H Ha.
  - cbn in H. now injection H as <-.
  - destruct (get_if (l_types l) iface) as [x|] eqn:Hg; [|rewrite use_items_cons, Hg in H; discriminate].
    destruct (use_items_step _ _ _ _ _ _ Hg H) as [y0 [_ [_ [_ [Eh1 H1]]]]].
    apply (IH _ _ _ _ H1). cbn [l_cur assoc]. destruct (str_eqb k (use_local it)) eqn:E; [|exact Ha].
    apply seqb_eq in E. subst k. unfold has in Eh1. rewrite Ha in Eh1. discriminate.
Qed.

Lemma use_items_spec iface x : forall items l l',
  get_if (l_types l) iface = Some x -> use_items iface l items = DOk l' ->
  l_types l' = l_types l /\
  exists ys,
    Forall2 (fun it y => assoc (nm (Ast.ui_id it)) (i_exports x) = Some (KType y) /\ usable y /\
                         assoc (use_local it) (l_cur l') = Some y) items ys /\
    l_exts l' = l_exts l ++ map (fun p => (use_local (fst p), KType (snd p))) (combine items ys) /\
    l_cur l' = rev (map (fun p => (use_local (fst p), snd p)) (combine items ys)) ++ l_cur l /\
    l_uses l' = fold_left (fun u it => imap_set (use_local it) (use_rec iface it) u) items (l_uses l).
Proof.
  induction items as [|it rest IH]; intros l l' Hg H.
  - cbn in H. injection H as <-. split; [reflexivity|]. exists []. cbn. rewrite app_nil_r. repeat split. constructor.
  - destruct (use_items_step _ _ _ _ _ _ Hg H) as [y [Ea [Hu [Eh2 [Eh1 H1]]]]].
    edestruct IH as [Ht [ys [Hf [Hx [Hc Hus]]]]]; [|exact H1|]; [exact Hg|]. cbn [l_types l_exts l_cur l_uses] in *.
    split; [exact Ht|]. exists (y :: ys). split; [|split; [|split]].
    + constructor; [|exact Hf]. split; [exact Ea|]. split; [exact Hu|].
      apply (use_items_keep _ _ _ _ _ _ H1). cbn [l_cur assoc]. now rewrite seqb_refl.
    + rewrite Hx, <- app_assoc. reflexivity.
    + rewrite Hc. cbn [combine map rev fst snd]. rewrite <- app_assoc. reflexivity.
    + exact Hus.
Qed.

(** with the invariant "every used name is an extern of the body" (which every body built by the resolver has) the
    uses are appended *)
Lemma use_items_uses iface : forall items l l',
  (forall k, has k (l_uses l) = true -> has k (l_exts l) = true) ->
  use_items iface l items = DOk l' ->
  l_uses l' = l_uses l ++ map (fun it => (use_local it, use_rec iface it)) items /\
  (forall k, has k (l_uses l') = true -> has k (l_exts l') = true).
Proof.
  induction items as [|it rest IH]; intros l l' Hinv H.
  - cbn in H. injection H as <-. rewrite app_nil_r. auto.
  - destruct (get_if (l_types l) iface) as [x|] eqn:Hg; [|rewrite use_items_cons, Hg in H; discriminate].
    destruct (use_items_step _ _ _ _ _ _ Hg H) as [y [_ [_ [Eh2 [_ H1]]]]].
    assert (Eh3 : has (use_local it) (l_uses l) = false).
    { destruct (has (use_local it) (l_uses l)) eqn:E; [|reflexivity]. rewrite (Hinv _ E) in Eh2. discriminate. }
    rewrite (imap_set_fresh _ _ _ Eh3) in H1.
    assert (Hinv1 : forall k, has k (l_uses l ++ [(use_local it, use_rec iface it)]) = true ->
                              has k (l_exts l ++ [(use_local it, KType y)]) = true).
    { intros k. rewrite !has_app. intro Hk. apply orb_true_iff in Hk as [Hk|Hk].
      - now rewrite (Hinv _ Hk).
      - unfold has in *. cbn [assoc] in *. destruct (str_eqb k (use_local it)); [apply orb_true_r | discriminate]. }
    edestruct IH as [Hu Hinv']; [|exact H1|]; [exact Hinv1|]. cbn [l_uses] in Hu. split; [|exact Hinv']. rewrite Hu, <- app_assoc. reflexivity.
Qed.

Lemma use_items_leaf iface : forall items l l',
  use_items iface l items = DOk l' -> l_types l' = l_types l /\ (leafx (l_exts l) = true -> leafx (l_exts l') = true).
Proof.
  induction items as [|it rest IH]; intros l l' H.
  - cbn in H. injection H as <-. auto.
  - destruct (get_if (l_types l) iface) as [x|] eqn:Hg; [|rewrite use_items_cons, Hg in H; discriminate].
    destruct (use_items_step _ _ _ _ _ _ Hg H) as [y [_ [Hu [_ [_ H1]]]]].
    destruct (IH _ _ H1) as [Ht Hl]. cbn [l_types l_exts] in *. split; [exact Ht|]. intro Hx. apply Hl.
    rewrite leafx_app, Hx. unfold leafx. cbn [forallb snd]. destruct Hu as [[r ->]|[v ->]]; reflexivity.
Qed.

Lemma use_type_leaf root pkgs l u l' :
  use_type root pkgs l u = DOk l' -> l_types l' = l_types l /\ (leafx (l_exts l) = true -> leafx (l_exts l') = true).
Proof. unfold use_type. intro H. dinv H as [iface [E1 H]]. eapply use_items_leaf; exact H. Qed.

(** * Flat collections *)
Definition flat (t : types) : Prop :=
  (forall x, In x (t_interfaces t) -> leafx (i_exports x) = true) /\
  (forall x, In x (t_worlds t) -> leafx (w_exports x) = true).

Lemma flat_frame t t' : frame t t' -> flat t -> flat t'.
Proof. intros [_ [H1 H2]] [F1 F2]. split; [rewrite H1 | rewrite H2]; assumption. Qed.
Lemma flat_get_if t i x : flat t -> get_if t i = Some x -> leafx (i_exports x) = true.
Proof. intros [F _] H. apply F. apply lookup_nth in H. eapply nth_error_In; exact H. Qed.
Lemma flat_get_world t i x : flat t -> get_world t i = Some x -> leafx (w_exports x) = true.
Proof. intros [_ F] H. apply F. apply lookup_nth in H. eapply nth_error_In; exact H. Qed.
Lemma flat_add_interface t x : flat t -> leafx (i_exports x) = true -> flat (fst (add_interface t x)).
Proof.
  intros [F1 F2] Hx. split; cbn [add_interface fst t_interfaces t_worlds]; [|exact F2].
  intros y Hy. apply in_app_or in Hy as [Hy|[<-|[]]]; auto.
Qed.
Lemma flat_add_world t x : flat t -> leafx (w_exports x) = true -> flat (fst (add_world t x)).
Proof.
  intros [F1 F2] Hx. split; cbn [add_world fst t_interfaces t_worlds]; [exact F1|].
  intros y Hy. apply in_app_or in Hy as [Hy|[<-|[]]]; auto.
Qed.
Lemma leafx_assoc l k v : leafx l = true -> assoc k l = Some v -> leafk v = true.
Proof.
  unfold leafx. induction l as [|[k' v'] l IH]; cbn [forallb assoc snd]; [discriminate|].
  intro H. apply andb_true_iff in H as [H1 H2]. destruct (str_eqb k k'); [intro E; now injection E as <- | now apply IH].
Qed.
Lemma leafx_snoc l k v : leafx l = true -> leafk v = true -> leafx (l ++ [(k, v)]) = true.
Proof. intros H1 H2. rewrite leafx_app, H1. unfold leafx. cbn [forallb snd]. now rewrite H2. Qed.

(** ** Package paths *)
Lemma split_on_nonnil c s : split_on c s <> [].
Proof.
  induction s as [|x r IH]; cbn [split_on]; [discriminate|]. destruct (x =? c); [discriminate|].
  destruct (split_on c r); discriminate.
Qed.
Lemma split_on_single c : forall s first, split_on c s = [first] -> first = s /\ existsb (fun x => x =? c) s = false.
Proof.
  induction s as [|x r IH]; intros first H; cbn [split_on existsb] in *.
  - injection H as <-. auto.
  - destruct (x =? c) eqn:E.
    + injection H as _ H. now apply split_on_nonnil in H.
    + destruct (split_on c r) as [|seg segs] eqn:Er; [now apply split_on_nonnil in Er|].
      injection H as <- ->. destruct (IH _ eq_refl) as [-> Hn]. auto.
Qed.

Lemma project_leaf t : flat t -> forall segs k k', segs <> [] -> project t k segs = DOk k' -> leafk k' = true.
Proof.
  intros Hf. induction segs as [|sg rest IH]; intros k k' Hne H; [congruence|].
  cbn [project] in H. dinv H as [exports [E1 H]].
  assert (Hx : leafx exports = true).
  { destruct k as [[r|f|v|i|w|m]|f|i|w|m|v]; try discriminate.
    - destruct (get_if t i) as [x|] eqn:G; [|discriminate]. injection E1 as <-. eapply flat_get_if; eassumption.
    - destruct (get_world t w) as [x|] eqn:G; [|discriminate]. injection E1 as <-. eapply flat_get_world; eassumption.
    - destruct (get_if t i) as [x|] eqn:G; [|discriminate]. injection E1 as <-. eapply flat_get_if; eassumption.
    - destruct (get_world t w) as [x|] eqn:G; [|discriminate]. injection E1 as <-. eapply flat_get_world; eassumption. }
  destruct (assoc sg exports) as [k1|] eqn:Ea; [|discriminate]. pose proof (leafx_assoc _ _ _ Hx Ea) as Hk1.
  destruct rest as [|sg2 rest2].
  - cbn in H. now injection H as <-.
  - eapply IH; [discriminate | exact H].
Qed.

Lemma path_item_cases root pkgs t pp k : flat t -> path_item root pkgs t pp = DOk k ->
  (str_eqb (Ast.pp_name pp) (pk_own pkgs) = true /\ existsb (fun c => c =? 47) (Ast.pp_segments pp) = false /\
   exists x, assoc (Ast.pp_segments pp) root = Some x /\ k = KType x) \/
  (str_eqb (Ast.pp_name pp) (pk_own pkgs) = true /\ leafk k = true) \/
  (str_eqb (Ast.pp_name pp) (pk_own pkgs) = false /\ exists x, assoc (Ast.pp_string pp) (pk_ext pkgs) = Some x /\ k = KType x).
Proof.
  intros Hf H. unfold path_item in H. destruct (str_eqb (Ast.pp_name pp) (pk_own pkgs)) eqn:Eo.
  - destruct (split_on 47 (Ast.pp_segments pp)) as [|first rest] eqn:Es; [discriminate|].
    destruct (assoc first root) as [x|] eqn:Ea; [|discriminate]. destruct rest as [|sg rest].
    + cbn in H. injection H as <-. destruct (split_on_single _ _ _ Es) as [-> Hn]. left. eauto.
    + right. left. split; [reflexivity|]. eapply project_leaf; [exact Hf | | exact H]. discriminate.
  - destruct (assoc (Ast.pp_string pp) (pk_ext pkgs)) as [x|] eqn:Ea; [|discriminate]. injection H as <-. right. right. eauto.
Qed.

(** ** Interface bodies keep collections flat *)
Lemma interface_items_frame root pkgs : forall items l l', interface_items root pkgs l items = DOk l' ->
  frame (l_types l) (l_types l') /\ (leafx (l_exts l) = true -> leafx (l_exts l') = true).
Proof.
  induction items as [|it rest IH]; intros l l' H.
  - cbn in H. injection H as <-. split; [apply frame_refl | auto].
  - cbn [interface_items] in H. dinv H as [l1 [E1 H]].
    assert (Hs : frame (l_types l) (l_types l1) /\ (leafx (l_exts l) = true -> leafx (l_exts l1) = true)).
    { destruct it as [u|d|docs i r].
      - destruct (use_type_leaf _ _ _ _ _ E1) as [-> Hl]. split; [apply frame_refl | exact Hl].
      - eapply item_type_decl_frame; exact E1.
      - dinv E1 as [[f t1] [E0 E1]]. destruct (has _ (l_exts l)); [discriminate|]. injection E1 as <-. cbn [l_types l_exts].
        split; [eapply func_type_ref_frame; exact E0|]. intro Hx. now apply leafx_snoc. }
    destruct Hs as [X1 L1]. destruct (IH _ _ H) as [X2 L2]. split; [eapply frame_trans; eassumption | auto].
Qed.

Lemma interface_body_flat root pkgs t idn items i t' :
  flat t -> interface_body root pkgs t idn items = DOk (i, t') -> flat t'.
Proof.
  intros Hf H. unfold interface_body in H. dinv H as [l [E1 H]].
  destruct (interface_items_frame _ _ _ _ _ E1) as [X1 L1]. cbn [l_types l_exts] in *.
  unfold add_interface in H. injection H as <- <-.
  apply (flat_add_interface (l_types l) (mkif idn (l_uses l) (l_exts l))); [eapply flat_frame; eassumption|].
  cbn [i_exports]. now apply L1.
Qed.

(** ** Worlds keep collections flat *)
Definition wflat (w : wst) : Prop := flat (w_types w) /\ leafx (w_exp w) = true.

Lemma put_flat imp w n k t : flat t -> leafx (w_exp w) = true -> leafk k = true -> has n (side imp w) = false ->
  wflat (put imp w n k t).
Proof.
  intros Hf Hx Hk Hh. unfold put, side, with_imports, with_exports, wflat, w_types, w_imp in *.
  destruct imp; cbn [w_loc l_types w_exp].
  - auto.
  - rewrite (imap_set_fresh _ _ _ Hh). split; [exact Hf | now apply leafx_snoc].
Qed.

Lemma iface_path_flat imp w found w' : wflat w -> iface_path imp w found = DOk w' -> wflat w'.
Proof.
  intros [Hf Hx] H. unfold iface_path in H. dinv H as [it [E1 H]].
  destruct it as [[r|f|v|i|wd|m]|f|i|wd|m|v]; try discriminate.
  destruct (get_if (w_types w) i) as [d|]; [|discriminate]. destruct (i_id d) as [n|]; [|discriminate].
  destruct (has n (side imp w)) eqn:Eh; [discriminate|]. injection H as <-. now apply put_flat.
Qed.

Lemma world_item_path_flat root pkgs imp w p w' : wflat w -> world_item_path root pkgs imp w p = DOk w' -> wflat w'.
Proof.
  intros [Hf Hx] H. destruct p as [i et|pp|i]; cbn [world_item_path] in H.
  - destruct (has (name_of i) (side imp w)) eqn:Eh; [discriminate|]. dinv H as [[k t1] [E1 H]]. injection H as <-.
    assert (Hk : flat t1 /\ leafk k = true).
    { destruct et as [j|fn|items].
      - dinv E1 as [it [E0 E1]]. destruct it; try discriminate; injection E1 as <- <-; auto.
      - dinv E1 as [[x t0] [E0 E1]]. injection E1 as <- <-. apply func_type_frame in E0 as [X1 _].
        split; [eapply flat_frame; eassumption | reflexivity].
      - dinv E1 as [[x t0] [E0 E1]]. injection E1 as <- <-. split; [eapply interface_body_flat; eassumption | reflexivity]. }
    destruct Hk as [Hf1 Hk]. now apply put_flat.
  - eapply iface_path_flat; [split; eassumption | exact H].
  - eapply iface_path_flat; [split; eassumption | exact H].
Qed.

Lemma world_items_go_flat root pkgs : forall items w w', wflat w -> world_items_go root pkgs w items = DOk w' -> wflat w'.
Proof.
  induction items as [|it rest IH]; intros w w' Hw H.
  - cbn in H. now injection H as <-.
  - cbn [world_items_go] in H. dinv H as [w1 [E1 H]]. eapply IH; [|exact H].
    destruct Hw as [Hf Hx]. destruct it as [u|d|docs p|docs p|docs r its].
    + dinv E1 as [l [E0 E1]]. injection E1 as <-. destruct (use_type_leaf _ _ _ _ _ E0) as [Ht _].
      unfold wflat, w_types in *. cbn [w_loc w_exp]. split; [rewrite Ht; exact Hf | exact Hx].
    + dinv E1 as [l [E0 E1]]. injection E1 as <-. destruct (item_type_decl_frame _ _ _ _ E0) as [X1 _].
      unfold wflat, w_types in *. cbn [w_loc w_exp]. split; [eapply flat_frame; eassumption | exact Hx].
    + eapply world_item_path_flat; [split; eassumption | exact E1].
    + eapply world_item_path_flat; [split; eassumption | exact E1].
    + injection E1 as <-. split; assumption.
Qed.

Lemma include_go_leaf : forall src target repl used target' used',
  leafx target = true -> leafx src = true -> include_go target repl used src = DOk (target', used') -> leafx target' = true.
Proof.
  induction src as [|[n k] rest IH]; intros target repl used target' used' Ht Hs H.
  - cbn in H. now injection H as <- <-.
  - cbn [include_go] in H. dinv H as [[n1 repl1] [E1 H]]. unfold leafx in Hs. cbn [forallb snd] in Hs.
    apply andb_true_iff in Hs as [Hk Hs]. eapply IH; [|exact Hs|exact H].
    unfold or_insert. destruct (has n1 target); [exact Ht | now apply leafx_snoc].
Qed.

Lemma world_include_flat root pkgs w r items w' : wflat w -> world_include root pkgs w r items = DOk w' -> wflat w'.
Proof.
  intros [Hf Hx] H. unfold world_include in H. dinv H as [repl [E1 H]]. dinv H as [it [E2 H]].
  assert (Hg : exists x other, get_world (w_types w) x = Some other /\
            (do (imps, used1) <- include_go (w_imp w) repl [] (w_imports other) ;;
             do (exps, used2) <- include_go (w_exp w) repl used1 (w_exports other) ;;
             if existsb (fun it => negb (mem (name_of (Ast.ii_from it)) used2)) items then DErr EMissingWorldInclude
             else DOk (mkwst (mkloc (l_cur (w_loc w)) (l_uses (w_loc w)) imps (w_types w)) exps)) = DOk w').
  { destruct it as [[r0|f|v|i|wd|m]|f|i|wd|m|v]; try discriminate;
      (destruct (get_world (w_types w) wd) as [other|] eqn:G; [|discriminate]); eauto. }
  clear H. destruct Hg as [x [other [G H]]]. dinv H as [[imps repl1] [E3 H]]. dinv H as [[exps repl2] [E4 H]].
  destruct (existsb _ items); [discriminate|]. injection H as <-. split; cbn [w_types w_loc l_types w_exp]; [exact Hf|].
  eapply include_go_leaf; [exact Hx | eapply flat_get_world; eassumption | exact E4].
Qed.

Lemma world_includes_go_flat root pkgs : forall items w w', wflat w -> world_includes_go root pkgs w items = DOk w' -> wflat w'.
Proof.
  induction items as [|it rest IH]; intros w w' Hw H.
  - cbn in H. now injection H as <-.
  - destruct it as [u|d|docs p|docs p|docs r its]; cbn [world_includes_go] in H; try (eapply IH; eassumption).
    dinv H as [w1 [E1 H]]. eapply IH; [|exact H]. eapply world_include_flat; eassumption.
Qed.

Lemma world_body_flat root pkgs t idn items i t' : flat t -> world_body root pkgs t idn items = DOk (i, t') -> flat t'.
Proof.
  intros Hf H. unfold world_body in H. dinv H as [w1 [E1 H]]. dinv H as [w2 [E2 H]].
  assert (Hw1 : wflat w1). { eapply world_items_go_flat; [|exact E1]. split; [exact Hf | reflexivity]. }
  destruct (world_includes_go_flat _ _ _ _ _ Hw1 E2) as [Hf2 Hx2].
  unfold add_world in H. injection H as <- <-.
  apply (flat_add_world (w_types w2) (mkworld idn (l_uses (w_loc w2)) (w_imp w2) (w_exp w2))); assumption.
Qed.

(** ** Documents *)
Lemma type_statement_flat pn pkgs s x s' : flat (r_types s) -> type_statement pn pkgs s x = DOk s' -> flat (r_types s').
Proof.
  intros Hf H. unfold type_statement in H. dinv H as [[[n y] t1] [E1 H]].
  destruct (mem n (r_exports s)); [discriminate|]. dinv H as [root1 [E2 H]]. injection H as <-. cbn [r_types].
  destruct x as [docs i items|docs i items|d].
  - dinv E1 as [[j t0] [E0 E1]]. injection E1 as _ _ <-. eapply interface_body_flat; eassumption.
  - dinv E1 as [[j t0] [E0 E1]]. injection E1 as _ _ <-. eapply world_body_flat; eassumption.
  - assert (Hp : exists y0, plain_decl (r_root s) (r_types s) d = DOk (y0, t1)).
    { destruct d; try discriminate; dinv E1 as [[y0 t0] [E0 E1]]; injection E1 as _ _ <-; eauto. }
    destruct Hp as [y0 Hp]. apply plain_decl_frame in Hp as [X1 _]. eapply flat_frame; eassumption.
Qed.

Lemma statements_go_flat pn pkgs : forall l s s', flat (r_types s) -> statements_go pn pkgs s l = DOk s' -> flat (r_types s').
Proof.
  induction l as [|st rest IH]; intros s s' Hf H.
  - cbn in H. now injection H as <-.
  - destruct st as [| x | |]; cbn [statements_go] in H; try discriminate.
    dinv H as [s1 [E1 H]]. eapply IH; [|exact H]. eapply type_statement_flat; eassumption.
Qed.
