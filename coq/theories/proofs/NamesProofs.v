(** names.rs: the compatibility relation is the semver-track relation. *)
From WacV Require Import Str Ord Semver Names NamesSpec SemverProofs SemverText.
Require Import ZArith ZifyBool ZifyN.

Lemma split_first_spec c s b a : split_first c s = Some (b, a) -> s = b ++ c :: a /\ ~ In c b.
Proof.
  revert b a. induction s as [|x s IH]; intros b a H; cbn in H; try discriminate.
  destruct (x =? c) eqn:E.
  - injection H as <- <-. apply N.eqb_eq in E; subst. cbn; auto.
  - destruct (split_first c s) as [[b' a']|] eqn:F; try discriminate. injection H as <- <-.
    destruct (IH _ _ eq_refl) as [-> Hn]. split; auto. cbn. intros [->|]; auto.
    rewrite N.eqb_refl in E. discriminate.
Qed.

Lemma split_first_app c b a : ~ In c b -> split_first c (b ++ c :: a) = Some (b, a).
Proof.
  induction b as [|x b IH]; intros Hn; cbn.
  - now rewrite N.eqb_refl.
  - destruct (x =? c) eqn:E.
    + apply N.eqb_eq in E. subst. cbn in Hn. tauto.
    + rewrite IH; auto. cbn in Hn. tauto.
Qed.

Lemma app_sep_inj c (b1 b2 x1 x2 : str) :
  ~ In c b1 -> ~ In c b2 -> b1 ++ c :: x1 = b2 ++ c :: x2 -> b1 = b2 /\ x1 = x2.
Proof.
  intros H1 H2 E.
  assert (split_first c (b1 ++ c :: x1) = Some (b1, x1)) as A by now apply split_first_app.
  rewrite E, split_first_app in A by auto. injection A as -> ->. auto.
Qed.

Lemma digits_no_dot ds : forallb is_digit ds = true -> ~ In c_dot ds.
Proof.
  intros F Hin. rewrite forallb_forall in F. apply F in Hin. unfold is_digit, c_dot in Hin. lia.
Qed.

Lemma canonical_digits ds : canonical ds -> forallb is_digit ds = true.
Proof. now intros [F _]. Qed.

Lemma canonical_zero : canonical [c_zero].
Proof. split; cbn; auto. Qed.

Lemma canonical_val0 ds : canonical ds -> dval 0 ds = 0 -> ds = [c_zero].
Proof. intros C E. apply canonical_inj; auto using canonical_zero. Qed.

(** key text of a (base, track) *)
Definition KeyRel (k base : str) (t : track) : Prop :=
  ~ In c_at base /\
  exists ds, canonical ds /\
    ((t = TMajor (dval 0 ds) /\ dval 0 ds <> 0 /\ k = base ++ c_at :: ds) \/
     (t = TMinor (dval 0 ds) /\ k = base ++ c_at :: c_zero :: c_dot :: ds)).

Lemma KeyRel_inj k b t k' b' t' :
  KeyRel k b t -> KeyRel k' b' t' -> (k = k' <-> (b = b' /\ t = t')).
Proof.
  intros [Hb [ds [C H]]] [Hb' [ds' [C' H']]].
  destruct H as [[-> [Hz ->]]|[-> ->]]; destruct H' as [[-> [Hz' ->]]|[-> ->]]; split.
  - intros E. apply app_sep_inj in E as [-> ->]; auto.
  - intros [-> E]. injection E as E. apply canonical_inj in E; auto. now subst.
  - intros E. apply app_sep_inj in E as [-> E]; auto. exfalso.
    apply canonical_digits in C. rewrite E in C. cbn in C. discriminate.
  - intros [_ E]. discriminate.
  - intros E. apply app_sep_inj in E as [-> E]; auto. exfalso.
    apply canonical_digits in C'. rewrite <- E in C'. cbn in C'. discriminate.
  - intros [_ E]. discriminate.
  - intros E. apply app_sep_inj in E as [-> E]; auto. injection E as ->. auto.
  - intros [-> E]. injection E as E. apply canonical_inj in E; auto. now subst.
Qed.

Lemma version_text_split1 dM dm dp v :
  canonical dM ->
  split_first c_dot (version_text dM dm dp v) =
  Some (dM, dm ++ c_dot :: dp ++ (if is_nil (pre v) then [] else c_dash :: pre v)
                            ++ (if is_nil (build v) then [] else c_plus :: build v)).
Proof.
  intros C. unfold version_text. apply split_first_app. apply digits_no_dot, canonical_digits, C.
Qed.

Lemma alt_key_sound name k v :
  alt_key name = Some (k, v) ->
  exists base t, name_track name = Some (base, t, v) /\ KeyRel k base t.
Proof.
  unfold alt_key, name_track.
  destruct (split_first c_at name) as [[base vs]|] eqn:S; try discriminate.
  apply split_first_spec in S as [-> Hb].
  destruct (parse_version vs) as [v0|] eqn:P; try discriminate.
  apply parse_version_shape in P as P'.
  destruct P' as [dM [dm [dp [-> [CM [Cm [Cp [EM [Em Ep]]]]]]]]].
  unfold track_of.
  destruct (negb (is_nil (pre v0))) eqn:Npre; try discriminate.
  rewrite version_text_split1 by auto.
  destruct (negb (major v0 =? 0)) eqn:M.
  - intros H; injection H as <- <-.
    replace (0 <? major v0) with true by lia.
    exists base, (TMajor (major v0)). split; auto.
    split; auto. exists dM. split; auto. left. rewrite <- EM. repeat split; auto. lia.
  - destruct (negb (minor v0 =? 0)) eqn:Mi; try discriminate.
    rewrite split_first_app by (apply digits_no_dot, canonical_digits, Cm).
    intros H; injection H as <- <-.
    replace (0 <? major v0) with false by lia.
    replace (0 <? minor v0) with true by lia.
    exists base, (TMinor (minor v0)). split; auto.
    split; auto. exists dm. split; auto. right. rewrite <- Em. split; auto.
    assert (dM = [c_zero]) as -> by (apply canonical_val0; auto; lia). reflexivity.
Qed.

Lemma alt_key_complete name base t v :
  name_track name = Some (base, t, v) -> exists k, alt_key name = Some (k, v).
Proof.
  unfold alt_key, name_track.
  destruct (split_first c_at name) as [[base0 vs]|] eqn:S; try discriminate.
  destruct (parse_version vs) as [v0|] eqn:P; try discriminate.
  apply parse_version_shape in P as P'.
  destruct P' as [dM [dm [dp [-> [CM [Cm [Cp [EM [Em Ep]]]]]]]]].
  unfold track_of.
  destruct (negb (is_nil (pre v0))) eqn:Npre; try discriminate.
  rewrite version_text_split1 by auto.
  destruct (0 <? major v0) eqn:M.
  - intros H; injection H as <- <- <-. replace (negb (major v0 =? 0)) with true by lia. eauto.
  - destruct (0 <? minor v0) eqn:Mi; try discriminate.
    intros H; injection H as <- <- <-.
    replace (negb (major v0 =? 0)) with false by lia.
    replace (negb (minor v0 =? 0)) with true by lia.
    rewrite split_first_app by (apply digits_no_dot, canonical_digits, Cm). eauto.
Qed.

Lemma alt_key_none name : alt_key name = None -> name_track name = None.
Proof.
  intros H. destruct (name_track name) as [[[b t] v]|] eqn:E; auto.
  apply alt_key_complete in E as [k E]. congruence.
Qed.

Lemma track_eqb_eq a b : track_eqb a b = true <-> a = b.
Proof.
  destruct a, b; cbn; split; try congruence; rewrite ?N.eqb_eq; try congruence.
  all: intros H; injection H; auto.
Qed.

Lemma bool_eq_iff (a b : bool) : (a = true <-> b = true) -> a = b.
Proof. destruct a, b; intuition congruence. Qed.

(** Keys coincide exactly when base and track do. *)
Lemma alt_key_same_track a b ka va kb vb :
  alt_key a = Some (ka, va) -> alt_key b = Some (kb, vb) -> str_eqb ka kb = same_track a b.
Proof.
  intros A B. apply alt_key_sound in A as [ba [ta [TA KA]]]. apply alt_key_sound in B as [bb [tb [TB KB]]].
  unfold same_track. rewrite TA, TB. apply bool_eq_iff.
  rewrite str_eqb_eq, andb_true_iff, str_eqb_eq, track_eqb_eq.
  apply (KeyRel_inj _ _ _ _ _ _ KA KB).
Qed.

Theorem compat_is_spec_b a b : compat a b = compat_spec_b a b.
Proof.
  unfold compat, compat_spec_b. destruct (str_eqb a b); auto. cbn.
  destruct (alt_key a) as [[ka va]|] eqn:A.
  - destruct (alt_key b) as [[kb vb]|] eqn:B.
    + eapply alt_key_same_track; eauto.
    + apply alt_key_none in B. unfold same_track. rewrite B. destruct (name_track a) as [[[? ?] ?]|]; auto.
  - apply alt_key_none in A. unfold same_track. now rewrite A.
Qed.

Lemma name_track_shape name base t v :
  name_track name = Some (base, t, v) ->
  exists r, name = base ++ [c_at] ++ r /\ ~ In c_at base /\ parse_version r = Some v /\ track_of v = Some t.
Proof.
  unfold name_track. destruct (split_first c_at name) as [[b vs]|] eqn:S; try discriminate.
  apply split_first_spec in S as [-> Hb].
  destruct (parse_version vs) as [v0|] eqn:P; try discriminate.
  destruct (track_of v0) eqn:T; try discriminate. intros H; injection H as <- <- <-.
  exists vs; auto.
Qed.

Lemma name_track_intro base r v t :
  ~ In c_at base -> parse_version r = Some v -> track_of v = Some t ->
  name_track (base ++ [c_at] ++ r) = Some (base, t, v).
Proof.
  intros Hb P T. unfold name_track. cbn. rewrite split_first_app by auto. now rewrite P, T.
Qed.

Theorem compat_spec_b_iff a b : compat_spec_b a b = true <-> Compat_spec a b.
Proof.
  unfold compat_spec_b, Compat_spec. rewrite orb_true_iff, str_eqb_eq. split.
  - intros [->|H]; auto. right. unfold same_track in H.
    destruct (name_track a) as [[[ba ta] va]|] eqn:A; try discriminate.
    destruct (name_track b) as [[[bb tb] vb]|] eqn:B; try discriminate.
    apply andb_true_iff in H as [H1 H2]. apply str_eqb_eq in H1. apply track_eqb_eq in H2. subst.
    apply name_track_shape in A as [ra [-> [Hb [Pa Ta]]]].
    apply name_track_shape in B as [rb [-> [_ [Pb Tb]]]].
    exists bb, ra, rb, va, vb, tb. auto 10.
  - intros [->|[base [ra [rb [va [vb [t [-> [-> [Hb [Pa [Pb [Ta Tb]]]]]]]]]]]]]; auto. right.
    unfold same_track.
    rewrite (name_track_intro _ _ _ _ Hb Pa Ta), (name_track_intro _ _ _ _ Hb Pb Tb).
    rewrite str_eqb_refl. cbn. now apply track_eqb_eq.
Qed.

Theorem compat_iff a b : compat a b = true <-> Compat_spec a b.
Proof. rewrite compat_is_spec_b. apply compat_spec_b_iff. Qed.

(** Equivalence relation. *)
Lemma same_track_sym a b : same_track a b = same_track b a.
Proof.
  unfold same_track. destruct (name_track a) as [[[ba ta] va]|], (name_track b) as [[[bb tb] vb]|]; auto.
  apply bool_eq_iff. rewrite !andb_true_iff, !str_eqb_eq, !track_eqb_eq. intuition congruence.
Qed.

Lemma same_track_trans a b c : same_track a b = true -> same_track b c = true -> same_track a c = true.
Proof.
  unfold same_track. destruct (name_track a) as [[[ba ta] va]|], (name_track b) as [[[bb tb] vb]|],
    (name_track c) as [[[bc tc] vc]|]; try discriminate.
  rewrite !andb_true_iff, !str_eqb_eq, !track_eqb_eq. intuition congruence.
Qed.

Theorem compat_refl a : compat a a = true.
Proof. unfold compat. now rewrite str_eqb_refl. Qed.

Theorem compat_sym a b : compat a b = compat b a.
Proof.
  rewrite !compat_is_spec_b. unfold compat_spec_b. rewrite same_track_sym. f_equal.
  apply bool_eq_iff. rewrite !str_eqb_eq. intuition congruence.
Qed.

Theorem compat_trans a b c : compat a b = true -> compat b c = true -> compat a c = true.
Proof.
  rewrite !compat_is_spec_b. unfold compat_spec_b. rewrite !orb_true_iff, !str_eqb_eq.
  intros [->|H1] [->|H2]; auto. right. eapply same_track_trans; eauto.
Qed.

(** Build metadata is ignored; pre-releases and 0.0.x are compatible with nothing but themselves. *)
Lemma same_track_needs_track a b : same_track a b = true ->
  exists ba ta va, name_track a = Some (ba, ta, va).
Proof.
  unfold same_track. destruct (name_track a) as [[[ba ta] va]|]; try discriminate. eauto.
Qed.
