(** Histories of FLAT contributions: the invariant that ties every contribution to the import that carries it,
    and its consequences (the merged instance offers every export of every contributor, with the contributor's tree). *)
From Coq Require Import ZArith ZifyBool ZifyN Lia Permutation.
From WacV Require Import Str Names NamesSpec Types Checker SubSpec CheckerEq SubSpecProofs CheckerValue CheckerProofs.
From WacV Require Import Aggregator AggregatorSpec AggregatorFrame AggregatorRemap AggregatorChecker AggregatorNames
     AggregatorCanonical AggregatorFlat NamesProofs.

(** * Lists *)
Lemma assoc_rem_other {V} k k' (l : list (str * V)) : k <> k' -> assoc k' (rem k l) = assoc k' l.
Proof.
  intros N. induction l as [|[k2 v2] l IH]; cbn [rem assoc]; auto.
  destruct (str_eqb k k2) eqn:E.
  - apply SemverProofs.str_eqb_eq in E. subst k2. destruct (str_eqb k' k) eqn:E2; auto.
    apply SemverProofs.str_eqb_eq in E2. congruence.
  - cbn [assoc]. now rewrite IH.
Qed.
Lemma in_rem {V} k x (l : list (str * V)) : In x (rem k l) -> In x l.
Proof.
  induction l as [|[k2 v2] l IH]; cbn [rem]; auto. destruct (str_eqb k k2); cbn [In]; auto. intros [H|H]; auto.
Qed.
Lemma rem_perm {V} k (v : V) l : NoDup (map fst l) -> assoc k l = Some v -> Permutation l ((k, v) :: rem k l).
Proof.
  induction l as [|[k2 v2] l IH]; cbn [assoc rem map fst]; [discriminate|]. intros ND H.
  inversion ND as [|? ? Hn ND']; subst. destruct (str_eqb k k2) eqn:E.
  - apply SemverProofs.str_eqb_eq in E. subst k2. injection H as <-. apply Permutation_refl.
  - eapply perm_trans; [apply perm_skip, (IH ND' H)|]. apply perm_swap.
Qed.
Lemma ins_new_app {V} k (v : V) l : assoc k l = None -> ins k v l = l ++ [(k, v)].
Proof.
  induction l as [|[k2 v2] l IH]; cbn [assoc ins app]; auto. destruct (str_eqb k k2); [discriminate|].
  intros H. now rewrite IH.
Qed.

Lemma canonical_canon a n : Aggregator.canonical a n = canon (a_redirects a) n.
Proof. reflexivity. Qed.

Definition kidx (k : kind) : nat := match k with KInstance y => id_idx y | _ => O end.

Lemma canon_key keys rd names k : NInv keys rd names -> In k keys -> canon rd k = k.
Proof.
  intros I Hk. unfold canon. destruct (assoc k rd) as [b|] eqn:E; auto. apply (ni_rd _ _ _ I) in E. tauto.
Qed.

(** * Where the kind of a name's import goes under [rename] *)
Section Rename.
  Variables (imports : list (str * kind)) (rd : list (str * str)) (names : list str).
  Hypothesis I : NInv (map fst imports) rd names.
  Variables (name en : str) (ek : kind).
  Hypothesis Hnin : ~ In name (map fst imports).
  Hypothesis Hen : assoc en imports = Some ek.
  Hypothesis Hc : compat name en = true.

  Let ND : NoDup (map fst imports) := ni_nodup _ _ _ I.
  Let Hne : name <> en.
  Proof. intros ->. apply Hnin. eapply assoc_in_keys; eauto. Qed.

  Lemma rename_low_track n0 : In n0 names -> canon (ins name en rd) n0 = canon rd n0.
  Proof.
    intros Hn. unfold canon. destruct (str_eqb name n0) eqn:E.
    - apply SemverProofs.str_eqb_eq in E. subst n0. rewrite assoc_ins_same.
      pose proof (ni_total _ _ _ I name Hn) as Ht. unfold canon in Ht.
      destruct (assoc name rd) as [b|] eqn:Eb; [|contradiction].
      destruct (ni_rd _ _ _ I _ _ Eb) as [_ [Hb [_ Cb]]].
      apply (ni_one _ _ _ I); auto. { eapply assoc_in_keys; eauto. }
      rewrite compat_sym in Hc. apply (compat_trans _ _ _ Hc Cb).
    - apply SemverProofs.str_eqb_neq in E. now rewrite assoc_ins_other.
  Qed.

  Lemma rename_high_track n0 : In n0 names ->
    assoc (canon (ins en name (map (retarget en name) rd)) n0) (ins name ek (rem en imports)) = assoc (canon rd n0) imports.
  Proof.
    intros Hn. pose proof (ni_total _ _ _ I n0 Hn) as Ht.
    assert (Hnr : assoc name (rem en imports) = None).
    { apply assoc_none_keys. intros X. apply in_keys_rem in X; auto. tauto. }
    assert (Hmoved : assoc name (ins name ek (rem en imports)) = assoc en imports) by (rewrite assoc_ins_same; auto).
    assert (Hother : forall c0, In c0 (map fst imports) -> c0 <> en ->
                                assoc c0 (ins name ek (rem en imports)) = assoc c0 imports).
    { intros c0 Hc0 N. rewrite assoc_ins_other; [|intros X; apply Hnin; now rewrite X]. apply assoc_rem_other. congruence. }
    unfold canon in *. destruct (str_eqb en n0) eqn:E.
    - apply SemverProofs.str_eqb_eq in E. subst n0. rewrite (assoc_ins_same en).
      assert (assoc en rd = None) as ->.
      { destruct (assoc en rd) eqn:X; auto. apply (ni_rd _ _ _ I) in X. exfalso. apply X. eapply assoc_in_keys; eauto. }
      exact Hmoved.
    - apply SemverProofs.str_eqb_neq in E. rewrite (assoc_ins_other en n0) by auto. rewrite assoc_map_retarget.
      destruct (assoc n0 rd) as [b|] eqn:Eb.
      + destruct (str_eqb b en) eqn:Ebe.
        * apply SemverProofs.str_eqb_eq in Ebe. subst b. exact Hmoved.
        * apply SemverProofs.str_eqb_neq in Ebe. now apply Hother.
      + apply Hother; auto.
  Qed.
End Rename.

(** * The invariant of flat histories *)
Section Hist.
  Variable ord : list (str * id) -> list (str * id).
  Variables (cf fuel : nat).
  Variable Col : types -> Prop.
  Hypothesis Col_same : forall t1 t2, Col t1 -> Col t2 -> t_tag t1 = t_tag t2 -> t1 = t2.
  Variable tag0 : N.
  Hypothesis Col_tag : forall t, Col t -> t_tag t <> tag0.

  Notation contrib := (str * (types * kind))%type.
  Definition flat_contrib (c : contrib) : Prop :=
    Col (fst (snd c)) /\ owner_free (fst (snd c)) /\
    exists i x, snd (snd c) = KInstance i /\ get_if (fst (snd c)) i = Some x /\ flat_if (fst (snd c)) x.
  Definition ckey (c : contrib) : ty := ty_of (snd (snd c)).

  (** every export of contribution [c] is offered, with its tree, by the import its name leads to *)
  Definition carried (a : agg) (c : contrib) : Prop :=
    forall i x, snd (snd c) = KInstance i -> get_if (fst (snd c)) i = Some x ->
      exists y exs, assoc (Aggregator.canonical a (fst c)) (a_imports a) = Some (KInstance y) /\
                    get_if (a_types a) y = Some (mkif None [] exs) /\
                    forall en ek tr, In (en, ek) (i_exports x) -> UnfK (fst (snd c)) ek tr ->
                                     exists k', assoc en exs = Some k' /\ UnfK (a_types a) k' tr.

  Record HInv (a : agg) (s : st) (done : list contrib) : Prop := {
    h_names : NInv (map fst (a_imports a)) (a_redirects a) (map fst done);
    h_minv : MInv Col tag0 (core_of a s);
    h_flat : forall n k, In (n, k) (a_imports a) ->
                         exists y exs, k = KInstance y /\ get_if (a_types a) y = Some (mkif None [] exs) /\
                                       flat_exports (a_types a) exs;
    h_distinct : NoDup (map (fun nk : str * kind => kidx (snd nk)) (a_imports a));
    h_ifkeys : forall i v, rm_get (TInterface i) (a_remapped a) = Some v -> In (TInterface i) (map ckey done);
    h_carried : forall c, In c done -> carried a c }.

  Lemma HInv_nil : HInv (agg0 tag0) st0 [].
  Proof.
    split; cbn; try tauto; try discriminate.
    - apply NInv_nil.
    - split; cbn; auto; intros ? ? H; try discriminate; contradiction.
    - constructor.
  Qed.

  Lemma get_if_tag T y z : get_if T y = Some z -> id_tag y = t_tag T /\ (id_idx y < length (t_interfaces T))%nat.
  Proof.
    unfold get_if, lookup. destruct (id_tag y =? t_tag T) eqn:E; [|discriminate]. intros H. split; [now apply N.eqb_eq|].
    apply nth_error_Some. congruence.
  Qed.
  Lemma id_eq_of y1 y2 : id_tag y1 = id_tag y2 -> id_idx y1 = id_idx y2 -> y1 = y2.
  Proof. destruct y1, y2. cbn. congruence. Qed.

  Lemma MInv_imports c im : MInv Col tag0 c -> MInv Col tag0 (with_imports c im).
  Proof. intros [A B C]. split; auto. Qed.

  (** the three ways an aggregation succeeds *)
  Lemma aggregate_cases a s name t k a' s' :
    aggregate ord cf fuel a s name t k = AOk (a', s') ->
    (exists existing c, assoc name (a_imports a) = Some existing /\
                        merge_item_kind ord cf fuel existing t k (core_of a s) = AOk (tt, c) /\
                        a' = agg_of c (c_imports c) (a_redirects a) /\ s' = c_chk c) \/
    (exists en ek c im rd, assoc name (a_imports a) = None /\ find_compat name (a_imports a) = Some (en, ek) /\
                           merge_item_kind ord cf fuel ek t k (core_of a s) = AOk (tt, c) /\
                           rename (c_imports c) (a_redirects a) name en = Some (im, rd) /\
                           a' = agg_of c im rd /\ s' = c_chk c) \/
    (exists k' c, assoc name (a_imports a) = None /\ find_compat name (a_imports a) = None /\
                  remap_item_kind ord cf fuel t k (core_of a s) = AOk (k', c) /\ has_key name (c_imports c) = false /\
                  a' = agg_of c (ins name k' (c_imports c)) (a_redirects a) /\ s' = c_chk c).
  Proof.
    unfold aggregate. destruct (assoc name (a_imports a)) as [existing|] eqn:Ea.
    - destruct (merge_item_kind ord cf fuel existing t k (core_of a s)) as [[[] c]| | |] eqn:Em; try discriminate.
      intros H. injection H as <- <-. left. exists existing, c. auto.
    - destruct (find_compat name (a_imports a)) as [[en ek]|] eqn:Ef.
      + destruct (merge_item_kind ord cf fuel ek t k (core_of a s)) as [[[] c]| | |] eqn:Em; try discriminate.
        destruct (rename (c_imports c) (a_redirects a) name en) as [[im rd]|] eqn:Er; try discriminate.
        intros H. injection H as <- <-. right. left. exists en, ek, c, im, rd. auto 10.
      + destruct (remap_item_kind ord cf fuel t k (core_of a s)) as [[k' c]| | |] eqn:Em; try discriminate.
        destruct (has_key name (c_imports c)) eqn:Eh; try discriminate.
        intros H. injection H as <- <-. right. right. exists k', c. auto 10.
  Qed.

  (** flat interfaces of the aggregator only grow, and keep the trees of their exports *)
  Definition grows (T T' : types) : Prop :=
    forall y0 exs0, get_if T y0 = Some (mkif None [] exs0) -> flat_exports T exs0 ->
      exists exs0', get_if T' y0 = Some (mkif None [] exs0') /\ flat_exports T' exs0' /\
                    forall en k tr, assoc en exs0 = Some k -> UnfK T k tr ->
                                    exists k', assoc en exs0' = Some k' /\ UnfK T' k' tr.

  Lemma grows_unchanged T T' :
    ext T T' -> (forall j z, get_if T j = Some z -> get_if T' j = Some z) -> grows T T'.
  Proof.
    intros E Hsame y0 exs0 Hg Hf. exists exs0. split; [now apply Hsame|]. split; [eapply flat_exports_ext; eauto|].
    intros en k tr Ha Hu. exists k. split; auto. destruct Hf as [_ Hall]. destruct (Hall en k (assoc_in _ _ _ Ha)) as [L _].
    eapply UnfK_leaf_ext; eauto.
  Qed.

  Lemma grows_merge y c c' exs exs' :
    LoopSt Col tag0 y c exs -> LoopSt Col tag0 y c' exs' -> Frame y c c' ->
    (forall n k tr, assoc n exs = Some k -> UnfK (c_types c) k tr -> exists k', assoc n exs' = Some k' /\ UnfK (c_types c') k' tr) ->
    grows (c_types c) (c_types c').
  Proof.
    intros L L' Fr Old y0 exs0 Hg Hf. destruct (Nat.eq_dec (id_idx y0) (id_idx y)) as [E|N].
    - assert (y0 = y) as ->.
      { apply id_eq_of; auto. destruct (get_if_tag _ _ _ Hg) as [T0 _]. destruct (get_if_tag _ _ _ (ls_get _ _ _ _ _ L)) as [T1 _]. congruence. }
      rewrite (ls_get _ _ _ _ _ L) in Hg. injection Hg as <-. exists exs'. split; [apply (ls_get _ _ _ _ _ L')|].
      split; [apply (ls_flat _ _ _ _ _ L')|]. exact Old.
    - exists exs0. split; [rewrite (fr_other _ _ _ Fr); auto|]. split; [eapply flat_exports_ext; [apply Fr|exact Hf]|].
      intros en k tr Ha Hu. exists k. split; auto. destruct Hf as [_ Hall]. destruct (Hall en k (assoc_in _ _ _ Ha)) as [Lk _].
      eapply UnfK_leaf_ext; [apply Fr|auto|exact Hu].
  Qed.

  (** a contribution stays carried when its import's kind is tracked and interfaces only grow *)
  Lemma carried_step a a' c0 :
    (forall n k, In (n, k) (a_imports a) ->
                 exists y exs, k = KInstance y /\ get_if (a_types a) y = Some (mkif None [] exs) /\ flat_exports (a_types a) exs) ->
    assoc (Aggregator.canonical a' (fst c0)) (a_imports a') = assoc (Aggregator.canonical a (fst c0)) (a_imports a) ->
    grows (a_types a) (a_types a') -> carried a c0 -> carried a' c0.
  Proof.
    intros Hflat Htrack Hgrow Hc i x Hk Hg. destruct (Hc i x Hk Hg) as [y [exs [Ha [Hy Hex]]]].
    destruct (Hflat _ _ (assoc_in _ _ _ Ha)) as [y1 [exs1 [Ey [Hy1 Hf1]]]]. injection Ey as <-.
    rewrite Hy in Hy1. injection Hy1 as <-.
    destruct (Hgrow y exs Hy Hf1) as [exs' [Hy' [Hf' Hold]]].
    exists y, exs'. split; [now rewrite Htrack|]. split; auto.
    intros en ek tr Hin Hu. destruct (Hex en ek tr Hin Hu) as [k1 [A1 U1]]. apply (Hold _ _ _ A1 U1).
  Qed.

  Lemma MInv_core_of c im rd : MInv Col tag0 c -> MInv Col tag0 (core_of (agg_of c im rd) (c_chk c)).
  Proof. intros [A B C]. split; auto. Qed.

  Lemma flat_contrib_inv c : flat_contrib c ->
    exists i x, snd (snd c) = KInstance i /\ get_if (fst (snd c)) i = Some x /\ flat_if (fst (snd c)) x /\ ckey c = TInterface i.
  Proof. intros [_ [_ [i [x [E [G F]]]]]]. exists i, x. unfold ckey. rewrite E. auto. Qed.

  (** merging a flat contribution into the (flat) import [(n_e, KInstance y)] *)
  Lemma merge_into a s done c y exs cc :
    HInv a s done -> flat_contrib c ->
    get_if (a_types a) y = Some (mkif None [] exs) -> flat_exports (a_types a) exs ->
    merge_item_kind ord cf fuel (KInstance y) (fst (snd c)) (snd (snd c)) (core_of a s) = AOk (tt, cc) ->
    MInv Col tag0 cc /\ c_imports cc = a_imports a /\ grows (a_types a) (c_types cc) /\
    (forall i0, rm_get (TInterface i0) (c_remapped cc) = rm_get (TInterface i0) (a_remapped a)) /\
    exists exs', get_if (c_types cc) y = Some (mkif None [] exs') /\
      forall i x, snd (snd c) = KInstance i -> get_if (fst (snd c)) i = Some x ->
        forall en ek tr, In (en, ek) (i_exports x) -> UnfK (fst (snd c)) ek tr ->
                         exists k', assoc en exs' = Some k' /\ UnfK (c_types cc) k' tr.
  Proof.
    intros HI Hfc Hy Hf H. destruct Hfc as [Ct [OF [i [x [Ek [Hg Hfl]]]]]]. rewrite Ek in H. cbn [merge_item_kind] in H.
    assert (L : LoopSt Col tag0 y (core_of a s) exs) by (split; [apply (h_minv _ _ _ HI)|exact Hy|exact Hf]).
    destruct (merge_interface_flat ord cf Col Col_same tag0 Col_tag fuel y _ i x _ cc exs Ct Hg Hfl L H)
      as [exs' [L' [Fr [K [New Old]]]]].
    split; [apply (ls_inv _ _ _ _ _ L')|]. split; [apply (fr_imports _ _ _ Fr)|].
    split; [apply (grows_merge y _ _ exs exs' L L' Fr Old)|]. split; [apply (fr_noif _ _ _ Fr)|].
    exists exs'. split; [apply (ls_get _ _ _ _ _ L')|].
    intros i0 x0 E0 G0. rewrite Ek in E0. injection E0 as <-. rewrite Hg in G0. injection G0 as <-. exact New.
  Qed.

  Lemma HInv_assemble a s done c cc im rd' :
    HInv a s done -> NInv (map fst im) rd' (fst c :: map fst done) -> MInv Col tag0 cc ->
    grows (a_types a) (c_types cc) ->
    (forall i0 v, rm_get (TInterface i0) (c_remapped cc) = Some v ->
                  rm_get (TInterface i0) (a_remapped a) = Some v \/ TInterface i0 = ckey c) ->
    (forall n k, In (n, k) im -> exists y exs, k = KInstance y /\ get_if (c_types cc) y = Some (mkif None [] exs) /\
                                               flat_exports (c_types cc) exs) ->
    NoDup (map (fun nk : str * kind => kidx (snd nk)) im) ->
    (forall n0, In n0 (map fst done) -> assoc (canon rd' n0) im = assoc (canon (a_redirects a) n0) (a_imports a)) ->
    carried (agg_of cc im rd') c ->
    HInv (agg_of cc im rd') (c_chk cc) (c :: done).
  Proof.
    intros HI I' M G K Fl D Tr Cn. split; cbn [a_imports a_redirects a_types a_remapped agg_of map fst].
    - exact I'.
    - now apply MInv_core_of.
    - exact Fl.
    - exact D.
    - intros i0 v Hv. destruct (K i0 v Hv) as [X|X]; [right; apply (h_ifkeys _ _ _ HI _ _ X) | left; now rewrite X].
    - intros c0 [<-|Hc0]; [exact Cn|].
      apply (carried_step a); [apply (h_flat _ _ _ HI) | | exact G | now apply (h_carried _ _ _ HI)].
      apply Tr. now apply in_map.
  Qed.

  Lemma kinds_grow a s done cc :
    HInv a s done -> grows (a_types a) (c_types cc) ->
    forall n k, In (n, k) (a_imports a) ->
      exists y exs, k = KInstance y /\ get_if (c_types cc) y = Some (mkif None [] exs) /\ flat_exports (c_types cc) exs.
  Proof.
    intros HI G n k Hin. destruct (h_flat _ _ _ HI n k Hin) as [y [exs [-> [Hy Hf]]]].
    destruct (G y exs Hy Hf) as [exs' [Hy' [Hf' _]]]. eauto.
  Qed.

  Lemma HInv_step a s done c a' s' :
    HInv a s done -> flat_contrib c -> ~ In (ckey c) (map ckey done) ->
    aggregate ord cf fuel a s (fst c) (fst (snd c)) (snd (snd c)) = AOk (a', s') ->
    HInv a' s' (c :: done).
  Proof.
    intros HI Hfc Hnew H. destruct c as [name [t k]]. cbn [fst snd] in *.
    pose proof Hfc as [Ct [OF _]]. cbn [fst snd] in Ct, OF.
    pose proof (h_names _ _ _ HI) as I0.
    pose proof (aggregate_NStep ord cf fuel a s name t k a' s' OF (ni_nodup _ _ _ I0) H) as NS.
    pose proof (NStep_preserves _ _ _ _ _ _ I0 NS) as I'.
    apply aggregate_cases in H as [[existing [cc [Ea [Hm [-> ->]]]]] | [[en [ek [cc [im [rd' [Ea [Ef [Hm [Hr [-> ->]]]]]]]]]] | [k' [cc [Ea [Ef [Hm [Hh [-> ->]]]]]]]]].
    - (* the name is an import already *)
      destruct (h_flat _ _ _ HI name existing (assoc_in _ _ _ Ea)) as [y [exs [-> [Hy Hf]]]].
      destruct (merge_into a s done (name, (t, k)) y exs cc HI Hfc Hy Hf Hm) as [M [Him [G [Kf [exs' [Hy' New]]]]]].
      cbn [a_imports a_redirects agg_of] in I'. apply (HInv_assemble a s); auto.
      + intros i0 v Hv. left. now rewrite <- Kf.
      + rewrite Him. now apply (kinds_grow a s done).
      + rewrite Him. apply (h_distinct _ _ _ HI).
      + intros n0 _. now rewrite Him.
      + intros i x Ek Hg. exists y, exs'. rewrite canonical_canon. cbn [a_imports a_redirects a_types agg_of fst snd].
        rewrite (canon_key _ _ _ name I0 (assoc_in_keys _ _ _ Ea)). rewrite Him.
        split; auto. split; auto. exact (New i x Ek Hg).
    - (* a semver-compatible import *)
      assert (Hen : In (en, ek) (a_imports a) /\ compat name en = true).
      { unfold find_compat in Ef. destruct (alt_key name) as [[ak nv]|] eqn:An; [|discriminate].
        apply find_on_track_some in Ef as [Hin [ev Ae]]. split; auto. apply (compat_same_key _ _ _ _ _ _ An Ae). reflexivity. }
      destruct Hen as [Hin Hcompat].
      assert (Hek : assoc en (a_imports a) = Some ek) by (apply in_assoc; [apply (ni_nodup _ _ _ I0)|exact Hin]).
      assert (Hnin : ~ In name (map fst (a_imports a))) by now apply assoc_none_keys.
      destruct (h_flat _ _ _ HI en ek Hin) as [y [exs [-> [Hy Hf]]]].
      destruct (merge_into a s done (name, (t, k)) y exs cc HI Hfc Hy Hf Hm) as [M [Him [G [Kf [exs' [Hy' New]]]]]].
      rewrite Him in Hr. unfold rename in Hr.
      destruct (alt_key name) as [[ak nv]|]; [|discriminate]. destruct (alt_key en) as [[ak' ev]|]; [|discriminate].
      destruct (version_gtb nv ev).
      + (* the new name takes over *)
        rewrite Hek in Hr. injection Hr as <- <-. cbn [a_imports a_redirects agg_of] in I'.
        apply (HInv_assemble a s); auto.
        * intros i0 v Hv. left. now rewrite <- Kf.
        * intros n0 k0 Hk0. apply in_ins in Hk0 as [[-> ->]|Hk0]; [now apply (kinds_grow a s done cc HI G en)|].
          apply in_rem in Hk0. now apply (kinds_grow a s done cc HI G n0).
        * assert (Hnr : assoc name (rem en (a_imports a)) = None).
          { apply assoc_none_keys. intros X. apply in_keys_rem in X; [tauto|apply (ni_nodup _ _ _ I0)]. }
          rewrite (ins_new_app _ _ _ Hnr), map_app. cbn [map snd kidx].
          pose proof (rem_perm en (KInstance y) _ (ni_nodup _ _ _ I0) Hek) as P.
          apply (Permutation_map (fun nk : str * kind => kidx (snd nk))) in P.
          pose proof (Permutation_NoDup P (h_distinct _ _ _ HI)) as ND. cbn [map snd kidx] in ND.
          eapply Permutation_NoDup; [|exact ND]. apply Permutation_cons_append.
        * intros n0 Hn0. apply (rename_high_track _ _ _ I0 name en (KInstance y) Hnin Hek); auto.
        * intros i x Ek Hg. exists y, exs'. rewrite canonical_canon. cbn [a_imports a_redirects a_types agg_of fst snd].
          assert (Hk' : In name (map fst (ins name (KInstance y) (rem en (a_imports a))))).
          { eapply assoc_in_keys. apply assoc_ins_same. }
          rewrite (canon_key _ _ _ name I' Hk'). rewrite assoc_ins_same. split; auto. split; auto. exact (New i x Ek Hg).
      + (* the existing name stays *)
        injection Hr as <- <-. cbn [a_imports a_redirects agg_of] in I'.
        apply (HInv_assemble a s); auto.
        * intros i0 v Hv. left. now rewrite <- Kf.
        * now apply (kinds_grow a s done).
        * apply (h_distinct _ _ _ HI).
        * intros n0 Hn0. now rewrite (rename_low_track _ _ _ I0 name en (KInstance y) Hnin Hek Hcompat n0 Hn0).
        * intros i x Ek Hg. exists y, exs'. rewrite canonical_canon. cbn [a_imports a_redirects a_types agg_of fst snd].
          unfold canon. rewrite assoc_ins_same. split; auto. split; auto. exact (New i x Ek Hg).
    - (* a new import *)
      destruct (flat_contrib_inv _ Hfc) as [i [x [Ek [Hg [Hfl Eck]]]]]. cbn [fst snd] in Ek, Hg, Hfl. subst k.
      destruct fuel as [|f]; [discriminate|]. cbn [remap_item_kind] in Hm.
      apply bindM_ok in Hm as [y [c1 [H1 H2]]]. apply ret_ok in H2 as [-> ->].
      assert (Hnone : rm_get (TInterface i) (c_remapped (core_of a s)) = None).
      { cbn [c_remapped core_of]. destruct (rm_get (TInterface i) (a_remapped a)) eqn:X; auto.
        apply (h_ifkeys _ _ _ HI) in X. rewrite <- Eck in X. contradiction. }
      destruct (remap_interface_flat ord cf Col Col_same tag0 f t i x _ y c1 Ct Hg Hfl (h_minv _ _ _ HI) Hnone H1)
        as [exs [L [Hidx [K [New [E [Him [Hif [Hsame [Hoth Hthis]]]]]]]]]].
      cbn [c_types c_imports c_ifaces c_remapped core_of] in *.
      assert (G : grows (a_types a) (c_types c1)) by (apply grows_unchanged; auto).
      rewrite Him in *. cbn [a_imports a_redirects agg_of] in I'.
      assert (Hnin : ~ In name (map fst (a_imports a))) by now apply assoc_none_keys.
      apply (HInv_assemble a s); auto.
      + apply (ls_inv _ _ _ _ _ L).
      + intros i0 v Hv. destruct (id_eqb i0 i) eqn:Ei.
        * apply ideqb_eq in Ei. subst i0. right. now rewrite Eck.
        * left. rewrite <- Hoth; auto. intros ->. rewrite ideqb_refl in Ei. discriminate.
      + intros n0 k0 Hk0. apply in_ins in Hk0 as [[-> ->]|Hk0]; [|now apply (kinds_grow a s done c1 HI G n0)].
        exists y, exs. split; auto. split; [apply (ls_get _ _ _ _ _ L) | apply (ls_flat _ _ _ _ _ L)].
      + rewrite (ins_new_app _ _ _ Ea), map_app. cbn [map snd kidx]. apply NoDup_app_one_tail; [apply (h_distinct _ _ _ HI)|].
        intros X. apply in_map_iff in X as [[n0 k0] [E0 Hin0]]. cbn [snd] in E0.
        destruct (h_flat _ _ _ HI n0 k0 Hin0) as [y0 [exs0 [-> [Hy0 _]]]]. cbn [kidx] in E0.
        destruct (get_if_tag _ _ _ Hy0) as [_ Hlt]. lia.
      + intros n0 Hn0. rewrite assoc_ins_other; auto. intros X. apply Hnin. rewrite X. apply (ni_total _ _ _ I0). exact Hn0.
      + intros i1 x1 Ek1 Hg1. cbn [fst snd] in *. injection Ek1 as <-. rewrite Hg in Hg1. injection Hg1 as <-.
        exists y, exs. rewrite canonical_canon. cbn [a_imports a_redirects a_types agg_of fst snd].
        assert (Hk' : In name (map fst (ins name (KInstance y) (a_imports a)))).
        { eapply assoc_in_keys. apply assoc_ins_same. }
        rewrite (canon_key _ _ _ name I' Hk'). rewrite assoc_ins_same. split; auto. split; [apply (ls_get _ _ _ _ _ L)|].
        exact New.
  Qed.

  (** ** Whole histories *)
  Lemma HInv_history : forall l a s pos done a' s',
    HInv a s done -> Forall flat_contrib l -> NoDup (map ckey l) ->
    (forall c, In c l -> ~ In (ckey c) (map ckey done)) ->
    aggregate_all ord cf fuel a s l pos = inl (a', s') -> HInv a' s' (rev l ++ done).
  Proof.
    induction l as [|[name [t k]] l IH]; intros a s pos done a' s' HI HF ND Hd H; cbn [aggregate_all] in H.
    - injection H as <- <-. exact HI.
    - inversion HF as [|? ? Hc HF']; subst. cbn [map] in ND. inversion ND as [|? ? Hn ND']; subst.
      destruct (aggregate ord cf fuel a s name t k) as [[a1 s1]| | |] eqn:E; try discriminate.
      pose proof (HInv_step a s done (name, (t, k)) a1 s1 HI Hc (Hd _ (or_introl eq_refl)) E) as H1.
      cbn [rev]. rewrite <- app_assoc. cbn [app]. eapply IH; eauto.
      intros c0 Hc0 [X|X]; [apply Hn; rewrite X; now apply in_map | exact (Hd c0 (or_intror Hc0) X)].
  Qed.

  (** the tree of a flat interface of the aggregator *)
  Lemma UnfK_mono T k tr g g' : (g <= g')%nat -> unfold g T k = Some tr -> unfold g' T k = Some tr.
  Proof. apply unfold_mono. Qed.
  Lemma flat_exports_unfold T exs :
    flat_exports T exs -> exists g e, map_snd (unfold g T) exs = Some e.
  Proof.
    intros [_ Hall]. induction exs as [|[n k] exs IH].
    - exists O, []. reflexivity.
    - destruct IH as [g1 [e1 H1]]; [intros n0 k0 Hin0; apply (Hall n0 k0); now right|].
      destruct (Hall n k (or_introl eq_refl)) as [_ [tr [[g2 H2] _]]].
      exists (Nat.max g1 g2), ((n, tr) :: e1). unfold map_snd in *. cbn [map all_some fst snd].
      rewrite (UnfK_mono _ _ _ g2 _ (Nat.le_max_r g1 g2) H2).
      assert (X : all_some (map (fun kv : str * kind => match unfold (Nat.max g1 g2) T (snd kv) with
                                                        | Some y => Some (fst kv, y) | None => None end) exs) = Some e1).
      { apply (map_snd_ext (unfold g1 T) (unfold (Nat.max g1 g2) T) exs e1); [|exact H1].
        intros x y. apply UnfK_mono. apply Nat.le_max_l. }
      now rewrite X.
  Qed.
  Lemma flat_inst T y exs :
    get_if T y = Some (mkif None [] exs) -> flat_exports T exs ->
    exists e, UnfK T (KInstance y) (XInst e) /\
              forall n k tr, assoc n exs = Some k -> UnfK T k tr -> assoc n e = Some tr.
  Proof.
    intros Hy Hf. destruct (flat_exports_unfold T exs Hf) as [g [e He]]. exists e. split.
    - exists (S g). cbn [unfold]. rewrite Hy. cbn [i_exports]. now rewrite He.
    - intros n k tr Ha [g' Hu]. rewrite (map_snd_assoc _ _ _ n He), Ha.
      apply (UnfK_mono _ _ _ g' (Nat.max g g')) in Hu; [|apply Nat.le_max_r].
      destruct (unfold g T k) as [tr'|] eqn:E.
      + apply (UnfK_mono _ _ _ g (Nat.max g g')) in E; [|apply Nat.le_max_l]. congruence.
      + exfalso. destruct Hf as [_ Hall]. apply map_snd_inv in He.
        clear -He Ha E. induction He as [|[n1 k1] [n2 t2] l l' [En Hu] _ IH]; cbn [assoc] in Ha; [discriminate|].
        cbn [fst snd] in *. destruct (str_eqb n n1); [injection Ha as <-; congruence | auto].
  Qed.

  (** the declarative relation is reflexive on resource-free leaf trees *)
  Lemma leaf_tree_refl T k tr : leafk k = true -> UnfK T k tr -> resfree tr = true -> SubCM tr tr.
  Proof.
    intros L Hu Hr. apply (UnfK_leaf_inv _ _ _ L) in Hu.
    assert (HV : forall v, vt_resfree v = true -> VSub NoRes v v).
    { intros v Hv. apply (VSub_change eq NoRes v v (or_introl Hv)). apply VSub_eq_refl. }
    destruct k as [[| |v| | |]|i| | | |v]; try discriminate L.
    - destruct Hu as [vt [-> _]]. cbn [resfree] in Hr. constructor. now apply HV.
    - destruct Hu as [ft [-> _]]. cbn [resfree] in Hr. constructor.
      apply (FSub_change eq NoRes ft ft (or_introl Hr)). now apply FSub_eq_iff.
    - destruct Hu as [vt [-> _]]. cbn [resfree] in Hr. constructor. now apply HV.
  Qed.

  (** * The merged requirement satisfies every contributor (flat histories) *)
  Theorem flat_upper_bound l a s :
    Forall flat_contrib l -> NoDup (map ckey l) ->
    aggregate_all ord cf fuel (agg0 tag0) st0 l 0 = inl (a, s) ->
    forall c, In c l -> forall tr, UnfK (fst (snd c)) (snd (snd c)) tr ->
      exists merged tm, assoc (Aggregator.canonical a (fst c)) (imports a) = Some merged /\
                        UnfK (a_types a) merged tm /\ SubCM tm tr.
  Proof.
    intros HF ND H c Hc tr Hu.
    pose proof (HInv_history l _ _ _ [] a s HInv_nil HF ND (fun _ _ X => X) H) as HI. rewrite app_nil_r in HI.
    assert (Hfc : flat_contrib c) by (rewrite Forall_forall in HF; auto).
    destruct Hfc as [Ct [_ [i [x [Ek [Hg [_ [_ [NDx Hall]]]]]]]]].
    destruct (h_carried _ _ _ HI c (proj1 (in_rev _ _) Hc) i x Ek Hg) as [y [exs [Ha [Hy Hex]]]].
    destruct (h_flat _ _ _ HI _ _ (assoc_in _ _ _ Ha)) as [y1 [exs1 [Ey [Hy1 Hf1]]]]. injection Ey as <-.
    rewrite Hy in Hy1. injection Hy1 as <-.
    destruct (flat_inst _ _ _ Hy Hf1) as [e [Ue He]].
    exists (KInstance y), (XInst e). split; [exact Ha|]. split; [exact Ue|].
    rewrite Ek in Hu. destruct Hu as [g Hu]. destruct g as [|g]; [discriminate|]. cbn [unfold] in Hu. rewrite Hg in Hu.
    destruct (map_snd (unfold g (fst (snd c))) (i_exports x)) as [er|] eqn:Er; [|discriminate]. injection Hu as <-.
    constructor. intros k b Hin. destruct (map_snd_in _ _ _ _ _ Er Hin) as [ek [Hek Hb]].
    destruct (Hex k ek b Hek (ex_intro _ g Hb)) as [k' [Ak Uk]].
    exists b. split; [apply (He _ _ _ Ak Uk)|].
    destruct (Hall k ek Hek) as [Lk [tr0 [U0 R0]]].
    assert (tr0 = b) as <- by (eapply UnfK_leaf_indep; [| |exact U0|exists g; exact Hb]; auto).
    eapply leaf_tree_refl; eauto.
  Qed.

  (** ... and the export names of a merge step are the union, in first-seen order *)
  Theorem flat_merge_is_union a s done c a' s' y exs :
    HInv a s done -> flat_contrib c ->
    (assoc (fst c) (a_imports a) = Some (KInstance y) \/
     (assoc (fst c) (a_imports a) = None /\ exists en, find_compat (fst c) (a_imports a) = Some (en, KInstance y))) ->
    get_if (a_types a) y = Some (mkif None [] exs) ->
    aggregate ord cf fuel a s (fst c) (fst (snd c)) (snd (snd c)) = AOk (a', s') ->
    forall i x, snd (snd c) = KInstance i -> get_if (fst (snd c)) i = Some x ->
      exists exs', get_if (a_types a') y = Some (mkif None [] exs') /\
                   map fst exs' = first_seen_union (map fst exs) (map fst (i_exports x)).
  Proof.
    intros HI Hfc Hwhere Hy H i x Ek Hg. destruct c as [name [t k]]. cbn [fst snd] in *.
    assert (Hf : flat_exports (a_types a) exs).
    { destruct Hwhere as [Ha|[_ [en Hf]]].
      - destruct (h_flat _ _ _ HI _ _ (assoc_in _ _ _ Ha)) as [y1 [exs1 [Ey [Hy1 Hf1]]]]. injection Ey as <-. congruence.
      - unfold find_compat in Hf. destruct (alt_key name) as [[ak nv]|]; [|discriminate].
        apply find_on_track_some in Hf as [Hin _].
        destruct (h_flat _ _ _ HI _ _ Hin) as [y1 [exs1 [Ey [Hy1 Hf1]]]]. injection Ey as <-. congruence. }
    pose proof Hfc as [Ct [_ [i0 [x0 [Ek0 [Hg0 Hfl]]]]]]. cbn [fst snd] in *. rewrite Ek in Ek0. injection Ek0 as <-.
    rewrite Hg in Hg0. injection Hg0 as <-.
    assert (L : LoopSt Col tag0 y (core_of a s) exs) by (split; [apply (h_minv _ _ _ HI)|exact Hy|exact Hf]).
    assert (Hmerge : forall cc, merge_item_kind ord cf fuel (KInstance y) t k (core_of a s) = AOk (tt, cc) ->
                                exists exs', get_if (c_types cc) y = Some (mkif None [] exs') /\
                                             map fst exs' = first_seen_union (map fst exs) (map fst (i_exports x))).
    { intros cc Hm. rewrite Ek in Hm. cbn [merge_item_kind] in Hm.
      destruct (merge_interface_flat ord cf Col Col_same tag0 Col_tag fuel y t i x _ cc exs Ct Hg Hfl L Hm)
        as [exs' [L' [_ [K _]]]].
      exists exs'. split; [apply (ls_get _ _ _ _ _ L') | exact K]. }
    apply aggregate_cases in H as [[existing [cc [Ea [Hm [-> ->]]]]] | [[en [ek [cc [im [rd' [Ea [Ef [Hm [Hr [-> ->]]]]]]]]]] | [k' [cc [Ea [Ef _]]]]]].
    - destruct Hwhere as [Ha|[Ha _]]; [|congruence]. rewrite Ea in Ha. injection Ha as ->. now apply Hmerge.
    - destruct Hwhere as [Ha|[_ [en' Hf']]]; [congruence|]. rewrite Ef in Hf'. injection Hf' as _ ->. now apply Hmerge.
    - destruct Hwhere as [Ha|[_ [en' Hf']]]; congruence.
  Qed.
End Hist.
