(** Histories of FLAT contributions: the invariant that ties every contribution to the import that carries it,
    and its consequences (the merged instance offers every export of every contributor, with the contributor's tree). *)
From Coq Require Import ZArith ZifyBool ZifyN Lia Permutation.
From WacV Require Import Str Names NamesSpec Types Checker SubSpec CheckerEq SubSpecProofs CheckerValue CheckerProofs.
From WacV Require Import Aggregator AggregatorSpec AggregatorFrame AggregatorRemap AggregatorChecker AggregatorNames
     AggregatorCanonical AggregatorFlat NamesProofs.

(** * Lists *)
Lemma assoc_rem_other {V} k k' (l : list (str * V)) : k <> k' -> assoc k' (rem k l) = assoc k' l.
Proof.
  intros N. induction l as [|[k2 v2] l IH]; cbn [rem assoc]; auto.
  destruct (str_eqb k k2) eqn:E.
  - apply SemverProofs.str_eqb_eq in E. subst k2. destruct (str_eqb k' k) eqn:E2; auto.
    apply SemverProofs.str_eqb_eq in E2. congruence.
  - cbn [assoc]. now rewrite IH.
Qed.
Lemma in_rem {V} k x (l : list (str * V)) : In x (rem k l) -> In x l.
Proof.
  induction l as [|[k2 v2] l IH]; cbn [rem]; auto. destruct (str_eqb k k2); cbn [In]; auto. intros [H|H]; auto.
Qed.
Lemma rem_perm {V} k (v : V) l : NoDup (map fst l) -> assoc k l = Some v -> Permutation l ((k, v) :: rem k l).
Proof.
  induction l as [|[k2 v2] l IH]; cbn [assoc rem map fst]; [discriminate|]. intros ND H.
  inversion ND as [|? ? Hn ND']; subst. destruct (str_eqb k k2) eqn:E.
  - apply SemverProofs.str_eqb_eq in E. subst k2. injection H as <-. apply Permutation_refl.
  - eapply perm_trans; [apply perm_skip, (IH ND' H)|]. apply perm_swap.
Qed.
Lemma ins_new_app {V} k (v : V) l : assoc k l = None -> ins k v l = l ++ [(k, v)].
Proof.
  induction l as [|[k2 v2] l IH]; cbn [assoc ins app]; auto. destruct (str_eqb k k2); [discriminate|].
  intros H. now rewrite IH.
Qed.

Lemma canonical_canon a n : Aggregator.canonical a n = canon (a_redirects a) n.
Proof. reflexivity. Qed.

Definition kidx (k : kind) : nat := match k with KInstance y => id_idx y | _ => O end.

Lemma canon_key keys rd names k : NInv keys rd names -> In k keys -> canon rd k = k.
Proof.
  intros I Hk. unfold canon. destruct (assoc k rd) as [b|] eqn:E; auto. apply (ni_rd _ _ _ I) in E. tauto.
Qed.

(** * Where the kind of a name's import goes under [rename] *)
Section Rename.
  Variables (imports : list (str * kind)) (rd : list (str * str)) (names : list str).
  Hypothesis I : NInv (map fst imports) rd names.
  Variables (name en : str) (ek : kind).
  Hypothesis Hnin : ~ In name (map fst imports).
  Hypothesis Hen : assoc en imports = Some ek.
  Hypothesis Hc : compat name en = true.

  Let ND : NoDup (map fst imports) := ni_nodup _ _ _ I.
  Let Hne : name <> en.
  Proof. intros ->. apply Hnin. eapply assoc_in_keys; eauto. Qed.

  Lemma rename_low_track n0 : In n0 names -> canon (ins name en rd) n0 = canon rd n0.
  Proof.
    intros Hn. unfold canon. destruct (str_eqb name n0) eqn:E.
    - apply SemverProofs.str_eqb_eq in E. subst n0. rewrite assoc_ins_same.
      pose proof (ni_total _ _ _ I name Hn) as Ht. unfold canon in Ht.
      destruct (assoc name rd) as [b|] eqn:Eb; [|contradiction].
      destruct (ni_rd _ _ _ I _ _ Eb) as [_ [Hb [_ Cb]]].
      apply (ni_one _ _ _ I); auto. { eapply assoc_in_keys; eauto. }
      rewrite compat_sym in Hc. apply (compat_trans _ _ _ Hc Cb).
    - apply SemverProofs.str_eqb_neq in E. now rewrite assoc_ins_other.
  Qed.

  Lemma rename_high_track n0 : In n0 names ->
    assoc (canon (ins en name (map (retarget en name) rd)) n0) (ins name ek (rem en imports)) = assoc (canon rd n0) imports.
  Proof.
    intros Hn. pose proof (ni_total _ _ _ I n0 Hn) as Ht.
    assert (Hnr : assoc name (rem en imports) = None).
    { apply assoc_none_keys. intros X. apply in_keys_rem in X; auto. tauto. }
    assert (Hmoved : assoc name (ins name ek (rem en imports)) = assoc en imports) by (rewrite assoc_ins_same; auto).
    assert (Hother : forall c0, In c0 (map fst imports) -> c0 <> en ->
                                assoc c0 (ins name ek (rem en imports)) = assoc c0 imports).
    { intros c0 Hc0 N. rewrite assoc_ins_other; [|intros X; apply Hnin; now rewrite X]. apply assoc_rem_other. congruence. }
    unfold canon in *. destruct (str_eqb en n0) eqn:E.
    - apply SemverProofs.str_eqb_eq in E. subst n0. rewrite (assoc_ins_same en).
      assert (assoc en rd = None) as ->.
      { destruct (assoc en rd) eqn:X; auto. apply (ni_rd _ _ _ I) in X. exfalso. apply X. eapply assoc_in_keys; eauto. }
      exact Hmoved.
    - apply SemverProofs.str_eqb_neq in E. rewrite (assoc_ins_other en n0) by auto. rewrite assoc_map_retarget.
      destruct (assoc n0 rd) as [b|] eqn:Eb.
      + destruct (str_eqb b en) eqn:Ebe.
        * apply SemverProofs.str_eqb_eq in Ebe. subst b. exact Hmoved.
        * apply SemverProofs.str_eqb_neq in Ebe. now apply Hother.
      + apply Hother; auto.
  Qed.
End Rename.

(** * The invariant of flat histories *)
Section Hist.
  Variable ord : list (str * id) -> list (str * id).
  Hypothesis ord_incl : forall l x, In x (ord l) -> In x l.
  Variables (cf fuel : nat).
  Variable Col : types -> Prop.
  Hypothesis Col_same : forall t1 t2, Col t1 -> Col t2 -> t_tag t1 = t_tag t2 -> t1 = t2.
  Variable tag0 : N.
  Hypothesis Col_tag : forall t, Col t -> t_tag t <> tag0.

  Notation contrib := (str * (types * kind))%type.
  Definition flat_contrib (c : contrib) : Prop :=
    Col (fst (snd c)) /\ owner_free (fst (snd c)) /\
    exists i x, snd (snd c) = KInstance i /\ get_if (fst (snd c)) i = Some x /\ flat_if (fst (snd c)) x /\
                (i_id x = None \/ i_id x = Some (fst c)).
  Definition ckey (c : contrib) : ty := ty_of (snd (snd c)).

  (** every export of contribution [c] is offered, with its tree, by the import its name leads to *)
  Definition carried (a : agg) (c : contrib) : Prop :=
    forall i x, snd (snd c) = KInstance i -> get_if (fst (snd c)) i = Some x ->
      exists y oid exs, assoc (Aggregator.canonical a (fst c)) (a_imports a) = Some (KInstance y) /\
                    get_if (a_types a) y = Some (mkif oid [] exs) /\
                    forall en ek tr, In (en, ek) (i_exports x) -> UnfK (fst (snd c)) ek tr ->
                                     exists k', assoc en exs = Some k' /\ UnfK (a_types a) k' tr.

  (** contribution [c] requires an export [en] with tree [tr] *)
  Definition exports_of (c : contrib) (en : str) (tr : tree) : Prop :=
    exists i x ek, snd (snd c) = KInstance i /\ get_if (fst (snd c)) i = Some x /\ In (en, ek) (i_exports x) /\
                   UnfK (fst (snd c)) ek tr.
  (** every export of every import comes from a contribution whose name leads to that import *)
  Definition justified (a : agg) (done : list contrib) : Prop :=
    forall n y oid exs, In (n, KInstance y) (a_imports a) -> get_if (a_types a) y = Some (mkif oid [] exs) ->
      forall en k' tr, assoc en exs = Some k' -> UnfK (a_types a) k' tr ->
        exists c, In c done /\ Aggregator.canonical a (fst c) = n /\ exports_of c en tr.

  Record HInv (a : agg) (s : st) (done : list contrib) : Prop := {
    h_names : NInv (map fst (a_imports a)) (a_redirects a) (map fst done);
    h_minv : MInv Col tag0 (core_of a s);
    h_flat : forall n k, In (n, k) (a_imports a) ->
                         exists y oid exs, k = KInstance y /\ get_if (a_types a) y = Some (mkif oid [] exs) /\
                                           flat_exports (a_types a) exs;
    h_ifaces : forall n1 y1, In (n1, y1) (a_ifaces a) -> In n1 (map fst done);
    h_distinct : NoDup (map (fun nk : str * kind => kidx (snd nk)) (a_imports a));
    h_ifkeys : forall i v, rm_get (TInterface i) (a_remapped a) = Some v -> In (TInterface i) (map ckey done);
    h_carried : forall c, In c done -> carried a c;
    h_just : justified a done }.

  Lemma HInv_nil : HInv (agg0 tag0) st0 [].
  Proof.
    split; cbn; try tauto; try discriminate.
    - apply NInv_nil.
    - split; cbn; auto; intros ? ? H; try discriminate; contradiction.
    - constructor.
    - intros n y oid exs [].
  Qed.

  Lemma get_if_tag T y z : get_if T y = Some z -> id_tag y = t_tag T /\ (id_idx y < length (t_interfaces T))%nat.
  Proof.
    unfold get_if, lookup. destruct (id_tag y =? t_tag T) eqn:E; [|discriminate]. intros H. split; [now apply N.eqb_eq|].
    apply nth_error_Some. congruence.
  Qed.
  Lemma id_eq_of y1 y2 : id_tag y1 = id_tag y2 -> id_idx y1 = id_idx y2 -> y1 = y2.
  Proof. destruct y1, y2. cbn. congruence. Qed.

  Lemma MInv_imports c im : MInv Col tag0 c -> MInv Col tag0 (with_imports c im).
  Proof. intros [A B C]. split; auto. Qed.

  (** the three ways an aggregation succeeds *)
  Lemma aggregate_cases a s name t k a' s' :
    aggregate ord cf fuel a s name t k = AOk (a', s') ->
    (exists existing c, assoc name (a_imports a) = Some existing /\
                        merge_item_kind ord cf fuel existing t k (core_of a s) = AOk (tt, c) /\
                        a' = agg_of c (c_imports c) (a_redirects a) /\ s' = c_chk c) \/
    (exists en ek c im rd, assoc name (a_imports a) = None /\ find_compat name (a_imports a) = Some (en, ek) /\
                           merge_item_kind ord cf fuel ek t k (core_of a s) = AOk (tt, c) /\
                           rename (c_imports c) (a_redirects a) name en = Some (im, rd) /\
                           a' = agg_of c im rd /\ s' = c_chk c) \/
    (exists k' c, assoc name (a_imports a) = None /\ find_compat name (a_imports a) = None /\
                  remap_item_kind ord cf fuel t k (core_of a s) = AOk (k', c) /\ has_key name (c_imports c) = false /\
                  a' = agg_of c (ins name k' (c_imports c)) (a_redirects a) /\ s' = c_chk c).
  Proof.
    unfold aggregate. destruct (assoc name (a_imports a)) as [existing|] eqn:Ea.
    - destruct (merge_item_kind ord cf fuel existing t k (core_of a s)) as [[[] c]| | |] eqn:Em; try discriminate.
      intros H. injection H as <- <-. left. exists existing, c. auto.
    - destruct (find_compat name (a_imports a)) as [[en ek]|] eqn:Ef.
      + destruct (merge_item_kind ord cf fuel ek t k (core_of a s)) as [[[] c]| | |] eqn:Em; try discriminate.
        destruct (rename (c_imports c) (a_redirects a) name en) as [[im rd]|] eqn:Er; try discriminate.
        intros H. injection H as <- <-. right. left. exists en, ek, c, im, rd. auto 10.
      + destruct (remap_item_kind ord cf fuel t k (core_of a s)) as [[k' c]| | |] eqn:Em; try discriminate.
        destruct (has_key name (c_imports c)) eqn:Eh; try discriminate.
        intros H. injection H as <- <-. right. right. exists k', c. auto 10.
  Qed.

  (** flat interfaces of the aggregator only grow, and keep the trees of their exports *)
  Definition grows (T T' : types) : Prop :=
    forall y0 oid exs0, get_if T y0 = Some (mkif oid [] exs0) -> flat_exports T exs0 ->
      exists exs0', get_if T' y0 = Some (mkif oid [] exs0') /\ flat_exports T' exs0' /\
                    forall en k tr, assoc en exs0 = Some k -> UnfK T k tr ->
                                    exists k', assoc en exs0' = Some k' /\ UnfK T' k' tr.

  Lemma grows_unchanged T T' :
    ext T T' -> (forall j z, get_if T j = Some z -> get_if T' j = Some z) -> grows T T'.
  Proof.
    intros E Hsame y0 oid exs0 Hg Hf. exists exs0. split; [now apply Hsame|]. split; [eapply flat_exports_ext; eauto|].
    intros en k tr Ha Hu. exists k. split; auto. destruct Hf as [_ Hall]. destruct (Hall en k (assoc_in _ _ _ Ha)) as [L _].
    eapply UnfK_leaf_ext; eauto.
  Qed.

  Lemma grows_merge y c c' oid exs exs' :
    LoopSt Col tag0 y c oid exs -> LoopSt Col tag0 y c' oid exs' -> Frame y c c' ->
    (forall n k tr, assoc n exs = Some k -> UnfK (c_types c) k tr -> exists k', assoc n exs' = Some k' /\ UnfK (c_types c') k' tr) ->
    grows (c_types c) (c_types c').
  Proof.
    intros L L' Fr Old y0 oid0 exs0 Hg Hf. destruct (Nat.eq_dec (id_idx y0) (id_idx y)) as [E|N].
    - assert (y0 = y) as ->.
      { apply id_eq_of; auto. destruct (get_if_tag _ _ _ Hg) as [T0 _]. destruct (get_if_tag _ _ _ (ls_get _ _ _ _ _ _ L)) as [T1 _]. congruence. }
      rewrite (ls_get _ _ _ _ _ _ L) in Hg. injection Hg as <- <-. exists exs'. split; [apply (ls_get _ _ _ _ _ _ L')|].
      split; [apply (ls_flat _ _ _ _ _ _ L')|]. exact Old.
    - exists exs0. split; [rewrite (fr_other _ _ _ Fr); auto|]. split; [eapply flat_exports_ext; [apply Fr|exact Hf]|].
      intros en k tr Ha Hu. exists k. split; auto. destruct Hf as [_ Hall]. destruct (Hall en k (assoc_in _ _ _ Ha)) as [Lk _].
      eapply UnfK_leaf_ext; [apply Fr|auto|exact Hu].
  Qed.

  (** a contribution stays carried when its import's kind is tracked and interfaces only grow *)
  Lemma carried_step a a' c0 :
    (forall n k, In (n, k) (a_imports a) ->
                 exists y oid exs, k = KInstance y /\ get_if (a_types a) y = Some (mkif oid [] exs) /\ flat_exports (a_types a) exs) ->
    assoc (Aggregator.canonical a' (fst c0)) (a_imports a') = assoc (Aggregator.canonical a (fst c0)) (a_imports a) ->
    grows (a_types a) (a_types a') -> carried a c0 -> carried a' c0.
  Proof.
    intros Hflat Htrack Hgrow Hc i x Hk Hg. destruct (Hc i x Hk Hg) as [y [oid [exs [Ha [Hy Hex]]]]].
    destruct (Hflat _ _ (assoc_in _ _ _ Ha)) as [y1 [oid1 [exs1 [Ey [Hy1 Hf1]]]]]. injection Ey as <-.
    rewrite Hy in Hy1. injection Hy1 as <- <-.
    destruct (Hgrow y oid exs Hy Hf1) as [exs' [Hy' [Hf' Hold]]].
    exists y, oid, exs'. split; [now rewrite Htrack|]. split; auto.
    intros en ek tr Hin Hu. destruct (Hex en ek tr Hin Hu) as [k1 [A1 U1]]. apply (Hold _ _ _ A1 U1).
  Qed.

  Lemma MInv_core_of c im rd : MInv Col tag0 c -> MInv Col tag0 (core_of (agg_of c im rd) (c_chk c)).
  Proof. intros [A B C]. split; auto. Qed.

  Lemma flat_contrib_inv c : flat_contrib c ->
    exists i x, snd (snd c) = KInstance i /\ get_if (fst (snd c)) i = Some x /\ flat_if (fst (snd c)) x /\ ckey c = TInterface i /\
                (i_id x = None \/ i_id x = Some (fst c)).
  Proof. intros [_ [_ [i [x [E [G [F D]]]]]]]. exists i, x. unfold ckey. rewrite E. auto. Qed.

  (** merging a flat contribution into the (flat) import [(n_e, KInstance y)] *)
  Lemma merge_into a s done c y oid exs cc :
    HInv a s done -> flat_contrib c ->
    get_if (a_types a) y = Some (mkif oid [] exs) -> flat_exports (a_types a) exs ->
    merge_item_kind ord cf fuel (KInstance y) (fst (snd c)) (snd (snd c)) (core_of a s) = AOk (tt, cc) ->
    MInv Col tag0 cc /\ c_imports cc = a_imports a /\ grows (a_types a) (c_types cc) /\
    (forall i0, rm_get (TInterface i0) (c_remapped cc) = rm_get (TInterface i0) (a_remapped a)) /\
    c_ifaces cc = a_ifaces a /\
    exists exs', get_if (c_types cc) y = Some (mkif oid [] exs') /\
      (forall i x, snd (snd c) = KInstance i -> get_if (fst (snd c)) i = Some x ->
        forall en ek tr, In (en, ek) (i_exports x) -> UnfK (fst (snd c)) ek tr ->
                         exists k', assoc en exs' = Some k' /\ UnfK (c_types cc) k' tr) /\
      (forall en k' tr, assoc en exs' = Some k' -> UnfK (c_types cc) k' tr ->
                        (exists k, assoc en exs = Some k /\ UnfK (a_types a) k tr) \/ exports_of c en tr) /\
      (forall j, id_idx j <> id_idx y -> get_if (c_types cc) j = get_if (a_types a) j) /\
      ext (a_types a) (c_types cc).
  Proof.
    intros HI Hfc Hy Hf H. destruct Hfc as [Ct [OF [i [x [Ek [Hg [Hfl _]]]]]]]. rewrite Ek in H. cbn [merge_item_kind] in H.
    assert (L : LoopSt Col tag0 y (core_of a s) oid exs) by (split; [apply (h_minv _ _ _ HI)|exact Hy|exact Hf]).
    destruct (merge_interface_flat ord cf Col Col_same tag0 Col_tag fuel y _ i x _ cc oid exs Ct Hg Hfl L H)
      as [exs' [L' [Fr [K [New [Old Conv]]]]]].
    split; [apply (ls_inv _ _ _ _ _ _ L')|]. split; [apply (fr_imports _ _ _ Fr)|].
    split; [apply (grows_merge y _ _ oid exs exs' L L' Fr Old)|]. split; [apply (fr_noif _ _ _ Fr)|].
    split; [apply (fr_ifaces _ _ _ Fr)|].
    exists exs'. split; [apply (ls_get _ _ _ _ _ _ L')|]. split; [|split; [|split]].
    - intros i0 x0 E0 G0. rewrite Ek in E0. injection E0 as <-. rewrite Hg in G0. injection G0 as <-. exact New.
    - intros en k' tr Ha Hu. destruct (Conv en k' tr Ha Hu) as [X|[ek [Hin Hek]]]; [now left|].
      right. exists i, x, ek. auto.
    - apply (fr_other _ _ _ Fr).
    - apply (fr_ext _ _ _ Fr).
  Qed.

  Lemma NoDup_map_inj {A B} (f : A -> B) l x y : NoDup (map f l) -> In x l -> In y l -> f x = f y -> x = y.
  Proof.
    induction l as [|z l IH]; cbn [map]; intros ND Hx Hy E; [contradiction|]. inversion ND as [|? ? Hn ND']; subst.
    destruct Hx as [->|Hx], Hy as [->|Hy]; auto.
    - exfalso. apply Hn. rewrite E. now apply in_map.
    - exfalso. apply Hn. rewrite <- E. now apply in_map.
  Qed.
  Lemma kind_key_unique (im : list (str * kind)) k1 k2 y :
    NoDup (map (fun nk : str * kind => kidx (snd nk)) im) -> In (k1, KInstance y) im -> In (k2, KInstance y) im -> k1 = k2.
  Proof.
    intros ND H1 H2. pose proof (NoDup_map_inj _ _ _ _ ND H1 H2 eq_refl) as E. now injection E.
  Qed.

  Lemma HInv_assemble a s done c cc im rd' :
    HInv a s done -> NInv (map fst im) rd' (fst c :: map fst done) -> MInv Col tag0 cc ->
    grows (a_types a) (c_types cc) ->
    (forall i0 v, rm_get (TInterface i0) (c_remapped cc) = Some v ->
                  rm_get (TInterface i0) (a_remapped a) = Some v \/ TInterface i0 = ckey c) ->
    (forall n k, In (n, k) im -> exists y oid exs, k = KInstance y /\ get_if (c_types cc) y = Some (mkif oid [] exs) /\
                                                   flat_exports (c_types cc) exs) ->
    (forall n1 y1, In (n1, y1) (c_ifaces cc) -> In n1 (fst c :: map fst done)) ->
    NoDup (map (fun nk : str * kind => kidx (snd nk)) im) ->
    (forall n0, In n0 (map fst done) -> assoc (canon rd' n0) im = assoc (canon (a_redirects a) n0) (a_imports a)) ->
    carried (agg_of cc im rd') c ->
    (forall n' y0 oid exs0', In (n', KInstance y0) im -> get_if (c_types cc) y0 = Some (mkif oid [] exs0') ->
       forall en k' tr, assoc en exs0' = Some k' -> UnfK (c_types cc) k' tr ->
         (exists n0 oid0 exs0 k, In (n0, KInstance y0) (a_imports a) /\ get_if (a_types a) y0 = Some (mkif oid0 [] exs0) /\
                                 assoc en exs0 = Some k /\ UnfK (a_types a) k tr) \/
         (n' = canon rd' (fst c) /\ exports_of c en tr)) ->
    HInv (agg_of cc im rd') (c_chk cc) (c :: done).
  Proof.
    intros HI I' M G K Fl Hif D Tr Cn Hback. split; cbn [a_imports a_redirects a_types a_remapped a_ifaces agg_of map fst].
    - exact I'.
    - now apply MInv_core_of.
    - exact Fl.
    - exact Hif.
    - exact D.
    - intros i0 v Hv. destruct (K i0 v Hv) as [X|X]; [right; apply (h_ifkeys _ _ _ HI _ _ X) | left; now rewrite X].
    - intros c0 [<-|Hc0]; [exact Cn|].
      apply (carried_step a); [apply (h_flat _ _ _ HI) | | exact G | now apply (h_carried _ _ _ HI)].
      apply Tr. now apply in_map.
    - intros n y oid exs Hin Hy en k' tr Ha Hu. cbn [a_imports a_types agg_of] in Hin, Hy, Hu.
      destruct (Hback n y oid exs Hin Hy en k' tr Ha Hu) as [[n0 [oid0 [exs0 [k [Hin0 [Hy0 [Ha0 Hu0]]]]]]] | [En Hex]].
      + destruct (h_just _ _ _ HI n0 y oid0 exs0 Hin0 Hy0 en k tr Ha0 Hu0) as [c0 [Hc0 [Hcan Hex]]].
        exists c0. split; [now right|]. split; [|exact Hex]. rewrite canonical_canon. cbn [a_redirects agg_of].
        rewrite canonical_canon in Hcan.
        assert (Hk : assoc (canon rd' (fst c0)) im = Some (KInstance y)).
        { rewrite Tr by (now apply in_map). rewrite Hcan. apply in_assoc; auto. apply (ni_nodup _ _ _ (h_names _ _ _ HI)). }
        apply (kind_key_unique im _ _ y D (assoc_in _ _ _ Hk) Hin).
      + exists c. split; [now left|]. split; [|exact Hex]. rewrite canonical_canon. cbn [a_redirects agg_of]. now symmetry.
  Qed.

  Lemma kinds_grow a s done cc :
    HInv a s done -> grows (a_types a) (c_types cc) ->
    forall n k, In (n, k) (a_imports a) ->
      exists y oid exs, k = KInstance y /\ get_if (c_types cc) y = Some (mkif oid [] exs) /\ flat_exports (c_types cc) exs.
  Proof.
    intros HI G n k Hin. destruct (h_flat _ _ _ HI n k Hin) as [y [oid [exs [-> [Hy Hf]]]]].
    destruct (G y oid exs Hy Hf) as [exs' [Hy' [Hf' _]]]. eauto 6.
  Qed.

  (** no registered interface name is on the track of a name that no import is compatible with *)
  Lemma no_iface_on_track a s done name :
    HInv a s done -> assoc name (a_imports a) = None -> find_compat name (a_imports a) = None ->
    assoc name (a_ifaces a) = None /\ find_compat name (ord (a_ifaces a)) = None.
  Proof.
    intros HI Ea Ef. pose proof (h_names _ _ _ HI) as I0.
    assert (Hno : forall n1, In n1 (map fst done) -> compat n1 name = true -> False).
    { intros n1 Hn1 C. pose proof (ni_total _ _ _ I0 n1 Hn1) as Hk. pose proof (canon_compat _ _ _ n1 I0) as Cc.
      set (k := canon (a_redirects a) n1) in *.
      assert (Ck : compat name k = true) by (rewrite compat_sym in C; apply (compat_trans _ _ _ C Cc)).
      destruct (str_eqb name k) eqn:E.
      - apply SemverProofs.str_eqb_eq in E. subst k. rewrite <- E in Hk. apply assoc_none_keys in Ea. contradiction.
      - apply SemverProofs.str_eqb_neq in E. destruct (compat_on_track _ _ Ck E) as [ak [nv [ev [An Ae]]]].
        unfold find_compat in Ef. rewrite An in Ef. apply in_keys_assoc in Hk as [v Hv]. apply assoc_in in Hv.
        now apply (find_on_track_none _ _ Ef k v ak ev Hv Ae). }
    split.
    - destruct (assoc name (a_ifaces a)) as [y1|] eqn:E; auto. exfalso.
      apply (Hno name); [apply (h_ifaces _ _ _ HI name y1 (assoc_in _ _ _ E)) | apply compat_refl].
    - destruct (find_compat name (ord (a_ifaces a))) as [[n1 y1]|] eqn:E; auto. exfalso.
      unfold find_compat in E. destruct (alt_key name) as [[ak nv]|] eqn:An; [|discriminate].
      apply find_on_track_some in E as [Hin [ev Ae]]. apply ord_incl in Hin.
      apply (Hno n1); [apply (h_ifaces _ _ _ HI n1 y1 Hin)|]. apply (compat_same_key _ _ _ _ _ _ Ae An). reflexivity.
  Qed.

  (** an entry of an unchanged flat interface has the tree it had *)
  Lemma back_same T T' exs0 en k tr :
    flat_exports T exs0 -> ext T T' -> assoc en exs0 = Some k -> UnfK T' k tr -> UnfK T k tr.
  Proof.
    intros [_ Hall] E Ha Hu. destruct (Hall en k (assoc_in _ _ _ Ha)) as [Lk [tr0 [U0 _]]].
    assert (tr = tr0) as -> by (eapply UnfK_same_agg; [exact Lk|exact Hu|]; eapply UnfK_leaf_ext; eauto). exact U0.
  Qed.

  (** the converse bookkeeping for an interface that the step did not touch *)
  Lemma back_untouched a s done T' n' y0 oid exs0' :
    HInv a s done -> ext (a_types a) T' -> In (n', KInstance y0) (a_imports a) ->
    get_if T' y0 = get_if (a_types a) y0 -> get_if T' y0 = Some (mkif oid [] exs0') ->
    forall en k' tr, assoc en exs0' = Some k' -> UnfK T' k' tr ->
      exists n0 oid0 exs0 k, In (n0, KInstance y0) (a_imports a) /\ get_if (a_types a) y0 = Some (mkif oid0 [] exs0) /\
                             assoc en exs0 = Some k /\ UnfK (a_types a) k tr.
  Proof.
    intros HI E Hin Hsame Hy' en k' tr Ha Hu. destruct (h_flat _ _ _ HI _ _ Hin) as [y1 [oid1 [exs1 [Ey [Hy1 Hf1]]]]].
    injection Ey as <-. rewrite Hsame, Hy1 in Hy'. injection Hy' as <- <-.
    exists n', oid1, exs1, k'. repeat split; auto. eapply back_same; eauto.
  Qed.

  Lemma HInv_step a s done c a' s' :
    HInv a s done -> flat_contrib c -> ~ In (ckey c) (map ckey done) ->
    aggregate ord cf fuel a s (fst c) (fst (snd c)) (snd (snd c)) = AOk (a', s') ->
    HInv a' s' (c :: done).
  Proof.
    intros HI Hfc Hnew H. destruct c as [name [t k]]. cbn [fst snd] in *.
    pose proof Hfc as [Ct [OF _]]. cbn [fst snd] in Ct, OF.
    pose proof (h_names _ _ _ HI) as I0.
    pose proof (aggregate_NStep ord cf fuel a s name t k a' s' OF (ni_nodup _ _ _ I0) H) as NS.
    pose proof (NStep_preserves _ _ _ _ _ _ I0 NS) as I'.
    assert (Hif_old : forall cc, c_ifaces cc = a_ifaces a ->
                                 forall n1 y1, In (n1, y1) (c_ifaces cc) -> In n1 (name :: map fst done)).
    { intros cc E n1 y1 Hin. rewrite E in Hin. right. apply (h_ifaces _ _ _ HI n1 y1 Hin). }
    apply aggregate_cases in H as [[existing [cc [Ea [Hm [-> ->]]]]] | [[en [ek [cc [im [rd' [Ea [Ef [Hm [Hr [-> ->]]]]]]]]]] | [k' [cc [Ea [Ef [Hm [Hh [-> ->]]]]]]]]].
    - (* the name is an import already *)
      destruct (h_flat _ _ _ HI name existing (assoc_in _ _ _ Ea)) as [y [oid [exs [-> [Hy Hf]]]]].
      destruct (merge_into a s done (name, (t, k)) y oid exs cc HI Hfc Hy Hf Hm)
        as [M [Him [G [Kf [Hifc [exs' [Hy' [New [Conv [Foth Eext]]]]]]]]]].
      cbn [a_imports a_redirects agg_of] in I'. rewrite Him in *.
      apply (HInv_assemble a s); auto.
      + intros i0 v Hv. left. now rewrite <- Kf.
      + now apply (kinds_grow a s done).
      + now apply Hif_old.
      + apply (h_distinct _ _ _ HI).
      + intros i x Ek Hg. exists y, oid, exs'. rewrite canonical_canon. cbn [a_imports a_redirects a_types agg_of fst snd].
        rewrite (canon_key _ _ _ name I0 (assoc_in_keys _ _ _ Ea)).
        split; auto. split; auto. exact (New i x Ek Hg).
      + intros n' y0 oid0 exs0' Hin' Hy0' en0 k0 tr Ha Hu. cbn [fst].
        destruct (Nat.eq_dec (id_idx y0) (id_idx y)) as [E|N].
        * assert (y0 = y) as ->.
          { apply id_eq_of; auto. destruct (get_if_tag _ _ _ Hy0') as [T0 _]. destruct (get_if_tag _ _ _ Hy') as [T1 _]. congruence. }
          rewrite Hy' in Hy0'. injection Hy0' as <- <-.
          destruct (Conv en0 k0 tr Ha Hu) as [[k1 [A1 U1]]|Hex].
          -- left. exists name, oid, exs, k1. repeat split; auto. now apply assoc_in.
          -- right. split; auto. rewrite (canon_key _ _ _ name I0 (assoc_in_keys _ _ _ Ea)).
             apply (kind_key_unique _ _ _ y (h_distinct _ _ _ HI) Hin' (assoc_in _ _ _ Ea)).
        * left. apply (back_untouched a s done (c_types cc) n' y0 oid0 exs0' HI Eext Hin' (Foth _ N) Hy0' en0 k0 tr Ha Hu).
    - (* a semver-compatible import *)
      assert (Hen : In (en, ek) (a_imports a) /\ compat name en = true).
      { unfold find_compat in Ef. destruct (alt_key name) as [[ak nv]|] eqn:An; [|discriminate].
        apply find_on_track_some in Ef as [Hin [ev Ae]]. split; auto. apply (compat_same_key _ _ _ _ _ _ An Ae). reflexivity. }
      destruct Hen as [Hin Hcompat].
      assert (Hek : assoc en (a_imports a) = Some ek) by (apply in_assoc; [apply (ni_nodup _ _ _ I0)|exact Hin]).
      assert (Hnin : ~ In name (map fst (a_imports a))) by now apply assoc_none_keys.
      destruct (h_flat _ _ _ HI en ek Hin) as [y [oid [exs [-> [Hy Hf]]]]].
      destruct (merge_into a s done (name, (t, k)) y oid exs cc HI Hfc Hy Hf Hm)
        as [M [Him [G [Kf [Hifc [exs' [Hy' [New [Conv [Foth Eext]]]]]]]]]].
      rewrite Him in Hr. unfold rename in Hr.
      destruct (alt_key name) as [[ak nv]|]; [|discriminate]. destruct (alt_key en) as [[ak' ev]|]; [|discriminate].
      destruct (version_gtb nv ev).
      + (* the new name takes over *)
        rewrite Hek in Hr. injection Hr as <- <-. cbn [a_imports a_redirects agg_of] in I'.
        assert (Hnr : assoc name (rem en (a_imports a)) = None).
        { apply assoc_none_keys. intros X. apply in_keys_rem in X; [tauto|apply (ni_nodup _ _ _ I0)]. }
        assert (Dim : NoDup (map (fun nk : str * kind => kidx (snd nk)) (ins name (KInstance y) (rem en (a_imports a))))).
        { rewrite (ins_new_app _ _ _ Hnr), map_app. cbn [map snd kidx].
          pose proof (rem_perm en (KInstance y) _ (ni_nodup _ _ _ I0) Hek) as P.
          apply (Permutation_map (fun nk : str * kind => kidx (snd nk))) in P.
          pose proof (Permutation_NoDup P (h_distinct _ _ _ HI)) as ND. cbn [map snd kidx] in ND.
          eapply Permutation_NoDup; [|exact ND]. apply Permutation_cons_append. }
        assert (Hk' : In name (map fst (ins name (KInstance y) (rem en (a_imports a))))).
        { eapply assoc_in_keys. apply assoc_ins_same. }
        apply (HInv_assemble a s); auto.
        * intros i0 v Hv. left. now rewrite <- Kf.
        * intros n0 k0 Hk0. apply in_ins in Hk0 as [[-> ->]|Hk0]; [now apply (kinds_grow a s done cc HI G en)|].
          apply in_rem in Hk0. now apply (kinds_grow a s done cc HI G n0).
        * now apply Hif_old.
        * intros n0 Hn0. apply (rename_high_track _ _ _ I0 name en (KInstance y) Hnin Hek); auto.
        * intros i x Ek Hg. exists y, oid, exs'. rewrite canonical_canon. cbn [a_imports a_redirects a_types agg_of fst snd].
          rewrite (canon_key _ _ _ name I' Hk'). rewrite assoc_ins_same. split; auto. split; auto. exact (New i x Ek Hg).
        * intros n' y0 oid0 exs0' Hin' Hy0' en0 k0 tr Ha Hu. cbn [fst].
          destruct (Nat.eq_dec (id_idx y0) (id_idx y)) as [E|N].
          -- assert (y0 = y) as ->.
             { apply id_eq_of; auto. destruct (get_if_tag _ _ _ Hy0') as [T0 _]. destruct (get_if_tag _ _ _ Hy') as [T1 _]. congruence. }
             rewrite Hy' in Hy0'. injection Hy0' as <- <-.
             destruct (Conv en0 k0 tr Ha Hu) as [[k1 [A1 U1]]|Hex].
             ++ left. exists en, oid, exs, k1. repeat split; auto.
             ++ right. split; auto. rewrite (canon_key _ _ _ name I' Hk').
                apply (kind_key_unique _ _ _ y Dim Hin'). apply assoc_in. apply assoc_ins_same.
          -- left. apply in_ins in Hin' as [[_ X]|Hin']; [injection X as ->; congruence|]. apply in_rem in Hin'.
             apply (back_untouched a s done (c_types cc) n' y0 oid0 exs0' HI Eext Hin' (Foth _ N) Hy0' en0 k0 tr Ha Hu).
      + (* the existing name stays *)
        injection Hr as <- <-. cbn [a_imports a_redirects agg_of] in I'.
        apply (HInv_assemble a s); auto.
        * intros i0 v Hv. left. now rewrite <- Kf.
        * now apply (kinds_grow a s done).
        * now apply Hif_old.
        * apply (h_distinct _ _ _ HI).
        * intros n0 Hn0. now rewrite (rename_low_track _ _ _ I0 name en (KInstance y) Hnin Hek Hcompat n0 Hn0).
        * intros i x Ek Hg. exists y, oid, exs'. rewrite canonical_canon. cbn [a_imports a_redirects a_types agg_of fst snd].
          unfold canon. rewrite assoc_ins_same. split; auto. split; auto. exact (New i x Ek Hg).
        * intros n' y0 oid0 exs0' Hin' Hy0' en0 k0 tr Ha Hu. cbn [fst].
          destruct (Nat.eq_dec (id_idx y0) (id_idx y)) as [E|N].
          -- assert (y0 = y) as ->.
             { apply id_eq_of; auto. destruct (get_if_tag _ _ _ Hy0') as [T0 _]. destruct (get_if_tag _ _ _ Hy') as [T1 _]. congruence. }
             rewrite Hy' in Hy0'. injection Hy0' as <- <-.
             destruct (Conv en0 k0 tr Ha Hu) as [[k1 [A1 U1]]|Hex].
             ++ left. exists en, oid, exs, k1. repeat split; auto.
             ++ right. split; auto. unfold canon. rewrite assoc_ins_same.
                apply (kind_key_unique _ _ _ y (h_distinct _ _ _ HI) Hin' Hin).
          -- left. apply (back_untouched a s done (c_types cc) n' y0 oid0 exs0' HI Eext Hin' (Foth _ N) Hy0' en0 k0 tr Ha Hu).
    - (* a new import *)
      destruct (flat_contrib_inv _ Hfc) as [i [x [Ek [Hg [Hfl [Eck Hidx]]]]]]. cbn [fst snd] in Ek, Hg, Hfl, Hidx. subst k.
      destruct fuel as [|f]; [discriminate|]. cbn [remap_item_kind] in Hm.
      apply bindM_ok in Hm as [y [c1 [H1 H2]]]. apply ret_ok in H2 as [-> ->].
      assert (Hnone : rm_get (TInterface i) (c_remapped (core_of a s)) = None).
      { cbn [c_remapped core_of]. destruct (rm_get (TInterface i) (a_remapped a)) eqn:X; auto.
        apply (h_ifkeys _ _ _ HI) in X. rewrite <- Eck in X. contradiction. }
      assert (Hlook : forall nm, i_id x = Some nm ->
                                 assoc nm (c_ifaces (core_of a s)) = None /\ find_compat nm (ord (c_ifaces (core_of a s))) = None).
      { intros nm Hnm. destruct Hidx as [X|X]; [congruence|]. assert (nm = name) as -> by congruence.
        cbn [c_ifaces core_of]. now apply (no_iface_on_track a s done). }
      destruct (remap_interface_flat ord cf Col Col_same tag0 f t i x _ y c1 Ct Hg Hfl (h_minv _ _ _ HI) (fun _ _ => Hnone) Hlook H1)
        as [exs [L [Hidy [K [New [Prov [E [Him [Hif [Hsame [Hoth Hthis]]]]]]]]]]].
      cbn [c_types c_imports c_ifaces c_remapped core_of] in *.
      assert (G : grows (a_types a) (c_types c1)) by (apply grows_unchanged; auto).
      rewrite Him in *. cbn [a_imports a_redirects agg_of] in I'.
      assert (Hnin : ~ In name (map fst (a_imports a))) by now apply assoc_none_keys.
      assert (Hk' : In name (map fst (ins name (KInstance y) (a_imports a)))).
      { eapply assoc_in_keys. apply assoc_ins_same. }
      assert (Hold_lt : forall n0 y0, In (n0, KInstance y0) (a_imports a) -> (id_idx y0 < length (t_interfaces (a_types a)))%nat).
      { intros n0 y0 Hin0. destruct (h_flat _ _ _ HI n0 _ Hin0) as [y1 [oid1 [exs1 [Ey [Hy1 _]]]]]. injection Ey as <-.
        now destruct (get_if_tag _ _ _ Hy1). }
      apply (HInv_assemble a s); auto.
      + apply (ls_inv _ _ _ _ _ _ L).
      + intros i0 v Hv. destruct (id_eqb i0 i) eqn:Ei.
        * apply ideqb_eq in Ei. subst i0. right. now rewrite Eck.
        * left. rewrite <- Hoth; auto. intros ->. rewrite ideqb_refl in Ei. discriminate.
      + intros n0 k0 Hk0. apply in_ins in Hk0 as [[-> ->]|Hk0]; [|now apply (kinds_grow a s done c1 HI G n0)].
        exists y, (i_id x), exs. split; auto. split; [apply (ls_get _ _ _ _ _ _ L) | apply (ls_flat _ _ _ _ _ _ L)].
      + intros n1 y1 Hin1. cbn [fst]. rewrite Hif in Hin1. destruct (i_id x) as [nm|] eqn:Hnm.
        * apply in_ins in Hin1 as [[-> _]|Hin1]; [|right; apply (h_ifaces _ _ _ HI n1 y1 Hin1)].
          destruct Hidx as [X|X]; [discriminate|]. injection X as ->. now left.
        * right. apply (h_ifaces _ _ _ HI n1 y1 Hin1).
      + rewrite (ins_new_app _ _ _ Ea), map_app. cbn [map snd kidx]. apply NoDup_app_one_tail; [apply (h_distinct _ _ _ HI)|].
        intros X. apply in_map_iff in X as [[n0 k0] [E0 Hin0]]. cbn [snd] in E0.
        destruct (h_flat _ _ _ HI n0 k0 Hin0) as [y0 [oid0 [exs0 [-> [Hy0 _]]]]]. cbn [kidx] in E0.
        destruct (get_if_tag _ _ _ Hy0) as [_ Hlt]. lia.
      + intros n0 Hn0. rewrite assoc_ins_other; auto. intros X. apply Hnin. rewrite X. apply (ni_total _ _ _ I0). exact Hn0.
      + intros i1 x1 Ek1 Hg1. cbn [fst snd] in *. injection Ek1 as <-. rewrite Hg in Hg1. injection Hg1 as <-.
        exists y, (i_id x), exs. rewrite canonical_canon. cbn [a_imports a_redirects a_types agg_of fst snd].
        rewrite (canon_key _ _ _ name I' Hk'). rewrite assoc_ins_same. split; auto. split; [apply (ls_get _ _ _ _ _ _ L)|].
        exact New.
      + intros n' y0 oid0 exs0' Hin' Hy0' en0 k0 tr Ha Hu. cbn [fst].
        apply in_ins in Hin' as [[-> X]|Hin'].
        * injection X as ->. right. rewrite (canon_key _ _ _ name I' Hk'). split; auto.
          rewrite (ls_get _ _ _ _ _ _ L) in Hy0'. injection Hy0' as <- <-.
          destruct (Prov en0 k0 tr Ha Hu) as [ek [Hin1 Hu1]]. exists i, x, ek. auto.
        * left. assert (Hs0 : get_if (c_types c1) y0 = get_if (a_types a) y0).
          { destruct (h_flat _ _ _ HI n' _ Hin') as [y1 [oid1 [exs1 [Ey [Hy1 _]]]]]. injection Ey as <-.
            now rewrite (Hsame _ _ Hy1). }
          apply (back_untouched a s done (c_types c1) n' y0 oid0 exs0' HI E Hin' Hs0 Hy0' en0 k0 tr Ha Hu).
  Qed.

  (** ** Whole histories *)
  Lemma HInv_history : forall l a s pos done a' s',
    HInv a s done -> Forall flat_contrib l -> NoDup (map ckey l) ->
    (forall c, In c l -> ~ In (ckey c) (map ckey done)) ->
    aggregate_all ord cf fuel a s l pos = inl (a', s') -> HInv a' s' (rev l ++ done).
  Proof.
    induction l as [|[name [t k]] l IH]; intros a s pos done a' s' HI HF ND Hd H; cbn [aggregate_all] in H.
    - injection H as <- <-. exact HI.
    - inversion HF as [|? ? Hc HF']; subst. cbn [map] in ND. inversion ND as [|? ? Hn ND']; subst.
      destruct (aggregate ord cf fuel a s name t k) as [[a1 s1]| | |] eqn:E; try discriminate.
      pose proof (HInv_step a s done (name, (t, k)) a1 s1 HI Hc (Hd _ (or_introl eq_refl)) E) as H1.
      cbn [rev]. rewrite <- app_assoc. cbn [app]. eapply IH; eauto.
      intros c0 Hc0 [X|X]; [apply Hn; rewrite X; now apply in_map | exact (Hd c0 (or_intror Hc0) X)].
  Qed.

  (** the tree of a flat interface of the aggregator *)
  Lemma UnfK_mono T k tr g g' : (g <= g')%nat -> unfold g T k = Some tr -> unfold g' T k = Some tr.
  Proof. apply unfold_mono. Qed.
  Lemma flat_exports_unfold T exs :
    flat_exports T exs -> exists g e, map_snd (unfold g T) exs = Some e.
  Proof.
    intros [_ Hall]. induction exs as [|[n k] exs IH].
    - exists O, []. reflexivity.
    - destruct IH as [g1 [e1 H1]]; [intros n0 k0 Hin0; apply (Hall n0 k0); now right|].
      destruct (Hall n k (or_introl eq_refl)) as [_ [tr [[g2 H2] _]]].
      exists (Nat.max g1 g2), ((n, tr) :: e1). unfold map_snd in *. cbn [map all_some fst snd].
      rewrite (UnfK_mono _ _ _ g2 _ (Nat.le_max_r g1 g2) H2).
      assert (X : all_some (map (fun kv : str * kind => match unfold (Nat.max g1 g2) T (snd kv) with
                                                        | Some y => Some (fst kv, y) | None => None end) exs) = Some e1).
      { apply (map_snd_ext (unfold g1 T) (unfold (Nat.max g1 g2) T) exs e1); [|exact H1].
        intros x y. apply UnfK_mono. apply Nat.le_max_l. }
      now rewrite X.
  Qed.
  Lemma flat_inst T y oid exs :
    get_if T y = Some (mkif oid [] exs) -> flat_exports T exs ->
    exists e, UnfK T (KInstance y) (XInst e) /\
              forall n k tr, assoc n exs = Some k -> UnfK T k tr -> assoc n e = Some tr.
  Proof.
    intros Hy Hf. destruct (flat_exports_unfold T exs Hf) as [g [e He]]. exists e. split.
    - exists (S g). cbn [unfold]. rewrite Hy. cbn [i_exports]. now rewrite He.
    - intros n k tr Ha [g' Hu]. rewrite (map_snd_assoc _ _ _ n He), Ha.
      apply (UnfK_mono _ _ _ g' (Nat.max g g')) in Hu; [|apply Nat.le_max_r].
      destruct (unfold g T k) as [tr'|] eqn:E.
      + apply (UnfK_mono _ _ _ g (Nat.max g g')) in E; [|apply Nat.le_max_l]. congruence.
      + exfalso. destruct Hf as [_ Hall]. apply map_snd_inv in He.
        clear -He Ha E. induction He as [|[n1 k1] [n2 t2] l l' [En Hu] _ IH]; cbn [assoc] in Ha; [discriminate|].
        cbn [fst snd] in *. destruct (str_eqb n n1); [injection Ha as <-; congruence | auto].
  Qed.

  (** the declarative relation is reflexive on resource-free leaf trees *)
  Lemma leaf_tree_refl T k tr : leafk k = true -> UnfK T k tr -> resfree tr = true -> SubCM tr tr.
  Proof.
    intros L Hu Hr. apply (UnfK_leaf_inv _ _ _ L) in Hu.
    assert (HV : forall v, vt_resfree v = true -> VSub NoRes v v).
    { intros v Hv. apply (VSub_change eq NoRes v v (or_introl Hv)). apply VSub_eq_refl. }
    destruct k as [[| |v| | |]|i| | | |v]; try discriminate L.
    - destruct Hu as [vt [-> _]]. cbn [resfree] in Hr. constructor. now apply HV.
    - destruct Hu as [ft [-> _]]. cbn [resfree] in Hr. constructor.
      apply (FSub_change eq NoRes ft ft (or_introl Hr)). now apply FSub_eq_iff.
    - destruct Hu as [vt [-> _]]. cbn [resfree] in Hr. constructor. now apply HV.
  Qed.

  (** * The merged requirement satisfies every contributor (flat histories) *)
  Theorem flat_upper_bound l a s :
    Forall flat_contrib l -> NoDup (map ckey l) ->
    aggregate_all ord cf fuel (agg0 tag0) st0 l 0 = inl (a, s) ->
    forall c, In c l -> forall tr, UnfK (fst (snd c)) (snd (snd c)) tr ->
      exists merged tm, assoc (Aggregator.canonical a (fst c)) (imports a) = Some merged /\
                        UnfK (a_types a) merged tm /\ SubCM tm tr.
  Proof.
    intros HF ND H c Hc tr Hu.
    pose proof (HInv_history l _ _ _ [] a s HInv_nil HF ND (fun _ _ X => X) H) as HI. rewrite app_nil_r in HI.
    assert (Hfc : flat_contrib c) by (rewrite Forall_forall in HF; auto).
    destruct Hfc as [Ct [_ [i [x [Ek [Hg [[_ [NDx Hall]] _]]]]]]].
    destruct (h_carried _ _ _ HI c (proj1 (in_rev _ _) Hc) i x Ek Hg) as [y [oid [exs [Ha [Hy Hex]]]]].
    destruct (h_flat _ _ _ HI _ _ (assoc_in _ _ _ Ha)) as [y1 [oid1 [exs1 [Ey [Hy1 Hf1]]]]]. injection Ey as <-.
    rewrite Hy in Hy1. injection Hy1 as <- <-.
    destruct (flat_inst _ _ _ _ Hy Hf1) as [e [Ue He]].
    exists (KInstance y), (XInst e). split; [exact Ha|]. split; [exact Ue|].
    rewrite Ek in Hu. destruct Hu as [g Hu]. destruct g as [|g]; [discriminate|]. cbn [unfold] in Hu. rewrite Hg in Hu.
    destruct (map_snd (unfold g (fst (snd c))) (i_exports x)) as [er|] eqn:Er; [|discriminate]. injection Hu as <-.
    constructor. intros k b Hin. destruct (map_snd_in _ _ _ _ _ Er Hin) as [ek [Hek Hb]].
    destruct (Hex k ek b Hek (ex_intro _ g Hb)) as [k' [Ak Uk]].
    exists b. split; [apply (He _ _ _ Ak Uk)|].
    destruct (Hall k ek Hek) as [Lk [tr0 [U0 R0]]].
    assert (tr0 = b) as <- by (eapply UnfK_leaf_indep; [| |exact U0|exists g; exact Hb]; auto).
    eapply leaf_tree_refl; eauto.
  Qed.

  (** ... and the export names of a merge step are the union, in first-seen order *)
  Theorem flat_merge_is_union a s done c a' s' y oid exs :
    HInv a s done -> flat_contrib c ->
    (assoc (fst c) (a_imports a) = Some (KInstance y) \/
     (assoc (fst c) (a_imports a) = None /\ exists en, find_compat (fst c) (a_imports a) = Some (en, KInstance y))) ->
    get_if (a_types a) y = Some (mkif oid [] exs) ->
    aggregate ord cf fuel a s (fst c) (fst (snd c)) (snd (snd c)) = AOk (a', s') ->
    forall i x, snd (snd c) = KInstance i -> get_if (fst (snd c)) i = Some x ->
      exists exs', get_if (a_types a') y = Some (mkif oid [] exs') /\
                   map fst exs' = first_seen_union (map fst exs) (map fst (i_exports x)).
  Proof.
    intros HI Hfc Hwhere Hy H i x Ek Hg. destruct c as [name [t k]]. cbn [fst snd] in *.
    assert (Hf : flat_exports (a_types a) exs).
    { destruct Hwhere as [Ha|[_ [en Hf]]].
      - destruct (h_flat _ _ _ HI _ _ (assoc_in _ _ _ Ha)) as [y1 [oid1 [exs1 [Ey [Hy1 Hf1]]]]]. injection Ey as <-. congruence.
      - unfold find_compat in Hf. destruct (alt_key name) as [[ak nv]|]; [|discriminate].
        apply find_on_track_some in Hf as [Hin _].
        destruct (h_flat _ _ _ HI _ _ Hin) as [y1 [oid1 [exs1 [Ey [Hy1 Hf1]]]]]. injection Ey as <-. congruence. }
    pose proof Hfc as [Ct [_ [i0 [x0 [Ek0 [Hg0 [Hfl _]]]]]]]. cbn [fst snd] in *. rewrite Ek in Ek0. injection Ek0 as <-.
    rewrite Hg in Hg0. injection Hg0 as <-.
    assert (L : LoopSt Col tag0 y (core_of a s) oid exs) by (split; [apply (h_minv _ _ _ HI)|exact Hy|exact Hf]).
    assert (Hmerge : forall cc, merge_item_kind ord cf fuel (KInstance y) t k (core_of a s) = AOk (tt, cc) ->
                                exists exs', get_if (c_types cc) y = Some (mkif oid [] exs') /\
                                             map fst exs' = first_seen_union (map fst exs) (map fst (i_exports x))).
    { intros cc Hm. rewrite Ek in Hm. cbn [merge_item_kind] in Hm.
      destruct (merge_interface_flat ord cf Col Col_same tag0 Col_tag fuel y t i x _ cc oid exs Ct Hg Hfl L Hm)
        as [exs' [L' [_ [K _]]]].
      exists exs'. split; [apply (ls_get _ _ _ _ _ _ L') | exact K]. }
    apply aggregate_cases in H as [[existing [cc [Ea [Hm [-> ->]]]]] | [[en [ek [cc [im [rd' [Ea [Ef [Hm [Hr [-> ->]]]]]]]]]] | [k' [cc [Ea [Ef _]]]]]].
    - destruct Hwhere as [Ha|[Ha _]]; [|congruence]. rewrite Ea in Ha. injection Ha as ->. now apply Hmerge.
    - destruct Hwhere as [Ha|[_ [en' Hf']]]; [congruence|]. rewrite Ef in Hf'. injection Hf' as _ ->. now apply Hmerge.
    - destruct Hwhere as [Ha|[_ [en' Hf']]]; congruence.
  Qed.

  (** ** Two successful orders of one flat multiset agree *)
  Lemma flat_inst_conv T y oid exs :
    get_if T y = Some (mkif oid [] exs) -> flat_exports T exs ->
    exists e, UnfK T (KInstance y) (XInst e) /\
              (forall n k tr, assoc n exs = Some k -> UnfK T k tr -> assoc n e = Some tr) /\
              (forall n b, In (n, b) e -> exists k, assoc n exs = Some k /\ UnfK T k b).
  Proof.
    intros Hy Hf. destruct (flat_exports_unfold T exs Hf) as [g [e He]].
    destruct (flat_inst T y oid exs Hy Hf) as [e0 [[g0 U0] H0]].
    assert (e0 = e) as ->.
    { apply (UnfK_mono _ _ _ g0 (Nat.max g0 (S g))) in U0; [|apply Nat.le_max_l].
      assert (U1 : unfold (Nat.max g0 (S g)) T (KInstance y) = Some (XInst e)).
      { apply (UnfK_mono _ _ _ (S g)); [apply Nat.le_max_r|]. cbn [unfold]. rewrite Hy. cbn [i_exports]. now rewrite He. }
      congruence. }
    exists e. split; [now exists g0|]. split; [exact H0|].
    intros n b Hin. destruct (map_snd_in _ _ _ _ _ He Hin) as [k [Hk Hb]]. exists k. split; [|now exists g].
    destruct Hf as [ND _]. now apply in_assoc.
  Qed.

  Lemma sub_of_justified a s done a' s' done' n :
    HInv a s done -> HInv a' s' done' -> (forall c, In c done' -> In c done) ->
    (forall c, In c done -> Aggregator.canonical a (fst c) = Aggregator.canonical a' (fst c)) ->
    In n (map fst done) -> Aggregator.canonical a n = Aggregator.canonical a' n ->
    forall y oid exs y' oid' exs' e e',
      assoc (Aggregator.canonical a n) (a_imports a) = Some (KInstance y) -> get_if (a_types a) y = Some (mkif oid [] exs) ->
      assoc (Aggregator.canonical a' n) (a_imports a') = Some (KInstance y') -> get_if (a_types a') y' = Some (mkif oid' [] exs') ->
      (forall n0 k tr, assoc n0 exs = Some k -> UnfK (a_types a) k tr -> assoc n0 e = Some tr) ->
      (forall n0 b, In (n0, b) e' -> exists k, assoc n0 exs' = Some k /\ UnfK (a_types a') k b) ->
      SubCM (XInst e) (XInst e').
  Proof.
    intros HI HI' Hsub Hagree Hn Hcn y oid exs y' oid' exs' e e' Ha Hy Ha' Hy' He He'.
    constructor. intros k b Hin. destruct (He' k b Hin) as [k' [Ak' Uk']].
    destruct (h_just _ _ _ HI' _ _ _ _ (assoc_in _ _ _ Ha') Hy' k k' b Ak' Uk') as [c [Hc [Hcan [i [x [ek [Ek [Hg [Hek Hu]]]]]]]]].
    pose proof (Hsub c Hc) as Hcd.
    destruct (h_carried _ _ _ HI c Hcd i x Ek Hg) as [y1 [oid1 [exs1 [Ha1 [Hy1 Hex1]]]]].
    assert (Ec : Aggregator.canonical a (fst c) = Aggregator.canonical a n) by (rewrite (Hagree c Hcd), Hcan; now symmetry).
    rewrite Ec, Ha in Ha1. injection Ha1 as <-. rewrite Hy in Hy1. injection Hy1 as <- <-.
    destruct (Hex1 k ek b Hek Hu) as [k1 [A1 U1]].
    exists b. split; [apply (He _ _ _ A1 U1)|].
    destruct (h_flat _ _ _ HI _ _ (assoc_in _ _ _ Ha)) as [y2 [oid2 [exs2 [Ey [Hy2 [_ Hall]]]]]]. injection Ey as <-.
    rewrite Hy in Hy2. injection Hy2 as <- <-.
    destruct (Hall k k1 (assoc_in _ _ _ A1)) as [Lk [tr0 [U0 R0]]].
    assert (tr0 = b) as <- by (eapply UnfK_same_agg; eauto).
    eapply leaf_tree_refl; eauto.
  Qed.

  Lemma flat_owner_free l : Forall flat_contrib l -> Forall (fun c : contrib => owner_free (fst (snd c))) l.
  Proof. apply Forall_impl. intros c [_ [H _]]. exact H. Qed.

  Lemma import_of a s done n :
    HInv a s done -> In n (map fst done) ->
    exists y oid exs e, assoc (Aggregator.canonical a n) (a_imports a) = Some (KInstance y) /\
      get_if (a_types a) y = Some (mkif oid [] exs) /\ UnfK (a_types a) (KInstance y) (XInst e) /\
      (forall n0 k tr, assoc n0 exs = Some k -> UnfK (a_types a) k tr -> assoc n0 e = Some tr) /\
      (forall n0 b, In (n0, b) e -> exists k, assoc n0 exs = Some k /\ UnfK (a_types a) k b).
  Proof.
    intros HI Hn. pose proof (ni_total _ _ _ (h_names _ _ _ HI) n Hn) as Hk. rewrite <- canonical_canon in Hk.
    apply in_keys_assoc in Hk as [k Hk]. destruct (h_flat _ _ _ HI _ _ (assoc_in _ _ _ Hk)) as [y [oid [exs [-> [Hy Hf]]]]].
    destruct (flat_inst_conv _ _ _ _ Hy Hf) as [e [U [A B]]]. exists y, oid, exs, e. auto.
  Qed.

  (** Order independence for flat multisets, given that both orders succeed: the canonical names agree, and the merged
      requirement of every contributed name is the same tree up to the order of its exports (mutual subtypes). *)
  Theorem flat_order_indep l l' a s a' s' :
    Forall flat_contrib l -> NoDup (map ckey l) -> Permutation l l' ->
    aggregate_all ord cf fuel (agg0 tag0) st0 l 0 = inl (a, s) ->
    aggregate_all ord cf fuel (agg0 tag0) st0 l' 0 = inl (a', s') ->
    forall n, In n (map fst l) ->
      Aggregator.canonical a n = Aggregator.canonical a' n /\
      exists m m' tm tm', assoc (Aggregator.canonical a n) (imports a) = Some m /\
                          assoc (Aggregator.canonical a' n) (imports a') = Some m' /\
                          UnfK (a_types a) m tm /\ UnfK (a_types a') m' tm' /\ SubCM tm tm' /\ SubCM tm' tm.
  Proof.
    intros HF ND P H H' n Hn.
    assert (HF' : Forall flat_contrib l') by (eapply Permutation_Forall; eauto).
    assert (ND' : NoDup (map ckey l')) by (eapply Permutation_NoDup; [apply Permutation_map; exact P|exact ND]).
    pose proof (HInv_history l _ _ _ [] a s HInv_nil HF ND (fun _ _ X => X) H) as HI. rewrite app_nil_r in HI.
    pose proof (HInv_history l' _ _ _ [] a' s' HInv_nil HF' ND' (fun _ _ X => X) H') as HI'. rewrite app_nil_r in HI'.
    assert (Hnames : forall m, In m (map fst l) <-> In m (map fst l')).
    { intros m. split; apply Permutation_in; [|apply Permutation_sym]; now apply Permutation_map. }
    assert (Hagree : forall m, In m (map fst l) -> Aggregator.canonical a m = Aggregator.canonical a' m).
    { intros m Hm. apply (canonical_order_indep ord ord cf fuel cf fuel tag0 tag0 l l' a a' s s'); auto using flat_owner_free. }
    split; [now apply Hagree|].
    assert (Hn1 : In n (map fst (rev l))) by (rewrite map_rev; now apply -> in_rev).
    assert (Hn2 : In n (map fst (rev l'))) by (rewrite map_rev; apply -> in_rev; now apply Hnames).
    destruct (import_of _ _ _ n HI Hn1) as [y [oid [exs [e [Ha [Hy [U [A B]]]]]]]].
    destruct (import_of _ _ _ n HI' Hn2) as [y' [oid' [exs' [e' [Ha' [Hy' [U' [A' B']]]]]]]].
    assert (S1 : forall c, In c (rev l') -> In c (rev l)).
    { intros c Hc. apply -> in_rev. apply in_rev in Hc. apply (Permutation_in _ (Permutation_sym P) Hc). }
    assert (S2 : forall c, In c (rev l) -> In c (rev l')).
    { intros c Hc. apply -> in_rev. apply in_rev in Hc. apply (Permutation_in _ P Hc). }
    assert (G1 : forall c, In c (rev l) -> Aggregator.canonical a (fst c) = Aggregator.canonical a' (fst c)).
    { intros c Hc. apply Hagree. apply in_map. now apply in_rev. }
    assert (G2 : forall c, In c (rev l') -> Aggregator.canonical a' (fst c) = Aggregator.canonical a (fst c)).
    { intros c Hc. symmetry. apply G1. now apply S1. }
    exists (KInstance y), (KInstance y'), (XInst e), (XInst e').
    split; [exact Ha|]. split; [exact Ha'|]. split; [exact U|]. split; [exact U'|]. split.
    - exact (sub_of_justified a s (rev l) a' s' (rev l') n HI HI' S1 G1 Hn1 (Hagree n Hn)
                              y oid exs y' oid' exs' e e' Ha Hy Ha' Hy' A B').
    - exact (sub_of_justified a' s' (rev l') a s (rev l) n HI' HI S2 G2 Hn2 (eq_sym (Hagree n Hn))
                              y' oid' exs' y oid exs e' e Ha' Hy' Ha Hy A' B).
  Qed.

  (** ** A conflict makes the history fail: in a successful flat history two contributions of one track agree on every
      export they share *)
  Theorem flat_success_no_conflict l a s :
    Forall flat_contrib l -> NoDup (map ckey l) ->
    aggregate_all ord cf fuel (agg0 tag0) st0 l 0 = inl (a, s) ->
    forall c1 c2, In c1 l -> In c2 l -> compat_spec_b (fst c1) (fst c2) = true ->
    forall en tr1 tr2, exports_of c1 en tr1 -> exports_of c2 en tr2 -> tr1 = tr2.
  Proof.
    intros HF ND H c1 c2 H1 H2 C en tr1 tr2 [i1 [x1 [ek1 [E1 [G1 [In1 U1]]]]]] [i2 [x2 [ek2 [E2 [G2 [In2 U2]]]]]].
    pose proof (HInv_history l _ _ _ [] a s HInv_nil HF ND (fun _ _ X => X) H) as HI. rewrite app_nil_r in HI.
    apply in_rev in H1, H2.
    destruct (h_carried _ _ _ HI c1 H1 i1 x1 E1 G1) as [y1 [o1 [exs1 [A1 [Y1 X1]]]]].
    destruct (h_carried _ _ _ HI c2 H2 i2 x2 E2 G2) as [y2 [o2 [exs2 [A2 [Y2 X2]]]]].
    assert (Ec : Aggregator.canonical a (fst c1) = Aggregator.canonical a (fst c2)).
    { rewrite !canonical_canon. apply (inv_one _ _ _ (h_names _ _ _ HI)); [now apply in_map | now apply in_map|].
      now rewrite compat_is_spec_b. }
    rewrite Ec, A2 in A1. injection A1 as <-. rewrite Y2 in Y1. injection Y1 as <- <-.
    destruct (X1 en ek1 tr1 In1 U1) as [k1 [B1 V1]]. destruct (X2 en ek2 tr2 In2 U2) as [k2 [B2 V2]].
    rewrite B2 in B1. injection B1 as <-.
    destruct (h_flat _ _ _ HI _ _ (assoc_in _ _ _ A2)) as [y3 [o3 [exs3 [Ey [Y3 [_ Hall]]]]]]. injection Ey as <-.
    rewrite Y2 in Y3. injection Y3 as <- <-. destruct (Hall en k2 (assoc_in _ _ _ B2)) as [Lk _].
    eapply UnfK_same_agg; eauto.
  Qed.

  (** ** Aggregating a requirement whose exports are all present changes nothing observable *)
  Lemma fsu_subset a b : (forall k, In k b -> In k a) -> first_seen_union a b = a.
  Proof.
    intros H. unfold first_seen_union.
    assert (E : filter (fun k => negb (existsb (str_eqb k) a)) b = []).
    { induction b as [|k b IH]; cbn [filter]; auto.
      assert (existsb (str_eqb k) a = true) as -> by (apply existsb_str_in; apply H; now left).
      cbn [negb]. apply IH. intros k0 Hk0. apply H. now right. }
    rewrite E. apply app_nil_r.
  Qed.

  Theorem flat_idempotent_step a s done c a' s' y oid exs :
    HInv a s done -> flat_contrib c ->
    (assoc (fst c) (a_imports a) = Some (KInstance y) \/
     (assoc (fst c) (a_imports a) = None /\ exists en, find_compat (fst c) (a_imports a) = Some (en, KInstance y))) ->
    get_if (a_types a) y = Some (mkif oid [] exs) ->
    aggregate ord cf fuel a s (fst c) (fst (snd c)) (snd (snd c)) = AOk (a', s') ->
    forall i x, snd (snd c) = KInstance i -> get_if (fst (snd c)) i = Some x ->
      (forall en ek, In (en, ek) (i_exports x) -> In en (map fst exs)) ->
      exists exs', get_if (a_types a') y = Some (mkif oid [] exs') /\ map fst exs' = map fst exs /\
                   forall en k tr, assoc en exs = Some k -> UnfK (a_types a) k tr ->
                                   exists k', assoc en exs' = Some k' /\ UnfK (a_types a') k' tr.
  Proof.
    intros HI Hfc Hwhere Hy H i x Ek Hg Hsub. destruct c as [name [t k]]. cbn [fst snd] in *.
    assert (Hf : flat_exports (a_types a) exs).
    { destruct Hwhere as [Ha|[_ [en Hf]]].
      - destruct (h_flat _ _ _ HI _ _ (assoc_in _ _ _ Ha)) as [y1 [oid1 [exs1 [Ey [Hy1 Hf1]]]]]. injection Ey as <-. congruence.
      - unfold find_compat in Hf. destruct (alt_key name) as [[ak nv]|]; [|discriminate].
        apply find_on_track_some in Hf as [Hin _].
        destruct (h_flat _ _ _ HI _ _ Hin) as [y1 [oid1 [exs1 [Ey [Hy1 Hf1]]]]]. injection Ey as <-. congruence. }
    pose proof Hfc as [Ct [_ [i0 [x0 [Ek0 [Hg0 [Hfl _]]]]]]]. cbn [fst snd] in *. rewrite Ek in Ek0. injection Ek0 as <-.
    rewrite Hg in Hg0. injection Hg0 as <-.
    assert (L : LoopSt Col tag0 y (core_of a s) oid exs) by (split; [apply (h_minv _ _ _ HI)|exact Hy|exact Hf]).
    assert (Hmerge : forall cc, merge_item_kind ord cf fuel (KInstance y) t k (core_of a s) = AOk (tt, cc) ->
              exists exs', get_if (c_types cc) y = Some (mkif oid [] exs') /\ map fst exs' = map fst exs /\
                forall en k0 tr, assoc en exs = Some k0 -> UnfK (a_types a) k0 tr ->
                                 exists k', assoc en exs' = Some k' /\ UnfK (c_types cc) k' tr).
    { intros cc Hm. rewrite Ek in Hm. cbn [merge_item_kind] in Hm.
      destruct (merge_interface_flat ord cf Col Col_same tag0 Col_tag fuel y t i x _ cc oid exs Ct Hg Hfl L Hm)
        as [exs' [L' [_ [K [_ [Old _]]]]]].
      exists exs'. split; [apply (ls_get _ _ _ _ _ _ L')|]. split; [|exact Old].
      rewrite K. apply fsu_subset. intros k0 Hk0. apply in_map_iff in Hk0 as [[en ek] [<- Hin]]. now apply (Hsub en ek). }
    apply aggregate_cases in H as [[existing [cc [Ea [Hm [-> ->]]]]] | [[en [ek [cc [im [rd' [Ea [Ef [Hm [Hr [-> ->]]]]]]]]]] | [k' [cc [Ea [Ef _]]]]]].
    - destruct Hwhere as [Ha|[Ha _]]; [|congruence]. rewrite Ea in Ha. injection Ha as ->. now apply Hmerge.
    - destruct Hwhere as [Ha|[_ [en' Hf']]]; [congruence|]. rewrite Ef in Hf'. injection Hf' as _ ->. now apply Hmerge.
    - destruct Hwhere as [Ha|[_ [en' Hf']]]; congruence.
  Qed.
End Hist.
