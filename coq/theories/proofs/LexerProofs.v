(** Screening ([detect_invalid_input]): first forbidden code point, byte offset, UTF-8 length. *)
From WacV Require Import Str Ord Token Lexer LexTables LexImpl LexSpec LexTablesProofs.
From Coq Require Import Lia.

(** [screen_from] returns the FIRST character the arms reject, with the byte offset of its first
    byte and its UTF-8 length. *)
Lemma screen_from_some a : forall s o e sp,
  screen_from a o s = Some (e, sp) <->
  exists pre c post, s = pre ++ c :: post /\ (forall x, In x pre -> arm_verdict a x = None) /\
                     arm_verdict a c = Some e /\ sp = {| off := o + byte_len pre; slen := utf8_len c |}.
Proof.
  induction s as [|c s IH]; intros o e sp; cbn [screen_from].
  - split; [discriminate|]. intros (pre & c & post & H & _). destruct pre; discriminate.
  - destruct (arm_verdict a c) as [e'|] eqn:E.
    + split.
      * intros H; inversion H; subst. exists [], c, s. cbn. repeat split; auto; try tauto. f_equal. lia.
      * intros (pre & c' & post & H & Hpre & Hc & ->). destruct pre as [|x pre].
        -- cbn in H. inversion H; subst. rewrite E in Hc. inversion Hc; subst. cbn. do 3 f_equal. lia.
        -- cbn in H. inversion H; subst. specialize (Hpre x (or_introl eq_refl)). congruence.
    + rewrite IH. split.
      * intros (pre & c' & post & -> & Hpre & Hc & ->). exists (c :: pre), c', post. cbn [app byte_len].
        repeat split; auto; [|f_equal; lia]. intros x [<-|Hx]; auto.
      * intros (pre & c' & post & H & Hpre & Hc & ->). destruct pre as [|x pre].
        -- cbn in H. inversion H; subst. congruence.
        -- cbn in H. inversion H; subst. exists pre, c', post. cbn [byte_len].
           repeat split; auto; [|f_equal; lia]. intros y Hy. apply Hpre. now right.
Qed.

Lemma screen_from_none a : forall s o,
  screen_from a o s = None <-> forall x, In x s -> arm_verdict a x = None.
Proof.
  induction s as [|c s IH]; intros o; cbn [screen_from].
  - split; auto. intros _ x [].
  - destruct (arm_verdict a c) eqn:E.
    + split; [discriminate|]. intros H. specialize (H c (or_introl eq_refl)). congruence.
    + rewrite IH. split.
      * intros H x [<-|Hx]; auto.
      * intros H x Hx. apply H. now right.
Qed.

(** The documented predicate (property C12): bidirectional overrides, deprecated code points, and
    control characters other than tab, LF, CR. *)
Definition doc_forbidden (c : N) : bool :=
  negb (mem_N c doc_allowed_controls) && (mem_N c doc_bidi || mem_N c doc_deprecated || is_control c).

Lemma mem_N_In c l : mem_N c l = true <-> In c l.
Proof.
  induction l as [|x l IH]; cbn [mem_N In]; [split; [discriminate|tauto]|].
  rewrite orb_true_iff, N.eqb_eq, IH. tauto.
Qed.

Lemma insert_N_In c x l : In x (insert_N c l) <-> x = c \/ In x l.
Proof.
  induction l as [|y l IH]; cbn; [intuition congruence|]. destruct (c <=? y); cbn; [intuition congruence|]. rewrite IH. intuition congruence.
Qed.

Lemma sort_N_In x l : In x (sort_N l) <-> In x l.
Proof. induction l as [|y l IH]; cbn; [tauto|]. rewrite insert_N_In, IH. intuition. Qed.

Lemma mem_N_sort c l : mem_N c (sort_N l) = mem_N c l.
Proof.
  destruct (mem_N c l) eqn:E.
  - apply (proj2 (mem_N_In _ _)). apply (proj2 (sort_N_In _ _)). now apply (proj1 (mem_N_In _ _)).
  - destruct (mem_N c (sort_N l)) eqn:E2; auto. apply (proj1 (mem_N_In _ _)) in E2. apply (proj1 (sort_N_In _ _)) in E2.
    apply (proj2 (mem_N_In _ _)) in E2. congruence.
Qed.

Lemma arm_verdict_norm a c : arm_verdict (map norm_arm a) c = arm_verdict a c.
Proof.
  induction a as [|[cs|k cs|k|k|] a IH]; cbn [map norm_arm arm_verdict]; auto;
    try rewrite mem_N_sort; rewrite ?IH; reflexivity.
Qed.

(** The arms generated from [lexer.rs] decide exactly the documented predicate. *)
Lemma gen_verdict_documented c :
  (arm_verdict gen_screen_arms c = None <-> doc_forbidden c = false) /\
  (forall e, arm_verdict gen_screen_arms c = Some e ->
     e = (if mem_N c doc_bidi then DisallowedBidirectionalOverride c
          else if mem_N c doc_deprecated then DiscouragedUnicodeCodepoint c
          else DisallowedControlCode c)).
Proof.
  rewrite <- (arm_verdict_norm gen_screen_arms), screen_arms_eq, arm_verdict_norm.
  unfold doc_screen_arms, doc_forbidden. cbn [arm_verdict mk_screen_err].
  destruct (mem_N c doc_allowed_controls); cbn [negb andb].
  { split; [tauto|discriminate]. }
  destruct (mem_N c doc_bidi); cbn [orb].
  { split; [split; discriminate|]. intros e H; now inversion H. }
  destruct (mem_N c doc_deprecated); cbn [orb].
  { split; [split; discriminate|]. intros e H; now inversion H. }
  destruct (is_control c).
  { split; [split; discriminate|]. intros e H; now inversion H. }
  split; [tauto|discriminate].
Qed.

(** [screen_spec]: the screening of the implementation's configuration reports the first documented
    forbidden code point with its byte offset and UTF-8 length, and nothing iff there is none. *)
Lemma screen_spec_some src e sp :
  screen impl_cfg src = Some (e, sp) ->
  exists pre c post, src = pre ++ c :: post /\ forallb (fun x => negb (doc_forbidden x)) pre = true /\
                     doc_forbidden c = true /\ sp = {| off := byte_len pre; slen := utf8_len c |}.
Proof.
  unfold screen, impl_cfg. cbn [arms]. rewrite screen_from_some.
  intros (pre & c & post & -> & Hpre & Hc & ->). exists pre, c, post. repeat split.
  - apply forallb_forall. intros x Hx. apply Hpre in Hx. apply gen_verdict_documented in Hx. now rewrite Hx.
  - destruct (doc_forbidden c) eqn:E; auto. apply gen_verdict_documented in E. congruence.
Qed.

Lemma screen_spec_none src :
  screen impl_cfg src = None <-> forallb (fun x => negb (doc_forbidden x)) src = true.
Proof.
  unfold screen, impl_cfg. cbn [arms]. rewrite screen_from_none, forallb_forall. split.
  - intros H x Hx. apply H in Hx. apply gen_verdict_documented in Hx. now rewrite Hx.
  - intros H x Hx. apply H in Hx. apply gen_verdict_documented. now destruct (doc_forbidden x).
Qed.

(** Any text containing a forbidden code point is rejected by the screening, at the first one. *)
Lemma screen_rejects src pre c post :
  src = pre ++ c :: post -> forallb (fun x => negb (doc_forbidden x)) pre = true -> doc_forbidden c = true ->
  exists e, screen impl_cfg src = Some (e, {| off := byte_len pre; slen := utf8_len c |}).
Proof.
  intros -> Hpre Hc. destruct (arm_verdict gen_screen_arms c) as [e|] eqn:E.
  - exists e. unfold screen, impl_cfg. cbn [arms]. apply screen_from_some. exists pre, c, post. repeat split; auto.
    intros x Hx. rewrite forallb_forall in Hpre. apply Hpre in Hx. apply gen_verdict_documented.
    now destruct (doc_forbidden x).
  - apply gen_verdict_documented in E. congruence.
Qed.
