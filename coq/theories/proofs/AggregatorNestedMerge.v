(** [merge_interface] of a NESTED requirement of a contributor (interfaces possibly shared between several places: [SDen])
    into a tree-shaped interface of the aggregator ([Den]) computes the
    specification's recursive union ([union_with (tmerge_f n)], i.e. [tmerge]) of the two trees: same-named instance
    exports are merged recursively (the repaired branch of the aggregator), same-named leaves must be equal, new exports
    are copied.  The result is tree-shaped again, uses only interfaces it used before plus freshly appended ones, and
    everything outside the merged interface's tree is left alone ([MFrame]). *)
From Coq Require Import ZArith ZifyBool ZifyN Lia.
From WacV Require Import Str Names Types Checker SubSpec CheckerEq CheckerValue CheckerProofs SubSpecProofs.
From WacV Require Import Aggregator AggregatorSpec AggregatorFrame AggregatorRemap AggregatorChecker AggregatorNames
     AggregatorCanonical AggregatorFlat AggregatorHistory AggregatorNestedSpec AggregatorNestedDen AggregatorNestedRemap.

Lemma with_chk_same c : with_chk c (c_chk c) = c. Proof. destruct c; reflexivity. Qed.
Lemma ustep1_ext m m' : (forall x y z, m x y = Some z -> m' x y = Some z) ->
  forall l kb l', ustep1 m l kb = Some l' -> ustep1 m' l kb = Some l'.
Proof.
  intros H l kb l'. unfold ustep1. destruct (assoc (fst kb) l) as [x|]; auto.
  destruct (m x (snd kb)) as [y|] eqn:E; [|discriminate]. now rewrite (H _ _ _ E).
Qed.
Lemma Den_leaf_tree {Sh} d T k tr ids : leaf_tree tr -> DenG Sh d T k tr ids -> leaf_den T k tr /\ ids = [].
Proof.
  destruct d as [|d]; [intros _ []|]. cbn [DenG]. intros L [H|[y [e [_ [-> _]]]]]; [exact H | destruct L].
Qed.

(** a leaf kind against an instance (or the converse) is never accepted, and the memo is not consulted for it *)
Lemma is_subtype_mismatch cf s at_ a bt b r s' :
  (forall x y, In (x, y) (cache s) -> leafk x = true /\ leafk y = true) ->
  (leafk a = true /\ exists j, b = KInstance j) \/ ((exists j, a = KInstance j) /\ leafk b = true) ->
  is_subtype cf s at_ a bt b = (r, s') -> is_ok r = false /\ s' = s.
Proof.
  intros Hc Hm H. destruct cf as [|f]; cbn [is_subtype] in H; [injection H as <- <-; auto|].
  destruct (cache_mem (a, b) (cache s)) eqn:Em.
  { apply cache_mem_in in Em. apply Hc in Em as [La Lb]. destruct Hm as [[_ [j ->]]|[[j ->] _]]; discriminate. }
  assert (X : exists r0, is_subtype_ (is_subtype f) (S f) s at_ a bt b = (r0, s) /\ r0 <> Ok tt).
  { destruct Hm as [[La [j ->]]|[[j ->] Lb]].
    - destruct a as [[| |v| | |]|i| | | |v]; try discriminate La; cbn [is_subtype_ lift]; eexists; (split; [reflexivity|apply mismatch_not_ok]).
    - destruct b as [[| |v| | |]|i| | | |v]; try discriminate Lb; cbn [is_subtype_ lift]; eexists; (split; [reflexivity|apply mismatch_not_ok]). }
  destruct X as [r0 [E N]]. rewrite E in H. destruct r0 as [[]| | |]; [contradiction| | |]; injection H as <- <-; auto.
Qed.

Section NMerge.
  Variable ord : list (str * id) -> list (str * id).
  Variable cf : nat.
  Variable Col : types -> Prop.
  Hypothesis Col_same : forall t1 t2, Col t1 -> Col t2 -> t_tag t1 = t_tag t2 -> t1 = t2.
  Variable tag0 : N.
  Hypothesis Col_tag : forall t, Col t -> t_tag t <> tag0.
  Variable t : types.
  Hypothesis Ct : Col t.
  Notation MI := (MInv Col tag0).

  Lemma MI_cache_leaf c : MI c -> forall x y, In (x, y) (cache (c_chk c)) -> leafk x = true /\ leafk y = true.
  Proof. intros I x y Hin. destruct (mi_cache _ _ _ I x y Hin) as [A [B _]]. auto. Qed.

  Lemma sub_fa_mismatch c sk tk r c' :
    MI c -> (leafk sk = true /\ exists j, tk = KInstance j) \/ ((exists j, sk = KInstance j) /\ leafk tk = true) ->
    sub_fa cf t sk tk c = AOk (r, c') -> is_ok r = false /\ c' = c.
  Proof.
    intros I Hm H. unfold sub_fa in H. destruct (is_subtype cf (c_chk c) t sk (c_types c) tk) as [r0 s0] eqn:E.
    injection H as <- <-. destruct (is_subtype_mismatch _ _ _ _ _ _ _ _ (MI_cache_leaf c I) Hm E) as [Hr ->].
    split; auto. apply with_chk_same.
  Qed.
  Lemma sub_af_mismatch c sk tk r c' :
    MI c -> (leafk sk = true /\ exists j, tk = KInstance j) \/ ((exists j, sk = KInstance j) /\ leafk tk = true) ->
    sub_af cf t tk sk c = AOk (r, c') -> is_ok r = false /\ c' = c.
  Proof.
    intros I Hm H. unfold sub_af in H. destruct (is_subtype cf (c_chk c) (c_types c) tk t sk) as [r0 s0] eqn:E.
    injection H as <- <-.
    assert (Hm' : (leafk tk = true /\ exists j, sk = KInstance j) \/ ((exists j, tk = KInstance j) /\ leafk sk = true)) by tauto.
    destruct (is_subtype_mismatch _ _ _ _ _ _ _ _ (MI_cache_leaf c I) Hm' E) as [Hr ->].
    split; auto. apply with_chk_same.
  Qed.

  (** * The state of the export loop *)
  Record NLoop (d : nat) (c : core) (y : id) (oid : option str) (exs : list (str * kind)) (e : list (str * tree))
         (own : str -> list id) : Prop := {
    nl_inv : MI c;
    nl_get : get_if (c_types c) y = Some (mkif oid [] exs);
    nl_nodup : NoDup (map fst exs);
    nl_kids : kids (Den d (c_types c)) own exs e;
    nl_shaped : shaped y own (map fst exs) }.
  Definition rootids (y : id) (own : str -> list id) (exs : list (str * kind)) : list id := y :: flat_map own (map fst exs).

  Lemma NLoop_IDen d c y oid exs e own : NLoop d c y oid exs e own -> IDen d (c_types c) y oid e (rootids y own exs).
  Proof. intros [I G ND K Sh]. exists exs, own. auto. Qed.

  Lemma NLoop_own_exists d c y oid exs e own n j : NLoop d c y oid exs e own -> In n (map fst exs) -> In j (own n) ->
    id_tag j = t_tag (c_types c) /\ (id_idx j < length (t_interfaces (c_types c)))%nat /\ j <> y /\ id_idx j <> id_idx y.
  Proof.
    intros L Hn Hj. destruct (IDen_exist _ _ _ _ _ _ (NLoop_IDen _ _ _ _ _ _ _ L) j) as [z Hz].
    { right. apply in_flat_own. eauto. }
    apply get_if_lt in Hz as [T1 L1]. destruct (get_if_lt _ _ _ (nl_get _ _ _ _ _ _ _ L)) as [T2 L2].
    assert (N : j <> y) by (intros ->; exact (proj1 (nl_shaped _ _ _ _ _ _ _ L) n Hn Hj)).
    repeat split; auto. intros X. apply N. apply id_eq2; congruence.
  Qed.

  (** [upd_if existing (if_set_export name k')] on the root *)
  Lemma upd_export c1 y oid exs name k' c' :
    MI c1 -> get_if (c_types c1) y = Some (mkif oid [] exs) ->
    upd_if y (if_set_export name k') c1 = AOk (tt, c') ->
    MI c' /\ get_if (c_types c') y = Some (mkif oid [] (ins name k' exs)) /\ ext (c_types c1) (c_types c') /\
    (forall j, id_idx j <> id_idx y -> get_if (c_types c') j = get_if (c_types c1) j) /\
    length (t_interfaces (c_types c')) = length (t_interfaces (c_types c1)) /\
    c_imports c' = c_imports c1 /\ c_ifaces c' = c_ifaces c1 /\ c_remapped c' = c_remapped c1.
  Proof.
    intros I1 Hg H. rewrite (upd_if_ok _ _ _ _ _ Hg H). cbn [if_set_export i_id i_uses i_exports].
    set (T1 := c_types c1). set (T2 := t_with_interfaces T1 (set_nth (id_idx y) (mkif oid [] (ins name k' exs)) (t_interfaces T1))).
    assert (E2 : ext T1 T2) by apply ext_upd_if.
    cbn [c_types c_imports c_ifaces c_remapped with_types]. split; [|split; [|split; [|split; [|split]]]]; auto.
    - split; cbn [c_types c_remapped c_chk with_types].
      + apply (mi_tag _ _ _ I1).
      + intros a b Hx. eapply entry_ok_ext; [exact E2|]. now apply (mi_rinv _ _ _ I1).
      + eapply (CacheInv_ext Col c1); [exact E2 | reflexivity | apply (mi_cache _ _ _ I1)].
    - now apply (get_if_upd_same T1 _ _ _ Hg).
    - intros j N. now apply get_if_upd_other.
    - cbn [t_interfaces t_with_interfaces T2]. apply set_nth_length.
  Qed.

  (** copy the contributor's export and store it under [name] *)
  Lemma do_remap_n d f y name sk tb idb c c' oid exs e own :
    NLoop d c y oid exs e own -> SDen d t sk tb idb ->
    (k' <-- remap_item_kind ord cf f t sk ;;; upd_if y (if_set_export name k')) c = AOk (tt, c') ->
    exists k' ids1,
      MI c' /\ get_if (c_types c') y = Some (mkif oid [] (ins name k' exs)) /\
      Den d (c_types c') k' tb ids1 /\ newids c ids1 /\
      (forall n k0 tr, In n (map fst exs) -> Den d (c_types c) k0 tr (own n) -> Den d (c_types c') k0 tr (own n)) /\
      MFrame (rootids y own exs) c c' /\ rm_frame idb c c'.
  Proof.
    intros L HD H. apply bindM_ok in H as [k' [c1 [H1 H2]]].
    destruct (RK_all ord cf Col Col_same tag0 Col_tag t Ct d f sk tb idb c k' c1 (nl_inv _ _ _ _ _ _ _ L) HD H1)
      as [ids1 [D1 [I1 [E1 [F1 [N1 R1]]]]]].
    pose proof (AExt_get_if _ _ _ _ E1 (nl_get _ _ _ _ _ _ _ L)) as Hg1.
    destruct (upd_export c1 y oid exs name k' c' I1 Hg1 H2) as [I' [Hg' [E2 [Hoth [Hlen [Him [Hif Hrm]]]]]]].
    destruct (get_if_lt _ _ _ (nl_get _ _ _ _ _ _ _ L)) as [Ty Ly].
    exists k', ids1. split; [exact I'|]. split; [exact Hg'|]. split; [|split; [exact N1|split; [|split]]].
    - eapply Den_frame; [exact E2| |exact D1]. intros j z Hj Hz. rewrite Hoth; auto. pose proof (N1 j Hj). lia.
    - intros n k0 tr Hn Hd. eapply Den_frame; [eapply ext_trans; [apply E1|exact E2]| |exact Hd].
      intros j z Hj Hz. destruct (NLoop_own_exists _ _ _ _ _ _ _ n j L Hn Hj) as [_ [_ [_ Nidx]]].
      rewrite Hoth; auto. now apply (AExt_get_if _ _ _ _ E1).
    - split.
      + eapply ext_trans; [apply E1|exact E2].
      + rewrite Hlen. now apply AExt_len.
      + rewrite Him. apply E1.
      + congruence.
      + intros j z Nj Hz. rewrite Hoth; [now apply (AExt_get_if _ _ _ _ E1)|].
        intros X. apply Nj. left. apply get_if_lt in Hz as [Tj _]. apply id_eq2; congruence.
    - intros j Nj. rewrite Hrm. apply R1. intros [].
  Qed.

  (** * The merge *)
  Definition ML (d : nat) : Prop := forall F y oid ea ids i oidb eb idsb c c',
    MI c -> IDen d (c_types c) y oid ea ids -> SIDen d t i oidb eb idsb ->
    merge_interface ord cf F y t i c = AOk (tt, c') ->
    exists em ids', (exists n, union_with (tmerge_f n) ea eb = Some em) /\
      IDen d (c_types c') y oid em ids' /\ MI c' /\ MFrame ids c c' /\ rm_frame idsb c c' /\
      (forall j, In j ids' -> In j ids \/ (length (t_interfaces (c_types c)) <= id_idx j)%nat).

  Lemma NLoop_same d c c2 y oid exs e own :
    c_types c2 = c_types c -> MI c2 -> NLoop d c y oid exs e own -> NLoop d c2 y oid exs e own.
  Proof. intros E I [_ G ND K Sh]. split; auto; rewrite E; auto. Qed.
  Lemma MFrame_same ids c c' :
    c_types c' = c_types c -> c_imports c' = c_imports c -> c_ifaces c' = c_ifaces c -> MFrame ids c c'.
  Proof. intros E1 E2 E3. split; auto; rewrite E1; auto using ext_refl. Qed.
  Lemma nested_pair_leaf_t tk sk e : leafk tk = true -> nested_pair tk sk e = None.
  Proof. destruct tk as [[| | | | |]| | | | |]; try discriminate; reflexivity. Qed.

  Lemma shaped_upd d c y oid exs e own name ids2 names :
    NLoop d c y oid exs e own ->
    (forall j, In j ids2 -> (In name (map fst exs) /\ In j (own name)) \/ (length (t_interfaces (c_types c)) <= id_idx j)%nat) ->
    (forall n, In n names -> n = name \/ In n (map fst exs)) ->
    shaped y (upd own name ids2) names.
  Proof.
    intros L Hsub Hnames. destruct (get_if_lt _ _ _ (nl_get _ _ _ _ _ _ _ L)) as [Ty Ly].
    destruct (nl_shaped _ _ _ _ _ _ _ L) as [Sh1 Sh2].
    assert (Hnew : forall j n, In n (map fst exs) -> In j (own n) -> (length (t_interfaces (c_types c)) <= id_idx j)%nat -> False).
    { intros j n Hn Hj X. destruct (NLoop_own_exists _ _ _ _ _ _ _ n j L Hn Hj) as [_ [Lj _]]. lia. }
    assert (Hcase : forall n j, In n names -> In j (upd own name ids2 n) ->
                                (n = name /\ In j ids2) \/ (n <> name /\ In n (map fst exs) /\ In j (own n))).
    { intros n j Hn Hj. unfold upd in Hj. destruct (str_eqb n name) eqn:E.
      - apply seqb_eq in E. left. auto.
      - right. assert (n <> name) by (intros ->; rewrite seqb_refl in E; discriminate).
        destruct (Hnames n Hn); [contradiction|auto]. }
    split.
    - intros n Hn Hj. destruct (Hcase n y Hn Hj) as [[-> Hj2]|[N [Hn' Hj']]].
      + destruct (Hsub y Hj2) as [[Hin X]|X]; [exact (Sh1 name Hin X) | lia].
      + exact (Sh1 n Hn' Hj').
    - intros n m j Hn Hm Nnm Hjn Hjm.
      destruct (Hcase n j Hn Hjn) as [[-> Hj2]|[N1 [Hn' Hj1]]], (Hcase m j Hm Hjm) as [[-> Hj3]|[N2 [Hm' Hj4]]].
      + contradiction.
      + destruct (Hsub j Hj2) as [[Hin X]|X]; [exact (Sh2 name m j Hin Hm' Nnm X Hj4) | exact (Hnew j m Hm' Hj4 X)].
      + destruct (Hsub j Hj3) as [[Hin X]|X]; [exact (Sh2 n name j Hn' Hin Nnm Hj1 X) | exact (Hnew j n Hn' Hj1 X)].
      + exact (Sh2 n m j Hn' Hm' Nnm Hj1 Hj4).
  Qed.

  (** one export of the contributor *)
  Lemma nbody d (HML : forall d', d = S d' -> ML d') f y name sk tb idb c c' oid exs e own :
    NLoop d c y oid exs e own -> SDen d t sk tb idb ->
    merge_export_body ord cf f y t (name, sk) c = AOk (tt, c') ->
    exists exs' e' own', NLoop d c' y oid exs' e' own' /\
      (exists n, ustep1 (tmerge_f n) e (name, tb) = Some e') /\
      MFrame (rootids y own exs) c c' /\ rm_frame idb c c' /\
      (forall j, In j (rootids y own' exs') ->
                 In j (rootids y own exs) \/ (length (t_interfaces (c_types c)) <= id_idx j)%nat).
  Proof.
    intros L HD H. unfold merge_export_body in H.
    apply bindM_ok in H as [ex [c0 [H0 H]]]. unfold agg_if in H0. rewrite (nl_get _ _ _ _ _ _ _ L) in H0. cbn [idxM] in H0.
    apply ret_ok in H0 as [-> ->]. cbn [i_exports] in H.
    pose proof (nl_kids _ _ _ _ _ _ _ L) as K. pose proof (nl_nodup _ _ _ _ _ _ _ L) as ND. pose proof (nl_inv _ _ _ _ _ _ _ L) as I.
    destruct (assoc name exs) as [tk|] eqn:Ea.
    2: { (* a new export *)
      destruct (do_remap_n d f y name sk tb idb c c' oid exs e own L HD H) as [k' [ids1 [I' [Hg' [D1 [N1 [Hold [Fr Rm]]]]]]]].
      assert (Hnin : ~ In name (map fst exs)) by now apply assoc_none_keys.
      exists (ins name k' exs), (e ++ [(name, tb)]), (upd own name ids1).
      split; [split|split; [|split; [|split]]].
      - exact I'.
      - exact Hg'.
      - now apply nodup_keys_ins.
      - rewrite (ins_new_app _ _ _ Ea). apply kids_app.
        + apply (kids_impl (Den d (c_types c)) (Den d (c_types c')) own (upd own name ids1) exs e); [|exact K].
          intros n k0 tr Hin Hd. assert (Hn : In n (map fst exs)) by (change n with (fst (n, k0)); now apply in_map).
          rewrite upd_other by (intros ->; contradiction). now apply Hold.
        + now rewrite upd_same.
      - eapply shaped_upd; [exact L| |].
        + intros j Hj. right. now apply N1.
        + intros n Hn. rewrite (keys_ins_new _ _ _ Ea) in Hn. apply in_app_or in Hn as [Hn|[<-|[]]]; auto.
      - exists O. unfold ustep1. cbn [fst snd]. now rewrite (kids_assoc_none _ _ _ _ _ K Ea).
      - exact Fr.
      - exact Rm.
      - intros j [<-|Hj]; [left; now left|]. apply in_flat_own in Hj as [n [Hn Hj]]. rewrite (keys_ins_new _ _ _ Ea) in Hn.
        apply in_app_or in Hn as [Hn|[<-|[]]].
        + rewrite upd_other in Hj by (intros ->; contradiction). left. right. apply in_flat_own. eauto.
        + rewrite upd_same in Hj. right. now apply N1. }
    (* the export exists already *)
    destruct (kids_assoc _ _ _ _ _ _ K Ea) as [ta [Eta Dk]].
    assert (Hname : In name (map fst exs)) by (eapply assoc_in_keys; eauto).
    destruct (nl_shaped _ _ _ _ _ _ _ L) as [Sh1 Sh2].
    destruct d as [|d']; [destruct Dk|]. cbn [DenG] in Dk, HD.
    destruct Dk as [[Lk Eown]|[y' [ea' [-> [-> IDk]]]]], HD as [[Ls ->]|[j' [eb' [-> [-> IDs]]]]].
    - (* leaf / leaf *)
      destruct Lk as [Lt [Ut Rt]], Ls as [Ls [Us Rs]].
      assert (Wta : wt (S d') ta).
      { apply (@Den_wt shaped (c_types c) (S d') tk ta (own name)). cbn [DenG]. left. split; [split; [exact Lt|split; [exact Ut|exact Rt]]|exact Eown]. }
      rewrite (nested_pair_leaf tk sk y Ls) in H.
      apply bindM_ok in H as [r1 [c1 [H1 H]]].
      destruct (sub_fa_leaf cf Col Col_same tag0 Col_tag t c sk tk r1 c1 tb ta Ct I Ls Lt Us Ut H1) as [Ec1 [I1 Ok1]].
      assert (Tc1 : c_types c1 = c_types c) by (rewrite Ec1; reflexivity).
      assert (Hstep : tb = ta -> exists n, ustep1 (tmerge_f n) e (name, tb) = Some e).
      { intros ->. exists (S d'). unfold ustep1. cbn [fst snd]. rewrite Eta. rewrite (tmerge_f_idem (S d') (S d') ta Wta (le_n _)).
        now rewrite (set_assoc_same _ _ _ Eta). }
      destruct (is_ok r1) eqn:Er1.
      + (* accepted: nothing changes but the remap table *)
        specialize (Ok1 eq_refl).
        assert (Hset : exists rm, c' = with_remapped c1 rm /\ RInv Col (with_remapped c1 rm) /\
                                  forall i0, rm_get (TInterface i0) rm = rm_get (TInterface i0) (c_remapped c1)).
        { destruct (replaceable (ty_of sk) (ty_of tk)).
          - unfold remapped_set in H. injection H as <-. eexists. split; [reflexivity|]. split.
            + apply RInv_set; [apply (mi_rinv _ _ _ I1)|]. rewrite Tc1. subst tb. eapply entry_ok_leaf; eauto.
            + intros i0. rewrite rm_get_ins_other; auto.
              destruct sk as [[| |v| | |]|fi| | | |v]; try discriminate Ls; discriminate.
          - apply ret_ok in H as [_ ->]. exists (c_remapped c1). split; [destruct c1; reflexivity|]. split; auto.
            intros k0 k1 Hk. apply (mi_rinv _ _ _ I1 k0 k1 Hk). }
        destruct Hset as [rm [-> [HR Hnoif]]].
        assert (I' : MI (with_remapped c1 rm)).
        { split; cbn [c_types c_remapped c_chk with_remapped]; [apply (mi_tag _ _ _ I1) | exact HR | apply (mi_cache _ _ _ I1)]. }
        exists exs, e, own. split; [apply (NLoop_same (S d') c); auto|]. split; [now apply Hstep|].
        split; [apply MFrame_same; cbn [c_types c_imports c_ifaces with_remapped]; rewrite Ec1; reflexivity|].
        split; [|auto]. intros j _. cbn [c_remapped with_remapped]. rewrite Hnoif, Ec1. reflexivity.
      + (* otherwise the target must be a subtype of the source: the source is copied and replaces the export *)
        apply bindM_ok in H as [r2 [c2 [H2 H]]]. apply bindM_ok in H as [u [c3 [H3 H]]].
        rewrite <- Tc1 in Ut.
        destruct (sub_af_leaf cf Col Col_same tag0 Col_tag t c1 sk tk r2 c2 tb ta Ct I1 Ls Lt Us Ut H2) as [Ec2 [I2 Ok2]].
        destruct r2 as [[]| | |]; cbn [must] in H3; try discriminate. apply ret_ok in H3 as [_ ->].
        specialize (Ok2 eq_refl). subst tb.
        assert (Tc2 : c_types c2 = c_types c) by (rewrite Ec2, <- Tc1; reflexivity).
        assert (L2 : NLoop (S d') c2 y oid exs e own) by (apply (NLoop_same (S d') c); auto).
        assert (HD2 : SDen (S d') t sk ta []) by (cbn [DenG]; left; split; [split; auto|reflexivity]).
        destruct (do_remap_n (S d') f y name sk ta [] c2 c' oid exs e own L2 HD2 H)
          as [k' [ids1 [I' [Hg' [D1 [N1 [Hold [Fr Rm]]]]]]]].
        assert (Lta : leaf_tree ta) by (eapply leaf_den_tree; split; eauto).
        destruct (Den_leaf_tree _ _ _ _ _ Lta D1) as [_ ->].
        exists (ins name k' exs), e, own. split; [split|split; [|split; [|split]]].
        * exact I'.
        * exact Hg'.
        * now apply nodup_keys_ins.
        * apply (kids_set_kind (Den (S d') (c_types c')) own exs e name tk k' ta); auto; [|now rewrite Eown].
          apply (kids_impl (Den (S d') (c_types c)) (Den (S d') (c_types c')) own own exs e); [|exact K].
          intros n k0 tr Hin Hd. assert (Hn : In n (map fst exs)) by (change n with (fst (n, k0)); now apply in_map).
          apply Hold; auto. now rewrite Tc2.
        * rewrite (keys_ins_old _ _ _ _ Ea). split; auto.
        * now apply Hstep.
        * eapply MFrame_trans; [|exact Fr]. rewrite Ec2. eapply MFrame_trans; [|apply MFrame_chk]. rewrite Ec1. apply MFrame_chk.
        * intros j Nj. rewrite (Rm j Nj). rewrite Ec2, Ec1. reflexivity.
        * intros j Hj. left. unfold rootids in *. now rewrite (keys_ins_old _ _ _ _ Ea) in Hj.
    - (* leaf target, instance source: rejected *)
      exfalso. destruct Lk as [Lt _]. rewrite (nested_pair_leaf_t tk (KInstance j') y Lt) in H.
      apply bindM_ok in H as [r1 [c1 [H1 H]]].
      destruct (sub_fa_mismatch c (KInstance j') tk r1 c1 I (or_intror (conj (ex_intro _ j' eq_refl) Lt)) H1) as [Er1 ->].
      rewrite Er1 in H. apply bindM_ok in H as [r2 [c2 [H2 H]]]. apply bindM_ok in H as [u [c3 [H3 H]]].
      destruct (sub_af_mismatch c (KInstance j') tk r2 c2 I (or_intror (conj (ex_intro _ j' eq_refl) Lt)) H2) as [Er2 ->].
      destruct r2 as [[]| | |]; cbn [must is_ok] in *; discriminate.
    - (* instance target, leaf source: rejected *)
      exfalso. destruct Ls as [Ls _]. rewrite (nested_pair_leaf (KInstance y') sk y Ls) in H.
      apply bindM_ok in H as [r1 [c1 [H1 H]]].
      destruct (sub_fa_mismatch c sk (KInstance y') r1 c1 I (or_introl (conj Ls (ex_intro _ y' eq_refl))) H1) as [Er1 ->].
      rewrite Er1 in H. apply bindM_ok in H as [r2 [c2 [H2 H]]]. apply bindM_ok in H as [u [c3 [H3 H]]].
      destruct (sub_af_mismatch c sk (KInstance y') r2 c2 I (or_introl (conj Ls (ex_intro _ y' eq_refl))) H2) as [Er2 ->].
      destruct r2 as [[]| | |]; cbn [must is_ok] in *; discriminate.
    - (* instance / instance: merged recursively *)
      assert (Hy'own : In y' (own name)).
      { destruct IDk as [exs0 [own0 [_ [_ [_ [_ ->]]]]]]. now left. }
      assert (Ny : id_eqb y' y = false).
      { destruct (id_eqb y' y) eqn:E; auto. apply ideqb_eq in E. subst y'. exfalso. exact (Sh1 name Hname Hy'own). }
      cbn [nested_pair] in H. rewrite Ny in H.
      apply bindM_ok in H as [[] [c1 [H1 H]]].
      destruct (HML d' eq_refl f y' None ea' (own name) j' None eb' idb c c1 I IDk IDs H1)
        as [em' [ids2 [[n Hn] [ID2 [I1 [Fr1 [Rm1 Sub2]]]]]]].
      unfold remapped_set in H. injection H as <-. cbn [ty_of].
      set (c' := with_remapped c1 (rm_ins (TInterface j') (TInterface y') (c_remapped c1))).
      assert (I' : MI c').
      { split; cbn [c_types c_remapped c_chk with_remapped c']; [apply (mi_tag _ _ _ I1) | | apply (mi_cache _ _ _ I1)].
        apply RInv_set; [apply (mi_rinv _ _ _ I1)|]. exact Logic.I. }
      assert (Hj'idb : In j' idb).
      { destruct IDs as [exs0 [own0 [_ [_ [_ [_ ->]]]]]]. now left. }
      exists exs, (set_assoc name (XInst em') e), (upd own name ids2).
      split; [split|split; [|split; [|split]]].
      + exact I'.
      + cbn [c_types with_remapped c']. apply (mf_other _ _ _ Fr1); [exact (Sh1 name Hname) | apply (nl_get _ _ _ _ _ _ _ L)].
      + exact ND.
      + apply (kids_set_tree (Den (S d') (c_types c)) (Den (S d') (c_types c')) own (upd own name ids2) exs e name (KInstance y') (XInst em'));
          auto.
        * intros n0 k0 tr Hin Nn Hd. assert (Hn' : In n0 (map fst exs)) by (change n0 with (fst (n0, k0)); now apply in_map).
          rewrite upd_other by auto. eapply Den_frame; [apply Fr1| |exact Hd].
          intros j z Hj Hz. apply (mf_other _ _ _ Fr1); auto. intros X. exact (Sh2 n0 name j Hn' Hname Nn Hj X).
        * rewrite upd_same. cbn [DenG]. right. exists y', em'. split; auto.
      + eapply shaped_upd; [exact L| |auto].
        intros j Hj. destruct (Sub2 j Hj); auto.
      + exists (S n). unfold ustep1. cbn [fst snd]. rewrite Eta. cbn [tmerge_f]. rewrite Hn. reflexivity.
      + eapply MFrame_trans; [|apply MFrame_remapped]. eapply MFrame_weaken; [|exact Fr1].
        intros j Hj. right. apply in_flat_own. eauto.
      + intros j Nj. cbn [c_remapped with_remapped c']. rewrite rm_get_ins_other; [now apply Rm1|].
        intros X. injection X as ->. contradiction.
      + intros j [<-|Hj]; [left; now left|]. apply in_flat_own in Hj as [n0 [Hn0 Hj]]. unfold upd in Hj.
        destruct (str_eqb n0 name) eqn:E.
        * destruct (Sub2 j Hj) as [X|X]; [|now right]. left. right. apply in_flat_own. eauto.
        * left. right. apply in_flat_own. eauto.
  Qed.

  (** all exports of the contributor *)
  Lemma nloop d (HML : forall d', d = S d' -> ML d') f y oid : forall rest eb ownb c c' exs e own,
    NLoop d c y oid exs e own -> kids (SDen d t) ownb rest eb -> NoDup (map fst rest) ->
    forM (merge_export_body ord cf f y t) rest c = AOk (tt, c') ->
    exists exs' e' own', NLoop d c' y oid exs' e' own' /\ (exists n, union_with (tmerge_f n) e eb = Some e') /\
      MFrame (rootids y own exs) c c' /\ rm_frame (flat_map ownb (map fst rest)) c c' /\
      (forall j, In j (rootids y own' exs') ->
                 In j (rootids y own exs) \/ (length (t_interfaces (c_types c)) <= id_idx j)%nat).
  Proof.
    induction rest as [|[name sk] rest IH]; intros eb ownb c c' exs e own L K ND H; cbn [forM] in H.
    - apply ret_ok in H as [_ ->]. inversion K; subst. exists exs, e, own. split; auto. split; [exists O; reflexivity|].
      split; [apply MFrame_refl|]. split; [apply rm_frame_refl|auto].
    - inversion K as [|? [n' tb] ? eb0 [En Hk] K0]; subst. cbn [fst snd] in *. subst n'.
      cbn [map fst] in ND. inversion ND as [|? ? Hn ND']; subst.
      apply bindM_ok in H as [[] [c1 [H1 H]]].
      destruct (nbody d HML f y name sk tb (ownb name) c c1 oid exs e own L Hk H1)
        as [exs1 [e1 [own1 [L1 [[n1 U1] [Fr1 [Rm1 Sub1]]]]]]].
      destruct (IH eb0 ownb c1 c' exs1 e1 own1 L1 K0 ND' H)
        as [exs' [e' [own' [L' [[n2 U2] [Fr2 [Rm2 Sub2]]]]]]].
      exists exs', e', own'. split; auto. split; [|split; [|split]].
      + exists (Nat.max n1 n2). rewrite union_with_cons.
        rewrite (ustep1_ext (tmerge_f n1) (tmerge_f (Nat.max n1 n2))
                            (fun x1 y1 z1 E => tmerge_f_mono n1 x1 y1 z1 E _ (Nat.le_max_l n1 n2)) _ _ _ U1).
        eapply union_with_ext; [|exact U2]. intros x1 y1 z1 E. eapply tmerge_f_mono; [exact E|apply Nat.le_max_r].
      + pose proof (mf_len _ _ _ Fr1). pose proof (mf_len _ _ _ Fr2).
        split.
        * eapply ext_trans; [apply Fr1|apply Fr2].
        * lia.
        * rewrite (mf_imports _ _ _ Fr2). apply Fr1.
        * rewrite (mf_ifaces _ _ _ Fr2). apply Fr1.
        * intros j z Nj Hz. apply (mf_other _ _ _ Fr2); [|apply (mf_other _ _ _ Fr1); auto].
          intros X. destruct (Sub1 j X) as [Y|Y]; [contradiction|]. apply get_if_lt in Hz. lia.
      + cbn [map fst flat_map]. eapply rm_frame_trans; eapply rm_frame_weaken; [| exact Rm1 | | exact Rm2];
          intros j Hj; apply in_or_app; auto.
      + intros j Hj. destruct (Sub2 j Hj) as [X|X]; [|right; pose proof (mf_len _ _ _ Fr1); lia].
        destruct (Sub1 j X); auto.
  Qed.

  Lemma ML_of d (HML : forall d', d = S d' -> ML d') : ML d.
  Proof.
    intros F y oid ea ids i oidb eb idsb c c' I [exs [own [Hg [ND [K [Sh ->]]]]]] [exsb [ownb [Hgb [NDb [Kb [_ ->]]]]]] H.
    destruct F as [|f]; [discriminate|]. rewrite merge_interface_S in H.
    apply bindM_ok in H as [[] [c1 [H1 H]]].
    assert (c1 = c) as ->.
    { destruct f as [|f]; [discriminate|]. cbn [merge_interface_used_types] in H1.
      apply bindM_ok in H1 as [src [c0 [H0 H1]]]. rewrite Hgb in H0. cbn [idxM] in H0. apply ret_ok in H0 as [-> ->].
      cbn [i_uses forM] in H1. now apply ret_ok in H1 as [_ ->]. }
    apply bindM_ok in H as [src [c0 [H0 H]]]. rewrite Hgb in H0. cbn [idxM] in H0. apply ret_ok in H0 as [-> ->].
    cbn [i_exports] in H.
    assert (L : NLoop d c y oid exs ea own) by (split; auto).
    destruct (nloop d HML f y oid exsb eb ownb c c' exs ea own L Kb NDb H) as [exs' [e' [own' [L' [U [Fr [Rm Sub]]]]]]].
    exists e', (rootids y own' exs'). split; [exact U|]. split; [now apply (NLoop_IDen d)|]. split; [apply L'|].
    split; [exact Fr|]. split; [|exact Sub]. eapply rm_frame_weaken; [|exact Rm]. intros j Hj. now right.
  Qed.

  Theorem ML_all : forall d, ML d.
  Proof.
    induction d as [|d IH]; apply ML_of; intros d' E; [discriminate|]. injection E as <-. exact IH.
  Qed.
End NMerge.
