(** The exports loop, the name section, and the assembly of [wiring_correct] from the three phases
    (imports, nodes, exports/names). *)
From Coq Require Import List Arith Bool NArith Lia.
From WacV Require Import Str Graph Wiring WiringSpec EncodeModel WiringDecode EncodeBasics WiringOrder WiringSim SemverProofs.
Import ListNotations.
Local Open Scope nat_scope.
Arguments node_prov : simpl never.
Arguments node_sort : simpl never.
Arguments cnt : simpl never.
Arguments nat_assoc : simpl never.

Lemma look_names_app sp a b :
  look_names sp (a ++ b) = match look_names sp a, look_names sp b with
                           | Some x, Some y => Some (x ++ y)
                           | _, _ => None
                           end.
Proof.
  induction a as [|[[s i] nm] r IH]; cbn.
  - now destruct (look_names sp b).
  - destruct (look sp s i); [|now destruct (look_names sp r); destruct (look_names sp b)].
    rewrite IH. destruct (look_names sp r); auto. destruct (look_names sp b); auto.
Qed.

Lemma flat_map_list_prod {A B C} (f : A * B -> list C) (la : list A) (lb : list B) :
  flat_map f (list_prod la lb) = flat_map (fun a => flat_map (fun b => f (a, b)) lb) la.
Proof.
  induction la as [|a r IH]; cbn; auto. rewrite flat_map_app, IH. f_equal.
  clear. induction lb as [|b r IH]; cbn; auto. now rewrite IH.
Qed.

Section Final.
  Variable e : wenv.
  Variable u : universe.
  Variable g : gstate.
  Variable dc : bool.
  Variable tau : tyenc.
  Variable ord : list nat.
  Hypothesis EI : EncInv e u g.
  Hypothesis T : Topo g ord.

  Notation ns := (node_sort e g).
  Notation np := (node_prov e u g ord).
  Notation other := (filter (fun m => negb (is_import g m)) ord).
  Notation LInv := (LInv e u g dc ord).

  Lemma filter_inst_other : filter (is_inst g) ord = filter (is_inst g) other.
  Proof.
    clear T EI. induction ord as [|m r IH]; cbn; auto.
    destruct (is_import g m) eqn:Im; cbn.
    - assert (is_inst g m = false) as ->; auto.
      unfold is_import, is_inst in *. destruct (get_node g m) as [nd|]; auto. destruct (nk nd); auto; discriminate.
    - destruct (is_inst g m); cbn; now rewrite IH.
  Qed.
  Lemma filter_def_other : filter (is_def g) ord = filter (is_def g) other.
  Proof.
    clear T EI. induction ord as [|m r IH]; cbn; auto.
    destruct (is_import g m) eqn:Im; cbn.
    - assert (is_def g m = false) as ->; auto.
      unfold is_import, is_def in *. destruct (get_node g m) as [nd|]; auto. destruct (nk nd); auto; discriminate.
    - destruct (is_def g m); cbn; now rewrite IH.
  Qed.

  (** ** exports loop *)
  Definition export_entry (p : name * nat) : list parg :=
    if is_def g (snd p) && str_eqb (nstr e (fst p)) (def_name e g (snd p)) then []
    else [(nstr e (fst p), ns (snd p), np (snd p))].

  Definition export_step (st : est) (p : name * nat) : res est :=
    if is_def g (snd p) then ROk st else
    match nat_assoc (snd p) (e_nidx st) with
    | None => RErr (EPanic XNodeIndexMissing)
    | Some idx => ROk (emit st (IExport (nstr e (fst p)) (node_sort e g (snd p)) idx))
    end.

  Record XInv (st1 : est) (d1 : dstate) (pre : list (name * nat)) (st : est) (d : dstate) : Prop := {
    xi_dec : decode_from d_init (e_log st) = Some d;
    xi_ext : sp_ext (d_sp d1) (d_sp d);
    xi_nidx : e_nidx st = e_nidx st1;
    xi_insts : d_insts d = d_insts d1;
    xi_comps : d_comps d = d_comps d1;
    xi_exports : map (erase1 e g) (d_exports d) = map (erase1 e g) (d_exports d1) ++ flat_map export_entry pre }.

  Lemma exports_loop done st1 d1 st2 :
    LInv done st1 d1 -> enc_exports e g st1 = ROk st2 ->
    exists d2, XInv st1 d1 (exports g) st2 d2.
  Proof.
    intros LI F. unfold enc_exports in F.
    apply (fold_res_ind export_step (fun pre st => exists d, XInv st1 d1 pre st d) _ _ _ F).
    - exists d1. constructor; auto.
      + apply (li_dec _ _ _ _ _ _ _ _ LI).
      + apply sp_ext_refl.
      + cbn. now rewrite app_nil_r.
    - intros pre [nm n] post st st' El [d [A X N I C E]] R. unfold export_step in R. cbn in R.
      assert (Ie : In (nm, n) (exports g)) by (rewrite El; apply in_or_app; cbn; auto).
      destruct (is_def g n) eqn:Dn.
      + injection R as <-. exists d. constructor; auto.
        assert (Z : export_entry (nm, n) = []).
        { unfold export_entry. cbn. now rewrite Dn, (ei_def_single _ _ _ EI _ _ Ie Dn), str_eqb_refl. }
        now rewrite flat_map_snoc, Z, app_nil_r.
      + destruct (nat_assoc n (e_nidx st)) as [idx|] eqn:Na; try discriminate. injection R as <-.
        rewrite N in Na. destruct (li_nidx _ _ _ _ _ _ _ _ LI _ _ Na) as [_ Lk].
        pose proof (sp_ext_look _ _ _ _ _ X Lk) as Lk'.
        set (d' := {| d_sp := push (d_sp d) (ns n) (PExp (nstr e nm)); d_insts := d_insts d;
                      d_exports := d_exports d ++ [(nstr e nm, ns n, np n)]; d_comps := d_comps d; d_imports := d_imports d |}).
        exists d'. constructor; auto.
        * cbn. rewrite (decode_from_snoc _ _ _ _ A). cbn. now rewrite Lk'.
        * eapply sp_ext_trans; [exact X | apply sp_ext_push].
        * assert (Z : export_entry (nm, n) = [(nstr e nm, ns n, np n)]) by (unfold export_entry; cbn; now rewrite Dn).
          cbn. rewrite map_app, E, flat_map_snoc, Z, <- app_assoc. f_equal. f_equal. cbn.
          rewrite (ei_nondef_names _ _ _ EI _ _ Ie Dn), andb_false_r. reflexivity.
  Qed.

  (** ** name section *)
  Definition name_entry (sn : sort * nat) : list (sort * str * prov) :=
    match get_node g (snd sn) with
    | Some nd => match nname nd with
                 | Some nm => if sort_eqb (we_sort e (nitem nd)) (fst sn) then [(fst sn, nstr e nm, np (snd sn))] else []
                 | None => [] end
    | None => []
    end.

  Definition name_step (st : est) (l : list (sort * nat * str)) (sn : sort * nat) : res (list (sort * nat * str)) :=
    match get_node g (snd sn) with
    | Some nd =>
        match nname nd with
        | Some nm =>
            if sort_eqb (we_sort e (nitem nd)) (fst sn) then
              match nat_assoc (snd sn) (e_nidx st) with
              | Some idx => ROk (l ++ [(fst sn, idx, nstr e nm)])
              | None => RErr (EPanic XNodeIndexMissing)
              end
            else ROk l
        | None => ROk l
        end
    | None => ROk l
    end.

  Lemma fold_left_ext {A B} (f f' : A -> B -> A) l a : (forall a x, f a x = f' a x) -> fold_left f l a = fold_left f' l a.
  Proof. intros H. revert a. induction l as [|x r IH]; intros a; cbn; auto. now rewrite H, IH. Qed.

  Lemma enc_names_eq st :
    enc_names e g st = fold_left (fun acc sn => bind acc (fun l => name_step st l sn)) (list_prod name_sorts (node_ids g)) (ROk []).
  Proof.
    unfold enc_names. apply fold_left_ext. intros acc [s n]. destruct acc; reflexivity.
  Qed.

  Lemma names_loop st sp names :
    (forall n idx, nat_assoc n (e_nidx st) = Some idx -> look sp (ns n) idx = Some (np n)) ->
    enc_names e g st = ROk names ->
    look_names sp names = Some (spec_names e u g ord).
  Proof.
    intros Nx F. rewrite enc_names_eq in F.
    assert (S : spec_names e u g ord = flat_map name_entry (list_prod name_sorts (node_ids g))).
    { rewrite flat_map_list_prod. unfold spec_names. apply flat_map_ext. intros s. apply flat_map_ext. intros n.
      unfold name_entry. cbn. reflexivity. }
    rewrite S.
    apply (fold_res_ind (name_step st) (fun pre l => look_names sp l = Some (flat_map name_entry pre)) _ _ _ F).
    - reflexivity.
    - intros pre [s n] post l l' _ IH R. unfold name_step in R. cbn in R.
      rewrite flat_map_snoc.
      assert (Z : name_entry (s, n) = match get_node g n with
                                       | Some nd => match nname nd with
                                                    | Some nm => if sort_eqb (we_sort e (nitem nd)) s then [(s, nstr e nm, np n)] else []
                                                    | None => [] end
                                       | None => [] end) by reflexivity.
      rewrite Z. clear Z.
      destruct (get_node g n) as [nd|] eqn:G; [|injection R as <-; now rewrite app_nil_r].
      destruct (nname nd) as [nm|]; [|injection R as <-; now rewrite app_nil_r].
      destruct (sort_eqb (we_sort e (nitem nd)) s) eqn:Es; [|injection R as <-; now rewrite app_nil_r].
      destruct (nat_assoc n (e_nidx st)) as [idx|] eqn:Na; try discriminate. injection R as <-.
      apply sort_eqb_eq in Es. pose proof (Nx _ _ Na) as Lk. unfold node_sort in Lk. rewrite G, Es in Lk.
      rewrite look_names_app, IH. cbn. now rewrite Lk.
  Qed.

  (** ** assembly: from the state after [encode_imports] to the decoded wiring *)
  Theorem wiring_after_imports st0 d0 st2 names :
    LInv [] st0 d0 ->
    bind (fold_left (fun acc n => bind acc (fun st => enc_node e u g dc tau st n)) other (ROk st0))
         (fun st1 => bind (enc_exports e g st1) (fun st2 => bind (enc_names e g st2) (fun ns => ROk (st2, ns)))) = ROk (st2, names) ->
    option_map (erase_defs (def_names e g)) (decode_wiring names (e_log st2)) = Some (wiring_spec e u g dc ord)
    /\ e_dedup st2 = e_dedup st0.
  Proof.
    intros L0 R.
    apply bind_ok in R as [st1 [R1 R]]. apply bind_ok in R as [st2' [R2 R]]. apply bind_ok in R as [nms [R3 R]].
    injection R as <- <-.
    destruct (node_loop e u g dc tau ord EI T _ _ _ L0 R1) as [d1 [LI1 Dd1]].
    destruct (exports_loop _ _ _ _ LI1 R2) as [d2 [A X N I C E]].
    assert (Nx : forall n idx, nat_assoc n (e_nidx st2') = Some idx -> look (d_sp d2) (ns n) idx = Some (np n)).
    { intros n idx Hn. rewrite N in Hn. destruct (li_nidx _ _ _ _ _ _ _ _ LI1 _ _ Hn) as [_ Lk]. eapply sp_ext_look; eauto. }
    pose proof (names_loop _ _ _ Nx R3) as Ln.
    split.
    - unfold decode_wiring. rewrite A, Ln. cbn. unfold erase_defs, wiring_spec. cbn. f_equal. f_equal.
      + rewrite I, (li_insts _ _ _ _ _ _ _ _ LI1), filter_inst_other. reflexivity.
      + change (map (erase1 e g) (d_exports d2) = spec_exports e u g ord).
        rewrite E, (li_exports _ _ _ _ _ _ _ _ LI1). unfold spec_exports. rewrite filter_def_other. f_equal.
      + rewrite C, (li_comps _ _ _ _ _ _ _ _ LI1). unfold pkgs_in_order, done_pkgs. rewrite filter_inst_other. reflexivity.
    - (* exports and names do not touch the de-duplication record *)
      assert (Dx : e_dedup st2' = e_dedup st1).
      { clear -R2. unfold enc_exports in R2.
        apply (fold_res_ind export_step (fun _ st => e_dedup st = e_dedup st1) _ _ _ R2); auto.
        intros pre p post st st' _ IH Rs. unfold export_step in Rs. destruct (is_def g (snd p)); [injection Rs as <-; auto|].
        destruct (nat_assoc (snd p) (e_nidx st)); try discriminate. injection Rs as <-. exact IH. }
      congruence.
  Qed.
End Final.
