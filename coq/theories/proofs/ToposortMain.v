(** C02: the emission order of the MODEL of [toposort] satisfies the hypothesis of [wiring_correct].
    Final forms over the C06 invariant [Inv], and the corollaries for the encoder model. *)
From Coq Require Import List Arith Bool NArith Lia Permutation Relation_Operators.
From WacV Require Import Str Graph Wiring WiringSpec EncodeModel GraphInv WiringDecode WiringOrder WiringSim WiringCorrect
  WiringWitness ToposortDfs ToposortPhase1 ToposortPhase2.
Import ListNotations.
Local Open Scope nat_scope.

Lemma Inv_edges_live u g : Inv u g -> EdgesLive g.
Proof. intros I e He. now apply (inv_edges_live u g I). Qed.

(** 1. phase one enumerates exactly the live nodes, once each; the model's fuel is sufficient (any larger
       fuel gives the same answer: the out-of-fuel exit of [dfs_loop] is never taken); its only failure is
       the self loop exit *)
Lemma toposort_phase1_perm u g : Inv u g ->
  (forall f, dfs_fuel g <= f -> topo_phase1_fuel g f = topo_phase1 g) /\
  (forall ord, topo_phase1 g = Some ord -> Permutation ord (node_ids g) /\ NoDup ord) /\
  (topo_phase1 g = None -> exists e, In e (edges g) /\ esrc e = etgt e).
Proof.
  intros I. pose proof (Inv_edges_live u g I) as EL. split; [|split].
  - intros f Hf. now apply phase1_fuel.
  - intros ord. now apply phase1_perm.
  - now apply phase1_none_self_loop.
Qed.

(** 2. on an acyclic graph (no path from a node to itself; in particular when some rank increases along
       every edge) the order is a topological order and the second phase, as coded, reports no cycle *)
Lemma toposort_acyclic_is_topo u g : Inv u g -> ~ has_cycle g ->
  exists ord, toposort g = Some ord /\ topo_orderb g ord = true /\ Topo g ord /\ toposort_full g = inl ord.
Proof.
  intros I NC. destruct (toposort_acyclic_some g (Inv_edges_live u g I) NC) as [ord [A [_ [B C]]]].
  exists ord. split; [exact A|]. split; [exact B|]. split; [now apply topo_orderb_Topo | exact C].
Qed.

Lemma toposort_ranked_is_topo u g rk : Inv u g -> RankedBy g rk ->
  exists ord, toposort g = Some ord /\ topo_orderb g ord = true /\ Topo g ord /\ toposort_full g = inl ord.
Proof. intros I HR. apply (toposort_acyclic_is_topo u g I). eapply ranked_no_cycle; eauto. Qed.

(** 3. success means: no cycle, and the order is a valid input of [wiring_correct]; a graph with a cycle
       yields the cycle error; the two-phase rendering of the code and the model's order check agree *)
Lemma toposort_cycle_detected u g : Inv u g ->
  (forall ord, toposort g = Some ord -> topo_orderb g ord = true /\ ~ has_cycle g /\ RankedBy g (fun n => index_of n ord)) /\
  (toposort g = None <-> has_cycle g) /\
  toposort g = match toposort_full g with inl ord => Some ord | inr _ => None end.
Proof.
  intros I. pose proof (Inv_edges_live u g I) as EL. split; [|split].
  - intros ord H. pose proof (toposort_some_topo g ord H) as T. split; auto. split.
    + eapply toposort_some_acyclic; eauto.
    + now apply topo_order_ranked.
  - now apply toposort_none_iff_cycle.
  - now apply toposort_full_eq.
Qed.

(** 4. [wiring_correct] for the order the model of the code produces *)
Lemma wiring_correct_real_order e u g dc tau ord st names :
  Inv u g -> EncInv e u g -> toposort_full g = inl ord ->
  encode_with_order e u g dc tau ord = ROk (st, names) ->
  (forall p, In p (e_dedup st) -> fst p = snd p) ->
  option_map (erase_defs (def_names e g)) (decode_wiring names (e_log st)) = Some (wiring_spec e u g dc ord).
Proof.
  intros I EI F E D. pose proof (toposort_full_eq g (Inv_edges_live u g I)) as Q. rewrite F in Q.
  eapply wiring_correct; eauto. now apply toposort_some_topo.
Qed.

Lemma wiring_correct_encode_model e u g dc tau st names :
  Inv u g -> EncInv e u g ->
  encode_model e u g dc tau = ROk (st, names) ->
  (forall p, In p (e_dedup st) -> fst p = snd p) ->
  exists ord, toposort_full g = inl ord /\ Permutation ord (node_ids g) /\ ~ has_cycle g /\
    option_map (erase_defs (def_names e g)) (decode_wiring names (e_log st)) = Some (wiring_spec e u g dc ord).
Proof.
  intros I EI E D. pose proof (Inv_edges_live u g I) as EL. unfold encode_model in E.
  destruct (toposort g) as [ord|] eqn:T; [|discriminate]. exists ord.
  pose proof (toposort_full_eq g EL) as Q. rewrite T in Q.
  assert (F : toposort_full g = inl ord) by (destruct (toposort_full g); [now injection Q as -> | discriminate]).
  split; auto. split; [|split].
  - unfold toposort in T. destruct (topo_phase1 g) as [o|] eqn:P1; [|discriminate].
    destruct (topo_orderb g o); [|discriminate]. injection T as ->. now apply (phase1_perm g ord EL).
  - eapply toposort_some_acyclic; eauto.
  - eapply wiring_correct; eauto. now apply toposort_some_topo.
Qed.

Lemma encode_model_cycle e u g dc tau : Inv u g -> has_cycle g -> encode_model e u g dc tau = RErr ECycle.
Proof.
  intros I C. unfold encode_model.
  apply (toposort_none_iff_cycle g (Inv_edges_live u g I)) in C. now rewrite C.
Qed.

(** 5. "index order for independent nodes" (the comment on [toposort]) is FALSE of the faithful model:
       three instantiations 0, 1, 2 and an alias 3 of an export of 2 passed to 0. Nodes 0 and 1 are not
       connected in either direction, 0 < 1, and 1 is emitted first (the order is 1, 2, 3, 0).
       What does hold is proved for C16 in proofs/ToposortOrder.v (a node not reachable from any node of
       larger index precedes all nodes of larger index; forward-only graphs are emitted in index order). *)
Definition ops_index_order : list op :=
  [Register 0; Instantiate (0, 0); Instantiate (0, 0); Instantiate (0, 0); Alias 2 3%N; SetArg 0 0%N 3].

Lemma reach_first g a b : reach g a b -> succs g a <> [].
Proof. induction 1 as [a b H|]; auto. intros E. unfold gedge in H. rewrite E in H. destruct H. Qed.

Lemma index_order_refuted :
  exists ops a b ord, let g := run w_universe ops in
    toposort_full g = inl ord /\ live g a = true /\ live g b = true /\ a < b /\
    ~ reach g a b /\ ~ reach g b a /\ index_of b ord < index_of a ord.
Proof.
  exists ops_index_order, 0, 1, [1; 2; 3; 0]. cbv zeta.
  split; [vm_compute; reflexivity|]. split; [vm_compute; reflexivity|]. split; [vm_compute; reflexivity|].
  split; [lia|]. split; [|split].
  - intros H. apply reach_first in H. apply H. vm_compute. reflexivity.
  - intros H. apply reach_first in H. apply H. vm_compute. reflexivity.
  - vm_compute. lia.
Qed.

(** non-vacuity of the cycle clause: an instantiation that receives an alias of its own export as argument
    (reachable through the API); phase one succeeds, phase two as coded reports node 0 *)
Definition ops_cycle : list op := [Register 0; Instantiate (0, 0); Alias 0 3%N; SetArg 0 0%N 1].

Lemma cycle_instance :
  let g := run w_universe ops_cycle in
  has_cycle g /\ topo_phase1 g = Some [1; 0] /\ toposort_full g = inr (Some 0) /\ toposort g = None /\
  encode_model w_env w_universe g true w_tau = RErr ECycle.
Proof.
  cbv zeta. split; [|vm_compute; auto].
  exists 0. apply t_trans with 1; apply t_step; unfold gedge; vm_compute; auto.
Qed.
