(** C04 proofs, part 9: the resolver model simulates the reference evaluation of LangSpec.
    Definitions: the relation between a resolver state and a specification environment. *)
From Coq Require Import List Arith Bool NArith Lia.
From WacV Require Import Str Token Lexer Semver Names Ast Graph Resolver LangSpec ResolverProofs ResolverNew
  ResolverStmts ResolverInv.
Import ListNotations.
Local Open Scope nat_scope.

(** the class of a diagnostic *)
Definition class_of (e : rerr) : illformed :=
  match e with
  | EUndefinedName n _ => IUndefinedName n
  | EDuplicateName n _ => IDuplicateName n
  | EUnknownPackage n _ => IUnknownPackage n
  | EPackageMissingExport s _ | EPackagePathMissingExport s _ => IUnknownPath s
  | EMissingComponentImport n _ => IUnknownArgument n
  | EMismatchedInstantiationArg n _ => IArgumentMismatch n
  | EDuplicateInstantiationArg n _ => IDuplicateArgument n
  | EMissingInstantiationArg n _ => IMissingArgument n
  | ENotAnInstance OpAccess _ => INonInstanceAccess
  | ENotAnInstance OpSpread _ => INonInstanceSpread
  | EMissingInstanceExport n _ => IUnknownExport n
  | EExportRequiresAs _ => IExportNeedsName
  | EExportConflict n _ => IConflictingExport n
  | EDuplicateExternName XImport n _ => IConflictingImport n
  | EDuplicateExternName XExport n _ => IConflictingExport n
  | EInvalidExternName _ n _ => IInvalidName n
  | EFillArgumentNotLast _ => IFillNotLast
  | ESpreadInstantiationNoMatch _ | ESpreadExportNoEffect _ => IIneffectiveSpread
  end.

Definition fail_matches (f : fail) (i : illformed) : Prop :=
  match f with
  | FErr e => class_of e = i
  | FUnsupported _ => i = IOutOfScope
  | FPanic _ => False
  end.

Definition prefix {A} (a b : list A) : Prop := exists c, b = a ++ c.
Lemma prefix_refl {A} (a : list A) : prefix a a.
Proof. exists []. now rewrite app_nil_r. Qed.
Lemma prefix_trans {A} (a b c : list A) : prefix a b -> prefix b c -> prefix a c.
Proof. intros [x ->] [y ->]. exists (x ++ y). now rewrite app_assoc. Qed.
Lemma prefix_nth {A} (a b : list A) n x : prefix a b -> nth_error a n = Some x -> nth_error b n = Some x.
Proof. intros [c ->] H. rewrite nth_error_app1; auto. apply nth_error_Some. congruence. Qed.
Lemma prefix_snoc {A} (a : list A) x : prefix a (a ++ [x]).
Proof. now exists [x]. Qed.

Section Sim.
  Variable u : runiverse.
  Variable self_name : str.
  (** the kinds of the universe *)
  Variable K : kid -> Prop.

  (** well-formedness of the universe (facts about how the driver/harness build it) *)
  Record uok : Prop := {
    uo_text_intern : forall s, ru_text u (ru_intern u s) = s;
    uo_intern_imports : forall p pd n k, nth_error (u_pkgs u) p = Some pd -> In (n, k) (pd_imports pd) ->
                        ru_intern u (ru_text u n) = n;
    uo_intern_exports : forall k ex n k', u_inst_exports u k = Some ex -> In (n, k') ex -> ru_intern u (ru_text u n) = n;
    uo_pkg_find : forall nm v p, ru_pkg_find u nm v = Some p -> p < length (u_pkgs u);
    uo_imports_nodup : forall p pd, nth_error (u_pkgs u) p = Some pd -> NoDup (map fst (pd_imports pd));
    uo_lk : forall k, K k -> nth_error (u_lkinds u) (N.to_nat k) = Some k;
    uo_K_promote : forall k, K k -> K (ru_promote u k);
    uo_K_func : forall s k, ru_func_kind u s = Some k -> K k;
    uo_K_defs : forall p s k, In (s, k) (ru_pkg_defs u p) -> K k;
    uo_K_proj : forall k ex s k', K k -> ru_proj_exports u k = Some ex -> In (s, k') ex -> K k';
    uo_K_inst : forall p pd, nth_error (u_pkgs u) p = Some pd -> K (pd_inst pd);
    uo_K_exports : forall k ex n k', K k -> u_inst_exports u k = Some ex -> In (n, k') ex -> K k' }.

  (** the argument edges of instantiation node [k] are what the bindings [si] say *)
  Definition arg_edges_ok (g : gstate) (vm : list sval) (k : nat) (si : sinst) : Prop :=
    exists pd, nth_error (u_pkgs u) (si_pkg si) = Some pd /\
      map fst (si_bindings si) = map fst (text_items u (pd_imports pd)) /\
      forall idx i kd b, nth_error (pd_imports pd) idx = Some (i, kd) ->
        nth_error (si_bindings si) idx = Some (ru_text u i, b) ->
        match binding_value (ru_text u i) b with
        | Some v => exists src, In {| esrc := src; etgt := k; ek := EArg idx |} (edges g) /\ nth_error vm src = Some v /\
                      forall src', In {| esrc := src'; etgt := k; ek := EArg idx |} (edges g) -> src' = src
        | None => forall src, ~ In {| esrc := src; etgt := k; ek := EArg idx |} (edges g)
        end.

  Definition node_ok (g : gstate) (env : senv) (vm : list sval) (k : nat) (nd : node) (v : sval) : Prop :=
    K (nitem nd) /\ val_kind u env v = Some (nitem nd) /\ nk nd <> NDef /\
    match v with
    | VImport nm => nk nd = NImport (ru_intern u nm)
    | VInst j =>
        (exists sat, nk nd = NInst sat) /\
        exists si id, nth_error (se_insts env) j = Some si /\ npkg nd = Some id /\ get_pkg g id = Some (si_pkg si) /\
                      arg_edges_ok g vm k si
    | VAccess w e => nk nd = NAlias /\ exists src idx, In {| esrc := src; etgt := k; ek := EAlias idx |} (edges g)
    end.

  Record Rel (st : rstate) (env : senv) (vm : list sval) : Prop := {
    r_free : nofree (rs_g st);
    r_len : length vm = length (nodes (rs_g st));
    r_live : forall k, k < length (nodes (rs_g st)) -> get_node (rs_g st) k <> None;
    r_edges : forall e, In e (edges (rs_g st)) ->
              esrc e < length (nodes (rs_g st)) /\ etgt e < length (nodes (rs_g st));
    r_node : forall k nd v, get_node (rs_g st) k = Some nd -> nth_error vm k = Some v -> node_ok (rs_g st) env vm k nd v;
    r_alias : forall e idx, In e (edges (rs_g st)) -> ek e = EAlias idx ->
      exists sn ex nm kd w, get_node (rs_g st) (esrc e) = Some sn /\ u_inst_exports u (nitem sn) = Some ex /\
        nth_error ex idx = Some (nm, kd) /\ nth_error vm (esrc e) = Some w /\
        nth_error vm (etgt e) = Some (VAccess w (ru_text u nm));
    r_scope : Forall2 (fun a b => fst a = fst b /\ nth_error vm (fst (snd a)) = Some (snd b)) (rs_scope st) (se_names env);
    r_exports : Forall2 (fun a b => fst a = ru_intern u (fst b) /\ nth_error vm (snd a) = Some (snd b))
                        (exports (rs_g st)) (se_exports env);
    r_imports : Forall2 (fun a b => fst a = ru_intern u (fst b) /\ nth_error vm (snd a) = Some (VImport (fst b)) /\
                                    exists nd, get_node (rs_g st) (snd a) = Some nd /\ nitem nd = snd b)
                        (rev (imports (rs_g st))) (se_imports env);
    r_insts : forall j, j < length (se_insts env) -> exists k, nth_error vm k = Some (VInst j) }.

  Lemma rel_init : Rel init_state empty_env [].
  Proof.
    constructor; cbn.
    - split; reflexivity.
    - reflexivity.
    - intros k0 H. lia.
    - intros e [].
    - intros k0 nd v H. unfold get_node in H. cbn in H. destruct k0; discriminate.
    - intros e idx [].
    - constructor.
    - constructor.
    - constructor.
    - intros j H. lia.
  Qed.

  (** ** environments only grow *)
  Definition env_le (e e' : senv) : Prop :=
    prefix (se_imports e) (se_imports e') /\ prefix (se_insts e) (se_insts e').

  Lemma env_le_refl e : env_le e e.
  Proof. split; apply prefix_refl. Qed.

  Lemma im_get_prefix {V} (a b : list (str * V)) k v : prefix a b -> im_get a k = Some v -> im_get b k = Some v.
  Proof. intros [c ->] H. rewrite im_get_app. now rewrite H. Qed.

  Lemma val_kind_mono e e' v k : env_le e e' -> val_kind u e v = Some k -> val_kind u e' v = Some k.
  Proof.
    intros [Pi Pn]. revert k. induction v as [nm|j|w IH x]; intros k; cbn [val_kind].
    - now apply im_get_prefix.
    - destruct (nth_error (se_insts e) j) as [si|] eqn:E; [|discriminate]. now rewrite (prefix_nth _ _ _ _ Pn E).
    - destruct (val_kind u e w) as [kw|]; [|discriminate]. now rewrite (IH kw eq_refl).
  Qed.

  (** ** the frame lemma: a state change that keeps the old nodes (kind, tag, package), keeps the old
      edges and adds edges only towards new nodes *)
  Definition alias_edge_ok (g : gstate) (vm : list sval) (e : edge) (idx : nat) : Prop :=
    exists sn ex nm kd w, get_node g (esrc e) = Some sn /\ u_inst_exports u (nitem sn) = Some ex /\
      nth_error ex idx = Some (nm, kd) /\ nth_error vm (esrc e) = Some w /\
      nth_error vm (etgt e) = Some (VAccess w (ru_text u nm)).

  Definition scope_ok (vm : list sval) (sc : scope) (names : list (str * sval)) : Prop :=
    Forall2 (fun a b => fst a = fst b /\ nth_error vm (fst (snd a)) = Some (snd b)) sc names.
  Definition exports_ok (vm : list sval) (ex : list (name * nat)) (sx : list (str * sval)) : Prop :=
    Forall2 (fun a b => fst a = ru_intern u (fst b) /\ nth_error vm (snd a) = Some (snd b)) ex sx.
  Definition imports_ok (g : gstate) (vm : list sval) (si : list (str * kid)) : Prop :=
    Forall2 (fun a b => fst a = ru_intern u (fst b) /\ nth_error vm (snd a) = Some (VImport (fst b)) /\
                        exists nd, get_node g (snd a) = Some nd /\ nitem nd = snd b)
            (rev (imports g)) si.

  Lemma Rel_frame st env vm st' env' vm' :
    Rel st env vm ->
    nofree (rs_g st') ->
    length vm' = length (nodes (rs_g st')) -> prefix vm vm' -> env_le env env' ->
    length (nodes (rs_g st)) <= length (nodes (rs_g st')) ->
    (forall k nd, get_node (rs_g st) k = Some nd ->
       exists nd', get_node (rs_g st') k = Some nd' /\ nitem nd' = nitem nd /\ nk nd' = nk nd /\ npkg nd' = npkg nd) ->
    (forall id p, get_pkg (rs_g st) id = Some p -> get_pkg (rs_g st') id = Some p) ->
    (forall e, In e (edges (rs_g st)) -> In e (edges (rs_g st'))) ->
    (forall e, In e (edges (rs_g st')) -> In e (edges (rs_g st)) \/
        (length (nodes (rs_g st)) <= etgt e /\ esrc e < length (nodes (rs_g st')) /\ etgt e < length (nodes (rs_g st')) /\
         forall idx, ek e = EAlias idx -> alias_edge_ok (rs_g st') vm' e idx)) ->
    (forall k, length (nodes (rs_g st)) <= k -> k < length (nodes (rs_g st')) ->
       exists nd v, get_node (rs_g st') k = Some nd /\ nth_error vm' k = Some v /\ node_ok (rs_g st') env' vm' k nd v) ->
    scope_ok vm' (rs_scope st') (se_names env') ->
    exports_ok vm' (exports (rs_g st')) (se_exports env') ->
    imports_ok (rs_g st') vm' (se_imports env') ->
    (forall j, j < length (se_insts env') -> exists k, nth_error vm' k = Some (VInst j)) ->
    Rel st' env' vm'.
  Proof.
    intros R NF Len Pv Le LenN Hold Hpk Hkeep Hnew Hnodes Hsc Hex Him Hin.
    assert (Oldv : forall k nd, get_node (rs_g st) k = Some nd -> k < length vm).
    { intros k nd G. rewrite (r_len _ _ _ R). apply nth_error_Some. unfold get_node in G. intros X. rewrite X in G. discriminate. }
    constructor; auto.
    - intros k Hk. destruct (Nat.lt_ge_cases k (length (nodes (rs_g st)))) as [Lo|Hi].
      + pose proof (r_live _ _ _ R k Lo) as X. destruct (get_node (rs_g st) k) as [nd|] eqn:G; [|now contradiction X].
        destruct (Hold k nd G) as (nd' & G' & _). congruence.
      + destruct (Hnodes k Hi Hk) as (nd & v & G & _). congruence.
    - intros e He. destruct (Hnew e He) as [Ho|(A & B & C & _)]; auto.
      destruct (r_edges _ _ _ R e Ho). lia.
    - intros k nd' v G' V'. destruct (Nat.lt_ge_cases k (length (nodes (rs_g st)))) as [Lo|Hi].
      + pose proof (r_live _ _ _ R k Lo) as X. destruct (get_node (rs_g st) k) as [nd|] eqn:G; [|now contradiction X].
        destruct (Hold k nd G) as (nd2 & G2 & I2 & K2 & P2). rewrite G' in G2. injection G2 as <-.
        assert (V : nth_error vm k = Some v).
        { destruct Pv as [c ->]. rewrite nth_error_app1 in V'; auto. rewrite (r_len _ _ _ R). exact Lo. }
        destruct (r_node _ _ _ R k nd v G V) as (HK & VK & ND & Tag).
        unfold node_ok. rewrite I2, K2, P2. split; [exact HK|]. split; [eapply val_kind_mono; eauto|]. split; [exact ND|].
        destruct v as [nm|j|w x]; auto.
        * destruct Tag as (Sat & si & id & Sj & Pk & GP & AE). split; auto. exists si, id.
          split; [exact (prefix_nth _ _ _ _ (proj2 Le) Sj)|]. split; auto. split; auto.
          destruct AE as (pd & Ppd & Mf & AE). exists pd. split; auto. split; auto.
          intros idx i kd b N1 N2. specialize (AE idx i kd b N1 N2).
          destruct (binding_value (ru_text u i) b) as [bv|].
          -- destruct AE as (src & Ein & Vs & Uq). exists src. split; auto. split; [exact (prefix_nth _ _ _ _ Pv Vs)|].
             intros src' E'. destruct (Hnew _ E') as [Ho|(A & _)]; [auto|]. cbn in A. lia.
          -- intros src E'. destruct (Hnew _ E') as [Ho|(A & _)]; [exact (AE src Ho)|]. cbn in A. lia.
        * destruct Tag as (KA & src & idx & Ein). split; auto. exists src, idx. auto.
      + destruct (Hnodes k Hi) as (nd & v0 & G & V & NO).
        { apply nth_error_Some. unfold get_node in G'. intros X. rewrite X in G'. discriminate. }
        rewrite G' in G. injection G as <-. rewrite V' in V. injection V as <-. exact NO.
    - intros e idx He Ke. destruct (Hnew e He) as [Ho|(_ & _ & _ & A)]; [|now apply A].
      destruct (r_alias _ _ _ R e idx Ho Ke) as (sn & ex & nm & kd & w & G & U & N & V1 & V2).
      destruct (Hold _ _ G) as (sn' & G' & I' & _). exists sn', ex, nm, kd, w. rewrite I'.
      repeat split; auto; eapply prefix_nth; eauto.
  Qed.

  (** ** small facts *)
  Lemma Forall2_impl {A B} (P Q : A -> B -> Prop) l l' : (forall a b, P a b -> Q a b) -> Forall2 P l l' -> Forall2 Q l l'.
  Proof. intros H. induction 1; constructor; auto. Qed.

  Lemma scope_ok_mono vm vm' sc names : prefix vm vm' -> scope_ok vm sc names -> scope_ok vm' sc names.
  Proof. intros P H. eapply Forall2_impl; [|exact H]. intros a b [A0 B0]. split; auto. eapply prefix_nth; eauto. Qed.

  Lemma exports_ok_mono vm vm' ex sx : prefix vm vm' -> exports_ok vm ex sx -> exports_ok vm' ex sx.
  Proof. intros P H. eapply Forall2_impl; [|exact H]. intros a b [A0 B0]. split; auto. eapply prefix_nth; eauto. Qed.

  Lemma scope_get vm sc names nm :
    scope_ok vm sc names ->
    match im_get sc nm with
    | Some (n, _) => exists v, im_get names nm = Some v /\ nth_error vm n = Some v
    | None => im_get names nm = None
    end.
  Proof.
    induction 1 as [|[k [n a]] [k' v] sc names [E V] H IH]; cbn; auto. cbn in E, V. subst k'.
    destruct (str_eqb k nm); [eauto|exact IH].
  Qed.

  Lemma exports_get vm ex sx nm :
    uok -> exports_ok vm ex sx ->
    match alist_get N.eqb ex (ru_intern u nm) with
    | Some n => exists v, im_get sx nm = Some v /\ nth_error vm n = Some v
    | None => im_get sx nm = None
    end.
  Proof.
    intros U. induction 1 as [|[k n] [k' v] ex sx [E V] H IH]; cbn; auto. cbn in E, V. subst k.
    destruct (N.eqb_spec (ru_intern u k') (ru_intern u nm)) as [Eq|Ne].
    - assert (k' = nm) by (rewrite <- (uo_text_intern U k'), Eq; apply (uo_text_intern U)). subst k'.
      rewrite str_eqb_refl. eauto.
    - destruct (str_eqb k' nm) eqn:Es; [apply str_eqb_eq in Es; subst; now contradiction Ne|exact IH].
  Qed.

  Lemma alist_get_rev_None {B} (l : list (name * B)) k : alist_get N.eqb (rev l) k = None <-> alist_get N.eqb l k = None.
  Proof.
    assert (X : forall l : list (name * B), alist_get N.eqb l k = None <-> forall v, ~ In (k, v) l).
    { induction l0 as [|[a b] l0 IH]; cbn; [split; auto|]. destruct (N.eqb_spec a k) as [->|Ne].
      - split; [discriminate|]. intros H. exfalso. apply (H b). now left.
      - rewrite IH. split; intros H v; [intros [[= -> _]|Hi]; [congruence|exact (H v Hi)]|intros Hi; apply (H v); now right]. }
    rewrite !X. split; intros H v Hi; apply (H v); [apply in_rev in Hi; exact Hi|apply in_rev; exact Hi].
  Qed.

  Lemma imports_get g vm si nm :
    uok -> imports_ok g vm si ->
    (alist_get N.eqb (imports g) (ru_intern u nm) = None <-> has_key si nm = false).
  Proof.
    intros U H. rewrite <- alist_get_rev_None. unfold imports_ok in H. induction H as [|[k n] [k' kd] l si (E & V & _) H IH]; cbn.
    - split; reflexivity.
    - cbn in E. subst k. unfold has_key. cbn.
      destruct (N.eqb_spec (ru_intern u k') (ru_intern u nm)) as [Eq|Ne].
      + assert (k' = nm) by (rewrite <- (uo_text_intern U k'), Eq; apply (uo_text_intern U)). subst k'.
        rewrite str_eqb_refl. split; discriminate.
      + destruct (str_eqb k' nm) eqn:Es; [apply str_eqb_eq in Es; subst; now contradiction Ne|exact IH].
  Qed.

  (** the source name of a node is the source name of its value *)
  Lemma node_source_val st env vm k nd v :
    uok -> Rel st env vm -> get_node (rs_g st) k = Some nd -> nth_error vm k = Some v ->
    node_source u (rs_g st) k = val_source v.
  Proof.
    intros U R G V. destruct (r_node _ _ _ R k nd v G V) as (_ & _ & _ & Tag). unfold node_source. rewrite G.
    assert (AS : forall src nm, get_alias_source u (rs_g st) k = Some (src, nm) ->
                 exists w, v = VAccess w (ru_text u nm)).
    { unfold get_alias_source. intros src nm. destruct (find _ (incoming (rs_g st) k)) as [e|] eqn:Fd; [|discriminate].
      apply find_some in Fd as [He Ke]. unfold incoming in He. apply filter_In in He as [He T]. apply Nat.eqb_eq in T.
      destruct (ek e) as [idx| |] eqn:Kk; try discriminate.
      destruct (r_alias _ _ _ R e idx He Kk) as (sn & ex & nm' & kd & w & G1 & U1 & N1 & V1 & V2).
      rewrite G1, U1, N1. intros [= <- <-]. rewrite T, V in V2. injection V2 as ->. eauto. }
    destruct v as [nm|j|w x]; cbn [val_source].
    - rewrite Tag. now rewrite (uo_text_intern U).
    - destruct Tag as ((sat & ->) & _). destruct (get_alias_source u (rs_g st) k) as [[src nm]|] eqn:E; auto.
      destruct (AS _ _ eq_refl) as (w & X). discriminate.
    - destruct Tag as (-> & src & idx & Ein).
      destruct (get_alias_source u (rs_g st) k) as [[src' nm]|] eqn:E.
      + destruct (AS _ _ eq_refl) as (w' & [= _ ->]). reflexivity.
      + exfalso. unfold get_alias_source in E.
        destruct (find _ (incoming (rs_g st) k)) as [e|] eqn:Fd.
        * apply find_some in Fd as [He Ke]. unfold incoming in He. apply filter_In in He as [He T].
          destruct (ek e) as [idx'| |] eqn:Kk; try discriminate.
          destruct (r_alias _ _ _ R e idx' He Kk) as (sn & ex & nm' & kd & w' & G1 & U1 & N1 & _).
          rewrite G1, U1, N1 in E. discriminate.
        * assert (Hi : In {| esrc := src; etgt := k; ek := EAlias idx |} (incoming (rs_g st) k)).
          { unfold incoming. apply filter_In. split; auto. cbn. apply Nat.eqb_refl. }
          pose proof (find_none _ _ Fd _ Hi) as X. discriminate.
  Qed.

  Lemma imports_ok_mono g g' vm vm' si :
    prefix vm vm' -> imports g' = imports g ->
    (forall k nd, get_node g k = Some nd -> exists nd', get_node g' k = Some nd' /\ nitem nd' = nitem nd /\ nk nd' = nk nd /\ npkg nd' = npkg nd) ->
    imports_ok g vm si -> imports_ok g' vm' si.
  Proof.
    intros P E Hold H. unfold imports_ok in *. rewrite E. eapply Forall2_impl; [|exact H].
    intros a b (A0 & B0 & nd & G & I0). split; auto. split; [eapply prefix_nth; eauto|].
    destruct (Hold _ _ G) as (nd' & G' & I' & _). exists nd'. split; auto. congruence.
  Qed.

  (** ** names of the universe: text-level and index-level lookups agree *)
  Lemma get_full_text (l : list (name * kid)) nm :
    uok -> (forall n k, In (n, k) l -> ru_intern u (ru_text u n) = n) ->
    forall i,
    match im_get (text_items u l) nm with
    | Some kd => exists idx, get_full l (ru_intern u nm) i = Some (i + idx, kd) /\ nth_error l idx = Some (ru_intern u nm, kd)
    | None => get_full l (ru_intern u nm) i = None
    end.
  Proof.
    intros U. induction l as [|[n0 k0] l IH]; intros Hl i; cbn; auto.
    assert (E : str_eqb (ru_text u n0) nm = N.eqb n0 (ru_intern u nm)).
    { destruct (N.eqb_spec n0 (ru_intern u nm)) as [->|Ne].
      - rewrite (uo_text_intern U). apply str_eqb_refl.
      - destruct (str_eqb (ru_text u n0) nm) eqn:Es; auto. apply str_eqb_eq in Es. exfalso. apply Ne.
        rewrite <- Es. symmetry. apply (Hl n0 k0). now left. }
    rewrite E. destruct (N.eqb_spec n0 (ru_intern u nm)) as [->|Ne].
    - exists 0. rewrite Nat.add_0_r. auto.
    - specialize (IH (fun n k H => Hl n k (or_intror H)) (Datatypes.S i)).
      fold (text_items u l). destruct (im_get (text_items u l) nm); auto. destruct IH as (idx & A0 & B0). exists (Datatypes.S idx).
      rewrite <- plus_n_Sm. auto.
  Qed.

  (** ** the alias operation *)
  Lemma alias_sim st env vm item nd w exN nm :
    uok -> Rel st env vm ->
    get_node (rs_g st) item = Some nd -> nth_error vm item = Some w ->
    u_inst_exports u (nitem nd) = Some exN -> has_key (text_items u exN) nm = true ->
    exists g' n vm',
      alias u (rs_g st) item (ru_intern u nm) = (g', ONode n) /\ prefix vm vm' /\
      Rel {| rs_g := g'; rs_scope := rs_scope st |} env vm' /\ nth_error vm' n = Some (VAccess w nm).
  Proof.
    intros U R G V UE HK.
    pose proof (get_full_text exN nm U (fun n k H => uo_intern_exports U _ _ _ _ UE H) 0) as GF.
    unfold has_key in HK. destruct (im_get (text_items u exN) nm) as [kd|] eqn:IG; [|discriminate].
    destruct GF as (idx & GF & Nt). cbn in GF.
    unfold alias. rewrite G, UE, GF.
    destruct (find _ (outgoing (rs_g st) item)) as [ed|] eqn:Fd.
    - (* the alias exists *)
      apply find_some in Fd as [He Ke]. unfold outgoing in He. apply filter_In in He as [He S]. apply Nat.eqb_eq in S.
      destruct (ek ed) as [i'| |] eqn:Kk; try discriminate. apply Nat.eqb_eq in Ke. subst i'.
      destruct (r_alias _ _ _ R ed idx He Kk) as (sn & ex & nm' & kd' & w' & G1 & U1 & N1 & V1 & V2).
      rewrite S, G in G1. injection G1 as <-. rewrite UE in U1. injection U1 as <-. rewrite Nt in N1. injection N1 as <- <-.
      rewrite S, V in V1. injection V1 as <-. rewrite (uo_text_intern U) in V2.
      exists (rs_g st), (etgt ed), vm. split; auto. split; [apply prefix_refl|]. split; auto. destruct st; exact R.
    - (* a new alias node *)
      destruct (r_free _ _ _ R) as [F Fp].
      destruct (add_node (rs_g st) (mk_node NAlias kd (npkg nd))) as [s1 idx1] eqn:A.
      apply add_node_nofree in A as (-> & Hn & F' & He & Hi & Hx & Hd & Hp & Hf); auto.
      set (len := length (nodes (rs_g st))). set (e0 := {| esrc := item; etgt := len; ek := EAlias idx |}).
      exists (add_edge s1 e0), len, (vm ++ [VAccess w nm]).
      split; auto. split; [apply prefix_snoc|].
      assert (Lv : length vm = len) by apply (r_len _ _ _ R).
      assert (Li : item < len).
      { apply nth_error_Some. unfold get_node in G. intros X. rewrite X in G. discriminate. }
      assert (Old : forall k nd0, get_node (rs_g st) k = Some nd0 -> get_node (add_edge s1 e0) k = Some nd0).
      { intros k nd0 G0. unfold get_node in *. cbn. rewrite Hn. now apply get_node_app_old. }
      assert (Vn : nth_error (vm ++ [VAccess w nm]) len = Some (VAccess w nm)).
      { rewrite nth_error_app2 by lia. rewrite Lv, Nat.sub_diag. reflexivity. }
      split; [|exact Vn].
      destruct (r_node _ _ _ R item nd w G V) as (HK0 & VK0 & _).
      eapply (Rel_frame st env vm); eauto; cbn [rs_g rs_scope].
      + split; cbn; congruence.
      + cbn. rewrite Hn, !app_length. cbn. lia.
      + apply prefix_snoc.
      + apply env_le_refl.
      + cbn. rewrite Hn, app_length. lia.
      + intros k nd0 G0. exists nd0. split; auto.
      + intros id p. unfold get_pkg. cbn. now rewrite Hp.
      + intros e Hin. cbn. right. now rewrite He.
      + intros e Hin. cbn in Hin. destruct Hin as [<-|Hin]; [|left; now rewrite <- He].
        right. cbn. rewrite Hn, app_length. cbn. fold len. split; [lia|]. split; [lia|]. split; [lia|].
        intros idx' [= <-]. exists nd, exN, (ru_intern u nm), kd, w. cbn.
        split; [now apply Old|]. split; auto. split; auto. split; [apply (prefix_nth _ _ _ _ (prefix_snoc vm _) V)|].
        now rewrite (uo_text_intern U).
      + intros k Lo Hi'. cbn in Hi'. rewrite Hn, app_length in Hi'. cbn in Hi'. assert (k = len) by (unfold len; lia). subst k.
        exists (mk_node NAlias kd (npkg nd)), (VAccess w nm). split.
        { unfold get_node. cbn. rewrite Hn. unfold len. rewrite nth_error_app2, Nat.sub_diag by lia. reflexivity. }
        split; [exact Vn|]. unfold node_ok. cbn.
        split; [eapply (uo_K_exports U); eauto; eapply nth_error_In; eauto|].
        split; [rewrite VK0; unfold inst_exports; rewrite UE; exact IG|]. split; [discriminate|].
        split; auto. exists item, idx. now left.
      + eapply scope_ok_mono; [apply prefix_snoc|apply (r_scope _ _ _ R)].
      + cbn. rewrite Hx. eapply exports_ok_mono; [apply prefix_snoc|apply (r_exports _ _ _ R)].
      + eapply imports_ok_mono; [apply prefix_snoc| | |apply (r_imports _ _ _ R)].
        * cbn. exact Hi.
        * intros k nd0 G0. exists nd0. split; [apply Old; exact G0|auto].
      + intros j Hj. destruct (r_insts _ _ _ R j Hj) as (k & Vk). exists k. eapply prefix_nth; eauto. apply prefix_snoc.
  Qed.
End Sim.
